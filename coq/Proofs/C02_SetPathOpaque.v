(* Proofs/C02_SetPathOpaque.v - L2 for Url::set_path on the canonical records with an OPAQUE path (class (i)), outside
   F-C02-3 ('?' or '#' in the argument: the setter context of the opaque-path state does not stop at them and CONTROLS
   does not escape them; or the argument ends in a space).
   The setter writes, behind scheme ":", "%2F" when the tab/LF/CR-free argument starts with '/', then the CONTROLS
   encoding of the (rest of the) argument without tab / LF / CR; query and fragment are re-attached.  The new path is
   CONTROLS-clean, has no '?' '#', does not start with '/', and does not end in a space: the canonical opaque record. *)
From RU Require Import Base.Prelude Base.Utf8 Base.Utf8Facts Model.AsciiSet Gen.Tables
  Model.PercentEncoding Model.HostT Model.UrlRecord Model.Parser Model.Setters Model.WF
  Proofs.ListN Proofs.C14_Enc Proofs.C02_Enc Proofs.C02_Parts Proofs.C02_Opaque Proofs.C02_Path Proofs.C02_PathL1 Proofs.C02_Reach
  Proofs.C02_AuthParts Proofs.C02_Auth Proofs.C02_AuthMain Proofs.C02_SetQF Proofs.C02_Canon Proofs.C02_SetPort Proofs.C02_Hist
  Proofs.C02_SetCred Proofs.C02_SetPath Proofs.C02_SetPathNoAuth.
Open Scope N_scope.
Open Scope list_scope.

Definition no_tnl (l : list N) : list N := filter (fun c => negb (is_tnl c)) l.

Lemma usv_no_tnl l : usv_list l -> usv_list (no_tnl l).
Proof.
  induction l as [|c r IH]; intros H; [constructor|]. apply usv_cons in H. destruct H as [Hc Hr].
  unfold no_tnl. cbn [filter]. destruct (negb (is_tnl c)); [apply usv_cons; split; [exact Hc | exact (IH Hr)] | exact (IH Hr)].
Qed.

(* the opaque-path state in the setter context: no stop at '?' / '#' *)
Lemma cbb_setter_spec l : forall ser, usv_list l ->
  parse_cannot_be_a_base_path CSetter ser l = (ser ++ encode T_CONTROLS (utf8_encode (no_tnl l)), []).
Proof.
  induction l as [|c r IH]; intros ser H.
  - cbn. rewrite app_nil_r. reflexivity.
  - apply usv_cons in H. destruct H as [Hc Hr]. unfold no_tnl. cbn [parse_cannot_be_a_base_path filter].
    destruct (is_tnl c); cbn [negb]; [apply IH; exact Hr|].
    cbn [ctx_eqb]. rewrite andb_false_r. rewrite IH by exact Hr.
    rewrite push_encoded_eq by (constructor; [exact Hc | constructor]).
    rewrite <- app_assoc. change (c :: filter (fun c0 => negb (is_tnl c0)) r) with ([c] ++ no_tnl r).
    rewrite enc_utf8_app. reflexivity.
Qed.

Lemma inp_next_no_tnl l : match inp_next l with
                          | Some (c, r) => no_tnl l = c :: no_tnl r
                          | None => no_tnl l = []
                          end.
Proof.
  unfold inp_next. induction l as [|c r IH]; [reflexivity|]. cbn [drop_while]. unfold no_tnl. cbn [filter].
  destruct (is_tnl c); cbn [negb]; [exact IH | reflexivity].
Qed.

(* the new path text *)
Definition opq_path (x : list N) : list N :=
  match no_tnl x with
  | 47 :: r => [37; 50; 70] ++ encode T_CONTROLS (utf8_encode r)
  | l => encode T_CONTROLS (utf8_encode l)
  end.

Lemma opq_arg x s0 : usv_list x ->
  fst (let '(s, p') := match inp_split_prefix_char 47 (input_new_no_trim x) with
                       | Some r => (s0 ++ [37; 50; 70], r)
                       | None => (s0, input_new_no_trim x)
                       end in parse_cannot_be_a_base_path CSetter s p') = s0 ++ opq_path x.
Proof.
  intros Hx. unfold input_new_no_trim, inp_split_prefix_char, opq_path. pose proof (inp_next_no_tnl x) as Hn.
  destruct (inp_next x) as [[c r]|] eqn:En.
  - assert (usv_list r) as Hr.
    { assert (usv_list (no_tnl x)) as H1 by (apply usv_no_tnl; exact Hx). clear - En Hx.
      unfold inp_next in En. revert En. induction x as [|a x IH]; [discriminate|]. cbn [drop_while].
      apply usv_cons in Hx. destruct Hx as [_ Hx]. destruct (is_tnl a); [exact (IH Hx)|]. intros E. inversion E; subst. exact Hx. }
    rewrite Hn. destruct (c =? 47) eqn:Ec.
    + apply N.eqb_eq in Ec. subst c. rewrite (cbb_setter_spec r _ Hr). cbn [fst]. rewrite <- app_assoc. reflexivity.
    + rewrite (cbb_setter_spec x _ Hx). cbn [fst]. rewrite Hn.
      destruct c as [|pc]; [reflexivity|]. do 6 (destruct pc as [pc|pc|]; try reflexivity). discriminate Ec.
  - rewrite (cbb_setter_spec x _ Hx). cbn [fst]. rewrite Hn. reflexivity.
Qed.

Lemma opq_arg_some x s0 : usv_list x ->
  (let '(s, p') := match inp_split_prefix_char 47 (input_new_no_trim x) with
                   | Some r => (s0 ++ [37; 50; 70], r)
                   | None => (s0, input_new_no_trim x)
                   end in Some (fst (parse_cannot_be_a_base_path CSetter s p'))) = Some (s0 ++ opq_path x).
Proof.
  intros Hx. rewrite <- (opq_arg x s0 Hx). destruct (inp_split_prefix_char 47 (input_new_no_trim x)); reflexivity.
Qed.

(* ---------- the new path is a canonical opaque path ---------- *)
Lemma hex_sweep (Q : N -> bool) : all_below 16 (fun d => Q (hex_upper d)) = true -> forall d, d < 16 -> Q (hex_upper d) = true.
Proof. intros H d Hd. exact (all_below_spec 16 _ H d Hd). Qed.

Lemma enc_forall_Q (Q : N -> bool) L : Q 37 = true -> all_below 16 (fun d => Q (hex_upper d)) = true -> usv_list L ->
  Forall (fun c => kept T_CONTROLS c = true -> Q c = true) L -> forallb Q (encode T_CONTROLS (utf8_encode L)) = true.
Proof. intros H1 H2 H3 H4. exact (encode_utf8_forallb T_CONTROLS Q L H1 (hex_sweep Q H2) H3 H4). Qed.

Lemma last_Q (Q : N -> bool) A Bs : Bs <> [] -> forallb Q Bs = true ->
  match rev (A ++ Bs) with [] => True | c :: _ => Q c = true end.
Proof.
  intros Hne HQ. rewrite rev_app_distr. destruct (rev Bs) as [|c r] eqn:E.
  - exfalso. apply Hne. rewrite <- (rev_involutive Bs), E. reflexivity.
  - cbn [app]. rewrite forallb_forall in HQ. apply HQ. apply in_rev. rewrite E. left. reflexivity.
Qed.

Lemma kept_CONTROLS_gt32 : kept_sat T_CONTROLS (fun c => (c =? 32) || negb (c <=? 32)) = true. Proof. vm_compute. reflexivity. Qed.

Lemma enc_last_ok pre L : pre = [] \/ pre = [37; 50; 70] -> usv_list L ->
  match rev L with 32 :: _ => False | _ => True end ->
  first_ok (rev (pre ++ encode T_CONTROLS (utf8_encode L))).
Proof.
  intros Hpre HL Hlast. destruct (rev L) as [|c r'] eqn:E.
  - assert (L = []) as -> by (rewrite <- (rev_involutive L), E; reflexivity).
    change (encode T_CONTROLS (utf8_encode [])) with (@nil N). rewrite app_nil_r.
    destruct Hpre as [-> | ->]; [exact I | reflexivity].
  - assert (L = rev r' ++ [c]) as EL by (rewrite <- (rev_involutive L), E; reflexivity).
    assert (c <> 32) as Hc by (intros ->; exact Hlast).
    rewrite EL in HL |- *. apply usv_app in HL. destruct HL as [_ HL1].
    rewrite enc_utf8_app. rewrite app_assoc.
    set (Q := fun b : N => negb (b <=? 32)).
    assert (forallb Q (encode T_CONTROLS (utf8_encode [c])) = true) as HQ.
    { apply enc_forall_Q; [reflexivity | vm_compute; reflexivity | exact HL1 |].
      constructor; [|constructor]. intros Hk.
      pose proof (clean_forallb T_CONTROLS _ [c] kept_CONTROLS_gt32) as G. unfold clean in G. cbn [forallb] in G.
      rewrite Hk in G. specialize (G eq_refl). rewrite andb_true_r in G. unfold Q.
      apply orb_true_iff in G. destruct G as [G|G]; [apply N.eqb_eq in G; contradiction | exact G]. }
    assert (encode T_CONTROLS (utf8_encode [c]) <> []) as Hne.
    { intros En. apply (proj1 (encode_nil_iff _ _)) in En. apply (proj1 (utf8_encode_nil_iff' _)) in En. discriminate En. }
    pose proof (last_Q Q (pre ++ encode T_CONTROLS (utf8_encode (rev r'))) _ Hne HQ) as G.
    destruct (rev ((pre ++ encode T_CONTROLS (utf8_encode (rev r'))) ++ encode T_CONTROLS (utf8_encode [c]))) as [|b t]; [exact I|].
    cbn [first_ok]. unfold Q in G. unfold is_c0_or_space. apply negb_true_iff in G. exact G.
Qed.

Lemma no_tnl_forall (Q : N -> Prop) x : Forall Q x -> Forall Q (no_tnl x).
Proof.
  intros H. apply Forall_forall. intros c Hc. unfold no_tnl in Hc. apply filter_In in Hc. rewrite Forall_forall in H. exact (H c (proj1 Hc)).
Qed.

Lemma no_tnl_not_tnl x : Forall (fun c => is_tnl c = false) (no_tnl x).
Proof.
  apply Forall_forall. intros c Hc. unfold no_tnl in Hc. apply filter_In in Hc. destruct Hc as [_ Hc]. apply negb_true_iff in Hc. exact Hc.
Qed.

Lemma Forall_tl {A} (Q : A -> Prop) a l : Forall Q (a :: l) -> Forall Q l.
Proof. intros H. inversion H; assumption. Qed.

Theorem opq_path_ok x : usv_list x -> existsb (fun c => (c =? 63) || (c =? 35)) x = false -> ends_in_space x = false ->
  clean T_CONTROLS (opq_path x) = true /\ forallb not_tnl_qh (opq_path x) = true /\ starts_with [47] (opq_path x) = false
  /\ first_ok (rev (opq_path x)).
Proof.
  intros Hx Hqh Hsp.
  assert (usv_list (no_tnl x)) as HL by (apply usv_no_tnl; exact Hx).
  assert (Forall (fun c => kept T_CONTROLS c = true -> not_tnl_qh c = true) (no_tnl x)) as HQ.
  { pose proof (no_tnl_not_tnl x) as H1.
    assert (Forall (fun c => (c =? 63) || (c =? 35) = false) (no_tnl x)) as H2.
    { apply no_tnl_forall. apply Forall_forall. intros c Hc.
      destruct ((c =? 63) || (c =? 35)) eqn:E; [|reflexivity]. exfalso.
      assert (existsb (fun c => (c =? 63) || (c =? 35)) x = true) as Ht by (apply existsb_exists; exists c; split; assumption).
      rewrite Ht in Hqh. discriminate Hqh. }
    rewrite Forall_forall in *. intros c Hc _. unfold not_tnl_qh, not_tnl, is_qh. rewrite (H1 c Hc), (H2 c Hc). reflexivity. }
  assert (match rev (no_tnl x) with 32 :: _ => False | _ => True end) as Hlast.
  { unfold ends_in_space in Hsp. fold (no_tnl x) in Hsp. destruct (rev (no_tnl x)) as [|c r]; [exact I|].
    destruct c as [|pc]; [exact I|]. do 6 (destruct pc as [pc|pc|]; try exact I). discriminate Hsp. }
  unfold opq_path. destruct (no_tnl x) as [|c L] eqn:EL.
  - repeat split; reflexivity.
  - assert (usv_list L) as HL' by (apply usv_cons in HL; tauto).
    assert (forall l, usv_list l -> Forall (fun c => kept T_CONTROLS c = true -> not_tnl_qh c = true) l ->
              clean T_CONTROLS (encode T_CONTROLS (utf8_encode l)) = true
              /\ forallb not_tnl_qh (encode T_CONTROLS (utf8_encode l)) = true) as G.
    { intros l Hl Hq. split; [apply encode_is_clean; [exact stable_CONTROLS | apply utf8_encode_bytes; exact Hl]|].
      apply enc_forall_Q; [reflexivity | vm_compute; reflexivity | exact Hl | exact Hq]. }
    destruct (c =? 47) eqn:Ec.
    + apply N.eqb_eq in Ec. subst c. destruct (G L HL' (Forall_tl _ _ _ HQ)) as [G1 G2].
      split; [rewrite clean_app, G1; reflexivity|]. split; [rewrite forallb_app, G2; reflexivity|]. split; [reflexivity|].
      apply enc_last_ok; [right; reflexivity | exact HL' |]. cbn [rev] in Hlast.
      destruct (rev L) as [|c r]; [exact I|]. cbn [app] in Hlast. exact Hlast.
    + assert ((match c :: L with 47 :: r => [37; 50; 70] ++ encode T_CONTROLS (utf8_encode r) | l => encode T_CONTROLS (utf8_encode l) end)
              = encode T_CONTROLS (utf8_encode (c :: L))) as ->.
      { destruct c as [|pc]; [reflexivity|]. do 6 (destruct pc as [pc|pc|]; try reflexivity). discriminate Ec. }
      destruct (G (c :: L) HL HQ) as [G1 G2]. split; [exact G1|]. split; [exact G2|]. split.
      * (* first byte: c itself or '%' *)
        assert (is_usv c) as Hc by (apply usv_cons in HL; tauto).
        unfold utf8_encode. cbn [flat_map]. rewrite encode_app. apply N.eqb_neq in Ec.
        unfold utf8_encode1. destruct (c <? 128) eqn:E1; [|destruct (c <? 2048) eqn:E2; [|destruct (c <? 65536) eqn:E3]];
          rewrite encode_cons; unfold enc1;
          match goal with |- context [if ?b then _ else _] => destruct b end; unfold enc_byte_spec; cbn [app starts_with];
          try reflexivity; apply andb_false_intro1; apply N.eqb_neq; lia.
      * change (encode T_CONTROLS (utf8_encode (c :: L))) with ([] ++ encode T_CONTROLS (utf8_encode (c :: L))).
        apply enc_last_ok; [left; reflexivity | exact HL | exact Hlast].
Qed.

(* ---------- the setter on the canonical opaque record ---------- *)
Section OpaquePath.
Variable dbg : bool.

Theorem set_path_opaque sch P q f x u' : opaque_ok sch P q f -> usv_list x ->
  set_path dbg (opaque_url sch P q f) x = Some u' -> u' = opaque_url sch (opq_path x) q f.
Proof.
  intros K Hx. rewrite opaque_url_qf. unfold opaque_pre. unfold set_path. rewrite take_after_path_qfn. cbn [bindo].
  assert (cannot_be_a_base (mkUrl ((sch ++ [58]) ++ P) (nlen sch) (nlen (sch ++ [58])) (nlen (sch ++ [58])) (nlen (sch ++ [58])) HI_None None
                                  (nlen (sch ++ [58])) (qf_qs (nlen ((sch ++ [58]) ++ P)) q) (qf_fs (nlen ((sch ++ [58]) ++ P)) q f)) = Some true) as ->.
  { unfold cannot_be_a_base, u_slice_from. cbn [ser scheme_end].
    replace (nlen sch + 1) with (nlen (sch ++ [58])) by (rewrite nlen_app; reflexivity).
    rewrite slice_from_o_some by (rewrite (nlen_app (sch ++ [58])); lia). rewrite nskipn_app_len. cbn [bindo].
    rewrite (ok_Ph _ _ _ _ K). reflexivity. }
  cbn [bindo]. unfold u_scheme_type, scheme, u_slice_to. cbn [ser scheme_end].
  rewrite <- (app_assoc sch [58]). rewrite slice_to_o_some by (rewrite (nlen_app sch); lia). rewrite nfirstn_app_len.
  cbn [bindo path_start]. unfold truncate. rewrite (app_assoc sch [58]). rewrite nfirstn_app_len.
  rewrite (opq_arg_some x (sch ++ [58]) Hx). cbn [bindo].
  unfold restore_after_path, set_ser. cbn [ser query_start fragment_start scheme_end username_end host_start host_end hosti port path_start].
  rewrite (adjust_qs0 dbg), (adjust_fs0 dbg). cbn [bindo].
  intros E. inversion E; subst u'. reflexivity.
Qed.

Variable hp hpo : list N -> result host.
Variable hd : host -> list N.

Theorem set_path_opaque_Canon sch P q f x u' : opaque_ok sch P q f -> usv_list x ->
  Known_F_C02_3 (opaque_url sch P q f) (OSetPath x) = false ->
  set_path dbg (opaque_url sch P q f) x = Some u' -> nlen (ser u') <= U32_MAX_P -> Canon hp hpo hd u'.
Proof.
  intros K Hx K3 E Hb. rewrite (set_path_opaque sch P q f x u' K Hx E) in *. apply Canon_opaque.
  assert (is_cbb (opaque_url sch P q f) = true) as Hc.
  { unfold is_cbb. cbn [opaque_url ser scheme_end]. unfold opaque_ser, opaque_pre.
    replace (nlen sch + 1) with (nlen (sch ++ [58])) by (rewrite nlen_app; reflexivity).
    rewrite <- app_assoc. rewrite nskipn_app_len.
    destruct P as [|c r]; cbn [app].
    - unfold qf_text. destruct q; [reflexivity|]. destruct f; reflexivity.
    - pose proof (ok_Ph _ _ _ _ K) as H. cbn [starts_with] in *. rewrite H. reflexivity. }
  unfold Known_F_C02_3 in K3. rewrite Hc in K3. cbn [andb] in K3. apply orb_false_iff in K3. destruct K3 as [K3a K3b].
  destruct (opq_path_ok x Hx K3a K3b) as (O1 & O2 & O3 & O4).
  destruct K as [Ksch Kns KP KPq KPh Kq Kf Klast Kb1 Kbq Kbf].
  cbn [opaque_url ser] in Hb. unfold opaque_ser in Hb. destruct (qf_bounds _ _ _ _ Hb) as [B1 B2].
  constructor; try assumption. intros _ _. exact O4.
Qed.
End OpaquePath.
