(* Proofs/C07_EqSearchHash.v - C07 equivalence for the hash and the search setters: on every pair of
   related records (Proofs/C07_Corr.v corr) and for every value, url::quirks::set_hash / set_search
   do not panic and leave a record that is related to the result of the Standard's hash / search
   attribute setter (fragment / query state with a state override, special-query set chosen by the
   scheme, trailing spaces of an opaque path stripped when query and fragment have both become null). *)
From RU Require Import Base.Prelude Base.Utf8 Base.Utf8Facts Model.AsciiSet Gen.Tables Model.PercentEncoding
  Model.HostT Model.UrlRecord Model.Parser Model.Setters Model.WF Model.KnownC01 Model.KnownC07 Spec.Whatwg
  Proofs.ListN Proofs.C03_WF Proofs.C06_List Proofs.C06_WFI Proofs.C06_Tail Proofs.C06_Suffix Proofs.C06_Front
  Proofs.C06_Steps Proofs.C06_FragQuery Proofs.C06_Port Proofs.C06_Main
  Proofs.C02_Enc Proofs.C01_Tables Proofs.C01_EqRun Proofs.C01_EqEnc Proofs.C01_EqApi
  Proofs.C07_Defs Proofs.C07_Setters Proofs.C07_GetSet Proofs.C07_Corr Proofs.C07_SpecRun.

(* ---------- texts ---------- *)
Lemma notnl_is_filter x : notnl x = filter not_tnl x.
Proof. reflexivity. Qed.

Lemma filter_rev_N (p : N -> bool) l : filter p (rev l) = rev (filter p l).
Proof.
  induction l as [|c r IH]; [reflexivity|]. cbn [rev filter]. rewrite filter_app, IH. cbn [filter].
  destruct (p c); [reflexivity | apply app_nil_r].
Qed.

Lemma filter_drop_while_tnl l : filter not_tnl (drop_while is_tnl l) = filter not_tnl l.
Proof.
  induction l as [|c r IH]; [reflexivity|]. cbn [drop_while filter]. unfold not_tnl at 2.
  destruct (is_tnl c) eqn:E; cbn [negb]; [exact IH|]. cbn [filter]. unfold not_tnl at 1. rewrite E. reflexivity.
Qed.

Lemma filter_trim_tnl x : filter not_tnl (input_new_trim_tnl x) = filter not_tnl x.
Proof.
  unfold input_new_trim_tnl, trim_matches.
  rewrite filter_rev_N, filter_drop_while_tnl, filter_rev_N, rev_involutive. apply filter_drop_while_tnl.
Qed.

Lemma fragment_text_bridge x : usv_list x -> tnl_text T_FRAGMENT x = upe in_fragment_set (notnl x).
Proof.
  intros H. rewrite (tnl_text_spec _ _ H). change (notnl x) with (filter not_tnl x).
  apply (enc_bridge T_FRAGMENT in_fragment_set _ rel_FRAGMENT).
Qed.

Lemma rstrip_is_strip_trailing p : rstrip (fun c => c =? 32) p = strip_trailing (fun c => c =? 32) p.
Proof.
  unfold rstrip, strip_trailing.
  rewrite (drop_leading_is_drop_while (fun c => c =? 32) (fun c => c =? 32) (rev p) (fun c => eq_refl)). reflexivity.
Qed.

(* potentially strip trailing spaces from an opaque path, as a test *)
Definition strips (su : spec_url) : bool :=
  has_opaque_path su && negb (opt_is_some (su_fragment su)) && negb (opt_is_some (su_query su)).

Lemma pstrip_eval su :
  potentially_strip_trailing_spaces su
  = if strips su then set_path su (SPOpaque (strip_trailing (fun c => c =? 32) (serialize_path su))) else su.
Proof.
  unfold potentially_strip_trailing_spaces, strips, has_opaque_path, serialize_path.
  destruct (su_path su) as [p|l]; [|reflexivity].
  destruct (opt_is_some (su_fragment su)); [reflexivity|]. destruct (opt_is_some (su_query su)); reflexivity.
Qed.

Section SearchHash.
Variable dbg : bool.
Variable shp : bool -> list N -> option spec_host.
Variable shs : spec_host -> list N.

Notation corr := (corr dbg shs).

(* ---------- a change behind the path: the relation is re-established from the read-backs ---------- *)
Lemma corr_tail u su u' su' : corr u su ->
  wf_b u' = true -> same_front dbg u u' -> same_main u u' ->
  su_scheme su' = su_scheme su -> su_username su' = su_username su -> su_password su' = su_password su ->
  su_host su' = su_host su -> su_port su' = su_port su ->
  path u' = Some (serialize_path su') -> query dbg u' = Some (su_query su') ->
  fragment dbg u' = Some (su_fragment su') ->
  spec_marker su' = spec_marker su -> has_opaque_path su' = has_opaque_path su ->
  starts_with [47] (serialize_path su') = starts_with [47] (serialize_path su) ->
  corr u' su'.
Proof.
  intros [W HT Es Eun Epw Eh Ehh Ea Eat Epo Ept Eq Ef Em Eo Ec] W' (F1 & F2 & F3 & F4 & F5) SM
    S1 S2 S3 S4 S5 P' Q' Fr' M' O' St'.
  pose proof (same_main_auth u u' W W' SM) as Ha'.
  destruct SM as (M1 & M2 & M3 & M4 & M5 & M6 & M7).
  constructor.
  - exact W'.
  - exact (host_text_ok_of_host_str u u' W W' F4 M3 M4 M5 HT).
  - rewrite F1, S1. exact Es.
  - rewrite F2, S2. exact Eun.
  - rewrite F3, S3. exact Epw.
  - rewrite F4, S4. exact Eh.
  - unfold has_host. rewrite M5, S4. exact Ehh.
  - rewrite Ha', S4. exact Ea.
  - rewrite Ha', M2, M3. unfold includes_credentials. rewrite S2, S3. exact Eat.
  - rewrite F5, S5. exact Epo.
  - exact P'.
  - exact Q'.
  - exact Fr'.
  - rewrite Ha', M7, M1, M'. exact Em.
  - rewrite (is_opaque_by_path u' _ W' P'), Ha', M7, M1, St', O', <- Eo.
    symmetry. apply (is_opaque_by_path u _ W Ept).
  - rewrite S2. exact Ec.
Qed.

(* the spaces at the end of an opaque path are stripped on both sides or on neither *)
Lemma corr_strip u su u' su0 (applies : bool) : corr u su ->
  wf_b u' = true -> same_front dbg u u' -> same_main u u' ->
  su_scheme su0 = su_scheme su -> su_username su0 = su_username su -> su_password su0 = su_password su ->
  su_host su0 = su_host su -> su_port su0 = su_port su -> su_path su0 = su_path su ->
  query dbg u' = Some (su_query su0) -> fragment dbg u' = Some (su_fragment su0) ->
  applies = strips su0 ->
  (if applies then exists p, path u = Some p /\ path u' = Some (rstrip (fun c => c =? 32) p) else path u' = path u) ->
  corr u' (potentially_strip_trailing_spaces su0).
Proof.
  intros C W' SF SM S1 S2 S3 S4 S5 S6 Q' Fr' Happ P'.
  assert (serialize_path su0 = serialize_path su) as Esp by (unfold serialize_path; rewrite S6; reflexivity).
  assert (spec_marker su0 = spec_marker su) as Em by (unfold spec_marker; rewrite S4, S6; reflexivity).
  assert (has_opaque_path su0 = has_opaque_path su) as Eop by (unfold has_opaque_path; rewrite S6; reflexivity).
  rewrite pstrip_eval, <- Happ. destruct applies.
  - destruct P' as (p & Pa & Pb). rewrite (co_path _ _ _ _ C) in Pa. injection Pa as Pa.
    symmetry in Happ. unfold strips in Happ. apply andb_true_iff in Happ. destruct Happ as [Happ _].
    apply andb_true_iff in Happ. destruct Happ as [Hop _].
    assert (su_host su = None -> spec_marker su = false) as Hm.
    { intros _. rewrite <- Em. unfold spec_marker, has_opaque_path in *. destruct (su_host su0); [reflexivity|].
      destruct (su_path su0); [reflexivity | discriminate]. }
    apply (corr_tail u su u' _ C W' SF SM); cbn [set_path su_scheme su_username su_password su_host su_port su_query su_fragment];
      try assumption.
    + unfold serialize_path. cbn [set_path su_path]. fold (serialize_path su0).
      rewrite Pb, Esp, <- Pa. f_equal; try apply rstrip_is_strip_trailing.
    + rewrite <- Em. unfold spec_marker. cbn [set_path su_host su_path].
      unfold has_opaque_path in Hop. destruct (su_host su0); [reflexivity|].
      destruct (su_path su0); [reflexivity | discriminate].
    + rewrite <- Eop. unfold has_opaque_path in *. cbn [set_path su_path]. symmetry. exact Hop.
    + unfold serialize_path at 1. cbn [set_path su_path]. rewrite <- rstrip_is_strip_trailing.
      rewrite starts_with_rstrip_47, Esp. reflexivity.
  - apply (corr_tail u su u' su0 C W' SF SM); try assumption.
    + rewrite P', Esp. exact (co_path _ _ _ _ C).
    + rewrite Esp. reflexivity.
Qed.

(* ---------- hash ---------- *)
Theorem hash_step u su v : corr u su -> usv_list v ->
  exists u' su', q_set_hash dbg u v = Some u' /\ spec_step shp QHash su v = Some su' /\ corr u' su'.
Proof.
  intros C Hv. pose proof (co_wf _ _ _ _ C) as W.
  rewrite q_set_hash_arg. unfold spec_step. cbn [setter_of_q]. rewrite spec_set_hash_arg.
  destruct (set_fragment_ok dbg u (setter_arg 35 v) W) as (u' & E & W' & SF & SM & Q' & F' & P').
  exists u'. rewrite E.
  pose proof (setter_arg_usv 35 v Hv) as Hx.
  destruct (setter_arg 35 v) as [x|].
  - rewrite spec_hash_some. eexists. split; [reflexivity|]. split; [reflexivity|].
    apply (corr_tail u su u' _ C W' SF SM); try reflexivity.
    + cbn [set_fragment su_path]. rewrite P'. exact (co_path _ _ _ _ C).
    + rewrite Q'. exact (co_query _ _ _ _ C).
    + rewrite F'. cbn [set_fragment su_fragment]. rewrite (fragment_text_bridge x Hx). reflexivity.
  - eexists. split; [reflexivity|]. split; [reflexivity|].
    apply (corr_strip u su u' (set_fragment su None) (opaque_strip_applies u) C W' SF SM); try reflexivity.
    + rewrite Q'. exact (co_query _ _ _ _ C).
    + exact F'.
    + unfold opaque_strip_applies, strips. cbn [set_fragment su_fragment su_query opt_is_some negb].
      rewrite (co_opaque _ _ _ _ C), (has_some_query u dbg _ W (co_query _ _ _ _ C)).
      unfold has_opaque_path. cbn [set_fragment su_path]. rewrite andb_true_r. reflexivity.
    + exact P'.
Qed.

(* ---------- search ---------- *)
Lemma query_text_bridge u su x : corr u su -> usv_list x -> query_text u x = upe (qset_of su) (notnl x).
Proof.
  intros C Hx. pose proof (co_wf _ _ _ _ C) as W. unfold query_text.
  rewrite (tnl_text_spec _ (input_new_trim_tnl x) (trim_matches_usv is_tnl x Hx)). rewrite filter_trim_tnl.
  assert (nfirstn (scheme_end u) (ser u) = su_scheme su) as Es.
  { pose proof (co_scheme _ _ _ _ C) as Es. rewrite (scheme_eval u W) in Es. injection Es as Es.
    rewrite <- Es. unfold piece. cbn [pidx]. rewrite N.sub_0_r, nskipn_0. reflexivity. }
  rewrite Es. unfold query_set, qset_of, is_special. rewrite special_schemes_are_the_standards.
  change (notnl x) with (filter not_tnl x).
  destruct (is_special_scheme (su_scheme su)); apply enc_bridge; [exact rel_SPECIAL_QUERY | exact rel_QUERY].
Qed.

Theorem search_step u su v : corr u su -> usv_list v ->
  exists u' su', q_set_search dbg u v = Some u' /\ spec_step shp QSearch su v = Some su' /\ corr u' su'.
Proof.
  intros C Hv. pose proof (co_wf _ _ _ _ C) as W.
  rewrite q_set_search_arg. unfold spec_step. cbn [setter_of_q]. rewrite spec_set_search_arg.
  pose proof (setter_arg_usv 63 v Hv) as Hx.
  destruct (set_query_ok dbg u (setter_arg 63 v) W Hx) as (u' & E & W' & SF & SM & F' & Q' & P').
  exists u'. rewrite E.
  destruct (setter_arg 63 v) as [x|].
  - rewrite spec_search_some. eexists. split; [reflexivity|]. split; [reflexivity|].
    apply (corr_tail u su u' _ C W' SF SM); try reflexivity.
    + cbn [set_query su_path]. rewrite P'. exact (co_path _ _ _ _ C).
    + rewrite Q'. cbn [set_query su_query]. rewrite (query_text_bridge u su x C Hx). reflexivity.
    + rewrite F'. exact (co_frag _ _ _ _ C).
  - eexists. split; [reflexivity|]. split; [reflexivity|].
    apply (corr_strip u su u' (set_query su None) (is_opaque_b u && negb (has_some (fragment_start u))) C W' SF SM);
      try reflexivity.
    + exact Q'.
    + rewrite F'. exact (co_frag _ _ _ _ C).
    + unfold strips. cbn [set_query su_fragment su_query opt_is_some negb].
      rewrite (co_opaque _ _ _ _ C), (has_some_fragment u dbg _ W (co_frag _ _ _ _ C)).
      unfold has_opaque_path. cbn [set_query su_path]. rewrite andb_true_r. reflexivity.
    + exact P'.
Qed.

End SearchHash.
