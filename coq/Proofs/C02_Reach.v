(* Proofs/C02_Reach.v - the quantifier of C02: every Url obtainable through the modelled public
   API (parse, join, every mutator of Model/Setters.v with arbitrary arguments), the computable
   classes of the pre-existing defects that are excluded, and witnesses (by computation) showing
   that each excluded class really contains a history whose result is not a fixpoint of
   serialize-then-parse. *)
From Coq Require Import String Ascii.
From RU Require Import Base.Prelude Base.Utf8 Base.Utf8Facts Model.AsciiSet Gen.Tables
  Model.PercentEncoding Model.HostT Model.UrlRecord Model.Parser Model.Setters Model.WF.

(* ASCII string literal -> list of code points / bytes *)
Definition B (s : string) : list N := List.map N_of_ascii (list_ascii_of_string s).

(* ---------- operations as data ---------- *)
Inductive op :=
| OSetFragment (f : option (list N))
| OSetQuery (q : option (list N))
| OSetPath (p : list N)
| OSetPort (p : option N)
| OSetHost (h : option (list N))
| OSetIpHost (h : host)
| OSetPassword (p : option (list N))
| OSetUsername (s : list N)
| OSetScheme (s : list N)
| OPathSegments (ops : list psm_op)          (* one editing session: open, operations, drop *)
| OQProtocol (s : list N) | OQUsername (s : list N) | OQPassword (s : list N)
| OQHost (s : list N) | OQHostname (s : list N) | OQPort (s : list N)
| OQPathname (s : list N) | OQSearch (s : list N) | OQHash (s : list N).

Definition usv_opt (o : option (list N)) : Prop := match o with Some s => usv_list s | None => True end.
Definition psm_op_ok (o : psm_op) : Prop :=
  match o with
  | PPush s => usv_list s
  | PExtend ss => Forall usv_list ss
  | _ => True
  end.

(* arguments are Rust values: &str = scalar values, u16, IpAddr *)
Definition op_args_ok (o : op) : Prop :=
  match o with
  | OSetFragment f => usv_opt f
  | OSetQuery q => usv_opt q
  | OSetPath p => usv_list p
  | OSetPort p => match p with Some n => n <= 65535 | None => True end
  | OSetHost h => usv_opt h
  | OSetIpHost h => match h with
                    | HIpv4 a => a < 4294967296
                    | HIpv6 p => length p = 8%nat /\ Forall (fun x => x < 65536) p
                    | HDomain _ => False
                    end
  | OSetPassword p => usv_opt p
  | OSetUsername s | OSetScheme s | OQProtocol s | OQUsername s | OQPassword s | OQHost s | OQHostname s
  | OQPort s | OQPathname s | OQSearch s | OQHash s => usv_list s
  | OPathSegments ops => Forall psm_op_ok ops
  end.

Section Reach.
Variable dbg : bool.
Variable hp hpo : list N -> result host.
Variable hd : host -> list N.

(* None = the Rust code panics: no Url value results *)
Definition apply_op (u : url) (o : op) : option url :=
  match o with
  | OSetFragment f => set_fragment dbg u f
  | OSetQuery q => set_query dbg u q
  | OSetPath p => set_path dbg u p
  | OSetPort p => option_map fst (set_port dbg u p)
  | OSetHost h => option_map fst (set_host dbg hp hpo hd u h)
  | OSetIpHost h => option_map fst (set_ip_host dbg hd u h)
  | OSetPassword p => option_map fst (set_password dbg u p)
  | OSetUsername s => option_map fst (set_username dbg u s)
  | OSetScheme s => option_map fst (set_scheme dbg u s)
  | OPathSegments ops => option_map fst (path_segments_session dbg u ops)
  | OQProtocol s => option_map fst (q_set_protocol dbg u s)
  | OQUsername s => option_map fst (q_set_username dbg u s)
  | OQPassword s => option_map fst (q_set_password dbg u s)
  | OQHost s => option_map fst (q_set_host dbg hp hpo hd u s)
  | OQHostname s => option_map fst (q_set_hostname dbg hp hpo hd u s)
  | OQPort s => option_map fst (q_set_port dbg u s)
  | OQPathname s => q_set_pathname dbg u s
  | OQSearch s => q_set_search dbg u s
  | OQHash s => q_set_hash dbg u s
  end.

(* ---------- the excluded classes (all pre-existing defects of the pinned tree) ---------- *)
Definition scheme_of (u : url) : list N := nfirstn (scheme_end u) (ser u).
Definition path_of (u : url) : list N :=
  match query_start u, fragment_start u with
  | Some i, _ | None, Some i => nfirstn (i - path_start u) (nskipn (path_start u) (ser u))
  | None, None => nskipn (path_start u) (ser u)
  end.
Definition is_cbb (u : url) : bool := negb (starts_with [47] (nskipn (scheme_end u + 1) (ser u))).
Definition has_marker (u : url) : bool := negb (has_authority_b u) && (path_start u =? scheme_end u + 3).
Definition path_leads_ss (u : url) : bool := starts_with s_ss (nskipn (path_start u) (ser u)).

(* F-C03-5: a host or path setter applied to an authority-less URL serialised with the "/." marker *)
Definition is_host_or_path_op (o : op) : bool :=
  match o with
  | OSetHost _ | OSetIpHost _ | OQHost _ | OQHostname _ | OSetPath _ | OQPathname _ | OPathSegments _ => true
  | _ => false
  end.
Definition Known_F_C03_5 (u : url) (o : op) : bool := has_marker u && is_host_or_path_op o.

(* F-C02-3: set_path on an opaque path with '?' / '#' in the argument, or a trailing space *)
Definition ends_in_space (p : list N) : bool :=
  match rev (filter (fun c => negb (is_tnl c)) p) with 32 :: _ => true | _ => false end.
Definition Known_F_C02_3 (u : url) (o : op) : bool :=
  match o with
  | OSetPath p => is_cbb u && (existsb (fun c => (c =? 63) || (c =? 35)) p || ends_in_space p)
  | _ => false
  end.

(* F-C02-2: set_host(None) on a URL whose path starts with "//" *)
Definition Known_F_C02_2 (u : url) (o : op) : bool :=
  match o with
  | OSetHost None => has_host u && path_leads_ss u
  | _ => false
  end.

(* F-C02-8: a path setter on an authority-less URL whose resulting path starts with "//"
   (the class is decided by running the setter: "//x", "/.//x", "/a/..//x" all qualify) *)
Definition Known_F_C02_8 (u : url) (o : op) : bool :=
  match o with
  | OSetPath _ | OQPathname _ =>
      negb (has_authority_b u) && negb (is_cbb u)
      && match apply_op u o with
         | Some u' => (path_start u' =? scheme_end u' + 1) && path_leads_ss u'
         | None => false
         end
  | _ => false
  end.

(* F-C02-4: host setters on file: URLs; an empty host given to a URL with port or credentials *)
Definition is_file (u : url) : bool := list_eqb (scheme_of u) s_file.
Definition has_credentials_or_port (u : url) : bool :=
  negb (username_end u =? host_start u) || (match port u with Some _ => true | None => false end).
Definition Known_F_C02_4 (u : url) (o : op) : bool :=
  match o with
  | OSetHost (Some h) =>
      is_file u || ((match h with [] => true | _ => false end) && has_credentials_or_port u)
  | OQHost _ | OQHostname _ | OSetIpHost _ => is_file u
  | _ => false
  end.

(* the file: drive-letter family (F-C01-1, F-C02-1, F-C02-6, F-C02-7): a file URL one of whose path
   segments looks like a drive letter.  An over-approximation of the failing records. *)
Definition wdl_like (seg : list N) : bool :=
  match seg with a :: b :: _ => is_alpha a && ((b =? 58) || (b =? 124)) | _ => false end.
Definition Known_file_drive (u : url) : bool :=
  is_file u && existsb wdl_like (split_on 47 (path_of u)).

Definition known_step (u : url) (o : op) : bool :=
  Known_F_C03_5 u o || Known_F_C02_3 u o || Known_F_C02_2 u o || Known_F_C02_8 u o || Known_F_C02_4 u o.

(* ---------- reachability ---------- *)
Inductive Reachable : url -> Prop :=
| R_parse ovr input u :
    usv_list input -> parse_url dbg hp hpo hd ovr None input = POk u ->
    Known_file_drive u = false -> Reachable u
| R_join ovr b input u :
    Reachable b -> usv_list input -> parse_url dbg hp hpo hd ovr (Some b) input = POk u ->
    Known_file_drive u = false -> Reachable u
| R_step u o u' :
    Reachable u -> op_args_ok o -> known_step u o = false -> apply_op u o = Some u' ->
    Known_file_drive u' = false -> Reachable u'.

(* the receiver's view: Url::parse(u.as_str()) *)
Definition reparse (u : url) : pres url := parse_url dbg hp hpo hd None None (utf8_lossy (ser u)).
Definition Fixpoint_of_reparse (u : url) : Prop := reparse u = POk u.

End Reach.

(* what the host functions must satisfy (C09's theorems about Model/Host.v, when linked):
   displaying a parsed host gives ASCII text free of the delimiters the authority state looks for,
   which parses back to the same host with both host parsers' callers *)
Definition host_text_ok (t : list N) : Prop :=
  ascii t /\ t <> []
  /\ (forall special rest,
        match rest with [] => True | c :: _ => (c =? 58) || (c =? 47) || (c =? 63) || (c =? 35) || ((c =? 92) && special) = true end ->
        host_scan special false [] (t ++ rest) = (t, rest))
  /\ scan_last_at true t 0 None = None.
Definition HostOK (hp hpo : list N -> result host) (hd : host -> list N) : Prop :=
  (forall s h, hp s = Ok h -> h <> HDomain [] -> host_text_ok (hd h) /\ hp (hd h) = Ok h)
  /\ (forall s h, hpo s = Ok h -> h <> HDomain [] -> host_text_ok (hd h) /\ hpo (hd h) = Ok h)
  /\ (forall h, op_args_ok (OSetIpHost h) -> host_text_ok (hd h) /\ hp (hd h) = Ok h /\ hpo (hd h) = Ok h)
  /\ hd (HDomain []) = [] /\ hp [] = Ok (HDomain []) /\ hpo [] = Ok (HDomain []).

(* ---------- C02, full strength: the FIRST formulation, superseded by C02_Hist.C02_statement ----------
   HostOK cannot be met by url::Host (Proofs/C02_Hist.v HostOK_old_unsat, C09_host_records_refuted), so this
   statement says nothing about the real host functions, and read for them it is false (F-C02-9, a step outside
   known_step).  Kept, with HostOK / known_step / Reachable, because theorems of other properties are stated
   about these definitions. *)
Definition C02_statement_v1 : Prop :=
  forall dbg hp hpo hd, HostOK hp hpo hd ->
  forall u, Reachable dbg hp hpo hd u -> Fixpoint_of_reparse dbg hp hpo hd u.

(* ---------- witnesses for the excluded classes ---------- *)
(* host functions good enough for the witnesses: every text is a domain *)
Definition toy_hp (s : list N) : result host := Ok (HDomain s).
Definition toy_hd (h : host) : list N :=
  match h with HDomain d => d | HIpv4 _ => B "127.0.0.1" | HIpv6 _ => B "[::1]" end.

Definition toy_parse (s : string) : pres url := parse_url true toy_hp toy_hp toy_hd None None (B s).
Definition toy_apply := apply_op true toy_hp toy_hp toy_hd.
Definition toy_reparse := reparse true toy_hp toy_hp toy_hd.
Definition pres_eqb (r : pres url) (u : url) : bool := match r with POk v => url_eqb v u | _ => false end.

(* a history start ;; op : the step is in the class, the result exists, and its serialization
   does not parse back to it *)
Definition witness_step (K : url -> op -> bool) (start : string) (o : op) (result : string) : bool :=
  match toy_parse start with
  | POk u => K u o && match toy_apply u o with
                      | Some u' => list_eqb (ser u') (B result) && negb (pres_eqb (toy_reparse u') u')
                      | None => false
                      end
  | _ => false
  end.

Lemma F_C03_5_refuted :
  witness_step (fun u o => Known_F_C03_5 u o) "non-spec:/.//double" (OSetIpHost (HIpv4 2130706433))
               "non-spec://127.0.0.1/.//double" = true
  /\ witness_step (fun u o => Known_F_C03_5 u o) "a:/.//x" (OSetPath (B "/y")) "a:/./y" = true.
Proof. vm_compute. split; reflexivity. Qed.

Lemma F_C02_3_refuted :
  witness_step (fun u o => Known_F_C02_3 u o) "about:blank" (OSetPath (B "#f")) "about:#f" = true
  /\ witness_step (fun u o => Known_F_C02_3 u o) "a:b" (OSetPath (B "c ")) "a:c " = true.
Proof. vm_compute. split; reflexivity. Qed.

Lemma F_C02_2_refuted :
  witness_step (fun u o => Known_F_C02_2 u o) "a://host//x" (OSetHost None) "a://x" = true.
Proof. vm_compute. reflexivity. Qed.

Lemma F_C02_8_refuted :
  witness_step (Known_F_C02_8 true toy_hp toy_hp toy_hd) "a:/p" (OSetPath (B "//x")) "a://x" = true
  /\ witness_step (Known_F_C02_8 true toy_hp toy_hp toy_hd) "a:/p" (OSetPath (B "/.//x")) "a://x" = true.
Proof. vm_compute. split; reflexivity. Qed.

Lemma F_C02_4_refuted :
  witness_step (fun u o => Known_F_C02_4 u o) "a://h:80/" (OSetHost (Some [])) "a://:80/" = true.
Proof. vm_compute. reflexivity. Qed.

(* plain parsing in the file family (F-C02-1): file://x.y///c: parses to file://x.y/c:, which
   re-parses to file:///c: *)
Lemma F_C02_1_refuted :
  match toy_parse "file://x.y///c:" with
  | POk u => Known_file_drive u && list_eqb (ser u) (B "file://x.y/c:")
             && match toy_reparse u with
                | POk v => list_eqb (ser v) (B "file:///c:") && negb (url_eqb v u)
                | _ => false
                end
  | _ => false
  end = true.
Proof. vm_compute. reflexivity. Qed.
