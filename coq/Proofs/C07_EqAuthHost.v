(* Proofs/C07_EqAuthHost.v - the hypothesis `host_extra` of the C07 authority class holds for the host
   functions of the two sides as they are (Model/Host.v: Host::parse_opaque + Display;
   Spec/WhatwgHostParse.v: the Standard's host parser with isOpaque = true + host serializer) on every
   string that does not start with '[' - as host_agree does (Proofs/C01_EqAuthHost.v). *)
From RU Require Import Base.Prelude Base.Utf8 Base.Utf8Facts Model.AsciiSet Gen.Tables Model.PercentEncoding
  Model.HostT Model.Host Model.UrlRecord Model.Parser Spec.Whatwg Spec.WhatwgHost Spec.WhatwgHostParse
  Proofs.C02_Enc Proofs.C02_Parts Proofs.C09_Host Proofs.C01_EqRun Proofs.C01_EqEnc
  Proofs.C01_EqAuthSpec Proofs.C01_EqAuthModel Proofs.C01_EqAuthHost Proofs.C07_EqAuthParse.
Import WhatwgHost.Spec.

Lemma upe_c0_head_at s : existsb (fun c => memb c forbidden_host_code_points) s = false ->
  starts_with_cp 64 (upe in_c0_control_set s) = false.
Proof.
  destruct s as [|c r]; [reflexivity|]. cbn [existsb]. intros H. apply orb_false_iff in H. destruct H as [H _].
  rewrite upe_cons. unfold utf8_percent_encode_cp. destruct (in_c0_control_set c).
  - unfold utf8_encode. cbn [flat_map]. rewrite app_nil_r.
    destruct (utf8_encode1 c) as [|b bs] eqn:E; [|reflexivity].
    exfalso. unfold utf8_encode1 in E. repeat (destruct (_ <? _) in E); discriminate E.
  - cbn [app starts_with_cp]. destruct (c =? 64) eqn:E; [|reflexivity]. apply N.eqb_eq in E. subst c. discriminate H.
Qed.

Theorem host_extra_real idna s : usv_list s -> Host.starts_with 91 s = false ->
  host_extra host_parse_opaque host_display (spec_host_parser idna) s.
Proof.
  intros Hu Hb. unfold host_extra, host_parsing. rewrite (parse_opaque_spec s Hu Hb), (spec_parser_not_bracket idna s Hb).
  unfold spec_opaque_host_parse.
  destruct (existsb (fun c => memb c forbidden_host_code_points) s) eqn:Ef; [exact I|].
  assert (c0_encode (utf8_encode s) = upe in_c0_control_set s) as Ec.
  { rewrite <- encode_controls by (apply utf8_encode_bytes; exact Hu). apply enc_bridge. exact rel_CONTROLS. }
  pose proof (upe_c0_head_at s Ef) as Hh.
  fold (upe in_c0_control_set s). cbn [host_display]. rewrite Ec.
  destruct (upe in_c0_control_set s) as [|a b] eqn:Eu.
  - split; [split; reflexivity | reflexivity].
  - split; [split; intros K; discriminate K | exact Hh].
Qed.

Theorem host_hyps_real idna s : usv_list s -> Host.starts_with 91 s = false ->
  host_agree host_parse_opaque host_display (spec_host_parser idna) spec_host_serializer s
  /\ host_extra host_parse_opaque host_display (spec_host_parser idna) s.
Proof. intros Hu Hb. exact (conj (host_agree_real idna s Hu Hb) (host_extra_real idna s Hu Hb)). Qed.
