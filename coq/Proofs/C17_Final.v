(* Proofs/C17_Final.v - C17_statement. *)
From RU Require Import Base.Prelude Base.Utf8 Model.AsciiSet Gen.Tables Model.PercentEncoding
  Model.HostT Model.UrlRecord Model.Parser Model.Mime Model.Base64 Model.DataUrl Model.DataUrlTie Model.KnownC17
  Proofs.C17_Main Proofs.C17_Known Proofs.C17_Scheme.

Theorem scheme_of_parse_holds : scheme_of_parse.
Proof.
  intros dbg hp ho hd s sch rem u Hs Hp Hu Hd. unfold url_is_data in Hd.
  rewrite (parse_url_scheme dbg hp ho hd None s sch rem u Hp Hu) in Hd. apply list_eqb_spec. exact Hd.
Qed.

Theorem c17_statement_holds : C17_statement.
Proof. exact (statement_modulo_scheme scheme_of_parse_holds). Qed.
