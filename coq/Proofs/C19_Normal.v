(* Proofs/C19_Normal.v - the normal form of every parse result: type, subtype and parameter names
   are non-empty lower-case HTTP tokens, names are pairwise different, and every parameter value
   consists, up to its first ';', of HTTP quoted-string token code points. *)
From RU Require Import Base.Prelude Base.Utf8 Base.Utf8Facts Gen.Tables Model.Mime
  Proofs.C19_Tables Proofs.C19_Pure.

(* ---- the statement's vocabulary ---- *)
Definition lower_http_token (s : list N) : Prop :=
  s <> [] /\ Forall (fun c => rfc7230_tchar c = true /\ is_upper c = false) s.

(* HTTP quoted-string token code point: TAB, 0x20-0x7E, 0x80-0xFF *)
Definition quoted_string_cp (c : N) : Prop := c = 9 \/ (32 <= c /\ c <= 126) \/ (128 <= c /\ c <= 255).
Definition value_wf (v : list N) : Prop := Forall quoted_string_cp (before_semicolon v).

(* boolean forms used in the proofs *)
Definition lower_tchar (c : N) : bool := rfc7230_tchar c && negb (is_upper c).
Definition lower_token (s : list N) : bool := negb (is_empty s) && forallb lower_tchar s.
Definition value_ok (v : list N) : bool := valid_value (before_semicolon v).

Lemma lower_token_spec s : lower_token s = true <-> lower_http_token s.
Proof.
  unfold lower_token, lower_http_token. rewrite andb_true_iff, forallb_forall, Forall_forall.
  split; intros [H1 H2]; split.
  - destruct s; [discriminate|discriminate].
  - intros c Hc. specialize (H2 c Hc). unfold lower_tchar in H2. apply andb_true_iff in H2.
    destruct H2 as [Ha Hb]. split; [exact Ha|]. destruct (is_upper c); [discriminate|reflexivity].
  - destruct s; [contradiction|reflexivity].
  - intros c Hc. destruct (H2 c Hc) as [Ha Hb]. unfold lower_tchar. rewrite Ha, Hb. reflexivity.
Qed.

Lemma value_ok_spec v : value_ok v = true <-> value_wf v.
Proof.
  unfold value_ok, value_wf, valid_value. rewrite forallb_forall, Forall_forall.
  split; intros H c Hc; specialize (H c Hc).
  - rewrite valid_value_char_spec in H. unfold quoted_string_cp. lia.
  - rewrite valid_value_char_spec. unfold quoted_string_cp in H. lia.
Qed.

(* ---- code point facts ---- *)
Lemma to_lower_lower_tchar c : rfc7230_tchar c = true -> lower_tchar (to_lower c) = true.
Proof.
  unfold lower_tchar, rfc7230_tchar, to_lower, is_alnum, is_alpha, is_upper, is_lower, is_digit, TCHAR_PUNCT.
  cbn [memb]. intros H. destruct ((65 <=? c) && (c <=? 90)) eqn:E; lia.
Qed.

Lemma to_lower_idem c : to_lower (to_lower c) = to_lower c.
Proof. unfold to_lower, is_upper. destruct ((65 <=? c) && (c <=? 90)) eqn:E; [|rewrite E; reflexivity].
  replace ((65 <=? c + 32) && (c + 32 <=? 90)) with false by lia. reflexivity. Qed.

Lemma to_lower_fix c : is_upper c = false -> to_lower c = c.
Proof. unfold to_lower. intros ->. reflexivity. Qed.

Lemma lower_tchar_tchar c : lower_tchar c = true -> rfc7230_tchar c = true.
Proof. unfold lower_tchar. intros H. apply andb_true_iff in H. exact (proj1 H). Qed.

Lemma tchar_valid c : rfc7230_tchar c = true -> valid_value_char c = true.
Proof.
  rewrite valid_value_char_spec. unfold rfc7230_tchar, is_alnum, is_alpha, is_upper, is_lower, is_digit, TCHAR_PUNCT.
  cbn [memb]. lia.
Qed.

Lemma tchar_not_ws c : rfc7230_tchar c = true -> http_whitespace c = false.
Proof.
  rewrite http_whitespace_spec. unfold rfc7230_tchar, is_alnum, is_alpha, is_upper, is_lower, is_digit, TCHAR_PUNCT.
  cbn [memb]. lia.
Qed.

(* ---- strings ---- *)
Lemma lower_token_tokens s : lower_token s = true -> tokens s = true.
Proof.
  unfold lower_token, tokens. intros H. apply andb_true_iff in H. destruct H as [_ H].
  rewrite forallb_forall in *. intros c Hc. exact (lower_tchar_tchar c (H c Hc)).
Qed.

Lemma lower_token_nonempty s : lower_token s = true -> is_empty s = false.
Proof. unfold lower_token. intros H. apply andb_true_iff in H. destruct (is_empty s); [destruct H; discriminate|reflexivity]. Qed.

Lemma lower_token_of_tokens s :
  tokens s = true -> is_empty s = false -> lower_token (to_ascii_lowercase s) = true.
Proof.
  unfold lower_token, tokens, to_ascii_lowercase. intros Ht Hne. apply andb_true_iff. split.
  - destruct s; [discriminate|reflexivity].
  - rewrite forallb_forall in *. intros c Hc. apply in_map_iff in Hc. destruct Hc as [x [<- Hx]].
    apply to_lower_lower_tchar. exact (Ht x Hx).
Qed.

Lemma lower_token_lowercase_id s : lower_token s = true -> to_ascii_lowercase s = s.
Proof.
  unfold lower_token, to_ascii_lowercase. intros H. apply andb_true_iff in H. destruct H as [_ H].
  induction s as [|c s IH]; [reflexivity|]. cbn [forallb map] in *. apply andb_true_iff in H. destruct H as [Hc Hs].
  unfold lower_tchar in Hc. apply andb_true_iff in Hc. destruct Hc as [_ Hu].
  rewrite to_lower_fix by (destruct (is_upper c); [discriminate|reflexivity]). f_equal. exact (IH Hs).
Qed.

Lemma bytes_eq_ic_lower s : bytes_eq_ignore_ascii_case (map to_lower s) s = true.
Proof.
  induction s as [|c s IH]; [reflexivity|]. cbn [map bytes_eq_ignore_ascii_case].
  rewrite to_lower_idem, N.eqb_refl, IH. reflexivity.
Qed.

Lemma eq_ic_lowercase name :
  tokens name = true -> eq_ignore_ascii_case (to_ascii_lowercase name) name = true.
Proof.
  intros Ht. unfold eq_ignore_ascii_case.
  assert (Hl : tokens (to_ascii_lowercase name) = true).
  { unfold tokens, to_ascii_lowercase in *. rewrite forallb_forall in *. intros c Hc.
    apply in_map_iff in Hc. destruct Hc as [x [<- Hx]]. apply lower_tchar_tchar, to_lower_lower_tchar. exact (Ht x Hx). }
  rewrite (utf8_encode_ascii _ (tokens_ascii _ Hl)), (utf8_encode_ascii _ (tokens_ascii _ Ht)).
  apply bytes_eq_ic_lower.
Qed.

Lemma existsb_false_all (A : Type) (f : A -> bool) l : existsb f l = false -> forall x, In x l -> f x = false.
Proof.
  intros H x Hx. destruct (f x) eqn:E; [|reflexivity].
  assert (Ht : existsb f l = true) by (apply existsb_exists; exists x; split; assumption). congruence.
Qed.

Lemma contains_false_not_in ps name :
  tokens name = true -> contains ps name = false -> ~ In (to_ascii_lowercase name) (map fst ps).
Proof.
  intros Ht Hc Hin. apply in_map_iff in Hin. destruct Hin as [p [Hp Hin]].
  unfold contains in Hc. pose proof (existsb_false_all _ _ _ Hc p Hin) as Hf. cbv beta in Hf.
  rewrite Hp, (eq_ic_lowercase name Ht) in Hf. discriminate.
Qed.

Lemma NoDup_snoc (A : Type) (l : list A) a : NoDup l -> ~ In a l -> NoDup (l ++ [a]).
Proof.
  induction l as [|x l IH]; intros Hnd Hni; cbn [app].
  - constructor; [intros []|constructor].
  - inversion Hnd as [|? ? Hx Hl]; subst. constructor.
    + intros Hin. apply in_app_or in Hin. destruct Hin as [Hin|[->|[]]]; [exact (Hx Hin)|]. apply Hni. left. reflexivity.
    + apply IH; [exact Hl|]. intros Hin. apply Hni. right. exact Hin.
Qed.

Lemma before_semicolon_forallb f v : forallb f v = true -> forallb f (before_semicolon v) = true.
Proof.
  induction v as [|c v IH]; cbn [forallb before_semicolon]; intros H; [reflexivity|].
  apply andb_true_iff in H. destruct H as [Hc Hv]. destruct (c =? 59); [reflexivity|].
  cbn [forallb]. rewrite Hc, (IH Hv). reflexivity.
Qed.

(* ---- the loop invariant ---- *)
Definition param_ok (p : list N * list N) : Prop :=
  lower_token (fst p) = true /\ value_ok (snd p) = true /\ usv_list (snd p).
Definition params_inv (ps : plist) : Prop := Forall param_ok ps /\ NoDup (map fst ps).

Lemma params_inv_push ps name value :
  params_inv ps -> p_name_valid ps name = true -> value_ok value = true -> usv_list value ->
  params_inv (ps ++ [(to_ascii_lowercase name, value)]).
Proof.
  intros [Hall Hnd] Hnv Hv Hu. unfold p_name_valid in Hnv.
  apply andb_true_iff in Hnv. destruct Hnv as [Hnv Hc]. apply andb_true_iff in Hnv. destruct Hnv as [Hne Ht].
  split.
  - apply Forall_app. split; [exact Hall|]. constructor; [|constructor]. unfold param_ok. cbn [fst snd].
    split; [|split; assumption]. apply lower_token_of_tokens; [exact Ht|]. destruct (is_empty name); [discriminate|reflexivity].
  - rewrite map_app. cbn [map fst]. apply NoDup_snoc; [exact Hnd|].
    apply contains_false_not_in; [exact Ht|]. destruct (contains ps name); [discriminate|reflexivity].
Qed.

Lemma strip_prefix_quote_some value stripped :
  strip_prefix_quote value = Some stripped -> value = 34 :: stripped.
Proof.
  unfold strip_prefix_quote. destruct value as [|c r]; [discriminate|].
  destruct (c =? 34) eqn:E; [|discriminate]. intros H. inversion H; subst. f_equal. lia.
Qed.

Lemma p_params_loop_inv fuel : forall pieces ps r,
  Forall usv_list pieces -> params_inv ps -> p_params_loop fuel pieces ps = Ok r -> params_inv r.
Proof.
  induction fuel as [|fuel IH]; intros pieces ps r Hp Hinv Hr; [discriminate|].
  cbn [p_params_loop] in Hr. destruct pieces as [|piece rest]; [inversion Hr; subst; exact Hinv|].
  inversion Hp as [|? ? Hpiece Hrest]; subst.
  pose proof (split_once_Forall is_usv 61 (trim_start piece) (trim_start_Forall is_usv piece Hpiece)) as [Hn Hv].
  destruct (split_once 61 (trim_start piece)) as [name value]. cbn [fst snd] in Hn, Hv.
  destruct value as [value|]; [|exact (IH rest ps r Hrest Hinv Hr)].
  destruct (strip_prefix_quote value) as [stripped|] eqn:Es.
  - apply strip_prefix_quote_some in Es. subst value. inversion Hv as [|? ? _ Hst]; subst.
    pose proof (scan_quoted_rest_Forall usv_list rest stripped [] Hrest) as Hr'.
    destruct (scan_quoted_facts rest stripped []) as [w [k [E [HP HQ]]]].
    rewrite E in Hr, Hr'. cbn [rev app snd] in Hr, Hr'.
    destruct (negb (p_name_valid ps name) || negb (valid_value (34 :: stripped))) eqn:Eg;
      [exact (IH _ ps r Hr' Hinv Hr)|].
    apply orb_false_iff in Eg. destruct Eg as [Eg1 Eg2].
    apply negb_false_iff in Eg1. apply negb_false_iff in Eg2.
    refine (IH _ _ r Hr' _ Hr). apply params_inv_push; [exact Hinv|exact Eg1| |].
    + unfold value_ok, valid_value. apply forallb_forall. apply Forall_forall.
      apply (HQ (fun c => valid_value_char c = true)).
      * rewrite valid_value_char_spec. reflexivity.
      * unfold valid_value in Eg2. cbn [forallb] in Eg2. apply andb_true_iff in Eg2. destruct Eg2 as [_ Eg2].
        apply Forall_forall. apply forallb_forall. exact Eg2.
    + apply (HP is_usv usv_59 usv_92 Hrest Hst).
  - destruct (is_empty (trim_end value)); [exact (IH rest ps r Hrest Hinv Hr)|].
    destruct (negb (p_name_valid ps name) || negb (valid_value (trim_end value))) eqn:Eg;
      [exact (IH _ ps r Hrest Hinv Hr)|].
    apply orb_false_iff in Eg. destruct Eg as [Eg1 Eg2].
    apply negb_false_iff in Eg1. apply negb_false_iff in Eg2.
    refine (IH _ _ r Hrest _ Hr). apply params_inv_push; [exact Hinv|exact Eg1| |].
    + unfold value_ok, valid_value. apply before_semicolon_forallb. exact Eg2.
    + apply trim_end_Forall. exact Hv.
Qed.

Lemma params_inv_nil : params_inv [].
Proof. split; constructor. Qed.

Lemma p_parse_parameters_inv s r : usv_list s -> p_parse_parameters s [] = Ok r -> params_inv r.
Proof.
  intros H. unfold p_parse_parameters.
  pose proof (split_all_Forall is_usv 59 s H) as [Hp Hps].
  destruct (split_all 59 s) as [p ps]. cbn [fst snd] in Hp, Hps.
  apply p_params_loop_inv; [constructor; assumption|exact params_inv_nil].
Qed.

(* what a successful parse looks like *)
Lemma p_parse_some s m :
  p_parse s = Ok (Some m) ->
  exists type_ subtype rest,
    split_once 47 (trim_matches s) = (type_, Some rest)
    /\ tokens type_ = true /\ is_empty type_ = false
    /\ tokens (trim_end subtype) = true /\ is_empty (trim_end subtype) = false
    /\ m_type m = to_ascii_lowercase type_ /\ m_subtype m = to_ascii_lowercase (trim_end subtype)
    /\ ((split_once 59 rest = (subtype, None) /\ m_params m = [])
        \/ exists rest2, split_once 59 rest = (subtype, Some rest2) /\ p_parse_parameters rest2 [] = Ok (m_params m)).
Proof.
  unfold p_parse. intros H.
  destruct (split_once 47 (trim_matches s)) as [type_ rest] eqn:E1.
  destruct (tokens type_ && negb (is_empty type_)) eqn:Et; cbn [negb] in H; [|discriminate].
  destruct rest as [rest|]; [|discriminate].
  destruct (split_once 59 rest) as [subtype rest2] eqn:E2.
  destruct (tokens (trim_end subtype) && negb (is_empty (trim_end subtype))) eqn:Est; cbn [negb] in H; [|discriminate].
  apply andb_true_iff in Et. destruct Et as [Et1 Et2]. apply negb_true_iff in Et2.
  apply andb_true_iff in Est. destruct Est as [Est1 Est2]. apply negb_true_iff in Est2.
  exists type_, subtype, rest. split; [reflexivity|]. do 4 (split; [assumption|]).
  destruct rest2 as [rest2|].
  - destruct (p_parse_parameters rest2 []) as [r| |] eqn:Ep; cbn [bind] in H; try discriminate.
    inversion H; subst. cbn [m_type m_subtype m_params]. split; [reflexivity|]. split; [reflexivity|].
    right. exists rest2. split; [exact E2|exact Ep].
  - cbn [bind] in H. inversion H; subst. cbn [m_type m_subtype m_params]. split; [reflexivity|]. split; [reflexivity|].
    left. split; [exact E2|reflexivity].
Qed.

Lemma p_parse_normal s m :
  usv_list s -> p_parse s = Ok (Some m) ->
  lower_token (m_type m) = true /\ lower_token (m_subtype m) = true /\ params_inv (m_params m).
Proof.
  intros Hs H. destruct (p_parse_some s m H) as [type_ [subtype [rest [E1 [Ht1 [Ht2 [Hs1 [Hs2 [Em1 [Em2 Hp]]]]]]]]]].
  rewrite Em1, Em2. split; [apply lower_token_of_tokens; assumption|]. split; [apply lower_token_of_tokens; assumption|].
  destruct Hp as [[_ Hp]|[rest2 [E2 Hp]]].
  - rewrite Hp. exact params_inv_nil.
  - apply (p_parse_parameters_inv rest2); [|exact Hp].
    assert (Htr : usv_list (trim_matches s)).
    { unfold trim_matches. apply trim_end_Forall, trim_start_Forall. exact Hs. }
    pose proof (split_once_Forall is_usv 47 _ Htr) as [_ Hrest]. rewrite E1 in Hrest. cbn [snd] in Hrest.
    pose proof (split_once_Forall is_usv 59 _ Hrest) as [_ Hrest2]. rewrite E2 in Hrest2. exact Hrest2.
Qed.

Lemma lower_token_usv s : lower_token s = true -> usv_list s.
Proof. intros H. apply ascii_usv, tokens_ascii, lower_token_tokens. exact H. Qed.

Lemma p_parse_usv s m : usv_list s -> p_parse s = Ok (Some m) -> usv_mime m.
Proof.
  intros Hs H. destruct (p_parse_normal s m Hs H) as [Ht [Hst [Hall _]]].
  split; [exact (lower_token_usv _ Ht)|]. split; [exact (lower_token_usv _ Hst)|].
  unfold usv_params. eapply Forall_impl; [|exact Hall]. intros p [Hn [_ Hv]].
  split; [exact (lower_token_usv _ Hn)|exact Hv].
Qed.

(* C19_normal on the model *)
Theorem parse_normal s m :
  usv_list s -> parse s = Ok (Some m) ->
  lower_http_token (m_type m) /\ lower_http_token (m_subtype m)
  /\ Forall (fun p => lower_http_token (fst p) /\ value_wf (snd p)) (m_params m)
  /\ NoDup (map fst (m_params m)).
Proof.
  intros Hs H. rewrite (parse_spec s Hs) in H.
  destruct (p_parse_normal s m Hs H) as [Ht [Hst [Hall Hnd]]].
  split; [apply lower_token_spec; exact Ht|]. split; [apply lower_token_spec; exact Hst|]. split; [|exact Hnd].
  eapply Forall_impl; [|exact Hall]. intros p [Hn [Hv _]].
  split; [apply lower_token_spec; exact Hn|apply value_ok_spec; exact Hv].
Qed.

(* get_parameter finds exactly the pairs of the list (names are unique) *)
Lemma get_parameter_in ps : NoDup (map fst ps) -> forall n v, In (n, v) ps <-> get_parameter ps n = Some v.
Proof.
  induction ps as [|[n0 v0] ps IH]; intros Hnd n v; cbn [get_parameter In].
  - split; [intros []|discriminate].
  - cbn [map fst] in Hnd. inversion Hnd as [|? ? Hni Hnd']; subst.
    destruct (list_eqb n n0) eqn:E.
    + apply list_eqb_spec in E. subst n0. split.
      * intros [Heq|Hin]; [inversion Heq; reflexivity|]. exfalso. apply Hni. apply in_map_iff. exists (n, v). split; [reflexivity|exact Hin].
      * intros Heq. inversion Heq. left. reflexivity.
    + rewrite <- (IH Hnd' n v). split; [|intros Hin; right; exact Hin].
      intros [Heq|Hin]; [|exact Hin]. inversion Heq; subst. rewrite (proj2 (list_eqb_spec n n) eq_refl) in E. discriminate.
Qed.
