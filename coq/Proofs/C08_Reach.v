(* Proofs/C08_Reach.v - the absolute law and the make_relative inverse law for the records of C02's histories
   ReachC4 (Proofs/C02_Reach5.v): parse results of non-file schemes, joins with tail references, every setter of
   canon_op4 outside the known step classes, query_pairs_mut sessions.  Every such record is Canon
   (C02_Reach5.ReachC4_Canon), hence in one of the four canonical forms nonfile_form of C08_AbsNonfile, on which
   C08_AbsNonfile.absolute_form and C08_RelAuth.relative_forms are stated. *)
From Coq Require Import String.
From RU Require Import Base.Prelude Base.Utf8 Base.Utf8Facts Model.AsciiSet Gen.Tables Model.PercentEncoding
  Model.HostT Model.Host Model.UrlRecord Model.Parser Model.Setters Model.WF Model.MakeRelative Model.KnownC08
  Proofs.ListN Proofs.C02_Reach Proofs.C02_AuthParts Proofs.C02_Hist Proofs.C02_Canon Proofs.C02_Reach3 Proofs.C02_Reach4
  Proofs.C02_Reach5 Proofs.C02_HistInst Proofs.C02_SetHostCanon Proofs.C09_Host Proofs.C08_AbsNonfile Proofs.C08_RelAuth Proofs.C08_Relative.
Open Scope N_scope.
Open Scope list_scope.

Section Reach.
Variable dbg : bool.
Variable hp hpo : list N -> result host.
Variable hd : host -> list N.
Hypothesis HOK : HostOK2 hp hpo hd.
Hypothesis HNE : host_nonempty hp hpo.

(* an absolute URL's own serialization resolves to itself against EVERY base record *)
Theorem absolute_reach u b : ReachC4 dbg hp hpo hd u ->
  parse_url dbg hp hpo hd None (Some b) (utf8_lossy (ser u)) = POk u.
Proof using HOK HNE. exact (reach4_absolute dbg hp hpo hd HOK HNE u b). Qed.

(* for Canon records of any origin *)
Theorem absolute_Canon u b : Canon hp hpo hd u ->
  parse_url dbg hp hpo hd None (Some b) (utf8_lossy (ser u)) = POk u.
Proof using HOK.
  intros H. exact (absolute_form dbg hp hpo hd (proj1 HOK) b u (Canon_nonfile_form hp hpo hd u H)).
Qed.

(* the inverse law for two Canon records *)
Theorem relative_Canon b t r : Canon hp hpo hd b -> Canon hp hpo hd t ->
  mr_ok b t = true -> make_relative dbg b t = Some (Some r) ->
  parse_url dbg hp hpo hd None (Some b) r = POk t.
Proof using HOK.
  intros Cb Ct. exact (relative_forms dbg hp hpo hd (proj1 HOK) b t r
                         (Canon_nonfile_form hp hpo hd b Cb) (Canon_nonfile_form hp hpo hd t Ct)).
Qed.

(* ... hence for two records of ReachC4 histories *)
Theorem relative_reach b t r : ReachC4 dbg hp hpo hd b -> ReachC4 dbg hp hpo hd t ->
  mr_ok b t = true -> make_relative dbg b t = Some (Some r) ->
  parse_url dbg hp hpo hd None (Some b) r = POk t.
Proof using HOK HNE.
  intros Rb Rt. exact (relative_Canon b t r (ReachC4_Canon dbg hp hpo hd HOK HNE b Rb) (ReachC4_Canon dbg hp hpo hd HOK HNE t Rt)).
Qed.

(* the result of such a join is the target, a ReachC4 record: the class is closed under the law *)
End Reach.

(* ---------- on the parser model linked with the host model: the only premise about hosts is IdnaOK ---------- *)
Theorem relative_reach_model dbg idna : IdnaOK idna -> forall b t r,
  ReachC4 dbg (host_parse idna) host_parse_opaque host_display b ->
  ReachC4 dbg (host_parse idna) host_parse_opaque host_display t ->
  mr_ok b t = true -> make_relative dbg b t = Some (Some r) ->
  parse_url dbg (host_parse idna) host_parse_opaque host_display None (Some b) r = POk t.
Proof.
  intros OK b t r. exact (relative_reach dbg _ _ _ (HostOK2_model idna OK) (host_nonempty_model idna) b t r).
Qed.

Theorem absolute_reach_model dbg idna : IdnaOK idna -> forall u b,
  ReachC4 dbg (host_parse idna) host_parse_opaque host_display u ->
  parse_url dbg (host_parse idna) host_parse_opaque host_display None (Some b) (utf8_lossy (ser u)) = POk u.
Proof.
  intros OK u b. exact (absolute_reach dbg _ _ _ (HostOK2_model idna OK) (host_nonempty_model idna) u b).
Qed.

(* ---------- non-vacuity, on the host model (idna_clean): two histories with setters, inside MR_ok ---------- *)
(* base   a://u:pw@h.x:81/p?q -> quirks hostname("example.org") -> set_path("/a/b/c")   = a://u:pw@example.org:81/a/b/c?q
   target a://u:pw@example.org:81/a/d/e -> set_fragment("f")                            = a://u:pw@example.org:81/a/d/e#f
   make_relative = "../d/e#f", and the join gives the target back; the absolute law on the base record against the
   target as base *)
Definition m_join (b : url) (r : list N) : pres url :=
  parse_url true mhp host_parse_opaque host_display None (Some b) r.

Example reach_mr_example :
  match m_hist "a://u:pw@h.x:81/p?q" [OQHostname (B "example.org"); OSetPath (B "/a/b/c")],
        m_hist "a://u:pw@example.org:81/a/d/e" [OSetFragment (Some (B "f"))] with
  | Some b, Some t =>
      list_eqb (ser b) (B "a://u:pw@example.org:81/a/b/c?q") && list_eqb (ser t) (B "a://u:pw@example.org:81/a/d/e#f")
      && mr_ok b t
      && match make_relative true b t with
         | Some (Some r) => list_eqb r (B "../d/e#f")
                            && match m_join b r with POk v => url_eqb v t | _ => false end
         | _ => false
         end
      && match m_join t (utf8_lossy (ser b)) with POk v => url_eqb v b | _ => false end
  | _, _ => false
  end = true.
Proof. vm_compute. reflexivity. Qed.
