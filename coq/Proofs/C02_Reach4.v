(* Proofs/C02_Reach4.v - the histories of C02_Reach3.ReachC2 extended by the mutators whose L2 is proved in
   C02_SetHostCanon / C02_SetScheme / C02_SetPath:
     set_ip_host, set_host(Some _), set_scheme, quirks set_protocol            on every Canon record,
     set_path, quirks set_pathname                                              on Canon records with an authority,
   each outside the known step classes (known_step2 = false).  ReachC3: every record of such a history is Canon,
   hence a fixpoint of re-parsing.  One more hypothesis on the host functions than HostOK2: host_nonempty.
   Also here: C02_statement3 (and C02_statement) are FALSE as stated - the quantifier misses the class F-C07-8
   (quirks::set_host with an empty host on a URL that has a password and no username): witness on the host model. *)
From RU Require Import Proofs.C15_Ser.
From Coq Require Import String.
From RU Require Import Base.Prelude Base.Utf8 Base.Utf8Facts Base.Outcome_c15 Model.AsciiSet Gen.Tables
  Model.PercentEncoding Model.HostT Model.Host Model.UrlRecord Model.Parser Model.Setters Model.WF Model.FormUrlencoded
  Model.QueryPairs
  Proofs.ListN Proofs.C02_Enc Proofs.C02_Parts Proofs.C02_Opaque Proofs.C02_Path Proofs.C02_PathL1 Proofs.C02_Reach
  Proofs.C02_AuthParts Proofs.C02_Auth Proofs.C02_AuthWf Proofs.C02_PathSp Proofs.C02_AuthSp Proofs.C02_AuthMain
  Proofs.C02_Hist Proofs.C02_SetQF Proofs.C02_Canon Proofs.C02_SetPort Proofs.C02_JoinTail Proofs.C02_ReachPartial
  Proofs.C02_Form Proofs.C02_SetCred Proofs.C02_SetCredCanon Proofs.C02_QPort Proofs.C08_AbsNonfile Proofs.C02_Reach3
  Proofs.C02_SetHostFrame Proofs.C02_SetHostCanon Proofs.C02_SetScheme Proofs.C02_PathSetter Proofs.C02_SetPath
  Proofs.C09_Host Proofs.C16_RT6Model Proofs.C02_HistInst.
Open Scope N_scope.
Open Scope list_scope.

(* the mutators with a proved L2, given the record they are applied to *)
Definition canon_op3 (u : url) (o : op) : bool :=
  match o with
  | OSetIpHost _ | OSetHost (Some _) | OSetScheme _ | OQProtocol _ => true
  | OSetPath _ | OQPathname _ => has_authority_b u
  | _ => canon_op o
  end.

Lemma canon_op_3 u o : canon_op o = true -> canon_op3 u o = true.
Proof. destruct o; try discriminate; intros _; reflexivity. Qed.

Section ReachC3.
Variable dbg : bool.
Variable hp hpo : list N -> result host.
Variable hd : host -> list N.
Hypothesis HOK : HostOK2 hp hpo hd.
Hypothesis HNE : host_nonempty hp hpo.

Let HRT : HostRT hp hpo hd := proj1 HOK.
Let HAb : host_above hp hpo hd := proj1 (proj2 HOK).
Let HIP : ip_clause hp hpo hd := proj2 (proj2 HOK).

Inductive ReachC3 : url -> Prop :=
| RC3_parse ovr input u :
    usv_list input -> nonfile_input input = true -> (ovr = None \/ special_input input = false) ->
    parse_url dbg hp hpo hd ovr None input = POk u -> ReachC3 u
| RC3_join ovr b input u :
    ReachC3 b -> usv_list input -> tail_ref input = true ->
    (ovr = None \/ st_is_special (scheme_type_of (b_scheme b)) = false) ->
    parse_url dbg hp hpo hd ovr (Some b) input = POk u -> ReachC3 u
| RC3_step u o u' :
    ReachC3 u -> canon_op3 u o = true -> op_args_ok o -> known_step2 dbg hp hpo hd u o = false ->
    apply_op dbg hp hpo hd u o = Some u' -> nlen (ser u') <= U32_MAX_P -> ReachC3 u'
| RC3_qpm u ops u' :
    ReachC3 u -> Forall op_ok ops -> query_pairs_session dbg u ops = Some u' ->
    nlen (ser u') <= U32_MAX_P -> ReachC3 u'.

Lemma ReachC2_C3 u : ReachC2 dbg hp hpo hd u -> ReachC3 u.
Proof.
  induction 1 as [ovr input u Hu Hn Hov Hp | ovr b input u Hr IH Hu Ht Hov Hp | u o u' Hr IH Ht Ha Ho Hb
                 | u ops u' Hr IH Hops Hs Hb].
  - exact (RC3_parse ovr input u Hu Hn Hov Hp).
  - exact (RC3_join ovr b input u IH Hu Ht Hov Hp).
  - exact (RC3_step u o u' IH (canon_op_3 u o Ht) Ha (canon_op_not_known dbg hp hpo hd u o Ht) Ho Hb).
  - exact (RC3_qpm u ops u' IH Hops Hs Hb).
Qed.

Theorem ReachC3_Canon u : ReachC3 u -> Canon hp hpo hd u.
Proof.
  induction 1 as [ovr input u Hu Hn Hov Hp | ovr b input u Hr IH Hu Ht Hov Hp | u o u' Hr IH Ht Ha Hk Ho Hb
                 | u ops u' Hr IH Hops Hs Hb].
  - exact (parse_Canon dbg hp hpo hd HRT ovr input u HAb Hu Hn Hov Hp).
  - exact (join_tail_Canon dbg hp hpo hd HRT ovr b input u IH Hu Ht Hov Hp).
  - destruct (canon_op o) eqn:Ec.
    { (* the operations of ReachC2 *)
      assert (ReachC2 dbg hp hpo hd u -> Canon hp hpo hd u') as G.
      { intros R2. apply (ReachC2_Canon dbg hp hpo hd HOK). exact (RC2_step dbg hp hpo hd u o u' R2 Ec Ha Ho Hb). }
      clear G. destruct o; try discriminate Ec; cbn [apply_op op_args_ok] in *.
      + exact (set_fragment_Canon dbg hp hpo hd HRT u f u' IH Ha Ho Hb).
      + exact (set_query_Canon dbg hp hpo hd HRT u q u' IH Ha Ho Hb).
      + destruct (option_map_fst_some _ _ Ho) as [s Es].
        exact (set_port_Canon dbg hp hpo hd u p u' s IH Ha Es Hb).
      + destruct (option_map_fst_some _ _ Ho) as [s Es].
        exact (set_password_Canon dbg hp hpo hd u p u' s IH Ha Es Hb).
      + destruct (option_map_fst_some _ _ Ho) as [s0 Es].
        exact (set_username_Canon dbg hp hpo hd u s u' s0 IH Ha Es Hb).
      + destruct (option_map_fst_some _ _ Ho) as [s0 Es]. unfold q_set_username in Es.
        exact (set_username_Canon dbg hp hpo hd u s u' s0 IH Ha Es Hb).
      + destruct (option_map_fst_some _ _ Ho) as [s0 Es]. unfold q_set_password in Es.
        apply (set_password_Canon dbg hp hpo hd u _ u' s0 IH) in Es; [exact Es | | exact Hb].
        destruct s; [exact I | exact Ha].
      + destruct (option_map_fst_some _ _ Ho) as [s0 Es].
        exact (q_set_port_Canon dbg hp hpo hd u s u' s0 IH Es Hb).
      + unfold q_set_search in Ho. apply (set_query_Canon dbg hp hpo hd HRT u _ u' IH) in Ho; [exact Ho | | exact Hb].
        destruct s as [|c r]; [exact I|]. assert (usv_list r) as Hr' by (apply usv_cons in Ha; tauto).
        destruct c as [|pp]; [exact Ha|]. do 7 (try (destruct pp as [pp|pp|]; try exact Ha)). exact Hr'.
      + unfold q_set_hash in Ho. apply (set_fragment_Canon dbg hp hpo hd HRT u _ u' IH) in Ho; [exact Ho | | exact Hb].
        destruct s as [|c r]; [exact I|]. assert (usv_list r) as Hr' by (apply usv_cons in Ha; tauto).
        destruct c as [|pp]; [exact Ha|]. do 7 (try (destruct pp as [pp|pp|]; try exact Ha)). exact Hr'. }
    destruct o; try discriminate Ec; try discriminate Ht; cbn [apply_op op_args_ok canon_op3] in *.
    + (* set_path *) exact (set_path_Canon dbg hp hpo hd u p u' IH Ht Ha Ho Hb).
    + (* set_host *) destruct h as [x|]; [|discriminate Ht].
      destruct (option_map_fst_some _ _ Ho) as [s Es].
      exact (set_host_some_Canon dbg hp hpo hd HRT HAb u x u' s HNE IH Ha Hk Es Hb).
    + (* set_ip_host *) destruct (option_map_fst_some _ _ Ho) as [s Es].
      exact (set_ip_host_Canon dbg hp hpo hd HRT HAb u h u' s HIP IH Ha Hk Es Hb).
    + (* set_scheme *) destruct (option_map_fst_some _ _ Ho) as [s0 Es].
      exact (set_scheme_Canon dbg hp hpo hd u s u' s0 IH Es Hb).
    + (* quirks protocol *) destruct (option_map_fst_some _ _ Ho) as [s0 Es].
      exact (q_set_protocol_Canon dbg hp hpo hd u s u' s0 IH Es Hb).
    + (* quirks pathname *) exact (q_set_pathname_Canon dbg hp hpo hd u s u' IH Ht Ha Ho Hb).
  - exact (qpm_Canon dbg hp hpo hd HRT u ops u' IH Hops Hs Hb).
Qed.

Theorem reach_partial3 u : ReachC3 u ->
  Fixpoint_of_reparse dbg hp hpo hd u /\ wf_b u = true /\ ascii (ser u).
Proof. intros H. exact (Canon_fixpoint dbg hp hpo hd HRT u (ReachC3_Canon u H)). Qed.

Theorem reach3_absolute u b : ReachC3 u ->
  parse_url dbg hp hpo hd None (Some b) (utf8_lossy (ser u)) = POk u.
Proof.
  intros H. exact (absolute_form dbg hp hpo hd HRT b u (Canon_nonfile_form hp hpo hd u (ReachC3_Canon u H))).
Qed.

Theorem ReachC3_Reachable3 u : ReachC3 u -> Reachable3 dbg hp hpo hd u.
Proof.
  intros H. induction H as [ovr input u Hu Hn Hov Hp | ovr b input u Hr IH Hu Ht Hov Hp | u o u' Hr IH Ht Ha Hk Ho Hb
                           | u ops u' Hr IH Hops Hs Hb].
  - apply (R3_parse dbg hp hpo hd ovr input u Hu Hp).
    apply (Canon_not_file_drive hp hpo hd). exact (parse_Canon dbg hp hpo hd HRT ovr input u HAb Hu Hn Hov Hp).
  - apply (R3_join dbg hp hpo hd ovr b input u IH Hu Hp).
    apply (Canon_not_file_drive hp hpo hd). apply ReachC3_Canon. exact (RC3_join ovr b input u Hr Hu Ht Hov Hp).
  - apply (R3_step dbg hp hpo hd u o u' IH Ha Hk Ho).
    apply (Canon_not_file_drive hp hpo hd). apply ReachC3_Canon. exact (RC3_step u o u' Hr Ht Ha Hk Ho Hb).
  - apply (R3_qpm dbg hp hpo hd u ops u' IH Hops Hs).
    apply (Canon_not_file_drive hp hpo hd). apply ReachC3_Canon. exact (RC3_qpm u ops u' Hr Hops Hs Hb).
Qed.
End ReachC3.

(* ================= host_nonempty is met by the host model, for every IDNA function ================= *)
Lemma enc_utf8_nil_inv S x : encode S (utf8_encode x) = [] -> x = [].
Proof.
  destruct x as [|c r]; [reflexivity|]. unfold utf8_encode. cbn [flat_map]. unfold utf8_encode1.
  destruct (c <? 128); [|destruct (c <? 2048); [|destruct (c <? 65536)]]; cbn [app]; unfold encode; cbn [flat_map];
    match goal with |- context [if ?b then _ else _] => destruct b end; unfold enc_byte_spec; cbn [app]; discriminate.
Qed.

Lemma host_nonempty_model idna : host_nonempty (host_parse idna) host_parse_opaque.
Proof.
  split.
  - intros s H. unfold host_parse, host_parse_x in H.
    destruct (Host.starts_with 91 s).
    + unfold bracketed in H. destruct (negb (ends_with 93 s)); [discriminate H|].
      destruct (parse_ipv6addr (utf8_encode (removelast (tl s)))); cbn [xr_map xr_result] in H; discriminate H.
    + destruct (idna (decode (utf8_encode s))) as [[|c d]|]; [discriminate H | | discriminate H].
      destruct (ends_in_a_number (c :: d)); [|discriminate H].
      destruct (parse_ipv4addr (c :: d)); cbn [xr_map xr_result] in H; discriminate H.
  - intros s Hu H. unfold host_parse_opaque, host_parse_opaque_x in H.
    destruct (Host.starts_with 91 s).
    + unfold bracketed in H. destruct (negb (ends_with 93 s)); [discriminate H|].
      destruct (parse_ipv6addr (utf8_encode (removelast (tl s)))); cbn [xr_map xr_result] in H; discriminate H.
    + destruct (existsb is_invalid_host_char s); [discriminate H|]. cbn [xr_result] in H.
      assert (pe_display T_CONTROLS (utf8_encode s) = []) as E by congruence.
      rewrite pe_display_utf8 in E by exact Hu. exact (enc_utf8_nil_inv _ _ E).
Qed.

(* the theorem for the parser model linked with the host model: the only premise about hosts is IdnaOK *)
Theorem reach_partial3_model dbg idna : IdnaOK idna -> forall u,
  ReachC3 dbg (host_parse idna) host_parse_opaque host_display u ->
  Fixpoint_of_reparse dbg (host_parse idna) host_parse_opaque host_display u /\ wf_b u = true /\ ascii (ser u).
Proof. intros OK u. exact (reach_partial3 dbg _ _ _ (HostOK2_model idna OK) (host_nonempty_model idna) u). Qed.

(* ================= non-vacuity, on the host model (idna_clean) ================= *)
Definition mhp := host_parse idna_clean.
Definition m_hist (start : string) (ops : list op) : option url :=
  match parse_url true mhp host_parse_opaque host_display None None (B start) with
  | POk u => fold_left (fun acc o => match acc with Some v => apply_op true mhp host_parse_opaque host_display v o | None => None end) ops (Some u)
  | _ => None
  end.
Definition m_fix (u : url) : bool :=
  match parse_url true mhp host_parse_opaque host_display None None (utf8_lossy (ser u)) with POk v => url_eqb v u | _ => false end.

(* http://u@h.x:443/a?q#f -> set_scheme("https") [port 443 becomes the default and is dropped] -> set_host("example.org:99")
   [the port part is ignored] -> set_path("b c/../d?e") -> set_ip_host(127.0.0.1) -> quirks pathname("x") ;
   a:/p -> set_host("h") = a://h/p -> set_scheme("b") -> set_ip_host([::1]) ; each record is a fixpoint *)
Example reach3_example :
  match m_hist "http://u@h.x:443/a?q#f" [OSetScheme (B "https")] with
  | Some u => list_eqb (ser u) (B "https://u@h.x/a?q#f") && m_fix u | None => false end = true
  /\ match m_hist "http://u@h.x:443/a?q#f" [OSetScheme (B "https"); OSetHost (Some (B "example.org:99"))] with
     | Some u => list_eqb (ser u) (B "https://u@example.org/a?q#f") && m_fix u | None => false end = true
  /\ match m_hist "http://u@h.x:443/a?q#f" [OSetScheme (B "https"); OSetHost (Some (B "example.org:99")); OSetPath (B "b c/../d?e")] with
     | Some u => list_eqb (ser u) (B "https://u@example.org/d%3Fe?q#f") && m_fix u | None => false end = true
  /\ match m_hist "http://u@h.x:443/a?q#f" [OSetScheme (B "https"); OSetHost (Some (B "example.org:99")); OSetPath (B "b c/../d?e");
                                            OSetIpHost (HIpv4 2130706433); OQPathname (B "x")] with
     | Some u => list_eqb (ser u) (B "https://u@127.0.0.1/x?q#f") && m_fix u | None => false end = true
  /\ match m_hist "a:/p" [OSetHost (Some (B "h")); OSetScheme (B "b"); OSetIpHost (HIpv6 [0;0;0;0;0;0;0;1])] with
     | Some u => list_eqb (ser u) (B "b://[::1]/p") && m_fix u | None => false end = true.
Proof. vm_compute. repeat split. Qed.

(* ================= C02_statement3 / C02_statement are false as stated ================= *)
(* F-C07-8 inside C02: a://:pw@h/p -> quirks::set_host("") = a://:pw@/p (quirks::set_host refuses an empty host when
   the URL has a username or a port, but does not look at the password; quirks::set_hostname does).  The step is outside
   known_step2, the result is not a file URL, and its serialization does not parse (EmptyHost). *)
Definition w10_dummy : url := mkUrl [] 0 0 0 0 HI_None None 0 None None.
Definition w10_input : list N := B "a://:pw@h/p"%string.
Definition w10_op : op := OQHost [].
Definition w10_u0 : url :=
  match parse_url true mhp host_parse_opaque host_display None None w10_input with POk u => u | _ => w10_dummy end.
Definition w10_u1 : url :=
  match apply_op true mhp host_parse_opaque host_display w10_u0 w10_op with Some u => u | None => w10_dummy end.

Lemma w10_facts :
  parse_url true mhp host_parse_opaque host_display None None w10_input = POk w10_u0
  /\ Known_file_drive w10_u0 = false
  /\ known_step2 true mhp host_parse_opaque host_display w10_u0 w10_op = false
  /\ apply_op true mhp host_parse_opaque host_display w10_u0 w10_op = Some w10_u1
  /\ Known_file_drive w10_u1 = false
  /\ list_eqb (ser w10_u1) (B "a://:pw@/p") = true
  /\ match reparse true mhp host_parse_opaque host_display w10_u1 with PErr EmptyHost => true | _ => false end = true.
Proof. vm_compute. repeat split; reflexivity. Qed.

Lemma w10_input_usv : usv_list w10_input.
Proof. apply Forall_forall. intros c Hc. vm_compute in Hc. unfold is_usv. repeat (destruct Hc as [<-|Hc]; [lia|]). destruct Hc. Qed.

Theorem statement_refuted : ~ C02_statement.
Proof.
  intros H. destruct w10_facts as (E0 & K0 & KS & E1 & K1 & _ & R).
  assert (R1 : Reachable2 true mhp host_parse_opaque host_display w10_u1).
  { eapply R2_step; [eapply R2_parse; [exact w10_input_usv | exact E0 | exact K0] | | exact KS | exact E1 | exact K1].
    constructor. }
  pose proof (H true mhp host_parse_opaque host_display HostOK2_inhabited w10_u1 R1) as F. unfold Fixpoint_of_reparse in F.
  rewrite F in R. discriminate R.
Qed.

Theorem statement3_refuted : ~ C02_statement3.
Proof. intros H. exact (statement_refuted (statement3_implies_2 H)). Qed.
