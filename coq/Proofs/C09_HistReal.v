(* Proofs/C09_HistReal.v - the history theorems of C03 / C05 / C02 for the model linked with the REAL oracle.

   Proofs/C09_Inst2.v states them for the histories of the CAPPED model (Reachable3 / CReachF / ReachC4 at cap idna).
   Here:
   A. every history of the capped model is a history of the model itself, relation by relation
      (Reachable3, Reachable4, CReachF, ReachC6): a capped run that succeeds is the run itself (parse_url_cap_ok), a capped
      step is the step itself or returns the URL unchanged (apply_op2_cap / apply_op5_cap), the known-step classes and the
      step gates do not look at Host::parse;
   B. the RESULT-CLEAN histories of the model itself - every parse / join result passes res_clean, every step result has
      its host text outside Known_C10_long: predicates on the records of the history alone, no capped run in sight - are
      histories of the capped model (run_clean_of_result, step_clean_of_result; the well-formedness these need is the
      invariant of the capped history);
   C. hence inv03 (C03), the property text of C05 and the re-parse fixpoint (C02, ReachC6) for the result-clean
      histories of the model with the oracle ITSELF, premise IdnaOK2 only. *)
From RU Require Import Proofs.C15_Ser.
From RU Require Import Base.Prelude Base.Utf8 Base.Utf8Facts Model.AsciiSet Gen.Tables Model.PercentEncoding
  Model.HostT Model.Host Model.UrlRecord Model.Parser Model.Setters Model.WF Model.QueryPairs
  Proofs.C09_Wf Proofs.C09_Host Proofs.C09_Inst Proofs.C09_InstWf Proofs.C09_Long Proofs.C09_LongRun Proofs.C09_LongHist
  Proofs.C09_RunClean Proofs.C09_Inst2 Proofs.C05_HostParse Proofs.C03_WF Proofs.C06_WFI.
From RU Require Proofs.C02_Reach Proofs.C02_Hist Proofs.C02_Reach3 Proofs.C02_Reach4 Proofs.C02_Stmt4 Proofs.C02_Reach7 Proofs.C02_HistInst
  Proofs.C02_AuthMain Proofs.C02_JoinPath Proofs.C02_JoinAbs Proofs.C02_Reach6
  Proofs.C03_ParseFront Proofs.C03_ReachModel Proofs.C06_Main Proofs.C05_History Proofs.C05_ReachF Proofs.C05_CompSteps3
  Proofs.C05_CompReach Proofs.C05_CompHist Proofs.C05_HostInst Proofs.C05_Alphabet Proofs.C05_Sharp Proofs.C05_HostText Proofs.C05_Comp
  Proofs.C04_ParseTotal Proofs.C05_BaseOk.

(* ================= A. the capped histories are histories of the model ================= *)
Section Incl.
Variable dbg : bool.
Variable idna : list N -> option (list N).

Notation hp := (host_parse idna).
Notation hpc := (host_parse (cap idna)).
Notation hpo := host_parse_opaque.
Notation hd := host_display.

(* the known-step classes run the setter only for set_path / quirks set_pathname (F-C02-8): no Host::parse *)
Lemma known_step_cap u o : C02_Reach.known_step dbg hpc hpo hd u o = C02_Reach.known_step dbg hp hpo hd u o.
Proof. unfold C02_Reach.known_step. destruct o; reflexivity. Qed.

Lemma known_step2_cap u o : C02_Hist.known_step2 dbg hpc hpo hd u o = C02_Hist.known_step2 dbg hp hpo hd u o.
Proof. unfold C02_Hist.known_step2. rewrite known_step_cap. reflexivity. Qed.

Lemma known_step3_cap u o : C02_Stmt4.known_step3 dbg hpc hpo hd u o = C02_Stmt4.known_step3 dbg hp hpo hd u o.
Proof. unfold C02_Stmt4.known_step3. rewrite known_step2_cap. reflexivity. Qed.

Theorem Reachable3_cap u : C02_Reach3.Reachable3 dbg hpc hpo hd u -> C02_Reach3.Reachable3 dbg hp hpo hd u.
Proof.
  induction 1 as [ovr input u Hu Hp Hk | ovr b input u Hb IH Hu Hp Hk | u o u' Hr IH Ha Hk Ho Hk' | u ops u' Hr IH Hops Hs Hk].
  - exact (C02_Reach3.R3_parse dbg hp hpo hd ovr input u Hu (proj1 (parse_url_cap_ok dbg idna ovr None input u Hp)) Hk).
  - exact (C02_Reach3.R3_join dbg hp hpo hd ovr b input u IH Hu (proj1 (parse_url_cap_ok dbg idna ovr (Some b) input u Hp)) Hk).
  - destruct (apply_op2_cap dbg idna u o) as [Ex|Ex]; rewrite Ex in Ho.
    + rewrite known_step2_cap in Hk. exact (C02_Reach3.R3_step dbg hp hpo hd u o u' IH Ha Hk Ho Hk').
    + inversion Ho; subst. exact IH.
  - exact (C02_Reach3.R3_qpm dbg hp hpo hd u ops u' IH Hops Hs Hk).
Qed.

Theorem Reachable4_cap u : C02_Stmt4.Reachable4 dbg hpc hpo hd u -> C02_Stmt4.Reachable4 dbg hp hpo hd u.
Proof.
  induction 1 as [ovr input u Hu Hp Hk | ovr b input u Hb IH Hu Hp Hk | u o u' Hr IH Ha Hk Ho Hk' | u ops u' Hr IH Hops Hs Hk].
  - exact (C02_Stmt4.R4_parse dbg hp hpo hd ovr input u Hu (proj1 (parse_url_cap_ok dbg idna ovr None input u Hp)) Hk).
  - exact (C02_Stmt4.R4_join dbg hp hpo hd ovr b input u IH Hu (proj1 (parse_url_cap_ok dbg idna ovr (Some b) input u Hp)) Hk).
  - destruct (apply_op2_cap dbg idna u o) as [Ex|Ex]; rewrite Ex in Ho.
    + rewrite known_step3_cap in Hk. exact (C02_Stmt4.R4_step dbg hp hpo hd u o u' IH Ha Hk Ho Hk').
    + inversion Ho; subst. exact IH.
  - exact (C02_Stmt4.R4_qpm dbg hp hpo hd u ops u' IH Hops Hs Hk).
Qed.

Theorem ReachC6_cap u : C02_Reach7.ReachC6 dbg hpc hpo hd u -> C02_Reach7.ReachC6 dbg hp hpo hd u.
Proof.
  induction 1 as [ovr input u Hu Hn Hp | ovr b input u Hr IH Hu Ht Hp | ovr b input u Hr IH Hu Ht Hp
                 | ovr b input u Hr Hu Ht Hp | u o u' Hr IH Ha Hk Ho Hb | u ops u' Hr IH Hops Hs Hb].
  - exact (C02_Reach7.RC6_parse dbg hp hpo hd ovr input u Hu Hn (proj1 (parse_url_cap_ok dbg idna ovr None input u Hp))).
  - exact (C02_Reach7.RC6_join_rel dbg hp hpo hd ovr b input u IH Hu Ht (proj1 (parse_url_cap_ok dbg idna ovr (Some b) input u Hp))).
  - exact (C02_Reach7.RC6_join_scheme dbg hp hpo hd ovr b input u IH Hu Ht (proj1 (parse_url_cap_ok dbg idna ovr (Some b) input u Hp))).
  - exact (C02_Reach7.RC6_join_abs_any dbg hp hpo hd ovr b input u (Reachable4_cap b Hr) Hu Ht
             (proj1 (parse_url_cap_ok dbg idna ovr (Some b) input u Hp))).
  - destruct (apply_op2_cap dbg idna u o) as [Ex|Ex]; rewrite Ex in Ho.
    + rewrite known_step3_cap in Hk. exact (C02_Reach7.RC6_step dbg hp hpo hd u o u' IH Ha Hk Ho Hb).
    + inversion Ho; subst. exact IH.
  - exact (C02_Reach7.RC6_qpm dbg hp hpo hd u ops u' IH Hops Hs Hb).
Qed.

(* the gate of C05's steps does not look at Host::parse (quirks set_host: host_gate only) *)
Lemma step_gate3_cap u o u' : C05_CompSteps3.step_gate3 hpc hpo hd u o u' <-> C05_CompSteps3.step_gate3 hp hpo hd u o u'.
Proof. destruct o; try destruct h; split; intros G; exact G. Qed.

Theorem CReachF_cap u : C05_ReachF.CReachF dbg hpc hpo hd u -> C05_ReachF.CReachF dbg hp hpo hd u.
Proof.
  induction 1 as [ovr input u Hp | ovr b input u Hb IH Hp | u o u' Hr IH Hg Ho | u ops u' Hr IH Hops Hs].
  - exact (C05_ReachF.CRF_parse dbg hp hpo hd ovr input u (proj1 (parse_url_cap_ok dbg idna ovr None input u Hp))).
  - exact (C05_ReachF.CRF_join dbg hp hpo hd ovr b input u IH (proj1 (parse_url_cap_ok dbg idna ovr (Some b) input u Hp))).
  - destruct (apply_op5_cap dbg idna u o) as [Ex|Ex]; rewrite Ex in Ho.
    + exact (C05_ReachF.CRF_step dbg hp hpo hd u o u' IH (proj1 (step_gate3_cap u o u') Hg) Ho).
    + inversion Ho; subst. exact IH.
  - exact (C05_ReachF.CRF_qpm dbg hp hpo hd u ops u' IH Hops Hs).
Qed.
End Incl.

(* ================= B. result-clean histories of the model itself ================= *)
Section Clean.
Variable dbg : bool.
Variable idna : list N -> option (list N).
Hypothesis OK : IdnaOK2 idna.
Let OKc : IdnaOK (cap idna) := IdnaOK2_cap idna OK.

Notation hp := (host_parse idna).
Notation hpc := (host_parse (cap idna)).
Notation hpo := host_parse_opaque.
Notation hd := host_display.

(* the host text of the record is outside the class *)
Definition host_clean (u : url) : Prop := known_c10_long (ht u) = false.

(* a step of C02_Reach.apply_op whose result is host_clean is the same step with the capped oracle
   (step_clean_of_result is the same fact for the operations of C05_History.v) *)
Theorem step2_clean_of_result u o u' : wf_b u = true ->
  C02_Reach.apply_op dbg hp hpo hd u o = Some u' -> host_clean u' ->
  C02_Reach.apply_op dbg hpc hpo hd u o = Some u'.
Proof.
  intros W H K.
  assert (host_start u <= nlen (ser u)) as L.
  { destruct (has_authority_b u) eqn:Ha.
    - pose proof (wf_auth_facts u W Ha) as F. pose proof (af_he F). pose proof (af_ps F). pose proof (af_len F). lia.
    - pose proof (wf_noauth_facts u W Ha) as F. pose proof (nf_hs F). pose proof (proj2 (proj2 (wf_scheme_facts u W))). lia. }
  pose (HGc := fun s h Hs Kh => cap_result idna s h OK Hs Kh).
  destruct o; try exact H; cbn [C02_Reach.apply_op] in H |- *.
  - exact (set_host_G dbg hpc hp hpo hd (fun t => known_c10_long t = false) IdnaError (cap_dichotomy idna) HGc u h u' L H K).
  - exact (q_set_host_G dbg hpc hp hpo hd (fun t => known_c10_long t = false) IdnaError (cap_dichotomy idna) HGc long_localhost
             long_empty u s u' L H K).
  - exact (q_set_hostname_G dbg hpc hp hpo hd (fun t => known_c10_long t = false) IdnaError (cap_dichotomy idna) HGc long_localhost
             long_empty u s u' L H K).
Qed.

Lemma step5_capped u o u' : wf_b u = true ->
  C05_History.apply_op dbg hp hpo hd u o = Some u' -> host_clean u' ->
  C05_History.apply_op dbg hpc hpo hd u o = Some u'.
Proof. intros W H K. pose proof (step_clean_of_result dbg idna OK u o u' W H K) as C. unfold step_clean in C. rewrite C. exact H. Qed.

(* ---------- Reachable3 (C02 / C03: parse, join, the 19 mutators outside known_step2, query_pairs_mut) ---------- *)
Inductive Reachable3K : url -> Prop :=
| R3K_parse ovr input u :
    usv_list input -> parse_url dbg hp hpo hd ovr None input = POk u ->
    C02_Reach.Known_file_drive u = false -> res_clean u = true -> Reachable3K u
| R3K_join ovr b input u :
    Reachable3K b -> usv_list input -> parse_url dbg hp hpo hd ovr (Some b) input = POk u ->
    C02_Reach.Known_file_drive u = false -> res_clean u = true -> Reachable3K u
| R3K_step u o u' :
    Reachable3K u -> C02_Reach.op_args_ok o -> C02_Hist.known_step2 dbg hp hpo hd u o = false ->
    C02_Reach.apply_op dbg hp hpo hd u o = Some u' ->
    C02_Reach.Known_file_drive u' = false -> host_clean u' -> Reachable3K u'
| R3K_qpm u ops u' :
    Reachable3K u -> Forall op_ok ops -> query_pairs_session dbg u ops = Some u' ->
    C02_Reach.Known_file_drive u' = false -> Reachable3K u'.

Theorem Reachable3K_cap u : Reachable3K u -> C02_Reach3.Reachable3 dbg hpc hpo hd u.
Proof.
  induction 1 as [ovr input u Hu Hp Hk C | ovr b input u Hb IH Hu Hp Hk C | u o u' Hr IH Ha Hk Ho Hk' C | u ops u' Hr IH Hops Hs Hk].
  - exact (C02_Reach3.R3_parse dbg hpc hpo hd ovr input u Hu (capped_run dbg idna OK ovr None input u I Hp C) Hk).
  - pose proof (proj1 (proj1 (reach3_model2 dbg idna OK b IH))) as Wb.
    exact (C02_Reach3.R3_join dbg hpc hpo hd ovr b input u IH Hu (capped_run dbg idna OK ovr (Some b) input u Wb Hp C) Hk).
  - pose proof (proj1 (proj1 (reach3_model2 dbg idna OK u IH))) as W.
    rewrite <- known_step2_cap in Hk.
    exact (C02_Reach3.R3_step dbg hpc hpo hd u o u' IH Ha Hk (step2_clean_of_result u o u' W Ho C) Hk').
  - exact (C02_Reach3.R3_qpm dbg hpc hpo hd u ops u' IH Hops Hs Hk).
Qed.

Theorem Reachable3K_3 u : Reachable3K u -> C02_Reach3.Reachable3 dbg hp hpo hd u.
Proof. intros H. exact (Reachable3_cap dbg idna u (Reachable3K_cap u H)). Qed.

(* C03_reachability_full for the model with the oracle ITSELF *)
Theorem reach3_real u : Reachable3K u -> C03_ParseFront.inv03 u.
Proof. intros H. exact (reach3_model2 dbg idna OK u (Reachable3K_cap u H)). Qed.

(* ---------- Reachable4 (the full quantifier of C02: steps outside known_step3) ---------- *)
Inductive Reachable4K : url -> Prop :=
| R4K_parse ovr input u :
    usv_list input -> parse_url dbg hp hpo hd ovr None input = POk u ->
    C02_Reach.Known_file_drive u = false -> res_clean u = true -> Reachable4K u
| R4K_join ovr b input u :
    Reachable4K b -> usv_list input -> parse_url dbg hp hpo hd ovr (Some b) input = POk u ->
    C02_Reach.Known_file_drive u = false -> res_clean u = true -> Reachable4K u
| R4K_step u o u' :
    Reachable4K u -> C02_Reach.op_args_ok o -> C02_Stmt4.known_step3 dbg hp hpo hd u o = false ->
    C02_Reach.apply_op dbg hp hpo hd u o = Some u' ->
    C02_Reach.Known_file_drive u' = false -> host_clean u' -> Reachable4K u'
| R4K_qpm u ops u' :
    Reachable4K u -> Forall op_ok ops -> query_pairs_session dbg u ops = Some u' ->
    C02_Reach.Known_file_drive u' = false -> Reachable4K u'.

Lemma reach4_wf u : C02_Stmt4.Reachable4 dbg hpc hpo hd u -> wf_b u = true.
Proof. intros R. exact (proj1 (proj1 (reach3_model2 dbg idna OK u (C02_Stmt4.Reachable4_3 dbg hpc hpo hd u R)))). Qed.

Theorem Reachable4K_cap u : Reachable4K u -> C02_Stmt4.Reachable4 dbg hpc hpo hd u.
Proof.
  induction 1 as [ovr input u Hu Hp Hk C | ovr b input u Hb IH Hu Hp Hk C | u o u' Hr IH Ha Hk Ho Hk' C | u ops u' Hr IH Hops Hs Hk].
  - exact (C02_Stmt4.R4_parse dbg hpc hpo hd ovr input u Hu (capped_run dbg idna OK ovr None input u I Hp C) Hk).
  - exact (C02_Stmt4.R4_join dbg hpc hpo hd ovr b input u IH Hu (capped_run dbg idna OK ovr (Some b) input u (reach4_wf b IH) Hp C) Hk).
  - rewrite <- known_step3_cap in Hk.
    exact (C02_Stmt4.R4_step dbg hpc hpo hd u o u' IH Ha Hk (step2_clean_of_result u o u' (reach4_wf u IH) Ho C) Hk').
  - exact (C02_Stmt4.R4_qpm dbg hpc hpo hd u ops u' IH Hops Hs Hk).
Qed.

(* ---------- ReachC6 (C02: the histories on which the re-parse fixpoint is proved) ---------- *)
Inductive ReachC6K : url -> Prop :=
| RC6K_parse ovr input u :
    usv_list input -> C02_AuthMain.nonfile_input input = true ->
    parse_url dbg hp hpo hd ovr None input = POk u -> res_clean u = true -> ReachC6K u
| RC6K_join_rel ovr b input u :
    ReachC6K b -> usv_list input -> C02_JoinPath.rel_ref input = true ->
    parse_url dbg hp hpo hd ovr (Some b) input = POk u -> res_clean u = true -> ReachC6K u
| RC6K_join_scheme ovr b input u :
    ReachC6K b -> usv_list input -> C02_AuthMain.nonfile_input input = true ->
    parse_url dbg hp hpo hd ovr (Some b) input = POk u -> res_clean u = true -> ReachC6K u
| RC6K_join_abs_any ovr b input u :
    Reachable4K b -> usv_list input -> C02_JoinAbs.abs_ref b input = true ->
    parse_url dbg hp hpo hd ovr (Some b) input = POk u -> res_clean u = true -> ReachC6K u
| RC6K_step u o u' :
    ReachC6K u -> C02_Reach.op_args_ok o -> C02_Stmt4.known_step3 dbg hp hpo hd u o = false ->
    C02_Reach.apply_op dbg hp hpo hd u o = Some u' -> nlen (ser u') <= U32_MAX_P -> host_clean u' -> ReachC6K u'
| RC6K_qpm u ops u' :
    ReachC6K u -> Forall op_ok ops -> query_pairs_session dbg u ops = Some u' ->
    nlen (ser u') <= U32_MAX_P -> ReachC6K u'.

Lemma reachC6_wf u : C02_Reach7.ReachC6 dbg hpc hpo hd u -> wf_b u = true.
Proof.
  intros R. exact (proj1 (proj2 (C02_Reach7.reach_partial6 dbg hpc hpo hd (C02_HistInst.HostOK2_model (cap idna) OKc)
                                    (C02_Reach4.host_nonempty_model (cap idna)) u R))).
Qed.

Theorem ReachC6K_cap u : ReachC6K u -> C02_Reach7.ReachC6 dbg hpc hpo hd u.
Proof.
  induction 1 as [ovr input u Hu Hn Hp C | ovr b input u Hr IH Hu Ht Hp C | ovr b input u Hr IH Hu Ht Hp C
                 | ovr b input u Hr Hu Ht Hp C | u o u' Hr IH Ha Hk Ho Hb C | u ops u' Hr IH Hops Hs Hb].
  - exact (C02_Reach7.RC6_parse dbg hpc hpo hd ovr input u Hu Hn (capped_run dbg idna OK ovr None input u I Hp C)).
  - exact (C02_Reach7.RC6_join_rel dbg hpc hpo hd ovr b input u IH Hu Ht
             (capped_run dbg idna OK ovr (Some b) input u (reachC6_wf b IH) Hp C)).
  - exact (C02_Reach7.RC6_join_scheme dbg hpc hpo hd ovr b input u IH Hu Ht
             (capped_run dbg idna OK ovr (Some b) input u (reachC6_wf b IH) Hp C)).
  - pose proof (Reachable4K_cap b Hr) as R4.
    exact (C02_Reach7.RC6_join_abs_any dbg hpc hpo hd ovr b input u R4 Hu Ht
             (capped_run dbg idna OK ovr (Some b) input u (reach4_wf b R4) Hp C)).
  - rewrite <- known_step3_cap in Hk.
    exact (C02_Reach7.RC6_step dbg hpc hpo hd u o u' IH Ha Hk (step2_clean_of_result u o u' (reachC6_wf u IH) Ho C) Hb).
  - exact (C02_Reach7.RC6_qpm dbg hpc hpo hd u ops u' IH Hops Hs Hb).
Qed.

Theorem ReachC6K_6 u : ReachC6K u -> C02_Reach7.ReachC6 dbg hp hpo hd u.
Proof. intros H. exact (ReachC6_cap dbg idna u (ReachC6K_cap u H)). Qed.

(* C02_reach_partial6 for the histories of the CAPPED model: the re-parse is a run with the oracle ITSELF, a clean one *)
Theorem reach_partial6_model2 u : C02_Reach7.ReachC6 dbg hpc hpo hd u ->
  C02_Reach7.ReachC6 dbg hp hpo hd u
  /\ parse_url dbg hp hpo hd None None (utf8_lossy (ser u)) = POk u /\ run_clean dbg idna None None (utf8_lossy (ser u))
  /\ wf_b u = true /\ ascii (ser u).
Proof.
  intros R. split; [exact (ReachC6_cap dbg idna u R)|].
  destruct (C02_Reach7.reach_partial6_model dbg (cap idna) OKc u R) as (F & W & A).
  unfold C02_Reach.Fixpoint_of_reparse, C02_Reach.reparse in F.
  destruct (parse_url_cap_ok dbg idna None None _ u F) as [F' C]. repeat split; assumption.
Qed.

(* ... and for the result-clean histories of the model with the oracle ITSELF *)
Theorem reach_partial6_real u : ReachC6K u ->
  parse_url dbg hp hpo hd None None (utf8_lossy (ser u)) = POk u /\ run_clean dbg idna None None (utf8_lossy (ser u))
  /\ wf_b u = true /\ ascii (ser u).
Proof. intros H. exact (proj2 (reach_partial6_model2 u (ReachC6K_cap u H))). Qed.

(* ---------- CReachF (C05: parse, join against any reached record, gated steps, query_pairs_mut) ---------- *)
Inductive CReachFK : url -> Prop :=
| CRFK_parse ovr input u : parse_url dbg hp hpo hd ovr None input = POk u -> res_clean u = true -> CReachFK u
| CRFK_join ovr b input u : CReachFK b -> parse_url dbg hp hpo hd ovr (Some b) input = POk u -> res_clean u = true -> CReachFK u
| CRFK_step u o u' : CReachFK u -> C05_CompSteps3.step_gate3 hp hpo hd u o u' ->
    C05_History.apply_op dbg hp hpo hd u o = Some u' -> host_clean u' -> CReachFK u'
| CRFK_qpm u ops u' : CReachFK u -> Forall op_ok ops -> query_pairs_session dbg u ops = Some u' -> CReachFK u'.

Lemma reachF_wf u : C05_ReachF.CReachF dbg hpc hpo hd u -> wf_b u = true.
Proof. intros R. exact (proj1 (proj1 (proj1 (reachF_model2 dbg idna OK u R)))). Qed.

Theorem CReachFK_cap u : CReachFK u -> C05_ReachF.CReachF dbg hpc hpo hd u.
Proof.
  induction 1 as [ovr input u Hp C | ovr b input u Hb IH Hp C | u o u' Hr IH Hg Ho C | u ops u' Hr IH Hops Hs].
  - exact (C05_ReachF.CRF_parse dbg hpc hpo hd ovr input u (capped_run dbg idna OK ovr None input u I Hp C)).
  - exact (C05_ReachF.CRF_join dbg hpc hpo hd ovr b input u IH (capped_run dbg idna OK ovr (Some b) input u (reachF_wf b IH) Hp C)).
  - exact (C05_ReachF.CRF_step dbg hpc hpo hd u o u' IH (proj2 (step_gate3_cap idna u o u') Hg)
             (step5_capped u o u' (reachF_wf u IH) Ho C)).
  - exact (C05_ReachF.CRF_qpm dbg hpc hpo hd u ops u' IH Hops Hs).
Qed.

Theorem CReachFK_F u : CReachFK u -> C05_ReachF.CReachF dbg hp hpo hd u.
Proof. intros H. exact (CReachF_cap dbg idna u (CReachFK_cap u H)). Qed.

(* C05_reachF_model - the property text of C05 - for the model with the oracle ITSELF *)
Theorem reachF_real u : CReachFK u ->
  (C06_Main.wfh u /\ C05_Comp.components_clean dbg u) /\ C05_Alphabet.alphabet_ok u /\ C05_Sharp.sharp u
  /\ C04_ParseTotal.base_ok u = true
  /\ (C05_HostText.spb u = true -> forall s, host_str u = Some (Some s) -> C05_HostInst.host_text_clean s).
Proof. intros H. exact (reachF_model2 dbg idna OK u (CReachFK_cap u H)). Qed.
End Clean.

(* ================= non-vacuity: a result-clean history with the stand-in oracle idna_long ================= *)
(* idna_long satisfies IdnaOK2 and NOT IdnaOK (it answers "x" inside the class).  The history
   Url::parse("http://a.b:81/p") ; quirks set_host("c.d:82") is result-clean in all three relations; its result is
   http://c.d:82/p *)
From Coq Require Import String.
Local Notation Bq := C02_Reach.B.

Lemma usv_small l : forallb (fun c => c <? 128) l = true -> usv_list l.
Proof.
  intros H. apply Forall_forall. intros x Hx. rewrite forallb_forall in H. specialize (H x Hx).
  unfold is_usv. apply N.ltb_lt in H. lia.
Qed.

Example hist_real_inhabited :
  exists u u',
    parse_url true (host_parse idna_long) host_parse_opaque host_display None None (Bq "http://a.b:81/p") = POk u
    /\ C02_Reach.apply_op true (host_parse idna_long) host_parse_opaque host_display u (C02_Reach.OQHost (Bq "c.d:82")) = Some u'
    /\ ser u' = Bq "http://c.d:82/p"
    /\ Reachable3K true idna_long u' /\ ReachC6K true idna_long u' /\ CReachFK true idna_long u'.
Proof.
  destruct (parse_url true (host_parse idna_long) host_parse_opaque host_display None None (Bq "http://a.b:81/p")) as [u| |] eqn:Ep;
    try (vm_compute in Ep; discriminate Ep).
  destruct (C02_Reach.apply_op true (host_parse idna_long) host_parse_opaque host_display u (C02_Reach.OQHost (Bq "c.d:82"))) as [u'|] eqn:Eo;
    [|vm_compute in Ep; inversion Ep; subst u; vm_compute in Eo; discriminate Eo].
  exists u, u'. split; [reflexivity|]. split; [exact Eo|].
  assert (usv_list (Bq "http://a.b:81/p")) as U1 by (apply usv_small; vm_compute; reflexivity).
  assert (usv_list (Bq "c.d:82")) as U2 by (apply usv_small; vm_compute; reflexivity).
  assert (res_clean u = true /\ C02_Reach.Known_file_drive u = false
          /\ C02_Stmt4.known_step3 true (host_parse idna_long) host_parse_opaque host_display u (C02_Reach.OQHost (Bq "c.d:82")) = false
          /\ C02_AuthMain.nonfile_input (Bq "http://a.b:81/p") = true) as (C1 & K1 & KS & NF).
  { vm_compute in Ep. inversion Ep; subst u. vm_compute. repeat split; reflexivity. }
  assert (ser u' = Bq "http://c.d:82/p" /\ known_c10_long (ht u') = false /\ C02_Reach.Known_file_drive u' = false
          /\ nlen (ser u') <= U32_MAX_P
          /\ (has_authority_b u = true /\ hosti u' <> HI_None)) as (S' & C2 & K2 & L2 & G2).
  { vm_compute in Ep. inversion Ep; subst u. vm_compute in Eo. inversion Eo; subst u'.
    split; [vm_compute; reflexivity|]. split; [vm_compute; reflexivity|]. split; [vm_compute; reflexivity|].
    split; [vm_compute; intros X; discriminate X|]. split; [vm_compute; reflexivity | vm_compute; intros X; discriminate X]. }
  split; [exact S'|]. split; [|split].
  - apply (R3K_step true idna_long u (C02_Reach.OQHost (Bq "c.d:82")) u').
    + exact (R3K_parse true idna_long None _ u U1 Ep K1 C1).
    + exact U2.
    + exact (C02_Stmt4.known_step3_2 _ _ _ _ u _ KS).
    + exact Eo.
    + exact K2.
    + exact C2.
  - apply (RC6K_step true idna_long u (C02_Reach.OQHost (Bq "c.d:82")) u').
    + exact (RC6K_parse true idna_long None _ u U1 NF Ep C1).
    + exact U2.
    + exact KS.
    + exact Eo.
    + exact L2.
    + exact C2.
  - apply (CRFK_step true idna_long u (C05_History.OQHost (Bq "c.d:82")) u').
    + exact (CRFK_parse true idna_long None _ u Ep C1).
    + cbn [C05_CompSteps3.step_gate3]. unfold C05_CompReach.host_gate. destruct G2 as [G2a G2b]. split.
      * intros X. rewrite G2a in X. discriminate X.
      * intros _ X. contradiction.
    + cbn [C05_History.apply_op]. rewrite drop_status_fst. exact Eo.
    + exact C2.
Qed.
