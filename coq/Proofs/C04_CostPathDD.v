(* Proofs/C04_CostPathDD.v - a computable sufficient condition for "the run resolves no double-dot segment", hence for
   the linear bound of C04_CostPathUp.path_cost_linear_no_dd: the input (and the pending text) contains neither '.' nor
   '%', the scheme type is not file, and the run starts at a segment boundary (as parse_path does: segment_start =
   |serialization|; more generally: the text behind segment_start is made of `units`).
   Then every segment finish_segment looks at is the percent-encoding of '.'-free, '%'-free characters: a sequence of
   units - single bytes other than '.' and '%', or triples "%XY" that are not "%2E" - and no such sequence is a
   double-dot spelling.  (A TAB inside "..", as in ".<TAB>.", IS resolved as a double dot - the Input iterator drops
   it - which is why the condition is on the characters and not on the segment list.) *)
From RU Require Import Base.Prelude Base.Utf8 Base.Utf8Facts Model.AsciiSet Gen.Tables
  Model.PercentEncoding Model.HostT Model.UrlRecord Model.Parser Model.Setters Model.Cost
  Proofs.ListN Proofs.C14_Set Proofs.C14_Enc Proofs.C14_Views Proofs.C02_Path Proofs.C01_EqDots Proofs.C04_Cost Proofs.C04_CostPathUp.

Definition dotfree (t : list N) : Prop := Forall (fun c => c <> 46 /\ c <> 37) t.

Inductive units : list N -> Prop :=
| U_nil : units []
| U_byte b r : b <> 46 -> b <> 37 -> units r -> units (b :: r)
| U_trip h l r : ~ (h = 50 /\ (l = 69 \/ l = 101)) -> h <> 46 -> l <> 46 -> units r -> units (37 :: h :: l :: r).

Lemma units_app a b : units a -> units b -> units (a ++ b).
Proof. induction 1; intros Hb; cbn [app]; [exact Hb | apply U_byte; auto | apply U_trip; auto]. Qed.

Lemma pct2e_spec a b c : is_pct2e a b c = true -> a = 37 /\ b = 50 /\ (c = 69 \/ c = 101).
Proof. unfold is_pct2e. intros H. apply andb_true_iff in H. destruct H as [H H3]. apply andb_true_iff in H. destruct H as [H1 H2]. lia. Qed.

Lemma units_head x : units x ->
  match x with
  | [] => True
  | a :: r => a <> 46 /\ (a = 37 -> match r with h :: l :: _ => ~ (h = 50 /\ (l = 69 \/ l = 101)) | _ => False end)
  end.
Proof. intros U. inversion U; subst; [exact I | split; [assumption|intros; contradiction] | split; [lia|intros _; assumption]]. Qed.

Lemma units_not_dd x : units x -> is_double_dot x = false.
Proof.
  intros U. pose proof (units_head x U) as H. rewrite is_double_dot_eq.
  destruct (is_double_dot' x) eqn:E; [exfalso|reflexivity].
  destruct x as [|a [|b [|c [|d [|e [|f [|g r]]]]]]]; cbn [is_double_dot'] in E; try discriminate; destruct H as [H46 H37].
  - apply andb_true_iff in E. destruct E as [E _]. apply N.eqb_eq in E. contradiction.
  - apply orb_true_iff in E. destruct E as [E|E]; apply andb_true_iff in E; destruct E as [E1 E2].
    + apply N.eqb_eq in E1. contradiction.
    + destruct (pct2e_spec _ _ _ E1) as (-> & -> & Hc). apply (H37 eq_refl). split; [reflexivity|exact Hc].
  - apply andb_true_iff in E. destruct E as [E1 _].
    destruct (pct2e_spec _ _ _ E1) as (-> & -> & Hc). apply (H37 eq_refl). split; [reflexivity|exact Hc].
Qed.

(* the percent-encoding of '.'-free, '%'-free bytes is made of units *)
Lemma enc_byte_unit b : b < 256 -> b <> 46 ->
  ~ (hex_upper (b / 16) = 50 /\ (hex_upper (b mod 16) = 69 \/ hex_upper (b mod 16) = 101))
  /\ hex_upper (b / 16) <> 46 /\ hex_upper (b mod 16) <> 46.
Proof.
  intros Hb Hn. unfold hex_upper. pose proof (N.div_mod b 16 ltac:(lia)) as Hd.
  pose proof (N.mod_lt b 16 ltac:(lia)) as Hm.
  assert (b / 16 < 16) as Hq by (apply N.div_lt_upper_bound; lia).
  destruct (b / 16 <? 10) eqn:E1; destruct (b mod 16 <? 10) eqn:E2; repeat split; lia.
Qed.

Lemma encode_units S bs : bytes bs -> Forall (fun b => b <> 46 /\ b <> 37) bs -> units (encode S bs).
Proof.
  induction bs as [|b r IH]; intros Hb Hd; [constructor|]. inversion Hb as [|? ? Hb1 Hbr]; subst.
  inversion Hd as [|? ? [H46 H37] Hdr]; subst. unfold encode in *. cbn [flat_map].
  destruct (should_encode S b).
  - unfold enc_byte_spec. cbn [app]. unfold is_byte in Hb1. destruct (enc_byte_unit b Hb1 H46) as (X1 & X2 & X3).
    apply U_trip; auto.
  - cbn [app]. apply U_byte; auto.
Qed.

Lemma utf8_dotfree t : usv_list t -> dotfree t -> Forall (fun b => b <> 46 /\ b <> 37) (utf8_encode t).
Proof.
  induction t as [|c r IH]; intros Hu Hd; [constructor|]. inversion Hu; subst. inversion Hd as [|? ? [H46 H37] Hdr]; subst.
  unfold utf8_encode in *. cbn [flat_map]. apply Forall_app. split; [|apply IH; assumption].
  unfold utf8_encode1. destruct (c <? 128) eqn:E1; [repeat constructor; assumption|].
  destruct (c <? 2048); [repeat constructor; lia|]. destruct (c <? 65536); repeat constructor; lia.
Qed.

Lemma push_encoded_units S ser t : usv_list t -> dotfree t -> exists x, push_encoded S ser t = ser ++ x /\ units x.
Proof.
  intros Hu Hd. unfold push_encoded. eexists. split; [reflexivity|].
  rewrite pe_display_is_encode by (apply utf8_encode_bytes; exact Hu).
  apply encode_units; [apply utf8_encode_bytes; exact Hu | apply utf8_dotfree; assumption].
Qed.

Lemma dotfree_rev t : dotfree t -> dotfree (rev t).
Proof. unfold dotfree. intros H. apply Forall_forall. intros x Hx. rewrite Forall_forall in H. apply H. apply in_rev. exact Hx. Qed.

(* the invariant: behind segment_start the serialization is a sequence of units *)
Definition seg_units (ser : list N) (ss : N) : Prop := exists pre x, ser = pre ++ x /\ nlen pre = ss /\ units x.

Lemma push_pending_units ctx st ser ss pend : usv_list pend -> dotfree pend -> seg_units ser ss ->
  seg_units (push_pending ctx st ser pend) ss.
Proof.
  intros Hu Hd (pre & x & -> & Hl & Ux). unfold push_pending. destruct pend as [|c r]; [exists pre, x; auto|].
  destruct (push_encoded_units (path_set ctx st) (pre ++ x) (rev (c :: r)) (usv_rev _ Hu) (dotfree_rev _ Hd)) as (y & -> & Uy).
  exists pre, (x ++ y). rewrite app_assoc. split; [reflexivity|]. split; [exact Hl | apply units_app; assumption].
Qed.

Lemma dd_here_units_false ser ss : seg_units ser ss -> dd_here ser ss false = 0.
Proof.
  intros (pre & x & -> & Hl & Ux). unfold dd_here. subst ss.
  replace (nlen (pre ++ x)) with (nlen pre + nlen x) by (rewrite nlen_app; reflexivity).
  rewrite <- (app_nil_r x) at 1. rewrite slice_mid. rewrite (units_not_dd x Ux). reflexivity.
Qed.

Lemma dd_here_units_true ser ss : seg_units ser ss -> dd_here (ser ++ [47]) ss true = 0.
Proof.
  intros (pre & x & -> & Hl & Ux). unfold dd_here. subst ss.
  replace (nlen ((pre ++ x) ++ [47]) - 1) with (nlen pre + nlen x) by (rewrite !nlen_app; change (nlen [47]) with 1; lia).
  rewrite <- app_assoc. rewrite slice_mid. rewrite (units_not_dd x Ux). reflexivity.
Qed.

Lemma seg_units_end ser : seg_units ser (nlen ser).
Proof. exists ser, []. rewrite app_nil_r. repeat split. constructor. Qed.

Section NoDD.
Variable dbg : bool.

Theorem dd_count_dotfree ctx st ps l : st_is_file st = false -> forall ser ss pend hh,
  usv_list l -> dotfree l -> usv_list pend -> dotfree pend -> seg_units ser ss ->
  dd_count dbg ctx st ps l ser ss pend hh = 0.
Proof.
  intros Hf. induction l as [|c r IH]; intros ser ss pend hh Hl Hd Hp Hdp J; cbn [dd_count].
  - apply dd_here_units_false. apply push_pending_units; assumption.
  - inversion Hl as [|? ? Hc Hr]; subst. inversion Hd as [|? ? Hdc Hdr]; subst.
    pose proof (push_pending_units ctx st ser ss pend Hp Hdp J) as J0.
    destruct (is_tnl c); [apply IH; try assumption; constructor|].
    destruct (negb (ctx_eqb ctx CPathSegmentSetter) && ((c =? 47) || (c =? 92) && st_is_special st)).
    + cbv zeta. rewrite (dd_here_units_true _ _ J0).
      destruct (finish_segment dbg st ps (push_pending ctx st ser pend ++ [47]) ss true hh) as [[s2 h2]| |]; [|reflexivity|reflexivity].
      rewrite N.add_0_l. apply IH; try assumption; try constructor. apply seg_units_end.
    + destruct (((c =? 63) || (c =? 35)) && ctx_eqb ctx CUrlParser); [apply dd_here_units_false; exact J0|].
      rewrite Hf. cbn [andb]. apply IH; try assumption; constructor; assumption.
Qed.

(* parse_path (segment_start = |serialization|) on '.'-free, '%'-free input, any non-file scheme type and context:
   at most 44 (|serialization| + |input|) + 8 steps *)
Theorem parse_path_linear_dotfree ctx st hh ps ser l : st_is_file st = false -> usv_list l -> dotfree l ->
  snd (parse_path_c dbg ctx st hh ps ser l) <= 44 * (nlen ser + nlen l) + 8.
Proof.
  intros Hf Hl Hd. unfold parse_path_c.
  pose proof (path_cost_linear_no_dd dbg ctx st ps l ser (nlen ser) [] hh Hl (Forall_nil _)
                (dd_count_dotfree ctx st ps l Hf ser (nlen ser) [] hh Hl Hd (Forall_nil _) (Forall_nil _) (seg_units_end ser))) as H.
  change (nlen []) with 0 in H. lia.
Qed.

(* the same without the serialization term: for a non-file scheme type the cost of one parse_path call does not depend
   on the text in front of it *)
Theorem parse_path_linear_dotfree_nofile ctx st hh ps ser l : st_is_file st = false -> usv_list l -> dotfree l ->
  snd (parse_path_c dbg ctx st hh ps ser l) <= 18 * nlen l + 5.
Proof.
  intros Hf Hl Hd. unfold parse_path_c.
  pose proof (path_cost_upper dbg ctx st ps l ser (nlen ser) [] hh Hl (Forall_nil _)) as H.
  rewrite (dd_count_dotfree ctx st ps l Hf ser (nlen ser) [] hh Hl Hd (Forall_nil _) (Forall_nil _) (seg_units_end ser)) in H.
  unfold fix_bound in H. rewrite Hf in H. change (nlen []) with 0 in H. lia.
Qed.

(* PathSegmentsMut::extend outside finding F-C04-6 (file: URLs): for a non-file scheme type and '.'-free, '%'-free
   segments the whole call is linear in the segments - 20 per character (18 for parse_path, 2 for the skip test of
   extend, which scans the tab / LF / CR-free text of the segment at most twice) and 7 per segment *)
Definition total_len (segs : list (list N)) : N := fold_right (fun s a => nlen s + a) 0 segs.

Theorem extend_linear_dotfree st ps segs : st_is_file st = false -> Forall usv_list segs -> Forall dotfree segs ->
  forall s, snd (psm_extend_loop_c dbg st ps s segs) <= 20 * total_len segs + 7 * nlen (map nlen segs) + 1.
Proof.
  intros Hf. induction segs as [|seg rest IH]; intros Hu Hd s; cbn [psm_extend_loop_c]; [cbn; lia|].
  inversion Hu as [|? ? Hu1 Hur]; subst. inversion Hd as [|? ? Hd1 Hdr]; subst.
  cbn [map total_len fold_right]. fold (total_len rest). rewrite nlen_cons.
  destruct (C04_Cost.psm_skips_c_spec seg) as [_ Hk]. destruct (psm_skips_c seg) as [skip k]. cbn [snd] in Hk.
  destruct skip.
  - specialize (IH Hur Hdr s). destruct (psm_extend_loop_c dbg st ps s rest) as [o n]. cbn [snd] in *. lia.
  - set (s1 := if (ps + 1 <? nlen s) || (nlen s =? ps) then s ++ [47] else s).
    pose proof (parse_path_linear_dotfree_nofile CPathSegmentSetter st true ps s1 seg Hf Hu1 Hd1) as Hc.
    destruct (parse_path_c dbg CPathSegmentSetter st true ps s1 seg) as [o c]. cbn [snd] in Hc.
    destruct o as [[[s2 h2] r2]| |]; cbn [snd]; try lia.
    specialize (IH Hur Hdr s2). destruct (psm_extend_loop_c dbg st ps s2 rest) as [o2 n2]. cbn [snd] in *. lia.
Qed.
End NoDD.

(* F-C06-7 (FIXED; found here as C04_push_tab_dotdot_witness): before the repair extend() skipped exactly the literal "."
   and "..", ". TAB ." was handed to parse_path, whose Input iterator drops the TAB, finish_segment saw ".." and the
   segment b of http://h/a/b was POPPED (http://h/a/).  extend() now makes its test on the tab / LF / CR-free text:
   push(".<TAB>.") is skipped like push("..") - the URL is left alone in both configurations - although parse_path on
   that text would still count a double dot (dd_count = 1): the segment no longer reaches it. *)
Definition w_tab_url : url := mkUrl [104;116;116;112;58;47;47;104;47;97;47;98] 4 7 7 8 HI_Domain None 8 None None.
Lemma push_tab_dotdot_fixed :
  path_segments_session true w_tab_url [PPush [46; 9; 46]] = Some (w_tab_url, SOk)
  /\ path_segments_session false w_tab_url [PPush [46; 9; 46]] = Some (w_tab_url, SOk)
  /\ path_segments_session true w_tab_url [PPush [46; 46]] = Some (w_tab_url, SOk)
  /\ psm_skips_c [46; 9; 46] = (true, 6)
  /\ dd_count true CPathSegmentSetter STSpecialNotFile 8 [46; 9; 46] [104;116;116;112;58;47;47;104;47;97;47;98;47] 13 [] true = 1.
Proof. vm_compute. repeat split; reflexivity. Qed.
