(* Proofs/C05_AuthOfs.v - "a special scheme is followed by ://" as an invariant, first half: the mutators.
   AO u := scheme_end u + 3 <= username_end u.  On a well-formed record this is has_authority_b u = true
   (wf_authority starts with it, wf_no_authority says username_end = scheme_end + 1), so it can be followed
   through the mutators by looking at the two offsets alone - no reasoning about the serialization:
     sf u u' : scheme_end and username_end are the same (fragment, query, path, port, password, sessions);
     set_host_internal adds 2 to username_end or keeps it; set_username writes behind scheme_end + 3;
     set_scheme shifts both offsets by the same amount; set_host(None) is the one mutator that removes
     "//" - and only for a scheme that is not special (file keeps "file://").
   AS u := special scheme -> AO u;  as_bk : wf_b u -> AS u -> bk u (the second half of base_ok). *)
From RU Require Import Base.Prelude Base.Utf8 Model.AsciiSet Gen.Tables Model.PercentEncoding
  Model.HostT Model.UrlRecord Model.Parser Model.Setters Model.WF
  Proofs.ListN Proofs.C03_WF Proofs.C05_Enc Proofs.C05_Parser Proofs.C05_Setters
  Proofs.C06_List Proofs.C06_WFI Proofs.C06_Tail Proofs.C06_Steps Proofs.C06_Suffix Proofs.C06_FragQuery Proofs.C04_ParseTotal
  Proofs.C05_History Proofs.C05_BaseOk.

Definition AO (u : url) : Prop := scheme_end u + 3 <= username_end u.
Definition AS (u : url) : Prop := st_is_special (scheme_type_of (b_scheme u)) = true -> AO u.

(* the same two offsets *)
Definition sf (u u' : url) : Prop := scheme_end u' = scheme_end u /\ username_end u' = username_end u.

Lemma sf_refl u : sf u u.
Proof. split; reflexivity. Qed.
Lemma sf_trans a b c : sf a b -> sf b c -> sf a c.
Proof. intros [A1 A2] [B1 B2]. split; congruence. Qed.
Lemma sf_ao u u' : sf u u' -> AO u -> AO u'.
Proof. intros [A B] H. unfold AO in *. rewrite A, B. exact H. Qed.

(* ---------- AO and has_authority_b on well-formed records ---------- *)
Lemma wf_ao_auth u : wf_b u = true -> AO u -> has_authority_b u = true.
Proof.
  intros W H. destruct (has_authority_b u) eqn:Ha; [reflexivity|]. exfalso.
  pose proof (nf_ue (wf_noauth_facts u W Ha)) as E. unfold AO in H. lia.
Qed.

Lemma wf_auth_ao u : wf_b u = true -> has_authority_b u = true -> AO u.
Proof. intros W Ha. pose proof (af_ue (wf_auth_facts u W Ha)) as E. unfold AO. lia. Qed.

Lemma auth_sl1 u : has_authority_b u = true -> sl1 u.
Proof.
  intros Ha. unfold has_authority_b in Ha. apply css_bytes in Ha. destruct Ha as (_ & C1 & _). exact C1.
Qed.

Theorem as_bk u : wf_b u = true -> AS u -> bk u.
Proof. intros W H Hs. apply auth_sl1. apply (wf_ao_auth u W). exact (H Hs). Qed.

Theorem as_base_ok u : wf_b u = true -> AS u -> base_ok u = true.
Proof. intros W H. apply base_ok_iff. split; [exact W | exact (as_bk u W H)]. Qed.

Section Ofs.
Variable dbg : bool.
Variable hp hpo : list N -> result host.
Variable hd : host -> list N.

(* ---------- fragment / query ---------- *)
Lemma strip_sf u u' : strip_trailing_spaces_from_opaque_path u = Some u' -> sf u u'.
Proof.
  unfold strip_trailing_spaces_from_opaque_path. intros H. ob H cbb Hc.
  destruct (negb cbb); [inversion H; subst; apply sf_refl|].
  destruct (fragment_start u); [inversion H; subst; apply sf_refl|].
  destruct (query_start u); inversion H; subst; split; reflexivity.
Qed.

Lemma set_fragment_sf u f u' : set_fragment dbg u f = Some u' -> sf u u'.
Proof.
  unfold set_fragment. intros H. ob H s0 Hs0. destruct f as [input|].
  - inversion H; subst. split; reflexivity.
  - apply strip_sf in H. destruct H as [A B]. split; [exact A | exact B].
Qed.

Lemma take_fragment_sf u u1 frag : take_fragment dbg u = Some (u1, frag) -> sf u u1.
Proof.
  unfold take_fragment. intros H. destruct (fragment_start u).
  - ob H x Hx. ob H f Hf. inversion H; subst. split; reflexivity.
  - inversion H; subst. apply sf_refl.
Qed.

Lemma restore_fragment_sf u frag u' : restore_already_parsed_fragment u frag = Some u' -> sf u u'.
Proof.
  unfold restore_already_parsed_fragment. intros H. destruct frag as [f|]; [|inversion H; subst; apply sf_refl].
  ob H x Hx. inversion H; subst. split; reflexivity.
Qed.

Lemma set_query_sf u q u' : set_query dbg u q = Some u' -> sf u u'.
Proof.
  unfold set_query. intros H. ob H a Ha. destruct a as [u1 frag]. apply take_fragment_sf in Ha.
  ob H u2 Hu2. ob H u3 Hu3. apply restore_fragment_sf in H.
  assert (sf u1 u2) as H2.
  { destruct (query_start u1).
    - ob Hu2 x Hx. inversion Hu2; subst. split; reflexivity.
    - inversion Hu2; subst. apply sf_refl. }
  assert (sf u2 u3) as H3.
  { destruct q as [input|].
    - ob Hu3 st Hst.
      destruct (parse_query None CSetter st (scheme_end u2) (ser u2 ++ [63]) (input_new_trim_tnl input)) as [s r].
      inversion Hu3; subst. split; reflexivity.
    - destruct frag; [inversion Hu3; subst; apply sf_refl | apply strip_sf; exact Hu3]. }
  exact (sf_trans _ _ _ Ha (sf_trans _ _ _ H2 (sf_trans _ _ _ H3 H))).
Qed.

(* ---------- path ---------- *)
Lemma take_after_path_sf u u1 ap : take_after_path u = Some (u1, ap) -> sf u u1.
Proof.
  unfold take_after_path. intros H.
  destruct (query_start u) as [i|]; [|destruct (fragment_start u) as [i|]].
  3:{ inversion H; subst. apply sf_refl. }
  all: ob H a Ha; inversion H; subst; split; reflexivity.
Qed.

Lemma restore_after_path_sf u op ap u' : restore_after_path dbg u op ap = Some u' -> sf u u'.
Proof.
  unfold restore_after_path. intros H. cbv zeta in H. ob H qs Hq. ob H fs Hf. inversion H; subst. split; reflexivity.
Qed.

Lemma set_path_sf u p u' : set_path dbg u p = Some u' -> sf u u'.
Proof.
  unfold set_path. intros H. ob H a Ha. destruct a as [u1 ap]. apply take_after_path_sf in Ha. cbv zeta in H.
  ob H cbb Hcbb. ob H st Hst. ob H s1 Hs1. apply restore_after_path_sf in H.
  eapply sf_trans; [exact Ha|]. destruct H as [A B]. split; [exact A | exact B].
Qed.

(* ---------- port ---------- *)
Lemma set_port_internal_sf u p u' : set_port_internal dbg u p = Some u' -> sf u u'.
Proof.
  unfold set_port_internal. intros H.
  destruct (port u) as [old|]; destruct p as [new|].
  4:{ inversion H; subst. apply sf_refl. }
  2:{ ob H s Hs0. ob H rest Hr. ob H x Hx. cbv zeta in H. ob H qs Hq. ob H fs Hf. inversion H; subst. split; reflexivity. }
  - destruct (old =? new); [inversion H; subst; apply sf_refl|].
    ob H pa Hpa. cbv zeta in H. ob H qs Hq. ob H fs Hf. inversion H; subst. split; reflexivity.
  - ob H pa Hpa. cbv zeta in H. ob H qs Hq. ob H fs Hf. inversion H; subst. split; reflexivity.
Qed.

Lemma set_port_sf u p u' st : set_port dbg u p = Some (u', st) -> sf u u'.
Proof.
  unfold set_port. intros H. ob H c Hc. destruct c; [inversion H; subst; apply sf_refl|].
  ob H s Hsch. cbv zeta in H. ob H u1 Hu1. inversion H; subst. eapply set_port_internal_sf; eassumption.
Qed.

(* ---------- host ---------- *)
Lemma set_host_internal_ao u h onp u' : set_host_internal dbg hd u h onp = Some u' ->
  scheme_end u' = scheme_end u /\ username_end u <= username_end u'.
Proof.
  unfold set_host_internal. intros H. cbv zeta in H. ob H suffix Hsuf. ob H ha Hha. ob H a Ha. destruct a as [[s1 ue] hs].
  assert (username_end u <= ue) as Hue.
  { destruct (negb ha).
    - ob Ha x Hx. inversion Ha; subst. lia.
    - inversion Ha; subst. lia. }
  destruct onp as [np|].
  - destruct np as [p|]; cbv beta iota zeta in H; ob H ps Hps; ob H qs Hq; ob H fs Hf; inversion H; subst; cbn [scheme_end username_end];
      (split; [reflexivity | exact Hue]).
  - cbv beta iota zeta in H. ob H ps Hps. ob H qs Hq. ob H fs Hf. inversion H; subst. cbn [scheme_end username_end].
    split; [reflexivity | exact Hue].
Qed.

Lemma shi_ao u h onp u' : set_host_internal dbg hd u h onp = Some u' -> AO u -> AO u'.
Proof. intros H A. destruct (set_host_internal_ao u h onp u' H) as [E L]. unfold AO in *. rewrite E. lia. Qed.

(* Url::set_host: Some _ keeps AO; None keeps it unless the scheme is not special *)
Lemma set_host_ao u h u' st : set_host dbg hp hpo hd u h = Some (u', st) -> AO u ->
  AO u' \/ exists sty, u_scheme_type u = Some sty /\ st_is_special sty = false.
Proof.
  unfold set_host. intros H A. ob H cbb Hcbb. destruct cbb; [inversion H; subst; left; exact A|].
  ob H sty Hsty. destruct h as [hs|].
  - left.
    destruct ((match hs with [] => true | _ => false end) && st_is_special sty && negb (st_is_file sty));
      [inversion H; subst; exact A|]. cbv zeta in H.
    match type of H with context [if ?c then Some hs else ?e] => destruct (if c then Some hs else e) as [hsub|] end;
      [|inversion H; subst; exact A].
    destruct (if st_is_special sty then hp hsub else hpo hsub) as [host|e] eqn:Eh; [|inversion H; subst; exact A].
    ob H u1 Hu1. inversion H; subst. exact (shi_ao u host None u' Hu1 A).
  - destruct (has_host u); [|inversion H; subst; left; exact A].
    destruct (st_is_special sty && negb (st_is_file sty)) eqn:Esp; [inversion H; subst; left; exact A|]. cbv zeta in H.
    ob H x Hx. ob H y Hy. ob H z Hz. ob H qs Hq. ob H fs Hf. inversion H; subst.
    destruct (st_is_file sty) eqn:Ef.
    + left. unfold AO. cbn [scheme_end username_end]. lia.
    + right. exists sty. split; [exact Hsty|]. destruct (st_is_special sty); [discriminate Esp | reflexivity].
Qed.

Lemma set_ip_host_ao u h u' st : set_ip_host dbg hd u h = Some (u', st) -> AO u -> AO u'.
Proof.
  unfold set_ip_host. intros H A. ob H cbb Hcbb. destruct cbb; [inversion H; subst; exact A|].
  ob H u1 Hu1. inversion H; subst. exact (shi_ao u h None u' Hu1 A).
Qed.

(* ---------- password / username ---------- *)
Lemma set_password_sf u pw u' st : set_password dbg u pw = Some (u', st) -> sf u u'.
Proof.
  unfold set_password. intros H. ob H c Hc. destruct c; [inversion H; subst; apply sf_refl|]. cbv zeta in H.
  destruct (match pw with Some x => x | None => [] end) as [|x r].
  - ob H c Hc2. destruct c; [|inversion H; subst; apply sf_refl].
    ob H at_ Hat. ob H y Hy. ob H z Hz. ob H hs Hhs. ob H he Hhe. ob H ps Hps. ob H qs Hq. ob H fs Hf.
    inversion H; subst. split; reflexivity.
  - ob H haa Hhaa. ob H he Hhe. ob H ps Hps. ob H qs Hq. ob H fs Hf. inversion H; subst. split; reflexivity.
Qed.

Lemma slice_o_bounds l a b s : slice_o l a b = Some s -> a <= b /\ b <= nlen l.
Proof.
  unfold slice_o. destruct ((a <=? b) && (b <=? nlen l)) eqn:E; [|discriminate]. intros _.
  apply andb_true_iff in E. lia.
Qed.

Lemma set_username_ao u un u' st : set_username dbg u un = Some (u', st) -> AO u -> AO u'.
Proof.
  unfold set_username. intros H A. ob H c Hc. destruct c; [inversion H; subst; exact A|]. cbv zeta in H.
  ob H x Hx. ob H cur Hcur. destruct (list_eqb cur (utf8_encode un)); [inversion H; subst; exact A|].
  ob H au Hau.
  unfold u_slice in Hcur. apply slice_o_bounds in Hcur. destruct Hcur as [L1 L2].
  set (s := push_encoded T_USERINFO (truncate (ser u) (scheme_end u + 3)) un) in *.
  assert (scheme_end u + 3 <= nlen s) as Ls.
  { unfold s, push_encoded, truncate. rewrite nlen_app, nlen_nfirstn by lia. lia. }
  match type of H with context [match nlen s =? scheme_end u + 3 with true => ?a | false => ?b end] =>
    destruct (match nlen s =? scheme_end u + 3 with true => a | false => b end) as [[s' removed] added] eqn:E end.
  ob H hs Hhs. ob H he Hhe. ob H ps Hps. ob H qs Hq. ob H fs Hf. inversion H; subst.
  unfold AO. cbn [scheme_end username_end]. exact Ls.
Qed.

(* ---------- scheme ---------- *)
Lemma adjust_val idx a b r : adjust dbg idx a b = Some r -> a <= idx -> r = idx - a + b.
Proof. intros H L. rewrite (adjust_ok dbg idx a b L) in H. inversion H. reflexivity. Qed.

Lemma set_scheme_ao u sch u' st : set_scheme dbg u sch = Some (u', st) -> AO u -> AO u'.
Proof.
  unfold set_scheme. intros H A.
  destruct (parse_scheme CSetter (input_new_no_trim sch)) as [[ns rem]|] eqn:Esch; [|inversion H; subst; exact A].
  cbv zeta in H. ob H ost Host. ob H ha Hha.
  match type of H with (if ?c then _ else _) = _ => destruct c end; [inversion H; subst; exact A|].
  match type of H with (if ?c then _ else _) = _ => destruct c end; [inversion H; subst; exact A|].
  ob H ue Hue. ob H hs Hhs. ob H he Hhe. ob H ps Hps. ob H qs Hq. ob H fs Hf. ob H rest Hrest.
  ob H r Hr. destruct r as [u2 st2]. cbn [fst] in H. inversion H; subst.
  apply set_port_sf in Hr. apply (sf_ao _ _ Hr). unfold AO in *. cbn [scheme_end username_end].
  apply adjust_val in Hue; [|lia]. lia.
Qed.

(* the new scheme is special only if the old one is *)
Lemma set_scheme_special u sch u' : set_scheme dbg u sch = Some (u', SOk) -> u' = u \/
  exists ns rem ost, parse_scheme CSetter (input_new_no_trim sch) = Some (ns, rem) /\ u_scheme_type u = Some ost
    /\ (st_is_special (scheme_type_of ns) = true -> st_is_special ost = true).
Proof.
  unfold set_scheme. intros H.
  destruct (parse_scheme CSetter (input_new_no_trim sch)) as [[ns rem]|] eqn:Esch; [|inversion H].
  cbv zeta in H. ob H ost Host. ob H ha Hha.
  match type of H with (if ?c then _ else _) = _ => destruct c eqn:Ec end; [inversion H|].
  right. exists ns, rem, ost. split; [reflexivity|]. split; [exact Host|]. intros Hs.
  rewrite Hs in Ec. cbn [negb andb orb] in Ec. destruct (st_is_special ost); [reflexivity | discriminate Ec].
Qed.

(* ---------- path_segments_mut ---------- *)
Lemma psm_with_url p s : sf (psm_url p) (psm_url (psm_with p s)).
Proof. split; reflexivity. Qed.

Lemma psm_apply_sf p o p' : psm_apply dbg p o = Some p' -> sf (psm_url p) (psm_url p').
Proof.
  destruct o; cbn [psm_apply]; intros H.
  - inversion H; subst. apply psm_with_url.
  - inversion H; subst. unfold psm_pop_if_empty. cbv zeta.
    destruct (nlen (ser (psm_url p)) <=? after_first_slash p); [apply sf_refl|].
    destruct (ends_with_byte 47 (nskipn (after_first_slash p) (ser (psm_url p)))); [apply psm_with_url | apply sf_refl].
  - inversion H; subst. unfold psm_pop. cbv zeta.
    destruct (nlen (ser (psm_url p)) <=? after_first_slash p); [apply sf_refl | apply psm_with_url].
  - unfold psm_push, psm_extend in H. ob H st Hst. ob H s0 Hs0. inversion H; subst. apply psm_with_url.
  - unfold psm_extend in H. ob H st Hst. ob H s0 Hs0. inversion H; subst. apply psm_with_url.
Qed.

Lemma psm_run_sf ops : forall p p', psm_run dbg p ops = Some p' -> sf (psm_url p) (psm_url p').
Proof.
  induction ops as [|o r IH]; intros p p' H; cbn [psm_run] in H; [inversion H; subst; apply sf_refl|].
  ob H p1 Hp1. eapply sf_trans; [exact (psm_apply_sf p o p1 Hp1) | exact (IH p1 p' H)].
Qed.

Lemma path_segments_session_sf u ops u' st : path_segments_session dbg u ops = Some (u', st) -> sf u u'.
Proof.
  unfold path_segments_session, path_segments_mut. intros H. ob H opp Hop. ob Hop cbb Hcbb.
  destruct cbb; [inversion Hop; subst; inversion H; subst; apply sf_refl|].
  ob Hop p Hp. inversion Hop; subst. ob H p' Hp'. ob H u1 Hu1. inversion H; subst.
  unfold psm_new in Hp. ob Hp a Ha. destruct a as [u0 ap]. apply take_after_path_sf in Ha. cbv zeta in Hp.
  ob Hp sty Hsty. ob Hp x Hx. inversion Hp; subst p. clear Hp.
  apply psm_run_sf in Hp'. cbn [psm_url] in Hp'. unfold psm_close in Hu1. apply restore_after_path_sf in Hu1.
  exact (sf_trans _ _ _ Ha (sf_trans _ _ _ Hp' Hu1)).
Qed.

(* ---------- quirks setters ---------- *)
Lemma q_set_host_ao u v u' st : q_set_host dbg hp hpo hd u v = Some (u', st) -> AO u -> AO u'.
Proof.
  unfold q_set_host. intros H A. ob H cbb Hcbb. destruct cbb; [inversion H; subst; exact A|].
  ob H sc Hsc. cbv zeta in H.
  destruct (scheme_type_eqb (scheme_type_of sc) STFile && match v with [] => true | _ => false end).
  { ob H u1 Hu1. inversion H; subst. exact (shi_ao u _ _ u' Hu1 A). }
  ob H r Hr. destruct r as [[h remaining]|]; [|inversion H; subst; exact A].
  ob H opp Hop. ob H un Hun.
  match type of H with (if ?c then _ else _) = _ => destruct c end; [inversion H; subst; exact A|].
  ob H u1 Hu1. inversion H; subst. exact (shi_ao u _ _ u' Hu1 A).
Qed.

Lemma q_set_hostname_ao u v u' st : q_set_hostname dbg hp hpo hd u v = Some (u', st) -> AO u -> AO u'.
Proof.
  unfold q_set_hostname. intros H A. ob H cbb Hcbb. destruct cbb; [inversion H; subst; exact A|].
  ob H sc Hsc. cbv zeta in H.
  destruct (scheme_type_eqb (scheme_type_of sc) STFile && match v with [] => true | _ => false end).
  { ob H u1 Hu1. inversion H; subst. exact (shi_ao u _ _ u' Hu1 A). }
  ob H r Hr. destruct r as [[h remaining]|]; [|inversion H; subst; exact A].
  ob H reject Hrej. destruct reject; [inversion H; subst; exact A|].
  ob H u1 Hu1. inversion H; subst. exact (shi_ao u _ _ u' Hu1 A).
Qed.

Lemma q_set_port_sf u v u' st : q_set_port dbg u v = Some (u', st) -> sf u u'.
Proof.
  unfold q_set_port. intros H. ob H c Hc. destruct c; [inversion H; subst; apply sf_refl|].
  ob H sc Hsc. destruct (parse_port CSetter (default_port sc) (input_new_no_trim v)) as [[p r]| |]; [| |discriminate].
  - ob H u1 Hu1. inversion H; subst. eapply set_port_internal_sf; eassumption.
  - inversion H; subst. apply sf_refl.
Qed.

Lemma q_set_pathname_sf u v u' : q_set_pathname dbg u v = Some u' -> sf u u'.
Proof.
  unfold q_set_pathname. intros H. ob H cbb Hcbb. destruct cbb; [inversion H; subst; apply sf_refl|].
  ob H st Hst.
  match type of H with (if ?c then _ else _) = _ => destruct c end; [eapply set_path_sf; eassumption|].
  match type of H with (if ?c then _ else _) = _ => destruct c end; eapply set_path_sf; eassumption.
Qed.

(* ---------- every operation ---------- *)
Theorem apply_op_ao u o u' : apply_op dbg hp hpo hd u o = Some u' -> AO u ->
  AO u' \/ exists sty, u_scheme_type u = Some sty /\ st_is_special sty = false.
Proof.
  intros H A. destruct o; cbn [apply_op] in H; try (apply drop_status_some in H; destruct H as [st H]).
  - left. exact (sf_ao _ _ (set_fragment_sf u f u' H) A).
  - left. exact (sf_ao _ _ (set_query_sf u q u' H) A).
  - left. exact (sf_ao _ _ (set_path_sf u p u' H) A).
  - left. exact (sf_ao _ _ (set_port_sf u p u' st H) A).
  - exact (set_host_ao u h u' st H A).
  - left. exact (set_ip_host_ao u h u' st H A).
  - left. exact (sf_ao _ _ (set_password_sf u p u' st H) A).
  - left. exact (set_username_ao u s u' st H A).
  - left. exact (set_scheme_ao u s u' st H A).
  - left. exact (sf_ao _ _ (path_segments_session_sf u ops u' st H) A).
  - left. unfold q_set_protocol in H. cbv zeta in H. exact (set_scheme_ao u _ u' st H A).
  - left. exact (set_username_ao u v u' st H A).
  - left. unfold q_set_password in H. exact (sf_ao _ _ (set_password_sf u _ u' st H) A).
  - left. exact (q_set_host_ao u v u' st H A).
  - left. exact (q_set_hostname_ao u v u' st H A).
  - left. exact (sf_ao _ _ (q_set_port_sf u v u' st H) A).
  - left. exact (sf_ao _ _ (q_set_pathname_sf u v u' H) A).
  - left. unfold q_set_search in H. exact (sf_ao _ _ (set_query_sf u _ u' H) A).
  - left. unfold q_set_hash in H. exact (sf_ao _ _ (set_fragment_sf u _ u' H) A).
Qed.

End Ofs.
