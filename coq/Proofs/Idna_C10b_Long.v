(* Proofs/Idna_C10b_Long.v - F-C10-1: ToASCII is not idempotent on names with a long non-ASCII label, and two
   further refutations of the full-strength statements of Proofs/Idna_Hyp.v.

   check_label (uts46.rs 1608-1618) caps a non-ASCII label at PUNYCODE_ENCODE_MAX_INPUT_LENGTH = 1000 scalar
   values; the all-ASCII xn-- path (uts46.rs 1186-1190, and 1279-1288 on the mapped stream) rejects a label with
   more than PUNYCODE_DECODE_MAX_INPUT_LENGTH = 2000 characters after xn--.  A label of at most 1000 scalar
   values can have a Punycode form longer than 2000 characters (1000 ideographs 20 code points apart: 2958), so
   to_ascii returns a name that to_ascii, to_unicode and to_user_interface then reject.

   The class: Known_C10_long r = some dot-separated label of the RESULT r starts with xn-- (any case) and has more
   than 2000 characters after it.

   Also here: C10_case_statement is false for an adapter that satisfies AdapterOK but gives a lower-case ASCII
   letter a bidi class that cannot start a label (AdapterOK says nothing about bidi_class): the labels of the
   pass-through prefix are never checked by the bidi rule, the same labels in upper case are. *)
From RU Require Import Base.Prelude Base.Utf8 Base.U32_c13 Gen.Tables Model.Punycode Model.Uts46
  Proofs.Idna_Sim Proofs.Idna_Api Proofs.Idna_Known Proofs.Idna_Hyp.
From RU Require Proofs.Idna_PunyRT.

(* ---- the class ---- *)
Definition long_puny_label (l : list N) : bool :=
  has_punycode_prefix l && (PUNYCODE_DECODE_MAX_INPUT_LENGTH <? len l - 4).
Definition Known_C10_long (r : list N) : bool := existsb long_puny_label (split_on DOT r).
(* the class as a predicate on the input *)
Definition Known_C10 (A : adapter) (cfg : bool) (d : list N) (deny : N) (hy : hyphens) : bool :=
  match to_ascii A cfg d deny hy DIgnore with Ok (_, r) => Known_C10_long r | _ => false end.

(* ---- an adapter that satisfies AdapterOK: ASCII lower-casing, nothing else ---- *)
Definition lowad_with (bc : N -> N) : adapter :=
  {| map_normalize := map to_lower; normalize_validate := fun l => l;
     joining_type := fun _ => 0; bidi_class := bc;
     is_mark := fun _ => false; is_virama := fun _ => false |}.
Definition lowad : adapter := lowad_with toy_bc.

Lemma lowad_ok bc : AdapterOK (lowad_with bc).
Proof.
  constructor; cbn [lowad_with map_normalize normalize_validate].
  - reflexivity.
  - intros l _. reflexivity.
  - intros l l' H. exact H.
  - intros l _ piece _. reflexivity.
  - intros l H1 H2. rewrite H1 in H2. discriminate.
Qed.

Lemma forallb_bytes l : forallb is_byteb l = true -> bytes l.
Proof.
  intros H. unfold bytes. apply Forall_forall. intros x Hx. rewrite forallb_forall in H.
  specialize (H x Hx). unfold is_byteb in H. unfold is_byte. lia.
Qed.

Lemma deny_empty_valid : valid_deny DENY_EMPTY.
Proof. right. exists T_IDNA_EMPTY_GLYPHLESS, T_IDNA_EMPTY_LIST. reflexivity. Qed.

(* ---- the witness: one label of 1000 ideographs U+4E00, U+4E14, ... (20 apart) ---- *)
Fixpoint spread (n : nat) (c step : N) : list N :=
  match n with O => [] | S k => c :: spread k (c + step) step end.
Definition W_C10_long_U := Eval vm_compute in spread 1000 19968 20.
Definition W_C10_long := Eval vm_compute in utf8_encode W_C10_long_U.
Definition W_C10_long_A :=
  Eval vm_compute in match to_ascii lowad false W_C10_long DENY_EMPTY HAllow DIgnore with Ok (_, r) => r | _ => [] end.

Lemma w_c10_long :
  bytes W_C10_long /\ len W_C10_long_U = 1000 /\ len W_C10_long_A = 2962 /\
  to_ascii lowad false W_C10_long DENY_EMPTY HAllow DIgnore = Ok (false, W_C10_long_A) /\
  to_ascii lowad false W_C10_long_A DENY_EMPTY HAllow DIgnore = Err /\
  Known_C10_long W_C10_long_A = true /\
  Known_C12 lowad false W_C10_long DENY_EMPTY HAllow = false /\
  Known_C11 lowad false W_C10_long DENY_EMPTY HAllow = false.
Proof.
  split; [apply forallb_bytes; vm_compute; reflexivity|].
  vm_compute. repeat split; reflexivity.
Qed.

Lemma w_c10_long_unicode :
  to_unicode lowad false W_C10_long DENY_EMPTY HAllow = UI false W_C10_long_U false /\
  ui_err (to_unicode lowad false W_C10_long_A DENY_EMPTY HAllow) = true /\
  ui_err (to_user_interface lowad false W_C10_long_A DENY_EMPTY HAllow never_unicode) = true.
Proof. vm_compute. repeat split; reflexivity. Qed.

(* the same with debug assertions on *)
Lemma w_c10_long_dbg :
  to_ascii lowad true W_C10_long DENY_EMPTY HAllow DIgnore = Ok (false, W_C10_long_A) /\
  to_ascii lowad true W_C10_long_A DENY_EMPTY HAllow DIgnore = Err.
Proof. vm_compute. split; reflexivity. Qed.

(* ---- C10_idem_statement is false (outside Known_C12) ---- *)
Theorem c10_idem_refuted : exists A cfg, AdapterOK A /\ ~ C10_idem_statement A cfg.
Proof.
  exists lowad, false. split; [exact (lowad_ok toy_bc)|]. intros H.
  destruct w_c10_long as (Hb & _ & _ & H1 & H2 & _ & H12 & _).
  destruct (H (lowad_ok toy_bc) (Idna_PunyRT.punyrt_holds false) W_C10_long DENY_EMPTY HAllow DIgnore false W_C10_long_A
              Hb deny_empty_valid H12 H1) as (b' & Hx).
  rewrite H2 in Hx. discriminate.
Qed.

(* ---- C12_statement is false outside Known_C12 and Known_C11: the clause u_of_a ---- *)
Theorem c12_statement_refuted : exists A cfg, AdapterOK A /\ ~ C12_statement A cfg.
Proof.
  exists lowad, false. split; [exact (lowad_ok toy_bc)|]. intros H.
  destruct w_c10_long as (Hb & _ & _ & H1 & _ & _ & H12 & H11).
  destruct (H (lowad_ok toy_bc) (Idna_PunyRT.punyrt_holds false) W_C10_long DENY_EMPTY HAllow false W_C10_long_A
              Hb deny_empty_valid H12 H11 H1) as ((_ & Hx) & _).
  rewrite (proj1 (proj2 w_c10_long_unicode)) in Hx. discriminate.
Qed.

(* ---- C10_case_statement is false relative to AdapterOK alone ---- *)
Definition odd_bc (c : N) : N := if c =? 1488 then 593 else 0.
Definition oddbidi : adapter := lowad_with odd_bc.
Definition W_C10_case_lo : list N := [97; 46; 215; 144].    (* "a.א" *)
Definition W_C10_case_up : list N := [65; 46; 215; 144].    (* "A.א" *)

Lemma w_c10_case cfg :
  ascii_case_variant W_C10_case_lo W_C10_case_up /\
  to_ascii oddbidi cfg W_C10_case_lo DENY_EMPTY HAllow DIgnore = Ok (false, [97; 46; 120; 110; 45; 45; 52; 100; 98]) /\
  to_ascii oddbidi cfg W_C10_case_up DENY_EMPTY HAllow DIgnore = Err /\
  (* with the bidi classes of the real data the two agree *)
  to_ascii lowad cfg W_C10_case_up DENY_EMPTY HAllow DIgnore = Ok (false, [97; 46; 120; 110; 45; 45; 52; 100; 98]).
Proof. destruct cfg; vm_compute; repeat split; reflexivity. Qed.

Theorem c10_case_refuted : exists A, AdapterOK A /\ forall cfg, ~ C10_case_statement A cfg.
Proof.
  exists oddbidi. split; [exact (lowad_ok odd_bc)|]. intros cfg H.
  destruct (w_c10_case cfg) as (Hv & H1 & H2 & _).
  assert (Hb : bytes W_C10_case_lo) by (unfold W_C10_case_lo; repeat constructor; unfold is_byte; lia).
  destruct (H (lowad_ok odd_bc) W_C10_case_lo W_C10_case_up DENY_EMPTY HAllow DIgnore false _ Hb deny_empty_valid Hv H1)
    as (b' & Hx).
  rewrite H2 in Hx. discriminate.
Qed.
