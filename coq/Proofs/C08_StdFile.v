(* Proofs/C08_StdFile.v - the Standard-side reading of containment for FILE bases, path-relative references.
   On the transcription Spec/Whatwg.v of the basic URL parser, for a file base record whose path does not end in a
   normalized drive letter and a cleaned reference without scheme whose first character is not '/', '\', '?', '#' and
   which does not start with a Windows drive letter (the "otherwise" branch of the file state: host, path of the base,
   shorten, path state): the Standard succeeds and scheme, username, password, host, port of its result are the base's
   (std_contain_file; closed form C01_EqFileBase.runs_file_rel_path).  With C01's class theorem
   C01_EqFileBase.class_file_rel_path_good the crate's join answers Overflow or a record related to the Standard's
   result, a full_base pair again, whose API strings protocol / username / password / host / hostname / port are the
   base's (std_contain_file_agree).  No hypothesis on the host functions: no host is parsed. *)
From RU Require Import Base.Prelude Base.Utf8 Model.AsciiSet Gen.Tables Model.PercentEncoding Model.HostT Model.UrlRecord
  Model.Parser Model.WF Model.KnownC08 Model.KnownC01 Spec.Whatwg Proofs.ListN
  Proofs.C01_EqRun Proofs.C01_EqRef Proofs.C01_EqApi Proofs.C01_EqRel Proofs.C01_EqRelArms Proofs.C01_EqAsm
  Proofs.C01_EqShape Proofs.C01_EqSpSpec Proofs.C01_EqFileSpec Proofs.C01_EqFileBase Proofs.C08_Std.
Open Scope N_scope.
Open Scope list_scope.

(* the premise on the cleaned reference, decided on the text *)
Definition std_file_rel_pre (l : list N) : bool :=
  match spec_scheme l with None => true | Some _ => false end
  && match l with
     | c :: _ => negb (is_sl c) && negb (c =? 63) && negb (c =? 35) && negb (starts_with_windows_drive_letter l)
     | [] => false
     end.

Lemma file_tail_front sb P r : su_scheme sb = str_file -> spec_valid sb ->
  spec_same_front sb (file_tail (fkeep sb P) r).
Proof.
  intros Hs [_ V]. destruct (V Hs) as (E1 & E2 & E3).
  unfold file_tail, tail_url, spec_same_front, fkeep. rewrite Hs, E1, E2, E3.
  destruct (snd r) as [|c q]; [repeat split|].
  destruct (c =? 63); [|repeat split; reflexivity].
  unfold query_final, frag_opt. destruct (C01_EqRun.after_hash q); repeat split; reflexivity.
Qed.

(* the Standard alone *)
Theorem std_contain_file shp input sb : spec_valid sb -> has_opaque_path sb = false ->
  list_eqb (su_scheme sb) str_file = true -> last_not_nwdl (path_segments sb) = true ->
  std_file_rel_pre (spec_clean input) = true ->
  exists su, spec_basic_url_parse shp input (Some sb) = BDone su /\ spec_same_front sb su.
Proof.
  intros V Hop Hf Hlast Hpre. unfold std_file_rel_pre in Hpre. apply andb_true_iff in Hpre. destruct Hpre as [Hsch Hc].
  assert (spec_scheme (spec_clean input) = None) as Hs by (destruct (spec_scheme (spec_clean input)); [discriminate | reflexivity]).
  destruct (spec_clean input) as [|c t] eqn:Ecl; [discriminate Hc|].
  apply andb_true_iff in Hc. destruct Hc as [Hc Hw]. apply andb_true_iff in Hc. destruct Hc as [Hc E35].
  apply andb_true_iff in Hc. destruct Hc as [Esl E63]. apply negb_true_iff in Esl, E63, E35, Hw.
  exists (file_tail (fkeep sb (removelast (path_segments sb))) (spath_f (c :: t) (removelast (path_segments sb)) [])).
  split.
  - apply spec_parse_of_runs. rewrite Ecl.
    exact (runs_file_rel_path shp (c :: t) sb Hop Hf c t eq_refl Hs Esl E63 E35 Hw Hlast).
  - apply file_tail_front; [apply list_eqb_spec; exact Hf | exact V].
Qed.

(* the class of C01's theorem is inside the premise *)
Lemma in_class_file_rel_pre sb input : in_class_file_rel_path sb input = true ->
  has_opaque_path sb = false /\ list_eqb (su_scheme sb) str_file = true /\ last_not_nwdl (path_segments sb) = true
  /\ std_file_rel_pre (spec_clean input) = true.
Proof.
  intros Hc. unfold in_class_file_rel_path in Hc.
  apply andb_true_iff in Hc. destruct Hc as [Hc Hok]. apply andb_true_iff in Hc. destruct Hc as [Hb Hsch].
  destruct (file_base_ok_facts sb Hb) as (Hop & Hsf & _ & _ & Hlast).
  split; [exact Hop|]. split; [apply list_eqb_spec; exact Hsf|]. split; [exact Hlast|].
  unfold std_file_rel_pre. rewrite Hsch. cbn [andb].
  destruct (spec_clean input) as [|c t]; [discriminate Hok|].
  apply andb_true_iff in Hok. destruct Hok as [Hok _]. apply andb_true_iff in Hok. destruct Hok as [Hok _]. exact Hok.
Qed.

(* the six API strings in front of the path *)
Definition api_front (L : list (list N)) : list (list N) :=
  match L with [_; pr; un; pw; h; hn; po; _; _; _] => [pr; un; pw; h; hn; po] | _ => [] end.

Lemma spec_front_api shs sb su : spec_same_front sb su ->
  api_front (spec_api_list shs su) = api_front (spec_api_list shs sb).
Proof.
  intros (E1 & E2 & E3 & E4 & E5).
  unfold spec_api_list, api_front, get_protocol, get_username, get_password, get_host, get_hostname, get_port.
  rewrite E1, E2, E3, E4, E5. reflexivity.
Qed.

Section AgreeFile.
Variable dbg : bool.
Variable hp hpo : list N -> result host.
Variable hd : host -> list N.
Variable shp : bool -> list N -> option spec_host.
Variable shs : spec_host -> list N.

Theorem std_contain_file_agree b sb input : usv_list input -> related dbg shs b sb -> spec_base_ok sb = true ->
  in_class_file_rel_path sb input = true ->
  exists su, spec_basic_url_parse shp input (Some sb) = BDone su /\ spec_same_front sb su
    /\ ((parse_url dbg hp hpo hd None (Some b) input = PErr Overflow /\ U32_MAX_P < nlen (get_href shs su))
        \/ exists u', parse_url dbg hp hpo hd None (Some b) input = POk u' /\ related dbg shs u' su
                      /\ full_base dbg shs u' su
                      /\ option_map api_front (api_of_model dbg u') = option_map api_front (api_of_model dbg b)).
Proof.
  intros Hu R Hbok Hc.
  destruct (in_class_file_rel_pre sb input Hc) as (Hop & Hf & Hlast & Hpre).
  destruct (std_contain_file shp input sb (rel_valid _ _ _ _ R) Hop Hf Hlast Hpre) as (su & HS & HF).
  exists su. split; [exact HS|]. split; [exact HF|].
  destruct (class_file_rel_path_good dbg hp hpo hd shp shs input b sb Hu R Hbok Hc) as [A FB].
  rewrite HS in A. cbn [agree_good] in A. destruct A as [_ [[E L]|(u' & E & Ru)]]; [left; split; assumption|].
  right. exists u'. split; [exact E|]. split; [exact Ru|]. split; [exact (FB su u' HS E)|].
  rewrite (rel_api _ _ _ _ Ru), (rel_api _ _ _ _ R). cbn [option_map]. rewrite (spec_front_api shs sb su HF). reflexivity.
Qed.
End AgreeFile.

(* ---------- non-vacuity: base = the parse results of file://h.x/tmp/dir/x?q#f on both sides; five references of the
   class; the Standard's result keeps scheme and host and its href is the model's serialization ---------- *)
From RU Require Import Model.Host Proofs.C09_Host Spec.WhatwgHostParse.
Definition std_file_case (base : list N) (refs : list (list N)) : bool :=
  let idna := ex_idna_clean in
  match parse_url true (host_parse idna) host_parse_opaque host_display None None base,
        spec_basic_url_parse (spec_host_parser idna) base None with
  | POk b, BDone sb =>
      spec_base_ok sb
      && forallb (fun r =>
           in_class_file_rel_path sb r
           && match spec_basic_url_parse (spec_host_parser idna) r (Some sb),
                    parse_url true (host_parse idna) host_parse_opaque host_display None (Some b) r with
              | BDone su, POk u' =>
                  list_eqb (su_scheme su) (su_scheme sb)
                  && list_eqb (get_hostname spec_host_serializer su) (get_hostname spec_host_serializer sb)
                  && list_eqb (get_href spec_host_serializer su) (ser u')
              | _, _ => false
              end) refs
  | _, _ => false
  end.

From Coq Require Import String.
From RU Require Import Proofs.C02_Reach.
Open Scope string_scope.
Lemma std_contain_file_inhabited :
  std_file_case (B "file://h.x/tmp/dir/x?q#f") [B "y"; B "a/../b?k#g"; B "../../../up"; B "./z/"; B " s\t"] = true.
Proof. vm_compute. reflexivity. Qed.
