(* Proofs/C03_ReachFull.v - C02's quantifier (Reachable3: parse, join against ANY reached record, the 19 mutators
   outside C02's known_step2, Url::query_pairs_mut sessions) and the invariant inv03 of C03_ReachJoin.v.
     known_k   : a call outside known_step2 on a record with inv03 either leaves the record as it was or is
                 outside excl03k (the host half: an empty new host in front of a stored port is refused by the two
                 quirks setters themselves; Url::set_host with a non-empty argument and set_ip_host never store the
                 empty host - host_nonempty; the path half: is_cbb = is_opaque_b, Known_F_C02_8 is path_bad without
                 the marker) - except for ONE class that known_step2 lacks: a path_segments_mut session on an
                 authority-less record without marker whose result starts with "//".  SessNoSS dbg says that there
                 is no such session on a record of a non-special scheme (AS: others have an authority); it is a named
                 hypothesis of known_k / reach3_inv, proved in Proofs/C03_SessNoSS.v (session_no_ss) and discharged
                 at the end of this file (reach3_inv_all);
     qpm_inv03 : query_pairs_mut sessions keep inv03 and the byte alphabet (no component invariant needed);
     reach3_inv: every record of Reachable3 satisfies inv03, hence wf_b /\ host_text_ok. *)
From RU Require Import Proofs.C15_Table Proofs.C15_Bser Proofs.C15_Ser Proofs.C15_Url.
From RU Require Import Base.Prelude Base.Utf8 Base.Outcome_c15 Model.AsciiSet Gen.Tables Model.PercentEncoding
  Model.HostT Model.UrlRecord Model.Parser Model.Setters Model.WF Model.FilePath Model.FormUrlencoded Model.QueryPairs
  Proofs.ListN Proofs.C02_Reach Proofs.C02_AuthParts Proofs.C02_Hist Proofs.C02_SetHostCanon Proofs.C02_Reach3
  Proofs.C03_WF Proofs.C06_List Proofs.C06_WFI Proofs.C06_Tail Proofs.C06_Steps Proofs.C06_Suffix Proofs.C06_Front Proofs.C06_Atomic Proofs.C06_FragQuery
  Proofs.C06_Port Proofs.C06_Cred Proofs.C06_Scheme Proofs.C06_HostNone Proofs.C06_Host Proofs.C06_Segments Proofs.C06_Path Proofs.C06_PathNoAuth Proofs.C06_Main
  Proofs.C06_PathMore Proofs.C06_Quirks Proofs.C05_Enc Proofs.C05_Parser Proofs.C05_Setters Proofs.C05_ParseAll Proofs.C05_CompSteps
  Proofs.C04_ParseTotal Proofs.C03_ReachParts Proofs.C03_Reach Proofs.C03_ReachFile Proofs.C03_ReachAll Proofs.C03_Reachability Proofs.C03_PortInv
  Proofs.C03_AuthEnd Proofs.C05_BaseOk Proofs.C05_AuthOfs Proofs.C05_AuthParse Proofs.C05_HostText Proofs.C05_Alphabet Proofs.C05_Qpm
  Proofs.C03_ReachAscii Proofs.C03_Views Proofs.C03_ParseFront Proofs.C03_PortParse Proofs.C03_ReachKnown Proofs.C03_ReachJoin
  Proofs.C03_SessNoSS.
Open Scope N_scope.
Open Scope list_scope.

(* ---------- small facts ---------- *)
Lemma sw47_byte l i : starts_with [47] (nskipn i l) = byte_eqb l i 47.
Proof.
  unfold byte_eqb. rewrite <- (N.add_0_r i) at 2. rewrite <- nnth_nskipn.
  destruct (nskipn i l) as [|c r]; [reflexivity|]. cbn [starts_with nnth]. rewrite andb_true_r, N.eqb_sym. reflexivity.
Qed.

Lemma cbb_opaque u : is_cbb u = is_opaque_b u.
Proof. unfold is_cbb, is_opaque_b. rewrite sw47_byte. reflexivity. Qed.

Lemma no_qh_existsb p : existsb (fun c => (c =? 63) || (c =? 35)) p = false -> forallb no_qh p = true.
Proof.
  induction p as [|c r IH]; [reflexivity|]. cbn [existsb forallb]. intros H. apply orb_false_iff in H. destruct H as [H1 H2].
  rewrite (IH H2). unfold no_qh. rewrite H1. reflexivity.
Qed.

Lemma file_type_is_file u sch : wf_b u = true -> scheme u = Some sch -> scheme_type_of sch = STFile -> is_file u = true.
Proof.
  intros W Hs Ht. rewrite (scheme_text03 u W) in Hs. inversion Hs; subst sch. unfold is_file, scheme_of.
  unfold scheme_type_of in Ht.
  destruct (list_eqb (nfirstn (scheme_end u) (ser u)) s_http || list_eqb (nfirstn (scheme_end u) (ser u)) s_https
            || list_eqb (nfirstn (scheme_end u) (ser u)) s_ws || list_eqb (nfirstn (scheme_end u) (ser u)) s_wss
            || list_eqb (nfirstn (scheme_end u) (ser u)) s_ftp); [discriminate|].
  destruct (list_eqb (nfirstn (scheme_end u) (ser u)) s_file); [reflexivity | discriminate].
Qed.

Lemma nfirstn_pos_nonempty p (x : list N) : x <> [] -> nfirstn (Npos p) x <> [].
Proof.
  intros Hx. destruct x as [|c r]; [contradiction|]. unfold nfirstn. pose proof (Pos2Nat.is_pos p) as L.
  destruct (N.to_nat (N.pos p)) eqn:E; [cbn in E; lia|]. cbn [firstn]. discriminate.
Qed.

Section Full.
Variable dbg : bool.
Variable hp hpo : list N -> result host.
Variable hd : host -> list N.
Hypothesis HW : HostWf hp hpo hd.
Hypothesis HNE : host_nonempty hp hpo.

Let HF : host_fns_ok hp hpo hd := HostWf_fns_ok hp hpo hd HW.

(* ---------- the host setters never store the empty host in front of a port ---------- *)
Lemma set_ip_host_some u h u' : wf_b u = true -> op_args_ok (OSetIpHost h) ->
  set_ip_host dbg hd u h = Some (u', SOk) -> hosti u' <> HI_None.
Proof using.
  intros W Ha H. unfold set_ip_host in H. rewrite (cannot_be_a_base_eval u W) in H. cbn [bindo] in H.
  destruct (byte_eqb (ser u) (scheme_end u + 1) 47) eqn:Hsl; cbn [negb] in H; [|discriminate].
  destruct (set_host_internal dbg hd u h None) as [u0|] eqn:E; cbn [bindo] in H; [|discriminate].
  inversion H; subst u0. rewrite (set_host_internal_hosti dbg hd u h None u' E).
  destruct h as [d|a|p]; cbn in Ha |- *; [contradiction | discriminate | discriminate].
Qed.

Lemma set_host_some_nonempty u x u' : wf_b u = true -> usv_list x -> x <> [] ->
  set_host dbg hp hpo hd u (Some x) = Some (u', SOk) -> hosti u' <> HI_None.
Proof using HNE.
  intros W Hx Hne H. unfold set_host in H. rewrite (cannot_be_a_base_eval u W) in H. cbn [bindo] in H.
  destruct (byte_eqb (ser u) (scheme_end u + 1) 47) eqn:Hsl; cbn [negb] in H; [|discriminate].
  unfold u_scheme_type in H. rewrite (scheme_eval u W) in H. cbn [bindo] in H.
  match type of H with (if ?c then _ else _) = _ => destruct c end; [discriminate|].
  match type of H with (match ?sub with Some _ => _ | None => _ end) = _ => destruct sub as [hsub|] eqn:Esub end; [|discriminate].
  assert (hsub <> [] /\ usv_list hsub) as [Hs1 Hs2].
  { destruct ((match x with 91 :: _ => true | _ => false end) && ends_with_byte 93 x).
    - inversion Esub; subst hsub. split; assumption.
    - destruct (find_byte 58 x) as [[|p]|]; [discriminate | |].
      + inversion Esub; subst hsub. split; [exact (nfirstn_pos_nonempty p x Hne) | exact (usv_nfirstn _ x Hx)].
      + inversion Esub; subst hsub. split; assumption. }
  match type of H with (match ?r with Ok _ => _ | Err _ => _ end) = _ => destruct r as [host|e] eqn:Er end; [|discriminate].
  destruct (set_host_internal dbg hd u host None) as [u0|] eqn:E; cbn [bindo] in H; [|discriminate].
  inversion H; subst u0. rewrite (set_host_internal_hosti dbg hd u host None u' E).
  apply hi_of_nonempty. intros ->. destruct HNE as [N1 N2].
  match type of Er with (if ?c then _ else _) = _ => destruct c end.
  - exact (N1 hsub Er).
  - exact (Hs1 (N2 hsub Hs2 Er)).
Qed.

Lemma q_set_host_guard u v u' : wf_b u = true -> is_file u = false ->
  q_set_host dbg hp hpo hd u v = Some (u', SOk) -> hosti u' = HI_None -> port u = None.
Proof using.
  intros W Hnf H Hn. unfold q_set_host in H. rewrite (cannot_be_a_base_eval u W) in H. cbn [bindo] in H.
  destruct (byte_eqb (ser u) (scheme_end u + 1) 47) eqn:Hsl; cbn [negb] in H; [|discriminate].
  rewrite (scheme_eval u W) in H. cbn [bindo] in H.
  set (sch := piece u (pidx u BeforeScheme) (pidx u AfterScheme)) in *.
  destruct (scheme_type_eqb (scheme_type_of sch) STFile && match v with [] => true | _ => false end) eqn:Ef.
  - exfalso. apply andb_true_iff in Ef. destruct Ef as [Ef _].
    assert (scheme_type_of sch = STFile) as Et by (destruct (scheme_type_of sch); try discriminate; reflexivity).
    rewrite (file_type_is_file u sch W (scheme_eval u W) Et) in Hnf. discriminate.
  - destruct (parse_host hp hpo (scheme_type_of sch) (input_new_no_trim v)) as [[h rem]|e|] eqn:Ep; cbn [pres_ok bindo] in H;
      [|discriminate|discriminate].
    match type of H with bindo ?r _ = _ => replace r with (Some (q_host_port sch rem)) in H end.
    2:{ unfold q_host_port. destruct (inp_split_prefix_char 58 rem) as [rm|]; [|reflexivity].
        destruct (inp_is_empty rm); [reflexivity|].
        destruct (parse_port CSetter (default_port sch) rm) as [[p r0]|e|]; reflexivity. }
    cbn [bindo] in H. rewrite (username_eval dbg u W) in H. cbn [bindo] in H.
    match type of H with (if ?c then _ else _) = _ => destruct c eqn:Ec end; [discriminate|].
    destruct (set_host_internal dbg hd u h (q_host_port sch rem)) as [u0|] eqn:E; cbn [bindo] in H; [|discriminate].
    inversion H; subst u0. rewrite (set_host_internal_hosti dbg hd u h _ u' E) in Hn.
    apply hi_of_host_none in Hn. subst h. cbn [andb] in Ec.
    apply orb_false_iff in Ec. destruct Ec as [_ E3]. destruct (port u); [discriminate | reflexivity].
Qed.

Lemma q_set_hostname_guard u v u' : wf_b u = true -> is_file u = false ->
  q_set_hostname dbg hp hpo hd u v = Some (u', SOk) -> hosti u' = HI_None -> port u = None.
Proof using.
  intros W Hnf H Hn. unfold q_set_hostname in H. rewrite (cannot_be_a_base_eval u W) in H. cbn [bindo] in H.
  destruct (byte_eqb (ser u) (scheme_end u + 1) 47) eqn:Hsl; cbn [negb] in H; [|discriminate].
  rewrite (scheme_eval u W) in H. cbn [bindo] in H.
  set (sch := piece u (pidx u BeforeScheme) (pidx u AfterScheme)) in *.
  destruct (scheme_type_eqb (scheme_type_of sch) STFile && match v with [] => true | _ => false end) eqn:Ef.
  - exfalso. apply andb_true_iff in Ef. destruct Ef as [Ef _].
    assert (scheme_type_of sch = STFile) as Et by (destruct (scheme_type_of sch); try discriminate; reflexivity).
    rewrite (file_type_is_file u sch W (scheme_eval u W) Et) in Hnf. discriminate.
  - destruct (parse_host hp hpo (scheme_type_of sch) (input_new_no_trim v)) as [[h rem]|e|] eqn:Ep; cbn [pres_ok bindo] in H;
      [|discriminate|discriminate].
    match type of H with bindo ?r _ = _ => destruct r as [[|]|] eqn:Er end; cbn [bindo] in H; try discriminate.
    destruct (set_host_internal dbg hd u h None) as [u0|] eqn:E; cbn [bindo] in H; [|discriminate].
    inversion H; subst u0. rewrite (set_host_internal_hosti dbg hd u h _ u' E) in Hn.
    apply hi_of_host_none in Hn. subst h.
    destruct (q_port dbg u) as [p|] eqn:Eq; cbn [bindo] in Er; [|discriminate].
    destruct (username dbg u) as [un|]; cbn [bindo] in Er; [|discriminate].
    destruct (q_password dbg u) as [pw|]; cbn [bindo] in Er; [|discriminate].
    inversion Er as [Hr]. destruct p as [|c r]; [apply (q_port_empty dbg u W Eq)|].
    cbn [negb] in Hr. rewrite orb_true_r in Hr. cbn [orb] in Hr. discriminate.
Qed.

Lemma host_bad_of u u' : has_marker u = false -> (hosti u' = HI_None -> port u = None) -> host_bad u u' = false.
Proof using.
  intros Hm Hp. unfold host_bad. rewrite Hm. cbn [orb]. destruct (hi_eqb (hosti u') HI_None) eqn:E; [|apply andb_false_r || (rewrite andb_false_r; reflexivity)].
  apply hi_eqb_none in E. rewrite (Hp E). cbn [has_some]. rewrite !andb_false_r. reflexivity.
Qed.

(* ---------- the one class of excl03k that known_step2 lacks ---------- *)
Definition SessNoSS : Prop :=
  forall u ops u', wf_b u = true -> noauth_slash_path u -> st_is_special (scheme_type_of (b_scheme u)) = false ->
    Forall psm_op_usv ops ->
    path_segments_session dbg u ops = Some (u', SOk) -> path_starts_with_2slash u' = false.

Hypothesis HSS : SessNoSS.

(* without authority, hierarchical, no marker *)
Lemma nsp_of u : wf_b u = true -> has_authority_b u = false -> is_opaque_b u = false -> has_marker u = false -> noauth_slash_path u.
Proof using.
  intros W Ha Ho Hm. unfold is_opaque_b in Ho. apply negb_false_iff in Ho. split; [exact Ha|]. split; [exact Ho|].
  apply (noauth_no_marker u W Ha). unfold has_marker in Hm. rewrite Ha in Hm. cbn [negb andb] in Hm. apply N.eqb_neq. exact Hm.
Qed.

Lemma path_bad_of u u' : has_marker u = false ->
  (has_authority_b u = false -> is_opaque_b u = false -> path_starts_with_2slash u' = false) -> path_bad u u' = false.
Proof using.
  intros Hm H. unfold path_bad. destruct (has_authority_b u) eqn:Ha; [reflexivity|].
  destruct (is_opaque_b u) eqn:Ho; [reflexivity|]. cbn [negb andb]. rewrite (H eq_refl eq_refl).
  unfold has_marker in Hm. rewrite Ha in Hm. cbn [negb andb] in Hm. rewrite Hm. reflexivity.
Qed.

(* set_path on such a record: path_start and scheme_end stay *)
Lemma set_path_nsp_offsets u p u' : wf_b u = true -> noauth_slash_path u -> usv_list p -> set_path dbg u p = Some u' ->
  path_start u' = scheme_end u' + 1.
Proof using.
  intros W NA Hp H. pose proof NA as (Ha & Hsl & Hnm).
  assert (auth_end_ok u) as Hx.
  { unfold auth_end_ok. intros _ _. rewrite Hnm. apply noauth_front_end. exact W. }
  destruct (set_path_eval dbg u p u' W Hsl Hp Hx H) as (P & hh & rem & -> & _). exact Hnm.
Qed.

(* ---------- a call outside C02's known classes is outside excl03k, or changes nothing ---------- *)
Theorem known_k u o u' : inv03 u -> op_args_ok o -> known_step2 dbg hp hpo hd u o = false ->
  apply_op dbg hp hpo hd u o = Some u' -> known03k u o u' = false.
Proof using HW HNE HSS.
  intros (K & A & P & E) Ha Hk H. pose proof K as [W HT].
  assert (u' = u \/ excl03k u o u' = false) as [->|G].
  2:{ unfold known03k. rewrite url_eqb_refl03. reflexivity. }
  2:{ unfold known03k. rewrite G. apply andb_false_r. }
  unfold known_step2, known_step in Hk.
  apply orb_false_iff in Hk. destruct Hk as [Hk _]. apply orb_false_iff in Hk. destruct Hk as [Hk K4].
  apply orb_false_iff in Hk. destruct Hk as [Hk K8]. apply orb_false_iff in Hk. destruct Hk as [Hk K2].
  apply orb_false_iff in Hk. destruct Hk as [K5 K3].
  destruct o; cbn [excl03k excl03 apply_op op_args_ok] in *; try (right; reflexivity);
    try (apply omf_some in H; destruct H as [st H]).
  - (* set_path *)
    unfold Known_F_C03_5 in K5. cbn [is_host_or_path_op] in K5. rewrite andb_true_r in K5.
    right. apply orb_false_iff. split.
    + destruct (is_opaque_b u) eqn:Ho; [|reflexivity]. cbn [andb]. apply negb_false_iff.
      unfold Known_F_C02_3 in K3. rewrite cbb_opaque, Ho in K3. cbn [andb] in K3.
      apply orb_false_iff in K3. exact (no_qh_existsb p (proj1 K3)).
    + apply (path_bad_of u u' K5). intros Hna Ho.
      pose proof (nsp_of u W Hna Ho K5) as NA.
      unfold Known_F_C02_8 in K8. cbn [apply_op] in K8. rewrite H, Hna, cbb_opaque, Ho in K8. cbn [negb andb] in K8.
      rewrite (set_path_nsp_offsets u p u' W NA Ha H), N.eqb_refl in K8. exact K8.
  - (* set_host *)
    destruct h as [x|].
    + unfold Known_F_C03_5 in K5. cbn [is_host_or_path_op] in K5. rewrite andb_true_r in K5.
      destruct st; [|left; exact (set_host_atomic dbg hp hpo hd u (Some x) u' _ H ltac:(discriminate)) ..].
      right. apply (host_bad_of u u' K5). intros Hn.
      unfold Known_F_C02_4 in K4. apply orb_false_iff in K4. destruct K4 as [_ K4].
      destruct x as [|c r].
      * cbn [andb] in K4. unfold has_credentials_or_port in K4. apply orb_false_iff in K4.
        destruct (port u); [destruct K4; discriminate | reflexivity].
      * exfalso. exact (set_host_some_nonempty u (c :: r) u' W Ha ltac:(discriminate) H Hn).
    + right. unfold Known_F_C02_2 in K2. exact K2.
  - (* set_ip_host *)
    unfold Known_F_C03_5 in K5. cbn [is_host_or_path_op] in K5. rewrite andb_true_r in K5.
    destruct st; [|left; exact (set_ip_host_atomic dbg hd u h u' _ H ltac:(discriminate)) ..].
    right. apply (host_bad_of u u' K5). intros Hn. exfalso. exact (set_ip_host_some u h u' W Ha H Hn).
  - (* path_segments_mut *)
    unfold Known_F_C03_5 in K5. cbn [is_host_or_path_op] in K5. rewrite andb_true_r in K5.
    destruct st; [|left; exact (path_segments_session_atomic dbg u ops u' _ H ltac:(discriminate)) ..].
    right. apply (path_bad_of u u' K5). intros Hna Ho.
    apply (HSS u ops u' W (nsp_of u W Hna Ho K5)); [|exact Ha | exact H].
    destruct (st_is_special (scheme_type_of (b_scheme u))) eqn:Es; [|reflexivity].
    rewrite (wf_ao_auth u W (A Es)) in Hna. discriminate.
  - (* quirks set_host *)
    unfold Known_F_C03_5 in K5. cbn [is_host_or_path_op] in K5. rewrite andb_true_r in K5.
    destruct st; [|left; exact (q_set_host_atomic dbg hp hpo hd u s u' _ H ltac:(discriminate)) ..].
    right. apply (host_bad_of u u' K5). unfold Known_F_C02_4 in K4. exact (q_set_host_guard u s u' W K4 H).
  - (* quirks set_hostname *)
    unfold Known_F_C03_5 in K5. cbn [is_host_or_path_op] in K5. rewrite andb_true_r in K5.
    destruct st; [|left; exact (q_set_hostname_atomic dbg hp hpo hd u s u' _ H ltac:(discriminate)) ..].
    right. apply (host_bad_of u u' K5). unfold Known_F_C02_4 in K4. exact (q_set_hostname_guard u s u' W K4 H).
  - (* quirks set_pathname *)
    unfold Known_F_C03_5 in K5. cbn [is_host_or_path_op] in K5. rewrite andb_true_r in K5.
    right. apply (path_bad_of u u' K5). intros Hna Ho.
    pose proof (nsp_of u W Hna Ho K5) as NA.
    unfold Known_F_C02_8 in K8. cbn [apply_op] in K8. rewrite H, Hna, cbb_opaque, Ho in K8. cbn [negb andb] in K8.
    destruct (q_set_pathname_eval dbg u s W) as (sch & _ & Eq). rewrite Eq in H.
    unfold is_opaque_b in Ho. rewrite Ho in H.
    rewrite (set_path_nsp_offsets u _ u' W NA (q_pathname_arg_usv (scheme_type_of sch) (has_host u) s Ha) H), N.eqb_refl in K8.
    exact K8.
Qed.

End Full.

(* ---------- Url::query_pairs_mut sessions ---------- *)
Theorem qpm_inv03 dbg u ops u' : inv03 u -> Forall ok_or_space (ser u) -> Forall op_ok ops ->
  query_pairs_session dbg u ops = Some u' -> inv03 u' /\ Forall ok_or_space (ser u').
Proof.
  intros ([W HT] & A & P & E) Hoks Hops H.
  assert (Forall (fun b => b < 128) (ser u)) as Hasc.
  { eapply Forall_impl; [|exact Hoks]. intros b Hb. unfold ok_or_space in Hb. lia. }
  destruct (session_shape dbg u W Hasc ops Hops) as (str' & H1 & F1 & F2 & F3 & _ & F5).
  rewrite H in H1. inversion H1; subst u'. clear H1.
  assert (Hns : Forall (fun c => negb (c =? 35) = true) (nskipn (C15_Url.path_end u + 1) str')).
  { apply (F5 (fun c => negb (c =? 35) = true) alpha_not_sharp). apply old_query_no_sharp. exact W. }
  assert (W' : wf_b (edited u str') = true) by (eapply wf_edited; eassumption).
  assert (Eh : host_str (edited u str') = host_str u) by (eapply host_str_edited; eassumption).
  assert (Es : scheme (edited u str') = scheme u) by (eapply scheme_edited; eassumption).
  split.
  - split; [split; [exact W' | exact (host_text_ok_of_host_str u _ W W' Eh eq_refl eq_refl eq_refl HT)]|].
    split; [|split; [exact (pn_same u _ Es eq_refl P) | exact (he_same u _ Es Eh E)]].
    intros Hs'. pose proof (spb_same u _ W W' Es) as X. unfold spb in X. rewrite X in Hs'. exact (A Hs').
  - unfold edited. cbn [ser]. apply Forall_app. split.
    + apply (forall_split_at ok_or_space str' (C15_Url.path_end u) 63 F3).
      * rewrite F2. apply Forall_nfirstn. exact Hoks.
      * unfold ok_or_space. lia.
      * apply (F5 ok_or_space (fun c Hc => ok_byte_or_space c (form_alpha_ok_byte c Hc))).
        unfold old_query. destruct (query_start u); [|constructor]. apply Forall_nfirstn, Forall_nskipn. exact Hoks.
    + unfold frag_tail. destruct (fragment_start u); [|constructor].
      constructor; [unfold ok_or_space; lia | apply Forall_nskipn; exact Hoks].
Qed.

(* ---------- the byte alphabet along a step with Rust-typed arguments ---------- *)
Lemma apply_op_oks_args dbg hp hpo hd u o u' : HostOK hp hpo hd -> IpOKv hd -> op_args_ok o ->
  apply_op dbg hp hpo hd u o = Some u' -> Forall ok_or_space (ser u) -> Forall ok_or_space (ser u').
Proof.
  intros HOK HV Ha H Hs. rewrite apply_op5 in H.
  change (okl ok_or_space (ser u')). change (okl ok_or_space (ser u)) in Hs.
  destruct o; cbn [op5 C05_History.apply_op] in H; cbn [op_args_ok] in Ha;
    try (apply C05_History.drop_status_some in H; destruct H as [st H]).
  - eapply set_fragment_okl; [exact ok_byte_or_space | eassumption ..].
  - eapply set_query_okl; [exact ok_byte_or_space | eassumption ..].
  - eapply set_path_okl; [exact ok_byte_or_space | exact ok_or_space_32 | eassumption ..].
  - eapply set_port_okl; [exact ok_byte_or_space | eassumption ..].
  - eapply set_host_okl; [exact ok_byte_or_space | exact HOK | eassumption ..].
  - eapply set_ip_host_okl; [exact ok_byte_or_space | | exact H | exact Hs].
    apply (okl_ok _ ok_byte_or_space). apply HV. destruct h; exact Ha.
  - eapply set_password_okl; [exact ok_byte_or_space | eassumption ..].
  - eapply set_username_okl; [exact ok_byte_or_space | eassumption ..].
  - eapply set_scheme_okl; [exact ok_byte_or_space | eassumption ..].
  - eapply path_segments_session_okl; [exact ok_byte_or_space | eassumption ..].
  - eapply q_set_protocol_okl; [exact ok_byte_or_space | eassumption ..].
  - eapply q_set_username_okl; [exact ok_byte_or_space | eassumption ..].
  - eapply q_set_password_okl; [exact ok_byte_or_space | eassumption ..].
  - eapply q_set_host_okl; [exact ok_byte_or_space | exact HOK | eassumption ..].
  - eapply q_set_hostname_okl; [exact ok_byte_or_space | exact HOK | eassumption ..].
  - eapply q_set_port_okl; [exact ok_byte_or_space | eassumption ..].
  - eapply q_set_pathname_okl; [exact ok_byte_or_space | exact ok_or_space_32 | eassumption ..].
  - eapply q_set_search_okl; [exact ok_byte_or_space | eassumption ..].
  - eapply q_set_hash_okl; [exact ok_byte_or_space | eassumption ..].
Qed.

(* the display of an address value is a host text, from C02's clause for addresses *)
Lemma ipwf_of_clause hp hpo hd : HostWf hp hpo hd -> ip_clause hp hpo hd -> IpWf hd.
Proof.
  intros (W1 & _) HC h Hh. destruct (HC h Hh) as (_ & E & _). apply (W1 (hd h) h E).
  destruct h as [d|a|p]; cbn in Hh; [contradiction | discriminate | discriminate].
Qed.

(* ---------- every record of C02's Reachable3 ---------- *)
Section Reach3.
Variable dbg : bool.
Variable hp hpo : list N -> result host.
Variable hd : host -> list N.
Hypothesis HW : HostWf hp hpo hd.
Hypothesis HNE : host_nonempty hp hpo.
Hypothesis HIPW : IpWf hd.
Hypothesis HOK : HostOK hp hpo hd.
Hypothesis HIP : IpOKv hd.
Hypothesis HSS : SessNoSS dbg.

Theorem reach3_inv u : Reachable3 dbg hp hpo hd u -> inv03 u /\ Forall ok_or_space (ser u).
Proof using HW HNE HIPW HOK HIP HSS.
  induction 1 as [ovr input u Hu Hp Hk | ovr b input u Rb IHb Hu Hp Hk | u o u' R IH Ha Hk H Hk' | u ops u' R IH Hops H Hk].
  - split; [exact (parse_url_inv03 dbg hp hpo hd ovr None input u HW I Hp)|].
    exact (parse_url_okl ok_or_space ok_byte_or_space dbg hp hpo hd ovr HOK None input u (fun _ => ok_or_space_32) Hp I).
  - destruct IHb as [Ib Ob]. split; [exact (parse_url_inv03 dbg hp hpo hd ovr (Some b) input u HW Ib Hp)|].
    exact (parse_url_okl ok_or_space ok_byte_or_space dbg hp hpo hd ovr HOK (Some b) input u (fun _ => ok_or_space_32) Hp Ob).
  - destruct IH as [Iu Ou]. split.
    + apply (inv03_step dbg hp hpo hd HW (proj1 HNE) HIPW u o u' Iu Ha); [|exact H].
      exact (known_k dbg hp hpo hd HW HNE HSS u o u' Iu Ha Hk H).
    + exact (apply_op_oks_args dbg hp hpo hd u o u' HOK HIP Ha H Ou).
  - destruct IH as [Iu Ou]. exact (qpm_inv03 dbg u ops u' Iu Ou Hops H).
Qed.
End Reach3.

(* ---------- SessNoSS holds ---------- *)
Theorem sess_no_ss dbg : SessNoSS dbg.
Proof. intros u ops u' W NA Hns Hops H. exact (session_no_ss dbg u ops u' W NA Hns Hops H). Qed.

Theorem reach3_inv_all dbg hp hpo hd : HostWf hp hpo hd -> host_nonempty hp hpo -> IpWf hd -> HostOK hp hpo hd -> IpOKv hd ->
  forall u, Reachable3 dbg hp hpo hd u -> inv03 u /\ Forall ok_or_space (ser u).
Proof. intros HW HNE HIPW HOK HIP. exact (reach3_inv dbg hp hpo hd HW HNE HIPW HOK HIP (sess_no_ss dbg)). Qed.
