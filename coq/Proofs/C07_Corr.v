(* Proofs/C07_Corr.v - the abstraction relation of the C07 equivalence, at the level of the accessors:
   `corr u su` ties a well-formed model record to a URL record of the Standard component by component
   (scheme, username, password, host text, port, path, query, fragment) together with the three layout
   facts the serialization depends on ("//" present, '@' present, "/." marker present) and the
   opaque-path flag.  Related records show the same ten API strings (corr_api); the model's
   "cannot have a username/password/port" test is the Standard's (corr_cannot_have). *)
From RU Require Import Base.Prelude Base.Utf8 Model.AsciiSet Gen.Tables Model.PercentEncoding
  Model.HostT Model.UrlRecord Model.Parser Model.Setters Model.WF Model.KnownC01 Model.KnownC07 Spec.Whatwg
  Proofs.ListN Proofs.C03_WF Proofs.C06_List Proofs.C06_WFI Proofs.C06_Tail Proofs.C06_Suffix Proofs.C06_Front
  Proofs.C06_Steps Proofs.C06_FragQuery Proofs.C06_Port
  Proofs.C02_Enc Proofs.C01_EqApi Proofs.C07_Defs.

(* ---------- decimal text of a port ---------- *)
Lemma decimal_serialize_sweep :
  all_below 65536 (fun p => list_eqb (decimal p) (serialize_integer p)) = true.
Proof. vm_compute. reflexivity. Qed.

Lemma decimal_serialize p : p <= 65535 -> decimal p = serialize_integer p.
Proof.
  intros H. apply list_eqb_spec. apply (all_below_spec _ _ decimal_serialize_sweep p). lia.
Qed.

(* ---------- small facts about a well-formed record ---------- *)
Lemma auth_by_offsets u : wf_b u = true -> has_authority_b u = (scheme_end u + 3 <=? username_end u).
Proof.
  intros W. destruct (has_authority_b u) eqn:Ha.
  - pose proof (af_ue (wf_auth_facts u W Ha)). lia.
  - pose proof (nf_ue (wf_noauth_facts u W Ha)). lia.
Qed.

Lemma same_main_auth u u' : wf_b u = true -> wf_b u' = true -> same_main u u' ->
  has_authority_b u' = has_authority_b u.
Proof.
  intros W W' (A & B & _). rewrite (auth_by_offsets u W), (auth_by_offsets u' W'), A, B. reflexivity.
Qed.

(* the first byte of the path *)
Lemma path_first_byte u pth : wf_b u = true -> path u = Some pth ->
  byte_eqb (ser u) (path_start u) 47 = starts_with [47] pth.
Proof.
  intros W Hp. rewrite (path_eval u W) in Hp. injection Hp as Hp. subst pth.
  destruct (wf_ps_le_path_end u W) as [H1 H2].
  assert (pidx u AfterPath = path_end u) as Epe
    by (unfold path_end; cbn [pidx]; destruct (query_start u), (fragment_start u); reflexivity).
  cbn [pidx] in Epe. rewrite Epe.
  unfold piece, byte_eqb. rewrite <- (N.add_0_r (path_start u)) at 1. rewrite <- nnth_nskipn.
  destruct (N.eq_dec (path_start u) (path_end u)) as [E|E].
  - rewrite <- E, N.sub_diag. change (nfirstn 0 (nskipn (path_start u) (ser u))) with (@nil N).
    cbn [starts_with].
    (* the byte at the end of the path is '?', '#' or nothing *)
    assert (nnth (ser u) (path_end u) = None \/ nnth (ser u) (path_end u) = Some 63
            \/ nnth (ser u) (path_end u) = Some 35) as Hb.
    { pose proof (wf_qf_facts u W) as QF. pose proof (qf_q QF) as Q1. pose proof (qf_f QF) as Q2.
      unfold path_end. destruct (query_start u) as [q|].
      - destruct Q1 as (_ & Q & _). right. left. apply byte_eqb_nnth. exact Q.
      - destruct (fragment_start u) as [f|].
        + destruct Q2 as (_ & Q & _). right. right. apply byte_eqb_nnth. exact Q.
        + left. unfold nnth. apply nth_error_None. unfold nlen. lia. }
    rewrite <- E in Hb. rewrite nnth_nskipn, N.add_0_r.
    destruct Hb as [K|[K|K]]; rewrite K; reflexivity.
  - destruct (nskipn (path_start u) (ser u)) as [|c r] eqn:Es.
    + exfalso. assert (nlen (nskipn (path_start u) (ser u)) = 0) as K by (rewrite Es; reflexivity).
      rewrite nlen_nskipn in K. lia.
    + replace (path_end u - path_start u) with (1 + (path_end u - path_start u - 1)) by lia.
      unfold nfirstn. rewrite N2Nat.inj_add. change (N.to_nat 1) with 1%nat. cbn [Nat.add firstn].
      cbn [nnth N.to_nat nth_error starts_with]. rewrite andb_true_r, N.eqb_sym. reflexivity.
Qed.

(* an opaque path: no authority, no marker, and the path does not start with '/' *)
Lemma is_opaque_by_path u pth : wf_b u = true -> path u = Some pth ->
  is_opaque_b u = negb (has_authority_b u) && (path_start u =? scheme_end u + 1) && negb (starts_with [47] pth).
Proof.
  intros W Hp. rewrite <- (path_first_byte u pth W Hp). unfold is_opaque_b.
  destruct (has_authority_b u) eqn:Ha.
  - unfold has_authority_b in Ha. apply css_bytes in Ha. destruct Ha as (_ & B & _).
    apply byte_eqb_true_iff in B. rewrite B. reflexivity.
  - pose proof (wf_noauth_facts u W Ha) as F. destruct (nf_ps F) as [E|(E & B & _)].
    + rewrite E, N.eqb_refl. reflexivity.
    + rewrite B. replace (path_start u =? scheme_end u + 1) with false by lia. reflexivity.
Qed.

Lemma starts_with_rstrip_47 p : starts_with [47] (rstrip (fun c => c =? 32) p) = starts_with [47] p.
Proof.
  destruct (rstrip_prefix (fun c => c =? 32) p) as (k & K1 & K2 & K3). rewrite K2.
  destruct p as [|c r]; [unfold nfirstn; rewrite firstn_nil; reflexivity|].
  destruct (N.eq_dec k 0) as [->|Hk].
  - change (nfirstn 0 (c :: r)) with (@nil N). cbn [starts_with]. rewrite andb_true_r.
    destruct (47 =? c) eqn:E; [|reflexivity]. apply N.eqb_eq in E. subst c.
    assert (0 < 0) as Hk by (apply (K3 0 47); reflexivity). lia.
  - replace k with (1 + (k - 1)) by lia. unfold nfirstn. rewrite N2Nat.inj_add. change (N.to_nat 1) with 1%nat.
    cbn [Nat.add firstn starts_with]. reflexivity.
Qed.

Lemma has_some_query u dbg q : wf_b u = true -> query dbg u = Some q -> has_some (query_start u) = opt_is_some q.
Proof.
  intros W H. rewrite (query_eval dbg u W) in H. injection H as H. subst q. destruct (query_start u); reflexivity.
Qed.

Lemma has_some_fragment u dbg f : wf_b u = true -> fragment dbg u = Some f -> has_some (fragment_start u) = opt_is_some f.
Proof.
  intros W H. rewrite (fragment_eval dbg u W) in H. injection H as H. subst f. destruct (fragment_start u); reflexivity.
Qed.

(* ---------- the relation ---------- *)
Definition pw_opt (p : list N) : option (list N) := match p with [] => None | _ => Some p end.

(* the serializer of the Standard writes "/." in front of the path *)
Definition spec_marker (su : spec_url) : bool :=
  match su_host su with
  | Some _ => false
  | None => match su_path su with SPList (p0 :: _ :: _) => list_eqb p0 [] | _ => false end
  end.

Definition host_text (hs : option (option (list N))) : option (list N) := option_map optl hs.

Section Corr.
Variable dbg : bool.
Variable shs : spec_host -> list N.

Record corr (u : url) (su : spec_url) : Prop := mk_corr {
  co_wf : wf_b u = true;
  co_ht : host_text_ok u;
  co_scheme : scheme u = Some (su_scheme su);
  co_user : username dbg u = Some (su_username su);
  co_pass : password dbg u = Some (pw_opt (su_password su));
  co_host : host_text (host_str u) = Some (serialize_host_opt shs (su_host su));
  co_hh : has_host u = negb (host_is_null (su_host su) || host_is_empty (su_host su));
  co_auth : has_authority_b u = opt_is_some (su_host su);
  co_at : has_authority_b u && negb (username_end u =? host_start u) = includes_credentials su;
  co_port : port u = su_port su;
  co_path : path u = Some (serialize_path su);
  co_query : query dbg u = Some (su_query su);
  co_frag : fragment dbg u = Some (su_fragment su);
  co_marker : negb (has_authority_b u) && (path_start u =? scheme_end u + 3) = spec_marker su;
  co_opaque : is_opaque_b u = has_opaque_path su;
  (* the stored username contains no byte of the userinfo percent-encode set (Url::set_username
     compares the stored text with the raw argument before encoding it) *)
  co_uclean : clean T_USERINFO (su_username su) = true
}.

Lemma optl_pw_opt p : optl (pw_opt p) = p.
Proof. destruct p; reflexivity. Qed.

Lemma list_eqb_nil_r (p : list N) : list_eqb p [] = match p with [] => true | _ => false end.
Proof. destruct p; reflexivity. Qed.

(* the serialization of a related record is the Standard's serialization *)
Lemma corr_href u su : corr u su -> ser u = serialize_url shs su false.
Proof.
  intros [W HT Es Eun Epw Eh Ehh Ea Eat Epo Ept Eq Ef Em Eo Ec].
  destruct (accessors_reconcatenate dbg u W)
    as (sch & un & pw & hs & pth & q & f & Es1 & Eun1 & Epw1 & Ehs1 & Ept1 & Eq1 & Ef1 & Eser & Hh1 & Hh0).
  rewrite Es in Es1. rewrite Eun in Eun1. rewrite Epw in Epw1. rewrite Ept in Ept1. rewrite Eq in Eq1. rewrite Ef in Ef1.
  injection Es1 as <-. injection Eun1 as <-. injection Epw1 as <-. injection Ept1 as <-. injection Eq1 as <-. injection Ef1 as <-.
  assert (piece u (host_start u) (host_end u) = serialize_host_opt shs (su_host su)) as Ehp.
  { rewrite Ehs1 in Eh. cbn [host_text option_map] in Eh. injection Eh as Eh. rewrite <- Eh.
    destruct (has_host u) eqn:Hh; [rewrite (Hh1 eq_refl); reflexivity|].
    rewrite (Hh0 eq_refl). rewrite (host_str_eval u W), Hh in Ehs1. injection Ehs1 as <-. reflexivity. }
  rewrite Eser, Ehp, Eat, Em, Epo. unfold serialize_url, spec_marker.
  destruct (su_host su) as [h|] eqn:Esh.
  - (* a host: "//", credentials, host, port *)
    rewrite Ea. cbn [opt_is_some serialize_host_opt]. unfold s_css.
    assert (match su_port su with Some p => 58 :: decimal p | None => [] end
            = match su_port su with Some p => 58 :: serialize_integer p | None => [] end) as Ep.
    { destruct (su_port su) as [p|] eqn:Esp; [|reflexivity]. f_equal. apply decimal_serialize.
      pose proof (af_port (wf_auth_facts u W Ea)) as P. rewrite Epo in P. tauto. }
    rewrite Ep.
    unfold includes_credentials in *.
    destruct (su_username su) as [|a ra] eqn:Eu; destruct (su_password su) as [|b rb] eqn:Epw2;
      cbn [pw_opt list_eqb negb orb app]; repeat (rewrite <- ?app_assoc; cbn [app]); reflexivity.
  - (* no host: nothing between ':' and the path but the marker *)
    pose proof (wf_noauth_facts u W Ea) as F. rewrite Ea in *. cbn [opt_is_some] in *.
    assert (su_username su = []) as Eu.
    { rewrite (username_eval dbg u W) in Eun. injection Eun as Eun. rewrite <- Eun. cbn [pidx]. rewrite Ea.
      rewrite (nf_ue F). apply piece_empty. }
    assert (pw_opt (su_password su) = None) as Ep.
    { rewrite (password_piece dbg u W) in Epw. injection Epw as Epw. rewrite <- Epw.
      unfold has_password_b. rewrite Ea. reflexivity. }
    rewrite Eu, Ep. cbn [andb serialize_host_opt app].
    rewrite <- Epo, (nf_port F). cbn [app].
    cbn [andb] in Eat. rewrite <- Eat.
    destruct (su_path su) as [p|[|p0 [|p1 pr]]]; reflexivity.
Qed.

Lemma get_search_trim q : q_trim (qtext q) = match q with None | Some [] => [] | Some x => 63 :: x end.
Proof. destruct q as [[|a r]|]; reflexivity. Qed.
Lemma get_hash_trim f : q_trim (ftext f) = match f with None | Some [] => [] | Some x => 35 :: x end.
Proof. destruct f as [[|a r]|]; reflexivity. Qed.

(* related records show the same ten API strings *)
Theorem corr_api u su : corr u su -> model_api dbg u = Some (spec_api_list shs su).
Proof.
  intros C. pose proof (corr_href u su C) as Ehref.
  destruct C as [W HT Es Eun Epw Eh Ehh Ea Eat Epo Ept Eq Ef Em Eo Ec].
  change (model_api dbg u) with (api_of_model dbg u).
  destruct (host_str u) as [hs|] eqn:Ehs; [|discriminate Eh]. cbn [host_text option_map] in Eh. injection Eh as Eh.
  rewrite (api_by_accessors dbg u W _ _ _ _ _ _ _ Es Eun Epw Ehs Ept Eq Ef). f_equal.
  unfold api_of_parts, spec_api_list.
  assert (match su_port su with Some p => p <= 65535 | None => True end) as Hp.
  { destruct (su_port su) as [p|] eqn:Esp; [|exact I].
    destruct (has_authority_b u) eqn:Ha.
    - pose proof (af_port (wf_auth_facts u W Ha)) as P. rewrite Epo in P. tauto.
    - pose proof (nf_port (wf_noauth_facts u W Ha)) as P. congruence. }
  apply list10_eq.
  - exact Ehref.
  - reflexivity.
  - reflexivity.
  - apply optl_pw_opt.
  - unfold get_host. rewrite Eh, Epo. destruct (su_host su) as [h|] eqn:Esh.
    + cbn [serialize_host_opt]. destruct (su_port su) as [p|]; cbn [port_suffix]; [|apply app_nil_r].
      rewrite (decimal_serialize p Hp). reflexivity.
    + cbn [serialize_host_opt app]. cbn [opt_is_some] in Ea.
      rewrite <- Epo, (nf_port (wf_noauth_facts u W Ea)). reflexivity.
  - exact Eh.
  - unfold get_port. rewrite Epo. destruct (su_port su) as [p|]; cbn [port_text]; [|reflexivity].
    apply (decimal_serialize p Hp).
  - reflexivity.
  - apply get_search_trim.
  - apply get_hash_trim.
Qed.

(* "cannot have a username/password/port": the code's test is the Standard's on related records *)
Theorem corr_cannot_have u su : corr u su ->
  cannot_have_credentials_or_port u = Some (cannot_have_username_password_port su).
Proof.
  intros [W HT Es Eun Epw Eh Ehh Ea Eat Epo Ept Eq Ef Em Eo Ec].
  unfold cannot_have_credentials_or_port, cannot_have_username_password_port.
  destruct (has_host u) eqn:Hh; cbn [negb].
  - symmetry in Ehh. apply negb_true_iff in Ehh. rewrite Ehh. cbn [orb].
    rewrite Es. destruct (HT Hh) as (T1 & _).
    pose proof (has_host_authority u W Hh) as Ha. pose proof (wf_auth_facts u W Ha) as F.
    pose proof (af_he F); pose proof (af_ps F); pose proof (af_len F).
    unfold host_of. destruct (hosti u) eqn:Ehi; try discriminate Hh; cbn [bindo]; try reflexivity.
    unfold u_slice. rewrite slice_o_some by lia. cbn [bindo].
    destruct (nfirstn (host_end u - host_start u) (nskipn (host_start u) (ser u))) as [|c r] eqn:El; [|reflexivity].
    exfalso. assert (nlen (nfirstn (host_end u - host_start u) (nskipn (host_start u) (ser u))) = 0) as K
      by (rewrite El; reflexivity).
    rewrite nlen_nfirstn in K by (rewrite nlen_nskipn; lia). lia.
  - symmetry in Ehh. apply negb_false_iff in Ehh. rewrite Ehh. reflexivity.
Qed.

End Corr.
