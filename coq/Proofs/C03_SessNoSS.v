(* Proofs/C03_SessNoSS.v - a path_segments_mut session on an authority-less record without the "/." marker (hence,
   with AS, of a non-special scheme) never yields a path that starts with "//":
     Q ps x : the byte behind the first '/' of the path is not '/'.
   It holds at the start (the record has no authority), and every operation of a session keeps it: clear / pop /
   pop_if_empty truncate behind the first '/', push / extend append '/' only behind a path longer than "/" and then
   the percent-encoded segment, in which '/' is written as %2F (PATH_SEGMENT contains '/'); the dot-segment
   handling of the path state only truncates, or appends '/' behind a text that does not end in '/'. *)
From RU Require Import Base.Prelude Base.Utf8 Base.Utf8Facts Model.AsciiSet Gen.Tables Model.PercentEncoding
  Model.HostT Model.UrlRecord Model.Parser Model.Setters Model.WF
  Proofs.ListN Proofs.C03_WF Proofs.C05_Enc Proofs.C05_Parser Proofs.C06_List Proofs.C06_WFI Proofs.C06_Tail Proofs.C06_Steps Proofs.C06_FragQuery
  Proofs.C06_Suffix Proofs.C06_Front Proofs.C06_HostNone Proofs.C06_PathParser Proofs.C06_Path Proofs.C06_Segments Proofs.C06_PathNoAuth Proofs.C06_PathMore Proofs.C03_ReachParts Proofs.C03_Reach.
Open Scope N_scope.
Open Scope list_scope.

Definition Q (ps : N) (x : list N) : Prop := nnth x (ps + 1) <> Some 47.

Lemma q_prefix ps x k : Q ps x -> Q ps (nfirstn k x).
Proof.
  unfold Q. intros H E. destruct (N.ltb_spec (ps + 1) k) as [L|L].
  - rewrite nnth_nfirstn in E by exact L. exact (H E).
  - apply nnth_lt in E. assert (nlen (nfirstn k x) <= k) by (unfold nlen, nfirstn; rewrite firstn_length; lia). lia.
Qed.

Lemma q_app ps x a : ps + 1 <= nlen x -> Q ps x -> ~ In 47 a -> Q ps (x ++ a).
Proof.
  unfold Q. intros L H Ha E. destruct (N.ltb_spec (ps + 1) (nlen x)) as [L1|L1].
  - rewrite nnth_app_lt in E by exact L1. exact (H E).
  - rewrite nnth_app_ge in E by lia. apply Ha. unfold nnth in E. exact (nth_error_In _ _ E).
Qed.

Lemma setter_set_47 st : aset_contains (path_set CPathSegmentSetter st) 47 = true.
Proof. unfold path_set. cbn [ctx_eqb]. destruct (st_is_special st); vm_compute; reflexivity. Qed.

Lemma push_pending_no47 st x pend : exists a, push_pending CPathSegmentSetter st x pend = x ++ a /\ ~ In 47 a.
Proof.
  unfold push_pending. destruct pend as [|c r]; [exists []; rewrite app_nil_r; split; [reflexivity | intros []]|].
  unfold push_encoded. eexists. split; [reflexivity|].
  apply pe_display_avoids; [apply setter_set_47 | discriminate | vm_compute; reflexivity].
Qed.

Section Loop.
Variables (dbg : bool) (st : scheme_type) (ps : N).
Hypothesis Hf : st_is_file st = false.

Lemma ppl_setter l : forall ser ss pend hh s' hh' rem,
  parse_path_loop dbg CPathSegmentSetter st ps l ser ss pend hh = POk (s', hh', rem) ->
  exists a, ~ In 47 a /\ finish_segment dbg st ps (ser ++ a) ss false hh = POk (s', hh').
Proof.
  induction l as [|c r IH]; intros ser ss pend hh s' hh' rem H.
  - cbn [parse_path_loop] in H. destruct (push_pending_no47 st ser pend) as (a & Ea & Ha). rewrite Ea in H.
    pb H x Hx. destruct x as [s2 h2]. inversion H; subst s' hh' rem. exists a. split; [exact Ha|].
    unfold file_path_fixup. rewrite Hf. exact Hx.
  - cbn [parse_path_loop] in H. destruct (is_tnl c).
    + destruct (push_pending_no47 st ser pend) as (a & Ea & Ha). rewrite Ea in H.
      destruct (IH _ _ _ _ _ _ _ H) as (a1 & Ha1 & F). exists (a ++ a1).
      split; [intros X; apply in_app_or in X; tauto | rewrite app_assoc; exact F].
    + cbn [ctx_eqb negb andb] in H. rewrite andb_false_r in H. rewrite Hf in H. cbn [andb] in H.
      exact (IH _ _ _ _ _ _ _ H).
Qed.

Lemma shorten_q s2 s3 : shorten_path st ps s2 = POk s3 -> Q ps s2 -> Q ps s3.
Proof.
  unfold shorten_path. intros H Hq. destruct (nlen s2 =? ps); [inversion H; subst; exact Hq|].
  rewrite Hf in H. cbn [andb] in H. unfold pop_path in H. destruct (ps <? nlen s2); [|inversion H; subst; exact Hq].
  destruct (rfind 47 (nskipn ps s2)) as [sp|]; [|discriminate]. rewrite Hf in H. cbn [andb] in H.
  inversion H; subst. unfold truncate. apply q_prefix. exact Hq.
Qed.

Lemma ends47_of_last x : nlen x = ps + 1 -> nnth x ps = Some 47 -> ends_with_byte 47 x = true.
Proof.
  intros L H. rewrite <- (nfirstn_nskipn ps x). rewrite (nskipn_cons_of_nnth _ _ _ H).
  rewrite nskipn_all by lia. unfold ends_with_byte. rewrite rev_app_distr. reflexivity.
Qed.

Lemma finish_setter x a hh s' hh' : ps + 1 <= nlen x -> nnth x ps = Some 47 -> Q ps x -> ~ In 47 a ->
  finish_segment dbg st ps (x ++ a) (nlen x) false hh = POk (s', hh') -> Q ps s'.
Proof.
  intros L Hb Hq Ha H. unfold finish_segment in H. pb H seg Hseg.
  assert (truncate (x ++ a) (nlen x) = x) as Et by (unfold truncate; apply nfirstn_app_exact).
  destruct (is_double_dot seg).
  - pb H u_ Hu. cbv zeta in H. rewrite Et in H. pb H s3 Hs3. cbn [andb] in H. inversion H; subst s' hh'.
    apply (shorten_q _ _ Hs3). destruct (ends_with_byte 47 x && last_slash_can_be_removed x ps); [apply q_prefix|]; exact Hq.
  - destruct (is_single_dot seg).
    + cbv zeta in H. rewrite Et in H. inversion H; subst s' hh'.
      destruct (ends_with_byte 47 x) eqn:E; [exact Hq|].
      destruct (N.eq_dec (nlen x) (ps + 1)) as [E1|E1]; [rewrite (ends47_of_last x E1 Hb) in E; discriminate|].
      unfold Q. rewrite nnth_app_lt by lia. exact Hq.
    + rewrite Hf in H. cbn [andb] in H. inversion H; subst s' hh'. apply q_app; assumption.
Qed.

(* one segment *)
Lemma parse_path_q x seg s2 hh rem : ps + 1 <= nlen x -> nnth x ps = Some 47 -> Q ps x ->
  parse_path dbg CPathSegmentSetter st true ps x seg = POk (s2, hh, rem) -> Q ps s2.
Proof.
  intros L Hb Hq H. unfold parse_path in H. destruct (ppl_setter _ _ _ _ _ _ _ _ H) as (a & Ha & F).
  exact (finish_setter x a _ _ _ L Hb Hq Ha F).
Qed.

Variable s0 : list N.
Hypothesis Hps : nlen s0 = ps.

Lemma q_extend_loop segs : forall x s', psm_extend_loop dbg st ps x segs = Some s' ->
  SInv s0 ps x -> Forall usv_list segs -> Q ps x -> Q ps s'.
Proof.
  induction segs as [|seg rest IH]; intros x s' H I Hu Hq; cbn [psm_extend_loop] in H.
  - injection H as <-. exact Hq.
  - apply Forall_cons_iff in Hu. destruct Hu as [Hseg Hrest].
    destruct (psm_skips seg); [eapply IH; eassumption|].
    set (s1 := if (ps + 1 <? nlen x) || (nlen x =? ps) then x ++ [47] else x) in *.
    assert (SInv s0 ps s1 /\ byte_eqb s1 ps 47 = true /\ Q ps s1) as (I1 & Hb1 & Q1).
    { pose proof (sinv_len s0 ps Hps x I) as L. destruct I as (A & B & C). subst s1.
      destruct ((ps + 1 <? nlen x) || (nlen x =? ps)) eqn:E.
      - assert (byte_eqb (x ++ [47]) ps 47 = true) as Hb.
        { destruct C as [C|C].
          - rewrite <- C. apply byte_eqb_app_at.
          - unfold byte_eqb. rewrite nnth_app_lt by (apply (byte_eqb_lt _ _ _ C)). exact C. }
        split; [|split; [exact Hb|]].
        + split; [|split; [|right; exact Hb]].
          * rewrite nfirstn_app_le by lia. exact A.
          * rewrite nskipn_app_le by lia. apply forallb_app_iff. split; [exact B | reflexivity].
        + apply orb_true_iff in E. destruct E as [E|E].
          * apply N.ltb_lt in E. unfold Q. rewrite nnth_app_lt by exact E. exact Hq.
          * apply N.eqb_eq in E. unfold Q. intros X. apply nnth_lt in X. rewrite nlen_app, E in X. change (nlen [47]) with 1 in X. lia.
      - destruct C as [C|C]; [lia|]. split; [|split; [exact C | exact Hq]]. split; [exact A|]. split; [exact B | right; exact C]. }
    destruct (parse_path dbg CPathSegmentSetter st true ps s1 seg) as [[[s2 hh] rem]| |] eqn:Epp;
      cbn [unpres bindo] in H; try discriminate.
    destruct (sinv_segment dbg s0 ps Hps st s1 seg s2 hh rem Epp I1 Hb1 Hseg) as [I2 _].
    pose proof (byte_eqb_lt _ _ _ Hb1) as L1. apply byte_eqb_nnth in Hb1.
    pose proof (parse_path_q s1 seg s2 hh rem ltac:(lia) Hb1 Q1 Epp) as Q2.
    eapply IH; eassumption.
Qed.
End Loop.

Lemma ust_pre u x st0 : u_scheme_type (set_ser u x) = Some st0 -> nfirstn (scheme_end u) x = b_scheme u ->
  st0 = scheme_type_of (b_scheme u).
Proof.
  unfold u_scheme_type, scheme, u_slice_to, slice_to_o. cbn [ser set_ser scheme_end].
  destruct (scheme_end u <=? nlen x); cbn [bindo]; [|discriminate]. intros H E. inversion H. rewrite E. reflexivity.
Qed.

Theorem session_no_ss dbg u ops u' : wf_b u = true -> noauth_slash_path u ->
  st_is_special (scheme_type_of (b_scheme u)) = false ->
  Forall psm_op_usv ops -> path_segments_session dbg u ops = Some (u', SOk) -> path_starts_with_2slash u' = false.
Proof.
  intros W NA Hns Hops H. pose proof NA as (Ha & Hsl & Hnm).
  destruct (wf_ps_le_path_end u W) as [B5 B6]. pose proof (wf_se_lt_ps u W) as B0.
  destruct (wf_scheme_facts u W) as (Hse & Hc & Hlt).
  set (pe := path_end u) in *. set (ps := path_start u) in *.
  set (s0 := nfirstn ps (ser u)).
  assert (nlen s0 = ps) as Ls0 by (apply nlen_nfirstn; lia).
  set (x0 := nfirstn pe (ser u)).
  assert (nlen x0 = pe) as Lx0 by (apply nlen_nfirstn; exact B6).
  assert (SInv s0 ps x0) as I0.
  { pose proof W as W0. apply wf_b_iff in W0. destruct W0 as (_ & _ & (Q1 & Q2 & Q3 & Q4 & Q5)).
    change (path_end u) with pe in Q4. change (path_start u) with ps in Q4.
    split; [|split].
    - unfold x0, s0. apply nfirstn_nfirstn. exact B5.
    - unfold x0. replace pe with (ps + (pe - ps)) by lia. rewrite nskipn_nfirstn_comm. exact Q4.
    - rewrite Lx0. destruct (N.eq_dec pe ps) as [E'|E']; [left; exact E'|]. right.
      unfold byte_eqb, x0. rewrite nnth_nfirstn by lia. fold (byte_eqb (ser u) ps 47). rewrite Hnm. exact Hsl. }
  assert (Q ps x0) as Q0.
  { unfold Q, x0. intros E. destruct (N.ltb_spec (ps + 1) pe) as [L|L].
    - rewrite nnth_nfirstn in E by exact L.
      assert (has_authority_b u = true) as X; [|rewrite X in Ha; discriminate].
      unfold has_authority_b. apply css_of_bytes.
      + apply byte_eqb_nnth. exact Hc.
      + apply byte_eqb_nnth. exact Hsl.
      + rewrite Hnm in E. replace (scheme_end u + 2) with (scheme_end u + 1 + 1) by lia. exact E.
    - apply nnth_lt in E. fold x0 in E. rewrite Lx0 in E. lia. }
  (* every scheme type read during the session is that of u: not special *)
  assert (forall x st0, SInv s0 ps x -> u_scheme_type (set_ser u x) = Some st0 -> st_is_file st0 = false) as Hst.
  { intros x st0 (I1 & _) E. rewrite (ust_pre u x st0 E).
    - destruct (scheme_type_of (b_scheme u)); [discriminate Hns | discriminate Hns | reflexivity].
    - unfold b_scheme. rewrite <- (nfirstn_nfirstn (scheme_end u) ps x) by lia. rewrite I1. unfold s0. apply nfirstn_nfirstn. lia. }
  (* open the session *)
  unfold path_segments_session, path_segments_mut in H.
  rewrite (cannot_be_a_base_eval u W) in H. cbn [bindo] in H.
  rewrite Hsl in H. cbn [negb] in H.
  unfold psm_new in H. rewrite (take_after_path_eval u W) in H. cbn [bindo] in H. fold pe x0 in H.
  destruct (u_scheme_type (set_ser u x0)) as [st|] eqn:Est; cbn [bindo] in H; [|discriminate].
  match type of H with bindo (bindo (bindo ?c _) _) _ = _ => destruct c as [[]|]; cbn [bindo] in H; [|discriminate] end.
  cbn [ser set_ser path_start] in H. fold ps in H. rewrite Lx0 in H.
  set (p0 := mkPsm (set_ser u x0) (ps + 1) (nskipn pe (ser u)) pe) in H.
  destruct (psm_run dbg p0 ops) as [p1|] eqn:Erun; cbn [bindo] in H; [|discriminate].
  assert (forall ops p q, psm_run dbg p ops = Some q -> Forall psm_op_usv ops ->
            psm_url p = set_ser u (ser (psm_url p)) -> after_first_slash p = ps + 1 ->
            psm_after_path p = nskipn pe (ser u) -> psm_old_pos p = pe -> SInv s0 ps (ser (psm_url p)) -> Q ps (ser (psm_url p)) ->
            psm_url q = set_ser u (ser (psm_url q)) /\ psm_after_path q = nskipn pe (ser u) /\ psm_old_pos q = pe
            /\ SInv s0 ps (ser (psm_url q)) /\ Q ps (ser (psm_url q))) as Hrun.
  { intros ops0. induction ops0 as [|o rest IH]; intros p q Hr Hu E1 E2 E3 E4 I Iq.
    - cbn in Hr. inversion Hr; subst q. tauto.
    - cbn [psm_run] in Hr. destruct (psm_apply dbg p o) as [p'|] eqn:Eo; cbn [bindo] in Hr; [|discriminate].
      apply Forall_cons_iff in Hu. destruct Hu as [Ho Hrest].
      assert (psm_url p' = set_ser u (ser (psm_url p')) /\ after_first_slash p' = ps + 1
              /\ psm_after_path p' = nskipn pe (ser u) /\ psm_old_pos p' = pe /\ SInv s0 ps (ser (psm_url p'))
              /\ Q ps (ser (psm_url p'))) as (F1 & F2 & F3 & F4 & F5 & F6).
      { assert (forall x, SInv s0 ps x -> Q ps x ->
                  let r := psm_with p x in
                  psm_url r = set_ser u (ser (psm_url r)) /\ after_first_slash r = ps + 1
                  /\ psm_after_path r = nskipn pe (ser u) /\ psm_old_pos r = pe /\ SInv s0 ps (ser (psm_url r))
                  /\ Q ps (ser (psm_url r))) as Hw.
        { intros x Ix Qx. unfold psm_with. cbn [psm_url after_first_slash psm_after_path psm_old_pos ser set_ser].
          splits; try assumption. rewrite E1. reflexivity. }
        destruct o; cbn [psm_apply] in Eo.
        - inversion Eo; subst p'. unfold psm_clear. rewrite E2. apply Hw; [apply sinv_clear; assumption | apply q_prefix; exact Iq].
        - inversion Eo; subst p'. unfold psm_pop_if_empty. rewrite E2.
          pose proof (sinv_pop_if_empty s0 ps Ls0 _ I) as I'.
          destruct (nlen (ser (psm_url p)) <=? ps + 1); [tauto|].
          destruct (ends_with_byte 47 (nskipn (ps + 1) (ser (psm_url p)))); [apply Hw; [exact I' | apply q_prefix; exact Iq] | tauto].
        - inversion Eo; subst p'. unfold psm_pop. rewrite E2.
          match goal with |- context [truncate _ (ps + 1 + ?k)] => pose proof (sinv_pop s0 ps Ls0 _ k I) as I' end.
          destruct (nlen (ser (psm_url p)) <=? ps + 1); [tauto | apply Hw; [exact I' | apply q_prefix; exact Iq]].
        - unfold psm_push, psm_extend in Eo.
          destruct (u_scheme_type (psm_url p)) as [st0|] eqn:Est0; cbn [bindo] in Eo; [|discriminate].
          destruct (psm_extend_loop dbg st0 (path_start (psm_url p)) (ser (psm_url p)) [s]) as [s'|] eqn:El;
            cbn [bindo] in Eo; [|discriminate].
          inversion Eo; subst p'. rewrite E1 in Est0. pose proof (Hst _ _ I Est0) as Hf0.
          rewrite E1 in El. cbn [path_start set_ser] in El. fold ps in El.
          apply Hw.
          + eapply (sinv_extend_loop dbg s0 ps Ls0); [exact El | exact I | constructor; [exact Ho | constructor]].
          + eapply (q_extend_loop dbg st0 ps Hf0 s0 Ls0); [exact El | exact I | constructor; [exact Ho | constructor] | exact Iq].
        - unfold psm_extend in Eo.
          destruct (u_scheme_type (psm_url p)) as [st0|] eqn:Est0; cbn [bindo] in Eo; [|discriminate].
          destruct (psm_extend_loop dbg st0 (path_start (psm_url p)) (ser (psm_url p)) ss) as [s'|] eqn:El;
            cbn [bindo] in Eo; [|discriminate].
          inversion Eo; subst p'. rewrite E1 in Est0. pose proof (Hst _ _ I Est0) as Hf0.
          rewrite E1 in El. cbn [path_start set_ser] in El. fold ps in El.
          apply Hw.
          + eapply (sinv_extend_loop dbg s0 ps Ls0); [exact El | exact I | exact Ho].
          + eapply (q_extend_loop dbg st0 ps Hf0 s0 Ls0); [exact El | exact I | exact Ho | exact Iq]. }
      eapply IH; eassumption. }
  destruct (Hrun ops p0 p1 Erun Hops eq_refl eq_refl eq_refl eq_refl I0 Q0) as (R1 & R3 & R4 & (I1 & I2 & I3) & R5).
  (* close the session *)
  destruct (psm_close dbg p1) as [uf|] eqn:Ecl; cbn [bindo] in H; [|discriminate].
  inversion H; subst uf. clear H.
  unfold psm_close, restore_after_path in Ecl. rewrite R3, R4 in Ecl. rewrite R1 in Ecl.
  cbn [ser set_ser query_start fragment_start] in Ecl.
  set (x1 := ser (psm_url p1)) in *.
  assert (match query_start u with Some i => pe <= i | None => True end) as Gq.
  { unfold pe, path_end. destruct (query_start u); [lia | exact I]. }
  assert (match fragment_start u with Some i => pe <= i | None => True end) as Gf.
  { pose proof (wf_qf_facts u W) as QF. pose proof (qf_qf QF) as Q3. pose proof (qf_f QF) as Q2. unfold pe, path_end.
    destruct (query_start u), (fragment_start u); try exact I; lia. }
  rewrite !adjust_opt_ok in Ecl by assumption. cbn [bindo] in Ecl.
  set (P := nskipn ps x1).
  assert (x1 = s0 ++ P) as Ex1 by (unfold P; rewrite <- I1; symmetry; apply nfirstn_nskipn).
  assert (u' = with_path u P) as ->.
  { inversion Ecl. unfold with_path. fold pe ps. rewrite Ex1. rewrite nlen_app, Ls0. rewrite <- app_assoc. reflexivity. }
  rewrite (wg_2slash u P W Ha).
  assert (nnth P 1 <> Some 47) as HP1 by (unfold P; rewrite nnth_nskipn; exact R5).
  unfold s_ss. destruct P as [|c0 [|c1 r]]; cbn [starts_with]; [reflexivity | destruct (47 =? c0); reflexivity|].
  destruct (47 =? c0); [|reflexivity]. cbn [andb].
  destruct (47 =? c1) eqn:E1; [|reflexivity]. apply N.eqb_eq in E1. subst c1. exfalso. apply HP1. reflexivity.
Qed.
