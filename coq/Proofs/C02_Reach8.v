(* Proofs/C02_Reach8.v - the first reach theorem that covers file records.
   CanonF = Canon (the four non-file canonical forms) or FileCanon (the fifth form, C02_FileCanon).
   ReachC7 = the histories of C02_Reach7.ReachC6 and, NEW,
     - EVERY result of Url::parse without a base outside Known_file_drive - file inputs included (RC7_parse is
       literally R4_parse; C02_FileParse.parse_file_Canon5),
     - on file records: Url::set_fragment, Url::set_query, quirks::set_search, quirks::set_hash (RC7_step_file),
       Url::query_pairs_mut sessions (RC7_qpm, any record), joins with an empty, fragment-only or query-led
       reference against a file base (RC7_join_tail_file),
     - everything ReachC6 had, from the non-file records of a ReachC7 history.
   Every ReachC7 record is CanonF, hence a fixpoint of re-parsing, well-formed and ASCII; ReachC7 is inside Reachable4.
   Host clauses: HostOK2, host_nonempty and host_no_wdl (C02_FileParse; proved of the host model in C02_FileHost). *)
From RU Require Import Proofs.C15_Ser.
From Coq Require Import String.
From RU Require Import Base.Prelude Base.Utf8 Base.Utf8Facts Base.Outcome_c15 Model.AsciiSet Gen.Tables
  Model.PercentEncoding Model.HostT Model.Host Model.UrlRecord Model.Parser Model.Setters Model.WF Model.FormUrlencoded
  Model.QueryPairs
  Proofs.ListN Proofs.C02_Enc Proofs.C02_Parts Proofs.C02_Opaque Proofs.C02_Path Proofs.C02_PathL1 Proofs.C02_Reach
  Proofs.C02_AuthParts Proofs.C02_Auth Proofs.C02_AuthWf Proofs.C02_PathSp Proofs.C02_AuthSp Proofs.C02_AuthMain
  Proofs.C02_Hist Proofs.C02_SetQF Proofs.C02_Canon Proofs.C02_SetPort Proofs.C02_JoinTail Proofs.C02_ReachPartial
  Proofs.C02_Form Proofs.C02_SetCred Proofs.C02_SetCredCanon Proofs.C02_QPort Proofs.C08_AbsNonfile Proofs.C02_Reach3
  Proofs.C02_SetHostFrame Proofs.C02_SetHostCanon Proofs.C02_SetScheme Proofs.C02_PathSetter Proofs.C02_SetPath
  Proofs.C09_Host Proofs.C16_RT6Model Proofs.C02_HistInst Proofs.C02_Reach4 Proofs.C02_Stmt4 Proofs.C02_QHost
  Proofs.C02_SetHostNone Proofs.C02_SetPathNoAuth Proofs.C02_SetPathOpaque Proofs.C02_Reach5
  Proofs.C02_JoinAbs Proofs.C02_JoinPath Proofs.C02_Segments Proofs.C02_SegmentsCanon Proofs.C02_Reach6 Proofs.C02_Ovr
  Proofs.C02_Reach7 Proofs.C02_File Proofs.C02_FileL1 Proofs.C02_FileCanon Proofs.C02_FileParse Proofs.C02_FileSet
  Proofs.C02_FileHost.
Open Scope N_scope.
Open Scope list_scope.

(* the operations covered on file records: those that replace query or fragment only *)
Definition file_tail_op (o : op) : bool :=
  match o with OSetFragment _ | OSetQuery _ | OQSearch _ | OQHash _ => true | _ => false end.

Section ReachC7.
Variable dbg : bool.
Variable hp hpo : list N -> result host.
Variable hd : host -> list N.
Hypothesis HOK : HostOK2 hp hpo hd.
Hypothesis HNE : host_nonempty hp hpo.
Hypothesis HW : host_no_wdl hp hd.

Let HRT : HostRT hp hpo hd := proj1 HOK.
Let HAb : host_above hp hpo hd := proj1 (proj2 HOK).

Definition CanonF (u : url) : Prop := Canon hp hpo hd u \/ FileCanon hp hd u.

Inductive ReachC7 : url -> Prop :=
| RC7_parse ovr input u :                   (* = R4_parse: every parse result without a base *)
    usv_list input -> parse_url dbg hp hpo hd ovr None input = POk u ->
    Known_file_drive u = false -> ReachC7 u
| RC7_join_rel ovr b input u :
    ReachC7 b -> is_file b = false -> usv_list input -> rel_ref input = true ->
    parse_url dbg hp hpo hd ovr (Some b) input = POk u -> ReachC7 u
| RC7_join_scheme ovr b input u :
    ReachC7 b -> is_file b = false -> usv_list input -> nonfile_input input = true ->
    parse_url dbg hp hpo hd ovr (Some b) input = POk u -> ReachC7 u
| RC7_join_abs_any ovr b input u :
    Reachable4 dbg hp hpo hd b -> usv_list input -> abs_ref b input = true ->
    parse_url dbg hp hpo hd ovr (Some b) input = POk u -> ReachC7 u
| RC7_join_tail_file ovr b input u :        (* NEW: empty / fragment-only / query-led reference against a file base *)
    ReachC7 b -> is_file b = true -> usv_list input -> tail_ref input = true ->
    parse_url dbg hp hpo hd ovr (Some b) input = POk u -> ReachC7 u
| RC7_step u o u' :
    ReachC7 u -> is_file u = false -> op_args_ok o -> known_step3 dbg hp hpo hd u o = false ->
    apply_op dbg hp hpo hd u o = Some u' -> nlen (ser u') <= U32_MAX_P -> ReachC7 u'
| RC7_step_file u o u' :                    (* NEW: the query / fragment setters on a file record *)
    ReachC7 u -> is_file u = true -> file_tail_op o = true -> op_args_ok o ->
    apply_op dbg hp hpo hd u o = Some u' -> nlen (ser u') <= U32_MAX_P -> ReachC7 u'
| RC7_qpm u ops u' :                        (* file records included *)
    ReachC7 u -> Forall op_ok ops -> query_pairs_session dbg u ops = Some u' ->
    nlen (ser u') <= U32_MAX_P -> ReachC7 u'.

Lemma Canon_not_file u : Canon hp hpo hd u -> is_file u = false.
Proof.
  intros C. destruct (Canon_scheme_of hp hpo hd u C) as (sch & Es & Hf). unfold is_file. rewrite Es.
  destruct (list_eqb sch s_file) eqn:El; [|reflexivity].
  apply list_eqb_spec in El. rewrite El in Hf. vm_compute in Hf. discriminate Hf.
Qed.

Lemma CanonF_nonfile u : CanonF u -> is_file u = false -> Canon hp hpo hd u.
Proof. intros [C|C] H; [exact C|]. rewrite (FileCanon_is_file hp hd u C) in H. discriminate H. Qed.

Lemma CanonF_file u : CanonF u -> is_file u = true -> FileCanon hp hd u.
Proof. intros [C|C] H; [|exact C]. rewrite (Canon_not_file u C) in H. discriminate H. Qed.

Lemma CanonF_not_drive u : CanonF u -> Known_file_drive u = false.
Proof. intros [C|C]; [exact (Canon_not_file_drive hp hpo hd u C) | exact (FileCanon_not_drive hp hd u C)]. Qed.

Lemma search_arg_usv s : usv_list s -> usv_opt (match s with [] => None | 63 :: r => Some r | _ => Some s end).
Proof.
  intros H. destruct s as [|x r]; [exact I|].
  destruct (N.eq_dec x 63) as [->|Hn]; [apply usv_cons in H; exact (proj2 H)|].
  destruct x as [|p]; [exact H|]. repeat (destruct p as [p|p|]; try exact H). exfalso. apply Hn. reflexivity.
Qed.
Lemma hash_arg_usv s : usv_list s -> usv_opt (match s with [] => None | 35 :: r => Some r | _ => Some s end).
Proof.
  intros H. destruct s as [|x r]; [exact I|].
  destruct (N.eq_dec x 35) as [->|Hn]; [apply usv_cons in H; exact (proj2 H)|].
  destruct x as [|p]; [exact H|]. repeat (destruct p as [p|p|]; try exact H). exfalso. apply Hn. reflexivity.
Qed.

(* every parse result without a base, outside Known_file_drive, is of one of the five forms *)
Theorem parse_CanonF ovr input u : usv_list input ->
  parse_url dbg hp hpo hd ovr None input = POk u -> Known_file_drive u = false -> CanonF u.
Proof using HOK HNE HW HRT HAb.
  intros Hu Hp Hk. destruct (ref_trichotomy input) as [Hr | [Hn | Hf]].
  - exfalso. unfold rel_ref in Hr. unfold parse_url in Hp.
    destruct (parse_scheme CUrlParser (input_new_trim_c0 input)); [discriminate Hr | discriminate Hp].
  - left. exact (parse_Canon_g dbg hp hpo hd HRT HAb ovr input u Hu Hn Hp).
  - right. unfold file_input in Hf.
    destruct (parse_scheme CUrlParser (input_new_trim_c0 input)) as [[sch rem]|] eqn:Hs; [|discriminate Hf].
    destruct (scheme_type_of sch) eqn:Hst; try discriminate Hf.
    exact (parse_file_Canon5 dbg hp hpo hd HRT HAb (proj1 HNE) HW ovr input sch rem u Hu Hs Hst Hp Hk).
Qed.

Theorem step_file_CanonF u o u' : FileCanon hp hd u -> file_tail_op o = true -> op_args_ok o ->
  apply_op dbg hp hpo hd u o = Some u' -> nlen (ser u') <= U32_MAX_P -> FileCanon hp hd u'.
Proof using HOK HRT.
  intros C Ht Ha Ho Hb. destruct o; try discriminate Ht; cbn [apply_op op_args_ok] in *.
  - exact (set_fragment_File dbg hp hd u _ u' C Ha Ho Hb).
  - exact (set_query_File dbg hp hd u _ u' C Ha Ho Hb).
  - unfold q_set_search in Ho. exact (set_query_File dbg hp hd u _ u' C (search_arg_usv _ Ha) Ho Hb).
  - unfold q_set_hash in Ho. exact (set_fragment_File dbg hp hd u _ u' C (hash_arg_usv _ Ha) Ho Hb).
Qed.

Theorem ReachC7_CanonF u : ReachC7 u -> CanonF u.
Proof using HOK HNE HW HRT HAb.
  induction 1 as [ovr input u Hu Hp Hk | ovr b input u Hr IH Hf Hu Ht Hp | ovr b input u Hr IH Hf Hu Ht Hp
                 | ovr b input u Hr Hu Ht Hp | ovr b input u Hr IH Hf Hu Ht Hp
                 | u o u' Hr IH Hf Ha Hk Ho Hb | u o u' Hr IH Hf Ht Ha Ho Hb | u ops u' Hr IH Hops Hs Hb].
  - exact (parse_CanonF ovr input u Hu Hp Hk).
  - left. exact (join_rel_Canon_g dbg hp hpo hd HRT HAb ovr b input u (CanonF_nonfile b IH Hf) Hu Ht Hp).
  - left. exact (join_nonfile_Canon_g dbg hp hpo hd HRT HAb ovr b input u (CanonF_nonfile b IH Hf) Hu Ht Hp).
  - left. exact (join_abs_Canon_g dbg hp hpo hd HRT HAb ovr b input u Hu Ht Hp).
  - right. exact (join_tail_File dbg hp hpo hd ovr b input u (CanonF_file b IH Hf) Hu Ht Hp).
  - left. exact (canon_step_all dbg hp hpo hd HOK HNE u o u' (CanonF_nonfile u IH Hf) Ha Hk Ho Hb).
  - right. exact (step_file_CanonF u o u' (CanonF_file u IH Hf) Ht Ha Ho Hb).
  - destruct IH as [C|C].
    + left. exact (qpm_Canon dbg hp hpo hd HRT u ops u' C Hops Hs Hb).
    + right. exact (qpm_File dbg hp hpo hd HRT u ops u' C Hops Hs Hb).
Qed.

Theorem CanonF_fixpoint u : CanonF u -> Fixpoint_of_reparse dbg hp hpo hd u /\ wf_b u = true /\ ascii (ser u).
Proof using HOK HRT.
  intros [C|C]; [exact (Canon_fixpoint dbg hp hpo hd HRT u C) | exact (FileCanon_fixpoint dbg hp hpo hd HRT u C)].
Qed.

Theorem reach_partial7 u : ReachC7 u ->
  Fixpoint_of_reparse dbg hp hpo hd u /\ wf_b u = true /\ ascii (ser u).
Proof using HOK HNE HW HRT HAb. intros H. exact (CanonF_fixpoint u (ReachC7_CanonF u H)). Qed.

(* the file-record operations of RC7_step_file are in no known step class *)
Lemma file_tail_op_unknown u o : file_tail_op o = true -> known_step3 dbg hp hpo hd u o = false.
Proof.
  destruct o; try discriminate; intros _;
    unfold known_step3, known_step2, known_step, Known_F_C03_5, Known_F_C02_3, Known_F_C02_2, Known_F_C02_8, Known_F_C02_4,
      Known_F_C02_9, Known_F_C02_10;
    cbn [is_host_or_path_op andb orb]; rewrite andb_false_r; reflexivity.
Qed.

Theorem ReachC7_Reachable4 u : ReachC7 u -> Reachable4 dbg hp hpo hd u.
Proof using HOK HNE HW HRT HAb.
  intros H. pose proof (CanonF_not_drive u (ReachC7_CanonF u H)) as Hd. revert Hd.
  induction H as [ovr input u Hu Hp Hk | ovr b input u Hr IH Hf Hu Ht Hp | ovr b input u Hr IH Hf Hu Ht Hp
                 | ovr b input u Hr Hu Ht Hp | ovr b input u Hr IH Hf Hu Ht Hp
                 | u o u' Hr IH Hf Ha Hk Ho Hb | u o u' Hr IH Hf Ht Ha Ho Hb | u ops u' Hr IH Hops Hs Hb]; intros Hd.
  - exact (R4_parse dbg hp hpo hd ovr input u Hu Hp Hk).
  - exact (R4_join dbg hp hpo hd ovr b input u (IH (CanonF_not_drive b (ReachC7_CanonF b Hr))) Hu Hp Hd).
  - exact (R4_join dbg hp hpo hd ovr b input u (IH (CanonF_not_drive b (ReachC7_CanonF b Hr))) Hu Hp Hd).
  - exact (R4_join dbg hp hpo hd ovr b input u Hr Hu Hp Hd).
  - exact (R4_join dbg hp hpo hd ovr b input u (IH (CanonF_not_drive b (ReachC7_CanonF b Hr))) Hu Hp Hd).
  - exact (R4_step dbg hp hpo hd u o u' (IH (CanonF_not_drive u (ReachC7_CanonF u Hr))) Ha Hk Ho Hd).
  - exact (R4_step dbg hp hpo hd u o u' (IH (CanonF_not_drive u (ReachC7_CanonF u Hr))) Ha (file_tail_op_unknown u o Ht) Ho Hd).
  - exact (R4_qpm dbg hp hpo hd u ops u' (IH (CanonF_not_drive u (ReachC7_CanonF u Hr))) Hops Hs Hd).
Qed.

Theorem ReachC6_C7 u : ReachC6 dbg hp hpo hd u -> ReachC7 u.
Proof using HOK HNE HRT HAb.
  intros H. induction H as [ovr input u Hu Hn Hp | ovr b input u Hr IH Hu Ht Hp | ovr b input u Hr IH Hu Ht Hp
                           | ovr b input u Hr Hu Ht Hp | u o u' Hr IH Ha Hk Ho Hb | u ops u' Hr IH Hops Hs Hb].
  - apply (RC7_parse ovr input u Hu Hp). apply (Canon_not_file_drive hp hpo hd).
    exact (parse_Canon_g dbg hp hpo hd HRT HAb ovr input u Hu Hn Hp).
  - exact (RC7_join_rel ovr b input u IH (Canon_not_file b (ReachC6_Canon dbg hp hpo hd HOK HNE b Hr)) Hu Ht Hp).
  - exact (RC7_join_scheme ovr b input u IH (Canon_not_file b (ReachC6_Canon dbg hp hpo hd HOK HNE b Hr)) Hu Ht Hp).
  - exact (RC7_join_abs_any ovr b input u Hr Hu Ht Hp).
  - exact (RC7_step u o u' IH (Canon_not_file u (ReachC6_Canon dbg hp hpo hd HOK HNE u Hr)) Ha Hk Ho Hb).
  - exact (RC7_qpm u ops u' IH Hops Hs Hb).
Qed.
End ReachC7.

Theorem reach_partial7_model dbg idna : IdnaOK idna -> forall u,
  ReachC7 dbg (host_parse idna) host_parse_opaque host_display u ->
  Fixpoint_of_reparse dbg (host_parse idna) host_parse_opaque host_display u /\ wf_b u = true /\ ascii (ser u).
Proof.
  intros OK u. exact (reach_partial7 dbg _ _ _ (HostOK2_model idna OK) (host_nonempty_model idna) (host_no_wdl_model idna OK) u).
Qed.

(* ================= non-vacuity, on the host model (idna_clean) ================= *)
Definition m_parse (s : string) : option url :=
  match parse_url true mhp host_parse_opaque host_display None None (B s) with POk u => Some u | _ => None end.
Definition m_ok (o : option url) (expect : string) : bool :=
  match o with
  | Some u => list_eqb (ser u) (B expect) && m_fix u && is_file u && negb (Known_file_drive u)
  | None => false
  end.

(* the three entries of parse_file (two slashes with a host, with "localhost", without a host; one slash; no slash),
   dot segments and back-slashes in a file path; setters and a tail join on file records *)
Example reach7_example :
  m_ok (m_parse "file://h.x/a/../b c?q#f") "file://h.x/b%20c?q#f" = true
  /\ m_ok (m_parse "file://localhost/x\y") "file:///x/y" = true
  /\ m_ok (m_parse "file:////x") "file:///x" = true
  /\ m_ok (m_parse "file:/x/./y") "file:///x/y" = true
  /\ m_ok (m_parse "file:x") "file:///x" = true
  /\ m_ok (m_hist "file:///a/b" [OSetFragment (Some (B "z")); OSetQuery (Some (B "k v")); OQHash (B "#w")]) "file:///a/b?k%20v#w" = true
  /\ m_ok (m_join "file://h.x/a/b?q#f" "?k") "file://h.x/a/b?k" = true
  /\ m_ok (m_join "file://h.x/a/b?q#f" "#g") "file://h.x/a/b?q#g" = true
  /\ tail_ref (B "?k") && file_tail_op (OQHash (B "#w")) && file_input (B "file:x") = true.
Proof. vm_compute. repeat split. Qed.
