(* Proofs/C05_CompSteps.v - the component clauses as an invariant of the mutators.
   comp_ok dbg u: the five clauses of Proofs/C05_Comp.v with the path clause in the form
   "a stored path that starts with '/' is free of D_PATH" - a statement about the stored path alone;
   on a well-formed record it gives the clause of the property text (comp_ok_components).
   CInv dbg u = wf_b u /\ host_text_ok u /\ comp_ok dbg u is preserved by every Url setter outside the
   known classes (step lemmas below; the frame and invariant parts are C06's). *)
From RU Require Import Base.Prelude Base.Utf8 Model.AsciiSet Gen.Tables Model.PercentEncoding
  Model.HostT Model.UrlRecord Model.Parser Model.Setters Model.WF
  Proofs.ListN Proofs.C03_WF Proofs.C05_Enc Proofs.C05_Parser Proofs.C05_Setters Proofs.C05_Frag Proofs.C05_Query
  Proofs.C05_Comp Proofs.C05_PathClean
  Proofs.C06_List Proofs.C06_WFI Proofs.C06_Tail Proofs.C06_Steps Proofs.C06_Suffix
  Proofs.C06_Front Proofs.C06_Atomic Proofs.C06_FragQuery Proofs.C06_Port Proofs.C06_Cred Proofs.C06_Scheme
  Proofs.C06_HostNone Proofs.C06_Host Proofs.C06_PathParser Proofs.C06_Path Proofs.C06_Segments Proofs.C06_PathNoAuth
  Proofs.C06_Main Proofs.C06_PathMore.

Definition comp_ok (dbg : bool) (u : url) : Prop :=
  (forall un, username dbg u = Some un -> free D_USERINFO un)
  /\ (forall pw, password dbg u = Some (Some pw) -> free D_USERINFO pw)
  /\ (forall p r, path u = Some p -> p = 47 :: r -> free D_PATH p)
  /\ (forall q, query dbg u = Some (Some q) -> free D_QUERY q)
  /\ (forall f, fragment dbg u = Some (Some f) -> free D_FRAGMENT f).

Definition CInv (dbg : bool) (u : url) : Prop := wfh u /\ comp_ok dbg u.

(* a path that is not opaque is empty or starts with '/' *)
Lemma hier_path_head u p : wf_b u = true -> cannot_be_a_base u = Some false -> path u = Some p ->
  p = [] \/ exists r, p = 47 :: r.
Proof.
  intros W C Hp. rewrite (cannot_be_a_base_eval u W) in C. inversion C as [C1]. apply negb_false_iff in C1.
  rewrite (path_eval u W) in Hp. inversion Hp as [Hp1]. unfold piece. cbn [pidx].
  change (match query_start u with Some q => q | None => match fragment_start u with Some f => f | None => nlen (ser u) end end)
    with (path_end u).
  destruct (wf_ps_le_path_end u W) as [B1 B2].
  assert (path_end u = path_start u \/ byte_eqb (ser u) (path_start u) 47 = true) as [E|E].
  { destruct (path_layouts u W) as [Ha|[(Ha & Hs & E)|[Ho|M]]].
    - apply (auth_path_head u W Ha).
    - right. rewrite E. exact Hs.
    - unfold is_opaque_b in Ho. rewrite C1 in Ho. discriminate.
    - right. apply (marker_heads u W M). }
  - left. rewrite E, N.sub_diag. reflexivity.
  - right. apply byte_eqb_nnth in E. pose proof (nnth_lt _ _ _ E).
    destruct (N.eq_dec (path_end u) (path_start u)) as [X|X].
    + (* empty path: the byte at path_start is '?' / '#', not '/' *)
      exfalso. pose proof (wf_qf_facts u W) as QF. pose proof (qf_q QF) as Q1. pose proof (qf_f QF) as Q2.
      unfold path_end in X. destruct (query_start u) as [q|].
      * destruct Q1 as (_ & Qb & _). apply byte_eqb_nnth in Qb. rewrite X in Qb. congruence.
      * destruct (fragment_start u) as [f|]; [|lia].
        destruct Q2 as (_ & Qb & _). apply byte_eqb_nnth in Qb. rewrite X in Qb. congruence.
    + rewrite (nskipn_cons_of_nnth _ _ _ E).
      replace (path_end u - path_start u) with (1 + (path_end u - path_start u - 1)) by lia.
      unfold nfirstn. rewrite N2Nat.inj_add. cbn [N.to_nat Pos.to_nat Pos.iter_op Nat.add firstn]. eexists. reflexivity.
Qed.

Theorem comp_ok_components dbg u : wf_b u = true -> comp_ok dbg u -> components_clean dbg u.
Proof.
  intros W (A & B & C & D & E). split; [exact A|]. split; [exact B|]. split; [|split; assumption].
  intros Hc p Hp. destruct (hier_path_head u p W Hc Hp) as [->|(r & Hr)]; [apply free_nil|].
  exact (C p r Hp Hr).
Qed.

(* every getter reads the same *)
Lemma comp_ok_same dbg u u' : username dbg u' = username dbg u -> password dbg u' = password dbg u ->
  path u' = path u -> query dbg u' = query dbg u -> fragment dbg u' = fragment dbg u ->
  comp_ok dbg u -> comp_ok dbg u'.
Proof.
  intros E1 E2 E3 E4 E5 (A & B & C & D & E). unfold comp_ok. rewrite E1, E2, E3, E4, E5. repeat split; assumption.
Qed.

(* ---------- texts the setters write ---------- *)
Lemma userinfo_enc_free t : free D_USERINFO (userinfo_enc t).
Proof.
  apply comp_clean_free. unfold userinfo_enc.
  apply pe_display_clean; [apply T_USERINFO_facts | apply T_USERINFO_facts | reflexivity].
Qed.

Lemma tnl_loop_clean set D : (forall xs, comp_clean D (pe_display set xs)) ->
  forall l ser pr, exists t, tnl_loop set ser pr l = ser ++ t /\ comp_clean D t.
Proof.
  intros Hc. induction l as [|c r IH]; intros ser pr; cbn [tnl_loop].
  - destruct pr; [exists []; rewrite app_nil_r; split; [reflexivity | apply comp_clean_nil]|].
    unfold flush_part. eexists; split; [reflexivity | apply Hc].
  - destruct (is_tnl c); [|apply IH].
    destruct (IH (flush_part set utf8_encode ser pr) []) as [t [Ht Hok]]. rewrite Ht. unfold flush_part.
    rewrite <- app_assoc. eexists; split; [reflexivity|]. apply comp_clean_app; [apply Hc | exact Hok].
Qed.

Lemma query_text_free u x : free D_QUERY (query_text u x).
Proof.
  unfold query_text, tnl_text.
  destruct (tnl_loop_clean _ D_QUERY (query_piece_clean (scheme_type_of (nfirstn (scheme_end u) (ser u))))
              (input_new_trim_tnl x) [] []) as (t & E & Hc).
  rewrite E. apply comp_clean_free. exact Hc.
Qed.

Lemma fragment_text_free x : free D_FRAGMENT (tnl_text T_FRAGMENT x).
Proof.
  unfold tnl_text. destruct (tnl_loop_clean T_FRAGMENT D_FRAGMENT fragment_piece_clean x [] []) as (t & E & Hc).
  rewrite E. apply comp_clean_free. exact Hc.
Qed.

(* the opaque-path space stripping: the stripped path is a prefix of the old one *)
Lemma drop_while_suffix f (l : list N) : exists y, l = y ++ drop_while f l.
Proof.
  induction l as [|c r IH]; [exists []; reflexivity|]. cbn [drop_while]. destruct (f c); [|exists []; reflexivity].
  destruct IH as (y & E). exists (c :: y). cbn [app]. f_equal. exact E.
Qed.

Lemma rstrip_prefix f l : exists t, l = rstrip f l ++ t.
Proof.
  unfold rstrip. destruct (drop_while_suffix f (rev l)) as (y & E). exists (rev y).
  rewrite <- rev_app_distr, <- E. symmetry. apply rev_involutive.
Qed.

Lemma path_clause_prefix (p p' t : list N) : p = p' ++ t ->
  (forall r, p = 47 :: r -> free D_PATH p) -> forall r, p' = 47 :: r -> free D_PATH p'.
Proof.
  intros E H r Hr. rewrite Hr in E. cbn [app] in E. apply (free_incl _ _ p); [|exact (H _ E)].
  rewrite E, Hr. intros x Hx. change (47 :: r ++ t) with ((47 :: r) ++ t). apply in_or_app. left. exact Hx.
Qed.

Section Steps.
Variable dbg : bool.
Variable hp hpo : list N -> result host.
Variable hd : host -> list N.

(* ---------- fragment / query ---------- *)
Lemma path_clause_strip (strip : bool) u u' :
  (if strip then exists p, path u = Some p /\ path u' = Some (rstrip (fun c => c =? 32) p) else path u' = path u) ->
  (forall p r, path u = Some p -> p = 47 :: r -> free D_PATH p) ->
  forall p r, path u' = Some p -> p = 47 :: r -> free D_PATH p.
Proof.
  intros H C p r Hp Hr. destruct strip.
  - destruct H as (p0 & E0 & E1). rewrite E1 in Hp. injection Hp as Ep. rewrite <- Ep in Hr. rewrite <- Ep.
    destruct (rstrip_prefix (fun c => c =? 32) p0) as (t & Et).
    exact (path_clause_prefix p0 _ t Et (fun r0 => C p0 r0 E0) r Hr).
  - rewrite H in Hp. exact (C p r Hp Hr).
Qed.

Theorem set_fragment_cinv u f u' : CInv dbg u -> set_fragment dbg u f = Some u' -> CInv dbg u'.
Proof.
  intros [[W HT] (A & B & C & D & E)] H. split; [exact (set_fragment_wfh dbg u f u' (conj W HT) H)|].
  destruct (set_fragment_ok dbg u f W) as (u'' & E' & W' & (_ & S2 & S3 & _) & _ & Q & F & P).
  rewrite H in E'. inversion E'; subst u''. unfold comp_ok. rewrite S2, S3, Q, F.
  split; [exact A|]. split; [exact B|]. split; [|split; [exact D|]].
  - destruct f; [rewrite P; exact C|].
    apply (path_clause_strip (opaque_strip_applies u) u u'); [|exact C].
    destruct (opaque_strip_applies u); exact P.
  - intros x Hx. destruct f as [t|]; inversion Hx; subst. apply fragment_text_free.
Qed.

Theorem set_query_cinv u q u' : CInv dbg u -> str_arg_ok q -> set_query dbg u q = Some u' -> CInv dbg u'.
Proof.
  intros [[W HT] (A & B & C & D & E)] Hq H. split; [exact (set_query_wfh dbg u q u' (conj W HT) Hq H)|].
  destruct (set_query_ok dbg u q W Hq) as (u'' & E' & W' & (_ & S2 & S3 & _) & _ & F & Q & P).
  rewrite H in E'. inversion E'; subst u''. unfold comp_ok. rewrite S2, S3, Q, F.
  split; [exact A|]. split; [exact B|]. split; [|split; [|exact E]].
  - destruct q; [rewrite P; exact C|].
    apply (path_clause_strip (is_opaque_b u && negb (has_some (fragment_start u))) u u'); [|exact C].
    destruct (is_opaque_b u && negb (has_some (fragment_start u))); exact P.
  - intros x Hx. destruct q as [t|]; inversion Hx; subst. apply query_text_free.
Qed.

(* ---------- port / password / username / scheme ---------- *)
Theorem set_port_cinv u p u' st : CInv dbg u -> port_arg_ok p -> set_port dbg u p = Some (u', st) -> CInv dbg u'.
Proof.
  intros [[W HT] K] Hp H. destruct (set_port_ok dbg u p W HT Hp) as (u'' & st' & E' & Herr & Hok).
  rewrite H in E'. inversion E'; subst u'' st'.
  destruct st; [|rewrite Herr by discriminate; split; [split|]; assumption ..].
  destruct (Hok eq_refl) as (W' & HT' & (_ & I2 & I3 & _) & (B1 & B2 & B3) & _).
  split; [split; assumption|]. exact (comp_ok_same dbg u u' I2 I3 B1 B2 B3 K).
Qed.

Theorem set_password_cinv u pw u' st : CInv dbg u -> set_password dbg u pw = Some (u', st) -> CInv dbg u'.
Proof.
  intros [[W HT] K] H. destruct (set_password_ok dbg u pw W HT) as (u'' & st' & E' & Herr & Hok).
  rewrite H in E'. inversion E'; subst u'' st'.
  destruct st; [|rewrite Herr by discriminate; split; [split|]; assumption ..].
  destruct (Hok eq_refl) as (W' & HT' & _ & Un & _ & _ & (B1 & B2 & B3) & Pw).
  split; [split; assumption|]. destruct K as (A & B & C & D & E). unfold comp_ok. rewrite Un, B1, B2, B3, Pw.
  split; [exact A|]. split; [|split; [exact C | split; assumption]].
  intros x Hx. destruct pw as [[|c r]|]; inversion Hx; subst. apply userinfo_enc_free.
Qed.

Theorem set_username_cinv u un u' st : CInv dbg u -> set_username dbg u un = Some (u', st) -> CInv dbg u'.
Proof.
  intros [[W HT] K] H. destruct (set_username_ok dbg u un W HT) as (u'' & st' & E' & Herr & Hok).
  rewrite H in E'. inversion E'; subst u'' st'.
  destruct st; [|rewrite Herr by discriminate; split; [split|]; assumption ..].
  destruct (Hok eq_refl) as (W' & HT' & _ & Pw & _ & _ & (B1 & B2 & B3) & (cur & Ec & Un)).
  split; [split; assumption|]. destruct K as (A & B & C & D & E). unfold comp_ok. rewrite Pw, B1, B2, B3, Un.
  split; [|split; [exact B | split; [exact C | split; assumption]]].
  intros x Hx. inversion Hx; subst. destruct (list_eqb cur (utf8_encode un)); [exact (A cur Ec) | apply userinfo_enc_free].
Qed.

Theorem set_scheme_cinv u s u' st : CInv dbg u -> set_scheme dbg u s = Some (u', st) -> CInv dbg u'.
Proof.
  intros [[W HT] K] H. destruct (set_scheme_ok dbg u s W HT) as (u'' & st' & E' & Herr & Hok).
  rewrite H in E'. inversion E'; subst u'' st'.
  destruct st; [|rewrite Herr by discriminate; split; [split|]; assumption ..].
  destruct (Hok eq_refl) as (new & rem & _ & W' & HT' & _ & Un & Pw & _ & (B1 & B2 & B3) & _).
  split; [split; assumption|]. exact (comp_ok_same dbg u u' Un Pw B1 B2 B3 K).
Qed.

(* ---------- host ---------- *)
(* set_host(None), outside F-C06-5 / F-C02-2 *)
Theorem set_host_none_cinv u u' st : CInv dbg u ->
  (has_host u = true -> path_empty_at_end u = false /\ path_starts_with_2slash u = false) ->
  set_host dbg hp hpo hd u None = Some (u', st) -> CInv dbg u'.
Proof.
  intros [[W HT] K] G H. destruct (set_host_none_ok dbg hp hpo hd u u' st W H) as (Herr & Hno & Hok).
  destruct st; [|rewrite Herr by discriminate; split; [split|]; assumption ..].
  destruct (has_host u) eqn:Hh; [|rewrite (Hno eq_refl eq_refl); split; [split|]; assumption].
  destruct (G eq_refl) as [G1 G2].
  destruct (Hok eq_refl eq_refl G1 G2) as (W' & HT' & _ & (B1 & B2 & B3) & Un & Pw & _).
  split; [split; assumption|]. destruct K as (A & B & C & D & E). unfold comp_ok. rewrite Un, Pw, B1, B2, B3.
  split; [intros x Hx; inversion Hx; apply free_nil|]. split; [intros x Hx; discriminate|].
  split; [exact C | split; assumption].
Qed.

Lemma host_set_post_cinv u u' h : comp_ok dbg u -> host_set_post dbg hd u u' h -> CInv dbg u'.
Proof.
  intros K (W' & HT' & _ & Un & Pw & _ & (B1 & B2 & B3) & _). split; [split; assumption|].
  exact (comp_ok_same dbg u u' Un Pw B1 B2 B3 K).
Qed.

(* set_ip_host, outside F-C02-4 (empty host with a port) and F-C03-5 (marker) *)
Theorem set_ip_host_cinv u h u' st : CInv dbg u -> host_disp_ok hd h ->
  (has_authority_b u = false -> path_start u = scheme_end u + 1) ->
  (has_authority_b u = true -> hi_of_host h = HI_None -> port u = None) ->
  set_ip_host dbg hd u h = Some (u', st) -> CInv dbg u'.
Proof.
  intros [[W HT] K] Hd X2 X1 H. destruct (set_ip_host_ok dbg hd u h u' st W Hd X2 H) as (Herr & Hok).
  destruct st; [|rewrite Herr by discriminate; split; [split|]; assumption ..].
  exact (host_set_post_cinv u u' h K (Hok eq_refl X1)).
Qed.

Lemma set_host_internal_hosti u h onp u' : set_host_internal dbg hd u h onp = Some u' -> hosti u' = hi_of_host h.
Proof.
  unfold set_host_internal. intros H. cbv zeta in H. ob H suffix Hsuf. ob H ha Hha. ob H a Ha. destruct a as [[s1 ue] hs].
  destruct onp as [np|].
  - destruct np as [p|]; cbv beta iota zeta in H; ob H ps Hps; ob H qs Hq; ob H fs Hf; inversion H; reflexivity.
  - cbv beta iota zeta in H. ob H ps Hps. ob H qs Hq. ob H fs Hf. inversion H. reflexivity.
Qed.

(* set_host(Some _): the exclusion of F-C02-4 stated on the RESULT (an empty new host while a port is stored) *)
Theorem set_host_some_cinv u x u' st : CInv dbg u -> (forall h, host_disp_ok hd h) ->
  (has_authority_b u = false -> path_start u = scheme_end u + 1) ->
  (has_authority_b u = true -> hosti u' = HI_None -> port u = None) ->
  set_host dbg hp hpo hd u (Some x) = Some (u', st) -> CInv dbg u'.
Proof.
  intros [[W HT] K] Hd X2 X1 H.
  destruct st; [|rewrite (set_host_atomic dbg hp hpo hd u (Some x) u' _ H) by discriminate; split; [split|]; assumption ..].
  unfold set_host in H. rewrite (cannot_be_a_base_eval u W) in H. cbn [bindo] in H.
  destruct (byte_eqb (ser u) (scheme_end u + 1) 47) eqn:Hsl; cbn [negb] in H; [|discriminate].
  unfold u_scheme_type in H. rewrite (scheme_eval u W) in H. cbn [bindo] in H.
  match type of H with (if ?c then _ else _) = _ => destruct c end; [discriminate|].
  match type of H with (match ?sub with Some _ => _ | None => _ end) = _ => destruct sub as [hsub|] end; [|discriminate].
  match type of H with (match ?r with Ok _ => _ | Err _ => _ end) = _ => destruct r as [host|e] end; [|discriminate].
  destruct (set_host_internal dbg hd u host None) as [u0|] eqn:E; cbn [bindo] in H; [|discriminate].
  inversion H; subst u0. pose proof (set_host_internal_hosti u host None u' E) as Hi.
  apply (host_set_post_cinv u u' host K).
  apply (set_host_internal_post dbg hd u host u' W (Hd host)); [|exact X2 | exact Hsl | exact E].
  intros Ha Hn. apply X1; [exact Ha | rewrite Hi; exact Hn].
Qed.

End Steps.

(* ---------- path ---------- *)
Section PathSteps.
Variable dbg : bool.
(* the exclusions, on the record before and after: F-C02-8 (no marker, result starts with "//"),
   F-C03-5 (marker, result does not start with "//"); nothing for an authority or an opaque path
   (F-C06-6 is repaired: an opaque path stays opaque) *)
Definition path_gate (u u' : url) : Prop :=
  if has_authority_b u then True
  else if is_opaque_b u then True
  else path_starts_with_2slash u' = (path_start u =? scheme_end u + 3).

Lemma pq_new_path dbg0 st s0 p P hh rem :
  parse_path_start dbg0 CSetter st true s0 p = POk (s0 ++ P, hh, rem) -> free D_PATH P.
Proof.
  intros H. destruct (parse_path_start_clean _ _ _ _ _ _ _ _ _ H) as (P' & E & HP).
  apply app_inv_head in E. subst P'. intros d Hd. exact (pq_free P HP d Hd).
Qed.

Lemma path_result_cinv u u' P : comp_ok dbg u -> path_result dbg u u' P ->
  (forall r, P = 47 :: r -> free D_PATH P) -> CInv dbg u'.
Proof.
  intros (A & B & C & D & E) (W' & HT' & (_ & S2 & S3 & _) & Q & F & Pp) HP. split; [split; assumption|].
  unfold comp_ok. rewrite S2, S3, Q, F, Pp. split; [exact A|]. split; [exact B|]. split; [|split; assumption].
  intros p r Hp Hr. injection Hp as Ep. rewrite <- Ep in Hr. rewrite <- Ep. exact (HP r Hr).
Qed.

Theorem set_path_cinv u p u' : CInv dbg u -> usv_list p -> auth_end_ok u ->
  (is_opaque_b u = true -> forallb no_qh p = true) -> path_gate u u' ->
  set_path dbg u p = Some u' -> CInv dbg u'.
Proof.
  intros [[W HT] K] Hp Hx Hq G H. unfold path_gate in G.
  destruct (path_layouts u W) as [Ha|[NA|[Ho|M]]].
  - (* authority *)
    destruct (set_path_ok dbg u p u' W HT Ha Hp Hx H) as (W' & HT' & SF & Q & F & (P & Pp & _ & (hh & rem & Epp))).
    apply (path_result_cinv u u' P K); [exact (conj W' (conj HT' (conj SF (conj Q (conj F Pp)))))|]. intros r _. exact (pq_new_path _ _ _ _ _ _ _ Epp).
  - (* '/'-led path, no authority, no marker *)
    pose proof NA as (Ha & Hsl & Hnm). rewrite Ha in G.
    assert (is_opaque_b u = false) as Ho by (unfold is_opaque_b; rewrite Hsl; reflexivity). rewrite Ho in G.
    replace (path_start u =? scheme_end u + 3) with false in G by lia.
    destruct (set_path_eval dbg u p u' W Hsl Hp Hx H) as (P & hh & rem & -> & HP & Epp).
    apply (path_result_cinv u _ P K); [|intros r _; exact (pq_new_path _ _ _ _ _ _ _ Epp)].
    exact (proj1 (plain_result dbg u P W Ha Hnm (proj1 HP)) G).
  - (* opaque path: stays opaque, so the path clause says nothing *)
    destruct (set_path_opaque_ok dbg u p u' W Ho Hp (Hq Ho) H) as (W' & HT' & SF & Q & F & Ho' & (P & Pp & _)).
    apply (path_result_cinv u u' P K); [exact (conj W' (conj HT' (conj SF (conj Q (conj F Pp)))))|].
    intros r Hr. exfalso. subst P. unfold is_opaque_b in Ho'. apply negb_true_iff in Ho'.
    destruct (opaque_path_start u' W' Ho') as [Ha' Eps']. rewrite (path_eval u' W') in Pp. inversion Pp as [Pp1].
    unfold piece in Pp1. cbn [pidx] in Pp1. unfold nfirstn in Pp1.
    assert (nnth (nskipn (path_start u') (ser u')) 0 = Some 47) as Hn.
    { destruct (nskipn (path_start u') (ser u')) as [|c t]; [rewrite firstn_nil in Pp1; discriminate|].
      destruct (N.to_nat _); [discriminate|]. cbn [firstn] in Pp1. inversion Pp1. reflexivity. }
    rewrite nnth_nskipn, N.add_0_r, Eps' in Hn. unfold byte_eqb in Ho'. rewrite Hn in Ho'. discriminate.
  - (* marker *)
    pose proof M as [Ha Em]. destruct (marker_heads u W M) as (Hsl & _ & _). rewrite Ha in G.
    assert (is_opaque_b u = false) as Ho by (unfold is_opaque_b; rewrite Hsl; reflexivity). rewrite Ho in G.
    replace (path_start u =? scheme_end u + 3) with true in G by lia.
    destruct (set_path_eval dbg u p u' W Hsl Hp Hx H) as (P & hh & rem & -> & HP & Epp).
    apply (path_result_cinv u _ P K); [|intros r _; exact (pq_new_path _ _ _ _ _ _ _ Epp)].
    exact (proj1 (marker_result dbg u P W Ha Em (proj1 HP)) G).
Qed.

End PathSteps.
