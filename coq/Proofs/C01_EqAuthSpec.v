(* Proofs/C01_EqAuthSpec.v - specification side of the C01 equivalence for "scheme://authority..." with a
   non-special scheme: what the authority state (buffer, atSignSeen, passwordTokenSeen), the host
   state (insideBrackets), the port state and the path start state of Spec/Whatwg.v compute on ANY
   text after "//", as functions of that text (`sauth`), and the proof that the state machine
   computes exactly that. *)
From RU Require Import Base.Prelude Base.Utf8 Spec.Whatwg Proofs.C01_EqRun Proofs.C01_EqPathSpec.

(* ================= the text after "//", cut as the states of the Standard cut it ================= *)
(* end of the authority for a URL that is not special: '/', '?', '#' (or the end of the text) *)
Definition is_ae (c : N) : bool := (c =? 47) || (c =? 63) || (c =? 35).
Definition starts_ae (t : list N) : bool := match t with [] => true | c :: _ => is_ae c end.

Fixpoint a_part (t : list N) : list N :=
  match t with [] => [] | c :: r => if is_ae c then [] else c :: a_part r end.
Fixpoint a_rest (t : list N) : list N :=
  match t with [] => [] | c :: r => if is_ae c then t else a_rest r end.

(* cut at the LAST '@' *)
Fixpoint last_at (t : list N) : option (list N * list N) :=
  match t with
  | [] => None
  | c :: r => match last_at r with
              | Some (w, h) => Some (c :: w, h)
              | None => if c =? 64 then Some ([], r) else None
              end
  end.

(* (text in front of the last '@' of the authority, if any; text after it up to the end of the input) *)
Definition after_at (T : list N) : option (list N) * list N :=
  match last_at (a_part T) with
  | Some (w, h) => (Some w, h ++ a_rest T)
  | None => (None, T)
  end.

(* host state: up to the first ':' outside brackets or the end of the authority *)
Definition br_next (br : bool) (c : N) : bool := if c =? 91 then true else if c =? 93 then false else br.
Definition hs_stop (br : bool) (c : N) : bool := ((c =? 58) && negb br) || is_ae c.
Fixpoint hs_host (br : bool) (t : list N) : list N :=
  match t with
  | [] => []
  | c :: r => if hs_stop br c then [] else c :: hs_host (br_next br c) r
  end.
Fixpoint hs_rest (br : bool) (t : list N) : list N :=
  match t with
  | [] => []
  | c :: r => if hs_stop br c then t else hs_rest (br_next br c) r
  end.
(* the text after the ':' that ends the host, if that is what ends it *)
Definition port_split (X : list N) : option (list N) :=
  match X with c :: r => if c =? 58 then Some r else None | [] => None end.

(* port state: the digits, and what follows them *)
Fixpoint digits_of (t : list N) : list N :=
  match t with [] => [] | c :: r => if is_digit c then c :: digits_of r else [] end.
Fixpoint after_digits (t : list N) : list N :=
  match t with [] => [] | c :: r => if is_digit c then after_digits r else t end.

(* credentials: the first ':' splits *)
Fixpoint cr_user (w : list N) : list N :=
  match w with [] => [] | c :: r => if c =? 58 then [] else c :: cr_user r end.
Fixpoint cr_pass (w : list N) : list N :=
  match w with [] => [] | c :: r => if c =? 58 then r else cr_pass r end.

Definition is_nil {A} (l : list A) : bool := match l with [] => true | _ => false end.

(* ================= what the states compute ================= *)
Definition cred_of (W : option (list N)) (u : spec_url) : spec_url :=
  match W with Some w => snd (authority_credentials w false u) | None => u end.

(* path start state and what follows it, on a text that is empty or starts with '/', '?' or '#' *)
Definition sauth_tail (u : spec_url) (X : list N) : spec_url :=
  match X with
  | c :: r => if c =? 47 then tail_url (set_path u (SPList (fst (spath r [] [])))) (snd (spath r [] []))
              else tail_url u X
  | [] => u
  end.

Section SAuth.
Variable shp : bool -> list N -> option spec_host.

(* port state on the text PR after "host:"; None = failure *)
Definition sauth_port (u : spec_url) (PR : list N) : option spec_url :=
  let d := digits_of PR in
  let X := after_digits PR in
  if negb (starts_ae X) then None
  else if is_nil d then Some (sauth_tail u X)
  else if 65535 <? decimal_value d then None
  else Some (sauth_tail (set_port u (Some (decimal_value d))) X).

(* host state on the text HR after the credentials *)
Definition sauth_host (u : spec_url) (HR : list N) : option spec_url :=
  let Hh := hs_host false HR in
  match port_split (hs_rest false HR) with
  | Some PR =>
      if is_nil Hh then None else
      match host_parsing shp true Hh with
      | None => None
      | Some sh => sauth_port (set_host u (Some sh)) PR
      end
  | None =>
      match host_parsing shp true Hh with
      | None => None
      | Some sh => Some (sauth_tail (set_host u (Some sh)) (hs_rest false HR))
      end
  end.

(* the text T after "scheme://"; None = failure *)
Definition sauth (sch T : list N) : option spec_url :=
  let '(W, HR) := after_at T in
  if opt_is_some W && starts_ae HR then None
  else sauth_host (cred_of W (set_scheme empty_url sch)) HR.

End SAuth.

(* ---------- the pieces of a text the class recogniser looks at ---------- *)
(* the string the host parser is applied to (if the states get that far) *)
Definition auth_host_text (T : list N) : list N := hs_host false (snd (after_at T)).
(* the text the path start state sees (if the states get that far) *)
Definition auth_path_text (T : list N) : list N :=
  match port_split (hs_rest false (snd (after_at T))) with
  | Some PR => after_digits PR
  | None => hs_rest false (snd (after_at T))
  end.
(* a valid port number directly followed by '\' *)
Definition auth_port_bslash (T : list N) : bool :=
  match port_split (hs_rest false (snd (after_at T))) with
  | Some PR => (decimal_value (digits_of PR) <=? 65535) && starts_with_cp 92 (after_digits PR)
  | None => false
  end.

(* ================= elementary facts about the cuts ================= *)
Lemma a_part_rest t : a_part t ++ a_rest t = t.
Proof. induction t as [|c r IH]; [reflexivity|]. cbn [a_part a_rest]. destruct (is_ae c); [reflexivity|]. cbn [app]. rewrite IH. reflexivity. Qed.

Lemma a_rest_starts t : starts_ae (a_rest t) = true.
Proof. induction t as [|c r IH]; [reflexivity|]. cbn [a_rest]. destruct (is_ae c) eqn:E; [exact E | exact IH]. Qed.

Lemma a_part_no_ae t : forallb (fun c => negb (is_ae c)) (a_part t) = true.
Proof. induction t as [|c r IH]; [reflexivity|]. cbn [a_part]. destruct (is_ae c) eqn:E; [reflexivity|]. cbn [forallb]. rewrite E, IH. reflexivity. Qed.

Lemma last_at_split A w h : last_at A = Some (w, h) -> A = w ++ 64 :: h.
Proof.
  revert w h. induction A as [|c r IH]; intros w h H; [discriminate|]. cbn [last_at] in H.
  destruct (last_at r) as [[w' h']|].
  - inversion H; subst. cbn [app]. rewrite (IH w' h eq_refl). reflexivity.
  - destruct (c =? 64) eqn:E; [|discriminate]. inversion H; subst. apply N.eqb_eq in E. subst c. reflexivity.
Qed.

Lemma last_at_none_no_at A : last_at A = None -> forallb (fun c => negb (c =? 64)) A = true.
Proof.
  induction A as [|c r IH]; intros H; [reflexivity|]. cbn [last_at] in H.
  destruct (last_at r) as [[w' h']|]; [discriminate|]. destruct (c =? 64) eqn:E; [discriminate|].
  cbn [forallb]. rewrite E, (IH eq_refl). reflexivity.
Qed.

Lemma last_at_tail_no_at A w h : last_at A = Some (w, h) -> forallb (fun c => negb (c =? 64)) h = true.
Proof.
  revert w h. induction A as [|c r IH]; intros w h H; [discriminate|]. cbn [last_at] in H.
  destruct (last_at r) as [[w' h']|] eqn:E.
  - inversion H; subst. exact (IH w' h eq_refl).
  - destruct (c =? 64); [|discriminate]. inversion H; subst. apply last_at_none_no_at. exact E.
Qed.

Lemma starts_ae_app h t : forallb (fun c => negb (is_ae c)) h = true -> starts_ae t = true ->
  starts_ae (h ++ t) = is_nil h.
Proof.
  intros H1 H2. destruct h as [|c r]; [exact H2|]. cbn [app starts_ae is_nil].
  cbn [forallb] in H1. apply andb_true_iff in H1. destruct H1 as [H1 _]. apply negb_true_iff in H1. exact H1.
Qed.

Lemma firstn_len_sub {A} (p s : list A) : firstn (length (p ++ s) - length s) (p ++ s) = p.
Proof.
  rewrite app_length. replace (length p + length s - length s)%nat with (length p) by lia.
  rewrite firstn_app, Nat.sub_diag, firstn_all. cbn [firstn]. apply app_nil_r.
Qed.

Lemma list_eqb_nil l : list_eqb l [] = is_nil l.
Proof. destruct l; reflexivity. Qed.

(* ================= credentials in closed form ================= *)
Lemma ac_true w : forall u, authority_credentials w true u = (true, set_password u (su_password u ++ upe in_userinfo_set w)).
Proof.
  induction w as [|c r IH]; intros u.
  - cbn [authority_credentials upe utf8_percent_encode flat_map]. rewrite app_nil_r. destruct u; reflexivity.
  - cbn [authority_credentials negb]. rewrite andb_false_r. rewrite IH. rewrite upe_cons.
    destruct u as [x1 x2 x3 x4 x5 x6 x7 x8]. cbn [set_password su_password su_scheme su_username su_host su_port su_path su_query su_fragment].
    rewrite app_assoc. reflexivity.
Qed.

Lemma ac_false w : forall u, snd (authority_credentials w false u)
  = set_password (set_username u (su_username u ++ upe in_userinfo_set (cr_user w)))
                 (su_password u ++ upe in_userinfo_set (cr_pass w)).
Proof.
  induction w as [|c r IH]; intros u.
  - cbn [authority_credentials cr_user cr_pass upe utf8_percent_encode flat_map snd]. rewrite !app_nil_r. destruct u; reflexivity.
  - cbn [authority_credentials negb cr_user cr_pass]. rewrite andb_true_r. destruct (c =? 58) eqn:E.
    + rewrite ac_true. cbn [snd upe utf8_percent_encode flat_map]. rewrite app_nil_r. destruct u; reflexivity.
    + rewrite IH. rewrite upe_cons. destruct u as [x1 x2 x3 x4 x5 x6 x7 x8].
      cbn [set_password set_username su_password su_scheme su_username su_host su_port su_path su_query su_fragment].
      rewrite app_assoc. reflexivity.
Qed.

Lemma ac_app x : forall y pw u,
  authority_credentials (x ++ y) pw u
  = authority_credentials y (fst (authority_credentials x pw u)) (snd (authority_credentials x pw u)).
Proof.
  induction x as [|c r IH]; intros y pw u; [reflexivity|]. cbn [app authority_credentials].
  destruct ((c =? 58) && negb pw); apply IH.
Qed.

(* the "%40" the authority state puts in front of the buffer stands for the '@' it has consumed *)
Lemma ac_at x pw u : authority_credentials ([37; 52; 48] ++ x) pw u = authority_credentials (64 :: x) pw u.
Proof.
  cbn [app authority_credentials]. replace (37 =? 58) with false by reflexivity. replace (52 =? 58) with false by reflexivity.
  replace (48 =? 58) with false by reflexivity. replace (64 =? 58) with false by reflexivity. cbn [andb].
  assert (utf8_percent_encode_cp in_userinfo_set 37 = [37]) as -> by reflexivity.
  assert (utf8_percent_encode_cp in_userinfo_set 52 = [52]) as -> by reflexivity.
  assert (utf8_percent_encode_cp in_userinfo_set 48 = [48]) as -> by reflexivity.
  assert (utf8_percent_encode_cp in_userinfo_set 64 = [37; 52; 48]) as -> by (vm_compute; reflexivity).
  f_equal. destruct pw; destruct u as [x1 x2 x3 x4 x5 x6 x7 x8];
    cbn [set_password set_username su_password su_scheme su_username su_host su_port su_path su_query su_fragment];
    rewrite <- !app_assoc; reflexivity.
Qed.

Lemma ac_scheme w : forall pw u, su_scheme (snd (authority_credentials w pw u)) = su_scheme u.
Proof.
  induction w as [|c r IH]; intros pw u; [reflexivity|]. cbn [authority_credentials].
  destruct ((c =? 58) && negb pw); [apply IH|]. rewrite IH. destruct pw; reflexivity.
Qed.

Lemma ac_rest w : forall pw u, let u' := snd (authority_credentials w pw u) in
  su_host u' = su_host u /\ su_port u' = su_port u /\ su_path u' = su_path u
  /\ su_query u' = su_query u /\ su_fragment u' = su_fragment u.
Proof.
  induction w as [|c r IH]; intros pw u; [cbn; repeat split|]. cbn [authority_credentials].
  destruct ((c =? 58) && negb pw); [apply IH|].
  cbv zeta. destruct (IH pw (if pw then set_password u (su_password u ++ utf8_percent_encode_cp in_userinfo_set c)
                             else set_username u (su_username u ++ utf8_percent_encode_cp in_userinfo_set c)))
    as (A & B & C & D & E).
  rewrite A, B, C, D, E. destruct pw; repeat split.
Qed.

(* ================= the authority state as a function of the text ================= *)
(* Some (buffer, url) = go on with the host state at the start of buffer; None = failure *)
Fixpoint sa_run (t buf : list N) (a pw : bool) (u : spec_url) : option (list N * spec_url) :=
  match t with
  | [] => if a && is_nil buf then None else Some (buf, u)
  | c :: r =>
      if c =? 64 then
        sa_run r [] true
               (fst (authority_credentials (if a then [37; 52; 48] ++ buf else buf) pw u))
               (snd (authority_credentials (if a then [37; 52; 48] ++ buf else buf) pw u))
      else if is_ae c then (if a && is_nil buf then None else Some (buf, u))
      else sa_run r (buf ++ [c]) a pw u
  end.

Lemma is_ae_not_at c : is_ae c = true -> (c =? 64) = false.
Proof. unfold is_ae. intros H. destruct (c =? 64) eqn:E; [|reflexivity]. apply N.eqb_eq in E. subst c. discriminate. Qed.

(* the state after text `Wacc @ buf`, in terms of the LAST '@' of what follows *)
Lemma sa_run_char t : forall buf a pw u Wacc u0,
  (a = true -> authority_credentials Wacc false u0 = (pw, u)) ->
  (a = false -> pw = false /\ u = u0) ->
  sa_run t buf a pw u =
  match last_at (a_part t) with
  | Some (w, h) =>
      if is_nil h then None
      else Some (h, snd (authority_credentials ((if a then Wacc ++ 64 :: buf else buf) ++ w) false u0))
  | None => if a && is_nil (buf ++ a_part t) then None else Some (buf ++ a_part t, u)
  end.
Proof.
  induction t as [|c r IH]; intros buf a pw u Wacc u0 Ha Hna.
  - cbn [sa_run a_part last_at]. rewrite app_nil_r. reflexivity.
  - cbn [sa_run a_part]. destruct (c =? 64) eqn:E64.
    + apply N.eqb_eq in E64. subst c. replace (is_ae 64) with false by reflexivity. cbn [last_at].
      replace (64 =? 64) with true by reflexivity.
      set (Wacc' := if a then Wacc ++ 64 :: buf else buf).
      assert (authority_credentials Wacc' false u0
              = (fst (authority_credentials (if a then [37; 52; 48] ++ buf else buf) pw u),
                 snd (authority_credentials (if a then [37; 52; 48] ++ buf else buf) pw u))) as Hacc.
      { rewrite <- surjective_pairing. unfold Wacc'. destruct a.
        - rewrite ac_app, (Ha eq_refl). cbn [fst snd]. symmetry. apply ac_at.
        - destruct (Hna eq_refl) as [-> ->]. reflexivity. }
      rewrite (IH [] true _ _ Wacc' u0 (fun _ => Hacc)) by discriminate.
      destruct (last_at (a_part r)) as [[w h]|].
      * cbn [app]. replace ((Wacc' ++ [64]) ++ w) with (Wacc' ++ 64 :: w) by (rewrite <- app_assoc; reflexivity).
        reflexivity.
      * cbn [app andb]. rewrite app_nil_r. rewrite Hacc. cbn [snd]. reflexivity.
    + destruct (is_ae c) eqn:Eae.
      * cbn [last_at]. rewrite app_nil_r. reflexivity.
      * cbn [last_at]. rewrite E64.
        rewrite (IH (buf ++ [c]) a pw u Wacc u0 Ha Hna).
        destruct (last_at (a_part r)) as [[w h]|].
        -- destruct a; rewrite <- ?app_assoc; cbn [app]; rewrite <- ?app_assoc; reflexivity.
        -- rewrite <- app_assoc. reflexivity.
Qed.

(* at the top: buffer empty, no '@' seen *)
Lemma sa_run_top T u0 :
  sa_run T [] false false u0 =
  match last_at (a_part T) with
  | Some (w, h) => if is_nil h then None else Some (h, snd (authority_credentials w false u0))
  | None => Some (a_part T, u0)
  end.
Proof.
  rewrite (sa_run_char T [] false false u0 [] u0) by (intros H; first [discriminate H | split; reflexivity]).
  destruct (last_at (a_part T)) as [[w h]|]; reflexivity.
Qed.

Section AuthRuns.
Variable hp : bool -> list N -> option spec_host.
Variable input : list N.
Variable base : option spec_url.

Notation RunsN := (Runs hp input base).
Notation stepN := (step hp input base None).
Notation LEN := (Z.of_nat (length input)).

(* a run that moves the pointer back in front of the code point it has just seen *)
Lemma runs_step_back st pre t buf a b pw u st' buf' a' b' pw' u' res :
  input = pre ++ t ->
  stepN (at_pos st pre buf a b pw u) = SCont (mkM st' (Z.of_nat (length pre) - 1)%Z buf' a' b' pw' u') ->
  RunsN (at_pos st' pre buf' a' b' pw' u') res ->
  RunsN (at_pos st pre buf a b pw u) res.
Proof.
  intros Hin E HR. eapply R_next; [exact E | |].
  - cbn [m_ptr]. rewrite (len_split hp _ _ _ Hin). lia.
  - unfold inc_ptr, set_ptr. cbn [m_ptr m_state m_buf m_at m_br m_pw m_url].
    unfold at_pos in HR. replace (Z.of_nat (length pre) - 1 + 1)%Z with (Z.of_nat (length pre)) by lia. exact HR.
Qed.

(* the authority state rewinds to the start of its buffer *)
Lemma runs_step_rewind st pre buf0 t buf a b pw u st' buf' a' b' pw' u' res :
  input = (pre ++ buf0) ++ t ->
  stepN (at_pos st (pre ++ buf0) buf a b pw u)
  = SCont (mkM st' (Z.of_nat (length (pre ++ buf0)) - (Z.of_nat (length buf0) + 1))%Z buf' a' b' pw' u') ->
  RunsN (at_pos st' pre buf' a' b' pw' u') res ->
  RunsN (at_pos st (pre ++ buf0) buf a b pw u) res.
Proof.
  intros Hin E HR. eapply R_next; [exact E | |].
  - cbn [m_ptr]. rewrite (len_split hp _ _ _ Hin). lia.
  - unfold inc_ptr, set_ptr. cbn [m_ptr m_state m_buf m_at m_br m_pw m_url].
    unfold at_pos in HR.
    replace (Z.of_nat (length (pre ++ buf0)) - (Z.of_nat (length buf0) + 1) + 1)%Z with (Z.of_nat (length pre))
      by (rewrite app_length; lia).
    exact HR.
Qed.

(* some outcome with property Q *)
Definition RunsP (m : machine) (Q : parse_outcome -> Prop) : Prop := exists r, RunsN m r /\ Q r.
Definition is_fail (r : parse_outcome) : Prop := exists uf, r = BFailure uf.

(* ---------- path or authority state, second '/' ---------- *)
Lemma runs_poa_slash pre t a b pw u res :
  input = pre ++ 47 :: t ->
  RunsN (at_pos StAuthority (pre ++ [47]) [] a b pw u) res ->
  RunsN (at_pos StPathOrAuthority pre [] a b pw u) res.
Proof.
  intros Hin HR. eapply runs_step_next with (st' := StAuthority) (buf' := []); [exact Hin | | exact HR].
  rewrite (step_unfold _ _ _ _ _ _ _ _ _ _ _ Hin). reflexivity.
Qed.

(* ---------- authority state ---------- *)
Lemma authority_end_ns u c : is_special u = false -> is_authority_end u (Some c) = is_ae c.
Proof.
  intros H. unfold is_authority_end, is_ae. rewrite H. cbn [is_eof cis andb orb]. rewrite orb_false_r. reflexivity.
Qed.

Lemma runs_auth t : forall pre buf a pw u,
  input = (pre ++ buf) ++ t -> is_special u = false ->
  match sa_run t buf a pw u with
  | Some (h, u') =>
      forall Q, (forall a' p', RunsP (at_pos StHost (firstn (length input - length (h ++ a_rest t)) input) [] a' false p' u') Q) ->
      RunsP (at_pos StAuthority (pre ++ buf) buf a false pw u) Q
  | None => exists uf, RunsN (at_pos StAuthority (pre ++ buf) buf a false pw u) (BFailure uf)
  end.
Proof.
  induction t as [|c r IH]; intros pre buf a pw u Hin Hns.
  - (* end of input *)
    cbn [sa_run]. destruct (a && is_nil buf) eqn:Eab.
    + exists u. apply R_fail. rewrite (step_unfold _ _ _ _ _ _ _ _ _ _ _ Hin). cbn zeta. cbn [hd_error].
      unfold st_authority. cbn [cis m_at m_buf m_url at_pos]. unfold is_authority_end. cbn [is_eof orb].
      rewrite list_eqb_nil, Eab. reflexivity.
    + intros Q K. specialize (K a pw). cbn [a_rest] in K. rewrite app_nil_r in K.
      replace (firstn (length input - length buf) input) with pre in K.
      2:{ rewrite Hin. rewrite app_nil_r. rewrite app_length. replace (length pre + length buf - length buf)%nat with (length pre) by lia.
          rewrite firstn_app, Nat.sub_diag, firstn_all. cbn [firstn]. rewrite app_nil_r. reflexivity. }
      destruct K as (r0 & HR & HQ). exists r0. split; [|exact HQ].
      eapply runs_step_rewind with (st' := StHost) (buf' := []); [exact Hin | | exact HR].
      rewrite (step_unfold _ _ _ _ _ _ _ _ _ _ _ Hin). cbn zeta. cbn [hd_error].
      unfold st_authority. cbn [cis m_at m_buf m_url at_pos]. unfold is_authority_end. cbn [is_eof orb].
      rewrite list_eqb_nil, Eab. reflexivity.
  - cbn [sa_run]. destruct (c =? 64) eqn:E64.
    + (* '@' *)
      set (B := if a then [37; 52; 48] ++ buf else buf).
      pose proof (IH ((pre ++ buf) ++ [c]) [] true (fst (authority_credentials B pw u))
                     (snd (authority_credentials B pw u))) as IH'.
      rewrite app_nil_r in IH'.
      assert (input = ((pre ++ buf) ++ [c]) ++ r) as Hin' by (rewrite Hin, <- !app_assoc; reflexivity).
      assert (is_special (snd (authority_credentials B pw u)) = false) as Hns'.
      { unfold is_special in *. rewrite ac_scheme. exact Hns. }
      specialize (IH' Hin' Hns').
      assert (a_rest (c :: r) = a_rest r) as Ear.
      { cbn [a_rest]. apply N.eqb_eq in E64. subst c. reflexivity. }
      assert (stepN (at_pos StAuthority (pre ++ buf) buf a false pw u)
              = SCont (mkM StAuthority (Z.of_nat (length (pre ++ buf))) [] true false
                           (fst (authority_credentials B pw u)) (snd (authority_credentials B pw u)))) as Est.
      { rewrite (step_unfold _ _ _ _ _ _ _ _ _ _ _ Hin). cbn zeta. cbn [hd_error].
        unfold st_authority. cbn [cis m_at m_buf m_pw m_url at_pos]. rewrite E64. fold B.
        destruct (authority_credentials B pw u) as [pw' u1]. reflexivity. }
      destruct (sa_run r [] true _ _) as [[h u']|].
      * intros Q K. rewrite Ear in K. destruct (IH' Q K) as (r0 & HR & HQ). exists r0. split; [|exact HQ].
        eapply runs_step_next; [exact Hin | exact Est | exact HR].
      * destruct IH' as [uf Hf]. exists uf. eapply runs_step_next; [exact Hin | exact Est | exact Hf].
    + destruct (is_ae c) eqn:Eae.
      * (* end of the authority *)
        destruct (a && is_nil buf) eqn:Eab.
        -- exists u. apply R_fail. rewrite (step_unfold _ _ _ _ _ _ _ _ _ _ _ Hin). cbn zeta. cbn [hd_error].
           unfold st_authority. cbn [cis m_at m_buf m_url at_pos]. rewrite E64, (authority_end_ns u c Hns), Eae.
           rewrite list_eqb_nil, Eab. reflexivity.
        -- intros Q K. specialize (K a pw). cbn [a_rest] in K. rewrite Eae in K.
           replace (firstn (length input - length (buf ++ c :: r)) input) with pre in K.
           2:{ rewrite Hin. rewrite <- app_assoc. rewrite app_length.
               replace (length pre + length (buf ++ c :: r) - length (buf ++ c :: r))%nat with (length pre) by lia.
               rewrite firstn_app, Nat.sub_diag, firstn_all. cbn [firstn]. rewrite app_nil_r. reflexivity. }
           destruct K as (r0 & HR & HQ). exists r0. split; [|exact HQ].
           eapply runs_step_rewind with (st' := StHost) (buf' := []); [exact Hin | | exact HR].
           rewrite (step_unfold _ _ _ _ _ _ _ _ _ _ _ Hin). cbn zeta. cbn [hd_error].
           unfold st_authority. cbn [cis m_at m_buf m_url at_pos]. rewrite E64, (authority_end_ns u c Hns), Eae.
           rewrite list_eqb_nil, Eab. reflexivity.
      * (* any other code point: onto the buffer *)
        pose proof (IH pre (buf ++ [c]) a pw u) as IH'.
        assert (input = (pre ++ buf ++ [c]) ++ r) as Hin' by (rewrite Hin, <- !app_assoc; reflexivity).
        assert (is_authority_end u (Some c) = false) as Eend by (rewrite (authority_end_ns u c Hns); exact Eae).
        assert (stepN (at_pos StAuthority (pre ++ buf) buf a false pw u)
                = SCont (mkM StAuthority (Z.of_nat (length (pre ++ buf))) (buf ++ [c]) a false pw u)) as Est.
        { rewrite (step_unfold _ _ _ _ _ _ _ _ _ _ _ Hin). cbn zeta. cbn [hd_error].
          unfold st_authority. cbn [m_at m_buf m_url at_pos]. cbn [cis]. rewrite E64, Eend. reflexivity. }
        specialize (IH' Hin' Hns). rewrite app_assoc in IH'.
        assert (a_rest (c :: r) = a_rest r) as Ear by (cbn [a_rest]; rewrite Eae; reflexivity).
        destruct (sa_run r (buf ++ [c]) a pw u) as [[h u']|].
        -- intros Q K. rewrite Ear in K. destruct (IH' Q K) as (r0 & HR & HQ). exists r0. split; [|exact HQ].
           eapply runs_step_next; [exact Hin | exact Est | exact HR].
        -- destruct IH' as [uf Hf]. exists uf. eapply runs_step_next; [exact Hin | exact Est | exact Hf].
Qed.

(* ---------- path start state (URL not special, no state override) ---------- *)
Theorem runs_path_start X : forall pre a b pw u,
  input = pre ++ X -> starts_ae X = true ->
  su_path u = SPList [] -> is_special u = false -> list_eqb (su_scheme u) str_file = false ->
  RunsN (at_pos StPathStart pre [] a b pw u) (BDone (sauth_tail u X)).
Proof.
  intros pre a b pw u Hin Hx HP Hns Hf. destruct X as [|c r].
  - cbn [sauth_tail]. eapply R_end with (m' := at_pos StPathStart pre [] a b pw u).
    + rewrite (step_unfold _ _ _ _ _ _ _ _ _ _ _ Hin). cbn zeta. cbn [hd_error]. unfold st_path_start.
      cbn [m_url at_pos]. rewrite Hns. reflexivity.
    + cbn [m_ptr at_pos]. rewrite (len_split hp _ _ _ Hin). cbn [length]. lia.
  - cbn [starts_ae] in Hx. cbn [sauth_tail]. destruct (c =? 47) eqn:E47.
    + eapply runs_step_next with (st' := StPath) (buf' := []) (u' := u); [exact Hin | |].
      * rewrite (step_unfold _ _ _ _ _ _ _ _ _ _ _ Hin). cbn zeta. cbn [hd_error]. unfold st_path_start.
        cbn [m_url at_pos has_ov opt_is_some negb andb is_eof cis]. rewrite Hns, E47.
        assert ((c =? 63) = false) as -> by lia. assert ((c =? 35) = false) as -> by lia. reflexivity.
      * exact (runs_path hp input base r (pre ++ [c]) [] a b pw u [] (snoc_split _ _ _ _ Hin) HP Hns Hf).
    + unfold tail_url. destruct (c =? 63) eqn:E63.
      * eapply runs_step_next with (st' := StQuery) (buf' := []) (u' := set_query u (Some [])); [exact Hin | |].
        -- rewrite (step_unfold _ _ _ _ _ _ _ _ _ _ _ Hin). cbn zeta. cbn [hd_error]. unfold st_path_start.
           cbn [m_url at_pos has_ov opt_is_some negb andb is_eof cis]. rewrite Hns, E63. reflexivity.
        -- exact (runs_query hp input base r (pre ++ [c]) [] a b pw (set_query u (Some [])) []
                    (snoc_split _ _ _ _ Hin) eq_refl).
      * assert ((c =? 35) = true) as E35 by (unfold is_ae in Hx; rewrite E47, E63 in Hx; exact Hx).
        eapply runs_step_next with (st' := StFragment) (buf' := []) (u' := set_fragment u (Some [])); [exact Hin | |].
        -- rewrite (step_unfold _ _ _ _ _ _ _ _ _ _ _ Hin). cbn zeta. cbn [hd_error]. unfold st_path_start.
           cbn [m_url at_pos has_ov opt_is_some negb andb is_eof cis]. rewrite Hns, E63, E35. reflexivity.
        -- exact (runs_fragment hp input base r (pre ++ [c]) [] a b pw (set_fragment u (Some [])) []
                    (snoc_split _ _ _ _ Hin) eq_refl).
Qed.

(* ---------- port state ---------- *)
Lemma digit_not_ae c : is_digit c = true -> is_ae c = false.
Proof. unfold is_digit, is_ae. intros H. lia. Qed.

Lemma decimal_value_snoc d c : decimal_value (d ++ [c]) = decimal_value d * 10 + (c - 48).
Proof. unfold decimal_value. rewrite fold_left_app. reflexivity. Qed.

Theorem runs_port t : forall pre buf a b pw u,
  input = pre ++ t -> is_special u = false -> scheme_default_port (su_scheme u) = None ->
  su_path u = SPList [] -> list_eqb (su_scheme u) str_file = false ->
  let d := buf ++ digits_of t in
  let X := after_digits t in
  if negb (starts_ae X) then exists uf, RunsN (at_pos StPort pre buf a b pw u) (BFailure uf)
  else if is_nil d then RunsN (at_pos StPort pre buf a b pw u) (BDone (sauth_tail u X))
  else if 65535 <? decimal_value d then exists uf, RunsN (at_pos StPort pre buf a b pw u) (BFailure uf)
  else RunsN (at_pos StPort pre buf a b pw u) (BDone (sauth_tail (set_port u (Some (decimal_value d))) X)).
Proof.
  assert (forall X pre buf a b pw u, input = pre ++ X -> starts_ae X = true ->
            is_special u = false -> scheme_default_port (su_scheme u) = None ->
            su_path u = SPList [] -> list_eqb (su_scheme u) str_file = false ->
            (forall c r, X = c :: r -> is_digit c = false) ->
            if is_nil buf then RunsN (at_pos StPort pre buf a b pw u) (BDone (sauth_tail u X))
            else if 65535 <? decimal_value buf then exists uf, RunsN (at_pos StPort pre buf a b pw u) (BFailure uf)
            else RunsN (at_pos StPort pre buf a b pw u) (BDone (sauth_tail (set_port u (Some (decimal_value buf))) X))) as Hend.
  { intros X pre buf a b pw u Hin Hx Hns Hdp HP Hf Hnd.
    assert (cpred is_digit (hd_error X) = false) as Ecd.
    { destruct X as [|c r]; [reflexivity|]. cbn [hd_error cpred]. exact (Hnd c r eq_refl). }
    assert (is_authority_end u (hd_error X) = true) as Eend.
    { destruct X as [|c r]; [reflexivity|]. cbn [hd_error]. rewrite (authority_end_ns u c Hns). exact Hx. }
    destruct buf as [|d0 dr] eqn:Eb; cbn [is_nil].
    - eapply runs_step_back with (st' := StPathStart) (buf' := []) (u' := u); [exact Hin | |].
      + rewrite (step_unfold _ _ _ _ _ _ _ _ _ _ _ Hin). cbn zeta. unfold st_port.
        cbn [m_url m_buf at_pos]. rewrite Ecd, Eend. cbn [orb list_eqb negb has_ov opt_is_some]. reflexivity.
      + apply runs_path_start; assumption.
    - rewrite <- Eb. destruct (65535 <? decimal_value buf) eqn:Eov.
      + exists u. apply R_fail. rewrite (step_unfold _ _ _ _ _ _ _ _ _ _ _ Hin). cbn zeta. unfold st_port.
        cbn [m_url m_buf at_pos]. rewrite Ecd, Eend. cbn [orb]. rewrite Eb at 1. cbn [list_eqb negb].
        rewrite Eov. reflexivity.
      + eapply runs_step_back with (st' := StPathStart) (buf' := [])
          (u' := set_port u (Some (decimal_value buf))); [exact Hin | |].
        * rewrite (step_unfold _ _ _ _ _ _ _ _ _ _ _ Hin). cbn zeta. unfold st_port.
          cbn [m_url m_buf at_pos]. rewrite Ecd, Eend. cbn [orb]. rewrite Eb at 1. cbn [list_eqb negb].
          rewrite Eov. unfold port_is_default. rewrite Hdp. cbn [has_ov opt_is_some]. reflexivity.
        * apply runs_path_start; try assumption. }
  induction t as [|c r IH]; intros pre buf a b pw u Hin Hns Hdp HP Hf.
  - cbn [digits_of after_digits starts_ae negb]. cbv zeta. rewrite app_nil_r.
    apply (Hend [] pre buf a b pw u Hin eq_refl Hns Hdp HP Hf). intros c r H. discriminate H.
  - cbn [digits_of after_digits]. destruct (is_digit c) eqn:Ed.
    + cbv zeta. pose proof (IH (pre ++ [c]) (buf ++ [c]) a b pw u (snoc_split _ _ _ _ Hin) Hns Hdp HP Hf) as IH'.
      cbv zeta in IH'. rewrite <- app_assoc in IH'. cbn [app] in IH'.
      assert (stepN (at_pos StPort pre buf a b pw u)
              = SCont (mkM StPort (Z.of_nat (length pre)) (buf ++ [c]) a b pw u)) as Est.
      { rewrite (step_unfold _ _ _ _ _ _ _ _ _ _ _ Hin). cbn zeta. cbn [hd_error]. unfold st_port.
        cbn [cpred]. rewrite Ed. reflexivity. }
      destruct (negb (starts_ae (after_digits r))).
      * destruct IH' as [uf K]. exists uf. eapply runs_step_next; [exact Hin | exact Est | exact K].
      * destruct (is_nil (buf ++ c :: digits_of r)).
        -- eapply runs_step_next; [exact Hin | exact Est | exact IH'].
        -- destruct (65535 <? decimal_value (buf ++ c :: digits_of r)).
           ++ destruct IH' as [uf K]. exists uf. eapply runs_step_next; [exact Hin | exact Est | exact K].
           ++ eapply runs_step_next; [exact Hin | exact Est | exact IH'].
    + cbv zeta. rewrite app_nil_r. cbn [starts_ae]. destruct (is_ae c) eqn:Eae; cbn [negb].
      * apply (Hend (c :: r) pre buf a b pw u Hin Eae Hns Hdp HP Hf). intros c' r' H. inversion H; subst. exact Ed.
      * exists u. apply R_fail. rewrite (step_unfold _ _ _ _ _ _ _ _ _ _ _ Hin). cbn zeta. cbn [hd_error]. unfold st_port.
        cbn [cpred m_url at_pos]. rewrite Ed, (authority_end_ns u c Hns), Eae. reflexivity.
Qed.

(* the port state on the text after "host:", as `sauth_port` *)
Corollary runs_port_top PR pre a b pw u :
  input = pre ++ PR -> is_special u = false -> scheme_default_port (su_scheme u) = None ->
  su_path u = SPList [] -> list_eqb (su_scheme u) str_file = false ->
  match sauth_port u PR with
  | Some su => RunsN (at_pos StPort pre [] a b pw u) (BDone su)
  | None => exists uf, RunsN (at_pos StPort pre [] a b pw u) (BFailure uf)
  end.
Proof.
  intros Hin Hns Hdp HP Hf. pose proof (runs_port PR pre [] a b pw u Hin Hns Hdp HP Hf) as K.
  cbv zeta in K. cbn [app] in K. unfold sauth_port.
  destruct (negb (starts_ae (after_digits PR))); [exact K|].
  destruct (is_nil (digits_of PR)); [exact K|].
  destruct (65535 <? decimal_value (digits_of PR)); exact K.
Qed.

(* ---------- host state ---------- *)
Lemma hs_rest_starts br t : match hs_rest br t with [] => True | c :: _ => hs_stop br c = true \/ True end.
Proof. destruct (hs_rest br t); [exact I | right; exact I]. Qed.

Lemma hs_rest_head t : forall br, match hs_rest br t with
                                  | [] => True
                                  | c :: _ => is_ae c = true \/ (c =? 58) = true
                                  end.
Proof.
  induction t as [|c r IH]; intros br; [exact I|]. cbn [hs_rest]. destruct (hs_stop br c) eqn:E; [|apply IH].
  unfold hs_stop in E. apply orb_true_iff in E. destruct E as [E|E]; [right | left; exact E].
  apply andb_true_iff in E. tauto.
Qed.

Theorem runs_host t : forall pre buf br a pw u,
  input = pre ++ t -> is_special u = false -> scheme_default_port (su_scheme u) = None ->
  su_path u = SPList [] -> list_eqb (su_scheme u) str_file = false ->
  let Hh := buf ++ hs_host br t in
  match port_split (hs_rest br t) with
  | Some PR =>
      if is_nil Hh then exists uf, RunsN (at_pos StHost pre buf a br pw u) (BFailure uf)
      else match host_parsing hp true Hh with
           | None => exists uf, RunsN (at_pos StHost pre buf a br pw u) (BFailure uf)
           | Some sh =>
               match sauth_port (set_host u (Some sh)) PR with
               | Some su => RunsN (at_pos StHost pre buf a br pw u) (BDone su)
               | None => exists uf, RunsN (at_pos StHost pre buf a br pw u) (BFailure uf)
               end
           end
  | None =>
      match host_parsing hp true Hh with
      | None => exists uf, RunsN (at_pos StHost pre buf a br pw u) (BFailure uf)
      | Some sh => RunsN (at_pos StHost pre buf a br pw u) (BDone (sauth_tail (set_host u (Some sh)) (hs_rest br t)))
      end
  end.
Proof.
  (* the host ends at an end of the authority (or of the input) *)
  assert (forall X pre buf br a pw u, input = pre ++ X -> starts_ae X = true ->
            is_special u = false -> su_path u = SPList [] -> list_eqb (su_scheme u) str_file = false ->
            match host_parsing hp true buf with
            | None => exists uf, RunsN (at_pos StHost pre buf a br pw u) (BFailure uf)
            | Some sh => RunsN (at_pos StHost pre buf a br pw u) (BDone (sauth_tail (set_host u (Some sh)) X))
            end) as Hend.
  { intros X pre buf br a pw u Hin Hx Hns HP Hf.
    assert (is_authority_end u (hd_error X) = true) as Eend.
    { destruct X as [|c r]; [reflexivity|]. cbn [hd_error]. rewrite (authority_end_ns u c Hns). exact Hx. }
    assert ((cis (hd_error X) 58 && negb br) = false) as E58.
    { destruct X as [|c r]; [reflexivity|]. cbn [hd_error cis]. cbn [starts_ae] in Hx.
      destruct (c =? 58) eqn:E; [|reflexivity]. apply N.eqb_eq in E. subst c. discriminate. }
    destruct (host_parsing hp true buf) as [sh|] eqn:Ehp.
    - eapply runs_step_back with (st' := StPathStart) (buf' := []) (u' := set_host u (Some sh)); [exact Hin | |].
      + rewrite (step_unfold _ _ _ _ _ _ _ _ _ _ _ Hin). cbn zeta. unfold st_host.
        cbn [has_ov opt_is_some andb m_url m_buf m_br at_pos]. rewrite E58, Eend, Hns. cbn [andb negb]. rewrite Ehp.
        reflexivity.
      + apply runs_path_start; try assumption.
    - exists u. apply R_fail. rewrite (step_unfold _ _ _ _ _ _ _ _ _ _ _ Hin). cbn zeta. unfold st_host.
      cbn [has_ov opt_is_some andb m_url m_buf m_br at_pos]. rewrite E58, Eend, Hns. cbn [andb negb]. rewrite Ehp.
      reflexivity. }
  induction t as [|c r IH]; intros pre buf br a pw u Hin Hns Hdp HP Hf.
  - cbn [hs_host hs_rest port_split]. cbv zeta. rewrite app_nil_r.
    exact (Hend [] pre buf br a pw u Hin eq_refl Hns HP Hf).
  - cbn [hs_host hs_rest]. destruct (hs_stop br c) eqn:Estop.
    + cbv zeta. rewrite app_nil_r. cbn [port_split]. destruct (c =? 58) eqn:E58.
      * (* ':' outside brackets: the port follows *)
        assert (negb br = true) as Ebr.
        { unfold hs_stop in Estop. rewrite E58 in Estop. apply N.eqb_eq in E58. subst c.
          destruct br; [discriminate Estop | reflexivity]. }
        destruct (is_nil buf) eqn:Enil.
        -- exists u. apply R_fail. rewrite (step_unfold _ _ _ _ _ _ _ _ _ _ _ Hin). cbn zeta. cbn [hd_error]. unfold st_host.
           cbn [has_ov opt_is_some andb m_url m_buf m_br at_pos cis]. rewrite E58, Ebr. cbn [andb].
           rewrite list_eqb_nil, Enil. reflexivity.
        -- destruct (host_parsing hp true buf) as [sh|] eqn:Ehp.
           ++ assert (stepN (at_pos StHost pre buf a br pw u)
                      = SCont (mkM StPort (Z.of_nat (length pre)) [] a br pw (set_host u (Some sh)))) as Est.
              { rewrite (step_unfold _ _ _ _ _ _ _ _ _ _ _ Hin). cbn zeta. cbn [hd_error]. unfold st_host.
                cbn [has_ov opt_is_some andb m_url m_buf m_br at_pos cis]. rewrite E58, Ebr. cbn [andb].
                rewrite list_eqb_nil, Enil. unfold ov_is. rewrite Hns. cbn [negb]. rewrite Ehp. reflexivity. }
              pose proof (runs_port_top r (pre ++ [c]) a br pw (set_host u (Some sh)) (snoc_split _ _ _ _ Hin)
                            Hns Hdp HP Hf) as K.
              destruct (sauth_port (set_host u (Some sh)) r) as [su|].
              ** eapply runs_step_next; [exact Hin | exact Est | exact K].
              ** destruct K as [uf K]. exists uf. eapply runs_step_next; [exact Hin | exact Est | exact K].
           ++ exists u. apply R_fail. rewrite (step_unfold _ _ _ _ _ _ _ _ _ _ _ Hin). cbn zeta. cbn [hd_error]. unfold st_host.
              cbn [has_ov opt_is_some andb m_url m_buf m_br at_pos cis]. rewrite E58, Ebr. cbn [andb].
              rewrite list_eqb_nil, Enil. unfold ov_is. rewrite Hns. cbn [negb]. rewrite Ehp. reflexivity.
      * (* end of the authority *)
        assert (is_ae c = true) as Eae.
        { unfold hs_stop in Estop. rewrite E58 in Estop. exact Estop. }
        exact (Hend (c :: r) pre buf br a pw u Hin Eae Hns HP Hf).
    + (* the code point goes onto the buffer *)
      cbv zeta.
      pose proof (IH (pre ++ [c]) (buf ++ [c]) (br_next br c) a pw u (snoc_split _ _ _ _ Hin) Hns Hdp HP Hf) as IH'.
      cbv zeta in IH'. rewrite <- app_assoc in IH'. cbn [app] in IH'.
      assert (stepN (at_pos StHost pre buf a br pw u)
              = SCont (mkM StHost (Z.of_nat (length pre)) (buf ++ [c]) a (br_next br c) pw u)) as Est.
      { rewrite (step_unfold _ _ _ _ _ _ _ _ _ _ _ Hin). cbn zeta. cbn [hd_error]. unfold st_host.
        cbn [has_ov opt_is_some andb m_url m_buf m_br at_pos cis].
        unfold hs_stop in Estop. apply orb_false_iff in Estop. destruct Estop as [E1 E2].
        rewrite E1, (authority_end_ns u c Hns), E2. unfold br_next, set_br, push_buf, set_buf.
        cbn [m_state m_ptr m_buf m_at m_br m_pw m_url].
        destruct (c =? 91) eqn:E91.
        - assert ((c =? 93) = false) as -> by lia. reflexivity.
        - destruct (c =? 93); reflexivity. }
      destruct (port_split (hs_rest (br_next br c) r)) as [PR|].
      * destruct (is_nil (buf ++ c :: hs_host (br_next br c) r)).
        -- destruct IH' as [uf K]. exists uf. eapply runs_step_next; [exact Hin | exact Est | exact K].
        -- destruct (host_parsing hp true (buf ++ c :: hs_host (br_next br c) r)) as [sh|].
           ++ destruct (sauth_port (set_host u (Some sh)) PR) as [su|].
              ** eapply runs_step_next; [exact Hin | exact Est | exact IH'].
              ** destruct IH' as [uf K]. exists uf. eapply runs_step_next; [exact Hin | exact Est | exact K].
           ++ destruct IH' as [uf K]. exists uf. eapply runs_step_next; [exact Hin | exact Est | exact K].
      * destruct (host_parsing hp true (buf ++ c :: hs_host (br_next br c) r)) as [sh|].
        -- eapply runs_step_next; [exact Hin | exact Est | exact IH'].
        -- destruct IH' as [uf K]. exists uf. eapply runs_step_next; [exact Hin | exact Est | exact K].
Qed.

Corollary runs_host_top HR pre a pw u :
  input = pre ++ HR -> is_special u = false -> scheme_default_port (su_scheme u) = None ->
  su_path u = SPList [] -> list_eqb (su_scheme u) str_file = false ->
  match sauth_host hp u HR with
  | Some su => RunsN (at_pos StHost pre [] a false pw u) (BDone su)
  | None => exists uf, RunsN (at_pos StHost pre [] a false pw u) (BFailure uf)
  end.
Proof.
  intros Hin Hns Hdp HP Hf. pose proof (runs_host HR pre [] false a pw u Hin Hns Hdp HP Hf) as K.
  cbv zeta in K. cbn [app] in K. unfold sauth_host.
  destruct (port_split (hs_rest false HR)) as [PR|].
  - destruct (is_nil (hs_host false HR)); [exact K|].
    destruct (host_parsing hp true (hs_host false HR)) as [sh|]; exact K.
  - destruct (host_parsing hp true (hs_host false HR)) as [sh|]; exact K.
Qed.

(* ---------- authority state from its start: `sauth` ---------- *)
Lemma scheme_port_none sch : is_special_scheme sch = false -> scheme_default_port sch = None.
Proof.
  unfold is_special_scheme, scheme_default_port. intros H.
  induction special_schemes as [|p l IH]; [reflexivity|]. cbn [existsb find] in *.
  apply orb_false_iff in H. destruct H as [H1 H2]. rewrite H1. exact (IH H2).
Qed.

Theorem runs_authority pre T sch :
  input = pre ++ T -> is_special_scheme sch = false ->
  match sauth hp sch T with
  | Some su => RunsN (at_pos StAuthority pre [] false false false (set_scheme empty_url sch)) (BDone su)
  | None => exists uf, RunsN (at_pos StAuthority pre [] false false false (set_scheme empty_url sch)) (BFailure uf)
  end.
Proof.
  intros Hin Hnsp.
  set (u0 := set_scheme empty_url sch).
  assert (is_special u0 = false) as Hns by exact Hnsp.
  assert (list_eqb sch str_file = false) as Hnf.
  { destruct (list_eqb sch str_file) eqn:E; [|reflexivity]. apply list_eqb_spec in E. subst sch. discriminate. }
  assert (input = (pre ++ []) ++ T) as Hin0 by (rewrite app_nil_r; exact Hin).
  pose proof (runs_auth T pre [] false false u0) as RA. rewrite app_nil_r in RA.
  rewrite sa_run_top in RA. unfold sauth, after_at. fold u0.
  (* what the host state needs of the URL after the credentials *)
  assert (forall W, let u1 := cred_of W u0 in
            is_special u1 = false /\ scheme_default_port (su_scheme u1) = None /\ su_path u1 = SPList []
            /\ list_eqb (su_scheme u1) str_file = false) as Hu1.
  { intros [w|]; cbv zeta; cbn [cred_of].
    - unfold is_special. rewrite ac_scheme. destruct (ac_rest w false u0) as (_ & _ & Hp & _).
      cbv zeta in Hp. rewrite Hp. cbn [u0 su_scheme set_scheme su_path empty_url].
      repeat split; [exact Hnsp | apply scheme_port_none; exact Hnsp | exact Hnf].
    - repeat split; [exact Hnsp | apply scheme_port_none; exact Hnsp | exact Hnf]. }
  destruct (last_at (a_part T)) as [[w h]|] eqn:Ela.
  - (* credentials *)
    pose proof (a_part_no_ae T) as Hnae. pose proof (last_at_split _ _ _ Ela) as Esp.
    assert (forallb (fun c => negb (is_ae c)) h = true) as Hh.
    { rewrite Esp in Hnae. rewrite forallb_app in Hnae. apply andb_true_iff in Hnae. destruct Hnae as [_ Hn].
      cbn [forallb] in Hn. apply andb_true_iff in Hn. tauto. }
    cbn [opt_is_some andb]. rewrite (starts_ae_app h (a_rest T) Hh (a_rest_starts T)).
    destruct (is_nil h) eqn:Enil.
    + destruct (RA Hin Hns) as [uf K]. exists uf. exact K.
    + destruct (Hu1 (Some w)) as (H1 & H2 & H3 & H4). cbv zeta in H1, H2, H3, H4.
      assert (input = firstn (length input - length (h ++ a_rest T)) input ++ h ++ a_rest T) as Hin1.
      { assert (exists p, input = p ++ h ++ a_rest T) as [p Hp].
        { exists (pre ++ w ++ [64]). rewrite Hin. rewrite <- (a_part_rest T) at 1. rewrite Esp.
          rewrite <- !app_assoc. reflexivity. }
        rewrite Hp. rewrite firstn_len_sub. reflexivity. }
      pose proof (fun a' p' => runs_host_top (h ++ a_rest T) _ a' p' (cred_of (Some w) u0) Hin1 H1 H2 H3 H4) as RH.
      cbn [cred_of] in RH |- *.
      destruct (sauth_host hp (snd (authority_credentials w false u0)) (h ++ a_rest T)) as [su|].
      * destruct (RA Hin Hns (eq (BDone su))) as (r0 & HR & <-); [|exact HR].
        intros a' p'. exists (BDone su). split; [apply RH | reflexivity].
      * destruct (RA Hin Hns is_fail) as (r0 & HR & uf & ->); [|exists uf; exact HR].
        intros a' p'. destruct (RH a' p') as [uf K1]. exists (BFailure uf). split; [exact K1 | exists uf; reflexivity].
  - (* no '@' *)
    cbn [opt_is_some andb].
    destruct (Hu1 None) as (H1 & H2 & H3 & H4). cbv zeta in H1, H2, H3, H4. cbn [cred_of] in *.
    assert (input = firstn (length input - length (a_part T ++ a_rest T)) input ++ a_part T ++ a_rest T) as Hin1.
    { rewrite a_part_rest. rewrite Hin. rewrite firstn_len_sub. reflexivity. }
    pose proof (fun a' p' => runs_host_top (a_part T ++ a_rest T) _ a' p' u0 Hin1 H1 H2 H3 H4) as RH.
    assert (sauth_host hp u0 (a_part T ++ a_rest T) = sauth_host hp u0 T) as Esh by (rewrite a_part_rest; reflexivity).
    rewrite Esh in RH.
    destruct (sauth_host hp u0 T) as [su|].
    + destruct (RA Hin Hns (eq (BDone su))) as (r0 & HR & <-); [|exact HR].
      intros a' p'. exists (BDone su). split; [apply RH | reflexivity].
    + destruct (RA Hin Hns is_fail) as (r0 & HR & uf & ->); [|exists uf; exact HR].
      intros a' p'. destruct (RH a' p') as [uf K1]. exists (BFailure uf). split; [exact K1 | exists uf; reflexivity].
Qed.

End AuthRuns.
