(* Proofs/C01_EqAuthSpec.v - specification side of the C01 equivalence for "scheme://authority..." with a
   non-special scheme and no base: what the authority state (buffer, atSignSeen, passwordTokenSeen),
   the host state (insideBrackets), the port state and the path start state of Spec/Whatwg.v compute
   on ANY text after "//", as functions of that text (`sauth`), and the proof that the state machine
   computes exactly that. *)
From RU Require Import Base.Prelude Base.Utf8 Spec.Whatwg Proofs.C01_EqRun Proofs.C01_EqPathSpec.

(* ================= the text after "//", cut as the states of the Standard cut it ================= *)
(* end of the authority for a URL that is not special: '/', '?', '#' (or the end of the text) *)
Definition is_ae (c : N) : bool := (c =? 47) || (c =? 63) || (c =? 35).
Definition starts_ae (t : list N) : bool := match t with [] => true | c :: _ => is_ae c end.

Fixpoint a_part (t : list N) : list N :=
  match t with [] => [] | c :: r => if is_ae c then [] else c :: a_part r end.
Fixpoint a_rest (t : list N) : list N :=
  match t with [] => [] | c :: r => if is_ae c then t else a_rest r end.

(* cut at the LAST '@' *)
Fixpoint last_at (t : list N) : option (list N * list N) :=
  match t with
  | [] => None
  | c :: r => match last_at r with
              | Some (w, h) => Some (c :: w, h)
              | None => if c =? 64 then Some ([], r) else None
              end
  end.

(* (text in front of the last '@' of the authority, if any; text after it up to the end of the input) *)
Definition after_at (T : list N) : option (list N) * list N :=
  match last_at (a_part T) with
  | Some (w, h) => (Some w, h ++ a_rest T)
  | None => (None, T)
  end.

(* host state: up to the first ':' outside brackets or the end of the authority *)
Definition br_next (br : bool) (c : N) : bool := if c =? 91 then true else if c =? 93 then false else br.
Fixpoint hs_host (br : bool) (t : list N) : list N :=
  match t with
  | [] => []
  | c :: r => if ((c =? 58) && negb br) || is_ae c then [] else c :: hs_host (br_next br c) r
  end.
Fixpoint hs_rest (br : bool) (t : list N) : list N :=
  match t with
  | [] => []
  | c :: r => if ((c =? 58) && negb br) || is_ae c then t else hs_rest (br_next br c) r
  end.

(* port state: the digits, and what follows them *)
Fixpoint digits_of (t : list N) : list N :=
  match t with [] => [] | c :: r => if is_digit c then c :: digits_of r else [] end.
Fixpoint after_digits (t : list N) : list N :=
  match t with [] => [] | c :: r => if is_digit c then after_digits r else t end.

(* credentials: the first ':' splits *)
Fixpoint cr_user (w : list N) : list N :=
  match w with [] => [] | c :: r => if c =? 58 then [] else c :: cr_user r end.
Fixpoint cr_pass (w : list N) : list N :=
  match w with [] => [] | c :: r => if c =? 58 then r else cr_pass r end.

Definition is_nil {A} (l : list A) : bool := match l with [] => true | _ => false end.

(* ================= what the states compute ================= *)
Definition cred_of (W : option (list N)) (u : spec_url) : spec_url :=
  match W with Some w => snd (authority_credentials w false u) | None => u end.

(* path start state and what follows it, on a text that is empty or starts with '/', '?' or '#' *)
Definition sauth_tail (u : spec_url) (X : list N) : spec_url :=
  match X with
  | 47 :: r => tail_url (set_path u (SPList (fst (spath r [] [])))) (snd (spath r [] []))
  | _ => tail_url u X
  end.

Section SAuth.
Variable shp : bool -> list N -> option spec_host.

(* None = failure *)
Definition sauth (sch T : list N) : option spec_url :=
  let '(W, HR) := after_at T in
  if opt_is_some W && starts_ae HR then None else
  let u1 := cred_of W (set_scheme empty_url sch) in
  let Hh := hs_host false HR in
  match hs_rest false HR with
  | 58 :: PR =>
      if is_nil Hh then None else
      match host_parsing shp true Hh with
      | None => None
      | Some sh =>
          let d := digits_of PR in
          let X := after_digits PR in
          if negb (starts_ae X) then None
          else if is_nil d then Some (sauth_tail (set_host u1 (Some sh)) X)
          else if 65535 <? decimal_value d then None
          else Some (sauth_tail (set_port (set_host u1 (Some sh)) (Some (decimal_value d))) X)
      end
  | X =>
      match host_parsing shp true Hh with
      | None => None
      | Some sh => Some (sauth_tail (set_host u1 (Some sh)) X)
      end
  end.

End SAuth.

(* ---------- the pieces of a text the class recogniser looks at ---------- *)
(* the string the host parser is applied to (if the states get that far) *)
Definition auth_host_text (T : list N) : list N := hs_host false (snd (after_at T)).
(* the text the path start state sees (if the states get that far) *)
Definition auth_path_text (T : list N) : list N :=
  match hs_rest false (snd (after_at T)) with
  | 58 :: PR => after_digits PR
  | X => X
  end.
(* a valid port number directly followed by '\' *)
Definition auth_port_bslash (T : list N) : bool :=
  match hs_rest false (snd (after_at T)) with
  | 58 :: PR => (decimal_value (digits_of PR) <=? 65535)
                && match after_digits PR with 92 :: _ => true | _ => false end
  | _ => false
  end.
