(* Proofs/C01_EqCover.v - coverage of the proved classes relative to Known_C01: Known_C01 (Model/KnownC01.v)
   consists of the file scheme (class 1) and of the EXACT exclusions of the class recognisers, computed on the
   raw text (classes 2-4), so that "outside Known_C01" implies "in the proved class":
     - no base: EVERY input with known_c01_v1 None input = 0 is in in_proved_class3 None;
     - a good_base pair of the right shape: every reference with known_c01_v1 (Some b) input = 0 is in
       in_proved_class3 (Some sb).
   Mechanism (Proofs/C01_KnownExact.v): the cuts of the authority Known_C01 makes are the cuts of the
   Standard's states; its raw path simulation (one drive-letter flag per segment) implies the test on the
   Standard's own state; the flags of the base path are read off the serialized path of the model record,
   which is the serialization of the Standard's segment list. *)
From Coq Require Import ZifyBool ZifyN.
From RU Require Import Base.Prelude Base.Utf8 Base.Utf8Facts Model.AsciiSet Gen.Tables
  Model.PercentEncoding Model.HostT Model.UrlRecord Model.Parser Model.Setters Model.WF Model.KnownC01 Spec.Whatwg
  Proofs.C02_Parts Proofs.C02_Path Proofs.C03_WF Proofs.C01_Tables Proofs.C08_Input
  Proofs.C01_EqRun Proofs.C01_EqEnc Proofs.C01_EqApi Proofs.C01_EqOpaque Proofs.C01_EqRef Proofs.C01_EqDots
  Proofs.C01_EqPathSpec Proofs.C01_EqPath Proofs.C01_EqEmpty
  Proofs.C01_EqClasses Proofs.C01_EqAuthSpec Proofs.C01_EqAuthModel Proofs.C01_EqAuth Proofs.C01_EqClasses2
  Proofs.C01_EqRel Proofs.C01_EqRelPath Proofs.C01_EqRelArms Proofs.C01_EqRelBase
  Proofs.C01_EqSpSpec Proofs.C01_EqSpPath Proofs.C01_EqSpModel Proofs.C01_EqSp Proofs.C01_KnownExact Proofs.C01_EqSpKnown
  Proofs.C01_EqAbs Proofs.C01_EqSpBase Proofs.C01_EqSpBare Proofs.C01_EqAsm Proofs.C01_EqShape.

Lemma orb_intro_r a b : b = true -> a || b = true.
Proof. intros ->. apply orb_true_r. Qed.

Lemma k_bad_ok x : k_bad x = 0 -> x = true.
Proof. destruct x; [reflexivity | discriminate]. Qed.

(* ================= no base: everything outside Known_C01 is in a proved class ================= *)
Theorem nonspecial_nobase_covers input sch R :
  spec_scheme (spec_clean input) = Some (sch, R) -> is_special_scheme sch = false -> known_c01_v1 None input = 0 ->
  in_class_opaque input || in_class_pathonly input || in_class_authority input = true.
Proof.
  intros Hs Hnsp Hk. destruct (known_exact_nobase input sch R Hs Hk) as (_ & Hd). rewrite Hnsp in Hd.
  destruct R as [|c1 R1].
  { assert (in_class_opaque input = true) as -> by (unfold in_class_opaque; rewrite Hs, Hnsp; reflexivity). reflexivity. }
  destruct (c1 =? 47) eqn:E1.
  2:{ assert (in_class_opaque input = true) as ->
        by (unfold in_class_opaque; rewrite Hs, Hnsp; cbn [starts_with_cp]; rewrite E1; reflexivity). reflexivity. }
  cbn [k_absolute] in Hd. rewrite E1 in Hd. apply N.eqb_eq in E1. subst c1.
  destruct R1 as [|c2 T].
  { apply orb_true_iff. left. apply orb_intro_r. unfold in_class_pathonly. rewrite Hs, Hnsp. reflexivity. }
  destruct (c2 =? 47) eqn:E2.
  - apply N.eqb_eq in E2. subst c2. apply orb_intro_r.
    unfold in_class_authority. rewrite Hs, Hnsp. cbn [negb andb N.eqb Pos.eqb].
    exact (k_auth_class_ok T Hd).
  - apply orb_true_iff. left. apply orb_intro_r. unfold in_class_pathonly. rewrite Hs, Hnsp.
    cbn [starts_with_cp negb andb]. rewrite E2. cbn [negb andb].
    exact (k_path_ok_spath0 _ (k_bad_ok _ Hd)).
Qed.

Theorem nobase_covers input : known_c01_v1 None input = 0 -> in_proved_class3 None input = true.
Proof.
  intros Hk. cbn [in_proved_class3]. unfold in_proved_nobase3.
  destruct (spec_scheme (spec_clean input)) as [[sch R]|] eqn:Hs.
  - destruct (is_special_scheme sch) eqn:Hsp.
    + rewrite (special_class_covers_known input sch R Hs Hsp Hk). rewrite orb_true_r. reflexivity.
    + rewrite (nonspecial_nobase_covers input sch R Hs Hsp Hk). reflexivity.
  - apply orb_intro_r. unfold in_class_noscheme_nobase. rewrite Hs. reflexivity.
Qed.

(* ================= the base record ================= *)
Section BaseCover.
Variable dbg : bool.
Variable shs : spec_host -> list N.

Lemma related_path b sb : related dbg shs b sb -> path b = Some (serialize_path sb).
Proof.
  intros R. pose proof (rel_wf _ _ _ _ R) as W. pose proof (rel_api _ _ _ _ R) as A.
  rewrite (api_of_model_eval dbg b W) in A. unfold spec_api_list in A.
  injection A as _ _ _ _ _ _ _ A8 _ _. rewrite (path_eval b W). f_equal. exact A8.
Qed.

Lemma related_cbb b sb : related dbg shs b sb -> k_cbb b = has_opaque_path sb.
Proof. intros R. unfold k_cbb. rewrite (rel_cbb _ _ _ _ R). destruct (has_opaque_path sb); reflexivity. Qed.

(* the drive-letter flags Known_C01 reads off the serialized path of the model record describe the
   Standard's segment list (without its last segment) *)
Lemma base_stack_wrel b sb : related dbg shs b sb -> has_opaque_path sb = false ->
  forallb no_slash (Whatwg.path_segments sb) = true ->
  wrel (removelast (Whatwg.path_segments sb)) (k_base_stack b).
Proof.
  intros R Hop Hns. unfold k_base_stack. rewrite (related_path b sb R).
  assert (serialize_path sb = flat_map (fun s => 47 :: s) (Whatwg.path_segments sb)) as EP.
  { unfold serialize_path, Whatwg.path_segments. unfold has_opaque_path in Hop. destruct (su_path sb); [discriminate Hop | reflexivity]. }
  rewrite EP. destruct (Whatwg.path_segments sb) as [|s P]; [exact wrel_nil|].
  cbn [flat_map app]. replace (47 =? 47) with true by reflexivity.
  cbn [forallb] in Hns. apply andb_true_iff in Hns. destruct Hns as [Hs HP].
  rewrite (k_split_flat P [] s Hs HP). cbn [app].
  apply wrel_removelast. apply wrel_map.
Qed.

(* ================= any base (file bases included): bare references ================= *)
(* empty, "?query", "#fragment": the classes of C01_EqRef / C01_EqEmpty hold for every kind of base *)
Theorem bare_ref_covers sb input :
  spec_scheme (spec_clean input) = None -> k_bare_ref (spec_clean input) = true ->
  in_proved_class3 (Some sb) input = true.
Proof.
  intros Hs Hb. cbn [in_proved_class3].
  destruct (starts_with_cp 35 (spec_clean input)) eqn:E35.
  { assert (in_class_fragment_only input = true) as -> by exact E35. reflexivity. }
  destruct (has_opaque_path sb) eqn:Hop.
  { assert (in_class_opaque_base_fail sb input = true) as ->
      by (unfold in_class_opaque_base_fail; rewrite Hop, Hs, E35; reflexivity).
    rewrite !orb_true_r. reflexivity. }
  destruct (spec_clean input) as [|c t] eqn:Ecl.
  { assert (in_class_empty_ref sb input = true) as -> by (unfold in_class_empty_ref; rewrite Hop, Ecl; reflexivity).
    rewrite !orb_true_r. reflexivity. }
  cbn [k_bare_ref] in Hb. cbn [starts_with_cp] in E35. unfold k_qh in Hb. rewrite E35, orb_false_r in Hb.
  assert (in_class_query_only sb input = true) as ->
    by (unfold in_class_query_only; rewrite Hop, Ecl; cbn [negb andb starts_with_cp]; exact Hb).
  rewrite !orb_true_r. reflexivity.
Qed.

(* ================= a non-special related base, scheme-less reference ================= *)
Theorem nonspecial_base_covers b sb input :
  good_base dbg shs b sb -> is_special_scheme (su_scheme sb) = false ->
  spec_scheme (spec_clean input) = None -> known_c01_v1 (Some b) input = 0 ->
  in_proved_class3 (Some sb) input = true.
Proof.
  intros [R Hok] Hnsp Hs Hk.
  destruct (known_exact_base_noscheme b input Hs Hk) as [Hbare|(_ & Hd)]; [exact (bare_ref_covers sb input Hs Hbare)|].
  rewrite (rel_sch _ _ _ _ R), Hnsp in Hd. unfold k_relative in Hd. rewrite (related_cbb b sb R) in Hd.
  cbn [in_proved_class3].
  destruct (has_opaque_path sb) eqn:Hop.
  { (* opaque-path base: '#' or failure *)
    destruct (starts_with_cp 35 (spec_clean input)) eqn:E35.
    - assert (in_class_fragment_only input = true) as -> by exact E35. reflexivity.
    - assert (in_class_opaque_base_fail sb input = true) as ->
        by (unfold in_class_opaque_base_fail; rewrite Hop, Hs, E35; reflexivity).
      rewrite !orb_true_r. reflexivity. }
  destruct (spec_clean input) as [|c t] eqn:Ecl.
  { assert (in_class_empty_ref sb input = true) as -> by (unfold in_class_empty_ref; rewrite Hop, Ecl; reflexivity).
    rewrite !orb_true_r. reflexivity. }
  destruct (c =? 35) eqn:E35.
  { assert (in_class_fragment_only input = true) as -> by (unfold in_class_fragment_only; rewrite Ecl; exact E35). reflexivity. }
  destruct (c =? 63) eqn:E63.
  { assert (in_class_query_only sb input = true) as ->
      by (unfold in_class_query_only; rewrite Hop, Ecl; cbn [negb andb starts_with_cp]; exact E63).
    rewrite !orb_true_r. reflexivity. }
  unfold k_qh in Hd. rewrite E35, E63 in Hd. cbn [orb] in Hd.
  apply orb_true_iff. left. apply orb_true_iff. left. apply orb_intro_r. unfold in_class_relative.
  destruct (c =? 47) eqn:E47.
  - apply N.eqb_eq in E47. subst c.
    destruct (starts_with_cp 47 t) eqn:E2.
    + (* "//": scheme-relative *)
      destruct t as [|c2 T]; [discriminate E2|]. cbn [starts_with_cp] in E2. rewrite E2 in Hd. apply N.eqb_eq in E2. subst c2.
      apply orb_intro_r. unfold in_class_rel_authority. rewrite Hop, Hnsp, Ecl. cbn [negb andb N.eqb Pos.eqb].
      exact (k_auth_class_ok T Hd).
    + (* "/x": path-absolute *)
      apply orb_true_iff. left. apply orb_true_iff. left.
      unfold in_class_rel_abs. rewrite Hop, Hnsp, Ecl, E2. cbn [negb andb N.eqb Pos.eqb].
      destruct t as [|c2 T]; [reflexivity|]. cbn [starts_with_cp] in E2. rewrite E2 in Hd.
      exact (k_path_ok_spath0 _ (k_bad_ok _ Hd)).
  - (* path-relative *)
    apply orb_true_iff. left. apply orb_intro_r.
    unfold in_class_rel_path. rewrite Hop, Hnsp, Ecl, Hs, E47, E63, E35. cbn [negb andb].
    apply andb_true_iff in Hok. destruct Hok as [_ HnsP].
    change (@nil N) with (upe in_path_set []).
    apply (k_path_ok_spath (c :: t) _ (k_base_stack b) []); [exact (base_stack_wrel b sb R Hop HnsP)|].
    exact (k_bad_ok _ Hd).
Qed.

(* ================= a special non-file base with a host, scheme-less reference ================= *)
Theorem special_base_covers b sb input :
  good_base dbg shs b sb -> sp_base_ok sb = true ->
  spec_scheme (spec_clean input) = None -> known_c01_v1 (Some b) input = 0 ->
  in_proved_class3 (Some sb) input = true.
Proof.
  intros [R Hok] Hsb Hs Hk.
  destruct (sp_base_ok_facts sb Hsb) as (Hop & Hsp & Hnf & h & Eh).
  destruct (known_exact_base_noscheme b input Hs Hk) as [Hbare|(_ & Hd)]; [exact (bare_ref_covers sb input Hs Hbare)|].
  rewrite (rel_sch _ _ _ _ R), Hsp in Hd. unfold k_relative in Hd. rewrite (related_cbb b sb R), Hop in Hd.
  cbn [in_proved_class3].
  destruct (spec_clean input) as [|c t] eqn:Ecl.
  { assert (in_class_empty_ref sb input = true) as -> by (unfold in_class_empty_ref; rewrite Hop, Ecl; reflexivity).
    rewrite !orb_true_r. reflexivity. }
  destruct (c =? 35) eqn:E35.
  { assert (in_class_fragment_only input = true) as -> by (unfold in_class_fragment_only; rewrite Ecl; exact E35). reflexivity. }
  destruct (c =? 63) eqn:E63.
  { assert (in_class_query_only sb input = true) as ->
      by (unfold in_class_query_only; rewrite Hop, Ecl; cbn [negb andb starts_with_cp]; exact E63).
    rewrite !orb_true_r. reflexivity. }
  unfold k_qh in Hd. rewrite E35, E63 in Hd. cbn [orb] in Hd. change (k_sl c) with (is_sl c) in Hd.
  apply orb_intro_r. unfold in_class_relative_s.
  pose proof Hok as Hok0. apply andb_true_iff in Hok0. destruct Hok0 as [Hcan HnsP].
  destruct (is_sl c) eqn:Esl.
  - destruct t as [|c2 T].
    + apply orb_true_iff. left. apply orb_true_iff. left. apply orb_true_iff. left. apply orb_true_iff. left. apply orb_true_iff. left.
      unfold in_class_rel_abs_s. rewrite Hsb, Ecl, Esl. reflexivity.
    + change (k_sl c2) with (is_sl c2) in Hd. destruct (is_sl c2) eqn:Esl2.
      * apply orb_true_iff. left. apply orb_true_iff. left. apply orb_true_iff. left. apply orb_intro_r. rewrite Hcan. cbn [andb].
        unfold in_class_rel_authority_s. rewrite Hop, Hsp, Hnf, Ecl, Esl, Esl2. cbn [negb andb].
        exact (k_special_class_ok T Hd).
      * apply orb_true_iff. left. apply orb_true_iff. left. apply orb_true_iff. left. apply orb_true_iff. left. apply orb_true_iff. left.
        unfold in_class_rel_abs_s. rewrite Hsb, Ecl, Esl, Esl2. cbn [negb andb].
        exact (k_path_ok_spath_s0 _ (k_bad_ok _ Hd)).
  - apply orb_true_iff. left. apply orb_true_iff. left. apply orb_true_iff. left. apply orb_true_iff. left. apply orb_intro_r.
    unfold in_class_rel_path_s. rewrite Hsb, Ecl, Hs, Esl, E63, E35. cbn [negb andb].
    change (@nil N) with (upe in_path_set []).
    apply (k_path_ok_spath_s (c :: t) _ (k_base_stack b) []); [exact (base_stack_wrel b sb R Hop HnsP)|].
    exact (k_bad_ok _ Hd).
Qed.

(* ================= any base, a reference with a scheme of its own that makes the base irrelevant ================= *)
(* (the model record and the Standard's record must carry the same scheme - part of `related`) *)
Theorem own_scheme_base_covers sb b input sch R :
  b_scheme b = su_scheme sb ->
  spec_scheme (spec_clean input) = Some (sch, R) ->
  is_special_scheme sch = false \/ list_eqb (su_scheme sb) sch = false ->
  known_c01_v1 (Some b) input = 0 -> in_proved_class3 (Some sb) input = true.
Proof.
  intros Hsch Hs Hign Hk.
  assert (is_special_scheme sch && list_eqb sch (b_scheme b) && negb (k_two_sl R) = false) as Hi.
  { destruct Hign as [H|H]; [rewrite H; reflexivity|]. rewrite Hsch, list_eqb_sym', H. rewrite andb_false_r. reflexivity. }
  pose proof (known_exact_absolute b input sch R Hs Hi Hk) as Hk0.
  destruct (known_exact_nobase input sch R Hs Hk0) as (Hnf & _).
  cbn [in_proved_class3]. apply orb_true_iff. left. apply orb_intro_r. unfold in_class_abs_base. rewrite Hs.
  apply andb_true_iff. split; [|exact (nobase_covers input Hk0)].
  apply orb_true_iff. left.
  unfold base_ignored. rewrite Hnf. cbn [negb andb].
  destruct Hign as [H|H]; rewrite H; [reflexivity | apply orb_true_r].
Qed.

(* ================= a special base, a reference with the scheme of the base ================= *)
Theorem same_scheme_base_covers b sb input R :
  good_base dbg shs b sb -> sp_base_ok sb = true ->
  spec_scheme (spec_clean input) = Some (su_scheme sb, R) ->
  known_c01_v1 (Some b) input = 0 -> in_proved_class3 (Some sb) input = true.
Proof.
  intros [Rl Hok] Hsb Hs Hk.
  destruct (sp_base_ok_facts sb Hsb) as (Hop & Hsp & Hnf & h & Eh).
  pose proof Hok as Hok0. apply andb_true_iff in Hok0. destruct Hok0 as [Hcan HnsP].
  destruct (known_exact_base_scheme b input _ R Hs Hk) as (_ & Hd).
  rewrite (rel_sch _ _ _ _ Rl), Hsp, list_eqb_refl in Hd. cbn [andb] in Hd.
  cbn [in_proved_class3].
  assert (forall X, X = true -> in_class_same_bare sb input = X -> in_class_fragment_only input || in_class_query_only sb input
            || in_class_opaque_base_fail sb input || in_class_empty_ref sb input || in_class_relative sb input
            || in_class_abs_base sb input || in_class_relative_s sb input = true) as Kbare.
  { intros X -> E. apply orb_intro_r. unfold in_class_relative_s. apply orb_intro_r. exact E. }
  destruct R as [|c t].
  { apply (Kbare _ eq_refl). unfold in_class_same_bare. rewrite Hsb, Hs, list_eqb_refl. reflexivity. }
  destruct (is_qh c) eqn:Hbare.
  { apply (Kbare _ eq_refl). unfold in_class_same_bare. rewrite Hsb, Hs, list_eqb_refl, Hbare. reflexivity. }
  destruct (is_sl c) eqn:Esl.
  - destruct (match t with c2 :: _ => is_sl c2 | [] => false end) eqn:Esl2.
    + (* two slashes: the base is ignored *)
      assert (k_two_sl (c :: t) = true) as E2 by (destruct t as [|c2 T]; [discriminate Esl2|]; cbn [k_two_sl]; change (k_sl c) with (is_sl c); change (k_sl c2) with (is_sl c2); rewrite Esl, Esl2; reflexivity).
      assert (is_special_scheme (su_scheme sb) && list_eqb (su_scheme sb) (b_scheme b) && negb (k_two_sl (c :: t)) = false) as Hi
        by (rewrite E2; apply andb_false_r).
      apply orb_true_iff. left. apply orb_intro_r. unfold in_class_abs_base. rewrite Hs.
      apply andb_true_iff. split; [|exact (nobase_covers input (known_exact_absolute b input _ _ Hs Hi Hk))].
      apply orb_intro_r. unfold same_two_sl. rewrite list_eqb_refl, Hsp, Hnf. cbn [negb andb].
      destruct t as [|c2 T]; [discriminate Esl2|]. cbn [two_sl]. rewrite Esl, Esl2. reflexivity.
    + assert (k_two_sl (c :: t) = false) as E2 by (destruct t as [|c2 T]; [reflexivity|]; cbn [k_two_sl]; change (k_sl c2) with (is_sl c2); rewrite Esl2; apply andb_false_r).
      rewrite E2 in Hd. cbn [negb] in Hd. unfold k_relative in Hd. rewrite (related_cbb b sb Rl), Hop in Hd.
      change (k_qh c) with (is_qh c) in Hd. change (k_sl c) with (is_sl c) in Hd. rewrite Hbare, Esl in Hd.
      apply orb_intro_r. unfold in_class_relative_s. apply orb_true_iff. left. apply orb_true_iff. left. apply orb_intro_r.
      unfold in_class_same_abs_s. rewrite Hsb, Hs, list_eqb_refl, Esl, Esl2. cbn [negb andb].
      destruct t as [|c2 T]; [reflexivity|]. change (k_sl c2) with (is_sl c2) in Hd. rewrite Esl2 in Hd.
      exact (k_path_ok_spath_s0 _ (k_bad_ok _ Hd)).
  - assert (k_two_sl (c :: t) = false) as E2 by (destruct t as [|c2 T]; [reflexivity|]; cbn [k_two_sl]; change (k_sl c) with (is_sl c); rewrite Esl; reflexivity).
    rewrite E2 in Hd. cbn [negb] in Hd. unfold k_relative in Hd. rewrite (related_cbb b sb Rl), Hop in Hd.
    change (k_qh c) with (is_qh c) in Hd. change (k_sl c) with (is_sl c) in Hd. rewrite Hbare, Esl in Hd.
    apply orb_intro_r. unfold in_class_relative_s. apply orb_true_iff. left. apply orb_intro_r.
    unfold in_class_same_path_s. rewrite Hsb, Hs, list_eqb_refl, Esl. cbn [negb andb].
    unfold is_qh in Hbare. apply orb_false_iff in Hbare. destruct Hbare as [E63 E35]. rewrite E63, E35. cbn [negb andb].
    change (@nil N) with (upe in_path_set []).
    apply (k_path_ok_spath_s (c :: t) _ (k_base_stack b) []); [exact (base_stack_wrel b sb Rl Hop HnsP)|].
    exact (k_bad_ok _ Hd).
Qed.

End BaseCover.

(* ================= every base, every reference ================= *)
(* what is asked of a base record beyond good_base: base_shape_ok (Proofs/C01_EqShape.v) - a special non-file
   record is not opaque and has a host (true of every parse result, and of every result of the proved
   classes: class3_result_full) *)

Theorem base_covers dbg shs b sb input :
  good_base dbg shs b sb -> base_shape_ok sb = true ->
  known_c01_v1 (Some b) input = 0 -> in_proved_class3 (Some sb) input = true.
Proof.
  intros Hb Hshape Hk. pose proof Hb as [Rl Hok].
  destruct (spec_scheme (spec_clean input)) as [[sch R]|] eqn:Hs.
  - destruct (is_special_scheme sch) eqn:Hsp; [|exact (own_scheme_base_covers sb b input sch R (rel_sch _ _ _ _ Rl) Hs (or_introl Hsp) Hk)].
    destruct (list_eqb (su_scheme sb) sch) eqn:Eq; [|exact (own_scheme_base_covers sb b input sch R (rel_sch _ _ _ _ Rl) Hs (or_intror Eq) Hk)].
    apply list_eqb_spec in Eq. subst sch.
    destruct (known_exact_base_scheme b input _ R Hs Hk) as (Hnf & _).
    unfold base_shape_ok in Hshape. rewrite Hsp, Hnf in Hshape. cbn [negb orb] in Hshape.
    exact (same_scheme_base_covers dbg shs b sb input R Hb Hshape Hs Hk).
  - destruct (known_exact_base_noscheme b input Hs Hk) as [Hbare|(Hnf & _)]; [exact (bare_ref_covers sb input Hs Hbare)|].
    rewrite (rel_sch _ _ _ _ Rl) in Hnf.
    destruct (is_special_scheme (su_scheme sb)) eqn:Hsp; [|exact (nonspecial_base_covers dbg shs b sb input Hb Hsp Hs Hk)].
    unfold base_shape_ok in Hshape. rewrite Hsp, Hnf in Hshape. cbn [negb orb] in Hshape.
    exact (special_base_covers dbg shs b sb input Hb Hshape Hs Hk).
Qed.

(* ================= C01_statement, slice by slice ================= *)
From RU Require Import Model.Host Spec.WhatwgHost Spec.WhatwgHostParse Proofs.C09_Host.

Section Statements.
Variable dbg : bool.
Variable hp hpo : list N -> result host.
Variable hd : host -> list N.
Variable shp : bool -> list N -> option spec_host.
Variable shs : spec_host -> list N.

(* base = None: every input outside Known_C01 *)
Theorem statement_nobase input : usv_list input -> known_c01_v1 None input = 0 ->
  host_hyp3 hp hpo hd shp shs None input ->
  agree_good dbg shs (parse_url dbg hp hpo hd None None input) (spec_basic_url_parse shp input None).
Proof.
  intros Hu Hk HH. apply (partial_equivalence_good3 dbg hp hpo hd shp shs input None None Hu I); [|exact HH].
  exact (nobase_covers input Hk).
Qed.

(* a good_base pair with a non-special scheme, scheme-less reference outside Known_C01 *)
Theorem statement_nonspecial_base b sb input : usv_list input ->
  good_base dbg shs b sb -> is_special_scheme (su_scheme sb) = false ->
  spec_scheme (spec_clean input) = None -> known_c01_v1 (Some b) input = 0 ->
  host_hyp3 hp hpo hd shp shs (Some sb) input ->
  agree_good dbg shs (parse_url dbg hp hpo hd None (Some b) input) (spec_basic_url_parse shp input (Some sb)).
Proof.
  intros Hu Hb Hnsp Hs Hk HH. apply (partial_equivalence_good3 dbg hp hpo hd shp shs input (Some b) (Some sb) Hu Hb); [|exact HH].
  exact (nonspecial_base_covers dbg shs b sb input Hb Hnsp Hs Hk).
Qed.

(* any good_base pair (special, file and opaque-path bases included), a reference with a scheme of its own
   that is non-special, or special and not the scheme of the base *)
Theorem statement_own_scheme_base b sb input sch R : usv_list input ->
  good_base dbg shs b sb -> spec_scheme (spec_clean input) = Some (sch, R) ->
  is_special_scheme sch = false \/ list_eqb (su_scheme sb) sch = false ->
  known_c01_v1 (Some b) input = 0 ->
  host_hyp3 hp hpo hd shp shs (Some sb) input ->
  agree_good dbg shs (parse_url dbg hp hpo hd None (Some b) input) (spec_basic_url_parse shp input (Some sb)).
Proof.
  intros Hu Hb Hs Hign Hk HH. apply (partial_equivalence_good3 dbg hp hpo hd shp shs input (Some b) (Some sb) Hu Hb); [|exact HH].
  exact (own_scheme_base_covers sb b input sch R (rel_sch _ _ _ _ (proj1 Hb)) Hs Hign Hk).
Qed.

(* a good_base pair with a special non-file scheme and a host, scheme-less reference *)
Theorem statement_special_base b sb input : usv_list input ->
  good_base dbg shs b sb -> sp_base_ok sb = true ->
  spec_scheme (spec_clean input) = None -> known_c01_v1 (Some b) input = 0 ->
  host_hyp3 hp hpo hd shp shs (Some sb) input ->
  agree_good dbg shs (parse_url dbg hp hpo hd None (Some b) input) (spec_basic_url_parse shp input (Some sb)).
Proof.
  intros Hu Hb Hsb Hs Hk HH. apply (partial_equivalence_good3 dbg hp hpo hd shp shs input (Some b) (Some sb) Hu Hb); [|exact HH].
  exact (special_base_covers dbg shs b sb input Hb Hsb Hs Hk).
Qed.

(* any base: a good_base pair of the right shape, any reference outside Known_C01 *)
Theorem statement_base b sb input : usv_list input ->
  good_base dbg shs b sb -> base_shape_ok sb = true ->
  known_c01_v1 (Some b) input = 0 ->
  host_hyp3 hp hpo hd shp shs (Some sb) input ->
  agree_good dbg shs (parse_url dbg hp hpo hd None (Some b) input) (spec_basic_url_parse shp input (Some sb)).
Proof.
  intros Hu Hb Hshape Hk HH. apply (partial_equivalence_good3 dbg hp hpo hd shp shs input (Some b) (Some sb) Hu Hb); [|exact HH].
  exact (base_covers dbg shs b sb input Hb Hshape Hk).
Qed.

(* ---------- all of it: no base, or a full_base pair ---------- *)
Definition full_rel (base : option url) (sbase : option spec_url) : Prop :=
  match base, sbase with
  | None, None => True
  | Some b, Some sb => full_base dbg shs b sb
  | _, _ => False
  end.

Theorem all_covers input base sbase : full_rel base sbase ->
  known_c01_v1 base input = 0 -> in_proved_class3 sbase input = true.
Proof.
  intros Hb Hk. destruct base as [b|]; destruct sbase as [sb|]; cbn [full_rel] in Hb; try contradiction.
  - destruct Hb as [Hg Hs]. exact (base_covers dbg shs b sb input Hg Hs Hk).
  - exact (nobase_covers input Hk).
Qed.

Theorem statement_all input base sbase : usv_list input ->
  full_rel base sbase -> known_c01_v1 base input = 0 ->
  host_hyp3 hp hpo hd shp shs sbase input ->
  agree_good dbg shs (parse_url dbg hp hpo hd None base input) (spec_basic_url_parse shp input sbase)
  /\ (forall su u, spec_basic_url_parse shp input sbase = BDone su -> parse_url dbg hp hpo hd None base input = POk u ->
        full_base dbg shs u su).
Proof.
  intros Hu Hb Hk HH. pose proof (all_covers input base sbase Hb Hk) as Hc.
  assert (base_rel3 dbg shs base sbase) as Hb3.
  { destruct base as [b|]; destruct sbase as [sb|]; cbn [full_rel] in Hb; try contradiction; [exact (proj1 Hb) | exact I]. }
  pose proof (partial_equivalence_good3 dbg hp hpo hd shp shs input base sbase Hu Hb3 Hc HH) as A.
  split; [exact A|]. intros su u HS Hm. rewrite HS in A.
  exact (class3_result_full dbg shs shp input base sbase _ su u Hu Hb Hc HS A Hm).
Qed.

End Statements.

(* the same for the parser model with the host model plugged in against the Standard's parser with the
   Standard's host parser, relative to IdnaOK idna only *)
Theorem statement_nobase_model dbg idna : IdnaOK idna -> forall input,
  usv_list input -> known_c01_v1 None input = 0 ->
  agree_good dbg spec_host_serializer
    (parse_url dbg (host_parse idna) host_parse_opaque host_display None None input)
    (spec_basic_url_parse (spec_host_parser idna) input None).
Proof.
  intros HI input Hu Hk. apply statement_nobase; [exact Hu | exact Hk|].
  apply host_hyp3_model; [exact (idna_out idna HI) | exact Hu].
Qed.

Theorem statement_nonspecial_base_model dbg idna : IdnaOK idna -> forall b sb input,
  usv_list input -> good_base dbg spec_host_serializer b sb -> is_special_scheme (su_scheme sb) = false ->
  spec_scheme (spec_clean input) = None -> known_c01_v1 (Some b) input = 0 ->
  agree_good dbg spec_host_serializer
    (parse_url dbg (host_parse idna) host_parse_opaque host_display None (Some b) input)
    (spec_basic_url_parse (spec_host_parser idna) input (Some sb)).
Proof.
  intros HI b sb input Hu Hb Hnsp Hs Hk. apply statement_nonspecial_base; try assumption.
  apply host_hyp3_model; [exact (idna_out idna HI) | exact Hu].
Qed.

Theorem statement_own_scheme_base_model dbg idna : IdnaOK idna -> forall b sb input sch R,
  usv_list input -> good_base dbg spec_host_serializer b sb -> spec_scheme (spec_clean input) = Some (sch, R) ->
  is_special_scheme sch = false \/ list_eqb (su_scheme sb) sch = false ->
  known_c01_v1 (Some b) input = 0 ->
  agree_good dbg spec_host_serializer
    (parse_url dbg (host_parse idna) host_parse_opaque host_display None (Some b) input)
    (spec_basic_url_parse (spec_host_parser idna) input (Some sb)).
Proof.
  intros HI b sb input sch R Hu Hb Hs Hign Hk. apply (statement_own_scheme_base dbg _ _ _ _ _ b sb input sch R); try assumption.
  apply host_hyp3_model; [exact (idna_out idna HI) | exact Hu].
Qed.

Theorem statement_special_base_model dbg idna : IdnaOK idna -> forall b sb input,
  usv_list input -> good_base dbg spec_host_serializer b sb -> sp_base_ok sb = true ->
  spec_scheme (spec_clean input) = None -> known_c01_v1 (Some b) input = 0 ->
  agree_good dbg spec_host_serializer
    (parse_url dbg (host_parse idna) host_parse_opaque host_display None (Some b) input)
    (spec_basic_url_parse (spec_host_parser idna) input (Some sb)).
Proof.
  intros HI b sb input Hu Hb Hsb Hs Hk. apply statement_special_base; try assumption.
  apply host_hyp3_model; [exact (idna_out idna HI) | exact Hu].
Qed.

Theorem statement_base_model dbg idna : IdnaOK idna -> forall b sb input,
  usv_list input -> good_base dbg spec_host_serializer b sb -> base_shape_ok sb = true ->
  known_c01_v1 (Some b) input = 0 ->
  agree_good dbg spec_host_serializer
    (parse_url dbg (host_parse idna) host_parse_opaque host_display None (Some b) input)
    (spec_basic_url_parse (spec_host_parser idna) input (Some sb)).
Proof.
  intros HI b sb input Hu Hb Hshape Hk. apply statement_base; try assumption.
  apply host_hyp3_model; [exact (idna_out idna HI) | exact Hu].
Qed.

Theorem statement_all_model dbg idna : IdnaOK idna -> forall input base sbase,
  usv_list input -> full_rel dbg spec_host_serializer base sbase -> known_c01_v1 base input = 0 ->
  agree_good dbg spec_host_serializer
    (parse_url dbg (host_parse idna) host_parse_opaque host_display None base input)
    (spec_basic_url_parse (spec_host_parser idna) input sbase)
  /\ (forall su u, spec_basic_url_parse (spec_host_parser idna) input sbase = BDone su ->
        parse_url dbg (host_parse idna) host_parse_opaque host_display None base input = POk u ->
        full_base dbg spec_host_serializer u su).
Proof.
  intros HI input base sbase Hu Hb Hk. apply statement_all; try assumption.
  apply host_hyp3_model; [exact (idna_out idna HI) | exact Hu].
Qed.

(* ================= the statement in the shape of C01_statement ================= *)
(* the ten API strings of a model record as a total function (the getters do not panic on the records the
   theorem returns) *)
Definition api_total (dbg : bool) (u : url) : list (list N) :=
  match api_of_model dbg u with Some l => l | None => [] end.

(* the match of C01_statement, with the one outcome pair the Standard does not know made explicit *)
Definition statement_shape (dbg : bool) (shs : spec_host -> list N) (m : pres url) (s : parse_outcome) : Prop :=
  match m, s with
  | POk u, BDone su => api_total dbg u = spec_api_list shs su
  | PErr Overflow, BDone su => U32_MAX_P < nlen (get_href shs su)
  | PErr _, BFailure _ => True
  | _, _ => False
  end.

Lemma agree_good_shape dbg shs m s : agree_good dbg shs m s -> statement_shape dbg shs m s.
Proof.
  unfold agree_good, statement_shape. destruct s as [su|uf|].
  - intros [_ [[-> B]|(u & -> & R)]]; [exact B|]. unfold api_total. rewrite (rel_api _ _ _ _ R). reflexivity.
  - intros [e ->]. destruct e; exact I.
  - intros [].
Qed.

Theorem statement_instance dbg idna : IdnaOK idna -> forall input base sbase,
  usv_list input -> full_rel dbg spec_host_serializer base sbase -> known_c01_v1 base input = 0 ->
  statement_shape dbg spec_host_serializer
    (parse_url dbg (host_parse idna) host_parse_opaque host_display None base input)
    (spec_basic_url_parse (spec_host_parser idna) input sbase).
Proof.
  intros HI input base sbase Hu Hb Hk. apply agree_good_shape.
  exact (proj1 (statement_all_model dbg idna HI input base sbase Hu Hb Hk)).
Qed.

(* ================= the classes of Known_C01 are inhabited by real divergences ================= *)
(* the identity as the domain-to-ASCII oracle: all witnesses are ASCII *)
Definition id_idna (x : list N) : option (list N) := Some x.
Definition sides_differ (base : option url) (sbase : option spec_url) (input : list N) : Prop :=
  ~ statement_shape true spec_host_serializer
      (parse_url true (host_parse id_idna) host_parse_opaque host_display None base input)
      (spec_basic_url_parse (spec_host_parser id_idna) input sbase).

Definition wit_k1 : list N := [102;105;108;101;58;47;47;47;67;124].          (* file:///C|   : file:///C| vs file:///C: *)
Definition wit_k2 : list N := [110;58;47;67;124;47;46;46].                    (* n:/C|/..     : n:/C|/ vs n:/ *)
Definition wit_k3 : list N := [110;58;47;47;120;46;121;58;56;92].             (* n://x.y:8\   : accepted vs failure *)
Definition wit_k4 : list N := [98;108;111;98;58;47;47;58;64;47].              (* blob://:@/   : accepted vs failure *)

Theorem known_classes_refuted :
  (known_c01_v1 None wit_k1 = 1 /\ sides_differ None None wit_k1)
  /\ (known_c01_v1 None wit_k2 = 2 /\ sides_differ None None wit_k2)
  /\ (known_c01_v1 None wit_k3 = 3 /\ sides_differ None None wit_k3)
  /\ (known_c01_v1 None wit_k4 = 4 /\ sides_differ None None wit_k4).
Proof.
  repeat split; try (vm_compute; reflexivity); unfold sides_differ; vm_compute; intros H; try exact H; try discriminate H.
Qed.

(* class 2 through the base: "../y" against n:/C:/x  (n:/C:/y vs n:/y) *)
Definition wit_k2_base : list N := [110;58;47;67;58;47;120].                  (* n:/C:/x *)
Definition wit_k2_ref : list N := [46;46;47;121].                             (* ../y *)
Theorem known_class2_base_refuted :
  match parse_url true (host_parse id_idna) host_parse_opaque host_display None None wit_k2_base,
        spec_basic_url_parse (spec_host_parser id_idna) wit_k2_base None with
  | POk b, BDone sb => known_c01_v1 (Some b) wit_k2_ref = 2 /\ known_c01_v1 None wit_k2_base = 0
                       /\ sides_differ (Some b) (Some sb) wit_k2_ref
  | _, _ => False
  end.
Proof.
  vm_compute. split; [reflexivity|]. split; [reflexivity|]. intros H; discriminate H.
Qed.

(* inputs of the former broad classes that the exact classes leave (and on which the sides agree by
   statement_all): ':@' in a special URL and inside credentials, a drive-letter-shaped segment that no ".."
   meets, a backslash in the path / query of a non-special URL *)
Definition nar_1 : list N := [104;116;116;112;58;47;47;117;58;64;104;47].            (* http://u:@h/ *)
Definition nar_2 : list N := [110;58;47;47;117;58;64;104;47;58;64].                  (* n://u:@h/:@ *)
Definition nar_3 : list N := [110;58;47;47;104;47;67;58;47;120;47;46;46].            (* n://h/C:/x/.. *)
Definition nar_4 : list N := [110;58;47;47;104;58;56;47;97;92;98;63;92].             (* n://h:8/a\b?\ *)
Theorem known_narrowed :
  (known_c01_broad None nar_1 = 4 /\ known_c01_v1 None nar_1 = 0)
  /\ (known_c01_broad None nar_2 = 4 /\ known_c01_v1 None nar_2 = 0)
  /\ (known_c01_broad None nar_3 = 2 /\ known_c01_v1 None nar_3 = 0)
  /\ (known_c01_broad None nar_4 = 3 /\ known_c01_v1 None nar_4 = 0).
Proof. vm_compute. repeat split. Qed.

(* class 1 does not contain the bare references against a file base *)
Definition file_base_text : list N := [102;105;108;101;58;47;47;104;47;116;109;112;47;120].   (* file://h/tmp/x *)
Theorem known_file_bare :
  match parse_url true (host_parse id_idna) host_parse_opaque host_display None None file_base_text with
  | POk b => known_c01_v1 (Some b) [35; 102] = 0 /\ known_c01_v1 (Some b) [63; 113] = 0 /\ known_c01_v1 (Some b) [] = 0
             /\ known_c01_v1 (Some b) [32; 9] = 0 /\ known_c01_v1 (Some b) [120] = 1 /\ known_c01_v1 (Some b) [47; 120] = 1
  | _ => False
  end.
Proof. vm_compute. repeat split. Qed.
