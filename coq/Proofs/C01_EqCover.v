(* Proofs/C01_EqCover.v - coverage of the proved classes relative to Known_C01: every exclusion of a class
   recogniser lies inside Known_C01 (Model/KnownC01.v), so that "outside Known_C01" implies "in the proved
   class":
     - no base: EVERY input with known_c01 None input = 0 is in in_proved_class3 None;
     - a `related` base with a non-special scheme (opaque path or not): every scheme-less reference with
       known_c01 (Some b) input = 0 is in in_proved_class3 (Some sb).
   Mechanism: the exclusions are (a) authority exactly ":@" -> the text contains ":@" (class 4); (b) a port
   followed by a backslash -> the text contains a backslash (class 3, non-special schemes); (c) a ".." meeting
   a drive-letter-shaped segment of the Standard's segment list -> the raw text, or the path of the base,
   contains a drive-letter-shaped piece (class 2). *)
From RU Require Import Base.Prelude Base.Utf8 Base.Utf8Facts Model.AsciiSet Gen.Tables
  Model.PercentEncoding Model.HostT Model.UrlRecord Model.Parser Model.Setters Model.WF Model.KnownC01 Spec.Whatwg
  Proofs.C02_Parts Proofs.C02_Path Proofs.C03_WF Proofs.C01_Tables Proofs.C08_Input
  Proofs.C01_EqRun Proofs.C01_EqEnc Proofs.C01_EqApi Proofs.C01_EqOpaque Proofs.C01_EqRef
  Proofs.C01_EqPathSpec Proofs.C01_EqPath Proofs.C01_EqEmpty
  Proofs.C01_EqClasses Proofs.C01_EqAuthSpec Proofs.C01_EqAuthModel Proofs.C01_EqAuth Proofs.C01_EqClasses2
  Proofs.C01_EqRel Proofs.C01_EqRelPath Proofs.C01_EqRelArms Proofs.C01_EqRelBase
  Proofs.C01_EqSpSpec Proofs.C01_EqSpPath Proofs.C01_EqSpModel Proofs.C01_EqSp Proofs.C01_EqSpKnown
  Proofs.C01_EqAbs Proofs.C01_EqSpBase Proofs.C01_EqSpBare Proofs.C01_EqAsm Proofs.C01_EqShape.

(* ================= suffixes ================= *)
Definition suffix_of (s t : list N) : Prop := exists pre, t = pre ++ s.

Lemma suffix_refl t : suffix_of t t.
Proof. exists []. reflexivity. Qed.
Lemma suffix_trans a b c : suffix_of a b -> suffix_of b c -> suffix_of a c.
Proof. intros [p1 ->] [p2 ->]. exists (p2 ++ p1). rewrite app_assoc. reflexivity. Qed.
Lemma suffix_cons c s t : suffix_of (c :: s) t -> suffix_of s t.
Proof. intros [p ->]. exists (p ++ [c]). rewrite <- app_assoc. reflexivity. Qed.
Lemma suffix_in x s t : suffix_of s t -> In x s -> In x t.
Proof. intros [p ->] H. apply in_or_app. right. exact H. Qed.

Lemma memb_false_suffix c s t : suffix_of s t -> memb c t = false -> memb c s = false.
Proof.
  intros Hs H. destruct (memb c s) eqn:E; [|reflexivity]. apply memb_spec in E.
  pose proof (suffix_in c s t Hs E) as K. apply memb_spec in K. congruence.
Qed.

Lemma hs_rest_suffix t : forall br, suffix_of (hs_rest br t) t.
Proof.
  induction t as [|c r IH]; intros br; [apply suffix_refl|]. cbn [hs_rest].
  destruct (hs_stop br c); [apply suffix_refl|]. destruct (IH (br_next br c)) as [p E]. exists (c :: p). rewrite E at 1. reflexivity.
Qed.

Lemma after_at_suffix T : suffix_of (snd (after_at T)) T.
Proof.
  unfold after_at. destruct (last_at (a_part T)) as [[w h]|] eqn:E; cbn [snd]; [|apply suffix_refl].
  exists (w ++ [64]). rewrite <- (a_part_rest T) at 1. rewrite (last_at_split _ _ _ E). rewrite <- !app_assoc. reflexivity.
Qed.

Lemma after_digits_suffix t : suffix_of (after_digits t) t.
Proof. exists (digits_of t). symmetry. apply digits_after. Qed.

Lemma port_split_suffix X PR : port_split X = Some PR -> suffix_of PR X.
Proof.
  destruct X as [|c r]; [discriminate|]. cbn [port_split]. destruct (c =? 58); [|discriminate].
  intros H. inversion H; subst. exists [c]. reflexivity.
Qed.

Lemma auth_path_text_suffix T : suffix_of (auth_path_text T) T.
Proof.
  unfold auth_path_text.
  pose proof (suffix_trans _ _ _ (hs_rest_suffix (snd (after_at T)) false) (after_at_suffix T)) as S1.
  destruct (port_split (hs_rest false (snd (after_at T)))) as [PR|] eqn:E; [|exact S1].
  exact (suffix_trans _ _ _ (after_digits_suffix PR) (suffix_trans _ _ _ (port_split_suffix _ _ E) S1)).
Qed.

(* ================= ":@" ================= *)
Lemma has_colon_at_suffix s t : suffix_of s t -> has_colon_at t = false -> has_colon_at s = false.
Proof.
  intros [p ->]. induction p as [|x p IH]; [exact (fun H => H)|]. intros H. apply IH.
  cbn [app] in H. remember (p ++ s) as t eqn:E. destruct t as [|b t']; [reflexivity|].
  cbn [has_colon_at] in H. apply orb_false_iff in H. tauto.
Qed.

Lemma a_part_colon_at T : list_eqb (a_part T) [58; 64] = true -> has_colon_at T = true.
Proof.
  intros H. apply list_eqb_spec in H. rewrite <- (a_part_rest T), H. reflexivity.
Qed.

(* ================= the Standard's path state without backslashes: spath_ok = spath_ok_s ================= *)
Lemma spath_ok_eq_s t : memb 92 t = false -> forall P B, spath_ok t P B = spath_ok_s t P B.
Proof.
  induction t as [|c r IH]; intros H P B; [reflexivity|]. cbn [memb] in H. apply orb_false_iff in H. destruct H as [H1 H2].
  cbn [spath_ok spath_ok_s].
  assert (is_sl c = (c =? 47)) as -> by (unfold is_sl; rewrite N.eqb_sym in H1; rewrite H1; apply orb_false_r).
  destruct (c =? 47); [rewrite (IH H2); reflexivity|]. destruct (is_qh c); [reflexivity | apply (IH H2)].
Qed.

Lemma hds_none_some p t : has_drive_segment_from None t = false -> has_drive_segment_from (Some p) t = false.
Proof.
  destruct t as [|a [|b rest]]; try reflexivity. rewrite !hds_cons. intros H. apply orb_false_iff in H. destruct H as [H1 H2].
  rewrite H2, orb_false_r. rewrite andb_true_r in H1.
  destruct (is_alpha a && ((b =? 58) || (b =? 124))); [|reflexivity]. cbn [andb] in *.
  rewrite H1. apply andb_false_r.
Qed.

(* no drive-letter-shaped piece and no backslash in the text x that follows a path separator: the
   exclusion F-C01-9 does not apply, whatever drive-letter-free segments P are already there *)
Lemma nodrive_spath_ok x p P : is_path_end p = true -> nowdl P = true ->
  has_drive_segment_from (Some p) x = false -> memb 92 x = false -> spath_ok x P [] = true.
Proof.
  intros Hp HP H Hb. rewrite (spath_ok_eq_s x Hb). change (@nil N) with (upe in_path_set []).
  exact (spath_ok_s_raw x p [] P Hp eq_refl HP H).
Qed.

(* the authority class recogniser on a text T that is a suffix of a text without drive-letter-shaped
   piece, without backslash and without ":@" *)
Lemma auth_class_ok_known prev pre T : has_drive_segment_from prev (pre ++ T) = false ->
  memb 92 T = false -> has_colon_at T = false -> auth_class_ok T = true.
Proof.
  intros Hd Hb Hc. unfold auth_class_ok.
  assert (list_eqb (a_part T) [58; 64] = false) as ->.
  { destruct (list_eqb (a_part T) [58; 64]) eqn:E; [|reflexivity]. rewrite (a_part_colon_at T E) in Hc. discriminate Hc. }
  assert (auth_port_bslash T = false) as ->.
  { unfold auth_port_bslash. destruct (port_split (hs_rest false (snd (after_at T)))) as [PR|] eqn:E; [|reflexivity].
    destruct (starts_with_cp 92 (after_digits PR)) eqn:E92; [|apply andb_false_r]. exfalso.
    assert (In 92 (after_digits PR)) as Hin.
    { destruct (after_digits PR) as [|c r]; [discriminate E92|]. cbn [starts_with_cp] in E92. apply N.eqb_eq in E92. subst c. left. reflexivity. }
    pose proof (suffix_trans _ _ _ (after_digits_suffix PR)
                  (suffix_trans _ _ _ (port_split_suffix _ _ E)
                     (suffix_trans _ _ _ (hs_rest_suffix (snd (after_at T)) false) (after_at_suffix T)))) as S.
    pose proof (suffix_in 92 _ _ S Hin) as K. apply memb_spec in K. congruence. }
  cbn [negb andb].
  pose proof (auth_path_text_suffix T) as S.
  destruct (auth_path_text T) as [|c r] eqn:E; [reflexivity|].
  destruct (c =? 47) eqn:E47; [|reflexivity]. apply N.eqb_eq in E47. subst c.
  destruct S as [p ES].
  apply (nodrive_spath_ok r 47 []); [reflexivity | reflexivity | |].
  - rewrite ES in Hd. rewrite app_assoc in Hd. exact (hds_suffix _ prev 47 r Hd).
  - apply (memb_false_suffix 92 r T); [|exact Hb]. exists (p ++ [47]). rewrite <- app_assoc. exact ES.
Qed.

(* ================= Known_C01 read on the Standard's scheme scan ================= *)
Lemma scheme_scan_none_leading t : forall buf, scheme_scan buf t = None -> leading_scheme_loop (rev buf) t = None.
Proof.
  induction t as [|c r IH]; intros buf H; [reflexivity|]. cbn [scheme_scan] in H. cbn [leading_scheme_loop].
  change (is_alnum c || (c =? 43) || (c =? 45) || (c =? 46)) with (is_scheme_cp c).
  destruct (is_scheme_cp c) eqn:Ec.
  - specialize (IH _ H). rewrite rev_app_distr in IH. exact IH.
  - destruct (c =? 58); [discriminate H | reflexivity].
Qed.

Lemma spec_scheme_none_leading t : spec_scheme t = None -> leading_scheme t = None.
Proof.
  unfold spec_scheme, leading_scheme. destruct t as [|c r]; [reflexivity|].
  destruct (is_alpha c); [|reflexivity]. exact (scheme_scan_none_leading (c :: r) []).
Qed.

Lemma spec_scheme_some_leading t sch R : spec_scheme t = Some (sch, R) -> leading_scheme t = Some sch /\ after_colon t = R.
Proof.
  unfold spec_scheme, leading_scheme. destruct t as [|c r]; [discriminate|].
  destruct (is_alpha c); [|discriminate]. exact (scheme_scan_leading (c :: r) [] sch R).
Qed.

Lemma special_name sch : is_special_scheme_name sch = is_special_scheme sch.
Proof. unfold is_special_scheme_name. apply special_schemes_are_the_standards. Qed.

(* no base, a scheme *)
Lemma known_nobase_scheme input sch R :
  spec_scheme (spec_clean input) = Some (sch, R) -> known_c01 None input = 0 ->
  list_eqb sch str_file = false /\ has_drive_segment R = false
  /\ (is_special_scheme sch = false -> memb 92 (spec_clean input) = false)
  /\ has_colon_at (spec_clean input) = false.
Proof.
  intros Hs Hk. unfold known_c01 in Hk. cbv zeta in Hk.
  change (cleaned input) with (ntnl (input_new_trim_c0 input)) in Hk. rewrite <- spec_clean_is_ntnl_trim in Hk.
  destruct (spec_scheme_some_leading _ _ _ Hs) as [E1 E2]. rewrite E1, E2 in Hk.
  change s_file with str_file in Hk. rewrite special_name in Hk.
  destruct (list_eqb sch str_file); [discriminate Hk|]. cbn [orb] in Hk.
  destruct (has_drive_segment R); [discriminate Hk|]. cbn [orb] in Hk.
  split; [reflexivity|]. split; [reflexivity|].
  destruct (is_special_scheme sch); cbn [negb andb] in Hk.
  - split; [discriminate|]. destruct (has_colon_at (spec_clean input)); [discriminate Hk | reflexivity].
  - destruct (memb 92 (spec_clean input)); [discriminate Hk|].
    split; [reflexivity|]. destruct (has_colon_at (spec_clean input)); [discriminate Hk | reflexivity].
Qed.

(* a base, no scheme in the reference *)
Lemma known_base_noscheme b input :
  spec_scheme (spec_clean input) = None -> known_c01 (Some b) input = 0 ->
  list_eqb (b_scheme b) str_file = false /\ has_drive_segment (spec_clean input) = false
  /\ match path b with Some p => has_drive_segment p | None => false end = false
  /\ (is_special_scheme (b_scheme b) = false -> memb 92 (spec_clean input) = false)
  /\ has_colon_at (spec_clean input) = false.
Proof.
  intros Hs Hk. unfold known_c01 in Hk. cbv zeta in Hk.
  change (cleaned input) with (ntnl (input_new_trim_c0 input)) in Hk. rewrite <- spec_clean_is_ntnl_trim in Hk.
  rewrite (spec_scheme_none_leading _ Hs) in Hk.
  change s_file with str_file in Hk. rewrite special_name in Hk.
  destruct (list_eqb (b_scheme b) str_file); [discriminate Hk|]. cbn [orb] in Hk.
  destruct (has_drive_segment (spec_clean input)); [discriminate Hk|]. cbn [orb] in Hk.
  destruct (match path b with Some p => has_drive_segment p | None => false end); [discriminate Hk|].
  split; [reflexivity|]. split; [reflexivity|]. split; [reflexivity|].
  destruct (is_special_scheme (b_scheme b)); cbn [negb andb] in Hk.
  - split; [discriminate|]. destruct (has_colon_at (spec_clean input)); [discriminate Hk | reflexivity].
  - destruct (memb 92 (spec_clean input)); [discriminate Hk|].
    split; [reflexivity|]. destruct (has_colon_at (spec_clean input)); [discriminate Hk | reflexivity].
Qed.

(* ================= no base: everything outside Known_C01 is in a proved class ================= *)
Lemma orb_intro_r a b : b = true -> a || b = true.
Proof. intros ->. apply orb_true_r. Qed.

Theorem nonspecial_nobase_covers input sch R :
  spec_scheme (spec_clean input) = Some (sch, R) -> is_special_scheme sch = false -> known_c01 None input = 0 ->
  in_class_opaque input || in_class_pathonly input || in_class_authority input = true.
Proof.
  intros Hs Hnsp Hk. destruct (known_nobase_scheme input sch R Hs Hk) as (_ & Hd & Hb & Hc).
  specialize (Hb Hnsp). destruct (spec_scheme_suffix _ _ _ Hs) as [pre Epre].
  assert (suffix_of R (spec_clean input)) as SR by (exists pre; exact Epre).
  pose proof (memb_false_suffix 92 _ _ SR Hb) as HbR. pose proof (has_colon_at_suffix _ _ SR Hc) as HcR.
  destruct R as [|c1 R1].
  { assert (in_class_opaque input = true) as -> by (unfold in_class_opaque; rewrite Hs, Hnsp; reflexivity). reflexivity. }
  destruct (c1 =? 47) eqn:E1.
  2:{ assert (in_class_opaque input = true) as ->
        by (unfold in_class_opaque; rewrite Hs, Hnsp; cbn [starts_with_cp]; rewrite E1; reflexivity). reflexivity. }
  apply N.eqb_eq in E1. subst c1.
  destruct R1 as [|c2 T].
  { apply orb_true_iff. left. apply orb_intro_r. unfold in_class_pathonly. rewrite Hs, Hnsp. reflexivity. }
  destruct (c2 =? 47) eqn:E2.
  - apply N.eqb_eq in E2. subst c2. apply orb_intro_r.
    unfold in_class_authority. rewrite Hs, Hnsp. cbn [negb andb N.eqb Pos.eqb].
    apply (auth_class_ok_known None [47; 47] T).
    + exact Hd.
    + apply (memb_false_suffix 92 T (47 :: 47 :: T)); [exists [47; 47]; reflexivity | exact HbR].
    + apply (has_colon_at_suffix T (47 :: 47 :: T)); [exists [47; 47]; reflexivity | exact HcR].
  - apply orb_true_iff. left. apply orb_intro_r. unfold in_class_pathonly. rewrite Hs, Hnsp.
    cbn [starts_with_cp negb andb]. rewrite E2. cbn [negb andb].
    apply (nodrive_spath_ok (c2 :: T) 47 []); [reflexivity | reflexivity | |].
    + exact (hds_suffix [] None 47 (c2 :: T) Hd).
    + apply (memb_false_suffix 92 (c2 :: T) (47 :: c2 :: T)); [exists [47]; reflexivity | exact HbR].
Qed.

Theorem nobase_covers input : known_c01 None input = 0 -> in_proved_class3 None input = true.
Proof.
  intros Hk. cbn [in_proved_class3]. unfold in_proved_nobase3.
  destruct (spec_scheme (spec_clean input)) as [[sch R]|] eqn:Hs.
  - destruct (is_special_scheme sch) eqn:Hsp.
    + rewrite (special_class_covers_known input sch R Hs Hsp Hk). rewrite orb_true_r. reflexivity.
    + rewrite (nonspecial_nobase_covers input sch R Hs Hsp Hk). reflexivity.
  - apply orb_intro_r. unfold in_class_noscheme_nobase. rewrite Hs. reflexivity.
Qed.

(* ================= a non-special related base, scheme-less reference ================= *)
Section BaseCover.
Variable dbg : bool.
Variable shs : spec_host -> list N.

Lemma related_path b sb : related dbg shs b sb -> path b = Some (serialize_path sb).
Proof.
  intros R. pose proof (rel_wf _ _ _ _ R) as W. pose proof (rel_api _ _ _ _ R) as A.
  rewrite (api_of_model_eval dbg b W) in A. unfold spec_api_list in A.
  injection A as _ _ _ _ _ _ _ A8 _ _. rewrite (path_eval b W). f_equal. exact A8.
Qed.

Lemma hds_drop pre : forall prev r, has_drive_segment_from prev (pre ++ r) = false ->
  exists prev', has_drive_segment_from prev' r = false.
Proof.
  induction pre as [|x pre IH]; intros prev r H; [exists prev; exact H|].
  cbn [app] in H. destruct (pre ++ r) as [|b t] eqn:E.
  - destruct pre; [|discriminate E]. cbn [app] in E. subst r. exists None. reflexivity.
  - rewrite hds_cons in H. apply orb_false_iff in H. destruct H as [_ H]. rewrite <- E in H. exact (IH _ _ H).
Qed.

(* a drive-letter-shaped segment of the Standard's record shows in the serialized path *)
Lemma nowdl_of_nodrive P : forall prev, forallb no_slash P = true ->
  has_drive_segment_from prev (flat_map (fun s => 47 :: s) P) = false -> nowdl P = true.
Proof.
  induction P as [|s P IH]; intros prev Hns H; [reflexivity|].
  cbn [forallb] in Hns. apply andb_true_iff in Hns. destruct Hns as [Hs HnsP].
  cbn [flat_map] in H. unfold nowdl. cbn [forallb]. apply andb_true_iff. split.
  - apply negb_true_iff. destruct (starts_with_wdl (s ++ [47])) eqn:E; [|reflexivity]. exfalso.
    destruct s as [|a [|b rest]]; [discriminate E | |].
    { cbn [app starts_with_wdl] in E. replace ((47 =? 58) || (47 =? 124)) with false in E by reflexivity.
      rewrite andb_false_r in E. discriminate E. }
    cbn [app starts_with_wdl] in E. apply andb_true_iff in E. destruct E as [E E3].
    apply andb_true_iff in E. destruct E as [Ea Eb].
    pose proof (hds_suffix [] prev 47 ((a :: b :: rest) ++ flat_map (fun s => 47 :: s) P) H) as H'.
    cbn [app] in H'.
    rewrite (hds_hit 47 a b (rest ++ flat_map (fun s => 47 :: s) P) eq_refl Ea Eb) in H'; [discriminate H'|].
    destruct rest as [|c r].
    + cbn [app]. destruct P as [|s' P']; [exact I | reflexivity].
    + cbn [app] in *. exact E3.
  - destruct (hds_drop (47 :: s) prev _ H) as [prev' H']. exact (IH prev' HnsP H').
Qed.

Theorem nonspecial_base_covers b sb input :
  good_base dbg shs b sb -> is_special_scheme (su_scheme sb) = false ->
  spec_scheme (spec_clean input) = None -> known_c01 (Some b) input = 0 ->
  in_proved_class3 (Some sb) input = true.
Proof.
  intros [R Hok] Hnsp Hs Hk.
  destruct (known_base_noscheme b input Hs Hk) as (_ & Hd & Hp & Hb & Hc).
  rewrite (rel_sch _ _ _ _ R) in Hb. specialize (Hb Hnsp).
  rewrite (related_path b sb R) in Hp.
  cbn [in_proved_class3].
  destruct (has_opaque_path sb) eqn:Hop.
  { (* opaque-path base: '#' or failure *)
    destruct (starts_with_cp 35 (spec_clean input)) eqn:E35.
    - assert (in_class_fragment_only input = true) as -> by exact E35. reflexivity.
    - assert (in_class_opaque_base_fail sb input = true) as ->
        by (unfold in_class_opaque_base_fail; rewrite Hop, Hs, E35; reflexivity).
      rewrite !orb_true_r. reflexivity. }
  destruct (spec_clean input) as [|c t] eqn:Ecl.
  { assert (in_class_empty_ref sb input = true) as -> by (unfold in_class_empty_ref; rewrite Hop, Ecl; reflexivity).
    rewrite !orb_true_r. reflexivity. }
  destruct (c =? 35) eqn:E35.
  { assert (in_class_fragment_only input = true) as -> by (unfold in_class_fragment_only; rewrite Ecl; exact E35). reflexivity. }
  destruct (c =? 63) eqn:E63.
  { assert (in_class_query_only sb input = true) as ->
      by (unfold in_class_query_only; rewrite Hop, Ecl; cbn [negb andb starts_with_cp]; exact E63).
    rewrite !orb_true_r. reflexivity. }
  apply orb_true_iff. left. apply orb_true_iff. left. apply orb_intro_r. unfold in_class_relative.
  destruct (c =? 47) eqn:E47.
  - apply N.eqb_eq in E47. subst c.
    destruct (starts_with_cp 47 t) eqn:E2.
    + (* "//": scheme-relative *)
      destruct t as [|c2 T]; [discriminate E2|]. cbn [starts_with_cp] in E2. apply N.eqb_eq in E2. subst c2.
      apply orb_intro_r. unfold in_class_rel_authority. rewrite Hop, Hnsp, Ecl. cbn [negb andb N.eqb Pos.eqb].
      apply (auth_class_ok_known None [47; 47] T).
      * exact Hd.
      * apply (memb_false_suffix 92 T (47 :: 47 :: T)); [exists [47; 47]; reflexivity | exact Hb].
      * apply (has_colon_at_suffix T (47 :: 47 :: T)); [exists [47; 47]; reflexivity | exact Hc].
    + (* "/x": path-absolute *)
      apply orb_true_iff. left. apply orb_true_iff. left.
      unfold in_class_rel_abs. rewrite Hop, Hnsp, Ecl, E2. cbn [negb andb N.eqb Pos.eqb].
      apply (nodrive_spath_ok t 47 []); [reflexivity | reflexivity | |].
      * exact (hds_suffix [] None 47 t Hd).
      * apply (memb_false_suffix 92 t (47 :: t)); [exists [47]; reflexivity | exact Hb].
  - (* path-relative *)
    apply orb_true_iff. left. apply orb_intro_r.
    unfold in_class_rel_path. rewrite Hop, Hnsp, Ecl, Hs, E47, E63, E35. cbn [negb andb].
    apply andb_true_iff in Hok. destruct Hok as [_ HnsP].
    assert (serialize_path sb = flat_map (fun s => 47 :: s) (Whatwg.path_segments sb)) as EP.
    { unfold serialize_path, Whatwg.path_segments. unfold has_opaque_path in Hop. destruct (su_path sb); [discriminate Hop | reflexivity]. }
    rewrite EP in Hp.
    apply (nodrive_spath_ok (c :: t) 47 (removelast (Whatwg.path_segments sb))); [reflexivity | | | exact Hb].
    + apply nowdl_removelast. exact (nowdl_of_nodrive _ None HnsP Hp).
    + apply hds_none_some. exact Hd.
Qed.

End BaseCover.

(* ================= a special non-file base with a host, scheme-less reference ================= *)
Theorem special_base_covers dbg shs b sb input :
  good_base dbg shs b sb -> sp_base_ok sb = true ->
  spec_scheme (spec_clean input) = None -> known_c01 (Some b) input = 0 ->
  in_proved_class3 (Some sb) input = true.
Proof.
  intros [R Hok] Hsb Hs Hk.
  destruct (known_base_noscheme b input Hs Hk) as (_ & Hd & Hp & _ & _).
  rewrite (related_path dbg shs b sb R) in Hp.
  destruct (sp_base_ok_facts sb Hsb) as (Hop & Hsp & Hnf & h & Eh).
  cbn [in_proved_class3].
  destruct (spec_clean input) as [|c t] eqn:Ecl.
  { assert (in_class_empty_ref sb input = true) as -> by (unfold in_class_empty_ref; rewrite Hop, Ecl; reflexivity).
    rewrite !orb_true_r. reflexivity. }
  destruct (c =? 35) eqn:E35.
  { assert (in_class_fragment_only input = true) as -> by (unfold in_class_fragment_only; rewrite Ecl; exact E35). reflexivity. }
  destruct (c =? 63) eqn:E63.
  { assert (in_class_query_only sb input = true) as ->
      by (unfold in_class_query_only; rewrite Hop, Ecl; cbn [negb andb starts_with_cp]; exact E63).
    rewrite !orb_true_r. reflexivity. }
  apply orb_intro_r. unfold in_class_relative_s.
  pose proof Hok as Hok0. apply andb_true_iff in Hok0. destruct Hok0 as [Hcan HnsP].
  destruct (is_sl c) eqn:Esl.
  - assert (is_path_end c = true) as Hpe by (unfold is_path_end; unfold is_sl in Esl; lia).
    destruct t as [|c2 T].
    + apply orb_true_iff. left. apply orb_true_iff. left. apply orb_true_iff. left. apply orb_true_iff. left. apply orb_true_iff. left. 
      unfold in_class_rel_abs_s. rewrite Hsb, Ecl, Esl. reflexivity.
    + destruct (is_sl c2) eqn:Esl2.
      * apply orb_true_iff. left. apply orb_true_iff. left. apply orb_true_iff. left. apply orb_intro_r. rewrite Hcan. cbn [andb].
        unfold in_class_rel_authority_s. rewrite Hop, Hsp, Hnf, Ecl, Esl, Esl2. cbn [negb andb].
        apply (sp_class_ok_nodrive_from (Some c2) T). exact (hds_suffix [c] None c2 T Hd).
      * apply orb_true_iff. left. apply orb_true_iff. left. apply orb_true_iff. left. apply orb_true_iff. left. apply orb_true_iff. left. 
        unfold in_class_rel_abs_s. rewrite Hsb, Ecl, Esl, Esl2. cbn [negb andb].
        change (@nil N) with (upe in_path_set []).
        apply (spath_ok_s_raw (c2 :: T) c [] []); [exact Hpe | reflexivity | reflexivity|].
        exact (hds_suffix [] None c (c2 :: T) Hd).
  - apply orb_true_iff. left. apply orb_true_iff. left. apply orb_true_iff. left. apply orb_true_iff. left. apply orb_intro_r.
    unfold in_class_rel_path_s. rewrite Hsb, Ecl, Hs, Esl, E63, E35. cbn [negb andb].
    assert (serialize_path sb = flat_map (fun s => 47 :: s) (Whatwg.path_segments sb)) as EP.
    { unfold serialize_path, Whatwg.path_segments. unfold has_opaque_path in Hop. destruct (su_path sb); [discriminate Hop | reflexivity]. }
    rewrite EP in Hp.
    change (@nil N) with (upe in_path_set []).
    apply (spath_ok_s_raw (c :: t) 47 [] (removelast (Whatwg.path_segments sb))); [reflexivity | reflexivity | |].
    + apply nowdl_removelast. exact (nowdl_of_nodrive _ None HnsP Hp).
    + apply hds_none_some. exact Hd.
Qed.

(* ================= any base, a reference with a scheme of its own that makes the base irrelevant ================= *)
Lemma known_base_own_scheme b input sch R :
  spec_scheme (spec_clean input) = Some (sch, R) -> known_c01 (Some b) input = 0 -> known_c01 None input = 0.
Proof.
  intros Hs Hk. unfold known_c01 in *. cbv zeta in *.
  change (cleaned input) with (ntnl (input_new_trim_c0 input)) in *. rewrite <- spec_clean_is_ntnl_trim in *.
  destruct (spec_scheme_some_leading _ _ _ Hs) as [E1 E2]. rewrite E1, E2 in *.
  destruct (list_eqb sch s_file); [discriminate Hk|]. cbn [orb] in *.
  destruct (has_drive_segment R); [discriminate Hk|]. cbn [orb] in *.
  destruct (match path b with Some p => has_drive_segment p | None => false end); [discriminate Hk|].
  exact Hk.
Qed.

Theorem own_scheme_base_covers sb b input sch R :
  spec_scheme (spec_clean input) = Some (sch, R) ->
  is_special_scheme sch = false \/ list_eqb (su_scheme sb) sch = false ->
  known_c01 (Some b) input = 0 -> in_proved_class3 (Some sb) input = true.
Proof.
  intros Hs Hign Hk. pose proof (known_base_own_scheme b input sch R Hs Hk) as Hk0.
  destruct (known_nobase_scheme input sch R Hs Hk0) as (Hnf & _).
  cbn [in_proved_class3]. apply orb_true_iff. left. apply orb_intro_r. unfold in_class_abs_base. rewrite Hs.
  apply andb_true_iff. split; [|exact (nobase_covers input Hk0)].
  apply orb_true_iff. left.
  unfold base_ignored. rewrite Hnf. cbn [negb andb].
  destruct Hign as [H|H]; rewrite H; [reflexivity | apply orb_true_r].
Qed.

(* ================= a special base, a reference with the scheme of the base ================= *)
Lemma known_base_scheme b input sch R :
  spec_scheme (spec_clean input) = Some (sch, R) -> known_c01 (Some b) input = 0 ->
  list_eqb sch str_file = false /\ has_drive_segment R = false
  /\ match path b with Some p => has_drive_segment p | None => false end = false.
Proof.
  intros Hs Hk. unfold known_c01 in Hk. cbv zeta in Hk.
  change (cleaned input) with (ntnl (input_new_trim_c0 input)) in Hk. rewrite <- spec_clean_is_ntnl_trim in Hk.
  destruct (spec_scheme_some_leading _ _ _ Hs) as [E1 E2]. rewrite E1, E2 in Hk. change s_file with str_file in Hk.
  destruct (list_eqb sch str_file); [discriminate Hk|]. cbn [orb] in Hk.
  destruct (has_drive_segment R); [discriminate Hk|]. cbn [orb] in Hk.
  destruct (match path b with Some p => has_drive_segment p | None => false end); [discriminate Hk|].
  repeat split.
Qed.

Theorem same_scheme_base_covers dbg shs b sb input R :
  good_base dbg shs b sb -> sp_base_ok sb = true ->
  spec_scheme (spec_clean input) = Some (su_scheme sb, R) ->
  known_c01 (Some b) input = 0 -> in_proved_class3 (Some sb) input = true.
Proof.
  intros [Rl Hok] Hsb Hs Hk.
  destruct (known_base_scheme b input _ R Hs Hk) as (Hnf' & Hd & Hp).
  rewrite (related_path dbg shs b sb Rl) in Hp.
  destruct (sp_base_ok_facts sb Hsb) as (Hop & Hsp & Hnf & h & Eh).
  pose proof Hok as Hok0. apply andb_true_iff in Hok0. destruct Hok0 as [Hcan HnsP].
  cbn [in_proved_class3].
  assert (forall X, X = true -> in_class_same_bare sb input = X -> in_class_fragment_only input || in_class_query_only sb input
            || in_class_opaque_base_fail sb input || in_class_empty_ref sb input || in_class_relative sb input
            || in_class_abs_base sb input || in_class_relative_s sb input = true) as Kbare.
  { intros X -> E. apply orb_intro_r. unfold in_class_relative_s. apply orb_intro_r. exact E. }
  destruct R as [|c t].
  { apply (Kbare _ eq_refl). unfold in_class_same_bare. rewrite Hsb, Hs, list_eqb_refl. reflexivity. }
  destruct (is_qh c) eqn:Hbare.
  { apply (Kbare _ eq_refl). unfold in_class_same_bare. rewrite Hsb, Hs, list_eqb_refl, Hbare. reflexivity. }
  destruct (is_sl c) eqn:Esl.
  - assert (is_path_end c = true) as Hpe by (unfold is_path_end; unfold is_sl in Esl; lia).
    destruct (match t with c2 :: _ => is_sl c2 | [] => false end) eqn:Esl2.
    + (* two slashes: the base is ignored *)
      apply orb_true_iff. left. apply orb_intro_r. unfold in_class_abs_base. rewrite Hs.
      apply andb_true_iff. split; [|exact (nobase_covers input (known_base_own_scheme b input _ _ Hs Hk))].
      apply orb_intro_r. unfold same_two_sl. rewrite list_eqb_refl, Hsp, Hnf. cbn [negb andb].
      destruct t as [|c2 T]; [discriminate Esl2|]. cbn [two_sl]. rewrite Esl, Esl2. reflexivity.
    + apply orb_intro_r. unfold in_class_relative_s. apply orb_true_iff. left. apply orb_true_iff. left. apply orb_intro_r.
      unfold in_class_same_abs_s. rewrite Hsb, Hs, list_eqb_refl, Esl, Esl2. cbn [negb andb].
      change (@nil N) with (upe in_path_set []).
      apply (spath_ok_s_raw t c [] []); [exact Hpe | reflexivity | reflexivity|].
      exact (hds_suffix [] None c t Hd).
  - apply orb_intro_r. unfold in_class_relative_s. apply orb_true_iff. left. apply orb_intro_r.
    unfold in_class_same_path_s. rewrite Hsb, Hs, list_eqb_refl, Esl. cbn [negb andb].
    unfold is_qh in Hbare. apply orb_false_iff in Hbare. destruct Hbare as [E63 E35]. rewrite E63, E35. cbn [negb andb].
    assert (serialize_path sb = flat_map (fun s => 47 :: s) (Whatwg.path_segments sb)) as EP.
    { unfold serialize_path, Whatwg.path_segments. unfold has_opaque_path in Hop. destruct (su_path sb); [discriminate Hop | reflexivity]. }
    rewrite EP in Hp.
    change (@nil N) with (upe in_path_set []).
    apply (spath_ok_s_raw (c :: t) 47 [] (removelast (Whatwg.path_segments sb))); [reflexivity | reflexivity | |].
    + apply nowdl_removelast. exact (nowdl_of_nodrive _ None HnsP Hp).
    + apply hds_none_some. exact Hd.
Qed.

(* ================= every base, every reference ================= *)
(* what is asked of a base record beyond good_base: base_shape_ok (Proofs/C01_EqShape.v) - a special non-file
   record is not opaque and has a host (true of every parse result, and of every result of the proved
   classes: class3_result_full) *)

Theorem base_covers dbg shs b sb input :
  good_base dbg shs b sb -> base_shape_ok sb = true ->
  known_c01 (Some b) input = 0 -> in_proved_class3 (Some sb) input = true.
Proof.
  intros Hb Hshape Hk. pose proof Hb as [Rl Hok].
  destruct (spec_scheme (spec_clean input)) as [[sch R]|] eqn:Hs.
  - destruct (is_special_scheme sch) eqn:Hsp; [|exact (own_scheme_base_covers sb b input sch R Hs (or_introl Hsp) Hk)].
    destruct (list_eqb (su_scheme sb) sch) eqn:Eq; [|exact (own_scheme_base_covers sb b input sch R Hs (or_intror Eq) Hk)].
    apply list_eqb_spec in Eq. subst sch.
    destruct (known_base_scheme b input _ R Hs Hk) as (Hnf & _).
    unfold base_shape_ok in Hshape. rewrite Hsp, Hnf in Hshape. cbn [negb orb] in Hshape.
    exact (same_scheme_base_covers dbg shs b sb input R Hb Hshape Hs Hk).
  - destruct (known_base_noscheme b input Hs Hk) as (Hnf & _). rewrite (rel_sch _ _ _ _ Rl) in Hnf.
    destruct (is_special_scheme (su_scheme sb)) eqn:Hsp; [|exact (nonspecial_base_covers dbg shs b sb input Hb Hsp Hs Hk)].
    unfold base_shape_ok in Hshape. rewrite Hsp, Hnf in Hshape. cbn [negb orb] in Hshape.
    exact (special_base_covers dbg shs b sb input Hb Hshape Hs Hk).
Qed.

(* ================= C01_statement, slice by slice ================= *)
From RU Require Import Model.Host Spec.WhatwgHost Spec.WhatwgHostParse Proofs.C09_Host.

Section Statements.
Variable dbg : bool.
Variable hp hpo : list N -> result host.
Variable hd : host -> list N.
Variable shp : bool -> list N -> option spec_host.
Variable shs : spec_host -> list N.

(* base = None: every input outside Known_C01 *)
Theorem statement_nobase input : usv_list input -> known_c01 None input = 0 ->
  host_hyp3 hp hpo hd shp shs None input ->
  agree_good dbg shs (parse_url dbg hp hpo hd None None input) (spec_basic_url_parse shp input None).
Proof.
  intros Hu Hk HH. apply (partial_equivalence_good3 dbg hp hpo hd shp shs input None None Hu I); [|exact HH].
  exact (nobase_covers input Hk).
Qed.

(* a good_base pair with a non-special scheme, scheme-less reference outside Known_C01 *)
Theorem statement_nonspecial_base b sb input : usv_list input ->
  good_base dbg shs b sb -> is_special_scheme (su_scheme sb) = false ->
  spec_scheme (spec_clean input) = None -> known_c01 (Some b) input = 0 ->
  host_hyp3 hp hpo hd shp shs (Some sb) input ->
  agree_good dbg shs (parse_url dbg hp hpo hd None (Some b) input) (spec_basic_url_parse shp input (Some sb)).
Proof.
  intros Hu Hb Hnsp Hs Hk HH. apply (partial_equivalence_good3 dbg hp hpo hd shp shs input (Some b) (Some sb) Hu Hb); [|exact HH].
  exact (nonspecial_base_covers dbg shs b sb input Hb Hnsp Hs Hk).
Qed.

(* any good_base pair (special, file and opaque-path bases included), a reference with a scheme of its own
   that is non-special, or special and not the scheme of the base *)
Theorem statement_own_scheme_base b sb input sch R : usv_list input ->
  good_base dbg shs b sb -> spec_scheme (spec_clean input) = Some (sch, R) ->
  is_special_scheme sch = false \/ list_eqb (su_scheme sb) sch = false ->
  known_c01 (Some b) input = 0 ->
  host_hyp3 hp hpo hd shp shs (Some sb) input ->
  agree_good dbg shs (parse_url dbg hp hpo hd None (Some b) input) (spec_basic_url_parse shp input (Some sb)).
Proof.
  intros Hu Hb Hs Hign Hk HH. apply (partial_equivalence_good3 dbg hp hpo hd shp shs input (Some b) (Some sb) Hu Hb); [|exact HH].
  exact (own_scheme_base_covers sb b input sch R Hs Hign Hk).
Qed.

(* a good_base pair with a special non-file scheme and a host, scheme-less reference *)
Theorem statement_special_base b sb input : usv_list input ->
  good_base dbg shs b sb -> sp_base_ok sb = true ->
  spec_scheme (spec_clean input) = None -> known_c01 (Some b) input = 0 ->
  host_hyp3 hp hpo hd shp shs (Some sb) input ->
  agree_good dbg shs (parse_url dbg hp hpo hd None (Some b) input) (spec_basic_url_parse shp input (Some sb)).
Proof.
  intros Hu Hb Hsb Hs Hk HH. apply (partial_equivalence_good3 dbg hp hpo hd shp shs input (Some b) (Some sb) Hu Hb); [|exact HH].
  exact (special_base_covers dbg shs b sb input Hb Hsb Hs Hk).
Qed.

(* any base: a good_base pair of the right shape, any reference outside Known_C01 *)
Theorem statement_base b sb input : usv_list input ->
  good_base dbg shs b sb -> base_shape_ok sb = true ->
  known_c01 (Some b) input = 0 ->
  host_hyp3 hp hpo hd shp shs (Some sb) input ->
  agree_good dbg shs (parse_url dbg hp hpo hd None (Some b) input) (spec_basic_url_parse shp input (Some sb)).
Proof.
  intros Hu Hb Hshape Hk HH. apply (partial_equivalence_good3 dbg hp hpo hd shp shs input (Some b) (Some sb) Hu Hb); [|exact HH].
  exact (base_covers dbg shs b sb input Hb Hshape Hk).
Qed.

(* ---------- all of it: no base, or a full_base pair ---------- *)
Definition full_rel (base : option url) (sbase : option spec_url) : Prop :=
  match base, sbase with
  | None, None => True
  | Some b, Some sb => full_base dbg shs b sb
  | _, _ => False
  end.

Theorem all_covers input base sbase : full_rel base sbase ->
  known_c01 base input = 0 -> in_proved_class3 sbase input = true.
Proof.
  intros Hb Hk. destruct base as [b|]; destruct sbase as [sb|]; cbn [full_rel] in Hb; try contradiction.
  - destruct Hb as [Hg Hs]. exact (base_covers dbg shs b sb input Hg Hs Hk).
  - exact (nobase_covers input Hk).
Qed.

Theorem statement_all input base sbase : usv_list input ->
  full_rel base sbase -> known_c01 base input = 0 ->
  host_hyp3 hp hpo hd shp shs sbase input ->
  agree_good dbg shs (parse_url dbg hp hpo hd None base input) (spec_basic_url_parse shp input sbase)
  /\ (forall su u, spec_basic_url_parse shp input sbase = BDone su -> parse_url dbg hp hpo hd None base input = POk u ->
        full_base dbg shs u su).
Proof.
  intros Hu Hb Hk HH. pose proof (all_covers input base sbase Hb Hk) as Hc.
  assert (base_rel3 dbg shs base sbase) as Hb3.
  { destruct base as [b|]; destruct sbase as [sb|]; cbn [full_rel] in Hb; try contradiction; [exact (proj1 Hb) | exact I]. }
  pose proof (partial_equivalence_good3 dbg hp hpo hd shp shs input base sbase Hu Hb3 Hc HH) as A.
  split; [exact A|]. intros su u HS Hm. rewrite HS in A.
  exact (class3_result_full dbg shs shp input base sbase _ su u Hu Hb Hc HS A Hm).
Qed.

End Statements.

(* the same for the parser model with the host model plugged in against the Standard's parser with the
   Standard's host parser, relative to IdnaOK idna only *)
Theorem statement_nobase_model dbg idna : IdnaOK idna -> forall input,
  usv_list input -> known_c01 None input = 0 ->
  agree_good dbg spec_host_serializer
    (parse_url dbg (host_parse idna) host_parse_opaque host_display None None input)
    (spec_basic_url_parse (spec_host_parser idna) input None).
Proof.
  intros HI input Hu Hk. apply statement_nobase; [exact Hu | exact Hk|].
  apply host_hyp3_model; [exact (idna_out idna HI) | exact Hu].
Qed.

Theorem statement_nonspecial_base_model dbg idna : IdnaOK idna -> forall b sb input,
  usv_list input -> good_base dbg spec_host_serializer b sb -> is_special_scheme (su_scheme sb) = false ->
  spec_scheme (spec_clean input) = None -> known_c01 (Some b) input = 0 ->
  agree_good dbg spec_host_serializer
    (parse_url dbg (host_parse idna) host_parse_opaque host_display None (Some b) input)
    (spec_basic_url_parse (spec_host_parser idna) input (Some sb)).
Proof.
  intros HI b sb input Hu Hb Hnsp Hs Hk. apply statement_nonspecial_base; try assumption.
  apply host_hyp3_model; [exact (idna_out idna HI) | exact Hu].
Qed.

Theorem statement_own_scheme_base_model dbg idna : IdnaOK idna -> forall b sb input sch R,
  usv_list input -> good_base dbg spec_host_serializer b sb -> spec_scheme (spec_clean input) = Some (sch, R) ->
  is_special_scheme sch = false \/ list_eqb (su_scheme sb) sch = false ->
  known_c01 (Some b) input = 0 ->
  agree_good dbg spec_host_serializer
    (parse_url dbg (host_parse idna) host_parse_opaque host_display None (Some b) input)
    (spec_basic_url_parse (spec_host_parser idna) input (Some sb)).
Proof.
  intros HI b sb input sch R Hu Hb Hs Hign Hk. apply (statement_own_scheme_base dbg _ _ _ _ _ b sb input sch R); try assumption.
  apply host_hyp3_model; [exact (idna_out idna HI) | exact Hu].
Qed.

Theorem statement_special_base_model dbg idna : IdnaOK idna -> forall b sb input,
  usv_list input -> good_base dbg spec_host_serializer b sb -> sp_base_ok sb = true ->
  spec_scheme (spec_clean input) = None -> known_c01 (Some b) input = 0 ->
  agree_good dbg spec_host_serializer
    (parse_url dbg (host_parse idna) host_parse_opaque host_display None (Some b) input)
    (spec_basic_url_parse (spec_host_parser idna) input (Some sb)).
Proof.
  intros HI b sb input Hu Hb Hsb Hs Hk. apply statement_special_base; try assumption.
  apply host_hyp3_model; [exact (idna_out idna HI) | exact Hu].
Qed.

Theorem statement_base_model dbg idna : IdnaOK idna -> forall b sb input,
  usv_list input -> good_base dbg spec_host_serializer b sb -> base_shape_ok sb = true ->
  known_c01 (Some b) input = 0 ->
  agree_good dbg spec_host_serializer
    (parse_url dbg (host_parse idna) host_parse_opaque host_display None (Some b) input)
    (spec_basic_url_parse (spec_host_parser idna) input (Some sb)).
Proof.
  intros HI b sb input Hu Hb Hshape Hk. apply statement_base; try assumption.
  apply host_hyp3_model; [exact (idna_out idna HI) | exact Hu].
Qed.

Theorem statement_all_model dbg idna : IdnaOK idna -> forall input base sbase,
  usv_list input -> full_rel dbg spec_host_serializer base sbase -> known_c01 base input = 0 ->
  agree_good dbg spec_host_serializer
    (parse_url dbg (host_parse idna) host_parse_opaque host_display None base input)
    (spec_basic_url_parse (spec_host_parser idna) input sbase)
  /\ (forall su u, spec_basic_url_parse (spec_host_parser idna) input sbase = BDone su ->
        parse_url dbg (host_parse idna) host_parse_opaque host_display None base input = POk u ->
        full_base dbg spec_host_serializer u su).
Proof.
  intros HI input base sbase Hu Hb Hk. apply statement_all; try assumption.
  apply host_hyp3_model; [exact (idna_out idna HI) | exact Hu].
Qed.

(* ================= the statement in the shape of C01_statement ================= *)
(* the ten API strings of a model record as a total function (the getters do not panic on the records the
   theorem returns) *)
Definition api_total (dbg : bool) (u : url) : list (list N) :=
  match api_of_model dbg u with Some l => l | None => [] end.

(* the match of C01_statement, with the one outcome pair the Standard does not know made explicit *)
Definition statement_shape (dbg : bool) (shs : spec_host -> list N) (m : pres url) (s : parse_outcome) : Prop :=
  match m, s with
  | POk u, BDone su => api_total dbg u = spec_api_list shs su
  | PErr Overflow, BDone su => U32_MAX_P < nlen (get_href shs su)
  | PErr _, BFailure _ => True
  | _, _ => False
  end.

Lemma agree_good_shape dbg shs m s : agree_good dbg shs m s -> statement_shape dbg shs m s.
Proof.
  unfold agree_good, statement_shape. destruct s as [su|uf|].
  - intros [_ [[-> B]|(u & -> & R)]]; [exact B|]. unfold api_total. rewrite (rel_api _ _ _ _ R). reflexivity.
  - intros [e ->]. destruct e; exact I.
  - intros [].
Qed.

Theorem statement_instance dbg idna : IdnaOK idna -> forall input base sbase,
  usv_list input -> full_rel dbg spec_host_serializer base sbase -> known_c01 base input = 0 ->
  statement_shape dbg spec_host_serializer
    (parse_url dbg (host_parse idna) host_parse_opaque host_display None base input)
    (spec_basic_url_parse (spec_host_parser idna) input sbase).
Proof.
  intros HI input base sbase Hu Hb Hk. apply agree_good_shape.
  exact (proj1 (statement_all_model dbg idna HI input base sbase Hu Hb Hk)).
Qed.
