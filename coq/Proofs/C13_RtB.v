(* Proofs/C13_RtB.v - the round trip of Proofs/C13_Rt.v replayed on the decoder WITH its 32-bit checks
   (b_dec_loop): if along the encoder's walk every delta satisfies  di + delta <= u32::MAX  (di = the
   decoder's index in front of that delta; w_inner / w_outer compute this), the checked decoder reads
   the encoder's output back without any check firing. *)
From RU Require Import Base.Prelude Base.U32_c13 Spec.Rfc3492 Proofs.C13_Enc Proofs.C13_Dec Proofs.C13_Vli
  Proofs.C13_Rt Proofs.C13_DecB.

(* the encoder's walk with the decoder's index: None as soon as some  di + delta  exceeds u32::MAX *)
Fixpoint w_inner (input : list N) (n : N) (delta h di pos : N) : option (N * N * N) :=
  match input with
  | [] => Some (delta, h, di)
  | c :: r =>
      let delta := if c <? n then delta + 1 else delta in
      if c =? n then
        if di + delta <=? U32_MAX then w_inner r n 0 (h + 1) (pos + 1) (pos + 1) else None
      else w_inner r n delta h di (if c <? n then pos + 1 else pos)
  end.

Fixpoint w_outer (fuel : nat) (input : list N) (il : N) (n delta h di : N) : bool :=
  if h <? il then
    match fuel with
    | O => true
    | S f =>
        let m := match s_min_ge n input with Some m => m | None => n end in
        match w_inner input m (delta + (m - n) * (h + 1)) h di 0 with
        | Some (delta, h, di) => w_outer f input il (m + 1) (delta + 1) h di
        | None => false
        end
    end
  else true.

Lemma w_inner_cons c r n delta h di pos :
  w_inner (c :: r) n delta h di pos =
  if c =? n then
    if di + (if c <? n then delta + 1 else delta) <=? U32_MAX then w_inner r n 0 (h + 1) (pos + 1) (pos + 1) else None
  else w_inner r n (if c <? n then delta + 1 else delta) h di (if c <? n then pos + 1 else pos).
Proof. reflexivity. Qed.

Lemma w_outer_S f input il n delta h di :
  w_outer (S f) input il n delta h di =
  if h <? il then
    match w_inner input (match s_min_ge n input with Some m => m | None => n end)
            (delta + ((match s_min_ge n input with Some m => m | None => n end) - n) * (h + 1)) h di 0 with
    | Some (delta, h, di) => w_outer f input il ((match s_min_ge n input with Some m => m | None => n end) + 1) (delta + 1) h di
    | None => false
    end
  else true.
Proof. reflexivity. Qed.

Lemma len_filter_le p (l : list N) : len (filter p l) <= len l.
Proof. rewrite <- cnt_filter. apply cnt_le. Qed.

Lemma usvb_le m : is_usvb m = true -> m <= 1114111.
Proof. unfold is_usvb. lia. Qed.

Section RTB.
  Variable dig : N -> option N.
  Hypothesis Hdig : forall d, d < 36 -> dig (s_digit_char d) = Some d.

  Lemma b_inner_rt : forall suf pre m b d bias h nd id out rest wd wh wid,
    is_usvb m = true ->
    out = filter (le_m m) pre ++ filter (lt_m m) suf ->
    h = len out -> nd <= m -> b <= h -> (id =? 0) = (h =? b) ->
    nd * (h + 1) + id + d = m * (h + 1) + len (filter (le_m m) pre) ->
    bias <= 215 -> len pre + len suf <= U32_MAX ->
    w_inner suf m d h id (len (filter (le_m m) pre)) = Some (wd, wh, wid) ->
    match s_enc_inner suf m b d bias h with
    | (d', bias', h', o) =>
        exists nd' out',
          b_dec_loop dig (o ++ rest) false id 1 s_base id nd bias out
            = b_dec_loop dig rest false wid 1 s_base wid nd' bias' out'
          /\ out' = filter (le_m m) (pre ++ suf) /\ h' = len out' /\ nd' <= m /\ b <= h'
          /\ (wid =? 0) = (h' =? b) /\ nd' * (h' + 1) + wid + d' = m * (h' + 1) + len out'
          /\ bias' <= 215 /\ wd = d' /\ wh = h'
    end.
  Proof.
    induction suf as [|c suf IH]; intros pre m b d bias h nd id out rest wd wh wid Hm Hout Hh Hnd Hb Hfl Heq Hbias Hlen Hw.
    - cbn [s_enc_inner]. cbn [w_inner] in Hw. inversion Hw. subst wd wh wid. exists nd, out.
      assert (Hout' : out = filter (le_m m) pre) by (rewrite Hout; cbn [filter]; apply app_nil_r).
      rewrite app_nil_r. cbn [app].
      split; [reflexivity|]. split; [exact Hout'|]. split; [exact Hh|]. split; [exact Hnd|]. split; [exact Hb|].
      split; [exact Hfl|]. split; [rewrite Hout' at 1; exact Heq|]. split; [exact Hbias|]. split; reflexivity.
    - rewrite s_enc_inner_cons. cbv zeta. rewrite w_inner_cons in Hw. rewrite len_cons in Hlen.
      replace (pre ++ c :: suf) with ((pre ++ [c]) ++ suf) by (rewrite <- app_assoc; reflexivity).
      destruct (c =? m) eqn:Ecm.
      + (* the scalar being inserted *)
        apply N.eqb_eq in Ecm. subst c. replace (m <? m) with false in * by lia.
        remember (len (filter (le_m m) pre)) as pos.
        destruct (id + d <=? U32_MAX) eqn:Efit; [|discriminate].
        assert (Hlo : len out <= len pre + len suf).
        { rewrite Hout, len_app. cbn [filter]. unfold lt_m at 1. replace (m <? m) with false by lia.
          pose proof (len_filter_le (le_m m) pre). pose proof (len_filter_le (lt_m m) suf). lia. }
        assert (Hpos : pos <= h).
        { rewrite Hh, Hout, len_app, <- Heqpos. lia. }
        assert (Hfm : filter (le_m m) (pre ++ [m]) = filter (le_m m) pre ++ [m]).
        { rewrite filter_app. cbn [filter]. unfold le_m at 2. replace (m <=? m) with true by lia. reflexivity. }
        assert (Hpos1 : len (filter (le_m m) (pre ++ [m])) = pos + 1).
        { rewrite Hfm, len_app, <- Heqpos. reflexivity. }
        assert (Hb215 : s_adapt d (h + 1) (h =? b) <= 215) by (apply s_adapt_le; lia).
        specialize (IH (pre ++ [m]) m b 0 (s_adapt d (h + 1) (h =? b)) (h + 1) m (pos + 1)
                       (s_insert_at pos m out) rest wd wh wid Hm).
        destruct (s_enc_inner suf m b 0 (s_adapt d (h + 1) (h =? b)) (h + 1)) as [[[d' bias'] h'] o'].
        assert (Hins : s_insert_at pos m out = filter (le_m m) (pre ++ [m]) ++ filter (lt_m m) suf).
        { rewrite Hout, Heqpos. cbn [filter]. unfold lt_m at 1. replace (m <? m) with false by lia.
          rewrite insert_at_app. rewrite Hfm, <- app_assoc. reflexivity. }
        destruct IH as [nd' [out' [E1 E2]]].
        * exact Hins.
        * rewrite len_insert_at. lia.
        * lia.
        * lia.
        * replace (pos + 1 =? 0) with false by lia. replace (h + 1 =? b) with false by lia. reflexivity.
        * rewrite Hpos1. lia.
        * exact Hb215.
        * rewrite len_app. change (len [m]) with 1. lia.
        * rewrite Hpos1. exact Hw.
        * exists nd', out'. split; [|exact E2].
          rewrite <- app_assoc. unfold s_vli_fuel.
          rewrite (b_vli_decode dig Hdig);
            [|rewrite N2Nat.id; apply N.size_gt|unfold s_base; lia|exact Hbias|lia|vm_compute; discriminate|lia].
          unfold b_dec_break. rewrite <- Hh.
          assert (Hsum : id + d * 1 = (h + 1) * (m - nd) + pos).
          { rewrite (N.mul_comm (h + 1) (m - nd)), N.mul_sub_distr_r.
            pose proof (N.mul_le_mono_r nd m (h + 1) Hnd). lia. }
          assert (Hdiv : (id + d * 1) / (h + 1) = m - nd).
          { symmetry. apply (N.div_unique _ _ _ pos); [lia|exact Hsum]. }
          assert (Hmod : (id + d * 1) mod (h + 1) = pos).
          { symmetry. apply (N.mod_unique _ _ (m - nd)); [lia|exact Hsum]. }
          cbv zeta. rewrite Hdiv, Hmod. replace (nd + (m - nd)) with m by lia.
          pose proof (usvb_le m Hm) as Hmle.
          replace ((h + 1 <=? U32_MAX) && (m <=? U32_MAX)) with true by (unfold U32_MAX in *; lia).
          rewrite Hm.
          replace (id + d * 1 - id) with d by lia. rewrite Hfl. exact E1.
      + apply N.eqb_neq in Ecm.
        destruct (c <? m) eqn:Elt.
        * (* a smaller scalar: already in the output *)
          assert (Hfc : filter (le_m m) (pre ++ [c]) = filter (le_m m) pre ++ [c]).
          { rewrite filter_app. cbn [filter]. unfold le_m at 2. replace (c <=? m) with true by lia. reflexivity. }
          specialize (IH (pre ++ [c]) m b (d + 1) bias h nd id out rest wd wh wid Hm).
          destruct (s_enc_inner suf m b (d + 1) bias h) as [[[d' bias'] h'] o'].
          apply IH; try assumption.
          -- rewrite Hout, Hfc. cbn [filter]. unfold lt_m at 1. rewrite Elt. rewrite <- app_assoc. reflexivity.
          -- rewrite Hfc, len_app. change (len [c]) with 1. lia.
          -- rewrite len_app. change (len [c]) with 1. lia.
          -- rewrite Hfc, len_app. change (len [c]) with 1. exact Hw.
        * (* a larger scalar: not yet handled *)
          assert (Hfc : filter (le_m m) (pre ++ [c]) = filter (le_m m) pre).
          { rewrite filter_app. cbn [filter]. unfold le_m at 2. replace (c <=? m) with false by lia. apply app_nil_r. }
          specialize (IH (pre ++ [c]) m b d bias h nd id out rest wd wh wid Hm).
          destruct (s_enc_inner suf m b d bias h) as [[[d' bias'] h'] o'].
          apply IH; try assumption.
          -- rewrite Hout, Hfc. cbn [filter]. unfold lt_m at 1. rewrite Elt. reflexivity.
          -- rewrite Hfc. exact Heq.
          -- rewrite len_app. change (len [c]) with 1. lia.
          -- rewrite Hfc. exact Hw.
  Qed.

  Lemma b_outer_rt : forall fuel input b n d bias h nd id out,
    Forall (fun c => is_usvb c = true) input ->
    out = filter (lt_m n) input -> h = len out -> nd <= n -> b <= h -> (id =? 0) = (h =? b) ->
    nd * (h + 1) + id + d = n * (h + 1) -> len input - h < N.of_nat fuel ->
    bias <= 215 -> len input <= U32_MAX ->
    w_outer fuel input (len input) n d h id = true ->
    b_dec_loop dig (s_enc_outer fuel input (len input) b n d bias h) false id 1 s_base id nd bias out = Some input.
  Proof.
    induction fuel as [|f IH]; intros input b n d bias h nd id out Hu Hout Hh Hnd Hb Hfl Heq Hf Hbias Hlen Hw; [cbn in Hf; lia|].
    rewrite s_enc_outer_S. rewrite w_outer_S in Hw.
    assert (Hcnt : h = cnt (fun c => c <? n) input) by (rewrite cnt_filter, Hh, Hout; reflexivity).
    destruct (h <? len input) eqn:E.
    - destruct (min_exists input n h Hcnt ltac:(lia)) as [m Em]. rewrite Em in *. cbv zeta.
      apply s_min_ge_some in Em. destruct Em as [Hin [Hle Hmin]].
      destruct (w_inner input m (d + (m - n) * (h + 1)) h id 0) as [[[wd wh] wid]|] eqn:Ew; [|discriminate].
      destruct (s_enc_inner input m b (d + (m - n) * (h + 1)) bias h) as [[[d' bias'] h'] o'] eqn:Es.
      assert (Hm : is_usvb m = true) by (rewrite Forall_forall in Hu; exact (Hu m Hin)).
      pose proof (b_inner_rt input [] m b (d + (m - n) * (h + 1)) bias h nd id out
                    (s_enc_outer f input (len input) b (m + 1) (d' + 1) bias' h') wd wh wid Hm) as HI.
      rewrite Es in HI.
      destruct HI as [nd' [out' [E1 [E2 [E3 [E4 [E5 [E6 [E7 [E8 [E9 E10]]]]]]]]]]].
      + cbn [filter app]. rewrite Hout. apply (filter_lt_min dig Hdig); assumption.
      + exact Hh.
      + lia.
      + exact Hb.
      + exact Hfl.
      + cbn [filter]. rewrite len_nil. rewrite N.mul_sub_distr_r.
        pose proof (N.mul_le_mono_r n m (h + 1) Hle). lia.
      + exact Hbias.
      + rewrite len_nil. lia.
      + cbn [filter]. rewrite len_nil. exact Ew.
      + rewrite E1. cbn [app] in E2. subst wd wh.
        apply s_inner_facts in Es. destruct Es as [Hh' _]. pose proof (cnt_eq_in input m Hin) as Hc.
        apply IH; try assumption.
        * rewrite E2. apply filter_ext. intros c. unfold le_m, lt_m. lia.
        * lia.
        * rewrite <- E3 in E7. rewrite N.mul_add_distr_r. lia.
        * rewrite Nat2N.inj_succ in Hf. lia.
    - assert (Ho : out = input).
      { rewrite Hout. apply filter_len_all. rewrite <- Hout, <- Hh.
        pose proof (cnt_le (fun c => c <? n) input). lia. }
      cbn [b_dec_loop]. rewrite Ho. reflexivity.
  Qed.
End RTB.
