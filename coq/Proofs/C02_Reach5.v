(* Proofs/C02_Reach5.v - the histories of C02_Reach4.ReachC3 extended by the mutators whose L2 is proved in
   C02_QHost / C02_SetHostNone / C02_SetPathNoAuth:
     quirks set_hostname, quirks set_host, set_host(None), quirks set_pathname      on every Canon record,
     set_path (C02_SetPathOpaque for opaque paths)                                  on every Canon record,
     path_segments_mut sessions                                                     on opaque paths only (refused),
   each outside the known step classes of the corrected quantifier (known_step3 = known_step2 + Known_F_C02_10).
   ReachC4: every record of such a history is Canon, hence a fixpoint of re-parsing; ReachC4 is inside Reachable4, the
   quantifier of C02_statement4. *)
From RU Require Import Proofs.C15_Ser.
From Coq Require Import String.
From RU Require Import Base.Prelude Base.Utf8 Base.Utf8Facts Base.Outcome_c15 Model.AsciiSet Gen.Tables
  Model.PercentEncoding Model.HostT Model.Host Model.UrlRecord Model.Parser Model.Setters Model.WF Model.FormUrlencoded
  Model.QueryPairs
  Proofs.ListN Proofs.C02_Enc Proofs.C02_Parts Proofs.C02_Opaque Proofs.C02_Path Proofs.C02_PathL1 Proofs.C02_Reach
  Proofs.C02_AuthParts Proofs.C02_Auth Proofs.C02_AuthWf Proofs.C02_PathSp Proofs.C02_AuthSp Proofs.C02_AuthMain
  Proofs.C02_Hist Proofs.C02_SetQF Proofs.C02_Canon Proofs.C02_SetPort Proofs.C02_JoinTail Proofs.C02_ReachPartial
  Proofs.C02_Form Proofs.C02_SetCred Proofs.C02_SetCredCanon Proofs.C02_QPort Proofs.C08_AbsNonfile Proofs.C02_Reach3
  Proofs.C02_SetHostFrame Proofs.C02_SetHostCanon Proofs.C02_SetScheme Proofs.C02_PathSetter Proofs.C02_SetPath
  Proofs.C09_Host Proofs.C16_RT6Model Proofs.C02_HistInst Proofs.C02_Reach4 Proofs.C02_Stmt4 Proofs.C02_QHost
  Proofs.C02_SetHostNone Proofs.C02_SetPathNoAuth Proofs.C02_SetPathOpaque.
Open Scope N_scope.
Open Scope list_scope.

(* the mutators with a proved L2, given the record they are applied to *)
Definition canon_op4 (u : url) (o : op) : bool :=
  match o with
  | OQHostname _ | OQHost _ | OSetHost None | OQPathname _ | OSetPath _ => true
  | OPathSegments _ => is_cbb u                       (* path_segments_mut() is refused on an opaque path *)
  | _ => canon_op3 u o
  end.

Lemma starts_with_cons_inv a p l : starts_with (a :: p) l = true -> exists r, l = a :: r /\ starts_with p r = true.
Proof.
  destruct l as [|y r]; cbn [starts_with]; [discriminate|]. intros H. apply andb_true_iff in H. destruct H as [H1 H2].
  apply N.eqb_eq in H1. subst y. exists r. split; [reflexivity | exact H2].
Qed.

Lemma skipn_S_cons {A} n : forall (l : list A) a r, skipn n l = a :: r -> skipn (S n) l = r.
Proof.
  induction n as [|n IH]; intros l a r H.
  - cbn [skipn] in H. subst l. reflexivity.
  - destruct l as [|x l]; [discriminate H|]. cbn [skipn] in H. change (skipn (S (S n)) (x :: l)) with (skipn (S n) l). exact (IH l a r H).
Qed.

(* an authority implies not cannot-be-a-base *)
Lemma authority_not_cbb u : has_authority_b u = true -> is_cbb u = false.
Proof.
  unfold has_authority_b, is_cbb, s_css. intros H.
  destruct (starts_with_cons_inv _ _ _ H) as (r0 & E0 & H0). destruct (starts_with_cons_inv _ _ _ H0) as (r1 & E1 & _). subst r0.
  assert (nskipn (scheme_end u + 1) (ser u) = 47 :: r1) as ->; [|reflexivity].
  unfold nskipn in *. replace (N.to_nat (scheme_end u + 1)) with (S (N.to_nat (scheme_end u))) by lia.
  exact (skipn_S_cons _ _ _ _ E0).
Qed.

Lemma canon_op3_4 u o : canon_op3 u o = true -> canon_op4 u o = true.
Proof.
  destruct o; try (intros H; exact H); try reflexivity; try discriminate.
  - destruct h; reflexivity.
Qed.

Lemma cbb_is_cbb u b : cannot_be_a_base u = Some b -> is_cbb u = b.
Proof.
  unfold cannot_be_a_base, u_slice_from, slice_from_o, is_cbb. destruct (scheme_end u + 1 <=? nlen (ser u)); [|discriminate].
  cbn [bindo]. intros H. injection H as H'. exact H'.
Qed.

Section ReachC4.
Variable dbg : bool.
Variable hp hpo : list N -> result host.
Variable hd : host -> list N.
Hypothesis HOK : HostOK2 hp hpo hd.
Hypothesis HNE : host_nonempty hp hpo.

Let HRT : HostRT hp hpo hd := proj1 HOK.
Let HAb : host_above hp hpo hd := proj1 (proj2 HOK).
Let HIP : ip_clause hp hpo hd := proj2 (proj2 HOK).

(* one step with an operation of canon_op3 (the step case of C02_Reach4.ReachC3_Canon, stated for a Canon record) *)
Lemma canon_op3_step u o u' : Canon hp hpo hd u -> canon_op3 u o = true -> op_args_ok o ->
  known_step2 dbg hp hpo hd u o = false -> apply_op dbg hp hpo hd u o = Some u' -> nlen (ser u') <= U32_MAX_P ->
  Canon hp hpo hd u'.
Proof using HOK HNE HRT HAb HIP.
  intros IH Ht Ha Hk Ho Hb. destruct (canon_op o) eqn:Ec.
  { destruct o; try discriminate Ec; cbn [apply_op op_args_ok] in *.
    + exact (set_fragment_Canon dbg hp hpo hd HRT u f u' IH Ha Ho Hb).
    + exact (set_query_Canon dbg hp hpo hd HRT u q u' IH Ha Ho Hb).
    + destruct (option_map_fst_some _ _ Ho) as [s Es].
      exact (set_port_Canon dbg hp hpo hd u p u' s IH Ha Es Hb).
    + destruct (option_map_fst_some _ _ Ho) as [s Es].
      exact (set_password_Canon dbg hp hpo hd u p u' s IH Ha Es Hb).
    + destruct (option_map_fst_some _ _ Ho) as [s0 Es].
      exact (set_username_Canon dbg hp hpo hd u s u' s0 IH Ha Es Hb).
    + destruct (option_map_fst_some _ _ Ho) as [s0 Es]. unfold q_set_username in Es.
      exact (set_username_Canon dbg hp hpo hd u s u' s0 IH Ha Es Hb).
    + destruct (option_map_fst_some _ _ Ho) as [s0 Es]. unfold q_set_password in Es.
      apply (set_password_Canon dbg hp hpo hd u _ u' s0 IH) in Es; [exact Es | | exact Hb].
      destruct s; [exact I | exact Ha].
    + destruct (option_map_fst_some _ _ Ho) as [s0 Es].
      exact (q_set_port_Canon dbg hp hpo hd u s u' s0 IH Es Hb).
    + unfold q_set_search in Ho. apply (set_query_Canon dbg hp hpo hd HRT u _ u' IH) in Ho; [exact Ho | | exact Hb].
      destruct s as [|c r]; [exact I|]. assert (usv_list r) as Hr' by (apply usv_cons in Ha; tauto).
      destruct c as [|pp]; [exact Ha|]. do 7 (try (destruct pp as [pp|pp|]; try exact Ha)). exact Hr'.
    + unfold q_set_hash in Ho. apply (set_fragment_Canon dbg hp hpo hd HRT u _ u' IH) in Ho; [exact Ho | | exact Hb].
      destruct s as [|c r]; [exact I|]. assert (usv_list r) as Hr' by (apply usv_cons in Ha; tauto).
      destruct c as [|pp]; [exact Ha|]. do 7 (try (destruct pp as [pp|pp|]; try exact Ha)). exact Hr'. }
  destruct o; try discriminate Ec; try discriminate Ht; cbn [apply_op op_args_ok canon_op3] in *.
  + exact (set_path_Canon dbg hp hpo hd u p u' IH Ht Ha Ho Hb).
  + destruct h as [x|]; [|discriminate Ht].
    destruct (option_map_fst_some _ _ Ho) as [s Es].
    exact (set_host_some_Canon dbg hp hpo hd HRT HAb u x u' s HNE IH Ha Hk Es Hb).
  + destruct (option_map_fst_some _ _ Ho) as [s Es].
    exact (set_ip_host_Canon dbg hp hpo hd HRT HAb u h u' s HIP IH Ha Hk Es Hb).
  + destruct (option_map_fst_some _ _ Ho) as [s0 Es].
    exact (set_scheme_Canon dbg hp hpo hd u s u' s0 IH Es Hb).
  + destruct (option_map_fst_some _ _ Ho) as [s0 Es].
    exact (q_set_protocol_Canon dbg hp hpo hd u s u' s0 IH Es Hb).
  + exact (q_set_pathname_Canon dbg hp hpo hd u s u' IH Ht Ha Ho Hb).
Qed.

Lemma Canon_cbb_some u : Canon hp hpo hd u -> exists b, cannot_be_a_base u = Some b.
Proof using HRT.
  intros IH. destruct IH as [sch P q f K | sch segs last q f K | sch ui h pt p q f K | sch ui h pt p q f K Kp].
  - exists true. exact (opaque_url_cbb sch P q f K).
  - exists false. exact (proj1 (proj2 (noauth_url_wf sch segs last q f K))).
  - exists false. exact (proj2 (auth_url_wf hp hpo hd HRT _ _ _ _ _ _ _ _ K)).
  - exists false. exact (proj2 (auth_url_wf hp hpo hd HRT _ _ _ _ _ _ _ _ K)).
Qed.

(* one step with an operation of canon_op4 *)
Lemma canon_op4_step u o u' : Canon hp hpo hd u -> canon_op4 u o = true -> op_args_ok o ->
  known_step3 dbg hp hpo hd u o = false -> apply_op dbg hp hpo hd u o = Some u' -> nlen (ser u') <= U32_MAX_P ->
  Canon hp hpo hd u'.
Proof using HOK HNE HRT HAb HIP.
  intros IH Ht Ha Hk3 Ho Hb. pose proof (known_step3_2 dbg hp hpo hd u o Hk3) as Hk.
  assert (canon_op3 u o = true -> Canon hp hpo hd u') as G3
    by (intros H3; exact (canon_op3_step u o u' IH H3 Ha Hk Ho Hb)).
  destruct o; try (exact (G3 Ht)); cbn [apply_op op_args_ok canon_op4] in *.
  - (* set_path *)
    destruct (cannot_be_a_base u) as [[|]|] eqn:Hcb.
    + unfold known_step2, known_step in Hk. rewrite !orb_false_iff in Hk. destruct Hk as [[[[[_ K3] _] _] _] _].
      destruct IH as [sch P q f K | sch segs last q f K | sch ui h pt p0 q f K | sch ui h pt p0 q f K Kp].
      * exact (set_path_opaque_Canon dbg hp hpo hd sch P q f p u' K Ha K3 Ho Hb).
      * rewrite (proj1 (proj2 (noauth_url_wf sch segs last q f K))) in Hcb. discriminate Hcb.
      * rewrite (proj2 (auth_url_wf hp hpo hd HRT _ _ _ _ _ _ _ _ K)) in Hcb. discriminate Hcb.
      * rewrite (proj2 (auth_url_wf hp hpo hd HRT _ _ _ _ _ _ _ _ K)) in Hcb. discriminate Hcb.
    + exact (set_path_Canon_hier dbg hp hpo hd u p u' IH Hcb Ha Hk Ho Hb).
    + exfalso. destruct (Canon_cbb_some u IH) as [b Eb]. congruence.
  - (* set_host *)
    destruct h as [x|]; [exact (G3 eq_refl)|].
    destruct (option_map_fst_some _ _ Ho) as [s Es].
    exact (set_host_none_Canon dbg hp hpo hd HRT u u' s IH Hk Es).
  - (* path_segments_mut on an opaque path: refused, the record is unchanged *)
    destruct (Canon_cbb_some u IH) as [b Eb]. rewrite (cbb_is_cbb u b Eb) in Ht. subst b.
    unfold path_segments_session, path_segments_mut in Ho. rewrite Eb in Ho. cbn [bindo option_map fst] in Ho.
    inversion Ho; subst u'. exact IH.
  - (* quirks host *)
    destruct (option_map_fst_some _ _ Ho) as [s0 Es].
    exact (q_set_host_Canon dbg hp hpo hd HRT HAb u s u' s0 (proj1 HNE) IH Hk3 Es Hb).
  - (* quirks hostname *)
    destruct (option_map_fst_some _ _ Ho) as [s0 Es].
    exact (q_set_hostname_Canon dbg hp hpo hd HRT HAb u s u' s0 IH Hk Es Hb).
  - (* quirks pathname *)
    exact (q_set_pathname_Canon_all dbg hp hpo hd u s u' IH Ha Hk Ho Hb).
Qed.

Inductive ReachC4 : url -> Prop :=
| RC4_parse ovr input u :
    usv_list input -> nonfile_input input = true -> (ovr = None \/ special_input input = false) ->
    parse_url dbg hp hpo hd ovr None input = POk u -> ReachC4 u
| RC4_join ovr b input u :
    ReachC4 b -> usv_list input -> tail_ref input = true ->
    (ovr = None \/ st_is_special (scheme_type_of (b_scheme b)) = false) ->
    parse_url dbg hp hpo hd ovr (Some b) input = POk u -> ReachC4 u
| RC4_step u o u' :
    ReachC4 u -> canon_op4 u o = true -> op_args_ok o -> known_step3 dbg hp hpo hd u o = false ->
    apply_op dbg hp hpo hd u o = Some u' -> nlen (ser u') <= U32_MAX_P -> ReachC4 u'
| RC4_qpm u ops u' :
    ReachC4 u -> Forall op_ok ops -> query_pairs_session dbg u ops = Some u' ->
    nlen (ser u') <= U32_MAX_P -> ReachC4 u'.

Lemma ReachC3_C4 u : ReachC3 dbg hp hpo hd u -> ReachC4 u.
Proof.
  induction 1 as [ovr input u Hu Hn Hov Hp | ovr b input u Hr IH Hu Ht Hov Hp | u o u' Hr IH Ht Ha Hk Ho Hb
                 | u ops u' Hr IH Hops Hs Hb].
  - exact (RC4_parse ovr input u Hu Hn Hov Hp).
  - exact (RC4_join ovr b input u IH Hu Ht Hov Hp).
  - apply (RC4_step u o u' IH (canon_op3_4 u o Ht) Ha); [|exact Ho | exact Hb].
    unfold known_step3. rewrite Hk. exact (canon_op3_not_10 u o Ht).
  - exact (RC4_qpm u ops u' IH Hops Hs Hb).
Qed.

Theorem ReachC4_Canon u : ReachC4 u -> Canon hp hpo hd u.
Proof using HOK HNE HRT HAb HIP.
  induction 1 as [ovr input u Hu Hn Hov Hp | ovr b input u Hr IH Hu Ht Hov Hp | u o u' Hr IH Ht Ha Hk Ho Hb
                 | u ops u' Hr IH Hops Hs Hb].
  - exact (parse_Canon dbg hp hpo hd HRT ovr input u HAb Hu Hn Hov Hp).
  - exact (join_tail_Canon dbg hp hpo hd HRT ovr b input u IH Hu Ht Hov Hp).
  - exact (canon_op4_step u o u' IH Ht Ha Hk Ho Hb).
  - exact (qpm_Canon dbg hp hpo hd HRT u ops u' IH Hops Hs Hb).
Qed.

Theorem reach_partial4 u : ReachC4 u ->
  Fixpoint_of_reparse dbg hp hpo hd u /\ wf_b u = true /\ ascii (ser u).
Proof using HOK HNE HRT HAb HIP. intros H. exact (Canon_fixpoint dbg hp hpo hd HRT u (ReachC4_Canon u H)). Qed.

Theorem reach4_absolute u b : ReachC4 u ->
  parse_url dbg hp hpo hd None (Some b) (utf8_lossy (ser u)) = POk u.
Proof using HOK HNE HRT HAb HIP.
  intros H. exact (absolute_form dbg hp hpo hd HRT b u (Canon_nonfile_form hp hpo hd u (ReachC4_Canon u H))).
Qed.

Theorem ReachC4_Reachable4 u : ReachC4 u -> Reachable4 dbg hp hpo hd u.
Proof using HOK HNE HRT HAb HIP.
  intros H. induction H as [ovr input u Hu Hn Hov Hp | ovr b input u Hr IH Hu Ht Hov Hp | u o u' Hr IH Ht Ha Hk Ho Hb
                           | u ops u' Hr IH Hops Hs Hb].
  - apply (R4_parse dbg hp hpo hd ovr input u Hu Hp).
    apply (Canon_not_file_drive hp hpo hd). exact (parse_Canon dbg hp hpo hd HRT ovr input u HAb Hu Hn Hov Hp).
  - apply (R4_join dbg hp hpo hd ovr b input u IH Hu Hp).
    apply (Canon_not_file_drive hp hpo hd). apply ReachC4_Canon. exact (RC4_join ovr b input u Hr Hu Ht Hov Hp).
  - apply (R4_step dbg hp hpo hd u o u' IH Ha Hk Ho).
    apply (Canon_not_file_drive hp hpo hd). apply ReachC4_Canon. exact (RC4_step u o u' Hr Ht Ha Hk Ho Hb).
  - apply (R4_qpm dbg hp hpo hd u ops u' IH Hops Hs).
    apply (Canon_not_file_drive hp hpo hd). apply ReachC4_Canon. exact (RC4_qpm u ops u' Hr Hops Hs Hb).
Qed.
End ReachC4.

(* the theorem for the parser model linked with the host model: the only premise about hosts is IdnaOK *)
Theorem reach_partial4_model dbg idna : IdnaOK idna -> forall u,
  ReachC4 dbg (host_parse idna) host_parse_opaque host_display u ->
  Fixpoint_of_reparse dbg (host_parse idna) host_parse_opaque host_display u /\ wf_b u = true /\ ascii (ser u).
Proof. intros OK u. exact (reach_partial4 dbg _ _ _ (HostOK2_model idna OK) (host_nonempty_model idna) u). Qed.

(* ================= non-vacuity, on the host model (idna_clean), release and debug builds ================= *)
(* a://u:pw@h.x:81/p?q -> quirks hostname("example.org") -> quirks host("[::1]:82") = a://u:pw@[::1]:82/p?q ->
   set_host(None) = a:/p?q -> set_path("x/../y z") = a:/y%20z?q -> set_path("") = a:?q (opaque, empty path) ;
   a:/p -> quirks host("") = a:///p ; a://h/p -> quirks pathname("") = a://h ; release build: a://h?q -> set_host(None) = a:?q *)
Definition m_hist_r (start : string) (ops : list op) : option url :=
  match parse_url false mhp host_parse_opaque host_display None None (B start) with
  | POk u => fold_left (fun acc o => match acc with Some v => apply_op false mhp host_parse_opaque host_display v o | None => None end) ops (Some u)
  | _ => None
  end.

Example reach4_example :
  match m_hist "a://u:pw@h.x:81/p?q" [OQHostname (B "example.org")] with
  | Some u => list_eqb (ser u) (B "a://u:pw@example.org:81/p?q") && m_fix u | None => false end = true
  /\ match m_hist "a://u:pw@h.x:81/p?q" [OQHostname (B "example.org"); OQHost (B "[::1]:82")] with
     | Some u => list_eqb (ser u) (B "a://u:pw@[::1]:82/p?q") && m_fix u | None => false end = true
  /\ match m_hist "a://u:pw@h.x:81/p?q" [OQHostname (B "example.org"); OQHost (B "[::1]:82"); OSetHost None] with
     | Some u => list_eqb (ser u) (B "a:/p?q") && m_fix u | None => false end = true
  /\ match m_hist "a://u:pw@h.x:81/p?q" [OQHostname (B "example.org"); OQHost (B "[::1]:82"); OSetHost None; OSetPath (B "x/../y z")] with
     | Some u => list_eqb (ser u) (B "a:/y%20z?q") && m_fix u | None => false end = true
  /\ match m_hist "a://u:pw@h.x:81/p?q" [OQHostname (B "example.org"); OQHost (B "[::1]:82"); OSetHost None; OSetPath (B "x/../y z"); OSetPath []] with
     | Some u => list_eqb (ser u) (B "a:?q") && m_fix u | None => false end = true
  /\ match m_hist "a:/p" [OQHost []] with Some u => list_eqb (ser u) (B "a:///p") && m_fix u | None => false end = true
  /\ match m_hist "a://h/p" [OQPathname []] with Some u => list_eqb (ser u) (B "a://h") && m_fix u | None => false end = true
  /\ match m_hist "a:b?q" [OSetPath (B "/x y/z")] with Some u => list_eqb (ser u) (B "a:%2Fx y/z?q") && m_fix u | None => false end = true
  /\ match m_hist "a://h?q" [OSetHost None] with Some _ => false | None => true end = true
  /\ match m_hist_r "a://h?q" [OSetHost None] with Some u => list_eqb (ser u) (B "a:?q") && m_fix u | None => false end = true.
Proof. vm_compute. repeat split. Qed.
