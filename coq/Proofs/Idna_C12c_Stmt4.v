(* Proofs/Idna_C12c_Stmt4.v - C12 after the proof of clause u_of_a (Proofs/Idna_C12c_UofA.v).
   - C12_statement3 (Proofs/Idna_C12b_Stmt3.v) is FALSE for an abstract adapter that satisfies its six adapter premises:
     none of them relates map_normalize to normalize_validate on a text that normalize_validate ACCEPTS (ok_stable goes
     from map_normalize output to normalize_validate only).  Adapter mapad: map_normalize rewrites U+00E9 to U+00EA,
     normalize_validate accepts every scalar value.  xn--9ca is accepted (Borrowed), ToUnicode shows U+00E9, and ToASCII
     of that is xn--bda: clause a_of_u fails.  A refutation of the STATEMENT, not a defect of the crate: the real
     normalize_validate accepts a label only if every character is valid (maps to itself) and the label is NFC.
   - the missing premise, NvMapFix: a text that normalize_validate returns unchanged and without U+FFFD is a fixed point
     of map_normalize.  Sampled on the real idna_adapter by the `adapter` stream as ok_nv_mapfix.
   - C12_statement4 = C12_statement3 with the premise NvMapFix.  Stated; proved part: clause u_of_a (c12_u_of_a, which
     needs neither NvMapFix nor the exclusion of Known_C12 / Known_C11) and all "no error" facts. *)
From RU Require Import Base.Prelude Base.Utf8 Base.U32_c13 Gen.Tables Model.Punycode Model.Uts46
  Proofs.Idna_Sim Proofs.Idna_Api Proofs.Idna_Known Proofs.Idna_Hyp Proofs.Idna_Redisc Proofs.Idna_C12 Proofs.Idna_C10_Deny Proofs.Idna_C10_Prefix
  Proofs.Idna_C10_Inner Proofs.Idna_C10_Walk Proofs.Idna_C10b_Long Proofs.Idna_C10b_Stmt Proofs.Idna_WalkEnc
  Proofs.Idna_C10c_Puny Proofs.Idna_C10c_Drun Proofs.Idna_C10c_Idem Proofs.Idna_C10c_Example Proofs.Idna_C10c_Refute Proofs.Idna_C12b_Stmt3
  Proofs.Idna_C12c_UofA.

Definition NvMapFix (A : adapter) : Prop := forall l,
  existsb is_fffd (normalize_validate A l) = false -> normalize_validate A l = l -> map_normalize A l = l.

Section Statement4.
Variable A : adapter.
Variable cfg : bool.
Definition C12_statement4 : Prop :=
  AdapterOK A -> AdapterUSV A -> NvNoTrunc A -> NvIdem A -> AsciiNoMark A -> MapPrefix A -> NvMapFix A -> forall d deny hy b a,
  bytes d -> valid_deny deny -> Known_C12 A cfg d deny hy = false -> Known_C11 A cfg d deny hy = false ->
  to_ascii A cfg d deny hy DIgnore = Ok (b, a) -> Known_C10_long a = false ->
  let u := ui_text (to_unicode A cfg d deny hy) in
  (ui_text (to_unicode A cfg a deny hy) = u /\ ui_err (to_unicode A cfg a deny hy) = false) /\
  (exists b', to_ascii A cfg (utf8_encode u) deny hy DIgnore = Ok (b', a)) /\
  (ui_text (to_unicode A cfg (utf8_encode u) deny hy) = u /\ ui_err (to_unicode A cfg (utf8_encode u) deny hy) = false) /\
  (forall p, exists b', to_ascii A cfg (utf8_encode (ui_text (to_user_interface A cfg d deny hy p))) deny hy DIgnore = Ok (b', a)).
End Statement4.

(* ---------------------------------------------------------------- the adapter of the refutation *)
Definition map_e (c : N) : N := if c =? 233 then 234 else san_low c.
Definition mapad : adapter :=
  {| map_normalize := map map_e; normalize_validate := map san_id;
     joining_type := fun _ => 0; bidi_class := toy_bc;
     is_mark := fun _ => false; is_virama := fun _ => false |}.

Lemma map_e_usv c : is_usv (map_e c).
Proof. unfold map_e. destruct (c =? 233); [unfold is_usv; lia|apply san_low_usv]. Qed.
Lemma map_e_lower c : map_e (to_lower c) = map_e c.
Proof.
  unfold map_e. rewrite san_low_lower.
  replace (to_lower c =? 233) with (c =? 233); [reflexivity|]. unfold to_lower, is_upper. destruct ((65 <=? c) && (c <=? 90)) eqn:E; [lia|reflexivity].
Qed.
Lemma map_e_ascii c : c < 128 -> map_e c = to_lower c.
Proof. intros H. unfold map_e. replace (c =? 233) with false by lia. apply san_low_ascii. exact H. Qed.

Lemma mapad_usv : AdapterUSV mapad.
Proof.
  constructor; intros l; cbn [mapad map_normalize normalize_validate]; unfold usv_list; apply Forall_forall; intros x Hx;
    apply in_map_iff in Hx; destruct Hx as (c & <- & _); [apply map_e_usv|apply san_id_usv].
Qed.
Lemma mapad_ok : AdapterOK mapad.
Proof.
  constructor; cbn [mapad map_normalize normalize_validate].
  - reflexivity.
  - intros l H. unfold is_ascii_l in H. rewrite forallb_forall in H. apply map_ext_in. intros c Hc.
    specialize (H c Hc). unfold is_ascii_cp in H. apply map_e_ascii. lia.
  - intros l l' H. unfold ascii_case_variant in H.
    assert (G : forall x, map map_e x = map map_e (map to_lower x)).
    { intros x. rewrite map_map. apply map_ext. intros c. symmetry. apply map_e_lower. }
    rewrite (G l), (G l'), H. reflexivity.
  - intros l _ piece Hp. apply map_san_id_fix.
    pose proof (usv_map mapad mapad_usv l) as Hu. cbn [mapad map_normalize] in Hu.
    pose proof (Idna_C10_Deny.split_on_Forall is_usv DOT _ Hu) as Hs. rewrite Forall_forall in Hs. exact (Hs piece Hp).
  - intros l H1 H2 E. rewrite E in H2. rewrite H1 in H2. discriminate.
Qed.
Lemma mapad_premises : AdapterOK mapad /\ AdapterUSV mapad /\ NvNoTrunc mapad /\ NvIdem mapad /\ AsciiNoMark mapad /\ MapPrefix mapad.
Proof.
  split; [exact mapad_ok|]. split; [exact mapad_usv|]. split; [|split; [|split]].
  - intros l t H. cbn [mapad normalize_validate] in H. apply (f_equal (@List.length N)) in H.
    rewrite app_length, map_length in H. destruct t; [reflexivity|]. cbn [List.length] in H. lia.
  - intros l _. cbn [mapad normalize_validate]. apply map_san_id_fix. exact (usv_norm mapad mapad_usv l).
  - intros c _. reflexivity.
  - intros a c r Ha Hc. cbn [mapad map_normalize]. rewrite map_app. f_equal.
    unfold is_ascii_l in Ha. rewrite forallb_forall in Ha. apply map_ext_in. intros x Hx. specialize (Ha x Hx).
    unfold is_ascii_cp in Ha. apply map_e_ascii. lia.
Qed.
Lemma mapad_not_mapfix : ~ NvMapFix mapad.
Proof. intros H. specialize (H [233] eq_refl eq_refl). vm_compute in H. discriminate. Qed.

Definition W_stmt3 : list N := [120; 110; 45; 45; 57; 99; 97].      (* xn--9ca *)
Definition W_stmt3_2 : list N := [120; 110; 45; 45; 98; 100; 97].   (* xn--bda *)
Lemma w_c12_stmt3 :
  to_ascii mapad false W_stmt3 DENY_EMPTY HAllow DIgnore = Ok (true, W_stmt3) /\
  Known_C12 mapad false W_stmt3 DENY_EMPTY HAllow = false /\ Known_C11 mapad false W_stmt3 DENY_EMPTY HAllow = false /\
  Known_C10_long W_stmt3 = false /\
  to_unicode mapad false W_stmt3 DENY_EMPTY HAllow = UI false [233] false /\
  to_ascii mapad false (utf8_encode [233]) DENY_EMPTY HAllow DIgnore = Ok (false, W_stmt3_2).
Proof. vm_compute. repeat split; reflexivity. Qed.

Theorem c12_statement3_refuted : exists A cfg,
  AdapterOK A /\ AdapterUSV A /\ NvNoTrunc A /\ NvIdem A /\ AsciiNoMark A /\ MapPrefix A /\ ~ C12_statement3 A cfg.
Proof.
  exists mapad, false. destruct mapad_premises as (H1 & H2 & H3 & H4 & H5 & H6).
  repeat (split; [assumption|]). intros HS.
  destruct w_c12_stmt3 as (E1 & K1 & K2 & K3 & U1 & E2).
  assert (Hb : bytes W_stmt3) by (unfold W_stmt3; repeat constructor; unfold is_byte; lia).
  destruct (HS H1 H2 H3 H4 H5 H6 W_stmt3 DENY_EMPTY HAllow true W_stmt3 Hb deny_empty_valid K1 K2 E1 K3) as (_ & (b' & Hx) & _).
  rewrite U1 in Hx. cbn [ui_text] in Hx. rewrite E2 in Hx. inversion Hx.
Qed.

(* ---------------------------------------------------------------- the premises of C12_statement4 are satisfiable *)
Definition san_nv (c : N) : N := if is_upper c then FFFD else san_id c.
Definition lowsan4 : adapter :=
  {| map_normalize := map san_low; normalize_validate := map san_nv;
     joining_type := fun _ => 0; bidi_class := toy_bc;
     is_mark := fun _ => false; is_virama := fun _ => false |}.

Lemma san_nv_usv c : is_usv (san_nv c).
Proof. unfold san_nv. destruct (is_upper c); [unfold is_usv, FFFD, REPLACEMENT; lia|apply san_id_usv]. Qed.
Lemma san_nv_fix c : is_usv c -> is_upper c = false -> san_nv c = c.
Proof. intros H1 H2. unfold san_nv. rewrite H2. apply san_id_fix. exact H1. Qed.
Lemma san_low_noupper c : is_upper (san_low c) = false.
Proof.
  unfold san_low. destruct (is_usvb c); [|reflexivity]. unfold to_lower, is_upper. destruct ((65 <=? c) && (c <=? 90)) eqn:E; [lia|exact E].
Qed.
Lemma san_nv_inv c : san_nv c = c -> c <> FFFD -> is_usv c /\ is_upper c = false.
Proof.
  unfold san_nv. destruct (is_upper c) eqn:E; [intros H Hn; symmetry in H; contradiction|]. intros H _. split; [|reflexivity].
  rewrite <- H. apply san_id_usv.
Qed.
Lemma san_low_fix c : is_usv c -> is_upper c = false -> san_low c = c.
Proof.
  intros H1 H2. unfold san_low. apply usvb_spec in H1. rewrite H1. unfold to_lower. rewrite H2. reflexivity.
Qed.

Lemma lowsan4_usv : AdapterUSV lowsan4.
Proof.
  constructor; intros l; cbn [lowsan4 map_normalize normalize_validate]; unfold usv_list; apply Forall_forall; intros x Hx;
    apply in_map_iff in Hx; destruct Hx as (c & <- & _); [apply san_low_usv|apply san_nv_usv].
Qed.
Lemma map_san_nv_fix l : Forall (fun c => is_usv c /\ is_upper c = false) l -> map san_nv l = l.
Proof. induction 1 as [|c r [H1 H2] _ IH]; [reflexivity|]. cbn [map]. rewrite IH, (san_nv_fix c H1 H2). reflexivity. Qed.
Lemma map_san_nv_out l : Forall (fun c => is_usv c /\ (is_upper c = false)) (map san_low l).
Proof. apply Forall_forall. intros x Hx. apply in_map_iff in Hx. destruct Hx as (c & <- & _). split; [apply san_low_usv|apply san_low_noupper]. Qed.

Lemma lowsan4_ok : AdapterOK lowsan4.
Proof.
  constructor; cbn [lowsan4 map_normalize normalize_validate].
  - reflexivity.
  - intros l H. unfold is_ascii_l in H. rewrite forallb_forall in H. apply map_ext_in. intros c Hc.
    specialize (H c Hc). unfold is_ascii_cp in H. apply san_low_ascii. lia.
  - intros l l' H. unfold ascii_case_variant in H.
    assert (G : forall x, map san_low x = map san_low (map to_lower x)).
    { intros x. rewrite map_map. apply map_ext. intros c. symmetry. apply san_low_lower. }
    rewrite (G l), (G l'), H. reflexivity.
  - intros l _ piece Hp. apply map_san_nv_fix.
    pose proof (Idna_C10_Deny.split_on_Forall _ DOT _ (map_san_nv_out l)) as Hs. rewrite Forall_forall in Hs. exact (Hs piece Hp).
  - intros l H1 H2 E. rewrite E in H2. rewrite H1 in H2. discriminate.
Qed.

Lemma nofffd_fix l : existsb is_fffd (map san_nv l) = false -> map san_nv (map san_nv l) = map san_nv l.
Proof.
  intros H. apply map_san_nv_fix. apply Forall_forall. intros x Hx. pose proof (existsb_false_in is_fffd _ x H Hx) as Hf.
  apply in_map_iff in Hx. destruct Hx as (c & <- & _). unfold san_nv in *. destruct (is_upper c) eqn:E.
  - unfold is_fffd in Hf. rewrite N.eqb_refl in Hf. discriminate.
  - split; [apply san_id_usv|]. unfold san_id. destruct (is_usvb c); [exact E|reflexivity].
Qed.

Lemma lowsan4_premises :
  AdapterOK lowsan4 /\ AdapterUSV lowsan4 /\ NvNoTrunc lowsan4 /\ NvIdem lowsan4 /\ AsciiNoMark lowsan4 /\ MapPrefix lowsan4 /\ NvMapFix lowsan4.
Proof.
  split; [exact lowsan4_ok|]. split; [exact lowsan4_usv|]. split; [|split; [|split; [|split]]].
  - intros l t H. cbn [lowsan4 normalize_validate] in H. apply (f_equal (@List.length N)) in H.
    rewrite app_length, map_length in H. destruct t; [reflexivity|]. cbn [List.length] in H. lia.
  - intros l H. cbn [lowsan4 normalize_validate] in *. apply nofffd_fix. exact H.
  - intros c _. reflexivity.
  - intros a c r Ha Hc. cbn [lowsan4 map_normalize]. rewrite map_app. f_equal.
    unfold is_ascii_l in Ha. rewrite forallb_forall in Ha. apply map_ext_in. intros x Hx. specialize (Ha x Hx).
    unfold is_ascii_cp in Ha. apply san_low_ascii. lia.
  - intros l Hf Hl. cbn [lowsan4 map_normalize normalize_validate] in *. rewrite Hl in Hf.
    revert Hl Hf. induction l as [|c r IH]; intros Hl Hf; [reflexivity|]. cbn [map existsb] in *. inversion Hl as [[Hc Hr]].
    apply orb_false_iff in Hf. destruct Hf as [Hf1 Hf2]. rewrite Hc, Hr.
    assert (Hn : c <> FFFD) by (intros ->; unfold is_fffd in Hf1; rewrite N.eqb_refl in Hf1; discriminate).
    destruct (san_nv_inv c Hc Hn) as [Hu1 Hu2]. rewrite (san_low_fix c Hu1 Hu2), (IH Hr Hf2). reflexivity.
Qed.

(* under lowsan4 "A.B<u-umlaut>cher" goes through all four clauses *)
Example w_c12_stmt4 :
  to_ascii lowsan4 true W_idem3 DENY_URL HCheck DIgnore = Ok (false, W_idem3_A) /\
  Known_C12 lowsan4 true W_idem3 DENY_URL HCheck = false /\ Known_C11 lowsan4 true W_idem3 DENY_URL HCheck = false /\
  Known_C10_long W_idem3_A = false /\
  to_unicode lowsan4 true W_idem3 DENY_URL HCheck = UI false [97; 46; 98; 252; 99; 104; 101; 114] false /\
  to_unicode lowsan4 true W_idem3_A DENY_URL HCheck = UI false [97; 46; 98; 252; 99; 104; 101; 114] false /\
  to_ascii lowsan4 true (utf8_encode [97; 46; 98; 252; 99; 104; 101; 114]) DENY_URL HCheck DIgnore = Ok (false, W_idem3_A) /\
  to_unicode lowsan4 true (utf8_encode [97; 46; 98; 252; 99; 104; 101; 114]) DENY_URL HCheck = UI false [97; 46; 98; 252; 99; 104; 101; 114] false.
Proof. vm_compute. repeat split; reflexivity. Qed.
