(* Proofs/C20_Path.v - splitting at separators, the std::path model, and the path written by
   from_file_path / read back by to_file_path. *)
From RU Require Import Base.Prelude Model.AsciiSet Gen.Tables Model.PercentEncoding
  Model.HostT Model.UrlRecord Model.Parser Model.FilePath
  Proofs.C14_Set Proofs.C14_Enc Proofs.C14_Views Proofs.ListN.

(* "/c1/c2/.../cn" *)
Definition join_slash (cs : list (list N)) : list N := flat_map (fun c => 47 :: c) cs.

Lemma join_slash_cons c cs : join_slash (c :: cs) = 47 :: c ++ join_slash cs.
Proof. reflexivity. Qed.

Lemma join_slash_app a b : join_slash (a ++ b) = join_slash a ++ join_slash b.
Proof. unfold join_slash. apply flat_map_app. Qed.

Lemma join_slash_snoc a c : join_slash (a ++ [c]) = join_slash a ++ 47 :: c.
Proof. rewrite join_slash_app. cbn [join_slash flat_map]. rewrite app_nil_r. reflexivity. Qed.

(* ---------- split_on ---------- *)
Lemma split_aux_sep sep acc l : split_on_aux sep acc (sep :: l) = rev acc :: split_on_aux sep [] l.
Proof. cbn [split_on_aux]. rewrite N.eqb_refl. reflexivity. Qed.

Lemma split_aux_nil sep acc : split_on_aux sep acc [] = [rev acc].
Proof. reflexivity. Qed.

Lemma split_aux_nosep sep c : forall acc l, ~ In sep c ->
  split_on_aux sep acc (c ++ l) = split_on_aux sep (rev c ++ acc) l.
Proof.
  induction c as [|x c IH]; intros acc l Hn.
  - reflexivity.
  - cbn [app split_on_aux]. destruct (x =? sep) eqn:E.
    + exfalso. apply Hn. left. lia.
    + rewrite IH by (intros Hi; apply Hn; right; exact Hi).
      cbn [rev]. rewrite <- app_assoc. reflexivity.
Qed.

(* the pieces after a possible trailing separator *)
Definition tail_pieces (t : list N) : list (list N) := match t with [] => [] | _ => [[]] end.

Lemma split_join sep ks : forall acc t, (t = [] \/ t = [sep]) ->
  Forall (fun k => ~ In sep k) ks ->
  split_on_aux sep acc (flat_map (fun c => sep :: c) ks ++ t) = rev acc :: ks ++ tail_pieces t.
Proof.
  induction ks as [|k ks IH]; intros acc t Ht Hks.
  - cbn [flat_map app]. destruct Ht as [-> | ->].
    + reflexivity.
    + rewrite split_aux_sep. reflexivity.
  - inversion Hks as [|? ? Hk Hks']; subst.
    cbn [flat_map]. rewrite <- !app_comm_cons. rewrite split_aux_sep. f_equal.
    rewrite <- app_assoc. rewrite split_aux_nosep by exact Hk.
    rewrite IH by assumption. rewrite app_nil_r, rev_involutive. reflexivity.
Qed.

Lemma split_join_slash ks t : (t = [] \/ t = [47]) -> Forall (fun k => ~ In 47 k) ks ->
  split_on 47 (join_slash ks ++ t) = [] :: ks ++ tail_pieces t.
Proof. intros Ht Hks. unfold split_on, join_slash. rewrite split_join by assumption. reflexivity. Qed.

(* what path_segments sees: the path without its first '/' *)
Lemma split_join_slash_tl k ks : Forall (fun k => ~ In 47 k) (k :: ks) ->
  split_on 47 (k ++ join_slash ks) = k :: ks.
Proof.
  intros H. inversion H as [|? ? Hk Hks]; subst. unfold split_on.
  rewrite split_aux_nosep by exact Hk. rewrite app_nil_r.
  rewrite <- (app_nil_r (join_slash ks)). unfold join_slash. rewrite split_join by (auto).
  rewrite rev_involutive. cbn [tail_pieces]. rewrite app_nil_r. reflexivity.
Qed.

(* pieces contain no separator, and only elements of the input *)
Lemma split_aux_pieces (P : N -> Prop) sep : forall l acc,
  Forall P acc -> Forall P l -> Forall (Forall P) (split_on_aux sep acc l).
Proof.
  induction l as [|x l IH]; intros acc Ha Hl.
  - cbn [split_on_aux]. constructor; [|constructor]. apply Forall_rev. exact Ha.
  - inversion Hl as [|? ? Hx Hl']; subst. cbn [split_on_aux]. destruct (x =? sep).
    + constructor; [apply Forall_rev; exact Ha | apply IH; [constructor | exact Hl']].
    + apply IH; [constructor; assumption | exact Hl'].
Qed.

Lemma split_aux_nosep_pieces sep : forall l acc,
  ~ In sep acc -> Forall (fun k => ~ In sep k) (split_on_aux sep acc l).
Proof.
  induction l as [|x l IH]; intros acc Ha.
  - cbn [split_on_aux]. constructor; [|constructor]. intros Hi. apply Ha. apply in_rev. exact Hi.
  - cbn [split_on_aux]. destruct (x =? sep) eqn:E.
    + constructor; [intros Hi; apply Ha; apply in_rev; exact Hi | apply IH; intros []].
    + apply IH. intros [Hx | Hi]; [lia | exact (Ha Hi)].
Qed.

Lemma split_on_bytes p : bytes p -> Forall bytes (split_on 47 p).
Proof. intros H. unfold split_on. apply (split_aux_pieces is_byte); [constructor | exact H]. Qed.

Lemma split_on_nosep p : Forall (fun k => ~ In 47 k) (split_on 47 p).
Proof. unfold split_on. apply split_aux_nosep_pieces. intros []. Qed.

(* ---------- the kept pieces of a path ---------- *)
Definition kept (p : list N) : list (list N) := filter keep_piece (split_on 47 p).

Lemma Forall_filter {A} (P : A -> Prop) f (l : list A) : Forall P l -> Forall P (filter f l).
Proof.
  induction l as [|x l IH]; intros H; [constructor|].
  inversion H; subst. cbn [filter]. destruct (f x); [constructor; auto | auto].
Qed.

Lemma filter_all {A} f (l : list A) : Forall (fun x => f x = true) l -> filter f l = l.
Proof.
  induction l as [|x l IH]; intros H; [reflexivity|].
  inversion H as [|? ? Hx Hl]; subst. cbn [filter]. rewrite Hx. f_equal. exact (IH Hl).
Qed.

Lemma filter_keeps {A} f (l : list A) : Forall (fun x => f x = true) (filter f l).
Proof.
  induction l as [|x l IH]; [constructor|]. cbn [filter]. destruct (f x) eqn:E; [constructor; assumption | exact IH].
Qed.

Lemma kept_bytes p : bytes p -> Forall bytes (kept p).
Proof. intros H. apply Forall_filter. apply split_on_bytes. exact H. Qed.

Lemma kept_nosep p : Forall (fun k => ~ In 47 k) (kept p).
Proof. apply Forall_filter. apply split_on_nosep. Qed.

Lemma kept_keep p : Forall (fun k => keep_piece k = true) (kept p).
Proof. apply filter_keeps. Qed.

Lemma components_abs p : path_is_absolute p = true ->
  path_components p = CRootDir :: map component_of_piece (kept p).
Proof. intros H. unfold path_components. rewrite H. reflexivity. Qed.

(* a match on the literal 46 whose scrutinee differs from 46 takes the default branch *)
Lemma N_match46 {A} (a : N) (X Y : A) : a <> 46 -> (match a with 46 => X | _ => Y end) = Y.
Proof.
  intros H. destruct a as [|p]; [reflexivity|].
  do 6 (destruct p as [p|p|]; try reflexivity). exfalso. apply H. reflexivity.
Qed.

Ltac m46 a := let H := fresh "Hne" in
  destruct (N.eq_dec a 46) as [->|H]; [|rewrite (N_match46 a) by exact H].

Lemma piece_is_dot_spec x : piece_is_dot x = true <-> x = [46].
Proof.
  split; [|intros ->; reflexivity].
  destruct x as [|a [|b r]]; cbn [piece_is_dot]; try discriminate.
  - m46 a; [reflexivity | discriminate].
  - m46 a; discriminate.
Qed.

Lemma piece_is_dotdot_spec x : piece_is_dotdot x = true <-> x = [46; 46].
Proof.
  split; [|intros ->; reflexivity].
  destruct x as [|a [|b [|c r]]]; cbn [piece_is_dotdot]; try discriminate.
  - m46 a; discriminate.
  - m46 a; [|discriminate]. m46 b; [reflexivity | discriminate].
  - m46 a; [|discriminate]. m46 b; discriminate.
Qed.

Lemma component_bytes_of_piece x : component_bytes (component_of_piece x) = x.
Proof.
  unfold component_of_piece. destruct (piece_is_dotdot x) eqn:E; [|reflexivity].
  apply piece_is_dotdot_spec in E. subst. reflexivity.
Qed.

Lemma keep_piece_nonempty k : keep_piece k = true -> k <> [].
Proof. intros H ->. discriminate H. Qed.

(* ---------- components of a rebuilt path ---------- *)
Lemma filter_tail_pieces t : filter keep_piece (tail_pieces t) = [].
Proof. destruct t; reflexivity. Qed.

Lemma components_join_slash ks t : (t = [] \/ t = [47]) -> ks <> [] ->
  Forall (fun k => ~ In 47 k) ks -> Forall (fun k => keep_piece k = true) ks ->
  path_components (join_slash ks ++ t) = CRootDir :: map component_of_piece ks.
Proof.
  intros Ht Hne Hns Hk.
  assert (Habs : path_is_absolute (join_slash ks ++ t) = true).
  { destruct ks as [|k ks]; [congruence|]. reflexivity. }
  rewrite components_abs by exact Habs. unfold kept.
  rewrite split_join_slash by assumption.
  cbn [filter keep_piece piece_is_empty negb andb]. rewrite filter_app, filter_tail_pieces, app_nil_r.
  rewrite filter_all by exact Hk. reflexivity.
Qed.

Lemma components_root t : (t = [] \/ t = [47]) -> path_components ([47] ++ t) = [CRootDir].
Proof. intros [-> | ->]; reflexivity. Qed.

(* ---------- Path::join with a single normal component ---------- *)
Lemma split_aux_snoc sep f : ~ In sep f -> forall p acc,
  split_on_aux sep acc (p ++ sep :: f) = split_on_aux sep acc p ++ [f].
Proof.
  intros Hf. induction p as [|x p IH]; intros acc.
  - cbn [app]. rewrite split_aux_sep, split_aux_nil.
    rewrite <- (app_nil_r f) at 1. rewrite split_aux_nosep by exact Hf.
    rewrite split_aux_nil, app_nil_r, rev_involutive. reflexivity.
  - cbn [app split_on_aux]. destruct (x =? sep); [cbn [app]; f_equal; apply IH | apply IH].
Qed.

Lemma kept_snoc p f : ~ In 47 f -> keep_piece f = true -> kept (p ++ 47 :: f) = kept p ++ [f].
Proof.
  intros Hn Hk. unfold kept, split_on. rewrite split_aux_snoc by exact Hn.
  rewrite filter_app. cbn [filter]. rewrite Hk. reflexivity.
Qed.

Lemma kept_trailing_slash p : kept (p ++ [47]) = kept p.
Proof.
  unfold kept, split_on. rewrite split_aux_snoc by (intros []).
  rewrite filter_app. cbn [filter keep_piece piece_is_empty negb andb]. apply app_nil_r.
Qed.

Lemma ends_with_byte_inv b p : ends_with_byte b p = true -> exists p0, p = p0 ++ [b].
Proof.
  unfold ends_with_byte. destruct (rev p) as [|x r] eqn:E; [discriminate|]. intros H.
  exists (rev r). rewrite <- (rev_involutive p), E. cbn [rev]. f_equal. f_equal. lia.
Qed.

Lemma abs_app p q : path_is_absolute p = true -> path_is_absolute (p ++ q) = true.
Proof. destruct p as [|x p]; [discriminate|]. intros H. exact H. Qed.

Theorem components_path_join p f : path_is_absolute p = true ->
  f <> [] -> ~ In 47 f -> keep_piece f = true -> piece_is_dotdot f = false ->
  path_components (path_join p f) = path_components p ++ [CNormal f].
Proof.
  intros Ha Hne Hn Hk Hdd. unfold path_join.
  assert (Hfa : path_is_absolute f = false).
  { destruct f as [|x f']; [reflexivity|]. destruct (path_is_absolute (x :: f')) eqn:E; [|reflexivity].
    exfalso. apply Hn. left.
    destruct x as [|px]; [discriminate E|]. do 6 (destruct px as [px|px|]; try discriminate E). reflexivity. }
  rewrite Hfa.
  assert (Hcop : component_of_piece f = CNormal f) by (unfold component_of_piece; rewrite Hdd; reflexivity).
  rewrite (components_abs p Ha).
  destruct (negb (piece_is_empty p) && negb (ends_with_byte 47 p)) eqn:E.
  - rewrite components_abs by (apply abs_app; exact Ha).
    cbn [app]. rewrite kept_snoc by assumption. rewrite map_app. cbn [map app]. rewrite Hcop. reflexivity.
  - assert (He : ends_with_byte 47 p = true).
    { destruct p as [|x p']; [discriminate Ha|]. cbn [piece_is_empty negb andb] in E.
      destruct (ends_with_byte 47 (x :: p')); [reflexivity | discriminate E]. }
    destruct (ends_with_byte_inv 47 p He) as [p0 Hp0]. subst p.
    rewrite components_abs by (apply abs_app; exact Ha).
    rewrite <- app_assoc. cbn [app]. rewrite kept_snoc by assumption. rewrite kept_trailing_slash.
    rewrite map_app. cbn [map app]. rewrite Hcop. reflexivity.
Qed.
