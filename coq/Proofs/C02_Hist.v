(* Proofs/C02_Hist.v - the corrected quantifier of C02.
   (F1) HostOK of C02_Reach.v cannot be met by url::Host (it asks hp [] = Ok (HDomain []) while Host::parse("")
        is Err(EmptyHost), and hpo (hd h) = Ok h for IPv4 values while Host::parse_opaque reads dotted decimal
        text as an opaque host); it also lacks host_above.  HostOK2 = HostRT /\ host_above /\ the IP clause
        restricted to what is true of url::Host.  HostOK (old) is kept under its name because theorems of
        other properties refute it for the host model (C09_host_records_refuted).
   (F2) F-C02-9: set_ip_host with an IPv4 address on a URL whose scheme is not special is not a fixpoint
        of re-parsing (host kind Ipv4 vs Domain).  Known_F_C02_9, known_step2, Reachable2 and the new
        C02_statement. *)
From Coq Require Import String.
From RU Require Import Base.Prelude Base.Utf8 Base.Utf8Facts Model.AsciiSet Gen.Tables
  Model.PercentEncoding Model.HostT Model.UrlRecord Model.Parser Model.Setters Model.WF
  Proofs.ListN Proofs.C02_Reach Proofs.C02_AuthParts Proofs.C02_AuthMain.
Open Scope N_scope.
Open Scope list_scope.

(* ================= F1: the host hypothesis ================= *)
(* the values Url::set_ip_host can be given are displayed as host texts that Host::parse reads back; for an
   IPv6 value Host::parse_opaque reads it back too (for an IPv4 value it does NOT: F-C02-9) *)
Definition ip_clause (hp hpo : list N -> result host) (hd : host -> list N) : Prop :=
  forall h, op_args_ok (OSetIpHost h) ->
    host_text_ok (hd h) /\ hp (hd h) = Ok h /\ (forall ps, h = HIpv6 ps -> hpo (hd h) = Ok h).

Definition HostOK2 (hp hpo : list N -> result host) (hd : host -> list N) : Prop :=
  HostRT hp hpo hd /\ host_above hp hpo hd /\ ip_clause hp hpo hd.

(* the old record is refuted by each of two facts about the host functions, both true of url::Host
   (C09_Inst.host_parse_nil_refuted, C09_Inst.opaque_ipv4_refuted) *)
Lemma HostOK_old_unsat hp hpo hd :
  hp [] <> Ok (HDomain []) \/ (exists a, a < 4294967296 /\ hpo (hd (HIpv4 a)) <> Ok (HIpv4 a)) ->
  ~ HostOK hp hpo hd.
Proof.
  intros [H|(a & Ha & H)] (_ & _ & H3 & _ & H5 & _).
  - exact (H H5).
  - apply H. exact (proj2 (proj2 (H3 (HIpv4 a) Ha))).
Qed.

(* what the old record had and the new one keeps: the parsing clauses *)
Lemma HostOK_old_RT_only hp hpo hd : HostOK hp hpo hd -> HostRT hp hpo hd.
Proof. exact (HostOK_RT hp hpo hd). Qed.

(* the old record together with host_above implies the new one: nothing true was dropped *)
Lemma HostOK_old_implies_new hp hpo hd : HostOK hp hpo hd -> host_above hp hpo hd -> HostOK2 hp hpo hd.
Proof.
  intros HOK HAb. split; [exact (HostOK_RT _ _ _ HOK)|]. split; [exact HAb|].
  destruct HOK as (_ & _ & H3 & _). intros h Hh. destruct (H3 h Hh) as (T & P & Po).
  split; [exact T|]. split; [exact P|]. intros ps _. exact Po.
Qed.

(* ================= F2: F-C02-9 ================= *)
(* set_ip_host with an IPv4 address on a URL whose scheme is not special: the non-special authority state
   parses hosts with Host::parse_opaque, which has no IPv4 arm *)
Definition Known_F_C02_9 (u : url) (o : op) : bool :=
  match o with
  | OSetIpHost (HIpv4 _) => negb (st_is_special (scheme_type_of (scheme_of u)))
  | _ => false
  end.

Section Reach2.
Variable dbg : bool.
Variable hp hpo : list N -> result host.
Variable hd : host -> list N.

Definition known_step2 (u : url) (o : op) : bool := known_step dbg hp hpo hd u o || Known_F_C02_9 u o.

Inductive Reachable2 : url -> Prop :=
| R2_parse ovr input u :
    usv_list input -> parse_url dbg hp hpo hd ovr None input = POk u ->
    Known_file_drive u = false -> Reachable2 u
| R2_join ovr b input u :
    Reachable2 b -> usv_list input -> parse_url dbg hp hpo hd ovr (Some b) input = POk u ->
    Known_file_drive u = false -> Reachable2 u
| R2_step u o u' :
    Reachable2 u -> op_args_ok o -> known_step2 u o = false -> apply_op dbg hp hpo hd u o = Some u' ->
    Known_file_drive u' = false -> Reachable2 u'.

(* the new quantifier is a restriction of the old one *)
Lemma Reachable2_old u : Reachable2 u -> Reachable dbg hp hpo hd u.
Proof.
  induction 1 as [ovr input u Hu Hp Hk | ovr b input u Hb IH Hu Hp Hk | u o u' Hr IH Ha Hk Ho Hk'].
  - exact (R_parse dbg hp hpo hd ovr input u Hu Hp Hk).
  - exact (R_join dbg hp hpo hd ovr b input u IH Hu Hp Hk).
  - apply (R_step dbg hp hpo hd u o u' IH Ha); [|exact Ho | exact Hk'].
    unfold known_step2 in Hk. apply orb_false_iff in Hk. exact (proj1 Hk).
Qed.
End Reach2.

(* ---------- C02, full strength (corrected) ---------- *)
Definition C02_statement : Prop :=
  forall dbg hp hpo hd, HostOK2 hp hpo hd ->
  forall u, Reachable2 dbg hp hpo hd u -> Fixpoint_of_reparse dbg hp hpo hd u.

(* ---------- the witness, with host functions that know IPv4 only through set_ip_host ---------- *)
(* toy_hp reads every text as a domain (as Host::parse_opaque does for dotted decimal text), toy_hd
   displays every IPv4 value as 127.0.0.1: a://x/ -> set_ip_host(127.0.0.1) -> a://127.0.0.1/ with the host
   kind Ipv4; the text re-parses with the host kind Domain *)
Lemma F_C02_9_refuted :
  witness_step Known_F_C02_9 "a://x/" (OSetIpHost (HIpv4 2130706433)) "a://127.0.0.1/" = true
  /\ match toy_parse "a://x/" with
     | POk u => negb (known_step true toy_hp toy_hp toy_hd u (OSetIpHost (HIpv4 2130706433)))
                && match toy_apply u (OSetIpHost (HIpv4 2130706433)) with
                   | Some u' => hi_eqb (hosti u') (HI_Ipv4 2130706433)
                                && match toy_reparse u' with
                                   | POk v => list_eqb (ser v) (ser u') && hi_eqb (hosti v) HI_Domain
                                   | _ => false
                                   end
                   | None => false
                   end
     | _ => false
     end = true.
Proof. vm_compute. split; reflexivity. Qed.

(* the class is tight on the scheme side: on a special URL the step is outside the class *)
Example F_C02_9_class :
  match toy_parse "http://x/" with POk u => Known_F_C02_9 u (OSetIpHost (HIpv4 2130706433)) | _ => true end = false
  /\ match toy_parse "a://x/" with POk u => Known_F_C02_9 u (OSetIpHost (HIpv6 [0;0;0;0;0;0;0;1])) | _ => true end = false
  /\ match toy_parse "a://x/" with POk u => Known_F_C02_9 u (OSetIpHost (HIpv4 1)) | _ => false end = true.
Proof. vm_compute. repeat split. Qed.

(* ================= the parse classes under the corrected hypothesis ================= *)
(* (the statements under HostOK in C02_AuthMain.v are vacuous for url::Host; these are not) *)
Theorem reparse_auth_HostOK2 dbg hp hpo hd ovr input u :
  HostOK2 hp hpo hd -> usv_list input -> auth_input input = true ->
  parse_url dbg hp hpo hd ovr None input = POk u ->
  Fixpoint_of_reparse dbg hp hpo hd u /\ wf_b u = true /\ canon_auth hp hpo hd STNotSpecial u.
Proof.
  intros (HRT & HAb & _) Hu Hc Hp.
  destruct (L1_auth dbg hp hpo hd HRT ovr input u HAb Hu Hc Hp) as (C & W & _).
  split; [exact (L3_auth dbg hp hpo hd HRT u C) | split; assumption].
Qed.

Theorem reparse_special_HostOK2 dbg hp hpo hd input u :
  HostOK2 hp hpo hd -> usv_list input -> special_input input = true ->
  parse_url dbg hp hpo hd None None input = POk u ->
  Fixpoint_of_reparse dbg hp hpo hd u /\ wf_b u = true /\ canon_special hp hpo hd u.
Proof.
  intros (HRT & HAb & _) Hu Hc Hp.
  destruct (L1_special dbg hp hpo hd HRT input u HAb Hu Hc Hp) as (C & W & _).
  split; [exact (L3_special dbg hp hpo hd HRT u C) | split; assumption].
Qed.

Theorem reparse_nonfile_HostOK2 dbg hp hpo hd input u :
  HostOK2 hp hpo hd -> usv_list input -> nonfile_input input = true ->
  parse_url dbg hp hpo hd None None input = POk u ->
  Fixpoint_of_reparse dbg hp hpo hd u /\ wf_b u = true /\ ascii (ser u).
Proof. intros (HRT & HAb & _). exact (reparse_nonfile dbg hp hpo hd input u HRT HAb). Qed.
