(* Proofs/C09_Long.v - finding F-C10-1 at the level of hosts, and the repaired oracle hypothesis.

   F-C10-1 (Proofs/Idna_C10b_Long.v): ToASCII accepts a label of at most 1000 scalar values whose Punycode form has
   more than 2000 characters after xn--, and rejects that output.  Host::parse hands every non-bracketed input to
   ToASCII, so the clause idna_fix of IdnaOK (Proofs/C09_Host.v: every oracle output is a fixed point of the oracle)
   is FALSE of the real idna crate, and every theorem stated relative to `IdnaOK idna` says nothing about it.

   Here:
   - known_c10_long = the class Known_C10_long of Proofs/Idna_C10b_Long.v, read for host texts;
   - IdnaOK2: IdnaOK with the fixed-point clause only for outputs outside the class (IdnaOK itself is not touched);
   - cap idna: the oracle that refuses the outputs inside the class; IdnaOK2 idna -> IdnaOK (cap idna), so every
     IdnaOK-relative theorem holds for the host model run with the capped oracle;
   - agreement: Host::parse with the capped oracle is Host::parse with the oracle itself unless the oracle's answer for
     the percent-decoded input is in the class, where it is Err IdnaError;
   - witnesses: a stand-in oracle that satisfies IdnaOK2, answers one input with a long label and refuses that label
     (as the crate does) - for it IdnaOK and the display round trip of C09 are false. *)
From RU Require Import Base.Prelude Base.Utf8 Base.Utf8Facts Model.AsciiSet Gen.Tables Model.PercentEncoding
  Model.HostT Model.Host Proofs.C09_V4 Proofs.C09_Wf Proofs.C09_Host Proofs.C16_RT6Model.
From RU Require Model.Uts46 Proofs.Idna_C10_Deny Proofs.Idna_C10_Prefix Proofs.Idna_C10b_Long.

(* ------------------------------------------------------------------ the class, on host texts *)
(* some dot-separated label starts with xn-- (any case) and has more than 2000 characters after it *)
Definition known_c10_long (d : list N) : bool := Idna_C10b_Long.Known_C10_long d.

(* a label inside the class starts with 'x' or 'X' and contains '-' *)
Lemma long_label_shape l : Forall (fun c => c < 128) l -> Idna_C10b_Long.long_puny_label l = true ->
  exists a b r, l = a :: b :: 45 :: 45 :: r /\ (a = 120 \/ a = 88).
Proof.
  intros Ha H. unfold Idna_C10b_Long.long_puny_label in H. apply andb_true_iff in H. destruct H as [Hp _].
  destruct (Idna_C10_Prefix.xn_prefix_spec l Ha Hp) as (a & b & r & E & Ha' & _). exists a, b, r. split; assumption.
Qed.

Lemma class_label d : known_c10_long d = true ->
  exists l, In l (Uts46.split_on Uts46.DOT d) /\ Idna_C10b_Long.long_puny_label l = true /\ (forall c, In c l -> In c d).
Proof.
  intros H. unfold known_c10_long, Idna_C10b_Long.Known_C10_long in H. apply existsb_exists in H.
  destruct H as (l & Hin & Hl). exists l. split; [exact Hin|]. split; [exact Hl|].
  assert (F : Forall (fun c => In c d) d) by (apply Forall_forall; intros c Hc; exact Hc).
  pose proof (Idna_C10_Deny.split_on_Forall (fun c => In c d) Uts46.DOT d F) as Hs. rewrite Forall_forall in Hs.
  intros c Hc. specialize (Hs l Hin). rewrite Forall_forall in Hs. exact (Hs c Hc).
Qed.

(* an ASCII text inside the class contains "x" or "X", and "-" *)
Lemma class_has_hyphen d : Forall (fun c => c < 128) d -> known_c10_long d = true ->
  In 45 d /\ (In 120 d \/ In 88 d).
Proof.
  intros Ha H. destruct (class_label d H) as (l & Hin & Hl & Hsub).
  assert (Hal : Forall (fun c => c < 128) l).
  { apply Forall_forall. intros c Hc. rewrite Forall_forall in Ha. exact (Ha c (Hsub c Hc)). }
  destruct (long_label_shape l Hal Hl) as (a & b & r & -> & Hx). split.
  - apply Hsub. right. right. left. reflexivity.
  - destruct Hx as [-> | ->]; [left | right]; apply Hsub; left; reflexivity.
Qed.

(* dotted decimal text is outside the class *)
Lemma digits_not_long d : Forall (fun c => is_digit c = true \/ c = 46) d -> known_c10_long d = false.
Proof.
  intros Hd. destruct (known_c10_long d) eqn:E; [|reflexivity]. exfalso.
  assert (Ha : Forall (fun c => c < 128) d).
  { eapply Forall_impl; [|exact Hd]. intros c [Hc | ->]; [unfold is_digit in Hc|]; lia. }
  destruct (class_has_hyphen d Ha E) as [H45 _]. rewrite Forall_forall in Hd.
  destruct (Hd 45 H45) as [Hc|Hc]; [vm_compute in Hc|]; discriminate.
Qed.

Lemma ipv4_display_not_long a : a < 4294967296 -> known_c10_long (ipv4_display a) = false.
Proof. intros Ha. apply digits_not_long. exact (proj1 (ipv4_display_digits a Ha)). Qed.

(* a short text is outside the class (a member has more than 2004 characters) *)
Lemma split1_len sep l : forall h t, Uts46.split1 sep l = (h, t) ->
  (length h <= length l)%nat /\ Forall (fun x => (length x <= length l)%nat) t.
Proof.
  induction l as [|x r IH]; intros h t H; cbn [Uts46.split1] in H.
  - inversion H; subst. split; [lia|constructor].
  - destruct (Uts46.split1 sep r) as [h0 t0] eqn:E. destruct (IH h0 t0 eq_refl) as [I1 I2].
    assert (I3 : Forall (fun x0 => (length x0 <= length (x :: r))%nat) t0).
    { eapply Forall_impl; [|exact I2]. cbn [length]. intros; lia. }
    destruct (x =? sep); inversion H; subst; cbn [length].
    + split; [lia|]. constructor; [lia|exact I3].
    + split; [lia|exact I3].
Qed.

Lemma short_not_long d : (length d <= 2004)%nat -> known_c10_long d = false.
Proof.
  intros Hlen. destruct (known_c10_long d) eqn:E; [|reflexivity]. exfalso.
  unfold known_c10_long, Idna_C10b_Long.Known_C10_long in E. apply existsb_exists in E. destruct E as (l & Hin & Hl).
  unfold Uts46.split_on in Hin. destruct (Uts46.split1 Uts46.DOT d) as [h t] eqn:Es.
  destruct (split1_len _ _ _ _ Es) as [I1 I2].
  assert (Hll : (length l <= length d)%nat).
  { destruct Hin as [<-|Hin]; [exact I1|]. rewrite Forall_forall in I2. exact (I2 l Hin). }
  unfold Idna_C10b_Long.long_puny_label in Hl. apply andb_true_iff in Hl. destruct Hl as [_ Hl].
  unfold Uts46.PUNYCODE_DECODE_MAX_INPUT_LENGTH, Uts46.len in Hl.
  assert (T : T_IDNA_DECODE_MAX = 2000) by reflexivity. rewrite T in Hl. lia.
Qed.

(* ------------------------------------------------------------------ the repaired hypothesis *)
(* IdnaOK with the fixed-point clause restricted to the outputs outside the class.  What the clause says INSIDE the
   class is known for the IDNA model and for the crate: every member of the class is rejected (C10_long_rejected) *)
Record IdnaOK2 (idna : list N -> option (list N)) : Prop := {
  idna2_out : forall bs d, idna bs = Some d -> Forall dom_char_ok d;
  idna2_fix : forall bs d, idna bs = Some d -> known_c10_long d = false -> idna d = Some d;
  idna2_v4 : forall a, a < 4294967296 -> idna (ipv4_display a) = Some (ipv4_display a)
}.

(* IdnaOK2 is the weaker hypothesis *)
Lemma IdnaOK_IdnaOK2 idna : IdnaOK idna -> IdnaOK2 idna.
Proof.
  intros OK. constructor.
  - exact (idna_out idna OK).
  - intros bs d H _. exact (idna_fix idna OK bs d H).
  - exact (idna_v4 idna OK).
Qed.

(* the oracle that refuses the answers inside the class *)
Definition cap (idna : list N -> option (list N)) (bs : list N) : option (list N) :=
  match idna bs with
  | Some d => if known_c10_long d then None else Some d
  | None => None
  end.

Lemma cap_some idna bs d : cap idna bs = Some d <-> idna bs = Some d /\ known_c10_long d = false.
Proof.
  unfold cap. destruct (idna bs) as [x|]; [|split; [discriminate | intros [H _]; discriminate]].
  destruct (known_c10_long x) eqn:E; split.
  - discriminate.
  - intros [H K]. inversion H; subst. congruence.
  - intros H. inversion H; subst. split; [reflexivity|exact E].
  - intros [H _]. exact H.
Qed.

Lemma cap_none idna bs : cap idna bs = None <->
  idna bs = None \/ exists d, idna bs = Some d /\ known_c10_long d = true.
Proof.
  unfold cap. destruct (idna bs) as [x|]; [|split; [left; reflexivity | reflexivity]].
  destruct (known_c10_long x) eqn:E; split; try discriminate.
  - intros _. right. exists x. split; [reflexivity|exact E].
  - reflexivity.
  - intros [H|(d & H & K)]; [discriminate|]. inversion H; subst. congruence.
Qed.

(* capping twice is capping once; capping an oracle without answers in the class changes nothing *)
Lemma cap_idem idna bs : cap (cap idna) bs = cap idna bs.
Proof.
  unfold cap. destruct (idna bs) as [x|]; [|reflexivity]. destruct (known_c10_long x) eqn:E; [reflexivity|].
  rewrite E. reflexivity.
Qed.

(* the main reduction: every theorem relative to IdnaOK holds for the capped oracle under IdnaOK2 *)
Theorem IdnaOK2_cap idna : IdnaOK2 idna -> IdnaOK (cap idna).
Proof.
  intros OK. constructor.
  - intros bs d H. apply cap_some in H. destruct H as [H _]. exact (idna2_out idna OK bs d H).
  - intros bs d H. apply cap_some in H. destruct H as [H K]. apply cap_some. split; [|exact K].
    exact (idna2_fix idna OK bs d H K).
  - intros a Ha. apply cap_some. split; [exact (idna2_v4 idna OK a Ha) | exact (ipv4_display_not_long a Ha)].
Qed.

(* ... and conversely the capped oracle of an IdnaOK2 oracle is again IdnaOK2 (IdnaOK is stronger) *)
Lemma IdnaOK2_cap2 idna : IdnaOK2 idna -> IdnaOK2 (cap idna).
Proof. intros OK. exact (IdnaOK_IdnaOK2 _ (IdnaOK2_cap idna OK)). Qed.

(* ------------------------------------------------------------------ agreement, Host::parse *)
(* the oracle's answer for the percent-decoded bytes of a non-bracketed input is inside the class *)
Definition host_in_class (idna : list N -> option (list N)) (input : list N) : bool :=
  negb (starts_with 91 input)
  && match idna (decode (utf8_encode input)) with Some d => known_c10_long d | None => false end.

Section Agree.
Variable idna : list N -> option (list N).

Theorem cap_agree_x input : host_in_class idna input = false ->
  host_parse_x (cap idna) input = host_parse_x idna input.
Proof.
  unfold host_in_class, host_parse_x, cap. destruct (starts_with 91 input); [reflexivity|]. cbn [negb andb].
  destruct (idna (decode (utf8_encode input))) as [d|]; [|reflexivity]. intros ->. reflexivity.
Qed.

Theorem cap_class_x input : host_in_class idna input = true -> host_parse_x (cap idna) input = XErr IdnaError.
Proof.
  unfold host_in_class, host_parse_x, cap. destruct (starts_with 91 input); [discriminate|]. cbn [negb andb].
  destruct (idna (decode (utf8_encode input))) as [d|]; [|discriminate]. intros ->. reflexivity.
Qed.

Theorem cap_agree input : host_in_class idna input = false -> host_parse (cap idna) input = host_parse idna input.
Proof. intros H. unfold host_parse. rewrite (cap_agree_x input H). reflexivity. Qed.

Theorem cap_class input : host_in_class idna input = true -> host_parse (cap idna) input = Err IdnaError.
Proof. intros H. unfold host_parse. rewrite (cap_class_x input H). reflexivity. Qed.

(* the capped run is the same run, or stops with IdnaError *)
Theorem cap_dichotomy input :
  host_parse (cap idna) input = host_parse idna input \/ host_parse (cap idna) input = Err IdnaError.
Proof.
  destruct (host_in_class idna input) eqn:E; [right; exact (cap_class input E) | left; exact (cap_agree input E)].
Qed.

(* every success of the capped run is the same success of the run with the oracle itself *)
Theorem cap_refines input h : host_parse (cap idna) input = Ok h -> host_parse idna input = Ok h.
Proof.
  intros H. destruct (host_in_class idna input) eqn:E.
  - rewrite (cap_class input E) in H. discriminate.
  - rewrite (cap_agree input E) in H. exact H.
Qed.

(* result-level form for domains: a domain outside the class is returned by the capped run as well *)
Theorem cap_domain input d : host_parse idna input = Ok (HDomain d) -> known_c10_long d = false ->
  host_parse (cap idna) input = Ok (HDomain d).
Proof.
  intros H K. rewrite cap_agree; [exact H|]. pose proof (host_parse_ok_x _ _ _ H) as Hx.
  destruct (parse_domain idna input d Hx) as (Hi & _). unfold host_in_class. rewrite Hi, K. apply andb_false_r.
Qed.

(* bracketed inputs never reach the oracle *)
Theorem cap_bracket input : starts_with 91 input = true -> host_parse (cap idna) input = host_parse idna input.
Proof. intros H. apply cap_agree. unfold host_in_class. rewrite H. reflexivity. Qed.
End Agree.

(* ------------------------------------------------------------------ IPv4 results never come from the class *)
(* a text that parse_ipv4addr accepts has no '-' (a member of the class has one), so an Ipv4 result of Host::parse
   is a result of the capped run as well *)
Lemma number_no_hyphen p v : parse_ipv4number p = Some v -> ~ In 45 p.
Proof.
  unfold parse_ipv4number. destruct p as [|c0 p']; [discriminate|].
  set (pr := match p' with
             | c1 :: rest => if (c0 =? 48) && ((c1 =? 120) || (c1 =? 88)) then (rest, 16)
                             else if c0 =? 48 then (c1 :: rest, 8) else (c0 :: p', 10)
             | [] => (c0 :: p', 10) end).
  assert (Hpr : forall c, In c (c0 :: p') -> c = 48 \/ c = 120 \/ c = 88 \/ In c (fst pr)).
  { intros c Hc. subst pr. destruct p' as [|c1 rest].
    - right. right. right. exact Hc.
    - destruct ((c0 =? 48) && ((c1 =? 120) || (c1 =? 88))) eqn:E1.
      + cbn [fst]. destruct Hc as [<-|[<-|Hc]]; [left; lia | right; lia | right; right; right; exact Hc].
      + destruct (c0 =? 48) eqn:E2; cbn [fst].
        * destruct Hc as [<-|Hc]; [left; lia | right; right; right; exact Hc].
        * right. right. right. exact Hc. }
  change (match c0 :: p' with
          | c2 :: c1 :: rest => if (c2 =? 48) && ((c1 =? 120) || (c1 =? 88)) then (rest, 16)
                                else if c2 =? 48 then (c1 :: rest, 8) else (c0 :: p', 10)
          | _ => (c0 :: p', 10) end) with pr.
  destruct pr as [input1 r]. cbn [fst] in Hpr. destruct input1 as [|x xs].
  - intros _ Hin. destruct (Hpr 45 Hin) as [H|[H|[H|[]]]]; discriminate.
  - destruct (negb (if r =? 8 then forallb is_octal_digit (x :: xs)
                    else if r =? 10 then forallb is_digit (x :: xs) else forallb is_hex_digit (x :: xs))) eqn:Ev;
      [discriminate|]. intros _ Hin. apply negb_false_iff in Ev.
    destruct (Hpr 45 Hin) as [H|[H|[H|H]]]; try discriminate.
    assert (F : forall f : N -> bool, f 45 = false -> forallb f (x :: xs) = true -> False).
    { intros f H45 Hf. rewrite forallb_forall in Hf. specialize (Hf 45 H). congruence. }
    destruct (r =? 8); [exact (F _ eq_refl Ev)|]. destruct (r =? 10); [exact (F _ eq_refl Ev) | exact (F _ eq_refl Ev)].
Qed.

Lemma numbers_no_hyphen parts : forall ns, ipv4_numbers parts = Some ns -> Forall (fun p => ~ In 45 p) parts.
Proof.
  induction parts as [|p r IH]; intros ns H; [constructor|]. cbn [ipv4_numbers] in H.
  destruct (parse_ipv4number p) as [[n|]|] eqn:E; try discriminate.
  destruct (ipv4_numbers r) as [l|] eqn:Er; [|discriminate].
  constructor; [exact (number_no_hyphen p _ E) | exact (IH l eq_refl)].
Qed.

Lemma split_dot_in c s : c <> 46 -> In c s -> forall h t, split_dot s = (h, t) -> In c h \/ exists p, In p t /\ In c p.
Proof.
  intros Hc. induction s as [|x r IH]; intros Hin h t H; [destruct Hin|].
  cbn [split_dot] in H. destruct (split_dot r) as [h0 t0] eqn:E.
  destruct (x =? 46) eqn:Ex; inversion H; subst.
  - destruct Hin as [->|Hin]; [apply N.eqb_eq in Ex; congruence|].
    right. destruct (IH Hin h0 t0 eq_refl) as [I|(p & Hp & Hcp)].
    + exists h0. split; [left; reflexivity|exact I].
    + exists p. split; [right; exact Hp|exact Hcp].
  - destruct Hin as [->|Hin]; [left; left; reflexivity|].
    destruct (IH Hin h0 t eq_refl) as [I|I]; [left; right; exact I | right; exact I].
Qed.

Lemma split_dot_list_in c s : c <> 46 -> In c s -> exists p, In p (split_dot_list s) /\ In c p.
Proof.
  intros Hc Hin. unfold split_dot_list. destruct (split_dot s) as [h t] eqn:E.
  destruct (split_dot_in c s Hc Hin h t E) as [I|(p & Hp & Hcp)].
  - exists h. split; [left; reflexivity|exact I].
  - exists p. split; [right; exact Hp|exact Hcp].
Qed.

Theorem ipv4addr_no_hyphen s a : parse_ipv4addr s = XOk a -> ~ In 45 s.
Proof.
  intros H Hin. destruct (split_dot_list_in 45 s ltac:(discriminate) Hin) as (p & Hp & Hcp).
  unfold parse_ipv4addr in H.
  set (parts := match rev (split_dot_list s) with [] :: r => rev r | _ => split_dot_list s end) in H.
  assert (Hp' : In p parts).
  { subst parts. destruct (rev (split_dot_list s)) as [|l0 r0] eqn:Er; [exact Hp|].
    destruct l0 as [|y ys]; [|exact Hp].
    assert (E : split_dot_list s = rev r0 ++ [[]]).
    { rewrite <- (rev_involutive (split_dot_list s)), Er. reflexivity. }
    rewrite E in Hp. apply in_app_or in Hp. destruct Hp as [Hp|[<-|[]]]; [exact Hp|destruct Hcp]. }
  destruct (4 <? N.of_nat (length parts)); [discriminate|].
  destruct (ipv4_numbers parts) as [ns|] eqn:En; [|discriminate].
  pose proof (numbers_no_hyphen parts ns En) as F. rewrite Forall_forall in F. exact (F p Hp' Hcp).
Qed.

Theorem cap_ip idna input h : IdnaOK2 idna -> host_parse idna input = Ok h ->
  match h with HDomain _ => False | _ => True end -> host_parse (cap idna) input = Ok h.
Proof.
  intros OK H Hk. rewrite cap_agree; [exact H|]. unfold host_in_class.
  destruct (starts_with 91 input) eqn:Es; [reflexivity|]. cbn [negb andb].
  destruct (idna (decode (utf8_encode input))) as [d|] eqn:Ei; [|reflexivity].
  destruct (known_c10_long d) eqn:K; [exfalso|reflexivity].
  pose proof (host_parse_ok_x _ _ _ H) as Hx. unfold host_parse_x in Hx. rewrite Es, Ei in Hx.
  destruct d as [|c d']; [discriminate|].
  destruct (ends_in_a_number (c :: d')); [|inversion Hx; subst; exact Hk].
  destruct (parse_ipv4addr (c :: d')) as [a| | |] eqn:E; cbn [xr_map] in Hx; try discriminate.
  assert (Ha : Forall (fun x => x < 128) (c :: d')).
  { eapply Forall_impl; [|exact (idna2_out idna OK _ _ Ei)]. intros x [Hx1 _]. exact Hx1. }
  exact (ipv4addr_no_hyphen _ _ E (proj1 (class_has_hyphen _ Ha K))).
Qed.

(* every success of Host::parse whose display text is outside the class is a success of the capped run *)
Theorem cap_result idna input h : IdnaOK2 idna -> host_parse idna input = Ok h ->
  known_c10_long (host_display h) = false -> host_parse (cap idna) input = Ok h.
Proof.
  intros OK H K. destruct h as [d|a|ps].
  - exact (cap_domain idna input d H K).
  - exact (cap_ip idna input _ OK H I).
  - exact (cap_ip idna input _ OK H I).
Qed.

(* ------------------------------------------------------------------ the display round trip under IdnaOK2 *)
(* C09's display round trip for Host::parse with the oracle ITSELF, outside the class *)
Theorem special_display_rt2 idna input h : IdnaOK2 idna -> host_parse idna input = Ok h ->
  known_c10_long (host_display h) = false -> host_parse idna (host_display h) = Ok h.
Proof.
  intros OK H K. apply cap_refines.
  pose proof (cap_result idna input h OK H K) as Hc.
  exact (x_ok_host_parse _ _ _ (special_display_rt (cap idna) (IdnaOK2_cap idna OK) input h (host_parse_ok_x _ _ _ Hc))).
Qed.

(* the form clause of C09_domain needs the first clause only *)
Theorem domain_form2 idna input d : IdnaOK2 idna -> host_parse idna input = Ok (HDomain d) ->
  Forall (fun c => c < 128 /\ is_upper c = false /\ Spec.WhatwgHost.Spec.forbidden_domain_code_point c = false) d.
Proof.
  intros OK H. destruct (parse_domain idna input d (host_parse_ok_x _ _ _ H)) as (H1 & _).
  pose proof (idna2_out idna OK _ d H1) as Hout. eapply Forall_impl; [|exact Hout].
  intros c Hc. destruct (dom_char_facts c Hc) as (? & ? & ? & _). tauto.
Qed.

(* ------------------------------------------------------------------ witnesses *)
(* a stand-in oracle with the defect of the crate: the identity on clean ASCII text (idna_clean), except that the
   input "x" is answered with the label xn--aaa...a (2001 a's: in the class) and every text in the class is refused *)
Definition W_long_label : list N := [120; 110; 45; 45] ++ repeat 97 2001.
Definition idna_long (bs : list N) : option (list N) :=
  if list_eqb bs [120] then Some W_long_label
  else if known_c10_long bs then None else idna_clean bs.

Lemma W_long_facts :
  known_c10_long W_long_label = true /\ idna_long [120] = Some W_long_label /\ idna_long W_long_label = None
  /\ length W_long_label = 2005%nat.
Proof. vm_compute. repeat split; reflexivity. Qed.

Lemma idna_clean_id bs d : idna_clean bs = Some d -> d = bs.
Proof. unfold idna_clean. destruct (forallb clean_char bs); intros H; inversion H; reflexivity. Qed.

Lemma W_long_clean : Forall dom_char_ok W_long_label.
Proof.
  unfold W_long_label. apply Forall_app. split.
  - repeat constructor; vm_compute; reflexivity.
  - apply Forall_forall. intros c Hc. apply repeat_spec in Hc. subst c. split; vm_compute; reflexivity.
Qed.

Theorem idna_long_ok2 : IdnaOK2 idna_long.
Proof.
  constructor.
  - intros bs d H. unfold idna_long in H. destruct (list_eqb bs [120]).
    + inversion H; subst. exact W_long_clean.
    + destruct (known_c10_long bs); [discriminate|]. exact (idna_out idna_clean idna_clean_ok bs d H).
  - intros bs d H K. unfold idna_long in H. destruct (list_eqb bs [120]) eqn:E1.
    + inversion H; subst. rewrite (proj1 W_long_facts) in K. discriminate.
    + destruct (known_c10_long bs) eqn:E2; [discriminate|]. pose proof (idna_clean_id bs d H) as ->.
      unfold idna_long. rewrite E1, E2. exact H.
  - intros a Ha. unfold idna_long.
    assert (E1 : list_eqb (ipv4_display a) [120] = false).
    { destruct (list_eqb (ipv4_display a) [120]) eqn:E; [|reflexivity]. apply list_eqb_spec in E.
      destruct (ipv4_display_digits a Ha) as (Hd & _). rewrite E in Hd. inversion Hd as [|? ? Hc _]; subst.
      destruct Hc as [Hc|Hc]; [vm_compute in Hc|]; discriminate. }
    rewrite E1, (ipv4_display_not_long a Ha). exact (idna_v4 idna_clean idna_clean_ok a Ha).
Qed.

(* for it IdnaOK is false, and so is the display round trip of C09: Host::parse "x" = Domain <long label>, and
   Host::parse of the display text of that host is Err IdnaError.  The capped run refuses "x". *)
Theorem long_refuted :
  IdnaOK2 idna_long /\ ~ IdnaOK idna_long
  /\ host_parse idna_long [120] = Ok (HDomain W_long_label)
  /\ host_parse idna_long (host_display (HDomain W_long_label)) = Err IdnaError
  /\ host_in_class idna_long [120] = true
  /\ host_parse (cap idna_long) [120] = Err IdnaError.
Proof.
  split; [exact idna_long_ok2|]. split.
  - intros OK. pose proof (idna_fix idna_long OK [120] W_long_label (proj1 (proj2 W_long_facts))) as H.
    rewrite (proj1 (proj2 (proj2 W_long_facts))) in H. discriminate.
  - vm_compute. repeat split; reflexivity.
Qed.

(* the unrestricted domain clause of C09_display_rt is false under IdnaOK2 *)
Theorem display_rt_needs_class :
  ~ (forall idna, IdnaOK2 idna -> forall input h, host_parse idna input = Ok h -> host_parse idna (host_display h) = Ok h).
Proof.
  intros H. destruct long_refuted as (OK & _ & H1 & H2 & _). rewrite (H idna_long OK [120] _ H1) in H2. discriminate.
Qed.

(* the corrected statements are not vacuous: the stand-in oracle outside the class *)
Example long_premises_hold :
  host_parse idna_long [97; 46; 98] = Ok (HDomain [97; 46; 98]) /\ known_c10_long (host_display (HDomain [97; 46; 98])) = false
  /\ host_in_class idna_long [97; 46; 98] = false
  /\ host_parse (cap idna_long) [97; 46; 98] = Ok (HDomain [97; 46; 98])
  /\ host_parse idna_long [49; 46; 50] = Ok (HIpv4 16777218).
Proof. vm_compute. repeat split; reflexivity. Qed.
