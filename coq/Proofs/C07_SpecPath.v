(* Proofs/C07_SpecPath.v - the specification side of the pathname setter: what the basic URL parser of
   Spec/Whatwg.v computes when it is run WITH a state override from the path start state on any text,
   for a URL whose scheme is not "file": with an override '?' and '#' are ordinary code points of the
   path state (they come out percent-encoded), so the path state runs to the end of the text.  From there
   the closed form of the Standard's pathname setter (spec_pathname_closed). *)
From Coq Require Import Lia ZArith.
From RU Require Import Base.Prelude Base.Utf8 Spec.Whatwg Spec.WhatwgFuel Proofs.C01_EqRun Proofs.C01_EqPathSpec
  Proofs.C07_SpecRun.

(* a separator of the path state: '/', and '\' for a special URL *)
Definition sepc (sp : bool) (c : N) : bool := (c =? 47) || (sp && (c =? 92)).

(* the path state with a state override on the text t, from the list of segments P and the buffer B *)
Fixpoint spathO (sp : bool) (t : list N) (P : list (list N)) (B : list N) : list (list N) :=
  match t with
  | [] => fin P B false
  | c :: r => if sepc sp c then spathO sp r (fin P B true) []
              else spathO sp r P (B ++ utf8_percent_encode_cp in_path_set c)
  end.

Lemma is_special_set_path u p : is_special (set_path u p) = is_special u.
Proof. reflexivity. Qed.

Section PathOv.
Variable hp : bool -> list N -> option spec_host.
Variable input : list N.
Variable ov : pstate.

Notation runO := (run hp input None (Some ov)).
Notation stepO := (step hp input None (Some ov)).

(* ---------- path state ---------- *)
Theorem run_path_ov : forall t pre fuel B a b pw u P,
  input = pre ++ t -> su_path u = SPList P -> list_eqb (su_scheme u) str_file = false -> (length t < fuel)%nat ->
  runO fuel (at_pos StPath pre B a b pw u) = BDone (set_path u (SPList (spathO (is_special u) t P B))).
Proof.
  induction t as [|c r IH]; intros pre fuel B a b pw u P Hin HP Hf Hfuel;
    (destruct fuel as [|fuel]; [cbn [length] in Hfuel; lia|]); cbn [run].
  - rewrite (step_at hp input ov _ _ _ _ _ _ _ _ Hin). cbn zeta. cbn [hd_error]. unfold st_path.
    cbn [is_eof orb cis andb m_url m_buf at_pos]. rewrite ?andb_false_r. cbn [orb negb andb].
    pose proof (path_seg_update u P B false HP Hf) as Eseg. cbn [orb negb andb] in Eseg. rewrite Eseg.
    unfold set_buf, set_url. cbn [m_state m_ptr m_buf m_at m_br m_pw m_url at_pos].
    rewrite (len_split hp input pre [] Hin). cbn [length].
    replace (Z.of_nat (length pre) + Z.of_nat 0 <=? Z.of_nat (length pre))%Z with true by lia.
    reflexivity.
  - rewrite (step_at hp input ov _ _ _ _ _ _ _ _ Hin). cbn zeta. cbn [hd_error]. unfold st_path.
    cbn [is_eof orb cis andb m_url m_buf at_pos has_ov opt_is_some negb spathO].
    fold (sepc (is_special u) c).
    destruct (sepc (is_special u) c) eqn:Esep; cbn [orb andb negb].
    + pose proof (path_seg_update u P B true HP Hf) as Eseg. cbn [orb negb andb] in Eseg. rewrite Eseg.
      assert ((c =? 63) = false /\ (c =? 35) = false) as [E63 E35].
      { unfold sepc in Esep. destruct (is_special u); cbn [andb] in Esep; lia. }
      rewrite E63, E35.
      unfold set_buf, set_url. cbn [m_state m_ptr m_buf m_at m_br m_pw m_url at_pos].
      rewrite (len_split hp input pre (c :: r) Hin). cbn [length].
      replace (Z.of_nat (length pre) + Z.of_nat (S (length r)) <=? Z.of_nat (length pre))%Z with false by lia.
      rewrite (inc_at hp StPath pre c).
      rewrite (IH (pre ++ [c]) fuel [] a b pw (set_path u (SPList (fin P B true))) (fin P B true)
                  (snoc_split input pre c r Hin) eq_refl Hf) by (cbn [length] in Hfuel; lia).
      rewrite is_special_set_path. destruct u; reflexivity.
    + unfold set_buf. cbn [m_state m_ptr m_buf m_at m_br m_pw m_url at_pos].
      rewrite (len_split hp input pre (c :: r) Hin). cbn [length].
      replace (Z.of_nat (length pre) + Z.of_nat (S (length r)) <=? Z.of_nat (length pre))%Z with false by lia.
      rewrite (inc_at hp StPath pre c).
      exact (IH (pre ++ [c]) fuel _ a b pw u P (snoc_split input pre c r Hin) HP Hf ltac:(cbn [length] in Hfuel; lia)).
Qed.

(* a run that decreases the pointer is followed by another run on the same code point *)
Lemma inc_dec st pre buf a b pw u :
  inc_ptr (dec_ptr (mkM st (Z.of_nat (length pre)) buf a b pw u)) = at_pos st pre buf a b pw u.
Proof.
  unfold inc_ptr, dec_ptr, set_ptr, at_pos. cbn [m_ptr m_state m_buf m_at m_br m_pw m_url].
  replace (Z.of_nat (length pre) - 1 + 1)%Z with (Z.of_nat (length pre)) by lia. reflexivity.
Qed.

(* ---------- path start state ---------- *)
(* the path the path start state and the path state leave, from an empty list of segments *)
Definition pstartO (u : spec_url) (t : list N) : spec_url :=
  if is_special u then
    match t with
    | c :: r => if sepc true c then set_path u (SPList (spathO true r [] []))
                else set_path u (SPList (spathO true t [] []))
    | [] => set_path u (SPList [[]])
    end
  else
    match t with
    | c :: r => if c =? 47 then set_path u (SPList (spathO false r [] []))
                else set_path u (SPList (spathO false t [] []))
    | [] => if host_is_null (su_host u) then set_path u (SPList [[]]) else u
    end.

Theorem run_path_start_ov : forall t fuel a b pw u,
  input = t -> su_path u = SPList [] -> list_eqb (su_scheme u) str_file = false -> (length t + 1 < fuel)%nat ->
  runO fuel (at_pos StPathStart [] [] a b pw u) = BDone (pstartO u t).
Proof.
  intros t fuel a b pw u Hin HP Hf Hfuel.
  assert (input = [] ++ t) as Hin' by exact Hin.
  destruct fuel as [|fuel]; [lia|]. cbn [run].
  rewrite (step_at hp input ov _ _ _ _ _ _ _ _ Hin'). cbn zeta. unfold st_path_start, pstartO.
  cbn [m_url at_pos has_ov opt_is_some negb andb].
  destruct (is_special u) eqn:Esp.
  - destruct t as [|c r]; cbn [hd_error cis negb andb].
    + (* EOF: the pointer goes back, the path state runs on EOF *)
      unfold goto. cbn [m_state m_ptr m_buf m_at m_br m_pw m_url at_pos length].
      unfold dec_ptr at 1. unfold set_ptr at 1. cbn [m_ptr].
      rewrite (len_split hp input [] [] Hin'). cbn [length].
      replace (Z.of_nat 0 + Z.of_nat 0 <=? Z.of_nat 0 - 1)%Z with false by lia.
      rewrite (inc_dec StPath [] [] a b pw u : inc_ptr (dec_ptr (mkM StPath (Z.of_nat 0) [] a b pw u)) = _).
      rewrite (run_path_ov [] [] fuel [] a b pw u [] Hin' HP Hf) by (cbn [length] in *; lia).
      rewrite Esp. reflexivity.
    + change ((c =? 47) || true && (c =? 92)) with (sepc true c).
      assert (negb (c =? 47) && negb (c =? 92) = negb (sepc true c)) as -> by (unfold sepc; cbn [andb]; lia).
      destruct (sepc true c) eqn:Esep; cbn [negb].
      * unfold goto. cbn [m_state m_ptr m_buf m_at m_br m_pw m_url at_pos length].
        rewrite (len_split hp input [] (c :: r) Hin'). cbn [length].
        replace (Z.of_nat 0 + Z.of_nat (S (length r)) <=? Z.of_nat 0)%Z with false by lia.
        change (Z.of_nat 0) with (Z.of_nat (@length N [])).
        rewrite (inc_at hp StPath [] c).
        rewrite (run_path_ov r ([] ++ [c]) fuel [] a b pw u [] (snoc_split input [] c r Hin') HP Hf)
          by (cbn [length] in *; lia).
        rewrite Esp. reflexivity.
      * unfold goto. cbn [m_state m_ptr m_buf m_at m_br m_pw m_url at_pos length].
        unfold dec_ptr at 1. unfold set_ptr at 1. cbn [m_ptr].
        rewrite (len_split hp input [] (c :: r) Hin'). cbn [length].
        replace (Z.of_nat 0 + Z.of_nat (S (length r)) <=? Z.of_nat 0 - 1)%Z with false by lia.
        rewrite (inc_dec StPath [] [] a b pw u : inc_ptr (dec_ptr (mkM StPath (Z.of_nat 0) [] a b pw u)) = _).
        rewrite (run_path_ov (c :: r) [] fuel [] a b pw u [] Hin' HP Hf) by (cbn [length] in *; lia).
        rewrite Esp. reflexivity.
  - destruct t as [|c r]; cbn [hd_error cis is_eof negb andb].
    + rewrite (len_split hp input [] [] Hin').
      destruct (host_is_null (su_host u)).
      * unfold set_url, path_append. rewrite HP. cbn [m_state m_ptr m_buf m_at m_br m_pw m_url at_pos length app].
        replace (Z.of_nat 0 + Z.of_nat 0 <=? Z.of_nat 0)%Z with true by lia. reflexivity.
      * cbn [m_state m_ptr m_buf m_at m_br m_pw m_url at_pos length].
        replace (Z.of_nat 0 + Z.of_nat 0 <=? Z.of_nat 0)%Z with true by lia. reflexivity.
    + destruct (c =? 47) eqn:E47; cbn [negb].
      * unfold goto. cbn [m_state m_ptr m_buf m_at m_br m_pw m_url at_pos length].
        rewrite (len_split hp input [] (c :: r) Hin'). cbn [length].
        replace (Z.of_nat 0 + Z.of_nat (S (length r)) <=? Z.of_nat 0)%Z with false by lia.
        change (Z.of_nat 0) with (Z.of_nat (@length N [])).
        rewrite (inc_at hp StPath [] c).
        rewrite (run_path_ov r ([] ++ [c]) fuel [] a b pw u [] (snoc_split input [] c r Hin') HP Hf)
          by (cbn [length] in *; lia).
        rewrite Esp. reflexivity.
      * unfold goto. cbn [m_state m_ptr m_buf m_at m_br m_pw m_url at_pos length].
        unfold dec_ptr at 1. unfold set_ptr at 1. cbn [m_ptr].
        rewrite (len_split hp input [] (c :: r) Hin'). cbn [length].
        replace (Z.of_nat 0 + Z.of_nat (S (length r)) <=? Z.of_nat 0 - 1)%Z with false by lia.
        rewrite (inc_dec StPath [] [] a b pw u : inc_ptr (dec_ptr (mkM StPath (Z.of_nat 0) [] a b pw u)) = _).
        rewrite (run_path_ov (c :: r) [] fuel [] a b pw u [] Hin' HP Hf) by (cbn [length] in *; lia).
        rewrite Esp. reflexivity.
Qed.

End PathOv.

(* ---------- the pathname setter of the Standard in closed form ---------- *)
Lemma fuel_enough1 (t : list N) : (length t + 1 < spec_fuel t)%nat.
Proof. unfold spec_fuel. lia. Qed.

Theorem spec_pathname_closed shp su v : has_opaque_path su = false -> list_eqb (su_scheme su) str_file = false ->
  spec_set shp SetPathname su v = SetTo (pstartO (set_path su (SPList [])) (notnl v)).
Proof.
  intros Ho Hf. cbn [spec_set]. rewrite Ho.
  unfold spec_basic_url_parse_override. fold (notnl v).
  change (mkM StPathStart 0%Z [] false false false (set_path su (SPList [])))
    with (at_pos StPathStart [] [] false false false (set_path su (SPList []))).
  rewrite (run_path_start_ov shp (notnl v) StPathStart (notnl v) _ false false false (set_path su (SPList []))
             eq_refl eq_refl Hf (fuel_enough1 _)).
  reflexivity.
Qed.

(* an opaque path: the assignment is ignored *)
Theorem spec_pathname_opaque shp su v : has_opaque_path su = true -> spec_set shp SetPathname su v = SetTo su.
Proof. intros Ho. cbn [spec_set]. rewrite Ho. reflexivity. Qed.
