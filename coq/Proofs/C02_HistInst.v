(* Proofs/C02_HistInst.v - the corrected host hypothesis HostOK2 of C02_Hist.v is met by the host MODEL
   (Model/Host.v: Host::parse with any IDNA function satisfying IdnaOK, Host::parse_opaque, Display), the old
   HostOK is not; F-C02-9 executed on the linked model. *)
From Coq Require Import String.
From RU Require Import Base.Prelude Base.Utf8 Base.Utf8Facts Model.AsciiSet Gen.Tables Model.PercentEncoding
  Model.HostT Model.Host Model.UrlRecord Model.Parser Model.Setters Model.WF
  Proofs.ListN Proofs.C09_Host Proofs.C09_Inst Proofs.C16_RT6Model
  Proofs.C02_Reach Proofs.C02_AuthParts Proofs.C02_Hist.
Open Scope N_scope.
Open Scope list_scope.

(* HostOK2 holds of the host model for every IDNA function satisfying IdnaOK *)
Theorem HostOK2_model idna : IdnaOK idna -> HostOK2 (host_parse idna) host_parse_opaque host_display.
Proof.
  intros OK. split; [exact (model_HostRT idna OK)|]. split; [exact (model_host_above idna OK)|].
  exact (proj1 (proj2 (proj2 (model_HostOK_C02_true idna OK)))).
Qed.

(* and the premise is satisfiable: idna_clean (identity on ASCII text without denied characters) *)
Example HostOK2_inhabited : HostOK2 (host_parse idna_clean) host_parse_opaque host_display.
Proof. exact (HostOK2_model idna_clean idna_clean_ok). Qed.

(* the old record is met by NO instance of the host model (both refuting facts of HostOK_old_unsat hold) *)
Theorem HostOK_old_unsat_model idna : ~ HostOK (host_parse idna) host_parse_opaque host_display.
Proof.
  apply HostOK_old_unsat. right. exists 2130706433. split; [reflexivity|].
  exact (proj2 (opaque_ipv4_refuted 2130706433 eq_refl)).
Qed.

Theorem HostOK_old_unsat_model_nil idna : host_parse idna [] <> Ok (HDomain []).
Proof. exact (host_parse_nil_refuted idna). Qed.

(* F-C02-9 on the linked model: a://x/ -> set_ip_host(127.0.0.1) -> a://127.0.0.1/ ; the step is outside the
   old known_step, inside Known_F_C02_9 (so known_step2 holds), the result has host kind Ipv4 and its text
   re-parses to the same text and offsets with host kind Domain *)
Definition mparse := parse_url true (host_parse idna_clean) host_parse_opaque host_display None None.
Theorem F_C02_9_model :
  match mparse (B "a://x/") with
  | POk u =>
      let o := OSetIpHost (HIpv4 2130706433) in
      negb (known_step true (host_parse idna_clean) host_parse_opaque host_display u o)
      && Known_F_C02_9 u o
      && known_step2 true (host_parse idna_clean) host_parse_opaque host_display u o
      && match apply_op true (host_parse idna_clean) host_parse_opaque host_display u o with
         | Some u' =>
             list_eqb (ser u') (B "a://127.0.0.1/") && hi_eqb (hosti u') (HI_Ipv4 2130706433)
             && match mparse (utf8_lossy (ser u')) with
                | POk v => list_eqb (ser v) (ser u') && hi_eqb (hosti v) HI_Domain && negb (url_eqb v u')
                | _ => false
                end
         | None => false
         end
  | _ => false
  end = true.
Proof. vm_compute. reflexivity. Qed.
