(* Proofs/C04_Quad.v - the two quadratic findings of the cost model as lower bounds for ALL n (induction, not computation).
   F-C04-6: n calls of PathSegmentsMut::push("a") on file:/// cost at least n^2 steps (f_c04_6_all_n): the k-th push runs
            the file fix-up of parse_path, which copies the whole path (2k + 2 bytes).
   F-C04-9: a MIME type with n pairwise distinct parameter names p0, p1, ... costs at least n (n - 1) / 2 steps
            (contains() scans the k parameters collected so far).  The family mime_distinct of Proofs/C04_CostMime.v writes
            the counter with at most 10 decimal digits (digits_rev with fuel 10), so its names are pairwise distinct only
            below 10^10: f_c04_9_upto proves the bound for n <= 10^10 (input length <= 14 n + 3: mime_distinct_len);
            for the family mime_distinct_u, whose counter has as many digits as needed, it holds for every n
            (f_c04_9_all_n).  The two families coincide where both are defined with enough digits (mime_distinct_u_12). *)
From RU Require Import Base.Prelude Base.Utf8 Base.Utf8Facts Model.AsciiSet Gen.Tables
  Model.PercentEncoding Model.HostT Model.UrlRecord Model.Parser Model.Setters Model.WF Model.Cost
  Proofs.ListN Proofs.C02_Opaque Proofs.C02_Path Proofs.C02_PathL1 Proofs.C04_Cost Proofs.C04_CostPath.

Fixpoint body (k : nat) : list N := match k with O => [] | S j => 97 :: 47 :: body j end.
Lemma body_snoc k : body k ++ [97; 47] = body (S k).
Proof. induction k as [|k IH]; [reflexivity|]. cbn [body app]. rewrite IH. reflexivity. Qed.
Lemma body_len k : nlen (body k) = 2 * N.of_nat k.
Proof. induction k as [|k IH]; [reflexivity|]. cbn [body]. rewrite !nlen_cons, IH. lia. Qed.
Lemma body_no_wdl k : is_normalized_wdl (body k) = false.
Proof. destruct k as [|[|k]]; reflexivity. Qed.
Lemma body_drop k : drop_while is_slash (47 :: body k ++ [97]) = body k ++ [97].
Proof. cbn [drop_while]. change (is_slash 47) with true. cbv iota. destruct k; reflexivity. Qed.

Lemma push_a_file k :
  exists c, parse_path_c true CPathSegmentSetter STFile true 7 (s_file_root ++ body k) [97]
            = (POk (s_file_root ++ body k ++ [97], true, []), c) /\ 2 * N.of_nat k + 1 <= c.
Proof.
  set (S0 := s_file_root ++ body k).
  assert (L0 : nlen S0 = 8 + 2 * N.of_nat k) by (unfold S0; rewrite nlen_app, body_len; reflexivity).
  unfold parse_path_c. cbn [parse_path_loop_c].
  change (is_tnl 97) with false. cbn [ctx_eqb negb andb]. change ((97 =? 63) || (97 =? 35)) with false. cbn [andb st_is_file].
  replace (7 <? nlen S0) with true by lia.
  assert (nskipn (7 + 1) S0 = body k) as ->.
  { unfold S0. change (7 + 1) with (nlen s_file_root). apply nskipn_app_len. }
  rewrite body_no_wdl. cbn [andb].
  unfold push_pending, push_encoded. cbn [rev app].
  replace (pe_display (path_set CPathSegmentSetter STFile) (utf8_encode [97])) with [97] by (vm_compute; reflexivity).
  assert (slice_o (S0 ++ [97]) (nlen S0) (nlen (S0 ++ [97])) = Some [97]) as Hs.
  { pose proof (slice_mid S0 [97] []) as H. rewrite app_nil_r in H. rewrite nlen_app. exact H. }
  unfold finish_segment, finish_segment_cost. rewrite Hs. cbn [of_option pbind is_double_dot is_single_dot is_pct2e].
  change (is_wdl [97]) with false. rewrite andb_false_r.
  assert (E7 : S0 ++ [97] = s_file_css ++ 47 :: body k ++ [97]).
  { unfold S0, s_file_root. rewrite <- !app_assoc. reflexivity. }
  assert (Hf : file_path_fixup STFile 7 (S0 ++ [97]) = s_file_root ++ body k ++ [97]).
  { unfold file_path_fixup. cbn [st_is_file]. rewrite E7. change 7 with (nlen s_file_css).
    rewrite nskipn_app_len, nfirstn_app_len, body_drop. unfold s_file_root. rewrite <- !app_assoc. reflexivity. }
  rewrite Hf. eexists. split; [reflexivity|].
  unfold file_path_fixup_cost. cbn [st_is_file].
  assert (nlen (nskipn 7 (S0 ++ [97])) = 2 * N.of_nat k + 2) as ->.
  { rewrite E7. change 7 with (nlen s_file_css). rewrite nskipn_app_len.
    rewrite nlen_cons, nlen_app, body_len. change (nlen [97]) with 1. lia. }
  lia.
Qed.

(* n pushes of "a" onto file:/// ++ (a/)^k cost at least n^2 + 2 k n *)
Lemma pushes_file_ge n : forall k s,
  (if (7 + 1 <? nlen s) || (nlen s =? 7) then s ++ [47] else s) = s_file_root ++ body k ->
  N.of_nat n * N.of_nat n + 2 * N.of_nat k * N.of_nat n <= snd (psm_extend_loop_c true STFile 7 s (repeat [97] n)).
Proof.
  induction n as [|n IH]; intros k s Hs; [cbn; lia|].
  cbn [repeat psm_extend_loop_c]. change (psm_skips_c [97]) with (false, 2). cbv iota.
  rewrite Hs. destruct (push_a_file k) as (c & E & Hc). rewrite E.
  specialize (IH (S k) (s_file_root ++ body k ++ [97])).
  destruct (psm_extend_loop_c true STFile 7 (s_file_root ++ body k ++ [97]) (repeat [97] n)) as [o m].
  cbn [snd] in *.
  assert (H1 : 7 + 1 <? nlen (s_file_root ++ body k ++ [97]) = true).
  { rewrite !nlen_app, body_len. change (nlen s_file_root) with 8. change (nlen [97]) with 1. lia. }
  rewrite H1 in IH. cbn [orb] in IH. rewrite <- !app_assoc in IH. cbn [app] in IH.
  change (body k ++ [97; 47]) with (body k ++ [97; 47]) in IH. rewrite body_snoc in IH.
  specialize (IH eq_refl). rewrite !Nat2N.inj_succ in *. nia.
Qed.

Theorem f_c04_6_all_n : forall n, N.of_nat n * N.of_nat n <= pushes_cost STFile 7 s_file_root n.
Proof.
  intros n. unfold pushes_cost. pose proof (pushes_file_ge n 0 s_file_root eq_refl) as H. cbn [N.of_nat] in H. lia.
Qed.

(* ================================================================ F-C04-9 *)
From RU Require Import Model.Mime Proofs.C19_Tables Proofs.C19_Pure Proofs.C19_Normal Proofs.C19_RT Proofs.C02_Enc Proofs.C04_CostMime.
(* ---------------------------------------------------------------- decimal digits *)
Definition isdig (d : N) : Prop := 48 <= d <= 57.

Lemma digits_rev_dig f : forall n, Forall isdig (digits_rev f n).
Proof.
  induction f as [|f IH]; intros n; cbn [digits_rev]; [constructor|].
  constructor.
  - unfold isdig. pose proof (N.mod_upper_bound n 10 ltac:(lia)). lia.
  - destruct (n / 10 =? 0); [constructor | apply IH].
Qed.

Lemma digits_rev_nonnil f n : digits_rev (S f) n <> [].
Proof. cbn [digits_rev]. discriminate. Qed.

Lemma digits_rev_inj f : forall a b, a < 10 ^ N.of_nat f -> b < 10 ^ N.of_nat f ->
  digits_rev f a = digits_rev f b -> a = b.
Proof.
  induction f as [|f IH]; intros a b Ha Hb E.
  - cbn in Ha, Hb. lia.
  - rewrite Nat2N.inj_succ, N.pow_succ_r' in Ha, Hb.
    cbn [digits_rev] in E. inversion E as [[E1 E2]].
    pose proof (N.div_mod a 10 ltac:(lia)) as Da. pose proof (N.div_mod b 10 ltac:(lia)) as Db.
    assert (Qa : a / 10 < 10 ^ N.of_nat f) by (apply N.div_lt_upper_bound; lia).
    assert (Qb : b / 10 < 10 ^ N.of_nat f) by (apply N.div_lt_upper_bound; lia).
    assert (a / 10 = b / 10) as Q.
    { destruct (a / 10 =? 0) eqn:Za, (b / 10 =? 0) eqn:Zb.
      - lia.
      - destruct f as [|f']; [cbn in Qb; lia|]. symmetry in E2. apply digits_rev_nonnil in E2. contradiction.
      - destruct f as [|f']; [cbn in Qa; lia|]. apply digits_rev_nonnil in E2. contradiction.
      - apply IH; assumption. }
    lia.
Qed.

Lemma dig_cases d : isdig d -> d = 48 \/ d = 49 \/ d = 50 \/ d = 51 \/ d = 52 \/ d = 53 \/ d = 54 \/ d = 55 \/ d = 56 \/ d = 57.
Proof. unfold isdig. lia. Qed.
Ltac dig_sweep H := apply dig_cases in H; repeat (destruct H as [H|H]; [subst; reflexivity|]); subst; reflexivity.

Lemma dig_tchar d : isdig d -> rfc7230_tchar d = true.
Proof. intros H. dig_sweep H. Qed.
Lemma dig_lower d : isdig d -> to_lower d = d.
Proof. intros H. dig_sweep H. Qed.

(* ---------------------------------------------------------------- case-insensitive comparison *)
Lemma bytes_eq_ic_map a : forall b, bytes_eq_ignore_ascii_case a b = true -> map to_lower a = map to_lower b.
Proof.
  induction a as [|x a IH]; intros [|y b] H; cbn [bytes_eq_ignore_ascii_case] in H; try discriminate; [reflexivity|].
  apply andb_true_iff in H. destruct H as [H1 H2]. apply N.eqb_eq in H1. cbn [map]. rewrite H1, (IH b H2). reflexivity.
Qed.

Lemma map_fix (f : N -> N) l : Forall (fun c => f c = c) l -> map f l = l.
Proof. induction 1 as [|c l Hc _ IH]; [reflexivity|]. cbn [map]. rewrite Hc, IH. reflexivity. Qed.

Section Family.
Variable F : nat.

Definition dec (j : nat) : list N := rev (digits_rev F (N.of_nat j)).
Definition pname (j : nat) : list N := 112 :: dec j.
Definition piece (j : nat) : list N := pname j ++ [61; 49].
Fixpoint dparams (n : nat) : list N :=
  match n with O => [] | S k => dparams k ++ [59; 112] ++ dec k ++ [61; 49] end.
Definition pk (k : nat) : plist := map (fun j => (pname j, [49])) (seq 0 k).

Definition nmc (c : N) : Prop := c = 112 \/ isdig c.
Lemma pname_chars j : Forall nmc (pname j).
Proof.
  unfold pname, dec. constructor; [left; reflexivity|]. apply Forall_rev.
  eapply Forall_impl; [|apply digits_rev_dig]. intros d H. right. exact H.
Qed.
Lemma nmc_tchar c : nmc c -> rfc7230_tchar c = true.
Proof. intros [->|H]; [reflexivity|apply dig_tchar; exact H]. Qed.
Lemma nmc_lower c : nmc c -> to_lower c = c.
Proof. intros [->|H]; [reflexivity|apply dig_lower; exact H]. Qed.

Lemma pname_tokens j : tokens (pname j) = true.
Proof.
  unfold tokens. apply forallb_forall. intros c Hc. apply nmc_tchar.
  pose proof (pname_chars j) as H. rewrite Forall_forall in H. apply H. exact Hc.
Qed.
Lemma pname_lower j : to_ascii_lowercase (pname j) = pname j.
Proof. unfold to_ascii_lowercase. apply map_fix. eapply Forall_impl; [|apply pname_chars]. exact nmc_lower. Qed.

Lemma pname_inj i j : N.of_nat i < 10 ^ N.of_nat F -> N.of_nat j < 10 ^ N.of_nat F -> pname i = pname j -> i = j.
Proof.
  intros Hi Hj E. unfold pname, dec in E. inversion E as [E1].
  apply (f_equal (@rev N)) in E1. rewrite !rev_involutive in E1.
  apply digits_rev_inj in E1; [lia|assumption|assumption].
Qed.

Lemma pname_neq_ic i j : N.of_nat i < 10 ^ N.of_nat F -> N.of_nat j < 10 ^ N.of_nat F -> i <> j ->
  eq_ignore_ascii_case (pname i) (pname j) = false.
Proof.
  intros Hi Hj Hne. destruct (eq_ignore_ascii_case (pname i) (pname j)) eqn:E; [|reflexivity]. exfalso.
  unfold eq_ignore_ascii_case in E.
  rewrite !utf8_encode_ascii in E by (apply tokens_ascii; apply pname_tokens).
  apply bytes_eq_ic_map in E. fold (to_ascii_lowercase (pname i)) in E. fold (to_ascii_lowercase (pname j)) in E.
  rewrite !pname_lower in E. apply Hne. apply pname_inj; assumption.
Qed.

Lemma pk_succ k : pk (S k) = pk k ++ [(pname k, [49])].
Proof. unfold pk. rewrite seq_S, map_app. reflexivity. Qed.
Lemma pk_len k : plen (pk k) = N.of_nat k.
Proof. unfold plen, pk. rewrite map_length, seq_length. reflexivity. Qed.

Lemma pk_contains k : N.of_nat k < 10 ^ N.of_nat F -> contains (pk k) (pname k) = false.
Proof.
  intros Hk. unfold contains, pk. destruct (existsb _ _) eqn:E; [|reflexivity]. exfalso.
  apply existsb_exists in E. destruct E as (p & Hin & Hp). apply in_map_iff in Hin. destruct Hin as (j & <- & Hj).
  apply in_seq in Hj. cbn [fst] in Hp. rewrite pname_neq_ic in Hp; [discriminate| lia | exact Hk | lia].
Qed.

Lemma pname_valid k : N.of_nat k < 10 ^ N.of_nat F -> p_name_valid (pk k) (pname k) = true.
Proof. intros Hk. unfold p_name_valid. rewrite pname_tokens, (pk_contains k Hk). reflexivity. Qed.

Lemma piece_split j : split_once 61 (trim_start (piece j)) = (pname j, Some [49]).
Proof.
  unfold piece. unfold pname at 1. cbn [app]. rewrite trim_start_head by reflexivity.
  change (112 :: dec j ++ [61; 49]) with (pname j ++ 61 :: [49]). apply split_once_app_sep.
  apply tokens_nosep; [reflexivity|apply pname_tokens].
Qed.

(* the loop on the pieces k .. k+m-1 with the parameters 0 .. k-1 already collected *)
Lemma loop_ge m : forall k fuel, (m < fuel)%nat -> N.of_nat (k + m) <= 10 ^ N.of_nat F ->
  N.of_nat m * N.of_nat m + 2 * N.of_nat k * N.of_nat m
  <= 2 * p_params_cost fuel (map piece (seq k m)) (pk k) + N.of_nat m.
Proof.
  induction m as [|m IH]; intros k fuel Hf Hk; [cbn [N.of_nat]; lia|].
  destruct fuel as [|fuel]; [lia|]. cbn [seq map p_params_cost]. rewrite piece_split. cbv zeta.
  assert (Hk' : N.of_nat k < 10 ^ N.of_nat F) by lia.
  rewrite (pname_valid k Hk'), pname_tokens, pname_lower.
  change (strip_prefix_quote [49]) with (@None (list N)). cbv iota.
  change (trim_end [49]) with [49]. change (is_empty [49]) with false. change (valid_value [49]) with true.
  change (is_empty (pname k)) with false. cbn [negb orb andb]. cbv iota.
  rewrite <- pk_succ. specialize (IH (S k) fuel ltac:(lia) ltac:(rewrite <- Nat.add_succ_comm in Hk; exact Hk)).
  pose proof (contains_cost_ge (pk k) (pname k)) as Hc. rewrite pk_len in Hc.
  rewrite !Nat2N.inj_succ in *. nia.
Qed.

Lemma dparams_pieces n : pieces (dparams n) = [] :: map piece (seq 0 n).
Proof.
  induction n as [|n IH]; [reflexivity|]. cbn [dparams].
  change ([59; 112] ++ dec n ++ [61; 49]) with (59 :: piece n). rewrite pieces_app_sep, IH.
  rewrite pieces_nosep.
  - rewrite seq_S, map_app. reflexivity.
  - unfold piece. unfold nosep. rewrite forallb_app. apply andb_true_iff. split; [|reflexivity].
    apply (tokens_nosep 59); [reflexivity|apply pname_tokens].
Qed.

Lemma dparams_head n : exists r, dparams (S n) = 59 :: r /\ pieces r = map piece (seq 0 (S n)).
Proof.
  pose proof (dparams_pieces (S n)) as H. destruct (dparams (S n)) as [|c r] eqn:E.
  - cbn in H. discriminate.
  - unfold pieces in H. rewrite split_all_cons in H. destruct (c =? 59) eqn:Ec.
    + apply N.eqb_eq in Ec. subst c. exists r. split; [reflexivity|]. cbn [fst snd] in H. injection H as H1 H2. unfold pieces. rewrite H1, H2. reflexivity.
    + cbn [fst snd] in H. discriminate.
Qed.

Lemma dparams_last n : exists r, dparams (S n) = r ++ [49].
Proof. cbn [dparams]. exists (dparams n ++ [59; 112] ++ dec n ++ [61]). rewrite <- !app_assoc. reflexivity. Qed.

Definition mime_distinct_f (n : nat) : list N := [97; 47; 98] ++ dparams n.

Theorem f_c04_9_family n : N.of_nat n <= 10 ^ N.of_nat F ->
  N.of_nat n * (N.of_nat n - 1) <= 2 * mime_parse_cost (mime_distinct_f n).
Proof.
  intros Hn. destruct n as [|n]; [cbn [N.of_nat]; lia|].
  destruct (dparams_head n) as (r & Er & Hp). destruct (dparams_last n) as (q & Eq).
  unfold mime_parse_cost, mime_distinct_f.
  assert (Ht : trim_matches ([97; 47; 98] ++ dparams (S n)) = [97] ++ 47 :: [98] ++ 59 :: r).
  { unfold trim_matches. cbn [app]. rewrite trim_start_head by reflexivity.
    rewrite Eq. change (97 :: 47 :: 98 :: q ++ [49]) with ((97 :: 47 :: 98 :: q) ++ [49]).
    rewrite trim_end_snoc by reflexivity. cbn [app]. rewrite <- Eq, Er. reflexivity. }
  rewrite Ht. rewrite split_once_app_sep by reflexivity. cbn [snd]. rewrite split_once_app_sep by reflexivity. cbn [snd].
  unfold parse_parameters_cost. unfold pieces in Hp.
  destruct (split_all 59 r) as [p ps]. cbn [fst snd] in Hp. rewrite Hp.
  assert (length ps = n) as Hl.
  { apply (f_equal (@length _)) in Hp. rewrite map_length, seq_length in Hp. cbn [length] in Hp. lia. }
  rewrite Hl. pose proof (loop_ge (S n) 0 (S (S n)) ltac:(lia) ltac:(exact Hn)) as H.
  change (pk 0) with (@nil (list N * list N)) in H. cbn [N.of_nat] in H |- *. rewrite !Nat2N.inj_succ in *. nia.
Qed.
End Family.

Lemma dparams_10 n : distinct_params n = dparams 10 n.
Proof. induction n as [|n IH]; [reflexivity|]. cbn [distinct_params dparams]. rewrite IH. reflexivity. Qed.

(* F-C04-9 for the family of C04_CostMime up to the point where its 10-digit counter wraps *)
Theorem f_c04_9_upto n : N.of_nat n <= 10000000000 ->
  N.of_nat n * (N.of_nat n - 1) <= 2 * mime_parse_cost (mime_distinct n).
Proof.
  intros Hn. unfold mime_distinct. rewrite dparams_10. apply (f_c04_9_family 10 n). exact Hn.
Qed.

(* ... and for ALL n when the counter has as many digits as needed (n digits are enough for n names) *)
Definition mime_distinct_u (n : nat) : list N := mime_distinct_f n n.
Lemma pow10_ge n : N.of_nat n <= 10 ^ N.of_nat n.
Proof.
  induction n as [|n IH]; [cbn; lia|]. rewrite Nat2N.inj_succ, N.pow_succ_r'. lia.
Qed.
Theorem f_c04_9_all_n n : N.of_nat n * (N.of_nat n - 1) <= 2 * mime_parse_cost (mime_distinct_u n).
Proof. apply f_c04_9_family. apply pow10_ge. Qed.

Lemma digits_rev_len f : forall n, (length (digits_rev f n) <= f)%nat.
Proof.
  induction f as [|f IH]; intros n; cbn [digits_rev length]; [lia|].
  destruct (n / 10 =? 0); [cbn [length]; lia|]. specialize (IH (n / 10)). lia.
Qed.
Lemma mime_distinct_len n : nlen (mime_distinct n) <= 14 * N.of_nat n + 3.
Proof.
  unfold mime_distinct. rewrite nlen_app. change (nlen [97; 47; 98]) with 3.
  assert (nlen (distinct_params n) <= 14 * N.of_nat n) as H.
  { induction n as [|n IH]; [cbn; lia|]. cbn [distinct_params]. rewrite !nlen_app.
    change (nlen [59; 112]) with 2. change (nlen [61; 49]) with 2.
    assert (nlen (rev (digits_rev 10 (N.of_nat n))) <= 10).
    { unfold nlen. rewrite rev_length. pose proof (digits_rev_len 10 (N.of_nat n)). lia. }
    rewrite Nat2N.inj_succ. lia. }
  lia.
Qed.
Example mime_distinct_u_12 : mime_distinct_u 12 = mime_distinct 12.
Proof. vm_compute. reflexivity. Qed.
