(* Proofs/C13_EncDec.v - encode (decode p) = p up to the case of the digits, through the u32 model.
   decode p = Ok s gives a run of the checked decoder (decode_b); the encoder's walk on s then succeeds
   and its output is the digits of p in lower case (c_outer); a successful walk means that the u32
   encoder does not overflow (link_outer_conv: every partial delta is below the delta that is emitted
   next, and that one satisfies di + delta <= u32::MAX). *)
From RU Require Import Base.Prelude Base.Utf8 Base.U32_c13 Gen.Tables Model.Punycode Spec.Rfc3492
  Proofs.C13_Ascii Proofs.C13_Bounds Proofs.C13_Enc Proofs.C13_Dec Proofs.C13_Known Proofs.C13_Vli Proofs.C13_Rt
  Proofs.C13_DecB Proofs.C13_RtB Proofs.C13_DecEnc Proofs.C13_Mono Proofs.C13_Parse Proofs.C13_EncDecB.

(* ---- a successful walk: the u32 encoder does not overflow ---- *)
Lemma w_inner_d_le l : forall m d h di pos wd wh wdi,
  w_inner l m d h di pos = Some (wd, wh, wdi) -> wd <= U32_MAX -> d <= U32_MAX.
Proof.
  induction l as [|c l IH]; intros m d h di pos wd wh wdi Hw Hwd.
  - cbn [w_inner] in Hw. inversion Hw. subst. exact Hwd.
  - rewrite w_inner_cons in Hw. destruct (c =? m).
    + destruct (di + (if c <? m then d + 1 else d) <=? U32_MAX) eqn:E; [|discriminate].
      destruct (c <? m); lia.
    + apply IH in Hw; [|exact Hwd]. destruct (c <? m); lia.
Qed.

Lemma w_inner_proj l : forall n b d bias h di pos wd wh wdi sd sb sh so,
  w_inner l n d h di pos = Some (wd, wh, wdi) -> s_enc_inner l n b d bias h = (sd, sb, sh, so) ->
  wd = sd /\ wh = sh.
Proof.
  induction l as [|c r IH]; intros n b d bias h di pos wd wh wdi sd sb sh so Hw Hs.
  - cbn [w_inner] in Hw. cbn [s_enc_inner] in Hs. inversion Hw. inversion Hs. subst. split; reflexivity.
  - rewrite w_inner_cons in Hw. rewrite s_enc_inner_cons in Hs. cbv zeta in Hs. destruct (c =? n).
    + destruct (di + (if c <? n then d + 1 else d) <=? U32_MAX); [|discriminate].
      destruct (s_enc_inner r n b 0 (s_adapt (if c <? n then d + 1 else d) (h + 1) (h =? b)) (h + 1))
        as [[[a1 b1] c1] o1] eqn:E.
      inversion Hs. subst. eapply IH; [exact Hw|exact E].
    + eapply IH; [exact Hw|exact Hs].
Qed.

Lemma link_inner_conv cfg l : forall m bl d bias h di pos wd wh wdi,
  w_inner l m d h di pos = Some (wd, wh, wdi) -> wd <= U32_MAX ->
  enc_inner cfg true l m bl d bias h = Ok (s_enc_inner l m bl d bias h).
Proof.
  induction l as [|c l IH]; intros m bl d bias h di pos wd wh wdi Hw Hwd.
  - reflexivity.
  - pose proof (w_inner_d_le _ _ _ _ _ _ _ _ _ Hw Hwd) as Hd.
    rewrite enc_inner_cons, s_enc_inner_cons. cbv zeta. rewrite w_inner_cons in Hw.
    destruct (c =? m) eqn:Ecm.
    + apply N.eqb_eq in Ecm. subst c. replace (m <? m) with false in * by lia.
      destruct (di + d <=? U32_MAX); [|discriminate].
      cbn [rbind]. rewrite enc_vli_fuel_ok. cbn [rbind]. rewrite adapt_ok by lia. cbn [rbind].
      rewrite (IH m bl 0 (s_adapt d (h + 1) (h =? bl)) (h + 1) _ _ _ _ _ Hw Hwd). cbn [rbind].
      destruct (s_enc_inner l m bl 0 (s_adapt d (h + 1) (h =? bl)) (h + 1)) as [[[d1 b1] p1] o1]. reflexivity.
    + destruct (c <? m) eqn:Elt.
      * pose proof (w_inner_d_le _ _ _ _ _ _ _ _ _ Hw Hwd) as Hd1.
        rewrite caller_add_ok by exact Hd1. cbn [rbind]. exact (IH _ _ _ _ _ _ _ _ _ _ Hw Hwd).
      * cbn [rbind]. exact (IH _ _ _ _ _ _ _ _ _ _ Hw Hwd).
Qed.

Lemma link_outer_conv cfg input (HL : len input <= U32_MAX) fuel : forall cp delta bias h bl di,
  w_outer fuel input (len input) cp delta h di = true ->
  h = cnt (fun c => c <? cp) input -> len input - h < N.of_nat fuel ->
  enc_outer fuel cfg true input (len input) bl cp delta bias h = Ok (s_enc_outer fuel input (len input) bl cp delta bias h).
Proof.
  induction fuel as [|f IH]; intros cp delta bias h bl di Hw Hh Hf; [cbn in Hf; lia|].
  rewrite enc_outer_S, s_enc_outer_S. rewrite w_outer_S in Hw.
  destruct (h <? len input) eqn:E; [|reflexivity].
  destruct (min_exists input cp h Hh ltac:(lia)) as [m Em]. rewrite min_ge_eq, Em. rewrite Em in Hw. cbv zeta.
  apply s_min_ge_some in Em. destruct Em as [Hin [Hle Hmin]].
  destruct (w_inner input m (delta + (m - cp) * (h + 1)) h di 0) as [[[wd wh] wdi]|] eqn:Ew; [|discriminate].
  destruct (s_enc_inner input m bl (delta + (m - cp) * (h + 1)) bias h) as [[[d1 b1] h1] o1] eqn:Es.
  destruct (w_inner_proj _ _ bl _ bias _ _ _ _ _ _ _ _ _ _ Ew Es) as [-> ->].
  pose proof Es as Es'. apply s_inner_facts in Es'. destruct Es' as [Hh1 [_ Hd1]]. specialize (Hd1 Hin).
  pose proof (w_inner_d_le _ _ _ _ _ _ _ _ _ Ew ltac:(lia)) as Hd0.
  rewrite caller_mul_ok by lia. cbn [rbind].
  rewrite caller_add_ok by lia. cbn [rbind].
  rewrite (link_inner_conv cfg input m bl _ bias h di 0 _ _ _ Ew ltac:(lia)). rewrite Es. cbn [rbind].
  unfold unchecked_add. replace (d1 + 1 <=? U32_MAX) with true by lia. cbn [rbind].
  pose proof (cnt_eq_in input m Hin) as Hc.
  rewrite (IH (m + 1) (d1 + 1) b1 h1 bl wdi Hw).
  - reflexivity.
  - rewrite Hh1, Hh. symmetry. apply cnt_lt_step; assumption.
  - rewrite Nat2N.inj_succ in Hf. lia.
Qed.

(* ---- each inserted scalar costs at least one digit ---- *)
Lemma b_len_upper dig R : forall mid oldi w k i n bias out s,
  b_dec_loop dig R mid oldi w k i n bias out = Some s -> len s <= len out + len R.
Proof.
  induction R as [|c R IH]; intros mid oldi w k i n bias out s H.
  - cbn [b_dec_loop] in H. destruct mid; [discriminate|]. inversion H. rewrite len_nil. lia.
  - rewrite b_dec_loop_cons in H. rewrite len_cons. destruct (dig c) as [digit|]; [|discriminate].
    destruct ((digit * w <=? U32_MAX) && (i + digit * w <=? U32_MAX)); [|discriminate].
    destruct (digit <? s_threshold k bias).
    + unfold b_dec_break in H. cbv zeta in H.
      destruct ((len out + 1 <=? U32_MAX) && (n + (i + digit * w) / (len out + 1) <=? U32_MAX)); [|discriminate].
      destruct (is_usvb (n + (i + digit * w) / (len out + 1))); [|discriminate].
      apply IH in H. rewrite len_insert_at in H. lia.
    + destruct (w * (s_base - s_threshold k bias) <=? U32_MAX); [|discriminate].
      apply IH in H. lia.
Qed.

(* ---- the delimiter at position 0 is not a digit ---- *)
Lemma rposition_zero p : s_rposition p = Some O -> exists r, p = s_delimiter :: r.
Proof.
  destruct p as [|x r]; [discriminate|]. cbn [s_rposition].
  destruct (s_rposition r); [discriminate|]. destruct (x =? s_delimiter) eqn:E; [|discriminate].
  intros _. apply N.eqb_eq in E. subst x. exists r. reflexivity.
Qed.

Lemma forallb_all_le base : forallb (fun c => c <? 128) base = true -> all_le 127 base /\ Forall (fun c => c < 128) base.
Proof.
  unfold all_le. induction base as [|c r IH]; intros H; [split; constructor|].
  cbn [forallb] in H. apply andb_true_iff in H. destruct H as [H1 H2]. destruct (IH H2) as [A B].
  split; (constructor; [lia|assumption]).
Qed.

(* no hypothesis on s is needed: an all-ASCII result comes from p = s ++ "-" (or p = s = ""), which re-encodes to itself *)
Theorem enc_dec_all : forall cfg p s, ~ Known_C13_2 p -> decode cfg p = Ok s ->
  exists q, encode cfg s = Ok q /\ eq_upto_digit_case q p.
Proof.
  intros cfg p s Hk Hdec.
  assert (HLp : len p <= U32_MAX) by (unfold Known_C13_2 in Hk; lia).
  destruct (decode_b cfg p s HLp Hdec) as [base [rest [Es [Ha Hb]]]].
  destruct (forallb_all_le base Ha) as [Hle127 Hlt128].
  pose proof (split_len _ _ _ Es) as Hsl.
  pose proof (b_len_upper _ _ _ _ _ _ _ _ _ _ _ Hb) as Hls.
  assert (HLs : len s <= U32_MAX) by lia.
  (* the basic part of s is base *)
  assert (Hle128 : all_le s_initial_n base).
  { unfold all_le in *. eapply Forall_impl; [|exact Hle127]. intros c Hc. cbv beta in Hc |- *. unfold s_initial_n. lia. }
  destruct (b_mono _ _ _ _ _ _ _ _ _ _ _ Hle128 Hb) as [I1 _].
  assert (Hbase : base = filter (lt_m 128) s).
  { rewrite (filter_ext (lt_m 128) (le_m 127)) by (intros c; unfold lt_m, le_m; lia).
    rewrite (I1 127) by (unfold s_initial_n; lia). symmetry. apply filter_all_le. exact Hle127. }
  assert (Hcnt : cnt (fun c => c <? 128) s = len base).
  { rewrite cnt_filter. rewrite Hbase. reflexivity. }
  (* the encoder's walk on s *)
  destruct (c_outer digit_u8 digit_u8_lower (Datatypes.S (length s)) s (len base) 128 0 72 (len base) 128 0 base rest)
    as [Hdigits Hwalk].
  { exact Hbase. } { reflexivity. } { lia. } { lia. } { rewrite !N.eqb_refl. reflexivity. } { lia. }
  { unfold len. rewrite Nat2N.inj_succ. lia. }
  { split; [exact Hle128|]. intros A B EAB _. rewrite EAB in Hlt128. apply Forall_app in Hlt128. exact (proj2 Hlt128). }
  { exact Hb. }
  (* the u32 encoder *)
  assert (Henc : encode cfg s = Ok (s_encode s)).
  { unfold encode. replace (U32_MAX <? N.of_nat (length s)) with false by (unfold len in HLs; lia).
    unfold encode_into. rewrite enc_basic_ok by (rewrite N.add_0_l; exact HLs). rewrite !N.add_0_l.
    cbn [rbind]. rewrite Hcnt.
    rewrite (link_outer_conv cfg s HLs (Datatypes.S (length s)) INITIAL_N 0 INITIAL_BIAS (len base) (len base) 0 Hwalk).
    - cbn [rbind]. rewrite s_encode_unfold, Hcnt. reflexivity.
    - symmetry. exact Hcnt.
    - unfold len. rewrite Nat2N.inj_succ. lia. }
  exists (s_encode s). split; [exact Henc|].
  unfold eq_upto_digit_case, lower_digits. rewrite Es.
  rewrite s_encode_unfold, Hcnt. change (filter (fun c => c <? 128) s) with (filter (lt_m 128) s).
  rewrite <- Hbase, <- Hdigits.
  unfold s_split in Es.
  destruct (s_rposition p) as [[|k]|] eqn:Er.
  - exfalso. destruct (rposition_zero p Er) as [r Hr]. change (0 <? 0)%nat with false in Es. cbv iota in Es.
    injection Es as Eb Erest. subst rest. rewrite Hr in Hb. rewrite b_dec_loop_cons in Hb.
    replace (digit_u8 s_delimiter) with (@None N) in Hb by (vm_compute; reflexivity). discriminate.
  - change (0 <? Datatypes.S k)%nat with true in Es. cbv iota in Es. injection Es as Eb Erest.
    assert (Hne : 0 <? len base = true).
    { rewrite <- Eb. destruct p as [|x r]; [discriminate|]. cbn [firstn]. rewrite len_cons. lia. }
    rewrite Hne. reflexivity.
  - injection Es as Eb Erest. rewrite <- Eb. rewrite len_nil. cbn [app]. reflexivity.
Qed.

Theorem enc_dec_main : forall cfg p s, ~ Known_C13_2 p -> decode cfg p = Ok s -> has_non_ascii s = true ->
  exists q, encode cfg s = Ok q /\ eq_upto_digit_case q p.
Proof. intros cfg p s Hk Hdec _. exact (enc_dec_all cfg p s Hk Hdec). Qed.
