(* Proofs/C01_EqSpKnown.v - the class of special non-file URLs without base (Proofs/C01_EqSp.v) contains every
   such input outside Known_C01: the only exclusion of the class (a ".." meeting a drive-letter-shaped
   segment, tested on the Standard's segment list and buffer) cannot occur when the raw text has no
   drive-letter-shaped piece (Known_C01 class 2, has_drive_segment).  Hence C01_statement holds for these
   inputs, up to the named Overflow clause and the hypothesis on the abstract host functions. *)
From RU Require Import Base.Prelude Base.Utf8 Base.Utf8Facts Model.AsciiSet Gen.Tables
  Model.PercentEncoding Model.HostT Model.UrlRecord Model.Parser Model.KnownC01 Spec.Whatwg
  Proofs.C08_Input Proofs.C01_EqRun Proofs.C01_EqEnc Proofs.C01_EqPathSpec Proofs.C01_EqPath Proofs.C01_EqAuthSpec
  Proofs.C01_EqAuthModel Proofs.C01_EqClasses2 Proofs.C01_EqSpSpec Proofs.C01_EqSpPath Proofs.C01_EqSpModel Proofs.C01_EqSp
  Proofs.C01_KnownExact.

(* ================= drive-letter-shaped segments: raw text vs the Standard's buffer ================= *)
Definition no_pe (s : list N) : bool := forallb (fun c => negb (is_path_end c)) s.
Definition nowdl (P : list (list N)) : bool := forallb (fun t => negb (starts_with_wdl (t ++ [47]))) P.

Lemma upe_cp_shape inset c : utf8_percent_encode_cp inset c = [c]
  \/ exists h l tl, utf8_percent_encode_cp inset c = 37 :: h :: l :: tl.
Proof.
  unfold utf8_percent_encode_cp. destruct (inset c); [|left; reflexivity]. right.
  unfold utf8_encode. cbn [flat_map]. rewrite app_nil_r.
  destruct (utf8_encode1 c) as [|b bs] eqn:E.
  - exfalso. unfold utf8_encode1 in E. repeat (destruct (_ <? _) in E); discriminate E.
  - cbn [flat_map percent_encode_byte app]. eexists. eexists. eexists. reflexivity.
Qed.

Lemma wdl_raw Braw : no_pe Braw = true -> starts_with_wdl (upe in_path_set Braw ++ [47]) = true ->
  exists a b, Braw = [a; b] /\ is_alpha a = true /\ ((b =? 58) || (b =? 124)) = true.
Proof.
  intros Hn H. destruct Braw as [|x rest1]; [discriminate H|].
  rewrite upe_cons in H.
  destruct (upe_cp_shape in_path_set x) as [Ex|(h & l & tl & Ex)]; rewrite Ex in H.
  2:{ exfalso. cbn [app starts_with_wdl] in H. replace (is_alpha 37) with false in H by reflexivity. discriminate H. }
  destruct rest1 as [|y rest2].
  { exfalso. cbn [upe utf8_percent_encode flat_map app starts_with_wdl] in H.
    replace ((47 =? 58) || (47 =? 124)) with false in H by reflexivity. rewrite andb_false_r in H. discriminate H. }
  rewrite upe_cons in H.
  destruct (upe_cp_shape in_path_set y) as [Ey|(h & l & tl & Ey)]; rewrite Ey in H.
  2:{ exfalso. cbn [app starts_with_wdl] in H. replace ((37 =? 58) || (37 =? 124)) with false in H by reflexivity.
      rewrite andb_false_r in H. discriminate H. }
  destruct rest2 as [|z rest3].
  { cbn [upe utf8_percent_encode flat_map app starts_with_wdl] in H.
    apply andb_true_iff in H. destruct H as [H _]. apply andb_true_iff in H. destruct H as [H1 H2].
    exists x, y. repeat split; assumption. }
  exfalso. rewrite upe_cons in H.
  unfold no_pe in Hn. cbn [forallb] in Hn. apply andb_true_iff in Hn. destruct Hn as [_ Hn].
  apply andb_true_iff in Hn. destruct Hn as [_ Hn]. apply andb_true_iff in Hn. destruct Hn as [Hz _].
  apply negb_true_iff in Hz.
  destruct (upe_cp_shape in_path_set z) as [Ez|(h & l & tl & Ez)]; rewrite Ez in H; cbn [app starts_with_wdl] in H.
  - rewrite Hz in H. rewrite andb_false_r in H. discriminate H.
  - replace (is_path_end 37) with false in H by reflexivity. rewrite andb_false_r in H. discriminate H.
Qed.

Lemma hds_cons prev a b rest : has_drive_segment_from prev (a :: b :: rest)
  = (is_alpha a && ((b =? 58) || (b =? 124))
     && (match prev with None => true | Some p => is_path_end p end)
     && (match rest with [] => true | c :: _ => is_path_end c end))
    || has_drive_segment_from (Some a) (b :: rest).
Proof. reflexivity. Qed.

Lemma hds_suffix pre : forall prev c r, has_drive_segment_from prev (pre ++ c :: r) = false ->
  has_drive_segment_from (Some c) r = false.
Proof.
  induction pre as [|x pre IH]; intros prev c r H.
  - cbn [app] in H. destruct r as [|b rest]; [reflexivity|].
    rewrite hds_cons in H. apply orb_false_iff in H. tauto.
  - cbn [app] in H. remember (pre ++ c :: r) as t eqn:E. destruct t as [|b rest]; [destruct pre; discriminate E|].
    rewrite hds_cons in H. apply orb_false_iff in H. destruct H as [_ H]. rewrite E in H.
    exact (IH (Some x) c r H).
Qed.

Lemma hds_hit p a b rest : is_path_end p = true -> is_alpha a = true -> ((b =? 58) || (b =? 124)) = true ->
  match rest with [] => True | c :: _ => is_path_end c = true end ->
  has_drive_segment_from (Some p) (a :: b :: rest) = true.
Proof.
  intros Hp Ha Hb Hr. rewrite hds_cons. rewrite Ha, Hb, Hp. cbn [andb].
  destruct rest as [|c r]; [reflexivity|]. rewrite Hr. reflexivity.
Qed.

Lemma nowdl_last P : nowdl P = true -> last_is_wdl P = false.
Proof.
  unfold nowdl, last_is_wdl. intros H. destruct (rev P) as [|t r] eqn:E; [reflexivity|].
  assert (In t P) as Hin by (apply in_rev; rewrite E; left; reflexivity).
  rewrite forallb_forall in H. specialize (H t Hin). apply negb_true_iff in H. exact H.
Qed.

Lemma nowdl_fin_ok P B : nowdl P = true -> fin_ok P B = true.
Proof. intros H. unfold fin_ok. rewrite (nowdl_last P H). rewrite andb_false_r. reflexivity. Qed.

Lemma nowdl_removelast P : nowdl P = true -> nowdl (removelast P) = true.
Proof.
  unfold nowdl. intros H. rewrite forallb_forall in *. intros x Hx. apply H.
  destruct P as [|p0 P]; [destruct Hx|].
  assert (p0 :: P <> []) as Hne by discriminate.
  rewrite (app_removelast_last [] Hne). apply in_or_app. left. exact Hx.
Qed.

Lemma nowdl_fin P B sep : nowdl P = true -> (is_double_dot_segment B = false -> is_single_dot_segment B = false -> starts_with_wdl (B ++ [47]) = false) ->
  nowdl (fin P B sep) = true.
Proof.
  intros HP HB. unfold fin. pose proof (nowdl_removelast P HP) as HR. unfold nowdl in *.
  destruct (is_double_dot_segment B) eqn:Ed; [destruct sep; [exact HR | rewrite forallb_app, HR; reflexivity]|].
  destruct (is_single_dot_segment B) eqn:Es; [destruct sep; [exact HP | rewrite forallb_app, HP; reflexivity]|].
  rewrite forallb_app, HP. cbn [forallb]. rewrite (HB eq_refl eq_refl). reflexivity.
Qed.

(* no drive-letter-shaped piece in the raw text => the exclusion of the special class does not apply *)
Lemma spath_ok_s_raw x : forall p Braw P,
  is_path_end p = true -> no_pe Braw = true -> nowdl P = true ->
  has_drive_segment_from (Some p) (Braw ++ x) = false ->
  spath_ok_s x P (upe in_path_set Braw) = true.
Proof.
  induction x as [|c r IH]; intros p Braw P Hp Hn HP H.
  - cbn [spath_ok_s]. apply nowdl_fin_ok. exact HP.
  - cbn [spath_ok_s].
    assert (starts_with_wdl (upe in_path_set Braw ++ [47]) = false \/ is_path_end c = false) as HB.
    { destruct (is_path_end c) eqn:Ec; [left | right; reflexivity].
      destruct (starts_with_wdl (upe in_path_set Braw ++ [47])) eqn:E; [|reflexivity]. exfalso.
      destruct (wdl_raw Braw Hn E) as (a & b & -> & Ha & Hb).
      cbn [app] in H. rewrite (hds_hit p a b (c :: r) Hp Ha Hb Ec) in H. discriminate H. }
    destruct (is_sl c) eqn:Esl.
    + assert (is_path_end c = true) as Ec by (unfold is_path_end; unfold is_sl in Esl; lia).
      destruct HB as [HB|HB]; [|rewrite HB in Ec; discriminate Ec].
      rewrite (nowdl_fin_ok P _ HP). cbn [andb].
      change (@nil N) with (upe in_path_set []).
      apply (IH c [] (fin P (upe in_path_set Braw) true)); [exact Ec | reflexivity | | ].
      * apply nowdl_fin; [exact HP | intros _ _; exact HB].
      * cbn [app]. exact (hds_suffix Braw (Some p) c r H).
    + destruct (is_qh c) eqn:Eq; [apply nowdl_fin_ok; exact HP|].
      assert (is_path_end c = false) as Ec by (unfold is_path_end; unfold is_sl in Esl; unfold is_qh in Eq; lia).
      replace (upe in_path_set Braw ++ utf8_percent_encode_cp in_path_set c) with (upe in_path_set (Braw ++ [c])) by (rewrite upe_app; cbn [upe utf8_percent_encode flat_map]; rewrite app_nil_r; reflexivity).
      apply (IH p (Braw ++ [c]) P Hp); [| exact HP |].
      * unfold no_pe in *. rewrite forallb_app, Hn. cbn [forallb]. rewrite Ec. reflexivity.
      * rewrite <- app_assoc. exact H.
Qed.

(* ================= the text the path state sees is a suffix of the text after "scheme:" ================= *)
Lemma digits_after t : digits_of t ++ after_digits t = t.
Proof. induction t as [|c r IH]; [reflexivity|]. cbn [digits_of after_digits]. destruct (is_digit c); [|reflexivity]. cbn [app]. rewrite IH. reflexivity. Qed.

Lemma sp_path_text_suffix T : exists pre, T = pre ++ sp_path_text T.
Proof.
  unfold sp_path_text, after_at_s.
  assert (exists p0, T = p0 ++ snd (match last_at (as_part T) with Some (w, h) => (Some w, h ++ as_rest T) | None => (None, T) end)) as [p0 E0].
  { destruct (last_at (as_part T)) as [[w h]|] eqn:E; cbn [snd]; [|exists []; reflexivity].
    exists (w ++ [64]). rewrite <- (as_part_rest T) at 1. rewrite (last_at_split _ _ _ E). rewrite <- !app_assoc. reflexivity. }
  set (HR := snd (match last_at (as_part T) with Some (w, h) => (Some w, h ++ as_rest T) | None => (None, T) end)) in *.
  pose proof (hss_host_rest HR false) as E1.
  destruct (port_split (hss_rest false HR)) as [PR|] eqn:Ep.
  - destruct (hss_rest false HR) as [|c X0] eqn:EX; [discriminate Ep|]. cbn [port_split] in Ep.
    destruct (c =? 58); [|discriminate Ep]. inversion Ep; subst X0.
    exists (p0 ++ hss_host false HR ++ [c] ++ digits_of PR). rewrite E0 at 1. rewrite <- E1 at 1.
    rewrite <- (digits_after PR) at 1. rewrite <- !app_assoc. reflexivity.
  - exists (p0 ++ hss_host false HR). rewrite E0 at 1. rewrite <- E1 at 1. rewrite <- !app_assoc. reflexivity.
Qed.

Lemma sp_class_ok_nodrive_from prev R : has_drive_segment_from prev R = false -> sp_class_ok (drop_sl R) = true.
Proof.
  intros H. unfold sp_class_ok. destruct (sp_path_text_suffix (drop_sl R)) as [pre E].
  set (X := sp_path_text (drop_sl R)) in *.
  destruct (starts_aes X) eqn:Eae; [|reflexivity]. cbn [negb orb].
  assert (R = (take_sl R ++ pre) ++ X) as ER by (rewrite <- app_assoc, <- E; symmetry; apply take_drop_sl).
  destruct X as [|c r]; [reflexivity|]. cbn [path_text_s]. cbn [starts_aes] in Eae.
  destruct (is_sl c) eqn:Esl.
  - change (@nil N) with (upe in_path_set []).
    apply (spath_ok_s_raw r c [] []); [unfold is_path_end; unfold is_sl in Esl; lia | reflexivity | reflexivity|].
    cbn [app]. rewrite ER in H. exact (hds_suffix _ prev c r H).
  - cbn [spath_ok_s]. rewrite Esl.
    assert (is_qh c = true) as -> by (unfold is_aes, is_ae in Eae; unfold is_sl in Esl; unfold is_qh; lia).
    reflexivity.
Qed.

Lemma sp_class_ok_nodrive R : has_drive_segment R = false -> sp_class_ok (drop_sl R) = true.
Proof. exact (sp_class_ok_nodrive_from None R). Qed.

(* ================= Known_C01 on a text with a special scheme ================= *)
(* the former broad predicate: no drive-letter-shaped piece in the raw text *)
Lemma known_special_nodrive_broad input sch R :
  spec_scheme (spec_clean input) = Some (sch, R) -> is_special_scheme sch = true -> known_c01_broad None input = 0 ->
  list_eqb sch str_file = false /\ has_drive_segment R = false.
Proof.
  intros Hs Hsp Hk. unfold known_c01_broad in Hk. cbv zeta in Hk. rewrite cleaned_spec_clean in Hk.
  destruct (spec_scheme_some_leading _ _ _ Hs) as [E1 E2].
  rewrite E1, E2 in Hk. change s_file with str_file in Hk.
  destruct (list_eqb sch str_file); [discriminate Hk|]. cbn [orb] in Hk.
  destruct (has_drive_segment R); [discriminate Hk|]. split; reflexivity.
Qed.

Theorem special_class_covers_known_broad input sch R :
  spec_scheme (spec_clean input) = Some (sch, R) -> is_special_scheme sch = true -> known_c01_broad None input = 0 ->
  in_class_special input = true.
Proof.
  intros Hs Hsp Hk. destruct (known_special_nodrive_broad input sch R Hs Hsp Hk) as [Hf Hd].
  unfold in_class_special. rewrite Hs, Hsp, Hf. cbn [negb andb]. apply sp_class_ok_nodrive. exact Hd.
Qed.

(* every input with a special non-file scheme outside Known_C01 (the exact classes) is in the class *)
Theorem special_class_covers_known input sch R :
  spec_scheme (spec_clean input) = Some (sch, R) -> is_special_scheme sch = true -> known_c01_v1 None input = 0 ->
  in_class_special input = true.
Proof.
  intros Hs Hsp Hk. destruct (known_exact_nobase input sch R Hs Hk) as [Hf Hd]. rewrite Hsp in Hd.
  unfold in_class_special. rewrite Hs, Hsp, Hf. cbn [negb andb]. exact (k_special_class_ok R Hd).
Qed.

(* C01_statement for inputs with a special scheme and no base: outside Known_C01 the two sides agree *)
Theorem statement_special_nobase dbg hp hpo hd shp shs input sch R :
  usv_list input -> spec_scheme (spec_clean input) = Some (sch, R) -> is_special_scheme sch = true ->
  known_c01_v1 None input = 0 ->
  host_agree_sp hp hd shp shs (class_host_text_s input) ->
  agree_rel_strict dbg shs (parse_url dbg hp hpo hd None None input) (spec_basic_url_parse shp input None).
Proof.
  intros Hu Hs Hsp Hk HA. apply class_special; [exact Hu | | exact HA].
  exact (special_class_covers_known input sch R Hs Hsp Hk).
Qed.
