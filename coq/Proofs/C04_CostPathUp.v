(* Proofs/C04_CostPathUp.v - the UPPER bound for the path state, every scheme type and context, every input.
   The lower bound is finding F-C04-8 (Proofs/C04_CostPath.v: m ".." segments at the root behind a prefix of length L
   cost at least m (L + 1)).  Here: the ONLY super-linear part of parse_path is the resolution of double-dot segments.
     dd_count = the number of times finish_segment sees a double-dot segment ("..", ".%2e", "%2E." ...) in this run
                (a twin of the loop that counts them);
     M        = |serialization| + 12 |pending| + 13 |input|, a bound for the length of every serialization of the run.
   path_cost_upper:  steps <= 18 |input| + 12 |pending| + 5 + (file: 2 M + 3) + dd_count * (2 M + 3).
   Hence: linear when no double-dot segment is resolved (or a bounded number of them): path_cost_linear_no_dd;
   at most quadratic always (dd_count <= |input| + 1): path_cost_quadratic - with F-C04-8 the order is exact. *)
From RU Require Import Base.Prelude Base.Utf8 Base.Utf8Facts Model.AsciiSet Gen.Tables
  Model.PercentEncoding Model.HostT Model.UrlRecord Model.Parser Model.Cost
  Proofs.ListN Proofs.C04_Cost.

(* ---------------------------------------------------------------- definitions *)
Definition dd_here (ser : list N) (ss : N) (ews : bool) : N :=
  match slice_o ser ss (if ews then nlen ser - 1 else nlen ser) with
  | Some seg => if is_double_dot seg then 1 else 0
  | None => 0
  end.

Section PathUp.
Variable dbg : bool.

Fixpoint dd_count (ctx : context) (st : scheme_type) (path_start : N) (l : list N)
         (ser : list N) (segment_start : N) (pending_rev : list N) (has_host : bool) : N :=
  match l with
  | [] => dd_here (push_pending ctx st ser pending_rev) segment_start false
  | c :: r =>
      if is_tnl c then dd_count ctx st path_start r (push_pending ctx st ser pending_rev) segment_start [] has_host
      else if (negb (ctx_eqb ctx CPathSegmentSetter)) && ((c =? 47) || ((c =? 92) && st_is_special st)) then
        let s1 := push_pending ctx st ser pending_rev ++ [47] in
        dd_here s1 segment_start true
        + match finish_segment dbg st path_start s1 segment_start true has_host with
          | POk (s2, hh) => dd_count ctx st path_start r s2 (nlen s2) [] hh
          | _ => 0
          end
      else if ((c =? 63) || (c =? 35)) && ctx_eqb ctx CUrlParser then
        dd_here (push_pending ctx st ser pending_rev) segment_start false
      else if st_is_file st && (path_start <? nlen ser) && is_normalized_wdl (nskipn (path_start + 1) ser) then
        dd_count ctx st path_start r (push_pending ctx st ser pending_rev ++ [47]) (segment_start + 1) [c] has_host
      else dd_count ctx st path_start r ser segment_start (c :: pending_rev) has_host
  end.

(* ---------------------------------------------------------------- lengths *)
Lemma nlen_nfirstn_le2 n l : nlen (nfirstn n l) <= nlen l.
Proof. unfold nlen, nfirstn. rewrite firstn_length. pose proof (Nat.le_min_r (N.to_nat n) (length l)). lia. Qed.

Lemma rcost_le b l : rcost b l <= nlen l.
Proof. unfold rcost. destruct (rfind b l); lia. Qed.

Lemma slice_o_len ser a b seg : slice_o ser a b = Some seg -> a <= b /\ b <= nlen ser /\ nlen seg = b - a.
Proof.
  unfold slice_o. destruct (a <=? b) eqn:E1; [|discriminate]. destruct (b <=? nlen ser) eqn:E2; [|discriminate].
  cbn [andb]. intros H. inversion H; subst. split; [lia|]. split; [lia|].
  apply nlen_nfirstn. rewrite nlen_nskipn. lia.
Qed.

Lemma double_dot_len seg : is_double_dot seg = true -> 2 <= nlen seg.
Proof.
  destruct seg as [|a [|b r]]; cbn [is_double_dot]; try discriminate.
  - destruct a as [|p]; [discriminate|]. repeat (destruct p as [p|p|]; try discriminate).
  - intros _. rewrite !nlen_cons. lia.
Qed.

Lemma single_dot_len seg : is_single_dot seg = true -> 1 <= nlen seg.
Proof. destruct seg as [|a r]; cbn [is_single_dot]; [discriminate|]. intros _. rewrite nlen_cons. lia. Qed.

Lemma shorten_path_len st ps s s' : shorten_path st ps s = POk s' -> nlen s' <= nlen s.
Proof.
  unfold shorten_path, pop_path. destruct (nlen s =? ps); [intros H; inversion H; lia|].
  destruct (st_is_file st && is_normalized_wdl (nskipn ps s)); [intros H; inversion H; lia|].
  destruct (ps <? nlen s); [|intros H; inversion H; lia].
  destruct (rfind 47 (nskipn ps s)) as [sp|]; [|discriminate].
  destruct (st_is_file st && is_normalized_wdl (nskipn (ps + sp + 1) s)); intros H; inversion H; subst; [lia|].
  apply nlen_nfirstn_le2.
Qed.

Lemma finish_segment_len st ps s1 ss ews hh s2 hh' :
  finish_segment dbg st ps s1 ss ews hh = POk (s2, hh') -> nlen s2 <= nlen s1.
Proof.
  unfold finish_segment. cbv zeta.
  set (se := if ews then nlen s1 - 1 else nlen s1).
  destruct (slice_o s1 ss se) as [seg|] eqn:Es; cbn [of_option pbind]; [|discriminate].
  destruct (slice_o_len _ _ _ _ Es) as (L1 & L2 & L3).
  assert (Hse : se <= nlen s1) by (unfold se; destruct ews; lia).
  assert (Htr : nlen (truncate s1 ss) = ss) by (unfold truncate; apply nlen_nfirstn; lia).
  destruct (is_double_dot seg) eqn:Edd.
  - pose proof (double_dot_len seg Edd) as Hd.
    match goal with |- pbind ?x _ = _ -> _ => destruct x as [[]| |]; cbn [pbind]; try discriminate end.
    set (s2' := if ends_with_byte 47 (truncate s1 ss) && last_slash_can_be_removed (truncate s1 ss) ps
                then nfirstn (nlen (truncate s1 ss) - 1) (truncate s1 ss) else truncate s1 ss).
    assert (H2 : nlen s2' <= ss).
    { unfold s2'. destruct (ends_with_byte 47 (truncate s1 ss) && _); [|lia].
      pose proof (nlen_nfirstn_le2 (nlen (truncate s1 ss) - 1) (truncate s1 ss)). lia. }
    destruct (shorten_path st ps s2') as [s3| |] eqn:E3; cbn [pbind]; try discriminate.
    pose proof (shorten_path_len _ _ _ _ E3) as H3. intros H. inversion H; subst. clear H.
    destruct (ews && negb (ends_with_byte 47 s3)) eqn:Ee.
    + rewrite nlen_app. change (nlen [47]) with 1. destruct ews; [|discriminate]. unfold se in *. lia.
    + lia.
  - destruct (is_single_dot seg) eqn:Esd.
    + pose proof (single_dot_len seg Esd) as Hd. intros H. inversion H; subst. clear H.
      destruct (ends_with_byte 47 (truncate s1 ss)); [lia|]. rewrite nlen_app. change (nlen [47]) with 1. lia.
    + destruct (st_is_file st && (ss =? ps + 1) && is_wdl seg) eqn:Ew.
      * apply andb_true_iff in Ew. destruct Ew as [_ Ew]. unfold is_wdl in Ew. apply andb_true_iff in Ew. destruct Ew as [Ew _].
        destruct seg as [|c seg']; [discriminate|]. intros H. inversion H; subst. clear H.
        assert (nlen (c :: seg') = 2) as Hl2 by (unfold nlen; apply Nat.eqb_eq in Ew; rewrite Ew; reflexivity).
        rewrite nlen_app. unfold se in *.
        destruct ews; cbn [app]; [change (nlen [c; 58; 47]) with 3 | change (nlen [c; 58]) with 2]; cbv iota in *; rewrite Hl2 in L3; lia.
      * intros H. inversion H; subst. lia.
Qed.

Lemma push_pending_len ctx st ser pend : usv_list pend ->
  nlen ser <= nlen (push_pending ctx st ser pend) /\ nlen (push_pending ctx st ser pend) <= nlen ser + 12 * nlen pend.
Proof.
  intros Hp. unfold push_pending. destruct pend as [|c r]; [cbn; lia|].
  destruct (push_encoded_len (path_set ctx st) ser (rev (c :: r)) (usv_rev _ Hp)) as [H1 H2].
  assert (nlen (rev (c :: r)) = nlen (c :: r)) as E by (unfold nlen; rewrite rev_length; reflexivity).
  rewrite E in H2. lia.
Qed.

(* ---------------------------------------------------------------- one finish_segment *)
Lemma finish_segment_cost_le st ps s1 ss ews :
  finish_segment_cost st ps s1 ss ews <= 3 + dd_here s1 ss ews * (2 * nlen s1 + 3).
Proof.
  unfold finish_segment_cost, dd_here. cbv zeta.
  destruct (slice_o s1 ss (if ews then nlen s1 - 1 else nlen s1)) as [seg|]; [|lia].
  destruct (is_double_dot seg); [|lia].
  set (t := truncate s1 ss). assert (Ht : nlen t <= nlen s1) by (unfold t, truncate; apply nlen_nfirstn_le2).
  assert (H1 : (if ends_with_byte 47 t then last_slash_cost t else 0) <= 1 + nlen s1).
  { destruct (ends_with_byte 47 t); [|lia]. unfold last_slash_cost.
    pose proof (rcost_le 47 (nfirstn (nlen t - 1) t)). pose proof (nlen_nfirstn_le2 (nlen t - 1) t). lia. }
  set (s2 := if ends_with_byte 47 t && last_slash_can_be_removed t ps then nfirstn (nlen t - 1) t else t).
  assert (H2 : nlen s2 <= nlen s1).
  { unfold s2. destruct (ends_with_byte 47 t && _); [|lia]. pose proof (nlen_nfirstn_le2 (nlen t - 1) t). lia. }
  assert (H3 : shorten_path_cost st ps s2 <= 2 + nlen s1).
  { unfold shorten_path_cost, pop_path_cost. destruct (nlen s2 =? ps); [lia|].
    destruct (st_is_file st && is_normalized_wdl (nskipn ps s2)); [lia|].
    destruct (ps <? nlen s2); [|lia]. pose proof (rcost_le 47 (nskipn ps s2)). rewrite nlen_nskipn in *. lia. }
  lia.
Qed.

Lemma fixup_cost_le st ps s : file_path_fixup_cost st ps s <= if st_is_file st then 2 * nlen s + 3 else 0.
Proof.
  unfold file_path_fixup_cost. destruct (st_is_file st); [|lia]. cbv zeta.
  assert (forall p, nlen (drop_while is_slash p) <= nlen p) as Hd.
  { induction p as [|c p IH]; cbn [drop_while]; [lia|]. destruct (is_slash c); [rewrite nlen_cons; lia | lia]. }
  pose proof (Hd (nskipn ps s)). rewrite nlen_nskipn in *. lia.
Qed.

(* ---------------------------------------------------------------- the loop *)
Definition fix_bound (st : scheme_type) (M : N) : N := if st_is_file st then 2 * M + 3 else 0.

Lemma path_cost_upper_gen ctx st ps M l : forall ser ss pend hh, usv_list l -> usv_list pend ->
  nlen ser + 12 * nlen pend + 13 * nlen l <= M ->
  snd (parse_path_loop_c dbg ctx st ps l ser ss pend hh)
  <= 18 * nlen l + 12 * nlen pend + 5 + fix_bound st M + dd_count ctx st ps l ser ss pend hh * (2 * M + 3).
Proof.
  induction l as [|c r IH]; intros ser ss pend hh Hl Hp HM; cbn [parse_path_loop_c dd_count].
  - destruct (push_pending_len ctx st ser pend Hp) as [P1 P2]. set (s1 := push_pending ctx st ser pend) in *.
    pose proof (finish_segment_cost_le st ps s1 ss false) as Hf. change (nlen []) with 0 in *.
    assert (dd_here s1 ss false * (2 * nlen s1 + 3) <= dd_here s1 ss false * (2 * M + 3)) as Hd by (apply N.mul_le_mono_l; lia).
    unfold flush_cost.
    destruct (finish_segment dbg st ps s1 ss false hh) as [[s2 h2]| |] eqn:Ef; cbn [snd]; try lia.
    pose proof (finish_segment_len _ _ _ _ _ _ _ _ Ef) as L2. pose proof (fixup_cost_le st ps s2) as Hx.
    unfold fix_bound. destruct (st_is_file st); lia.
  - inversion Hl as [|? ? Hc Hr]; subst. rewrite nlen_cons in *.
    destruct (push_pending_len ctx st ser pend Hp) as [P1 P2]. set (s0 := push_pending ctx st ser pend) in *.
    destruct (is_tnl c).
    + specialize (IH s0 ss [] hh Hr (Forall_nil _) ltac:(change (nlen []) with 0; lia)). change (nlen []) with 0 in IH.
      destruct (parse_path_loop_c dbg ctx st ps r s0 ss [] hh) as [o n]. cbn [snd] in *. unfold flush_cost. lia.
    + destruct (negb (ctx_eqb ctx CPathSegmentSetter) && ((c =? 47) || (c =? 92) && st_is_special st)).
      * cbv zeta. set (s1 := s0 ++ [47]).
        assert (L1 : nlen s1 = nlen s0 + 1) by (unfold s1; rewrite nlen_app; reflexivity).
        pose proof (finish_segment_cost_le st ps s1 ss true) as Hf.
        assert (dd_here s1 ss true * (2 * nlen s1 + 3) <= dd_here s1 ss true * (2 * M + 3)) as Hd by (apply N.mul_le_mono_l; lia).
        unfold flush_cost.
        destruct (finish_segment dbg st ps s1 ss true hh) as [[s2 h2]| |] eqn:Ef; cbn [snd]; try lia.
        pose proof (finish_segment_len _ _ _ _ _ _ _ _ Ef) as L2.
        specialize (IH s2 (nlen s2) [] h2 Hr (Forall_nil _) ltac:(change (nlen []) with 0; lia)). change (nlen []) with 0 in IH.
        destruct (parse_path_loop_c dbg ctx st ps r s2 (nlen s2) [] h2) as [o n]. cbn [snd] in *. lia.
      * destruct (((c =? 63) || (c =? 35)) && ctx_eqb ctx CUrlParser).
        -- pose proof (finish_segment_cost_le st ps s0 ss false) as Hf.
           assert (dd_here s0 ss false * (2 * nlen s0 + 3) <= dd_here s0 ss false * (2 * M + 3)) as Hd by (apply N.mul_le_mono_l; lia).
           unfold flush_cost.
           destruct (finish_segment dbg st ps s0 ss false hh) as [[s2 h2]| |] eqn:Ef; cbn [snd]; try lia.
           pose proof (finish_segment_len _ _ _ _ _ _ _ _ Ef) as L2. pose proof (fixup_cost_le st ps s2) as Hx.
           unfold fix_bound. destruct (st_is_file st); lia.
        -- destruct (st_is_file st && (ps <? nlen ser) && is_normalized_wdl (nskipn (ps + 1) ser)).
           ++ assert (L1 : nlen (s0 ++ [47]) = nlen s0 + 1) by (rewrite nlen_app; reflexivity).
              specialize (IH (s0 ++ [47]) (ss + 1) [c] hh Hr (Forall_cons _ Hc (Forall_nil _))
                            ltac:(change (nlen [c]) with 1; lia)). change (nlen [c]) with 1 in IH.
              destruct (parse_path_loop_c dbg ctx st ps r (s0 ++ [47]) (ss + 1) [c] hh) as [o n]. cbn [snd] in *.
              unfold flush_cost. lia.
           ++ specialize (IH ser ss (c :: pend) hh Hr (Forall_cons _ Hc Hp) ltac:(rewrite nlen_cons; lia)).
              rewrite nlen_cons in IH.
              destruct (parse_path_loop_c dbg ctx st ps r ser ss (c :: pend) hh) as [o n]. cbn [snd] in *. lia.
Qed.

Lemma dd_here_le1 s ss ews : dd_here s ss ews <= 1.
Proof. unfold dd_here. destruct (slice_o _ _ _) as [seg|]; [destruct (is_double_dot seg)|]; lia. Qed.

Lemma dd_count_le ctx st ps l : forall ser ss pend hh, dd_count ctx st ps l ser ss pend hh <= nlen l + 1.
Proof.
  induction l as [|c r IH]; intros ser ss pend hh; cbn [dd_count]; [pose proof (dd_here_le1 (push_pending ctx st ser pend) ss false); cbn; lia|].
  rewrite nlen_cons. destruct (is_tnl c); [specialize (IH (push_pending ctx st ser pend) ss [] hh); lia|].
  destruct (negb (ctx_eqb ctx CPathSegmentSetter) && ((c =? 47) || (c =? 92) && st_is_special st)).
  - cbv zeta. pose proof (dd_here_le1 (push_pending ctx st ser pend ++ [47]) ss true).
    destruct (finish_segment dbg st ps (push_pending ctx st ser pend ++ [47]) ss true hh) as [[s2 h2]| |]; [|lia|lia].
    specialize (IH s2 (nlen s2) [] h2). lia.
  - destruct (((c =? 63) || (c =? 35)) && ctx_eqb ctx CUrlParser); [pose proof (dd_here_le1 (push_pending ctx st ser pend) ss false); lia|].
    destruct (st_is_file st && (ps <? nlen ser) && is_normalized_wdl (nskipn (ps + 1) ser)).
    + specialize (IH (push_pending ctx st ser pend ++ [47]) (ss + 1) [c] hh). lia.
    + specialize (IH ser ss (c :: pend) hh). lia.
Qed.

(* M for a run *)
Definition run_bound (ser pend l : list N) : N := nlen ser + 12 * nlen pend + 13 * nlen l.

Theorem path_cost_upper ctx st ps l ser ss pend hh : usv_list l -> usv_list pend ->
  snd (parse_path_loop_c dbg ctx st ps l ser ss pend hh)
  <= 18 * nlen l + 12 * nlen pend + 5 + fix_bound st (run_bound ser pend l)
     + dd_count ctx st ps l ser ss pend hh * (2 * run_bound ser pend l + 3).
Proof. intros Hl Hp. apply path_cost_upper_gen; [exact Hl | exact Hp | unfold run_bound; lia]. Qed.

(* linear when the run resolves no double-dot segment: at most 44 (|ser| + |pending| + |input|) + 8 *)
Theorem path_cost_linear_no_dd ctx st ps l ser ss pend hh : usv_list l -> usv_list pend ->
  dd_count ctx st ps l ser ss pend hh = 0 ->
  snd (parse_path_loop_c dbg ctx st ps l ser ss pend hh) <= 44 * (nlen ser + nlen pend + nlen l) + 8.
Proof.
  intros Hl Hp Hd. pose proof (path_cost_upper ctx st ps l ser ss pend hh Hl Hp) as H. rewrite Hd in H.
  unfold fix_bound, run_bound in H. destruct (st_is_file st); lia.
Qed.

(* always at most quadratic: (|input| + 2) (2 M + 3) + 18 |input| + 12 |pending| + 5 *)
Theorem path_cost_quadratic ctx st ps l ser ss pend hh : usv_list l -> usv_list pend ->
  snd (parse_path_loop_c dbg ctx st ps l ser ss pend hh)
  <= 18 * nlen l + 12 * nlen pend + 5 + (nlen l + 2) * (2 * run_bound ser pend l + 3).
Proof.
  intros Hl Hp. pose proof (path_cost_upper ctx st ps l ser ss pend hh Hl Hp) as H.
  pose proof (dd_count_le ctx st ps l ser ss pend hh) as Hd.
  assert (dd_count ctx st ps l ser ss pend hh * (2 * run_bound ser pend l + 3) <= (nlen l + 1) * (2 * run_bound ser pend l + 3))
    by (apply N.mul_le_mono_r; exact Hd).
  unfold fix_bound in H. destruct (st_is_file st); nia.
Qed.
End PathUp.
