(* Proofs/C18_BodyRef.v - what decode_without_base64 writes when the sink never fails: the body up to
   the first '#', ASCII tab / newlines dropped, "%XY" with two hex digits contiguous in the text
   replaced by the byte; the fragment is what follows the '#'.  (Bonus to C18: this pins down the
   "fault-free output" the sink clause speaks about.) *)
From RU Require Import Base.Prelude Gen.Tables Model.Base64 Proofs.C18_Table Proofs.C18_Machine Proofs.C18_Body.

Fixpoint body_ref (bytes : list N) : list N * option (list N) :=
  match bytes with
  | [] => ([], None)
  | b :: r =>
      if b =? 35 then ([], Some r)
      else if (b =? 9) || (b =? 10) || (b =? 13) then body_ref r
      else
        let keep := let (o, f) := body_ref r in (b :: o, f) in
        if b =? 37 then
          match r with
          | h :: l :: r' =>
              match hex_val h, hex_val l with
              | Some hv, Some lv => let (o, f) := body_ref r' in (hv * 16 + lv :: o, f)
              | _, _ => keep
              end
          | _ => keep
          end
        else keep
  end.

(* relative form of the loop: pending = bytes[slice_start..i], or `skip` = slice_start - i bytes still
   to be stepped over (the two hex digits of an escape just decoded) *)
Fixpoint rel_loop (pending : list N) (skip : nat) (rest : list N) : list (list N) * option (option (list N)) :=
  match rest with
  | [] => ([pending], Some None)
  | byte :: rest' =>
      if memb byte T_BODY_SPECIAL then
        let pre := match pending with [] => [] | _ => [pending] end in
        if byte =? 37 then
          let l := match rest' with _ :: b :: _ => to_digit16 b | _ => None end in
          let h := match rest' with b :: _ => to_digit16 b | _ => None end in
          match h, l with
          | Some hv, Some lv => let (cs, fin) := rel_loop [] 2 rest' in (pre ++ [hv * 16 + lv] :: cs, fin)
          | _, _ => let (cs, fin) := rel_loop [byte] 0 rest' in (pre ++ cs, fin)
          end
        else if byte =? 35 then (pre, Some (Some rest'))
        else let (cs, fin) := rel_loop [] 0 rest' in (pre ++ cs, fin)
      else match skip with
           | O => rel_loop (pending ++ [byte]) 0 rest'
           | S k => rel_loop [] k rest'
           end
  end.

Definition hex_prefix (k : nat) (rest : list N) : Prop :=
  (k <= length rest)%nat /\ Forall (fun b => to_digit16 b <> None) (firstn k rest).

Lemma hex_not_special b : to_digit16 b <> None -> memb b T_BODY_SPECIAL = false.
Proof.
  intros H. rewrite body_special_list. unfold to_digit16, hex_val, is_digit in H.
  destruct ((48 <=? b) && (b <=? 57)) eqn:E1; [lia|].
  destruct ((65 <=? b) && (b <=? 70)) eqn:E2; [lia|].
  destruct ((97 <=? b) && (b <=? 102)) eqn:E3; [lia|]. congruence.
Qed.

Lemma slice_pre pre rest ss :
  (ss <= length pre)%nat -> slice (pre ++ rest) ss (length pre) = skipn ss pre.
Proof.
  intros H. unfold slice. rewrite skipn_app. replace (ss - length pre)%nat with 0%nat by lia.
  cbn [skipn]. rewrite firstn_app.
  assert (HL : length (skipn ss pre) = (length pre - ss)%nat) by apply skipn_length.
  rewrite HL, Nat.sub_diag. cbn [firstn]. rewrite app_nil_r.
  apply firstn_all2. rewrite HL. lia.
Qed.

Lemma skipn_pre_nil (pre : list N) ss : (ss <= length pre)%nat -> (skipn ss pre = [] <-> ss = length pre).
Proof.
  intros H. split; intros H1.
  - assert (HL : length (skipn ss pre) = (length pre - ss)%nat) by apply skipn_length.
    rewrite H1 in HL. cbn [length] in HL. lia.
  - subst ss. apply skipn_all.
Qed.

(* the loop with absolute indices is the relative loop *)
Lemma pdwo_loop_rel : forall rest pre ss pending skip,
  ((ss <= length pre)%nat /\ pending = skipn ss pre /\ skip = 0%nat)
  \/ (ss = (length pre + skip)%nat /\ pending = [] /\ (0 < skip)%nat /\ hex_prefix skip rest) ->
  pdwo_loop (pre ++ rest) (length pre) ss rest = rel_loop pending skip rest.
Proof.
  induction rest as [|byte rest' IH]; intros pre ss pending skip Hinv.
  - cbn [pdwo_loop rel_loop]. destruct Hinv as [[Hss [Hp Hk]]|[_ [_ [Hk [Hl _]]]]]; [|cbn [length] in Hl; lia].
    rewrite app_nil_r. destruct (length pre <? ss)%nat eqn:Hlt; [apply Nat.ltb_lt in Hlt; lia|].
    subst pending. reflexivity.
  - cbn [pdwo_loop rel_loop].
    assert (Hpre1 : pre ++ byte :: rest' = (pre ++ [byte]) ++ rest') by (rewrite <- app_assoc; reflexivity).
    assert (Hlen1 : S (length pre) = length (pre ++ [byte])) by (rewrite app_length; cbn [length]; lia).
    destruct (memb byte T_BODY_SPECIAL) eqn:Hsp.
    + (* a special byte: only reachable with skip = 0 *)
      destruct Hinv as [[Hss [Hp Hk]]|[_ [_ [Hk [_ Hhex]]]]].
      2:{ destruct skip as [|k]; [lia|]. cbn [firstn] in Hhex. inversion Hhex as [|? ? Hb _]; subst.
          rewrite (hex_not_special byte Hb) in Hsp. discriminate. }
      subst skip.
      assert (Hflush : (if (ss <? length pre)%nat then [slice (pre ++ byte :: rest') ss (length pre)] else [])
                       = match pending with [] => [] | _ => [pending] end).
      { destruct (ss <? length pre)%nat eqn:Hlt.
        - apply Nat.ltb_lt in Hlt. rewrite slice_pre by lia. subst pending.
          destruct (skipn ss pre) eqn:Hs; [apply skipn_pre_nil in Hs; lia | reflexivity].
        - apply Nat.ltb_ge in Hlt. assert (ss = length pre) by lia. subst pending.
          rewrite (proj2 (skipn_pre_nil pre ss Hss)) by assumption. reflexivity. }
      rewrite Hflush.
      destruct (byte =? 37) eqn:H37.
      * destruct (match rest' with b :: _ => to_digit16 b | [] => None end) as [hv|] eqn:Hh;
          [destruct (match rest' with _ :: b :: _ => to_digit16 b | _ => None end) as [lv|] eqn:Hl|].
        -- rewrite Hpre1, Hlen1.
           rewrite (IH (pre ++ [byte]) (length pre + 3)%nat [] 2%nat).
           ++ reflexivity.
           ++ right. rewrite app_length. cbn [length]. split; [lia|]. split; [reflexivity|]. split; [lia|].
              destruct rest' as [|h [|l r'']]; try discriminate. unfold hex_prefix. cbn [length firstn].
              split; [lia|]. repeat constructor; congruence.
        -- rewrite Hpre1, Hlen1.
           rewrite (IH (pre ++ [byte]) (if (ss <? length pre)%nat then length pre else ss) [byte] 0%nat).
           ++ reflexivity.
           ++ left. rewrite app_length. cbn [length].
              assert (Hs : (if (ss <? length pre)%nat then length pre else ss) = length pre).
              { destruct (ss <? length pre)%nat eqn:Hlt; [reflexivity | apply Nat.ltb_ge in Hlt; lia]. }
              rewrite Hs. split; [lia|]. split; [|reflexivity].
              rewrite skipn_app, skipn_all, Nat.sub_diag. reflexivity.
        -- rewrite Hpre1, Hlen1.
           rewrite (IH (pre ++ [byte]) (if (ss <? length pre)%nat then length pre else ss) [byte] 0%nat).
           ++ reflexivity.
           ++ left. rewrite app_length. cbn [length].
              assert (Hs : (if (ss <? length pre)%nat then length pre else ss) = length pre).
              { destruct (ss <? length pre)%nat eqn:Hlt; [reflexivity | apply Nat.ltb_ge in Hlt; lia]. }
              rewrite Hs. split; [lia|]. split; [|reflexivity].
              rewrite skipn_app, skipn_all, Nat.sub_diag. reflexivity.
      * destruct (byte =? 35) eqn:H35.
        -- f_equal. f_equal. f_equal. rewrite skipn_app.
           rewrite skipn_all2 by lia. replace (length pre + 1 - length pre)%nat with 1%nat by lia. reflexivity.
        -- rewrite Hpre1, Hlen1. rewrite (IH (pre ++ [byte]) (length pre + 1)%nat [] 0%nat).
           ++ reflexivity.
           ++ left. rewrite app_length. cbn [length]. split; [lia|]. split; [|reflexivity].
              rewrite skipn_all2; [reflexivity | rewrite app_length; cbn [length]; lia].
    + (* ordinary byte *)
      rewrite Hpre1, Hlen1.
      destruct Hinv as [[Hss [Hp Hk]]|[Hss [Hp [Hk [Hl Hhex]]]]].
      * subst skip. apply IH. left. rewrite app_length. cbn [length]. split; [lia|]. split; [|reflexivity].
        subst pending. rewrite skipn_app. replace (ss - length pre)%nat with 0%nat by lia. reflexivity.
      * destruct skip as [|k]; [lia|]. apply IH.
        destruct k as [|k'].
        -- left. rewrite app_length. cbn [length]. split; [lia|]. split; [|reflexivity].
           subst pending. symmetry. apply skipn_all2. rewrite app_length. cbn [length]. lia.
        -- right. rewrite app_length. cbn [length]. split; [lia|]. split; [reflexivity|]. split; [lia|].
           unfold hex_prefix. cbn [length firstn] in *. split; [lia|]. inversion Hhex; assumption.
Qed.

Lemma pdwo_rel body : pdwo body = rel_loop [] 0 body.
Proof.
  unfold pdwo. apply (pdwo_loop_rel body [] 0%nat [] 0%nat). left. cbn. repeat split; lia.
Qed.

(* the relative loop writes pending, then what the reference prescribes for the rest *)
Lemma concat_pre (pending : list N) cs :
  concat ((match pending with [] => [] | _ => [pending] end) ++ cs) = pending ++ concat cs.
Proof. destruct pending; reflexivity. Qed.

Lemma rel_loop_is_ref : forall rest pending skip,
  (skip = 0%nat \/ (pending = [] /\ hex_prefix skip rest)) ->
  concat (fst (rel_loop pending skip rest)) = pending ++ fst (body_ref (skipn skip rest))
  /\ snd (rel_loop pending skip rest) = Some (snd (body_ref (skipn skip rest))).
Proof.
  induction rest as [|byte rest' IH]; intros pending skip Hinv.
  - cbn [rel_loop fst snd concat]. rewrite skipn_nil. cbn [body_ref fst snd]. rewrite !app_nil_r. split; reflexivity.
  - cbn [rel_loop].
    destruct (memb byte T_BODY_SPECIAL) eqn:Hsp.
    + assert (Hk : skip = 0%nat).
      { destruct Hinv as [Hk|[_ [_ Hhex]]]; [exact Hk|]. destruct skip as [|k]; [reflexivity|].
        cbn [firstn] in Hhex. inversion Hhex as [|? ? Hb _]; subst.
        rewrite (hex_not_special byte Hb) in Hsp. discriminate. }
      subst skip. cbn [skipn body_ref]. rewrite body_special_list in Hsp.
      destruct (byte =? 37) eqn:H37.
      * apply N.eqb_eq in H37. subst byte. change (37 =? 35) with false.
        change ((37 =? 9) || (37 =? 10) || (37 =? 13)) with false. cbv iota.
        unfold to_digit16.
        destruct rest' as [|h [|l r'']].
        -- destruct (IH [37] 0%nat (or_introl eq_refl)) as [I1 I2]. cbn [skipn] in *.
           destruct (rel_loop [37] 0 []) as [cs fin]. cbn [fst snd] in *. rewrite concat_pre, I1, I2.
           destruct (body_ref []) as [o f]. split; reflexivity.
        -- destruct (IH [37] 0%nat (or_introl eq_refl)) as [I1 I2]. cbn [skipn] in *.
           destruct (hex_val h); destruct (rel_loop [37] 0 [h]) as [cs fin]; cbn [fst snd] in *;
             rewrite concat_pre, I1, I2; destruct (body_ref [h]) as [o f]; split; reflexivity.
        -- destruct (hex_val h) as [hv|] eqn:Hh; [destruct (hex_val l) as [lv|] eqn:Hl|].
           ++ destruct (IH [] 2%nat) as [I1 I2].
              { right. split; [reflexivity|]. unfold hex_prefix. cbn [length firstn]. split; [lia|].
                unfold to_digit16. repeat constructor; congruence. }
              cbn [skipn] in *. destruct (rel_loop [] 2 (h :: l :: r'')) as [cs fin]. cbn [fst snd] in *.
              rewrite concat_pre. cbn [concat app]. rewrite I1, I2.
              destruct (body_ref r'') as [o f]. cbn [fst snd app]. split; reflexivity.
           ++ destruct (IH [37] 0%nat (or_introl eq_refl)) as [I1 I2]. cbn [skipn] in *.
              destruct (rel_loop [37] 0 (h :: l :: r'')) as [cs fin]. cbn [fst snd] in *.
              rewrite concat_pre, I1, I2. destruct (body_ref (h :: l :: r'')) as [o f]. split; reflexivity.
           ++ destruct (IH [37] 0%nat (or_introl eq_refl)) as [I1 I2]. cbn [skipn] in *.
              destruct (rel_loop [37] 0 (h :: l :: r'')) as [cs fin]. cbn [fst snd] in *.
              rewrite concat_pre, I1, I2. destruct (body_ref (h :: l :: r'')) as [o f]. split; reflexivity.
      * destruct (byte =? 35) eqn:H35.
        -- cbn [fst snd]. destruct pending; cbn [concat app]; rewrite ?app_nil_r; split; reflexivity.
        -- assert (Hws : (byte =? 9) || (byte =? 10) || (byte =? 13) = true) by lia. rewrite Hws.
           destruct (IH [] 0%nat (or_introl eq_refl)) as [I1 I2]. cbn [skipn] in *.
           destruct (rel_loop [] 0 rest') as [cs fin]. cbn [fst snd] in *.
           rewrite concat_pre, I1, I2. split; reflexivity.
    + destruct skip as [|k].
      * cbn [skipn body_ref]. rewrite body_special_list in Hsp.
        replace (byte =? 35) with false by lia. replace ((byte =? 9) || (byte =? 10) || (byte =? 13)) with false by lia.
        replace (byte =? 37) with false by lia.
        destruct (IH (pending ++ [byte]) 0%nat (or_introl eq_refl)) as [I1 I2]. cbn [skipn] in *.
        rewrite I1, I2. destruct (body_ref rest') as [o f]. cbn [fst snd]. rewrite <- app_assoc. split; reflexivity.
      * cbn [skipn]. destruct Hinv as [Hk|[Hp [Hl Hhex]]]; [discriminate|]. subst pending.
        apply IH. destruct k as [|k']; [left; reflexivity|]. right. split; [reflexivity|].
        unfold hex_prefix. cbn [length firstn] in *. split; [lia|]. inversion Hhex; assumption.
Qed.

Theorem dwo_output_is_ref body :
  concat (fst (pdwo body)) = fst (body_ref body) /\ snd (pdwo body) = Some (snd (body_ref body)).
Proof.
  rewrite pdwo_rel. destruct (rel_loop_is_ref body [] 0%nat (or_introl eq_refl)) as [H1 H2].
  cbn [skipn app] in *. split; assumption.
Qed.

(* against the never-failing recording sink *)
Theorem dwo_fault_free body :
  let (s, r) := decode_without_base64 kwrite (ksink_new None) body in
  concat (ks_out s) = fst (body_ref body) /\ r = BodyOk (snd (body_ref body)).
Proof.
  rewrite dwo_exec. unfold execb, ksink_new. rewrite attempt_kwrite_never.
  destruct (dwo_output_is_ref body) as [H1 H2]. cbn [ks_out app]. rewrite H1, H2. split; reflexivity.
Qed.

(* base64 bodies: the Infra decode of the percent-decoded body *)
From RU Require Import Spec.Infra Proofs.C18_Spec.

Theorem dwb_fault_free body :
  let (s, r) := decode_with_base64 kwrite (ksink_new None) body in
  match forgiving_base64_decode (fst (body_ref body)) with
  | Some v => concat (ks_out s) = v /\ r = BodyOk (snd (body_ref body))
  | None => exists e, r = BodyErr (InvalidBase64 e)
  end.
Proof.
  destruct (dwb_is_run kwrite (ksink_new None) body) as [f [Hf H]]. rewrite H. clear H.
  destruct (dwo_output_is_ref body) as [H1 H2]. rewrite H2 in Hf. inversion Hf; subst f. rewrite H1.
  set (input := fst (body_ref body)).
  rewrite run_exec. unfold exec, ksink_new. rewrite attempt_kwrite_never. cbn [app ks_out].
  pose proof (decode_to_vec_is_infra input) as HI. rewrite decode_to_vec_prun in HI.
  destruct (snd (prun input)) as [e|]; cbn [option_map b64_body_result]; rewrite <- HI.
  - exists e. reflexivity.
  - split; reflexivity.
Qed.
