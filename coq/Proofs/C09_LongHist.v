(* Proofs/C09_LongHist.v - the agreement of Proofs/C09_LongRun.v lifted to histories of mutators.

   Three mutators call Host::parse: Url::set_host, quirks::set_host, quirks::set_hostname (the last two through
   Parser::parse_host).  Each returns the URL unchanged when the host is refused.  So a step with the capped oracle
   is the step with the oracle itself, or leaves the URL as it was (at the host whose oracle answer is in the class):
   the histories of the capped model are the histories of the model on which no oracle answer is in the class, and
   every URL reachable with the capped oracle is reachable with the oracle itself.

   Consequences under IdnaOK2 (no clause about the class): C02's re-parse fixpoint for the histories ReachC of
   Proofs/C02_ReachPartial.v run with the capped oracle - stated for the parser linked with the oracle ITSELF. *)
From RU Require Import Base.Prelude Base.Utf8 Base.Utf8Facts Model.AsciiSet Gen.Tables Model.PercentEncoding
  Model.HostT Model.Host Model.UrlRecord Model.Parser Model.Setters Model.WF
  Proofs.C09_Host Proofs.C09_Inst Proofs.C09_Long Proofs.C09_LongRun
  Proofs.C02_Reach Proofs.C02_AuthParts Proofs.C02_AuthMain Proofs.C02_Hist Proofs.C02_HistInst Proofs.C02_JoinTail
  Proofs.C02_ReachPartial Proofs.C05_History Proofs.Inst_Host.

(* ================= A. one step ================= *)
Section StepLift.
Variable dbg : bool.
Variable hp1 hp2 hpo : list N -> result host.
Variable hd : host -> list N.
Variable E : parse_error.
Hypothesis HP : forall s, hp1 s = hp2 s \/ hp1 s = Err E.

Lemma set_host_or u h :
  set_host dbg hp1 hpo hd u h = set_host dbg hp2 hpo hd u h \/ set_host dbg hp1 hpo hd u h = Some (u, SErr E).
Proof.
  unfold set_host. destruct (cannot_be_a_base u) as [[|]|]; cbn [bindo]; try (left; reflexivity).
  destruct (u_scheme_type u) as [st|]; cbn [bindo]; [|left; reflexivity].
  destruct h as [hs|]; [|left; reflexivity].
  destruct ((match hs with [] => true | _ :: _ => false end) && st_is_special st && negb (st_is_file st)); [left; reflexivity|].
  match goal with |- context [match ?s with Some hsub => _ | None => Some (u, SErr InvalidDomainCharacter) end] =>
    destruct s as [hsub|] end; [|left; reflexivity].
  destruct (st_is_special st); [|left; reflexivity].
  destruct (HP hsub) as [->| ->]; [left | right]; reflexivity.
Qed.

Lemma pres_ok_or {A} (a b : pres A) : pres_or E a b -> pres_ok a = pres_ok b \/ pres_ok a = Some None.
Proof. intros [->| ->]; [left | right]; reflexivity. Qed.

Lemma q_set_host_or u v :
  q_set_host dbg hp1 hpo hd u v = q_set_host dbg hp2 hpo hd u v \/ q_set_host dbg hp1 hpo hd u v = Some (u, SErrUnit).
Proof.
  unfold q_set_host. destruct (cannot_be_a_base u) as [[|]|]; cbn [bindo]; try (left; reflexivity).
  destruct (scheme u) as [sc|]; cbn [bindo]; [|left; reflexivity].
  destruct (scheme_type_eqb (scheme_type_of sc) STFile && match v with [] => true | _ :: _ => false end); [left; reflexivity|].
  destruct (pres_ok_or _ _ (parse_host_or hp1 hp2 hpo E HP (scheme_type_of sc) (input_new_no_trim v))) as [->| ->];
    [left | right]; reflexivity.
Qed.

Lemma q_set_hostname_or u v :
  q_set_hostname dbg hp1 hpo hd u v = q_set_hostname dbg hp2 hpo hd u v
  \/ q_set_hostname dbg hp1 hpo hd u v = Some (u, SErrUnit).
Proof.
  unfold q_set_hostname. destruct (cannot_be_a_base u) as [[|]|]; cbn [bindo]; try (left; reflexivity).
  destruct (scheme u) as [sc|]; cbn [bindo]; [|left; reflexivity].
  destruct (scheme_type_eqb (scheme_type_of sc) STFile && match v with [] => true | _ :: _ => false end); [left; reflexivity|].
  destruct (pres_ok_or _ _ (parse_host_or hp1 hp2 hpo E HP (scheme_type_of sc) (input_new_no_trim v))) as [->| ->];
    [left | right]; reflexivity.
Qed.

(* the operations of C05_History.v (status dropped) *)
Theorem apply_op5_or u o :
  C05_History.apply_op dbg hp1 hpo hd u o = C05_History.apply_op dbg hp2 hpo hd u o
  \/ C05_History.apply_op dbg hp1 hpo hd u o = Some u.
Proof.
  destruct o; cbn [C05_History.apply_op]; try (left; reflexivity).
  - destruct (set_host_or u h) as [->| ->]; [left | right]; reflexivity.
  - destruct (q_set_host_or u v) as [->| ->]; [left | right]; reflexivity.
  - destruct (q_set_hostname_or u v) as [->| ->]; [left | right]; reflexivity.
Qed.

(* the operations of C02_Reach.v *)
Theorem apply_op2_or u o :
  C02_Reach.apply_op dbg hp1 hpo hd u o = C02_Reach.apply_op dbg hp2 hpo hd u o
  \/ C02_Reach.apply_op dbg hp1 hpo hd u o = Some u.
Proof.
  destruct o; cbn [C02_Reach.apply_op]; try (left; reflexivity).
  - destruct (set_host_or u h) as [->| ->]; [left | right]; reflexivity.
  - destruct (q_set_host_or u s) as [->| ->]; [left | right]; reflexivity.
  - destruct (q_set_hostname_or u s) as [->| ->]; [left | right]; reflexivity.
Qed.
End StepLift.

(* ================= B. histories with the capped oracle ================= *)
Section Hist.
Variable dbg : bool.
Variable idna : list N -> option (list N).

Notation hp := (host_parse idna).
Notation hpc := (host_parse (cap idna)).
Notation hpo := host_parse_opaque.
Notation hd := host_display.

(* a step with the capped oracle is the step with the oracle itself, or leaves the URL unchanged *)
Theorem apply_op5_cap u o :
  C05_History.apply_op dbg hpc hpo hd u o = C05_History.apply_op dbg hp hpo hd u o
  \/ C05_History.apply_op dbg hpc hpo hd u o = Some u.
Proof. exact (apply_op5_or dbg hpc hp hpo hd IdnaError (cap_dichotomy idna) u o). Qed.

Theorem apply_op2_cap u o :
  C02_Reach.apply_op dbg hpc hpo hd u o = C02_Reach.apply_op dbg hp hpo hd u o
  \/ C02_Reach.apply_op dbg hpc hpo hd u o = Some u.
Proof. exact (apply_op2_or dbg hpc hp hpo hd IdnaError (cap_dichotomy idna) u o). Qed.

(* the per-step premise "no host of the step is in the class" *)
Definition step_clean (u : url) (o : C05_History.op) : Prop :=
  C05_History.apply_op dbg hpc hpo hd u o = C05_History.apply_op dbg hp hpo hd u o.

(* a step that does not use Host::parse is clean *)
Lemma step_clean_other u o :
  match o with C05_History.OSetHost _ | C05_History.OQHost _ | C05_History.OQHostname _ => False | _ => True end ->
  step_clean u o.
Proof. unfold step_clean. destruct o; intros H; try destruct H; reflexivity. Qed.

(* every URL reachable (parse, join, the 19 mutators) with the capped oracle is reachable with the oracle itself:
   the histories of the capped model ARE the clean histories of the model *)
Theorem ReachableM_cap u : ReachableM dbg (cap idna) u -> ReachableM dbg idna u.
Proof.
  induction 1 as [ovr input u Hp | ovr b input u Hb IH Hp | u o u' Hu IH Hv Ho].
  - exact (RM_parse dbg idna ovr input u (proj1 (parse_url_cap_ok dbg idna ovr None input u Hp))).
  - exact (RM_join dbg idna ovr b input u IH (proj1 (parse_url_cap_ok dbg idna ovr (Some b) input u Hp))).
  - destruct (apply_op5_cap u o) as [Ex|Ex]; rewrite Ex in Ho.
    + exact (RM_step dbg idna u o u' IH Hv Ho).
    + inversion Ho; subst. exact IH.
Qed.

(* the clean histories, explicitly: every parse / join is a clean run and every step a clean step *)
Inductive ReachableClean : url -> Prop :=
| RK_parse ovr input u : model_parse dbg idna ovr None input = POk u -> run_clean dbg idna ovr None input -> ReachableClean u
| RK_join ovr b input u : ReachableClean b -> model_parse dbg idna ovr (Some b) input = POk u ->
    run_clean dbg idna ovr (Some b) input -> ReachableClean u
| RK_step u o u' : ReachableClean u -> op_rust o -> C05_History.apply_op dbg hp hpo hd u o = Some u' -> step_clean u o ->
    ReachableClean u'.

Theorem ReachableClean_cap u : ReachableClean u -> ReachableM dbg (cap idna) u.
Proof.
  induction 1 as [ovr input u Hp C | ovr b input u Hb IH Hp C | u o u' Hu IH Hv Ho C].
  - exact (RM_parse dbg (cap idna) ovr input u (run_clean_ok dbg idna ovr None input u Hp C)).
  - exact (RM_join dbg (cap idna) ovr b input u IH (run_clean_ok dbg idna ovr (Some b) input u Hp C)).
  - unfold step_clean in C. rewrite <- C in Ho. exact (RM_step dbg (cap idna) u o u' IH Hv Ho).
Qed.

(* ================= C. C02 for the histories ReachC ================= *)
Hypothesis OK : IdnaOK2 idna.
Let OKc : IdnaOK (cap idna) := IdnaOK2_cap idna OK.

(* ReachC (C02_ReachPartial.v): parse without base on a non-file scheme, then set_fragment / set_query / set_port with
   arbitrary arguments and joins with an empty, fragment-only or query-led reference.  The steps do not call
   Host::parse; a ReachC history of the capped model is a ReachC history of the model whose first parse is clean *)
Theorem ReachC_cap u : ReachC dbg hpc hpo hd u -> ReachC dbg hp hpo hd u.
Proof.
  induction 1 as [ovr input u Hu Hn Hov Hp | ovr b input u Hr IH Hu Ht Hov Hp | u o u' Hr IH Ht Ha Ho Hb].
  - exact (RC_parse dbg hp hpo hd ovr input u Hu Hn Hov (proj1 (parse_url_cap_ok dbg idna ovr None input u Hp))).
  - exact (RC_join dbg hp hpo hd ovr b input u IH Hu Ht Hov (proj1 (parse_url_cap_ok dbg idna ovr (Some b) input u Hp))).
  - refine (RC_step dbg hp hpo hd u o u' IH Ht Ha _ Hb). destruct o; try discriminate Ht; exact Ho.
Qed.

(* C02 for these histories, with the oracle itself: the record is a fixpoint of serialize-then-parse (the re-parse
   being a clean run), well formed, ASCII *)
Theorem reach_partial_model2 u : ReachC dbg hpc hpo hd u ->
  ReachC dbg hp hpo hd u
  /\ Fixpoint_of_reparse dbg hp hpo hd u /\ run_clean dbg idna None None (utf8_lossy (ser u))
  /\ wf_b u = true /\ ascii (ser u).
Proof.
  intros H. split; [exact (ReachC_cap u H)|].
  destruct (reach_partial dbg hpc hpo hd (HostOK2_model (cap idna) OKc) u H) as (F & W & A).
  unfold Fixpoint_of_reparse, reparse in F |- *.
  destruct (parse_url_cap_ok dbg idna None None _ u F) as [F' C]. repeat split; assumption.
Qed.
End Hist.
