(* Proofs/C03_InvSPSteps.v - "a special scheme implies that the byte at path_start is '/'", part B (the mutators) and the
   histories.  For a special URL (which has an authority: AS) every step outside excl03 either keeps path() (the setters of
   fragment, query, port, host, credentials, scheme and their quirks forms: Proofs/C05_PathSpSteps.v) or writes a new path
   through the path states of a special scheme: Url::set_path / quirks set_pathname through parse_path_start, which pushes
   '/' (pps_special_nonempty: any context), path_segments_mut sessions through truncations behind the first '/' and
   parse_path entered behind it (session_sl).  The scheme class only goes from special to special (C03_ReachJoin.spb_back).
   Hence SP is an invariant of reach03j and of C02's quantifier Reachable3 (inv03s = inv03 /\ SP), and
   C04_SetPath.psm_assert_fails is false on every such record. *)
From RU Require Import Base.Prelude Base.Utf8 Model.AsciiSet Gen.Tables Model.PercentEncoding
  Model.HostT Model.UrlRecord Model.Parser Model.Setters Model.WF Model.FilePath
  Proofs.ListN Proofs.C02_Reach Proofs.C02_Reach3 Proofs.C02_SetHostCanon
  Proofs.C03_WF Proofs.C06_List Proofs.C06_WFI Proofs.C06_Tail Proofs.C06_Steps Proofs.C06_Suffix Proofs.C06_Front Proofs.C06_Atomic Proofs.C06_FragQuery
  Proofs.C06_Port Proofs.C06_Cred Proofs.C06_Scheme Proofs.C06_HostNone Proofs.C06_Host Proofs.C06_PathParser Proofs.C06_Segments Proofs.C06_Path Proofs.C06_PathNoAuth Proofs.C06_Main
  Proofs.C06_PathMore Proofs.C06_Quirks Proofs.C05_CompSteps Proofs.C05_CompSteps2 Proofs.C05_CompSteps3
  Proofs.C04_PathTotal Proofs.C04_ParseTotal Proofs.C04_PathFile Proofs.C04_PathCtx Proofs.C04_ParseFile Proofs.C04_SetPath
  Proofs.C03_ReachParts Proofs.C03_Reach Proofs.C03_ReachAll Proofs.C03_Reachability Proofs.C03_PortInv
  Proofs.C03_AuthEnd Proofs.C05_BaseOk Proofs.C05_AuthOfs Proofs.C05_AuthParse Proofs.C05_HostText
  Proofs.C05_PathSp Proofs.C05_PathSpParse Proofs.C05_PathSpSteps
  Proofs.C03_ReachAscii Proofs.C03_ParseFront Proofs.C03_PortParse Proofs.C03_ReachKnown Proofs.C03_ReachJoin Proofs.C03_ReachFull
  Proofs.C20_Path Proofs.C20_RT Proofs.C03_InvSP.
From RU Require Proofs.C05_Parser Proofs.C05_Alphabet.
Open Scope N_scope.
Open Scope list_scope.

(* ---------- path_sl and the getter ---------- *)
Lemma path_sl_getter u : wf_b u = true -> (path_sl u <-> exists r, path u = Some (47 :: r)).
Proof.
  intros W. rewrite (path_eval u W). unfold piece. change (pidx u AfterPath) with (path_end u). cbn [pidx].
  destruct (wf_ps_le_path_end u W) as [B5 B6]. split.
  - intros H. pose proof (path_sl_nonempty u W H) as L. unfold path_sl in H.
    destruct (nfirstn (path_end u - path_start u) (nskipn (path_start u) (ser u))) as [|c r] eqn:E.
    + exfalso. apply (f_equal nlen) in E. rewrite nlen_nfirstn in E by (rewrite nlen_nskipn; lia). rewrite nlen_nil in E. lia.
    + exists r. f_equal. f_equal.
      assert (nnth (c :: r) 0 = Some c) as E0 by reflexivity.
      rewrite <- E in E0. rewrite nnth_nfirstn in E0 by lia.
      pose proof (nnth_nskipn (ser u) (path_start u) 0) as Hn. rewrite N.add_0_r in Hn. rewrite Hn in E0. congruence.
  - intros (r & E). inversion E as [E1]. unfold path_sl.
    assert (path_start u < path_end u) as L.
    { destruct (N.le_gt_cases (path_end u) (path_start u)) as [Hle|Hlt]; [|exact Hlt]. exfalso.
      replace (path_end u - path_start u) with 0 in E1 by lia. discriminate E1. }
    assert (nnth (47 :: r) 0 = Some 47) as E0 by reflexivity.
    rewrite <- E1 in E0. rewrite nnth_nfirstn in E0 by lia.
    pose proof (nnth_nskipn (ser u) (path_start u) 0) as Hn. rewrite N.add_0_r in Hn. rewrite Hn in E0. exact E0.
Qed.

Lemma path_keep_sl u u' : wf_b u = true -> wf_b u' = true -> path u' = path u -> path_sl u -> path_sl u'.
Proof.
  intros W W' E H. apply (path_sl_getter u' W'). rewrite E. apply (path_sl_getter u W). exact H.
Qed.

Lemma with_path_sl u r : path_start u <= nlen (ser u) -> path_sl (with_path u (47 :: r)).
Proof.
  intros L. unfold path_sl, with_path. cbn [ser path_start].
  rewrite nnth_app_ge by (rewrite nlen_nfirstn by exact L; lia). rewrite nlen_nfirstn by exact L. rewrite N.sub_diag. reflexivity.
Qed.

(* ---------- the path-start state for a special scheme, any context: the path is not empty ---------- *)
Lemma fixup_len st ps s2 : ps + 1 <= nlen s2 -> ps + 1 <= nlen (file_path_fixup st ps s2).
Proof.
  intros L. unfold file_path_fixup. destruct (st_is_file st); [|exact L].
  rewrite !nlen_app, nlen_nfirstn by lia. change (nlen [47]) with 1. lia.
Qed.

Lemma pps_special_nonempty dbg ctx st hh ser l s' hh' rem : st_is_special st = true ->
  (st_is_file st = false -> ends_with_byte 47 ser = false) ->
  parse_path_start dbg ctx st hh ser l = POk (s', hh', rem) -> nlen ser + 1 <= nlen s'.
Proof.
  intros Hsp He. unfold parse_path_start. destruct (inp_split_first l) as [mc rm]. rewrite Hsp.
  assert (forall X, parse_path dbg ctx st hh (nlen ser) (ser ++ [47]) X = POk (s', hh', rem) -> nlen ser + 1 <= nlen s') as Hpush.
  { intros X HX.
    destruct (parse_path_ctx_ok dbg ctx st (nlen ser) (nlen ser + 1) ltac:(lia) hh (ser ++ [47]) X
                (seg_inv_snoc (nlen ser) (nlen ser + 1) ser ltac:(lia) ltac:(lia))) as (s2 & h2 & r2 & E & A & _).
    rewrite E in HX. inversion HX; subst. apply fixup_len.
    apply (pre_len _ _ _ A). rewrite nlen_app. change (nlen [47]) with 1. lia. }
  destruct (ends_with_byte 47 ser) eqn:Ee; cbn [negb].
  - destruct (st_is_file st) eqn:Ef; [|pose proof (He eq_refl) as X; congruence].
    intros HX. apply ends_with_byte_nnth in Ee. destruct Ee as [E1 E2].
    assert (seg_inv (nlen ser) (nlen ser) ser (nlen ser)) as I0 by (unfold seg_inv; repeat split; try lia; exact E2).
    destruct (parse_path_ctx_ok dbg ctx st (nlen ser) (nlen ser) ltac:(lia) hh ser l I0) as (s2 & h2 & r2 & E & A & _).
    rewrite E in HX. inversion HX; subst. pose proof (pre_len _ _ _ A (N.le_refl _)) as L2.
    unfold file_path_fixup. rewrite Ef. rewrite !nlen_app, nlen_nfirstn by exact L2. change (nlen [47]) with 1. lia.
  - destruct mc as [c|]; [destruct (is_slash_or_bslash c)|]; apply Hpush.
Qed.

(* ================= path_segments_mut sessions on a URL whose path starts with '/' ================= *)
Section SessSL.
Variable dbg : bool.
Variables (ps : N) (s0 : list N).

Definition JS (x : list N) : Prop := nfirstn ps x = s0 /\ nnth x ps = Some 47.

Lemma js_len x : JS x -> ps + 1 <= nlen x.
Proof using. intros [_ H]. pose proof (nnth_lt _ _ _ H). lia. Qed.

Lemma js_app x y : JS x -> JS (x ++ y).
Proof using.
  intros I. pose proof (js_len x I) as L. destruct I as [I1 I2]. split.
  - rewrite nfirstn_app_le by lia. exact I1.
  - rewrite nnth_app_lt by lia. exact I2.
Qed.

Lemma js_trunc x n : JS x -> ps + 1 <= n -> JS (nfirstn n x).
Proof using.
  intros [I1 I2] L. split.
  - rewrite nfirstn_nfirstn by lia. exact I1.
  - rewrite nnth_nfirstn by lia. exact I2.
Qed.

Lemma js_extend_loop st segs : forall x s', psm_extend_loop dbg st ps x segs = Some s' -> JS x -> JS s'.
Proof using.
  induction segs as [|seg rest IH]; intros x s' H I; cbn [psm_extend_loop] in H.
  - inversion H; subst. exact I.
  - destruct (psm_skips seg); [eapply IH; eassumption|].
    pose proof (js_len x I) as Lx.
    set (s1 := if (ps + 1 <? nlen x) || (nlen x =? ps) then x ++ [47] else x) in *.
    assert (JS s1 /\ seg_inv ps (ps + 1) s1 (nlen s1)) as [I1 A4].
    { subst s1. destruct ((ps + 1 <? nlen x) || (nlen x =? ps)) eqn:Ec.
      - split; [apply js_app; exact I | apply seg_inv_snoc; lia].
      - assert (nlen x = ps + 1) as L by lia. split; [exact I|].
        unfold seg_inv. rewrite L. replace (ps + 1 - 1) with ps by lia. repeat split; try lia. exact (proj2 I). }
    destruct (parse_path_ctx_ok dbg CPathSegmentSetter st ps (ps + 1) ltac:(lia) true s1 seg A4) as (s2 & hh' & rem & E & Ha & _).
    rewrite E in H. cbn [unpres bindo] in H. eapply IH; [exact H|].
    destruct (fixup_keeps st ps s1 s2 Ha (js_len s1 I1) (proj2 I1)) as (F1 & F2 & F3).
    split; [|exact F3]. unfold agree_pre in F1. rewrite F1. exact (proj1 I1).
Qed.
End SessSL.

Lemma session_sl dbg u ops u' : wf_b u = true ->
  byte_eqb (ser u) (scheme_end u + 1) 47 = true -> path_sl u ->
  path_segments_session dbg u ops = Some (u', SOk) ->
  exists r, u' = with_path u (47 :: r).
Proof.
  intros W Hsl Hnb H. pose proof (path_sl_nonempty u W Hnb) as Lne. unfold path_sl in Hnb.
  destruct (wf_ps_le_path_end u W) as [B5 B6]. pose proof (wf_se_lt_ps u W) as B0.
  set (pe := path_end u) in *. set (ps := path_start u) in *.
  set (s0 := nfirstn ps (ser u)).
  assert (nlen s0 = ps) as Ls0 by (apply nlen_nfirstn; lia).
  set (x0 := nfirstn pe (ser u)).
  assert (nlen x0 = pe) as Lx0 by (apply nlen_nfirstn; exact B6).
  assert (JS ps s0 x0) as I0.
  { split.
    - unfold x0, s0. apply nfirstn_nfirstn. exact B5.
    - unfold x0. rewrite nnth_nfirstn by lia. exact Hnb. }
  (* the scheme type read from a serialization that keeps the front *)
  assert (forall x, JS ps s0 x -> u_scheme_type (set_ser u x) = Some (scheme_type_of (b_scheme u))) as Hst.
  { intros x Ix. pose proof (js_len ps s0 x Ix) as Lx. rewrite scheme_type_set_ser by lia.
    destruct Ix as [J1 _]. unfold b_scheme. f_equal. f_equal.
    rewrite <- (nfirstn_nfirstn (scheme_end u) ps x) by lia. rewrite J1. unfold s0. apply nfirstn_nfirstn. lia. }
  unfold path_segments_session, path_segments_mut in H.
  rewrite (cannot_be_a_base_eval u W) in H. cbn [bindo] in H.
  rewrite Hsl in H. cbn [negb] in H.
  unfold psm_new in H. rewrite (take_after_path_eval u W) in H. cbn [bindo] in H. fold pe x0 in H.
  destruct (u_scheme_type (set_ser u x0)) as [st|] eqn:Est; cbn [bindo] in H; [|discriminate].
  match type of H with bindo (bindo (bindo ?c _) _) _ = _ => destruct c as [[]|]; cbn [bindo] in H; [|discriminate] end.
  cbn [ser set_ser path_start] in H. fold ps in H. rewrite Lx0 in H.
  set (p0 := mkPsm (set_ser u x0) (ps + 1) (nskipn pe (ser u)) pe) in H.
  destruct (psm_run dbg p0 ops) as [p1|] eqn:Erun; cbn [bindo] in H; [|discriminate].
  assert (forall ops p q, psm_run dbg p ops = Some q ->
            psm_url p = set_ser u (ser (psm_url p)) -> after_first_slash p = ps + 1 ->
            psm_after_path p = nskipn pe (ser u) -> psm_old_pos p = pe -> JS ps s0 (ser (psm_url p)) ->
            psm_url q = set_ser u (ser (psm_url q)) /\ psm_after_path q = nskipn pe (ser u) /\ psm_old_pos q = pe
            /\ JS ps s0 (ser (psm_url q))) as Hrun.
  { clear - Ls0 Hst. intros ops0. induction ops0 as [|o rest IH]; intros p q Hr E1 E2 E3 E4 I.
    - cbn in Hr. inversion Hr; subst. tauto.
    - cbn [psm_run] in Hr. destruct (psm_apply dbg p o) as [p'|] eqn:Eo; cbn [bindo] in Hr; [|discriminate].
      assert (psm_url p' = set_ser u (ser (psm_url p')) /\ after_first_slash p' = ps + 1
              /\ psm_after_path p' = nskipn pe (ser u) /\ psm_old_pos p' = pe /\ JS ps s0 (ser (psm_url p'))) as (F1 & F2 & F3 & F4 & F5).
      { assert (forall x, JS ps s0 x ->
                  let r := psm_with p x in
                  psm_url r = set_ser u (ser (psm_url r)) /\ after_first_slash r = ps + 1
                  /\ psm_after_path r = nskipn pe (ser u) /\ psm_old_pos r = pe /\ JS ps s0 (ser (psm_url r))) as Hw.
        { intros x Ix. unfold psm_with. cbn [psm_url after_first_slash psm_after_path psm_old_pos ser set_ser].
          splits; try assumption. rewrite E1. reflexivity. }
        assert (forall segs s', psm_extend dbg p segs = Some s' ->
                  psm_url s' = set_ser u (ser (psm_url s')) /\ after_first_slash s' = ps + 1
                  /\ psm_after_path s' = nskipn pe (ser u) /\ psm_old_pos s' = pe /\ JS ps s0 (ser (psm_url s'))) as Hext.
        { intros segs s' Es. unfold psm_extend in Es. rewrite E1 in Es. rewrite (Hst _ I) in Es. cbn [bindo] in Es.
          cbn [path_start set_ser ser] in Es. fold ps in Es.
          destruct (psm_extend_loop dbg (scheme_type_of (b_scheme u)) ps (ser (psm_url p)) segs) as [s1|] eqn:El;
            cbn [bindo] in Es; [|discriminate].
          inversion Es; subst s'. apply Hw.
          exact (js_extend_loop dbg ps s0 _ _ _ _ El I). }
        destruct o; cbn [psm_apply] in Eo.
        - inversion Eo; subst p'. unfold psm_clear. rewrite E2. apply Hw. unfold truncate.
          apply (js_trunc ps s0); [exact I | lia].
        - inversion Eo; subst p'. unfold psm_pop_if_empty. rewrite E2.
          destruct (nlen (ser (psm_url p)) <=? ps + 1) eqn:El; [tauto|].
          destruct (ends_with_byte 47 (nskipn (ps + 1) (ser (psm_url p)))); [|tauto].
          apply Hw. apply (js_trunc ps s0); [exact I | lia].
        - inversion Eo; subst p'. unfold psm_pop. rewrite E2.
          destruct (nlen (ser (psm_url p)) <=? ps + 1) eqn:El; [tauto|].
          apply Hw. unfold truncate. apply (js_trunc ps s0); [exact I | lia].
        - unfold psm_push in Eo. exact (Hext _ _ Eo).
        - exact (Hext _ _ Eo). }
      eapply IH; eassumption. }
  destruct (Hrun ops p0 p1 Erun eq_refl eq_refl eq_refl eq_refl I0) as (R1 & R3 & R4 & (I1 & I2)).
  destruct (psm_close dbg p1) as [uf|] eqn:Ecl; cbn [bindo] in H; [|discriminate].
  inversion H; subst uf. clear H.
  unfold psm_close, restore_after_path in Ecl. rewrite R3, R4 in Ecl. rewrite R1 in Ecl.
  cbn [ser set_ser query_start fragment_start] in Ecl.
  set (x1 := ser (psm_url p1)) in *.
  assert (match query_start u with Some i => pe <= i | None => True end) as Gq.
  { unfold pe, path_end. destruct (query_start u); [lia | exact I]. }
  assert (match fragment_start u with Some i => pe <= i | None => True end) as Gf.
  { pose proof (wf_qf_facts u W) as QF. pose proof (qf_qf QF) as Q3. pose proof (qf_f QF) as Q2. unfold pe, path_end.
    destruct (query_start u), (fragment_start u); try exact I; lia. }
  rewrite !adjust_opt_ok in Ecl by assumption. cbn [bindo] in Ecl.
  set (P := nskipn ps x1).
  assert (x1 = s0 ++ P) as Ex1 by (unfold P; rewrite <- I1; symmetry; apply nfirstn_nskipn).
  assert (exists r, P = 47 :: r) as (r & EP).
  { pose proof (nnth_nskipn x1 ps 0) as Hn. rewrite N.add_0_r in Hn. fold P in Hn. rewrite I2 in Hn.
    destruct P as [|c r]; [discriminate Hn|]. exists r. cbn in Hn. congruence. }
  exists r. rewrite <- EP.
  inversion Ecl. unfold with_path. fold pe ps. rewrite Ex1. rewrite nlen_app, Ls0. rewrite <- app_assoc. reflexivity.
Qed.

(* ================= one step outside excl03 ================= *)
Section Steps.
Variable dbg : bool.
Variable hp hpo : list N -> result host.
Variable hd : host -> list N.
Hypothesis HW : HostWf hp hpo hd.

Lemma set_path_sl u p u' : wfh u -> AS u -> spb u = true -> usv_list p -> auth_end_ok u ->
  set_path dbg u p = Some u' -> path_sl u'.
Proof using.
  intros [W HT] A Hs Hp Hx H. destruct (special_layout u W A Hs) as (Ha & Hsl & Ho).
  destruct (set_path_eval dbg u p u' W Hsl Hp Hx H) as (P & hh & rem & -> & (HP1 & HP2) & Epp).
  pose proof (path_start_le_len u W) as PL.
  assert (P <> []) as Hne.
  { intros ->. rewrite app_nil_r in Epp.
    pose proof (pps_special_nonempty dbg CSetter _ true _ p _ hh rem Hs (Hx Hs) Epp) as L. lia. }
  destruct HP2 as [->|(r & ->)]; [contradiction|]. exact (with_path_sl u r PL).
Qed.

Theorem sp_step u o u' : IpDisp hd -> wfh u -> AS u -> op_args_ok o -> excl03 u o u' = false ->
  apply_op dbg hp hpo hd u o = Some u' -> SP u -> SP u'.
Proof using HW.
  intros HIP K A Ha G H S Hs'. pose proof K as [W HT].
  pose proof (step03 dbg hp hpo hd HW u o u' HIP K Ha G H) as [W' _].
  pose proof (spb_back dbg hp hpo hd HW u o u' HIP K Ha G H Hs') as Hs. specialize (S Hs).
  destruct (special_layout u W A Hs) as (Hau & Hsl & Ho).
  pose proof (path_start_le_len u W) as PL.
  assert (path u' = path u -> path_sl u') as KP by (intros E; exact (path_keep_sl u u' W W' E S)).
  destruct o; cbn [apply_op excl03 op_args_ok] in H, G, Ha; try (apply omf_some in H; destruct H as [st H]).
  - apply KP. exact (set_fragment_keep dbg u f u' W Ho H).
  - apply KP. exact (set_query_keep dbg u q u' W Ho Ha H).
  - apply orb_false_iff in G. destruct G as [G G3]. apply orb_false_iff in G. destruct G as [G1 G2].
    apply negb_false_iff in G1. apply auth_end_b_ok in G1.
    exact (set_path_sl u p u' K A Hs Ha G1 H).
  - apply KP. exact (set_port_keep dbg u p u' st K Ha H).
  - apply KP. destruct h as [x|].
    + destruct (host_bad_premises u u' W G) as [X2 X1].
      exact (set_host_some_keep dbg hp hpo hd HW u x u' st W X2 X1 H).
    + apply (set_host_none_keep dbg hp hpo hd u u' st W); [|exact H].
      intros Hh. rewrite Hh in G. cbn [andb] in G. split; [|exact G].
      unfold path_empty_at_end. apply N.eqb_neq. pose proof (nnth_lt _ _ _ S). lia.
  - apply KP. destruct (host_bad_premises u u' W G) as [X2 X1].
    assert (ip_arg h) as Hv by (destruct h; exact Ha).
    exact (set_ip_host_keep dbg hd u h u' st HIP W Hv X2 H).
  - apply KP. exact (set_password_keep dbg u p u' st K H).
  - apply KP. exact (set_username_keep dbg u s u' st K H).
  - apply KP. exact (set_scheme_keep dbg u s u' st K H).
  - destruct st; [|rewrite (path_segments_session_atomic dbg u ops u' _ H) by discriminate; exact S ..].
    destruct (session_sl dbg u ops u' W Hsl S H) as (r & ->). exact (with_path_sl u r PL).
  - apply KP. unfold q_set_protocol in H. cbv zeta in H. exact (set_scheme_keep dbg u _ u' st K H).
  - apply KP. exact (set_username_keep dbg u s u' st K H).
  - apply KP. unfold q_set_password in H. exact (set_password_keep dbg u _ u' st K H).
  - apply KP. destruct (host_bad_premises u u' W G) as [X2 X1].
    exact (q_set_host_keep dbg hp hpo hd HW u s u' st W X2 X1 H).
  - apply KP. destruct (host_bad_premises u u' W G) as [X2 X1].
    exact (q_set_hostname_keep dbg hp hpo hd HW u s u' st W X2 X1 H).
  - apply KP. exact (q_set_port_keep dbg u s u' st K H).
  - apply orb_false_iff in G. destruct G as [G1 G3]. apply negb_false_iff in G1. apply auth_end_b_ok in G1.
    destruct (q_set_pathname_eval dbg u s W) as (sch & _ & E). rewrite E in H. clear E.
    rewrite Hsl in H. cbn [negb] in H.
    pose proof (q_pathname_arg_usv (scheme_type_of sch) (has_host u) s Ha) as Hp.
    exact (set_path_sl u _ u' K A Hs Hp G1 H).
  - apply KP. unfold q_set_search in H. eapply (set_query_keep dbg u); [exact W | exact Ho | | exact H].
    destruct s as [|c r]; [exact I|]. destruct (N.eq_dec c 63) as [->|Hc].
    + exact (usv_tail03 _ _ Ha).
    + unfold str_arg_ok. destruct c as [|q]; [exact Ha|]. do 6 (destruct q as [q|q|]; try exact Ha). contradiction.
  - apply KP. unfold q_set_hash in H. exact (set_fragment_keep dbg u _ u' W Ho H).
Qed.
End Steps.

(* ================= inv03 with the path clause ================= *)
Definition inv03s (u : url) : Prop := inv03 u /\ SP u.

Section Inv.
Variable dbg : bool.
Variable hp hpo : list N -> result host.
Variable hd : host -> list N.
Hypothesis HW : HostWf hp hpo hd.

Theorem parse_url_inv03s ovr base input u :
  match base with Some b => inv03s b | None => True end ->
  parse_url dbg hp hpo hd ovr base input = POk u -> inv03s u.
Proof using HW.
  intros Hb Hp. split.
  - apply (parse_url_inv03 dbg hp hpo hd ovr base input u HW); [|exact Hp].
    destruct base as [b|]; [exact (proj1 Hb) | exact I].
  - apply (parse_url_sp_inv dbg hp hpo hd ovr base input u HW); [|exact Hp].
    destruct base as [b|]; [exact Hb | exact I].
Qed.

Hypothesis HNE : NoEmpty hp.
Hypothesis HIPW : IpWf hd.

Theorem inv03s_step u o u' : inv03s u -> op_args_ok o -> known03k u o u' = false ->
  apply_op dbg hp hpo hd u o = Some u' -> inv03s u'.
Proof using HW HNE HIPW.
  intros [Iu Su] Ha G H. pose proof (inv03_step dbg hp hpo hd HW HNE HIPW u o u' Iu Ha G H) as Iu'.
  split; [exact Iu'|]. destruct Iu as (K & A & P & E).
  unfold known03k in G. apply andb_false_iff in G. destruct G as [G|G].
  - apply negb_false_iff in G. rewrite (url_eqb_true03 _ _ G). exact Su.
  - pose proof (excl03k_excl03 u o u' (he_auth_end u K E) G) as G'.
    exact (sp_step dbg hp hpo hd HW u o u' (IpWf_IpDisp hd HIPW) K A Ha G' H Su).
Qed.
End Inv.
