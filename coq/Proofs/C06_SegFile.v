(* Proofs/C06_SegFile.v - whole path_segments_mut sessions on FILE URLs, exactly.
   On a file URL parse_path (the worker of push / extend) has three extra steps: (1) a '/' inserted behind a normalized
   drive letter that is the whole path so far, (2) the rewriting of a drive-letter first segment "C|" to "C:",
   (3) the collapse of leading slashes of the path.
   Invariant of the session (file_path_ok): the path text is exactly "/" or starts with '/' followed by a byte other
   than '/' (true of every parsed file URL); clear / pop / pop_if_empty / push / extend all keep it.
   On a path longer than "/" none of (1)-(3) can happen (C06_SegPush.parse_path_segment_exact_file); on the root path "/"
   (1) cannot happen when no flush of the pending text (at a TAB / LF / CR of the argument) leaves exactly a drive
   letter "C:" in front of a further character, and (2) changes nothing unless the written text is a letter followed
   by '|' (root_seg_ok); (3) never happens, the first written byte is not a '/'.  Under that computable side condition on the pushes made at the root (file_session_ok) the
   session returns with_path u (session_text STFile ...), like on the other scheme types. *)
From RU Require Import Base.Prelude Base.Utf8 Base.Utf8Facts Model.AsciiSet Gen.Tables Model.PercentEncoding
  Model.HostT Model.UrlRecord Model.Parser Model.Setters Model.WF
  Proofs.C14_Set Proofs.C14_Enc Proofs.C14_Views Proofs.C20_Plain
  Proofs.ListN Proofs.C03_WF Proofs.C06_List Proofs.C06_WFI Proofs.C06_Tail Proofs.C06_Steps Proofs.C06_FragQuery
  Proofs.C06_Suffix Proofs.C06_Front Proofs.C06_PathParser Proofs.C06_Path Proofs.C06_Segments Proofs.C06_SegPush.

(* ---------- the invariant ---------- *)
Definition fpi_b (P : list N) : bool :=
  match P with a :: c :: _ => (a =? 47) && negb (c =? 47) | _ => false end.
Definition file_path_ok (P : list N) : bool :=
  match P with [a] => a =? 47 | _ => fpi_b P end.

Lemma fpi_b_inv P : fpi_b P = true -> exists c r, P = 47 :: c :: r /\ c <> 47.
Proof.
  destruct P as [|a [|c r]]; cbn [fpi_b]; try discriminate. intros H. apply andb_true_iff in H. destruct H as [H1 H2].
  apply N.eqb_eq in H1. apply negb_true_iff in H2. apply N.eqb_neq in H2. subst a. exists c, r. split; [reflexivity | exact H2].
Qed.

Lemma fpi_b_intro c r : c <> 47 -> fpi_b (47 :: c :: r) = true.
Proof. intros H. cbn [fpi_b]. apply N.eqb_neq in H. rewrite H. reflexivity. Qed.

Lemma file_path_ok_inv P : file_path_ok P = true -> P = [47] \/ fpi_b P = true.
Proof.
  destruct P as [|a [|c r]]; cbn [file_path_ok]; try discriminate.
  - intros H. apply N.eqb_eq in H. subst a. left. reflexivity.
  - intros H. right. exact H.
Qed.

Lemma fpi_file_path_ok P : fpi_b P = true -> file_path_ok P = true.
Proof. destruct P as [|a [|c r]]; cbn [file_path_ok fpi_b]; try discriminate. trivial. Qed.

Lemma fpi_b_file_path_inv P : fpi_b P = true -> 1 < nlen P /\ file_path_inv P.
Proof.
  intros H. destruct (fpi_b_inv P H) as (c & r & -> & Hc). split.
  - rewrite !nlen_cons. lia.
  - exists c, r. split; [reflexivity | exact Hc].
Qed.

Lemma nfirstn_cons n a l : 0 < n -> nfirstn n (a :: l) = a :: nfirstn (n - 1) l.
Proof.
  intros H. unfold nfirstn. replace (N.to_nat n) with (S (N.to_nat (n - 1))) by lia. reflexivity.
Qed.

(* a non-empty prefix of a good path text is good *)
Lemma prefix_ok P k : file_path_ok P = true -> 1 <= k -> file_path_ok (nfirstn k P) = true.
Proof.
  intros H Hk. destruct (file_path_ok_inv P H) as [->|H2].
  - rewrite nfirstn_all by (change (nlen [47]) with 1; lia). reflexivity.
  - destruct (fpi_b_inv P H2) as (c & r & -> & Hc). rewrite nfirstn_cons by lia.
    destruct (N.eq_dec k 1) as [->|Hk1].
    + reflexivity.
    + rewrite nfirstn_cons by lia. apply fpi_file_path_ok. apply fpi_b_intro. exact Hc.
Qed.

(* ---------- the first byte of the text push writes is never '/' ---------- *)
Lemma seg_text_head st seg b t : seg_text st seg = b :: t -> b <> 47.
Proof.
  unfold seg_text. destruct (seg_set_facts st) as (_ & _ & F47).
  destruct (utf8_encode (strip_tnl seg)) as [|x r]; [discriminate|]. rewrite encode_cons. unfold enc1, enc_byte_spec.
  destruct (should_encode (seg_set st) x) eqn:E; cbn [app]; intros H; inversion H; subst.
  - lia.
  - intros ->. congruence.
Qed.

Lemma drop_slash_seg_text st seg : drop_while is_slash (seg_text st seg) = seg_text st seg.
Proof.
  destruct (seg_text st seg) as [|b t] eqn:E; [reflexivity|]. cbn [drop_while]. unfold is_slash.
  pose proof (seg_text_head st seg b t E) as Hb. apply N.eqb_neq in Hb. rewrite Hb. reflexivity.
Qed.

(* ---------- the side condition on a push made at the root path ---------- *)
Definition etext (l : list N) : list N := encode (seg_set STFile) (utf8_encode l).

Lemma etext_app a b : etext (a ++ b) = etext a ++ etext b.
Proof. unfold etext. rewrite utf8_encode_app, encode_app. reflexivity. Qed.

(* parse_path's input iterator drops TAB / LF / CR, but the loop FLUSHES the pending text at each of them; a later
   character that finds the flushed text to be exactly a normalized drive letter ("C:") gets a '/' in front.
   flush_ok acc pend l: that never happens on the input l (acc = the text flushed so far, pend = pending, reversed) *)
Fixpoint flush_ok (acc pend l : list N) : bool :=
  match l with
  | [] => true
  | c :: r => if is_tnl c then flush_ok (acc ++ rev pend) [] r
              else negb (is_normalized_wdl (etext acc)) && flush_ok acc (c :: pend) r
  end.
(* the written text is a letter followed by '|' (rewritten to ':' when it is the first segment) *)
Definition wdl_bar (t : list N) : bool := match t with [a; b] => is_alpha a && (b =? 124) | _ => false end.
Definition root_seg_ok (seg : list N) : bool := flush_ok [] [] seg && negb (wdl_bar (seg_text STFile seg)).

Lemma is_wdl_cases t : is_wdl t = true -> exists a b, t = [a; b] /\ is_alpha a = true /\ (b = 58 \/ b = 124).
Proof.
  unfold is_wdl. intros H. apply andb_true_iff in H. destruct H as [H1 H2].
  destruct t as [|a [|b [|c r]]]; try discriminate H1. unfold starts_with_wdl in H2. rewrite andb_true_r in H2.
  apply andb_true_iff in H2. destruct H2 as [Ha Hb]. exists a, b. split; [reflexivity|]. split; [exact Ha|]. lia.
Qed.

(* ---------- parse_path in the PathSegmentSetter context on a file URL, from the root path ---------- *)
Lemma ppl_root dbg ps x : nlen x = ps + 1 -> forall l acc ss pend hh, usv_list (rev pend ++ l) ->
  flush_ok acc pend l = true ->
  parse_path_loop dbg CPathSegmentSetter STFile ps l (x ++ etext acc) ss pend hh
  = (' (s2, hh') <~ finish_segment dbg STFile ps (x ++ etext (acc ++ rev pend ++ strip_tnl l)) ss false hh ;;
     POk (file_path_fixup STFile ps s2, hh', [])).
Proof.
  intros Lx. induction l as [|c r IH]; intros acc ss pend hh Hu Hok.
  - cbn [parse_path_loop strip_tnl filter]. rewrite app_nil_r in *. rewrite push_pending_enc by exact Hu.
    fold (etext (rev pend)). rewrite <- app_assoc, <- etext_app. reflexivity.
  - apply usv_list_app in Hu. destruct Hu as [Hu1 Hu2]. inversion Hu2 as [|? ? Hc Hr]; subst.
    cbn [parse_path_loop]. cbn [flush_ok] in Hok.
    assert (strip_tnl (c :: r) = if is_tnl c then strip_tnl r else c :: strip_tnl r) as Es.
    { unfold strip_tnl. cbn [filter]. unfold not_tnl at 1. destruct (is_tnl c); reflexivity. }
    rewrite Es. destruct (is_tnl c) eqn:Et.
    + rewrite push_pending_enc by exact Hu1. fold (etext (rev pend)). rewrite <- app_assoc, <- etext_app.
      rewrite (IH (acc ++ rev pend) ss [] hh Hr Hok). cbn [rev app]. rewrite <- app_assoc. reflexivity.
    + apply andb_true_iff in Hok. destruct Hok as [Hn Hok]. apply negb_true_iff in Hn.
      cbn [ctx_eqb negb andb]. rewrite andb_false_r.
      rewrite <- Lx. rewrite nskipn_app_exact. rewrite Hn. rewrite andb_false_r.
      rewrite (IH acc ss (c :: pend) hh).
      * cbn [rev]. rewrite <- !app_assoc. reflexivity.
      * cbn [rev]. rewrite <- app_assoc. apply usv_list_app. split; [exact Hu1 | constructor; assumption].
      * exact Hok.
Qed.

(* one segment pushed at the root path "/" *)
Theorem parse_path_segment_exact_root dbg ps s0 seg : nlen s0 = ps -> usv_list seg ->
  seg_skipped (strip_tnl seg) = false -> root_seg_ok seg = true ->
  exists hh, parse_path dbg CPathSegmentSetter STFile true ps (s0 ++ [47]) seg = POk ((s0 ++ [47]) ++ seg_text STFile seg, hh, []).
Proof.
  intros Hps Hu Hk Hr. unfold parse_path. unfold root_seg_ok in Hr. apply andb_true_iff in Hr. destruct Hr as [Hfl Hbar].
  apply negb_true_iff in Hbar.
  assert (nlen (s0 ++ [47]) = ps + 1) as Lx by (rewrite nlen_app; change (nlen [47]) with 1; lia).
  set (x := s0 ++ [47]) in *.
  pose proof (ppl_root dbg ps x Lx seg [] (nlen x) [] true Hu Hfl) as Hl.
  change (etext []) with (@nil N) in Hl. rewrite app_nil_r in Hl. rewrite Hl. clear Hl.
  cbn [rev app]. change (etext (strip_tnl seg)) with (seg_text STFile seg).
  destruct (seg_text_not_dots STFile seg Hu Hk) as [Hd Hs].
  assert (exists hh, finish_segment dbg STFile ps (x ++ seg_text STFile seg) (nlen x) false true = POk (x ++ seg_text STFile seg, hh)) as [hh Ef].
  { unfold finish_segment. rewrite slice_o_some by (rewrite nlen_app; lia). cbn [of_option pbind].
    rewrite nskipn_app_exact. rewrite nfirstn_all by (rewrite nlen_app; lia). rewrite Hd, Hs.
    destruct (is_wdl (seg_text STFile seg)) eqn:Ew.
    - destruct (is_wdl_cases _ Ew) as (a & b & Et & Ha & Hb). rewrite Et in *.
      assert (b = 58) as ->.
      { destruct Hb as [Hb|Hb]; [exact Hb|]. subst b. cbn [wdl_bar] in Hbar. rewrite Ha in Hbar. discriminate Hbar. }
      exists false. cbn [st_is_file andb]. rewrite Lx. rewrite N.eqb_refl. cbn [andb].
      unfold truncate. rewrite <- Lx. rewrite nfirstn_app_exact. reflexivity.
    - exists true. rewrite andb_false_r. reflexivity. }
  rewrite Ef. cbn [pbind]. exists hh. f_equal. f_equal. f_equal.
  unfold file_path_fixup. cbn [st_is_file]. unfold x. rewrite <- !app_assoc. rewrite <- Hps.
  rewrite nfirstn_app_exact, nskipn_app_exact. cbn [app drop_while]. change (is_slash 47) with true. cbv iota.
  rewrite drop_slash_seg_text. reflexivity.
Qed.

(* ---------- push / extend on the path text of a file URL ---------- *)
Definition push_ok (P seg : list N) : bool := seg_skipped (strip_tnl seg) || fpi_b P || root_seg_ok seg.
Fixpoint extend_ok (P : list N) (segs : list (list N)) : bool :=
  match segs with [] => true | s :: r => push_ok P s && extend_ok (push_text STFile P s) r end.
Definition op_ok (P : list N) (o : psm_op) : bool :=
  match o with PPush s => push_ok P s | PExtend ss => extend_ok P ss | _ => true end.
(* the computable side condition on a session that starts on the path text P: every push made while the path is
   exactly "/" has a segment that is skipped or whose text does not start with a letter followed by ':' or '|' *)
Fixpoint file_session_ok (P : list N) (ops : list psm_op) : bool :=
  match ops with [] => true | o :: r => op_ok P o && file_session_ok (op_text STFile P o) r end.

Lemma push_text_ok P seg : file_path_ok P = true -> file_path_ok (push_text STFile P seg) = true.
Proof.
  intros H. unfold push_text. destruct (seg_skipped (strip_tnl seg)); [exact H|].
  destruct (file_path_ok_inv P H) as [->|H2].
  - change (nlen [47]) with 1. cbn [N.ltb N.eqb N.compare Pos.compare Pos.compare_cont orb app].
    replace ((1 <? 1) || (1 =? 0)) with false by reflexivity.
    destruct (seg_text STFile seg) as [|b t] eqn:E; [reflexivity|]. cbn [app].
    apply fpi_file_path_ok. apply fpi_b_intro. exact (seg_text_head STFile seg b t E).
  - destruct (fpi_b_inv P H2) as (c & r & -> & Hc).
    destruct ((1 <? nlen (47 :: c :: r)) || (nlen (47 :: c :: r) =? 0)); cbn [app];
      apply fpi_file_path_ok; apply fpi_b_intro; exact Hc.
Qed.

Lemma extend_text_ok segs : forall P, file_path_ok P = true -> file_path_ok (extend_text STFile P segs) = true.
Proof.
  induction segs as [|s r IH]; intros P H; cbn [extend_text fold_left]; [exact H|].
  apply IH. apply push_text_ok. exact H.
Qed.

Lemma op_text_ok P o : file_path_ok P = true -> file_path_ok (op_text STFile P o) = true.
Proof.
  intros H. destruct o; cbn [op_text].
  - unfold clear_text. apply prefix_ok; [exact H | lia].
  - unfold pop_if_empty_text. destruct (nlen P <=? 1) eqn:E1; [exact H|].
    destruct (ends_with_byte 47 (nskipn 1 P)); [|exact H]. apply prefix_ok; [exact H | lia].
  - unfold pop_text. destruct (nlen P <=? 1); [exact H|]. apply prefix_ok; [exact H | lia].
  - apply push_text_ok. exact H.
  - apply extend_text_ok. exact H.
Qed.

Section ExactFile.
Variables (dbg : bool) (s0 : list N) (ps : N).
Hypothesis Hps : nlen s0 = ps.

Lemma extend_loop_exact_file segs : forall P, file_path_ok P = true -> Forall usv_list segs -> extend_ok P segs = true ->
  psm_extend_loop dbg STFile ps (s0 ++ P) segs = Some (s0 ++ extend_text STFile P segs).
Proof.
  induction segs as [|seg rest IH]; intros P HP Hu Hok; cbn [psm_extend_loop extend_text fold_left]; [reflexivity|].
  pose proof (Forall_inv Hu) as Hu1. pose proof (Forall_inv_tail Hu) as Hu2.
  cbn [extend_ok] in Hok. apply andb_true_iff in Hok. destruct Hok as [Hok1 Hok2].
  pose proof (push_text_ok P seg HP) as HP2.
  unfold push_text at 2. unfold push_text in Hok2, HP2. rewrite psm_skips_strip. unfold push_ok in Hok1.
  destruct (seg_skipped (strip_tnl seg)) eqn:Hk1.
  - apply IH; assumption.
  - cbn [orb] in Hok1.
    replace ((ps + 1 <? nlen (s0 ++ P)) || (nlen (s0 ++ P) =? ps)) with ((1 <? nlen P) || (nlen P =? 0))
      by (rewrite nlen_app, Hps; lia).
    destruct (file_path_ok_inv P HP) as [EP|HP1].
    + subst P. replace (fpi_b [47]) with false in Hok1 by reflexivity. cbn [orb] in Hok1.
      change (nlen [47]) with 1 in *. replace ((1 <? 1) || (1 =? 0)) with false in * by reflexivity.
      destruct (parse_path_segment_exact_root dbg ps s0 seg Hps Hu1 Hk1 Hok1) as [hh1 Er]. rewrite Er. cbn [unpres bindo].
      rewrite <- app_assoc. apply IH; assumption.
    + destruct (fpi_b_file_path_inv P HP1) as [HL Hinv].
      replace ((1 <? nlen P) || (nlen P =? 0)) with true in * by (symmetry; apply orb_true_iff; left; apply N.ltb_lt; lia).
      rewrite <- app_assoc.
      rewrite (parse_path_segment_exact_file dbg ps s0 P seg Hps HL Hinv Hu1 Hk1). cbn [unpres bindo].
      replace ((s0 ++ P ++ [47]) ++ seg_text STFile seg) with (s0 ++ (P ++ [47]) ++ seg_text STFile seg)
        by (rewrite <- !app_assoc; reflexivity).
      apply IH; assumption.
Qed.

Variables (u : url) (ap : list N) (op : N).
Hypothesis Hpsu : path_start u = ps.
Hypothesis Hst : forall P, u_scheme_type (set_ser u (s0 ++ P)) = Some STFile.

Definition psm_atf (P : list N) : psm := mkPsm (set_ser u (s0 ++ P)) (ps + 1) ap op.

Lemma psm_with_at' P x : psm_with (psm_atf P) (s0 ++ x) = psm_atf x.
Proof. reflexivity. Qed.

Lemma apply_exact_file o P : file_path_ok P = true -> psm_op_usv o -> op_ok P o = true ->
  psm_apply dbg (psm_atf P) o = Some (psm_atf (op_text STFile P o)).
Proof.
  intros HP Hu Hok. destruct o; cbn [psm_apply op_text].
  - f_equal. unfold psm_clear. cbn [psm_atf psm_url ser set_ser after_first_slash]. unfold truncate.
    rewrite nfirstn_app_ge by lia. replace (ps + 1 - nlen s0) with 1 by lia. apply psm_with_at'.
  - f_equal. unfold psm_pop_if_empty, pop_if_empty_text. cbn [psm_atf psm_url ser set_ser after_first_slash].
    replace (nlen (s0 ++ P) <=? ps + 1) with (nlen P <=? 1) by (rewrite nlen_app; lia).
    destruct (nlen P <=? 1) eqn:E1; [reflexivity|].
    rewrite nskipn_app_ge by lia. replace (ps + 1 - nlen s0) with 1 by lia.
    destruct (ends_with_byte 47 (nskipn 1 P)); [|reflexivity].
    rewrite nfirstn_app_ge by (rewrite nlen_app; lia). replace (nlen (s0 ++ P) - 1 - nlen s0) with (nlen P - 1) by (rewrite nlen_app; lia).
    apply psm_with_at'.
  - f_equal. unfold psm_pop, pop_text. cbn [psm_atf psm_url ser set_ser after_first_slash].
    replace (nlen (s0 ++ P) <=? ps + 1) with (nlen P <=? 1) by (rewrite nlen_app; lia).
    destruct (nlen P <=? 1) eqn:E1; [reflexivity|].
    rewrite nskipn_app_ge by lia. replace (ps + 1 - nlen s0) with 1 by lia. unfold truncate.
    set (k := match rfind 47 (nskipn 1 P) with Some i => i | None => 0 end).
    rewrite nfirstn_app_ge by lia. replace (ps + 1 + k - nlen s0) with (1 + k) by lia. apply psm_with_at'.
  - unfold psm_push, psm_extend. cbn [psm_atf psm_url]. rewrite Hst. cbn [bindo path_start set_ser ser]. rewrite Hpsu.
    cbn [op_ok] in Hok.
    rewrite extend_loop_exact_file; [cbn [bindo]; reflexivity | exact HP | constructor; [assumption | constructor] |].
    cbn [extend_ok]. rewrite Hok. reflexivity.
  - unfold psm_extend. cbn [psm_atf psm_url]. rewrite Hst. cbn [bindo path_start set_ser ser]. rewrite Hpsu.
    rewrite extend_loop_exact_file by assumption. cbn [bindo]. reflexivity.
Qed.

Lemma run_exact_file ops : forall P, file_path_ok P = true -> Forall psm_op_usv ops -> file_session_ok P ops = true ->
  psm_run dbg (psm_atf P) ops = Some (psm_atf (session_text STFile P ops)).
Proof.
  induction ops as [|o rest IH]; intros P HP Hu Hok; cbn [psm_run session_text fold_left]; [reflexivity|].
  cbn [file_session_ok] in Hok. apply andb_true_iff in Hok. destruct Hok as [Hok1 Hok2].
  rewrite apply_exact_file; [|exact HP | eapply Forall_inv; eassumption | exact Hok1]. cbn [bindo].
  apply IH; [apply op_text_ok; exact HP | eapply Forall_inv_tail; eassumption | exact Hok2].
Qed.
End ExactFile.

(* ---------- a whole session on a file URL, exactly ---------- *)
Theorem path_segments_session_exact_file dbg u ops u' : wf_b u = true ->
  byte_eqb (ser u) (scheme_end u + 1) 47 = true -> st_of u = STFile ->
  file_path_ok (path_bytes u) = true -> file_session_ok (path_bytes u) ops = true ->
  Forall psm_op_usv ops -> path_segments_session dbg u ops = Some (u', SOk) ->
  u' = with_path u (session_text STFile (path_bytes u) ops).
Proof.
  intros W Hsl Hfile HP0 Hsok Hops H.
  destruct (wf_ps_le_path_end u W) as [B5 B6]. pose proof (wf_se_lt_ps u W) as B0.
  destruct (wf_scheme_facts u W) as (Hse & Hc & Hlt).
  set (pe := path_end u) in *. set (ps := path_start u) in *.
  set (s0 := nfirstn ps (ser u)).
  assert (nlen s0 = ps) as Ls0 by (apply nlen_nfirstn; lia).
  set (x0 := nfirstn pe (ser u)).
  assert (nlen x0 = pe) as Lx0 by (apply nlen_nfirstn; exact B6).
  assert (x0 = s0 ++ path_bytes u) as Ex0.
  { unfold x0, s0, path_bytes. fold ps pe. rewrite <- (nskipn_0 (ser u)) at 1 2.
    replace (nfirstn pe (nskipn 0 (ser u))) with (nfirstn (pe - 0) (nskipn 0 (ser u))) by (f_equal; lia).
    replace (nfirstn ps (nskipn 0 (ser u))) with (nfirstn (ps - 0) (nskipn 0 (ser u))) by (f_equal; lia).
    symmetry. apply piece_app; lia. }
  assert (forall P, u_scheme_type (set_ser u (s0 ++ P)) = Some STFile) as Hst.
  { intros P. rewrite <- Hfile. unfold st_of, u_scheme_type, scheme, u_slice_to. cbn [ser set_ser scheme_end].
    rewrite slice_to_o_some by (rewrite nlen_app; lia). cbn [bindo].
    rewrite nfirstn_app_le by lia. unfold s0. rewrite nfirstn_nfirstn by lia. reflexivity. }
  unfold path_segments_session, path_segments_mut in H.
  rewrite (cannot_be_a_base_eval u W) in H. cbn [bindo] in H.
  rewrite Hsl in H. cbn [negb] in H.
  unfold psm_new in H. rewrite (take_after_path_eval u W) in H. cbn [bindo] in H. fold pe x0 in H.
  rewrite Ex0 in H. rewrite Hst in H. cbn [bindo] in H.
  match type of H with bindo (bindo (bindo ?c _) _) _ = _ => destruct c as [[]|]; cbn [bindo] in H; [|discriminate] end.
  cbn [ser set_ser path_start] in H. fold ps in H.
  replace (nlen (s0 ++ path_bytes u)) with pe in H by (rewrite <- Ex0; symmetry; exact Lx0).
  change (mkPsm (set_ser u (s0 ++ path_bytes u)) (ps + 1) (nskipn pe (ser u)) pe)
    with (psm_atf s0 ps u (nskipn pe (ser u)) pe (path_bytes u)) in H.
  rewrite (run_exact_file dbg s0 ps Ls0 u (nskipn pe (ser u)) pe eq_refl Hst ops (path_bytes u) HP0 Hops Hsok) in H.
  cbn [bindo] in H.
  set (P := session_text STFile (path_bytes u) ops) in *.
  unfold psm_close, psm_atf in H. cbn [psm_url psm_old_pos psm_after_path] in H.
  unfold restore_after_path in H. cbn [ser set_ser query_start fragment_start] in H.
  assert (match query_start u with Some i => pe <= i | None => True end) as Gq.
  { unfold pe, path_end. destruct (query_start u); [lia | exact I]. }
  assert (match fragment_start u with Some i => pe <= i | None => True end) as Gf.
  { pose proof (wf_qf_facts u W) as QF. pose proof (qf_qf QF) as Q3. pose proof (qf_f QF) as Q2. unfold pe, path_end.
    destruct (query_start u), (fragment_start u); try exact I; lia. }
  rewrite !adjust_opt_ok in H by assumption. cbn [bindo] in H.
  inversion H. unfold with_path. fold pe ps s0. rewrite nlen_app, Ls0. rewrite <- app_assoc. reflexivity.
Qed.

(* ---------- sessions that only push / extend on a path longer than "/" meet the side condition ---------- *)
Definition push_only (o : psm_op) : bool := match o with PPush _ | PExtend _ => true | _ => false end.

Lemma push_text_fpi P seg : fpi_b P = true -> fpi_b (push_text STFile P seg) = true.
Proof.
  intros H. unfold push_text. destruct (seg_skipped (strip_tnl seg)); [exact H|].
  destruct (fpi_b_inv P H) as (c & r & -> & Hc).
  destruct ((1 <? nlen (47 :: c :: r)) || (nlen (47 :: c :: r) =? 0)); cbn [app]; apply fpi_b_intro; exact Hc.
Qed.

Lemma extend_fpi segs : forall P, fpi_b P = true -> fpi_b (extend_text STFile P segs) = true /\ extend_ok P segs = true.
Proof.
  induction segs as [|s r IH]; intros P H; cbn [extend_text fold_left extend_ok]; [split; [exact H | reflexivity]|].
  destruct (IH (push_text STFile P s) (push_text_fpi P s H)) as [I1 I2]. split; [exact I1|].
  unfold push_ok. rewrite H, I2. rewrite orb_true_r. reflexivity.
Qed.

Lemma push_only_session_ok ops : forall P, fpi_b P = true -> forallb push_only ops = true -> file_session_ok P ops = true.
Proof.
  induction ops as [|o rest IH]; intros P H Ho; cbn [file_session_ok]; [reflexivity|].
  cbn [forallb] in Ho. apply andb_true_iff in Ho. destruct Ho as [Ho1 Ho2].
  destruct o; try discriminate Ho1; cbn [op_ok op_text].
  - unfold push_ok. rewrite H. rewrite orb_true_r. cbn [orb andb]. apply IH; [apply push_text_fpi; exact H | exact Ho2].
  - destruct (extend_fpi ss P H) as [I1 I2]. rewrite I2. cbn [andb]. apply IH; [exact I1 | exact Ho2].
Qed.

Lemma session_text_ok ops : forall P, file_path_ok P = true -> file_path_ok (session_text STFile P ops) = true.
Proof.
  induction ops as [|o r IH]; intros P H; cbn [session_text fold_left]; [exact H|].
  apply IH. apply op_text_ok. exact H.
Qed.
