(* Proofs/C02_SetPathNoAuth.v - L2 for Url::set_path (and url::quirks::set_pathname) on the canonical records WITHOUT
   authority (class (ii): scheme ":" "/" seg "/" ... ), outside F-C03-5 (the record carries the "/." marker) and F-C02-8
   (the new path starts with "//": the code does not insert the marker).
   The setter cuts the serialization at path_start = |scheme ":"|, runs the path start state of the setter context behind
   scheme ":" and re-attaches query and fragment.  By C02_PathSetter the text written is a canonical path or nothing:
     - a canonical path not starting with "//": the canonical record without authority and without marker;
     - nothing (argument empty or made of tab / LF / CR): scheme ":" [?q] [#f], the canonical opaque record with an
       empty path (a:/p -> set_path("") -> a: , which re-parses as a cannot-be-a-base URL with the same offsets).
   Together with C02_SetPath.set_path_Canon (records with authority): set_path_Canon_hier, every Canon record that is
   not cannot-be-a-base. *)
From RU Require Import Base.Prelude Base.Utf8 Base.Utf8Facts Model.AsciiSet Gen.Tables
  Model.PercentEncoding Model.HostT Model.UrlRecord Model.Parser Model.Setters Model.WF
  Proofs.ListN Proofs.C02_Enc Proofs.C02_Parts Proofs.C02_Opaque Proofs.C02_Path Proofs.C02_PathL1 Proofs.C02_Reach
  Proofs.C02_AuthParts Proofs.C02_Auth Proofs.C02_AuthWf Proofs.C02_PathSp Proofs.C02_AuthSp Proofs.C02_AuthMain
  Proofs.C02_SetQF Proofs.C02_Canon Proofs.C02_SetPort Proofs.C02_Hist Proofs.C02_SetHostFrame Proofs.C02_SetHostCanon
  Proofs.C02_SetScheme Proofs.C02_PathSetter Proofs.C02_SetPath Proofs.C02_SetHostNone.
Open Scope N_scope.
Open Scope list_scope.

Section FrameN.
Variable dbg : bool.
Variables (sch P : list N).
Notation C := (sch ++ [58]).
Notation U pre q f := (qf_url pre (nlen sch) (nlen C) (nlen C) (nlen C) HI_None None (nlen C) q f).

Lemma take_after_path_qfn pre q f :
  take_after_path (U pre q f)
  = Some (mkUrl pre (nlen sch) (nlen C) (nlen C) (nlen C) HI_None None (nlen C) (qf_qs (nlen pre) q) (qf_fs (nlen pre) q f), qf_text q f).
Proof.
  unfold take_after_path.
  assert (forall i, i = nlen pre ->
            (a <- u_slice_from (U pre q f) i ;; Some (set_ser (U pre q f) (truncate (ser (U pre q f)) i), a))
            = Some (mkUrl pre (nlen sch) (nlen C) (nlen C) (nlen C) HI_None None (nlen C) (qf_qs (nlen pre) q) (qf_fs (nlen pre) q f), qf_text q f)) as G.
  { intros i ->. unfold u_slice_from, qf_url. cbn [ser].
    rewrite slice_from_o_some by (rewrite nlen_app; lia). rewrite nskipn_app_len. cbn [bindo].
    unfold truncate. rewrite nfirstn_app_len. reflexivity. }
  destruct q as [x|]; [|destruct f as [y|]].
  - change (query_start (U pre (Some x) f)) with (Some (nlen pre)). cbv iota. exact (G _ eq_refl).
  - change (query_start (U pre None (Some y))) with (@None N).
    change (fragment_start (U pre None (Some y))) with (Some (nlen pre + nlen (qf_qtext None))). cbv iota.
    apply G. cbn [qf_qtext]. rewrite nlen_nil. lia.
  - change (query_start (U pre None None)) with (@None N). change (fragment_start (U pre None None)) with (@None N). cbv iota.
    rewrite U_none_none. reflexivity.
Qed.

Theorem set_path_frame_noauth q f x u' : set_path dbg (U (C ++ 47 :: P) q f) x = Some u' ->
  exists s1 hh rm, parse_path_start dbg CSetter (scheme_type_of sch) true C x = POk (s1, hh, rm) /\ u' = U s1 q f.
Proof.
  unfold set_path. rewrite take_after_path_qfn. cbn [bindo].
  assert (cannot_be_a_base (mkUrl (C ++ 47 :: P) (nlen sch) (nlen C) (nlen C) (nlen C) HI_None None (nlen C)
                                  (qf_qs (nlen (C ++ 47 :: P)) q) (qf_fs (nlen (C ++ 47 :: P)) q f)) = Some false) as ->.
  { unfold cannot_be_a_base, u_slice_from. cbn [ser scheme_end].
    replace (nlen sch + 1) with (nlen C) by (rewrite nlen_app; reflexivity).
    rewrite slice_from_o_some by (rewrite (nlen_app C); lia). rewrite nskipn_app_len. reflexivity. }
  cbn [bindo]. unfold u_scheme_type, scheme, u_slice_to. cbn [ser scheme_end].
  rewrite <- (app_assoc sch [58]). rewrite slice_to_o_some by (rewrite (nlen_app sch); lia). rewrite nfirstn_app_len.
  cbn [bindo negb]. cbn [path_start]. unfold truncate. rewrite (app_assoc sch [58]). rewrite nfirstn_app_len.
  destruct (parse_path_start dbg CSetter (scheme_type_of sch) true C x) as [[[s1 hh] rm]|e|] eqn:Ep; cbn [unpres bindo]; try discriminate.
  unfold restore_after_path, set_ser. cbn [ser query_start fragment_start scheme_end username_end host_start host_end hosti port path_start].
  rewrite (adjust_qs0 dbg), (adjust_fs0 dbg). cbn [bindo].
  intros E. inversion E; subst u'. exists s1, hh, rm. split; reflexivity.
Qed.
End FrameN.

Section PathCanonN.
Variable dbg : bool.
Variable hp hpo : list N -> result host.
Variable hd : host -> list N.
Hypothesis HRT : HostRT hp hpo hd.

Notation Canon := (Canon hp hpo hd).

Lemma noauth_url_nomarker sch T q f : starts_with s_ss T = false ->
  noauth_url sch T q f = qf_url ((sch ++ [58]) ++ T) (nlen sch) (nlen (sch ++ [58])) (nlen (sch ++ [58])) (nlen (sch ++ [58]))
                                HI_None None (nlen (sch ++ [58])) q f.
Proof.
  intros Hm. rewrite noauth_url_qf. unfold noauth_pre, marker_of. rewrite Hm. cbn [app]. change (nlen (@nil N)) with 0.
  rewrite N.add_0_r. reflexivity.
Qed.

Lemma noauth_to_opaque sch segs last q0 f0 q f : noauth_ok sch segs last q0 f0 ->
  opt_clean T_QUERY q -> opt_clean T_FRAGMENT f -> nlen (opaque_ser sch [] q f) <= U32_MAX_P -> opaque_ok sch [] q f.
Proof.
  intros K Hq Hf Hb. destruct K as [Ksch Kns Ksegs Klast Kq Kf Kb1 Kbq Kbf].
  destruct (qf_bounds _ _ _ _ Hb) as [B1 B2]. constructor; try assumption; try reflexivity.
Qed.

(* the result of the setter, given that its path does not start with "//" *)
Theorem set_path_noauth sch segs last q f x u' : noauth_ok sch segs last q f ->
  starts_with s_ss (path_text segs last) = false -> usv_list x ->
  set_path dbg (noauth_url sch (path_text segs last) q f) x = Some u' -> nlen (ser u') <= U32_MAX_P ->
  (path_start u' =? scheme_end u' + 1) && path_leads_ss u' = false -> Canon u'.
Proof.
  intros K Hm Hx E Hb H8. rewrite (noauth_url_nomarker sch _ q f Hm) in E. unfold path_text in E.
  apply set_path_frame_noauth in E. destruct E as (s1 & hh & rm & Ep & ->).
  rewrite (nk_ns _ _ _ _ _ K) in Ep.
  destruct (pps_setter_ns dbg _ x true s1 hh rm Hx Ep) as (p' & Hp' & ->).
  destruct p' as [[segs' last']|]; cbn [pth_text] in *.
  - (* a path: it does not start with "//" *)
    assert (starts_with s_ss (path_text segs' last') = false) as Hm'.
    { unfold path_leads_ss in H8. cbn [qf_url path_start scheme_end ser] in H8.
      rewrite nlen_app in H8. change (nlen [58]) with 1 in H8. rewrite N.eqb_refl in H8. cbn [andb] in H8.
      replace (nlen sch + 1) with (nlen (sch ++ [58])) in H8 by (rewrite nlen_app; reflexivity).
      rewrite <- app_assoc in H8. rewrite nskipn_app_len in H8. exact (starts_with_app_false _ _ _ H8). }
    rewrite <- (noauth_url_nomarker sch _ q f Hm') in *. apply Canon_noauth.
    destruct K as [Ksch Kns Ksegs Klast Kq Kf Kb1 Kbq Kbf]. destruct Hp' as [Hp1 Hp2].
    cbn [noauth_url ser] in Hb. unfold noauth_ser in Hb. destruct (qf_bounds _ _ _ _ Hb) as [B1 B2].
    constructor; assumption.
  - (* nothing written: the opaque record with an empty path *)
    rewrite app_nil_r in *.
    assert (qf_url (sch ++ [58]) (nlen sch) (nlen (sch ++ [58])) (nlen (sch ++ [58])) (nlen (sch ++ [58])) HI_None None
                   (nlen (sch ++ [58])) q f = opaque_url sch [] q f) as EU
      by (rewrite opaque_url_qf; unfold opaque_pre; rewrite app_nil_r; reflexivity).
    rewrite EU in *. apply Canon_opaque.
    apply (noauth_to_opaque sch segs last q f q f K (nk_q _ _ _ _ _ K) (nk_f _ _ _ _ _ K)). exact Hb.
Qed.

Lemma noauth_is_cbb sch segs last q f : starts_with s_ss (path_text segs last) = false ->
  is_cbb (noauth_url sch (path_text segs last) q f) = false.
Proof.
  intros Hm. rewrite (noauth_url_nomarker sch _ q f Hm). unfold is_cbb. cbn [qf_url ser scheme_end].
  replace (nlen sch + 1) with (nlen (sch ++ [58])) by (rewrite nlen_app; reflexivity).
  rewrite <- app_assoc. rewrite nskipn_app_len. reflexivity.
Qed.

(* L2 for set_path on every Canon record that is not cannot-be-a-base: no marker on the record, and on a record
   without authority the new path does not start with "//" *)
Theorem set_path_Canon_core u x u' : Canon u -> cannot_be_a_base u = Some false -> usv_list x ->
  has_marker u = false ->
  (has_authority_b u = false -> is_cbb u = false -> (path_start u' =? scheme_end u' + 1) && path_leads_ss u' = false) ->
  set_path dbg u x = Some u' -> nlen (ser u') <= U32_MAX_P -> Canon u'.
Proof.
  intros C Hcb Hx K1 K8 E Hb.
  destruct (Canon_classes hp hpo hd u C) as [Hc | [Hm | (st & sch & ui & pt & Hh)]]; [congruence | congruence |].
  destruct Hh as [sch0 segs last q f K Hm | sch0 ui0 h pt0 p q f K | sch0 ui0 h pt0 p q f K Kp].
  - apply (set_path_noauth sch0 segs last q f x u' K Hm Hx E Hb).
    exact (K8 (noauth_no_authority sch0 segs last q f) (noauth_is_cbb sch0 segs last q f Hm)).
  - destruct (set_path_auth dbg hp hpo hd STNotSpecial sch0 ui0 h pt0 p q f x u' K eq_refl Hx E Hb) as (p' & K' & _ & ->).
    exact (Canon_auth hp hpo hd sch0 ui0 h pt0 p' q f K').
  - destruct (set_path_auth dbg hp hpo hd STSpecialNotFile sch0 ui0 h pt0 p q f x u' K eq_refl Hx E Hb) as (p' & K' & Kp' & ->).
    exact (Canon_special hp hpo hd sch0 ui0 h pt0 p' q f K' (Kp' eq_refl)).
Qed.

Lemma known_path_parts u o : is_host_or_path_op o = true -> known_step2 dbg hp hpo hd u o = false ->
  has_marker u = false /\ Known_F_C02_8 dbg hp hpo hd u o = false.
Proof.
  intros Ho Hk. unfold known_step2, known_step in Hk. rewrite !orb_false_iff in Hk.
  destruct Hk as [[[[[K1 _] _] K8] _] _]. unfold Known_F_C03_5 in K1. rewrite Ho, andb_true_r in K1. split; assumption.
Qed.

Theorem set_path_Canon_hier u x u' : Canon u -> cannot_be_a_base u = Some false -> usv_list x ->
  known_step2 dbg hp hpo hd u (OSetPath x) = false ->
  set_path dbg u x = Some u' -> nlen (ser u') <= U32_MAX_P -> Canon u'.
Proof.
  intros C Hcb Hx Hk E Hb. destruct (known_path_parts u (OSetPath x) eq_refl Hk) as [K1 K8].
  apply (set_path_Canon_core u x u' C Hcb Hx K1); [|exact E | exact Hb].
  intros Ha Hc. unfold Known_F_C02_8 in K8. rewrite Ha, Hc in K8. cbn [negb andb apply_op] in K8. rewrite E in K8. exact K8.
Qed.

(* url::quirks::set_pathname on EVERY Canon record (nothing on an opaque path), outside known_step2 *)
Theorem q_set_pathname_Canon_all u x u' : Canon u -> usv_list x ->
  known_step2 dbg hp hpo hd u (OQPathname x) = false ->
  q_set_pathname dbg u x = Some u' -> nlen (ser u') <= U32_MAX_P -> Canon u'.
Proof.
  intros C Hx Hk E Hb. destruct (known_path_parts u (OQPathname x) eq_refl Hk) as [K1 K8].
  assert (has_authority_b u = false -> is_cbb u = false -> (path_start u' =? scheme_end u' + 1) && path_leads_ss u' = false) as K8'.
  { intros Ha Hc. unfold Known_F_C02_8 in K8. rewrite Ha, Hc in K8. cbn [negb andb apply_op] in K8. rewrite E in K8. exact K8. }
  clear K8 Hk. unfold q_set_pathname in E.
  destruct (cannot_be_a_base u) as [[|]|] eqn:Hcb; cbn [bindo] in E; [inversion E; subst; exact C | | discriminate E].
  destruct (u_scheme_type u) as [st|]; cbn [bindo] in E; [|discriminate E].
  assert (usv_list (47 :: x)) as Hx' by (apply usv_cons; split; [left; lia | exact Hx]).
  destruct ((match x with 47 :: _ => true | _ => false end) || (st_is_special st && match x with 92 :: _ => true | _ => false end)).
  - exact (set_path_Canon_core u x u' C Hcb Hx K1 K8' E Hb).
  - destruct (st_is_special st || negb (match x with [] => true | _ => false end) || negb (has_host u)).
    + exact (set_path_Canon_core u (47 :: x) u' C Hcb Hx' K1 K8' E Hb).
    + exact (set_path_Canon_core u x u' C Hcb Hx K1 K8' E Hb).
Qed.
End PathCanonN.
