(* Proofs/C02_QPort.v - L2 for the quirks port setter (url::quirks::set_port): the argument goes through the
   port state of the parser (setter context), whose result is a port <= 65535 different from the default of the
   scheme, or None; then Url::set_port_internal.  On a canonical record the result is canonical. *)
From RU Require Import Base.Prelude Base.Utf8 Base.Utf8Facts Model.AsciiSet Gen.Tables
  Model.PercentEncoding Model.HostT Model.UrlRecord Model.Parser Model.Setters Model.WF
  Proofs.ListN Proofs.C14_Set Proofs.C14_Enc Proofs.C14_Views Proofs.C02_Enc Proofs.C02_Parts
  Proofs.C02_Opaque Proofs.C02_Path Proofs.C02_PathL1 Proofs.C02_Reach Proofs.C16_RT Proofs.C02_AuthParts
  Proofs.C02_Auth Proofs.C02_AuthWf Proofs.C02_PathSp Proofs.C02_AuthSp Proofs.C02_AuthMain Proofs.C02_SetQF
  Proofs.C02_Canon Proofs.C02_SetPort Proofs.C03_ReachParts.
Open Scope N_scope.
Open Scope list_scope.

Lemma parse_port_ok ctx dflt l pt rem : parse_port ctx dflt l = POk (pt, rem) -> port_ok dflt pt.
Proof.
  intros H. pose proof (parse_port_le ctx dflt l pt rem H) as Hle. revert H. unfold parse_port.
  destruct (parse_port_loop ctx l 0 false) as [[[p any] rm]| |]; cbn [pbind]; try discriminate.
  destruct (negb any && ctx_eqb ctx CSetter && negb (inp_is_empty rm)); [discriminate|].
  intros E. inversion E; subst. clear E.
  destruct (negb any); cbn [orb] in *; [exact I|]. unfold opt_eqb in *.
  destruct dflt as [y|].
  - destruct (p =? y) eqn:Ey; [exact I|]. split; [exact Hle|]. intros Ed. inversion Ed; subst y.
    rewrite N.eqb_refl in Ey. discriminate Ey.
  - split; [exact Hle | discriminate].
Qed.

Section QPort.
Variable dbg : bool.
Variable hp hpo : list N -> result host.
Variable hd : host -> list N.

Theorem q_set_port_auth st sch ui h pt p q f v u' s : auth_ok hp hpo hd st sch ui h pt p q f -> st_is_file st = false ->
  q_set_port dbg (auth_url hd sch ui h pt p q f) v = Some (u', s) -> nlen (ser u') <= U32_MAX_P ->
  exists pt', auth_ok hp hpo hd st sch ui h pt' p q f /\ u' = auth_url hd sch ui h pt' p q f.
Proof.
  intros K Hnf. unfold q_set_port. rewrite (auth_cannot_port hp hpo hd st sch ui h pt p q f K Hnf). cbn [bindo].
  destruct (match h with HDomain [] => true | _ => false end) eqn:Eh.
  - intros E _. inversion E; subst. exists pt. split; [exact K | reflexivity].
  - assert (h <> HDomain []) as Hne by (intros ->; discriminate Eh).
    rewrite auth_scheme. cbn [bindo].
    destruct (parse_port CSetter (default_port sch) (input_new_no_trim v)) as [[p' rem]|e|] eqn:Ep; [| |discriminate].
    + rewrite auth_url_hp. rewrite set_port_internal_frame. cbn [bindo].
      intros E Hb. inversion E; subst u' s. clear E. rewrite <- auth_url_hp in *.
      exists p'. split; [|reflexivity]. apply (auth_ok_port hp hpo hd st sch ui h pt p q f); try assumption.
      exact (parse_port_ok _ _ _ _ _ Ep).
    + intros E _. inversion E; subst. exists pt. split; [exact K | reflexivity].
Qed.

Theorem q_set_port_Canon u v u' s : Canon hp hpo hd u ->
  q_set_port dbg u v = Some (u', s) -> nlen (ser u') <= U32_MAX_P -> Canon hp hpo hd u'.
Proof.
  intros C. destruct C as [sch P q f K | sch segs last q f K | sch ui h pt p q f K | sch ui h pt p q f K Kp].
  - unfold q_set_port, cannot_have_credentials_or_port, has_host. cbn [opaque_url hosti negb bindo].
    intros E _. inversion E; subst. exact (Canon_opaque hp hpo hd sch P q f K).
  - unfold q_set_port, cannot_have_credentials_or_port, has_host. cbn [noauth_url hosti negb bindo].
    intros E _. inversion E; subst. exact (Canon_noauth hp hpo hd sch segs last q f K).
  - intros E Hb. destruct (q_set_port_auth STNotSpecial sch ui h pt p q f v u' s K eq_refl E Hb) as (pt' & K' & ->).
    exact (Canon_auth hp hpo hd sch ui h pt' p q f K').
  - intros E Hb. destruct (q_set_port_auth STSpecialNotFile sch ui h pt p q f v u' s K eq_refl E Hb) as (pt' & K' & ->).
    exact (Canon_special hp hpo hd sch ui h pt' p q f K' Kp).
Qed.
End QPort.
