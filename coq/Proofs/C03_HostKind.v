(* Proofs/C03_HostKind.v - the host text invariant for IP hosts, part A (the parser):
     KT hd u : if the stored host kind is an address (HI_Ipv4 a / HI_Ipv6 p), the host slice of the serialization is the
               Display text hd of that address.
   (For a domain the record stores no value: Url::host() returns Domain(host slice), so host_str = Display(host) holds
   there by construction; for IP hosts it is this invariant, which wf_b does not carry.)
   Every record Parser::parse_url returns satisfies KT, from a base that is well-formed, satisfies bk and KT - any input,
   any override, both builds, the file scheme included.  The arms are those of C03_ParseFront.v (FD):
     after "//"          : phap_shape - the host text is the display of the host returned, the kind is hi_of_host of it;
     relative references : same_fd - kind and host text are those of the base;
     file states         : "file://" + display of the host Host::parse returned / the host text of the file base / no host. *)
From RU Require Import Base.Prelude Base.Utf8 Model.AsciiSet Gen.Tables Model.PercentEncoding
  Model.HostT Model.UrlRecord Model.Parser Model.Setters Model.WF
  Proofs.ListN Proofs.C06_List Proofs.C02_Parts Proofs.C03_WF Proofs.C06_WFI Proofs.C06_Tail Proofs.C06_Steps
  Proofs.C06_Suffix Proofs.C06_Front Proofs.C06_Main Proofs.C06_PathParser Proofs.C06_FragQuery Proofs.C04_Parse Proofs.C04_PathTotal Proofs.C04_ParseTotal
  Proofs.C03_ReachParts Proofs.C03_Reach Proofs.C03_ReachFile
  Proofs.C05_Enc Proofs.C05_Parser Proofs.C05_Frag Proofs.C05_PathClean Proofs.C05_ParseUI Proofs.C05_ParseArms Proofs.C05_ParseAll
  Proofs.C05_BaseOk Proofs.C05_AuthOfs Proofs.C05_AuthParse Proofs.C03_ReachAll Proofs.C03_Reachability Proofs.C03_PortInv Proofs.C03_AuthEnd
  Proofs.C03_ParseFront.
Open Scope N_scope.
Open Scope list_scope.

Definition ktx (hd : host -> list N) (hi : host_internal) (t : list N) : Prop :=
  match hi with
  | HI_Ipv4 a => t = hd (HIpv4 a)
  | HI_Ipv6 p => t = hd (HIpv6 p)
  | _ => True
  end.

Definition KT (hd : host -> list N) (u : url) : Prop := ktx hd (hosti u) (htext u).

Lemma ktx_host hd h : ktx hd (hi_of_host h) (hd h).
Proof. destruct h as [[|c d]|a|p]; cbn [hi_of_host ktx]; try exact I; reflexivity. Qed.

Lemma ktx_none hd t : ktx hd HI_None t.
Proof. exact I. Qed.

Lemma kt_no_host hd u : hosti u = HI_None -> KT hd u.
Proof. unfold KT. intros ->. exact I. Qed.

Lemma same_fd_KT hd b u : same_fd b u -> KT hd b -> KT hd u.
Proof.
  intros (_ & Eh & _ & Et) K. unfold KT in *. rewrite Eh.
  destruct (hosti b) eqn:E; try exact I; (rewrite Et; [exact K | unfold has_host; rewrite E; reflexivity]).
Qed.

Section Arms.
Variable dbg : bool.
Variable hp hpo : list N -> result host.
Variable hd : host -> list N.
Variable ovr : option (list N -> list N).
Hypothesis HW : HostWf hp hpo hd.
Local Notation KT := (KT hd).

(* ---------- after "//" ---------- *)
Theorem ads_kt st se ser0 l u : nlen ser0 = se + 1 -> st_is_file st = false ->
  after_double_slash dbg hp hpo hd ovr CUrlParser st se ser0 l = POk u -> KT u.
Proof using HW.
  intros L0 Hnf H. revert H. unfold after_double_slash. cbv zeta. intros H.
  pb H a Ha. destruct a as [[ser1 ue] rm]. destruct (parse_userinfo_shape _ _ _ _ _ _ Ha) as (x & -> & _).
  pb H hs Hhs. apply to_u32_eq in Hhs. subst hs.
  pb H b Hb. destruct b as [[[[ser2 he] hi] pt] rm2].
  destruct (phap_shape hp hpo hd HW _ _ _ _ _ _ _ _ _ Hnf Hb) as (h & -> & -> & -> & Hp & Hh).
  match type of H with (if ?c then _ else _) = _ => destruct c; [discriminate|] end.
  pb H ps Hps. apply to_u32_eq in Hps. subst ps.
  pb H c Hc. destruct c as [[s3 hh] rm3].
  destruct (parse_path_start_clean dbg CUrlParser st true _ rm2 s3 hh rm3 Hc) as (P & -> & HP).
  destruct (wqf_front _ _ _ _ _ _ _ _ _ _ _ _ H) as (_ & E3 & E4 & E5 & E6 & Hpre).
  set (ser1 := (ser0 ++ [47; 47]) ++ x) in *.
  assert (nlen ser1 = se + 3 + nlen x) as L1 by (subst ser1; rewrite !nlen_app, L0; change (nlen [47; 47]) with 2; lia).
  assert (agree_pre (nlen ((ser1 ++ hd h ++ ptext pt) ++ P)) ((ser1 ++ hd h ++ ptext pt) ++ P) (ser u)) as Hpre'.
  { apply Hpre; [rewrite !nlen_app; lia|].
    subst ser1. rewrite <- !app_assoc. rewrite nnth_app_ge by lia. replace (se + 2 - nlen ser0) with 1 by lia. reflexivity. }
  assert (htext u = hd h) as Et.
  { unfold htext, piece. rewrite E3, E4.
    rewrite (pre_piece _ _ _ _ _ Hpre') by (rewrite !nlen_app; lia).
    replace (nlen ser1 + nlen (hd h) - nlen ser1) with (nlen (hd h)) by lia.
    rewrite <- !app_assoc. rewrite nskipn_app_exact. apply nfirstn_app_exact. }
  unfold C03_HostKind.KT. rewrite E5, Et. apply ktx_host.
Qed.

(* ---------- relative references ---------- *)
Theorem parse_relative_kt st b l u : wf_b b = true -> sl1 b -> st_is_file st = false -> KT b ->
  parse_relative dbg hp hpo hd ovr CUrlParser st b l = POk u -> KT u.
Proof using HW.
  intros W Hs Hnf Fb. pose proof (path_start_le_len b W) as PL.
  assert (forall v, same_fd b v -> KT v) as Hsame by (intros v Sv; exact (same_fd_KT hd b v Sv Fb)).
  assert (nlen (nfirstn (path_start b) (ser b)) = path_start b) as La by (apply nlen_nfirstn; exact PL).
  destruct (wf_scheme_facts b W) as (S1 & S2 & S3).
  unfold parse_relative, inp_split_first. destruct (inp_next l) as [[c r]|] eqn:En.
  2:{ intros H. inversion H; subst u. apply Hsame. exact (cut_fragment_fd b W). }
  assert (inp_is_empty l = false) as He by (unfold inp_is_empty; rewrite En; reflexivity).
  destruct (c =? 63).
  { intros H. pb H a Ha. destruct a as [[s qs] fs]. inversion H; subst u. apply Hsame. exact (query_ref_fd ovr b st _ l s qs fs W Ha). }
  destruct (c =? 35); [intros H; apply Hsame; exact (fragment_only_fd b l u W H)|].
  destruct ((c =? 47) || (c =? 92) && st_is_special st).
  - destruct (inp_count_matching (fun d => (d =? 47) || (d =? 92) && st_is_special st) l) as [slashes remaining].
    destruct (2 <=? slashes).
    + cbv zeta. intros H. pb H x Hx.
      assert (nlen (nfirstn (scheme_end b + 1) (ser b)) = scheme_end b + 1) as L1 by (apply nlen_nfirstn; lia).
      assert (forall X, after_double_slash dbg hp hpo hd ovr CUrlParser st (scheme_end b) (nfirstn (scheme_end b + 1) (ser b)) X = POk u ->
                KT u) as Hads.
      { intros X HX. exact (ads_kt st _ _ X u L1 Hnf HX). }
      destruct (negb (st_is_special st)); [destruct (inp_split_prefix_str s_ss l)|]; exact (Hads _ H).
    + cbv zeta. intros H. pb H a Ha. destruct a as [[s hh] rem].
      set (P0 := nfirstn (path_start b) (ser b)) in *.
      assert (path_start b + 1 <= nlen (P0 ++ [47])) as G1 by (rewrite nlen_app, La; change (nlen [47]) with 1; lia).
      assert (nnth (P0 ++ [47]) (path_start b) = Some 47) as G2 by (rewrite <- La; apply nnth_last).
      assert (forallb no_qh (nskipn (path_start b) (P0 ++ [47])) = true) as G3
        by (rewrite <- La; rewrite nskipn_app_exact; reflexivity).
      destruct (parse_path_shape dbg st true (path_start b) (P0 ++ [47]) r s hh rem Hnf G1 G2 G3 Ha) as (A & B & C & _).
      apply Hsame. apply (base_path_fd ovr st b s rem u W); [|lia|exact H].
      eapply agree_pre_trans; [apply agree_pre_nfirstn; exact PL | eapply agree_pre_le; [exact A | lia]].
  - cbv zeta. intros H. pb H s1 Hs1.
    destruct (pop_base_shape hp hpo st b l s1 W Hnf Hs He Hs1) as (J1 & J2 & J3 & J4).
    set (s2 := if (nlen s1 =? path_start b) && (st_is_special (scheme_type_of (b_scheme b)) || negb (inp_is_empty l))
               then s1 ++ [47] else s1) in *.
    pb H a Ha. destruct a as [[s3 hh] rem].
    assert (exists X, parse_path dbg CUrlParser st true (path_start b) s2 X = POk (s3, hh, rem)) as [X EX].
    { destruct (N.eq_dec c 47) as [->|Hc]; [exists r; exact Ha|]. exists l.
      destruct c as [|p]; [exact Ha|]. do 6 (destruct p as [p|p|]; try exact Ha). congruence. }
    destruct (parse_path_shape dbg st true (path_start b) s2 X s3 hh rem Hnf J2 J3 J4 EX) as (A & B & C & _).
    apply Hsame. apply (base_path_fd ovr st b s3 rem u W); [|lia|exact H].
    eapply agree_pre_trans; [exact J1 | eapply agree_pre_le; [exact A | lia]].
Qed.

(* ---------- the file states ---------- *)
Lemma file_url_kt s hs he hi qs fs : ktx hd hi (nfirstn (he - hs) (nskipn hs s)) -> KT (file_url s hs he hi qs fs).
Proof using. intros H. exact H. Qed.

Lemma file_tail_kt st s hs he hi rem s4 qs fs :
  parse_query_and_fragment ovr CUrlParser st 4 s rem = POk (s4, qs, fs) -> he <= nlen s ->
  ktx hd hi (nfirstn (he - hs) (nskipn hs s)) -> KT (file_url s4 hs he hi qs fs).
Proof using.
  intros H Lh Ht. destruct (pqf_shape _ _ _ _ _ _ _ _ H) as (q & f & -> & _).
  apply file_url_kt. rewrite (pre_piece (nlen s) s _ hs he (agree_pre_app_r s _) Lh). exact Ht.
Qed.

Lemma file_fresh_kt st hh l u :
  (' (s2, _, rem) <~ parse_path dbg CUrlParser STFile hh 7 (s_file_css ++ [47]) l ;;
   ' (s3, qs, fs) <~ parse_query_and_fragment ovr CUrlParser st 4 s2 rem ;;
   POk (file_url s3 7 7 HI_None qs fs)) = POk u -> KT u.
Proof using.
  intros H. pb H a Ha. destruct a as [[s2 h2] rem]. pb H c Hc. destruct c as [[s3 qs] fs]. inversion H; subst u.
  apply kt_no_host. reflexivity.
Qed.

Theorem parse_file_kt st base_file l u :
  match base_file with
  | Some b => wf_b b = true /\ sl1 b /\ KT b
  | None => True
  end ->
  parse_file dbg hp hd ovr CUrlParser st base_file l = POk u -> KT u.
Proof using HW.
  intros Hb. unfold parse_file. destruct (inp_split_first l) as [first_char after_first] eqn:Esf.
  destruct (match first_char with Some c => is_slash_or_bslash c | None => false end) eqn:Efs.
  - destruct (inp_split_first after_first) as [next_char after_next].
    destruct (match next_char with Some c => is_slash_or_bslash c | None => false end).
    + (* "//" : file host *)
      intros H. pb H a Ha. destruct a as [[[ser1 flag] hi] remaining].
      assert (exists t, ser1 = s_file_css ++ t /\ ktx hd hi t) as (t & -> & Ht).
      { destruct (pfh_shape hp hpo hd HW _ _ _ _ _ _ Ha) as [(-> & ->)|(h & Hne & Hwf & -> & -> & _)].
        - exists []. split; [rewrite app_nil_r; reflexivity | exact I].
        - exists (hd h). split; [reflexivity | apply ktx_host]. }
      pb H he Hhe. apply to_u32_eq in Hhe. subst he. cbv zeta in H.
      pb H b Hb2. destruct b as [[ser2 hh] rem2].
      assert (exists P, ser2 = (s_file_css ++ t) ++ P) as (P & ->).
      { destruct flag.
        - destruct (parse_path_start_clean dbg CUrlParser STFile _ _ _ _ _ _ Hb2) as (P & E & _). exists P. exact E.
        - assert (PInvQ (nlen (s_file_css ++ t)) (s_file_css ++ t) ((s_file_css ++ t) ++ [47])) as I1
            by (apply pinvq_app; [reflexivity | apply pinvq_start | reflexivity]).
          destruct (pinvq_split _ _ (pinvq_parse_path dbg _ _ eq_refl _ _ _ _ _ _ _ _ Hb2 I1)) as (P & E & _). exists P. exact E. }
      destruct (negb hh); cbv beta iota zeta in H; pb H c Hc; destruct c as [[ser4 qs] fs]; inversion H; subst u.
      * apply kt_no_host. reflexivity.
      * apply (file_tail_kt st _ _ _ _ rem2 ser4 qs fs Hc).
        -- change (nlen (s_file_css ++ t) <= nlen ((s_file_css ++ t) ++ P)). rewrite (nlen_app _ P). lia.
        -- change (ktx hd hi (nfirstn (nlen (s_file_css ++ t) - 7) (nskipn 7 ((s_file_css ++ t) ++ P)))).
           rewrite nlen_app. change (nlen s_file_css) with 7.
           replace (7 + nlen t - 7) with (nlen t) by lia. rewrite <- !app_assoc.
           change 7 with (nlen s_file_css). rewrite nskipn_app_exact, nfirstn_app_exact. exact Ht.
    + (* a single slash *)
      set (T := if negb (starts_with_wdl_segment after_first)
                then match base_file with
                     | Some base =>
                         match base_first_segment base with
                         | Some seg =>
                             if is_normalized_wdl seg then (s_file_css ++ [47] ++ seg, 7, HI_None)
                             else match host_str base with
                                  | Some (Some hs) => (s_file_css ++ hs, nlen (s_file_css ++ hs), hosti base)
                                  | _ => (s_file_css, 7, HI_None)
                                  end
                         | None => (s_file_css, 7, HI_None)
                         end
                     | None => (s_file_css, 7, HI_None)
                     end
                else (s_file_css, 7, HI_None)).
      assert (let '(ser1, he, hi) := T in
              7 <= he /\ he <= nlen ser1 /\ nfirstn 7 ser1 = s_file_css /\ forallb pq (nskipn he ser1) = true
              /\ ktx hd hi (nfirstn (he - 7) (nskipn 7 ser1))) as HT.
      { assert (7 <= 7 /\ 7 <= nlen s_file_css /\ nfirstn 7 s_file_css = s_file_css /\ forallb pq (nskipn 7 s_file_css) = true
                /\ ktx hd HI_None (nfirstn (7 - 7) (nskipn 7 s_file_css))) as Hplain
          by (split; [lia|]; split; [vm_compute; discriminate | split; [reflexivity | split; [reflexivity | exact I]]]).
        subst T. destruct (negb (starts_with_wdl_segment after_first)); [|exact Hplain].
        destruct base_file as [base|]; [|exact Hplain].
        destruct (base_first_segment base) as [seg|]; [|exact Hplain].
        destruct (is_normalized_wdl seg) eqn:Ew.
        - destruct (normalized_wdl_form seg Ew) as (a & -> & Ha).
          split; [lia|]. split; [vm_compute; discriminate|]. split; [apply file_css_pre|]. split; [|exact I].
          replace 7 with (nlen s_file_css) by reflexivity. rewrite nskipn_app_exact. cbn [app forallb].
          rewrite (pq_alpha a Ha). reflexivity.
        - destruct (host_str base) as [[hs|]|] eqn:Ehs; try exact Hplain.
          split; [rewrite nlen_app; change (nlen s_file_css) with 7; lia|]. split; [lia|]. split; [apply file_css_pre|].
          split; [rewrite nskipn_all by lia; reflexivity|].
          destruct Hb as (Wb & _ & Kb).
          rewrite nlen_app. change (nlen s_file_css) with 7. replace (7 + nlen hs - 7) with (nlen hs) by lia.
          change 7 with (nlen s_file_css). rewrite nskipn_app_exact. rewrite nfirstn_all by lia.
          rewrite (host_str_eval base Wb) in Ehs. destruct (has_host base) eqn:Hh; [|discriminate].
          inversion Ehs; subst hs. exact Kb. }
      destruct T as [[ser1 he] hi]. destruct HT as (H7 & Hle & P7 & Hq & Ht).
      intros H. pb H a Ha. destruct a as [[ser2 hh] remaining]. pb H c Hc. destruct c as [[ser3 qs] fs]. inversion H; subst u.
      assert (nlen (nfirstn he ser1) = he) as Lp by (apply nlen_nfirstn; exact Hle).
      assert (PInvQ he (nfirstn he ser1) ser1) as I1 by (split; [reflexivity | exact Hq]).
      pose proof (pinvq_parse_path dbg he _ Lp _ _ _ _ _ _ _ _ Ha I1) as I2.
      assert (agree_pre he ser1 ser2) as Hpre by exact (proj1 I2).
      apply (file_tail_kt st ser2 _ _ _ remaining ser3 qs fs Hc).
      * exact (pinvq_len he _ Lp ser2 I2).
      * rewrite (pre_piece he ser1 ser2 7 he Hpre (N.le_refl _)). exact Ht.
  - destruct base_file as [base|]; [|apply file_fresh_kt].
    destruct Hb as (Wb & Sb & Fb).
    destruct first_char as [c|].
    2:{ intros H. inversion H; subst u. exact (same_fd_KT hd base _ (cut_fragment_fd base Wb) Fb). }
    destruct (c =? 63).
    { intros H. pb H a Ha. destruct a as [[s qs] fs]. inversion H; subst u.
      exact (same_fd_KT hd base _ (query_ref_fd ovr base st _ l s qs fs Wb Ha) Fb). }
    destruct (c =? 35); [intros H; exact (same_fd_KT hd base _ (fragment_only_fd base l u Wb H) Fb)|].
    destruct (negb (starts_with_wdl_segment l)); [|apply file_fresh_kt].
    intros H. pb H s1 Hs1. pb H a Ha. destruct a as [[s2 hh] rem].
    destruct (bq_shape base Wb) as (Ebq & P1 & P2). pose proof (path_start_le_len base Wb) as PL.
    pose proof (qf_facts_of base Wb) as (_ & _ & _ & Q4 & _).
    assert (nlen (nfirstn (path_start base) (ser base)) = path_start base) as Lp by (apply nlen_nfirstn; exact PL).
    assert (PInv (path_start base) (path_start base) (nfirstn (path_start base) (ser base)) (b_before_query base)) as I0.
    { rewrite Ebq. split; [apply nfirstn_nfirstn; exact P1|].
      replace (path_end base) with (path_start base + (path_end base - path_start base)) by lia.
      rewrite nskipn_nfirstn_comm. exact Q4. }
    pose proof (pinv_shorten_path (path_start base) (path_start base) (nfirstn (path_start base) (ser base))
                  (N.le_refl _) ltac:(lia) Lp STFile _ _ Hs1 I0) as I1.
    pose proof (pinv_len _ _ _ (N.le_refl _) ltac:(lia) Lp s1 I1) as L1. destruct I1 as [J1 J2].
    destruct (parse_path_shape_file dbg true (path_start base) s1 l s2 hh rem L1 J2 Ha) as (A & B & C & _).
    apply (same_fd_KT hd base u); [|exact Fb]. apply (base_path_fd ovr STFile base s2 rem u Wb); [|lia|exact H].
    eapply agree_pre_trans; [exact J1 | exact A].
Qed.

(* ---------- top level ---------- *)
Theorem parse_with_scheme_kt base sch l u :
  match base with Some b => wf_b b = true /\ bk b /\ KT b | None => True end ->
  parse_with_scheme dbg hp hpo hd ovr base sch l = POk u -> KT u.
Proof using HW.
  intros Hb. unfold parse_with_scheme. intros H. pb H se Hse. apply to_u32_eq in Hse. subst se. cbv zeta in H.
  assert (nlen (sch ++ [58]) = nlen sch + 1) as L0 by (rewrite nlen_app; reflexivity).
  destruct (scheme_type_of sch) eqn:Est.
  - eapply parse_file_kt; [|exact H].
    destruct base as [b|]; [|exact I]. destruct (list_eqb (b_scheme b) s_file) eqn:Eb; [|exact I].
    apply list_eqb_spec in Eb. destruct Hb as (W & K & Fb). split; [exact W|]. split; [|exact Fb].
    apply K. rewrite Eb. reflexivity.
  - destruct (inp_count_matching is_slash_or_bslash l) as [slashes remaining].
    assert (forall X, after_double_slash dbg hp hpo hd ovr CUrlParser STSpecialNotFile (nlen sch) (sch ++ [58]) X = POk u -> KT u) as Hads.
    { intros X HX. exact (ads_kt STSpecialNotFile _ _ X u L0 eq_refl HX). }
    destruct base as [b|]; [|exact (Hads _ H)].
    destruct ((slashes <? 2) && list_eqb (b_scheme b) sch) eqn:Ec; [|exact (Hads _ H)].
    apply andb_true_iff in Ec. destruct Ec as [_ Ec]. apply list_eqb_spec in Ec.
    pb H x Hx. destruct Hb as (W & K & Fb).
    refine (parse_relative_kt STSpecialNotFile b l u W (K _) eq_refl Fb H).
    rewrite Ec, Est. reflexivity.
  - unfold parse_non_special in H. destruct (inp_split_prefix_str s_ss l) as [rm|].
    + exact (ads_kt STNotSpecial _ _ rm u L0 eq_refl H).
    + pb H ps Hps. pb H a Ha. destruct a as [s1 rem].
      destruct (wqf_front _ _ _ _ _ _ _ _ _ _ _ _ H) as (_ & _ & _ & E5 & _ & _).
      apply kt_no_host. exact E5.
Qed.

Theorem parse_url_kt base input u :
  match base with Some b => wf_b b = true /\ bk b /\ KT b | None => True end ->
  parse_url dbg hp hpo hd ovr base input = POk u -> KT u.
Proof using HW.
  intros Hb. unfold parse_url. cbv zeta.
  destruct (parse_scheme CUrlParser (input_new_trim_c0 input)) as [[sch rem]|].
  - apply parse_with_scheme_kt. exact Hb.
  - destruct base as [b|]; [|discriminate]. destruct Hb as (W & K & Fb).
    destruct (inp_starts_with_char 35 (input_new_trim_c0 input)).
    { intros H. exact (same_fd_KT hd b u (fragment_only_fd b _ u W H) Fb). }
    rewrite (cannot_be_a_base_eval b W).
    destruct (byte_eqb (ser b) (scheme_end b + 1) 47) eqn:Eb; cbn [negb]; [|discriminate].
    apply byte_eqb_nnth in Eb.
    destruct (st_is_file (scheme_type_of (b_scheme b))) eqn:Ef.
    + intros H. eapply (parse_file_kt _ (Some b)); [|exact H].
      split; [exact W|]. split; [exact Eb | exact Fb].
    + intros H. exact (parse_relative_kt _ b _ u W Eb Ef Fb H).
Qed.

End Arms.

(* from a base with inv03 *)
Theorem parse_url_kt_inv dbg hp hpo hd ovr base input u : HostWf hp hpo hd ->
  match base with Some b => inv03 b /\ KT hd b | None => True end ->
  parse_url dbg hp hpo hd ovr base input = POk u -> KT hd u.
Proof.
  intros HW Hb Hp. apply (parse_url_kt dbg hp hpo hd ovr HW base input u); [|exact Hp].
  destruct base as [b|]; [|exact I]. destruct Hb as (([Wb Tb] & Ab & _) & Kb).
  split; [exact Wb|]. split; [exact (as_bk b Wb Ab) | exact Kb].
Qed.
