(* Proofs/C08_RelEval.v - make_relative on a target with the same path: the reference is exactly
   ["?" query]["#" fragment] of the target (so its resolution is given by C08_empty / C08_frag / C08_query). *)
From RU Require Import Base.Prelude Model.HostT Model.UrlRecord Model.Parser Model.MakeRelative
  Proofs.C02_Parts.

Lemma list_eqb_refl l : list_eqb l l = true.
Proof. apply list_eqb_spec. reflexivity. Qed.

Lemma skip_common_same l : skip_common l l = ([], []).
Proof. induction l as [|x r IH]; [reflexivity|]. cbn [skip_common]. rewrite list_eqb_refl. exact IH. Qed.

Lemma mr_path_part_same d f : mr_path_part d f d f = [].
Proof.
  unfold mr_path_part. rewrite skip_common_same. cbn [emit_dotdot emit_rest]. unfold add_filename.
  rewrite list_eqb_refl. reflexivity.
Qed.

Lemma mr_host_eqb_refl h : mr_host_eqb h h = true.
Proof. destruct h; cbn [mr_host_eqb]; try apply list_eqb_refl. apply N.eqb_refl. Qed.

Lemma opt_eqb_refl o : opt_eqb o o = true.
Proof. destruct o; cbn [opt_eqb]; [apply N.eqb_refl | reflexivity]. Qed.

Theorem make_relative_same_path dbg b t sch h p q f :
  cannot_be_a_base b = Some false -> cannot_be_a_base t = Some false ->
  scheme b = Some sch -> scheme t = Some sch ->
  host_of b = Some h -> host_of t = Some h -> port b = port t ->
  path b = Some p -> path t = Some p -> extract_path_filename p <> None ->
  query dbg t = Some q -> fragment dbg t = Some f ->
  make_relative dbg b t = Some (Some (qf_text q f)).
Proof.
  intros Cb Ct Sb St Hb Ht Pp Pb Pt Hx Q F. unfold make_relative.
  rewrite Cb. cbn [bindo]. rewrite Ct. cbn [bindo orb]. rewrite Sb, St. cbn [bindo]. rewrite list_eqb_refl. cbn [negb].
  rewrite Hb, Ht. cbn [bindo].
  assert (mr_opt_host_eqb h h = true) as -> by (destruct h; [apply mr_host_eqb_refl | reflexivity]). cbn [negb].
  rewrite Pp, opt_eqb_refl. cbn [negb]. rewrite Pb, Pt. cbn [bindo].
  destruct (extract_path_filename p) as [[d fl]|]; [|contradiction]. cbn [bindo fst snd].
  rewrite mr_path_part_same. rewrite Q. cbn [bindo]. rewrite F. cbn [bindo].
  unfold qf_text, qf_qtext, qf_ftext. destruct q, f; cbn [app]; rewrite ?app_nil_r; reflexivity.
Qed.
