(* Proofs/C18_Spec.v - the streaming decoder computes the Infra forgiving-base64 decode;
   decode (standard_encode x) = x. *)
From RU Require Import Base.Prelude Gen.Tables Model.Base64 Spec.Infra Proofs.C18_Table Proofs.C18_Machine.

(* ---- machine arithmetic ---- *)
Lemma land_mul64_small q v : v < 64 -> N.land (q * 64) v = 0.
Proof.
  intros Hv. apply N.bits_inj. intros m. rewrite N.land_spec, N.bits_0.
  destruct (m <? 6) eqn:Hm.
  - change 64 with (2 ^ 6). rewrite N.mul_pow2_bits_low by lia. reflexivity.
  - replace v with (v mod 2 ^ 6) by (change (2 ^ 6) with 64; apply N.mod_small; exact Hv).
    rewrite N.mod_pow2_bits_high by lia. apply andb_false_r.
Qed.

Lemma lor_shl6 x v : v < 64 -> N.lor (u32_shl x 6) v = (x * 64) mod 4294967296 + v.
Proof.
  intros Hv. unfold u32_shl, u32_modulus. rewrite N.shiftl_mul_pow2. change (2 ^ 6) with 64.
  assert (HX : (x * 64) mod 4294967296 = (x mod 67108864) * 64) by lia.
  rewrite HX. rewrite <- N.lxor_lor by (apply land_mul64_small; exact Hv).
  symmetry. apply N.add_nocarry_lxor. apply land_mul64_small; exact Hv.
Qed.

Lemma shr_as_div x : N.shiftr x 16 = x / 65536 /\ N.shiftr x 8 = x / 256 /\ N.shiftr x 4 = x / 16
                     /\ N.shiftr x 10 = x / 1024 /\ N.shiftr x 2 = x / 4.
Proof. rewrite !N.shiftr_div_pow2. repeat split. Qed.

Lemma buf_mod_6 B v : v < 64 -> ((B * 64) mod 4294967296 + v) mod 64 = v.
Proof. intros H. lia. Qed.
Lemma buf_mod_12 B v : v < 64 -> ((B * 64) mod 4294967296 + v) mod 4096 = (B mod 64) * 64 + v.
Proof. intros H. lia. Qed.
Lemma buf_mod_18 B v : v < 64 -> ((B * 64) mod 4294967296 + v) mod 262144 = (B mod 4096) * 64 + v.
Proof. intros H. lia. Qed.
Lemma buf_mod_24 B v : v < 64 -> ((B * 64) mod 4294967296 + v) mod 16777216 = (B mod 262144) * 64 + v.
Proof. intros H. lia. Qed.
Lemma bytes_of_24_hi S buf : S = buf mod 16777216 -> S / 65536 = (buf / 65536) mod 256.
Proof. intros H. lia. Qed.
Lemma bytes_of_24_mid S buf : S = buf mod 16777216 -> (S / 256) mod 256 = (buf / 256) mod 256.
Proof. intros H. lia. Qed.
Lemma bytes_of_24_lo S buf : S = buf mod 16777216 -> S mod 256 = buf mod 256.
Proof. intros H. lia. Qed.
Lemma bytes_of_12 S buf : S = buf mod 4096 -> S / 16 = (buf / 16) mod 256.
Proof. intros H. lia. Qed.
Lemma bytes_of_18_hi S buf : S = buf mod 262144 -> S / 1024 = (buf / 1024) mod 256.
Proof. intros H. lia. Qed.
Lemma bytes_of_18_lo S buf : S = buf mod 262144 -> (S / 4) mod 256 = (buf / 4) mod 256.
Proof. intros H. lia. Qed.

(* ---- one alphabet symbol ---- *)
Lemma pstep_alpha p c v :
  alphabet_index c = Some v -> p_pad p = 0 ->
  pstep p c =
  let buf := (p_buf p * 64) mod 4294967296 + v in
  if p_len p <? 18 then PSkip (mk_pst buf (p_len p + 6) 0)
  else PEmit (mk_pst buf (p_len p) 0) [(buf / 65536) mod 256; (buf / 256) mod 256; buf mod 256].
Proof.
  intros Hv Hpad. pose proof (alphabet_index_lt64 c v Hv) as Hlt.
  unfold pstep. rewrite b64_value_spec, Hv, Hpad.
  replace (Z.of_N v <? 0)%Z with false by lia. replace (0 <? 0) with false by reflexivity.
  rewrite N2Z.id, lor_shl6 by exact Hlt. cbv zeta.
  destruct (shr_as_div ((p_buf p * 64) mod 4294967296 + v)) as [H16 [H8 _]].
  rewrite H16, H8. unfold as_u8. reflexivity.
Qed.

Lemma pstep_ws p c : is_ascii_whitespace c = true -> pstep p c = PSkip p.
Proof.
  intros Hws. unfold pstep. rewrite b64_value_spec, (ws_not_alphabet c Hws), ws_list_is_infra, Hws.
  reflexivity.
Qed.

Lemma pstep_equals p : pstep p 61 = PSkip (mk_pst (p_buf p) (p_len p) (u8_saturating_add (p_pad p) 1)).
Proof.
  unfold pstep. rewrite b64_value_spec, equals_not_alphabet, ws_list_is_infra, equals_not_ws, pad_is_equals.
  reflexivity.
Qed.

Lemma pstep_other p c :
  alphabet_index c = None -> is_ascii_whitespace c = false -> (c =? 61) = false ->
  pstep p c = PErr (UnexpectedSymbol c).
Proof.
  intros Ha Hw He. unfold pstep. rewrite b64_value_spec, Ha, ws_list_is_infra, Hw, pad_is_equals, He.
  reflexivity.
Qed.

Lemma pstep_alpha_after_pad p c v :
  alphabet_index c = Some v -> 0 < p_pad p -> pstep p c = PErr AlphabetSymbolAfterPadding.
Proof.
  intros Hv Hpad. unfold pstep. rewrite b64_value_spec, Hv.
  replace (Z.of_N v <? 0)%Z with false by lia. replace (0 <? p_pad p) with true by lia. reflexivity.
Qed.

(* ---- whitespace is skipped ---- *)
Lemma ptrace_strip_ws p input : ptrace p input = ptrace p (strip_whitespace input).
Proof.
  revert p. induction input as [|c r IH]; intros p; [reflexivity|].
  unfold strip_whitespace in *. cbn [filter].
  destruct (is_ascii_whitespace c) eqn:Hws; cbn [negb].
  - cbn [ptrace]. rewrite (pstep_ws p c Hws). apply IH.
  - cbn [ptrace]. destruct (pstep p c) as [p'|p' ch|e]; [apply IH | rewrite IH; reflexivity | reflexivity].
Qed.

Definition no_ws (l : list N) : Prop := forallb (fun c => negb (is_ascii_whitespace c)) l = true.

Lemma strip_ws_no_ws input : no_ws (strip_whitespace input).
Proof.
  unfold no_ws, strip_whitespace. apply forallb_forall. intros c Hc. apply filter_In in Hc. tauto.
Qed.

(* ---- the decomposition: maximal alphabet prefix, rest ---- *)
Fixpoint span_alpha (d : list N) : list N * list N :=
  match d with
  | [] => ([], [])
  | c :: r => match alphabet_index c with
              | Some v => let (vs, rest) := span_alpha r in (v :: vs, rest)
              | None => ([], d)
              end
  end.

Definition head_not_alpha (l : list N) : Prop :=
  match l with [] => True | c :: _ => alphabet_index c = None end.

Lemma span_alpha_spec d :
  exists A, d = A ++ snd (span_alpha d) /\ sextets A = Some (fst (span_alpha d))
            /\ head_not_alpha (snd (span_alpha d)).
Proof.
  induction d as [|c r IH].
  - exists []. cbn. repeat split.
  - cbn [span_alpha]. destruct (alphabet_index c) as [v|] eqn:Hv.
    + destruct IH as [A [H1 [H2 H3]]]. destruct (span_alpha r) as [vs rest]. cbn [fst snd] in *.
      exists (c :: A). repeat split.
      * cbn [app]. congruence.
      * cbn [sextets]. rewrite Hv, H2. reflexivity.
      * exact H3.
    + exists []. cbn [fst snd app sextets head_not_alpha]. repeat split. exact Hv.
Qed.

Lemma span_alpha_app X ns t :
  sextets X = Some ns -> head_not_alpha t -> span_alpha (X ++ t) = (ns, t).
Proof.
  revert ns. induction X as [|c r IH]; intros ns HX Ht.
  - cbn [sextets] in HX. inversion HX; subst. cbn [app].
    destruct t as [|c t']; [reflexivity|]. cbn [span_alpha]. cbn [head_not_alpha] in Ht. rewrite Ht. reflexivity.
  - cbn [sextets] in HX. destruct (alphabet_index c) as [v|] eqn:Hv; [|discriminate].
    destruct (sextets r) as [ns'|] eqn:Hr; [|discriminate]. inversion HX; subst.
    cbn [app span_alpha]. rewrite Hv, (IH ns' eq_refl Ht). reflexivity.
Qed.

Lemma sextets_length X ns : sextets X = Some ns -> length ns = length X.
Proof.
  revert ns. induction X as [|c r IH]; intros ns H; cbn [sextets] in H.
  - inversion H. reflexivity.
  - destruct (alphabet_index c); [|discriminate]. destruct (sextets r) as [ns'|]; [|discriminate].
    inversion H; subst. cbn [length]. f_equal. apply IH. reflexivity.
Qed.

(* ---- invariant between the u32 bit buffer and Infra's buffer ---- *)
Definition Inv (p : pst) (sb nb : N) : Prop :=
  p_pad p = 0 /\ p_len p = nb /\
  ((nb = 0 /\ sb = 0) \/ (nb = 6 /\ sb = p_buf p mod 64) \/ (nb = 12 /\ sb = p_buf p mod 4096)
   \/ (nb = 18 /\ sb = p_buf p mod 262144)).

Lemma accumulate_cons out sb nb n r :
  accumulate out sb nb (n :: r) =
  if nb + 6 =? 24
  then accumulate (out ++ [(sb * 64 + n) / 65536; ((sb * 64 + n) / 256) mod 256; (sb * 64 + n) mod 256]) 0 0 r
  else accumulate out (sb * 64 + n) (nb + 6) r.
Proof. reflexivity. Qed.

Lemma ptrace_alpha A : forall vs p sb nb out,
  sextets A = Some vs -> Inv p sb nb ->
  exists calls p' sb' nb',
    ptrace p A = (calls, inl p')
    /\ accumulate out sb nb vs = (out ++ concat calls, sb', nb')
    /\ Inv p' sb' nb'
    /\ nb' = 6 * ((nb / 6 + N.of_nat (length vs)) mod 4).
Proof.
  induction A as [|c r IH]; intros vs p sb nb out HA HI.
  - cbn [sextets] in HA. inversion HA; subst vs.
    exists [], p, sb, nb. cbn [ptrace accumulate concat length]. rewrite app_nil_r.
    refine (conj eq_refl (conj eq_refl (conj HI _))).
    destruct HI as [_ [_ HC]]. lia.
  - cbn [sextets] in HA. destruct (alphabet_index c) as [v|] eqn:Hv; [|discriminate].
    destruct (sextets r) as [vs'|] eqn:Hr; [|discriminate]. inversion HA; subst vs. clear HA.
    pose proof (alphabet_index_lt64 c v Hv) as Hlt.
    destruct HI as [Hpad [Hlen HC]].
    cbn [ptrace]. rewrite (pstep_alpha p c v Hv Hpad). cbv zeta. rewrite accumulate_cons, Hlen.
    destruct (nb <? 18) eqn:Hnb.
    + (* no write *)
      replace (nb + 6 =? 24) with false by lia.
      destruct (IH vs' (mk_pst ((p_buf p * 64) mod 4294967296 + v) (nb + 6) 0) (sb * 64 + v) (nb + 6) out eq_refl)
        as [calls [p' [sb' [nb' [H1 [H2 [H3 H4]]]]]]].
      { unfold Inv. cbn [p_pad p_len p_buf]. split; [reflexivity|]. split; [reflexivity|].
        destruct HC as [[Hn Hs]|[[Hn Hs]|[[Hn Hs]|[Hn Hs]]]]; rewrite Hn in *; rewrite Hs.
        - right. left. split; [reflexivity|]. rewrite (buf_mod_6 _ _ Hlt). lia.
        - right. right. left. split; [reflexivity|]. rewrite (buf_mod_12 _ _ Hlt). reflexivity.
        - right. right. right. split; [reflexivity|]. rewrite (buf_mod_18 _ _ Hlt). reflexivity.
        - discriminate Hnb. }
      exists calls, p', sb', nb'. refine (conj H1 (conj H2 (conj H3 _))).
      rewrite H4. cbn [length].
      destruct HC as [[Hn _]|[[Hn _]|[[Hn _]|[Hn _]]]]; rewrite Hn in *; try discriminate Hnb; lia.
    + (* the fourth symbol: write three bytes *)
      assert (Hnb18 : nb = 18).
      { destruct HC as [[Hn _]|[[Hn _]|[[Hn _]|[Hn _]]]]; rewrite Hn in Hnb; try discriminate Hnb; exact Hn. }
      rewrite Hnb18 in *.
      replace (18 + 6 =? 24) with true by reflexivity.
      set (buf := (p_buf p * 64) mod 4294967296 + v).
      assert (Hsb : sb = p_buf p mod 262144).
      { destruct HC as [[Hn Hs]|[[Hn Hs]|[[Hn Hs]|[Hn Hs]]]]; try discriminate Hn. exact Hs. }
      destruct (IH vs' (p_reset (mk_pst buf 18 0)) 0 0
                   (out ++ [(sb * 64 + v) / 65536; ((sb * 64 + v) / 256) mod 256; (sb * 64 + v) mod 256]) eq_refl)
        as [calls [p' [sb' [nb' [H1 [H2 [H3 H4]]]]]]].
      { unfold Inv, p_reset. cbn [p_pad p_len p_buf]. split; [reflexivity|]. split; [reflexivity|].
        left. split; reflexivity. }
      rewrite H1.
      exists ([(buf / 65536) mod 256; (buf / 256) mod 256; buf mod 256] :: calls), p', sb', nb'.
      refine (conj eq_refl (conj _ (conj H3 _))).
      * rewrite H2. cbn [concat]. rewrite <- app_assoc. f_equal. f_equal. f_equal.
        assert (HS : sb * 64 + v = buf mod 16777216).
        { subst buf sb. rewrite (buf_mod_24 _ _ Hlt). reflexivity. }
        cbn [app]. rewrite (bytes_of_24_hi _ _ HS), (bytes_of_24_mid _ _ HS), (bytes_of_24_lo _ _ HS).
        reflexivity.
      * rewrite H4. cbn [length]. lia.
Qed.

(* ---- after the alphabet prefix: only '=' may follow ---- *)
Definition all61 (l : list N) : bool := forallb (fun c => c =? 61) l.

Lemma ptrace_padding l : forall p,
  no_ws l -> (0 < p_pad p \/ head_not_alpha l) ->
  if all61 l
  then ptrace p l = ([], inl (mk_pst (p_buf p) (p_len p) (N.min 255 (p_pad p + N.of_nat (length l)))))
       \/ (l = [] /\ ptrace p l = ([], inl p))
  else exists e, ptrace p l = ([], inr e).
Proof.
  induction l as [|c r IH]; intros p Hws Hhd.
  - cbn [all61 forallb ptrace]. right. split; reflexivity.
  - unfold no_ws in Hws. cbn [forallb] in Hws. apply andb_true_iff in Hws. destruct Hws as [Hc Hr].
    cbn [all61 forallb ptrace].
    destruct (c =? 61) eqn:He.
    + apply N.eqb_eq in He. subst c. rewrite pstep_equals. cbn [andb].
      specialize (IH (mk_pst (p_buf p) (p_len p) (u8_saturating_add (p_pad p) 1)) Hr).
      assert (Hpos : 0 < u8_saturating_add (p_pad p) 1) by (unfold u8_saturating_add; destruct (p_pad p + 1 <=? 255); lia).
      specialize (IH (or_introl Hpos)). fold (all61 r) in *.
      destruct (all61 r).
      * left. destruct IH as [IH|[-> IH]]; rewrite IH; cbn [p_buf p_len p_pad length]; f_equal; f_equal; f_equal;
          unfold u8_saturating_add; destruct (p_pad p + 1 <=? 255) eqn:Hs; lia.
      * exact IH.
    + cbn [andb]. destruct (alphabet_index c) as [v|] eqn:Hv.
      * destruct Hhd as [Hpad|Hhd]; [|cbn [head_not_alpha] in Hhd; congruence].
        rewrite (pstep_alpha_after_pad p c v Hv Hpad). eexists; reflexivity.
      * assert (Hw : is_ascii_whitespace c = false)
          by (destruct (is_ascii_whitespace c); [discriminate Hc | reflexivity]).
        rewrite (pstep_other p c Hv Hw He). eexists; reflexivity.
Qed.

(* ---- the hub: a closed description of the result on whitespace-free data ---- *)
Definition shape_ok (n4 p : N) : bool :=
  ((n4 =? 0) && (p =? 0)) || ((n4 =? 2) && ((p =? 0) || (p =? 2))) || ((n4 =? 3) && ((p =? 0) || (p =? 1))).

Definition tidy (data : list N) : option (list N) :=
  let (vs, rest) := span_alpha data in
  if all61 rest && shape_ok (N.of_nat (length vs) mod 4) (N.of_nat (length rest))
  then Some (flush_buffer (accumulate [] 0 0 vs))
  else None.

(* ---- finish = Infra's step 9, and the verdict table ---- *)
Lemma min255_eqb P : (N.min 255 P =? 0) = (P =? 0) /\ (N.min 255 P =? 1) = (P =? 1) /\ (N.min 255 P =? 2) = (P =? 2).
Proof. repeat split; lia. Qed.

Lemma pfinish_flush p sb nb out P :
  Inv p sb nb ->
  if shape_ok (nb / 6) P
  then exists c2, pfinish (mk_pst (p_buf p) (p_len p) (N.min 255 P)) = (c2, None)
                  /\ flush_buffer (out, sb, nb) = out ++ concat c2
  else snd (pfinish (mk_pst (p_buf p) (p_len p) (N.min 255 P))) <> None.
Proof.
  intros [Hpad [Hlen HC]]. unfold pfinish, shape_ok. cbn [p_buf p_len p_pad]. rewrite Hlen.
  destruct (min255_eqb P) as [M0 [M1 M2]]. rewrite M0, M1, M2.
  destruct (shr_as_div (p_buf p)) as [_ [_ [S4 [S10 S2]]]]. rewrite S4, S10, S2. unfold as_u8, flush_buffer.
  destruct HC as [[Hn Hs]|[[Hn Hs]|[[Hn Hs]|[Hn Hs]]]]; rewrite Hn.
  - change (0 / 6) with 0. change (0 =? 0) with true. change (0 =? 2) with false. change (0 =? 3) with false.
    change (0 =? 12) with false. change (0 =? 18) with false. change (0 =? 6) with false.
    cbn [andb orb]. destruct (P =? 0); cbn [andb orb snd].
    + exists []. cbn [concat]. rewrite app_nil_r. split; reflexivity.
    + discriminate.
  - change (6 / 6) with 1. change (1 =? 0) with false. change (1 =? 2) with false. change (1 =? 3) with false.
    change (6 =? 0) with false. change (6 =? 12) with false. change (6 =? 18) with false. change (6 =? 6) with true.
    cbn [andb orb snd]. discriminate.
  - change (12 / 6) with 2. change (2 =? 0) with false. change (2 =? 2) with true. change (2 =? 3) with false.
    change (12 =? 0) with false. change (12 =? 12) with true. change (12 =? 18) with false. change (12 =? 6) with false.
    cbn [andb orb].
    rewrite (orb_comm (P =? 0) (P =? 2)).
    destruct ((P =? 2) || (P =? 0)); cbn [snd].
    + eexists. split; [reflexivity|]. cbn [concat app]. rewrite (bytes_of_12 _ _ Hs). reflexivity.
    + discriminate.
  - change (18 / 6) with 3. change (3 =? 0) with false. change (3 =? 2) with false. change (3 =? 3) with true.
    change (18 =? 0) with false. change (18 =? 12) with false. change (18 =? 18) with true. change (18 =? 6) with false.
    cbn [andb orb].
    rewrite (orb_comm (P =? 0) (P =? 1)).
    destruct ((P =? 1) || (P =? 0)); cbn [snd].
    + eexists. split; [reflexivity|]. cbn [concat app].
      rewrite (bytes_of_18_hi _ _ Hs), (bytes_of_18_lo _ _ Hs). reflexivity.
    + discriminate.
Qed.

Lemma no_ws_app a b : no_ws (a ++ b) -> no_ws a /\ no_ws b.
Proof. unfold no_ws. rewrite forallb_app. intros H. apply andb_true_iff in H. exact H. Qed.

Lemma Inv_new : Inv p_new 0 0.
Proof. unfold Inv, p_new. cbn [p_pad p_len p_buf]. split; [reflexivity|]. split; [reflexivity|]. left. split; reflexivity. Qed.

Theorem prun_tidy data :
  no_ws data ->
  match tidy data with
  | Some out => snd (prun data) = None /\ concat (fst (prun data)) = out
  | None => snd (prun data) <> None
  end.
Proof.
  intros Hws. destruct (span_alpha_spec data) as [A [HD [HA Hhd]]]. unfold tidy.
  destruct (span_alpha data) as [vs rest]. cbn [fst snd] in *.
  rewrite HD in Hws. apply no_ws_app in Hws. destruct Hws as [_ Hwr].
  unfold prun. rewrite HD. rewrite ptrace_app.
  destruct (ptrace_alpha A vs p_new 0 0 [] HA Inv_new) as [calls [p' [sb' [nb' [H1 [H2 [H3 H4]]]]]]].
  rewrite H1, H2.
  assert (Hn4 : nb' / 6 = N.of_nat (length vs) mod 4) by lia.
  pose proof (ptrace_padding rest p' Hwr (or_intror Hhd)) as HP.
  pose proof H3 as [Hpad' _].
  destruct (all61 rest) eqn:Hall; cbn [andb].
  - assert (HP' : ptrace p' rest = ([], inl (mk_pst (p_buf p') (p_len p') (N.min 255 (N.of_nat (length rest)))))).
    { destruct HP as [HP|[Hr HP]].
      - rewrite HP, Hpad'. reflexivity.
      - rewrite HP, Hr. cbn [length]. destruct p' as [b l q]. cbn [p_pad p_buf p_len] in *. subst q. reflexivity. }
    rewrite HP'. pose proof (pfinish_flush p' sb' nb' (concat calls) (N.of_nat (length rest)) H3) as HF.
    rewrite Hn4 in HF. cbn [app] in *.
    destruct (shape_ok (N.of_nat (length vs) mod 4) (N.of_nat (length rest))).
    + destruct HF as [c2 [HF1 HF2]]. rewrite HF1. cbn [fst snd]. split; [reflexivity|].
      rewrite app_nil_r, concat_app. symmetry. exact HF2.
    + destruct (pfinish _) as [c2 v]. cbn [snd] in *. exact HF.
  - destruct HP as [e HP]. rewrite HP. cbn [snd]. discriminate.
Qed.

(* ---- the Infra algorithm computes the same closed description ---- *)
Lemma ends_with_equals_snoc x c : ends_with_equals (x ++ [c]) = (c =? 61).
Proof. unfold ends_with_equals. rewrite rev_app_distr. reflexivity. Qed.

Lemma remove_last_snoc x c : remove_last (x ++ [c]) = x.
Proof. unfold remove_last. rewrite rev_app_distr. cbn [rev app tl]. apply rev_involutive. Qed.

Lemma list_snoc_cases (l : list N) : l = [] \/ exists x c, l = x ++ [c].
Proof. induction l as [|c x _] using rev_ind; [left; reflexivity | right; exists x, c; reflexivity]. Qed.

Lemma strip_padding_cases d :
  exists t, d = strip_padding d ++ t /\
            (t = [] \/ (N.of_nat (length d) mod 4 = 0 /\ (t = [61] \/ t = [61; 61]))).
Proof.
  unfold strip_padding. destruct (N.of_nat (length d) mod 4 =? 0) eqn:Hm.
  2:{ exists []. rewrite app_nil_r. split; [reflexivity | left; reflexivity]. }
  apply N.eqb_eq in Hm.
  destruct (list_snoc_cases d) as [->|[x [c ->]]].
  { exists []. split; [reflexivity | left; reflexivity]. }
  rewrite ends_with_equals_snoc, remove_last_snoc.
  destruct (c =? 61) eqn:Hc.
  2:{ exists []. rewrite app_nil_r. split; [reflexivity | left; reflexivity]. }
  apply N.eqb_eq in Hc. subst c.
  destruct (list_snoc_cases x) as [->|[y [c2 ->]]].
  { exists [61]. split; [reflexivity | right; split; [exact Hm | left; reflexivity]]. }
  rewrite ends_with_equals_snoc, remove_last_snoc.
  destruct (c2 =? 61) eqn:Hc2.
  - apply N.eqb_eq in Hc2. subst c2. exists [61; 61].
    split; [rewrite <- app_assoc; reflexivity | right; split; [exact Hm | right; reflexivity]].
  - exists [61]. split; [reflexivity | right; split; [exact Hm | left; reflexivity]].
Qed.

Lemma sextets_ends A vs : sextets A = Some vs -> ends_with_equals A = false.
Proof.
  intros HA. destruct (list_snoc_cases A) as [->|[x [c ->]]]; [reflexivity|].
  rewrite ends_with_equals_snoc. destruct (c =? 61) eqn:Hc; [|reflexivity].
  apply N.eqb_eq in Hc. subst c. exfalso.
  revert vs HA. induction x as [|a r IH]; intros vs HA.
  - cbn [app sextets] in HA. rewrite equals_not_alphabet in HA. discriminate.
  - cbn [app sextets] in HA. destruct (alphabet_index a); [|discriminate].
    destruct (sextets (r ++ [61])) as [ns|]; [|discriminate]. exact (IH ns eq_refl).
Qed.

Lemma all61_cases rest :
  all61 rest = true ->
  rest = [] \/ rest = [61] \/ rest = [61; 61] \/ (3 <= length rest)%nat.
Proof.
  intros H. destruct rest as [|a [|b [|c r]]].
  - left; reflexivity.
  - cbn in H. right; left. f_equal. lia.
  - cbn in H. right; right; left. f_equal; [|f_equal]; lia.
  - right; right; right. cbn [length]. lia.
Qed.

Definition infra_core (data : list N) : option (list N) :=
  let data := strip_padding data in
  if N.of_nat (length data) mod 4 =? 1 then None
  else match sextets data with
       | None => None
       | Some ns => Some (flush_buffer (accumulate [] 0 0 ns))
       end.

Lemma infra_unfold input : forgiving_base64_decode input = infra_core (strip_whitespace input).
Proof. reflexivity. Qed.

Lemma head_not_alpha_pad t : t = [] \/ t = [61] \/ t = [61; 61] -> head_not_alpha t /\ all61 t = true.
Proof.
  intros [->|[->| ->]]; cbn [head_not_alpha]; split; try exact I; try exact equals_not_alphabet; reflexivity.
Qed.

Theorem infra_tidy data : infra_core data = tidy data.
Proof.
  unfold tidy. destruct (span_alpha_spec data) as [A [HD [HA Hhd]]].
  destruct (span_alpha data) as [vs rest] eqn:Hspan. cbn [fst snd] in *.
  pose proof (sextets_length A vs HA) as HlenA.
  destruct (all61 rest && shape_ok (N.of_nat (length vs) mod 4) (N.of_nat (length rest))) eqn:Hok.
  - (* accepted shapes: strip_padding leaves exactly the alphabet prefix *)
    apply andb_true_iff in Hok. destruct Hok as [Hall Hshape].
    assert (Hsp : strip_padding data = A /\ N.of_nat (length vs) mod 4 <> 1).
    { unfold shape_ok in Hshape.
      destruct (all61_cases rest Hall) as [Hr|[Hr|[Hr|Hr]]].
      - subst rest. rewrite app_nil_r in HD. subst data. split; [|cbn [length] in Hshape; lia].
        unfold strip_padding. rewrite (sextets_ends A vs HA). destruct (N.of_nat (length A) mod 4 =? 0); reflexivity.
      - subst rest. subst data. cbn [length] in Hshape. split; [|lia].
        unfold strip_padding. rewrite app_length. cbn [length].
        replace (N.of_nat (length A + 1) mod 4 =? 0) with true by lia.
        rewrite ends_with_equals_snoc, remove_last_snoc, (sextets_ends A vs HA). reflexivity.
      - subst rest. subst data. cbn [length] in Hshape. split; [|lia].
        unfold strip_padding. rewrite app_length. cbn [length].
        replace (N.of_nat (length A + 2) mod 4 =? 0) with true by lia.
        change [61; 61] with ([61] ++ [61]). rewrite app_assoc.
        rewrite ends_with_equals_snoc, remove_last_snoc, ends_with_equals_snoc, remove_last_snoc. reflexivity.
      - exfalso. lia. }
    destruct Hsp as [Hsp Hne]. unfold infra_core. rewrite Hsp, HA, <- HlenA.
    replace (N.of_nat (length vs) mod 4 =? 1) with false by lia. reflexivity.
  - (* everything else fails *)
    unfold infra_core.
    destruct (N.of_nat (length (strip_padding data)) mod 4 =? 1) eqn:Hm1; [reflexivity|].
    destruct (sextets (strip_padding data)) as [ns|] eqn:Hns; [|reflexivity].
    exfalso.
    destruct (strip_padding_cases data) as [t [Ht Htc]].
    assert (Htt : t = [] \/ t = [61] \/ t = [61; 61]) by tauto.
    destruct (head_not_alpha_pad t Htt) as [Hth Hta].
    pose proof (span_alpha_app (strip_padding data) ns t Hns Hth) as Hsp2.
    rewrite <- Ht, Hspan in Hsp2. inversion Hsp2; subst ns t. clear Hsp2.
    rewrite Hta in Hok. cbn [andb] in Hok.
    pose proof (sextets_length _ _ Hns) as Hl.
    assert (Hld : length data = (length vs + length rest)%nat).
    { rewrite Ht at 1. rewrite app_length. lia. }
    unfold shape_ok in Hok.
    destruct Htc as [Hr|[Hm4 [Hr|Hr]]]; rewrite Hr in *; cbn [length] in *; lia.
Qed.

Theorem decode_to_vec_tidy input :
  match decode_to_vec input with inl v => Some v | inr _ => None end = tidy (strip_whitespace input).
Proof.
  rewrite decode_to_vec_prun.
  assert (Hp : prun input = prun (strip_whitespace input)).
  { unfold prun. rewrite (ptrace_strip_ws p_new input). reflexivity. }
  rewrite Hp. pose proof (prun_tidy (strip_whitespace input) (strip_ws_no_ws input)) as HT.
  destruct (tidy (strip_whitespace input)) as [out|].
  - destruct HT as [H1 H2]. rewrite H1, H2. reflexivity.
  - destruct (snd (prun (strip_whitespace input))); [reflexivity | congruence].
Qed.

Theorem decode_to_vec_is_infra input :
  match decode_to_vec input with inl v => Some v | inr _ => None end = forgiving_base64_decode input.
Proof. rewrite decode_to_vec_tidy, infra_unfold, infra_tidy. reflexivity. Qed.

(* ---- round trip with RFC 4648 encoding ---- *)
Lemma list_ind3 (P : list N -> Prop) :
  P [] -> (forall a, P [a]) -> (forall a b, P [a; b]) ->
  (forall a b c r, P r -> P (a :: b :: c :: r)) -> forall l, P l.
Proof.
  intros H0 H1 H2 H3. fix IH 1. intros [|a [|b [|c r]]].
  - exact H0.
  - apply H1.
  - apply H2.
  - apply H3. apply IH.
Qed.

(* the 6-bit groups of a byte string, and the padding RFC 4648 appends *)
Fixpoint sext_of (x : list N) : list N :=
  match x with
  | [] => []
  | [a] => [a / 4; (a mod 4) * 16]
  | [a; b] => [a / 4; (a mod 4) * 16 + b / 16; (b mod 16) * 4]
  | a :: b :: c :: r => a / 4 :: (a mod 4) * 16 + b / 16 :: (b mod 16) * 4 + c / 64 :: c mod 64 :: sext_of r
  end.

Fixpoint padding_of (pad : bool) (x : list N) : list N :=
  match x with
  | [] => []
  | [a] => if pad then [61; 61] else []
  | [a; b] => if pad then [61] else []
  | _ :: _ :: _ :: r => padding_of pad r
  end.

Lemma std_encode_shape pad x : std_encode pad x = map b64_char (sext_of x) ++ padding_of pad x.
Proof.
  induction x as [| a | a b | a b c r IH] using list_ind3; try reflexivity.
  cbn [std_encode sext_of padding_of map app]. rewrite IH. reflexivity.
Qed.

Lemma sext_of_lt64 x : bytes x -> Forall (fun v => v < 64) (sext_of x).
Proof.
  induction x as [| a | a b | a b c r IH] using list_ind3; intros Hb; cbn [sext_of].
  - constructor.
  - inversion Hb; subst. unfold is_byte in *. repeat constructor; lia.
  - inversion Hb as [|? ? Ha Hb']; subst. inversion Hb'; subst. unfold is_byte in *. repeat constructor; lia.
  - inversion Hb as [|? ? Ha Hb1]; subst. inversion Hb1 as [|? ? Hbb Hb2]; subst.
    inversion Hb2 as [|? ? Hc Hb3]; subst. unfold is_byte in *.
    repeat (constructor; [lia|]). exact (IH Hb3).
Qed.

Lemma sextets_map_char vs : Forall (fun v => v < 64) vs -> sextets (map b64_char vs) = Some vs.
Proof.
  induction vs as [|v r IH]; intros H; [reflexivity|].
  inversion H; subst. cbn [map sextets]. rewrite alphabet_index_of_char by assumption.
  rewrite IH by assumption. reflexivity.
Qed.

Lemma padding_of_cases pad x :
  padding_of pad x = [] \/ padding_of pad x = [61] \/ padding_of pad x = [61; 61].
Proof.
  induction x as [| a | a b | a b c r IH] using list_ind3; cbn [padding_of]; try destruct pad; tauto.
Qed.

Lemma shape_of_encoding pad x :
  shape_ok (N.of_nat (length (sext_of x)) mod 4) (N.of_nat (length (padding_of pad x))) = true.
Proof.
  induction x as [| a | a b | a b c r IH] using list_ind3; cbn [sext_of padding_of].
  - reflexivity.
  - destruct pad; reflexivity.
  - destruct pad; reflexivity.
  - cbn [length]. revert IH. generalize (length (sext_of r)) as n. generalize (N.of_nat (length (padding_of pad r))) as q.
    intros q n IH. replace (N.of_nat (S (S (S (S n)))) mod 4) with (N.of_nat n mod 4) by lia. exact IH.
Qed.

Lemma accumulate4 out a b c d r :
  accumulate out 0 0 (a :: b :: c :: d :: r) =
  accumulate (out ++ [(((a * 64 + b) * 64 + c) * 64 + d) / 65536;
                      ((((a * 64 + b) * 64 + c) * 64 + d) / 256) mod 256;
                      (((a * 64 + b) * 64 + c) * 64 + d) mod 256]) 0 0 r.
Proof.
  rewrite !accumulate_cons.
  change (0 + 6 =? 24) with false. change (0 + 6 + 6 =? 24) with false.
  change (0 + 6 + 6 + 6 =? 24) with false. change (0 + 6 + 6 + 6 + 6 =? 24) with true.
  cbv iota. change (0 * 64) with 0. rewrite N.add_0_l. reflexivity.
Qed.

Lemma group3 a b c :
  a < 256 -> b < 256 -> c < 256 ->
  (((a / 4 * 64 + ((a mod 4) * 16 + b / 16)) * 64 + ((b mod 16) * 4 + c / 64)) * 64 + c mod 64) = a * 65536 + b * 256 + c.
Proof. intros Ha Hb Hc. lia. Qed.

Lemma flush_accumulate_sext x : forall out,
  bytes x -> flush_buffer (accumulate out 0 0 (sext_of x)) = out ++ x.
Proof.
  induction x as [| a | a b | a b c r IH] using list_ind3; intros out Hb.
  - cbn [sext_of accumulate flush_buffer]. change (0 =? 12) with false. change (0 =? 18) with false.
    cbv iota. rewrite app_nil_r. reflexivity.
  - inversion Hb as [|? ? Ha _]; subst. unfold is_byte in Ha.
    cbn [sext_of]. rewrite !accumulate_cons.
    change (0 + 6 =? 24) with false. change (0 + 6 + 6 =? 24) with false. cbv iota.
    cbn [accumulate flush_buffer]. change (0 + 6 + 6 =? 12) with true. cbv iota.
    f_equal. f_equal. lia.
  - inversion Hb as [|? ? Ha Hb1]; subst. inversion Hb1 as [|? ? Hbb _]; subst. unfold is_byte in *.
    cbn [sext_of]. rewrite !accumulate_cons.
    change (0 + 6 =? 24) with false. change (0 + 6 + 6 =? 24) with false.
    change (0 + 6 + 6 + 6 =? 24) with false. cbv iota.
    cbn [accumulate flush_buffer]. change (0 + 6 + 6 + 6 =? 12) with false.
    change (0 + 6 + 6 + 6 =? 18) with true. cbv iota.
    f_equal. f_equal; [|f_equal]; lia.
  - inversion Hb as [|? ? Ha Hb1]; subst. inversion Hb1 as [|? ? Hbb Hb2]; subst.
    inversion Hb2 as [|? ? Hc Hb3]; subst. unfold is_byte in *.
    cbn [sext_of]. rewrite accumulate4, (group3 a b c Ha Hbb Hc), (IH _ Hb3).
    rewrite <- app_assoc. f_equal. cbn [app]. f_equal; [|f_equal; [|f_equal]]; lia.
Qed.

Theorem tidy_std_encode pad x : bytes x -> tidy (std_encode pad x) = Some x.
Proof.
  intros Hb. unfold tidy. rewrite std_encode_shape.
  destruct (head_not_alpha_pad _ (padding_of_cases pad x)) as [Hh Ha].
  rewrite (span_alpha_app _ _ _ (sextets_map_char _ (sext_of_lt64 x Hb)) Hh).
  rewrite Ha, shape_of_encoding. cbn [andb].
  rewrite (flush_accumulate_sext x [] Hb). reflexivity.
Qed.

Theorem decode_std_encode pad x s :
  bytes x -> strip_whitespace s = std_encode pad x -> decode_to_vec s = inl x.
Proof.
  intros Hb Hs. pose proof (decode_to_vec_tidy s) as H. rewrite Hs, (tidy_std_encode pad x Hb) in H.
  destruct (decode_to_vec s) as [v|e]; [inversion H; reflexivity | discriminate].
Qed.

(* "with whitespace inserted anywhere", as a relation: s is e with ASCII whitespace inserted *)
Inductive ws_inserted : list N -> list N -> Prop :=
| wsi_nil : ws_inserted [] []
| wsi_ws c e s : is_ascii_whitespace c = true -> ws_inserted e s -> ws_inserted e (c :: s)
| wsi_keep c e s : ws_inserted e s -> ws_inserted (c :: e) (c :: s).

Lemma ws_inserted_strip e s : ws_inserted e s -> no_ws e -> strip_whitespace s = e.
Proof.
  induction 1 as [|c e s Hc _ IH|c e s _ IH]; intros He.
  - reflexivity.
  - unfold strip_whitespace in *. cbn [filter]. rewrite Hc. cbn [negb]. exact (IH He).
  - unfold no_ws in He. cbn [forallb] in He. apply andb_true_iff in He. destruct He as [Hc He].
    unfold strip_whitespace in *. cbn [filter]. rewrite Hc. f_equal. exact (IH He).
Qed.

Lemma std_encode_no_ws pad x : bytes x -> no_ws (std_encode pad x).
Proof.
  intros Hb. rewrite std_encode_shape. unfold no_ws. rewrite forallb_app. apply andb_true_iff. split.
  - apply forallb_forall. intros c Hc. apply in_map_iff in Hc. destruct Hc as [v [Hv Hin]].
    pose proof (sext_of_lt64 x Hb) as HF. rewrite Forall_forall in HF. specialize (HF v Hin).
    destruct (is_ascii_whitespace c) eqn:Hw; [|reflexivity].
    apply ws_not_alphabet in Hw. rewrite <- Hv, alphabet_index_of_char in Hw by exact HF. discriminate.
  - destruct (padding_of_cases pad x) as [->|[->| ->]]; reflexivity.
Qed.

Theorem decode_ws_inserted pad x s :
  bytes x -> ws_inserted (std_encode pad x) s -> decode_to_vec s = inl x.
Proof.
  intros Hb Hi. apply (decode_std_encode pad x s Hb).
  exact (ws_inserted_strip _ _ Hi (std_encode_no_ws pad x Hb)).
Qed.
