(* Proofs/C04_CostIdna.v - cost of the two OUTPUT WALKS of Uts46::process (uts46.rs 802-913 and 925-1026).
   A walk costs what it hands to the sink: every write call one step plus the bytes (code points) written
   (wsize; `chars l` is one write_char per element), plus the cost of the internal Punycode encoder for the labels it
   encodes.  The encoder is the quadratic step the property text mentions; its cost is a PARAMETER here (there is no
   cost twin of Model/Punycode.v); what is proved about it is the cap: every label of domain_buffer is ASCII (never
   encoded), marked with U+FFFD (never encoded: it is written as Unicode, or the run ends in an error) or at most 1000
   scalar values long (labels_capped, from the marking-run invariant of Proofs/Idna_WalkEnc.v), and a walk calls the
   encoder at most once per label.
   RESULT (walk1_wsize, walk2_wsize): the writes of a walk are bounded by
        (the prefix of the input, flushed AT MOST ONCE: |domain_name| + 1)
      + for every label: 2 |label| + 2 |its mixed-case source slice| + (2 |encoder output| + 5) + 4,
   i.e. linear in |domain_name| + |domain_buffer| + the encoder outputs; no term is multiplied by the number of labels. *)
From RU Require Import Base.Prelude Base.Utf8 Base.U32_c13 Gen.Tables Model.Punycode Model.Uts46
  Proofs.Idna_WalkNoPanic Proofs.Idna_WalkEnc Proofs.C04_Uts46_Inner.

(* ---------------------------------------------------------------- definitions *)
Definition wsize (ws : list (list N)) : N := fold_right (fun w a => 1 + len w + a) 0 ws.

Definition apsize (ap : aal) : N :=
  match ap with MixedCaseAscii l | MixedCasePunycode l => len l | AalOther => 0 end.

Section Walk.
Variable cfg : bool.

(* "xn--" and one write_char per code unit of the encoder output *)
Definition encsize (label : list N) : N :=
  match encode_internal cfg label with Ok o => 2 * len o + 5 | _ => 5 end.

Fixpoint wbound (labels : list (list N)) (aps : list aal) : N :=
  match labels, aps with
  | label :: ls, ap :: as_ => 2 * len label + 2 * apsize ap + encsize label + 4 + wbound ls as_
  | _, _ => 0
  end.

(* ---------------------------------------------------------------- sizes of the building blocks *)
Lemma len_cons (x : N) l : len (x :: l) = 1 + len l.
Proof. unfold len. cbn [length]. lia. Qed.
Lemma len_app (a b : list N) : len (a ++ b) = len a + len b.
Proof. unfold len. rewrite app_length. lia. Qed.
Lemma len_map (f : N -> N) l : len (map f l) = len l.
Proof. unfold len. rewrite map_length. reflexivity. Qed.
Lemma len_firstn_le n (l : list N) : len (firstn n l) <= len l.
Proof. unfold len. rewrite firstn_length. pose proof (Nat.le_min_r n (length l)). lia. Qed.
Lemma len_firstn_skipn n (l : list N) : len (firstn n l) + len (skipn n l) = len l.
Proof. rewrite <- len_app, firstn_skipn. reflexivity. Qed.

Lemma wsize_app a b : wsize (a ++ b) = wsize a + wsize b.
Proof. unfold wsize. induction a as [|w a IH]; cbn [app fold_right]; lia. Qed.
Lemma wsize_chars l : wsize (chars l) = 2 * len l.
Proof.
  unfold chars, wsize. induction l as [|c l IH]; [reflexivity|]. cbn [map fold_right].
  rewrite IH, !len_cons. change (len []) with 0. lia.
Qed.
Lemma wsize_wcons w r : wsize (fst (wcons w r)) = 1 + len w + wsize (fst r).
Proof. reflexivity. Qed.
Lemma wsize_wapp ws r : wsize (fst (wapp ws r)) = wsize ws + wsize (fst r).
Proof. unfold wapp. cbn [fst]. apply wsize_app. Qed.

(* D = what flushing the passed-through prefix of the input costs, at most once *)
Definition fl_cost (domain_name : list N) (flushed : bool) : N := if flushed then 0 else len domain_name + 1.

Lemma flush_prefix_size dn pte flushed k R : wsize (fst k) <= R ->
  wsize (fst (flush_prefix dn pte flushed k)) <= fl_cost dn flushed + R.
Proof.
  intros H. unfold flush_prefix, fl_cost. destruct flushed; [lia|]. rewrite wsize_wcons.
  pose proof (len_firstn_le (N.to_nat pte) dn). lia.
Qed.

Lemma mixed_write_size dn mc he pc s1 s2 pte flushed k R :
  (forall p f, wsize (fst (k p f)) <= fl_cost dn f + R) ->
  wsize (fst (mixed_write cfg dn mc he pc s1 s2 pte flushed k)) <= fl_cost dn flushed + 2 * len mc + 2 + R.
Proof.
  intros Hk. unfold mixed_write. destruct (position is_upper mc) as [fu|].
  - pose proof (len_firstn_skipn fu mc) as Hs. destruct flushed.
    + rewrite wsize_wcons, wsize_wapp, wsize_chars, len_map. specialize (Hk pte true). unfold fl_cost in *. lia.
    + cbv zeta. destruct (cfg && (pte + len (firstn fu mc) =? len dn)); [cbn; unfold fl_cost; lia|].
      rewrite wsize_wcons, wsize_wapp, wsize_chars, len_map. specialize (Hk (pte + len (firstn fu mc)) true).
      pose proof (len_firstn_le (N.to_nat (pte + len (firstn fu mc))) dn). unfold fl_cost in *. lia.
  - destruct flushed.
    + rewrite wsize_wcons. specialize (Hk pte true). unfold fl_cost in *. lia.
    + cbv zeta. destruct (pc && (pte + len mc =? len dn)).
      * destruct (cfg && he); cbn; unfold fl_cost; lia.
      * specialize (Hk (pte + len mc) false). lia.
Qed.

Lemma write_punycode_size label k R : wsize (fst k) <= R ->
  wsize (fst (write_punycode_label cfg label k)) <= encsize label + R.
Proof.
  intros H. unfold write_punycode_label, encsize. destruct (encode_internal cfg label) as [o| |s].
  - rewrite wsize_wcons, wsize_wapp, wsize_chars. change (len XN_PREFIX) with 4. lia.
  - cbn. lia.
  - cbn. lia.
Qed.

(* ---------------------------------------------------------------- the first walk *)
Lemma walk1_wsize ff oau dn tld bidi he labels : forall aps seen pte flushed huo,
  wsize (fst (walk1 cfg ff oau dn tld bidi he labels aps seen pte flushed huo)) <= fl_cost dn flushed + wbound labels aps.
Proof.
  induction labels as [|label labels IH]; intros aps seen pte flushed huo; cbn [walk1 wbound]; [cbn; lia|].
  destruct aps as [|ap aps]; [cbn; lia|].
  set (R := wbound labels aps).
  assert (Body : forall p fl,
    wsize (fst (match ap with
      | MixedCaseAscii mixed_case =>
          mixed_write cfg dn mixed_case he true 830 844 p fl (fun pte0 flushed0 => walk1 cfg ff oau dn tld bidi he labels aps true pte0 flushed0 huo)
      | _ =>
          if ff && cfg && (match classify_for_punycode label with PcError => true | _ => false end)
          then ([], WPanic 852)
          else
          let potentially_punycode :=
            if ff then negb (is_ascii_l label)
            else match classify_for_punycode label with PcUnicode => true | _ => false end in
          let unicode := if potentially_punycode then oau label tld bidi else true in
          let huo' := if potentially_punycode then huo || unicode else huo in
          let k' := fun pte0 flushed0 => walk1 cfg ff oau dn tld bidi he labels aps true pte0 flushed0 huo' in
          if unicode then flush_prefix dn p fl (wapp (chars label) (k' p true))
          else match ap with
               | MixedCasePunycode mixed_case => mixed_write cfg dn mixed_case he true 885 899 p fl k'
               | _ => flush_prefix dn p fl (write_punycode_label cfg label (k' p true))
               end
      end)) <= fl_cost dn fl + (2 * len label + 2 * apsize ap + encsize label + 2 + R)).
  { intros p fl.
    assert (Hk : forall h p0 f0, wsize (fst (walk1 cfg ff oau dn tld bidi he labels aps true p0 f0 h)) <= fl_cost dn f0 + R)
      by (intros h p0 f0; apply IH).
    assert (Huni : forall h, wsize (fst (flush_prefix dn p fl (wapp (chars label) (walk1 cfg ff oau dn tld bidi he labels aps true p true h))))
                             <= fl_cost dn fl + (2 * len label + R)).
    { intros h. apply flush_prefix_size. rewrite wsize_wapp, wsize_chars. specialize (Hk h p true). unfold fl_cost in Hk. lia. }
    assert (Henc : forall h, wsize (fst (flush_prefix dn p fl (write_punycode_label cfg label (walk1 cfg ff oau dn tld bidi he labels aps true p true h))))
                             <= fl_cost dn fl + (encsize label + R)).
    { intros h. apply flush_prefix_size. apply write_punycode_size. specialize (Hk h p true). unfold fl_cost in Hk. lia. }
    destruct ap as [mc|mc|]; cbn [apsize].
    - pose proof (mixed_write_size dn mc he true 830 844 p fl _ R (Hk huo)). lia.
    - destruct (ff && cfg && _); [cbn; lia|]. cbv zeta.
      match goal with |- context [if ?u then flush_prefix _ _ _ (wapp _ _) else _] => destruct u end.
      + match goal with |- context [walk1 _ _ _ _ _ _ _ _ _ _ _ _ ?h] => specialize (Huni h) end. lia.
      + match goal with |- context [mixed_write _ _ _ _ _ _ _ _ _ ?kk] =>
          pose proof (mixed_write_size dn mc he true 885 899 p fl kk R) as Hm end.
        cbv beta in Hm. specialize (Hm ltac:(intros p0 f0; apply Hk)). lia.
    - destruct (ff && cfg && _); [cbn; lia|]. cbv zeta.
      match goal with |- context [if ?u then flush_prefix _ _ _ (wapp _ _) else _] => destruct u end.
      + match goal with |- context [walk1 _ _ _ _ _ _ _ _ _ _ _ _ ?h] => specialize (Huni h) end. lia.
      + match goal with |- context [walk1 _ _ _ _ _ _ _ _ _ _ _ _ ?h] => specialize (Henc h) end. lia. }
  cbv zeta in Body |- *. destruct seen.
  - destruct flushed.
    + rewrite wsize_wcons. change (len [DOT]) with 1.
      eapply N.le_trans; [apply N.add_le_mono_l; exact (Body pte true)|]. unfold fl_cost. lia.
    + destruct (cfg && negb (nth (N.to_nat pte) dn 256 =? DOT)); [cbn; unfold fl_cost; lia|].
      destruct (pte + 1 =? len dn); [destruct (cfg && he); cbn; unfold fl_cost; lia|].
      eapply N.le_trans; [exact (Body (pte + 1) false)|]. lia.
  - eapply N.le_trans; [exact (Body pte flushed)|]. lia.
Qed.

(* ---------------------------------------------------------------- the second walk (ASCII sink) *)
Lemma walk2_wsize dn he labels : forall aps seen pte flushed,
  wsize (fst (walk2 cfg dn he labels aps seen pte flushed)) <= fl_cost dn flushed + wbound labels aps.
Proof.
  induction labels as [|label labels IH]; intros aps seen pte flushed; cbn [walk2 wbound].
  - pose proof (flush_prefix_size dn pte flushed ([], WEnd false) 0 ltac:(cbn; lia)). lia.
  - destruct aps as [|ap aps]; [cbn; lia|].
    set (R := wbound labels aps).
    assert (Hk : forall p0 f0, wsize (fst (walk2 cfg dn he labels aps true p0 f0)) <= fl_cost dn f0 + R) by (intros; apply IH).
    assert (Body : forall p fl,
      wsize (fst (match ap with
        | MixedCaseAscii mixed_case => mixed_write cfg dn mixed_case he false 949 0 p fl (fun pte0 flushed0 => walk2 cfg dn he labels aps true pte0 flushed0)
        | _ =>
          if is_ascii_l label then flush_prefix dn p fl (wapp (chars label) (walk2 cfg dn he labels aps true p true))
          else match ap with
               | MixedCasePunycode mixed_case => mixed_write cfg dn mixed_case he false 992 0 p fl (fun pte0 flushed0 => walk2 cfg dn he labels aps true pte0 flushed0)
               | _ => flush_prefix dn p fl (write_punycode_label cfg label (walk2 cfg dn he labels aps true p true))
               end
        end)) <= fl_cost dn fl + (2 * len label + 2 * apsize ap + encsize label + 2 + R)).
    { intros p fl.
      assert (Huni : wsize (fst (flush_prefix dn p fl (wapp (chars label) (walk2 cfg dn he labels aps true p true))))
                     <= fl_cost dn fl + (2 * len label + R)).
      { apply flush_prefix_size. rewrite wsize_wapp, wsize_chars. specialize (Hk p true). unfold fl_cost in Hk. lia. }
      assert (Henc : wsize (fst (flush_prefix dn p fl (write_punycode_label cfg label (walk2 cfg dn he labels aps true p true))))
                     <= fl_cost dn fl + (encsize label + R)).
      { apply flush_prefix_size. apply write_punycode_size. specialize (Hk p true). unfold fl_cost in Hk. lia. }
      destruct ap as [mc|mc|]; cbn [apsize].
      - eapply N.le_trans; [exact (mixed_write_size dn mc he false 949 0 p fl _ R Hk)|lia].
      - destruct (is_ascii_l label); [lia|].
        eapply N.le_trans; [exact (mixed_write_size dn mc he false 992 0 p fl _ R Hk)|lia].
      - destruct (is_ascii_l label); lia. }
    cbv zeta in Body |- *. destruct seen.
    + destruct flushed.
      * rewrite wsize_wcons. change (len [DOT]) with 1.
        eapply N.le_trans; [apply N.add_le_mono_l; exact (Body pte true)|]. unfold fl_cost. lia.
      * destruct (cfg && negb (nth (N.to_nat pte) dn 256 =? DOT)); [cbn; unfold fl_cost; lia|].
        eapply N.le_trans; [exact (Body (pte + 1) false)|]. lia.
    + eapply N.le_trans; [exact (Body pte flushed)|]. lia.
Qed.
End Walk.

(* ---------------------------------------------------------------- the cap on what the encoder can see *)
(* every label of the domain_buffer that the marking run (mark-errors mode; the fail-fast run either agrees with it or
   exits) leaves is made of scalar values and is ASCII, or marked with U+FFFD, or at most 1000 scalar values long: the
   same invariant as Idna_WalkEnc.process_innermost_enc, exported with the length instead of "the encoder succeeds" *)
From RU Require Import Proofs.Idna_Mark Proofs.Idna_MarkFffd.

Section Cap.
Variable A : adapter.
Variable cfg : bool.
Hypothesis HU : AdapterUSV A.

Lemma process_innermost_capped hy deny d tail ptu bd he db ap :
  process_innermost A cfg false hy deny d tail = IRes ptu bd he db ap -> Forall capped (split_on DOT db).
Proof.
  unfold process_innermost.
  set (s0 := {| i_ptu := len d - len tail; i_seen := false; i_inpre := true; i_db := []; i_he := false; i_ap := [] |}).
  assert (HX : I_EXIT = IRes ptu bd he db ap -> Forall capped (split_on DOT db)).
  { intros H. inversion H. subst. constructor; [left; reflexivity|constructor]. }
  destruct (labels_loop A cfg false hy deny (split_on DOT tail) s0) as [s| |p] eqn:El; [|exact HX|discriminate].
  pose proof (labels_loop_CInv A cfg HU hy deny _ (split_on_nodot tail) s0 s eq_refl El) as HC. unfold CInv in HC.
  destruct (i_inpre s).
  - rewrite HC. cbn [is_bidi]. intros H. inversion H. subst. constructor; [left; reflexivity|constructor].
  - destruct HC as (_ & dbl & Hne & Hdb & Hnd & Hcd).
    destruct (is_bidi A cfg (i_db s)) as [[|]| |p]; try discriminate.
    + pose proof (bidi_labels_BLP A (split_on DOT (i_db s)) (i_he s)) as HB.
      destruct (bidi_labels A false (split_on DOT (i_db s)) (i_he s)) as [[ls he2]| |p]; [|exact HX|discriminate].
      intros H. inversion H. subst. cbn [BLP] in HB. destruct HB as [HM _].
      rewrite Hdb, (split_join dbl Hne Hnd) in HM.
      assert (Hls : ls <> []) by (intros ->; inversion HM; subst; congruence).
      rewrite (split_join ls Hls (marked_all_nodot _ _ Hnd HM)).
      clear -HM Hcd. induction HM as [|a b la lb Hab _ IH]; [constructor|]. inversion Hcd; subst.
      constructor; [exact (proj2 (marked_capQ _ _ Hab ltac:(assumption)))|apply IH; assumption].
    + intros H. inversion H. subst. rewrite Hdb, (split_join dbl Hne Hnd).
      eapply Forall_impl; [|exact Hcd]. intros l Hl. exact (proj2 Hl).
Qed.

Theorem labels_capped hy deny d :
  match process_inner A cfg false hy deny d with
  | IRes _ _ _ db _ => Forall capped (split_on DOT db)
  | IPanic _ => True
  end.
Proof.
  unfold process_inner. destruct (fast_tier d d) as [tail|].
  - destruct (process_innermost A cfg false hy deny d tail) as [ptu bd he db ap|s] eqn:E; [|exact I].
    exact (process_innermost_capped _ _ _ _ _ _ _ _ _ E).
  - constructor; [left; reflexivity|constructor].
Qed.
End Cap.
