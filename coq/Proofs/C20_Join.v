(* Proofs/C20_Join.v - Url::join of a file-name reference onto the record from_directory_path builds,
   through the URL parser model (Model/Parser.v), and to_file_path of the result. *)
From RU Require Import Base.Prelude Base.Utf8 Model.AsciiSet Gen.Tables Model.PercentEncoding
  Model.HostT Model.UrlRecord Model.Parser Model.FilePath
  Proofs.C14_Set Proofs.C14_Enc Proofs.C14_Views Proofs.ListN Proofs.C20_Path Proofs.C20_RT.

(* ---------- references the path state copies unchanged ---------- *)
Definition ref_char_ok (c : N) : bool :=
  negb (is_tnl c) && negb (is_c0_or_space c)
  && negb (c =? 47) && negb (c =? 92) && negb (c =? 63) && negb (c =? 35).

Record ref_ok (r : list N) : Prop := {
  ro_ne : r <> [];
  ro_chars : Forall (fun c => ref_char_ok c = true) r;
  ro_enc : pe_display T_PATH (utf8_encode r) = r;
  ro_scheme : parse_scheme CUrlParser r = None;
  ro_wdl_seg : starts_with_wdl_segment r = false;
  ro_dd : is_double_dot r = false;
  ro_sd : is_single_dot r = false;
  ro_wdl : is_wdl r = false
}.

Lemma ref_char_ok_inv c : ref_char_ok c = true ->
  is_tnl c = false /\ is_c0_or_space c = false /\ c <> 47 /\ c <> 92 /\ c <> 63 /\ c <> 35.
Proof. unfold ref_char_ok, is_tnl, is_c0_or_space. intros H. repeat split; lia. Qed.

Lemma ref_no_slash r : Forall (fun c => ref_char_ok c = true) r -> ~ In 47 r.
Proof.
  intros H Hi. rewrite Forall_forall in H. specialize (H 47 Hi). discriminate H.
Qed.

(* ---------- Input ---------- *)
Lemma drop_while_stop f l : match l with [] => True | c :: _ => f c = false end -> drop_while f l = l.
Proof. destruct l as [|c l]; [reflexivity|]. intros H. cbn [drop_while]. rewrite H. reflexivity. Qed.

Lemma trim_id r : Forall (fun c => ref_char_ok c = true) r -> input_new_trim_c0 r = r.
Proof.
  intros H. unfold input_new_trim_c0, trim_matches.
  assert (Hd : forall l, Forall (fun c => ref_char_ok c = true) l -> drop_while is_c0_or_space l = l).
  { intros l Hl. apply drop_while_stop. destruct l as [|c l]; [exact I|].
    inversion Hl as [|? ? Hc ?]; subst. apply ref_char_ok_inv in Hc. tauto. }
  rewrite (Hd r H). rewrite (Hd (rev r)) by (apply Forall_rev; exact H). apply rev_involutive.
Qed.

Lemma inp_next_ok c r : is_tnl c = false -> inp_next (c :: r) = Some (c, r).
Proof. intros H. unfold inp_next. cbn [drop_while]. rewrite H. reflexivity. Qed.

(* ---------- controlled unfolding of the path loop ---------- *)
Section Join.
Variable dbg : bool.
Variable host_parse : list N -> result host.
Variable host_parse_opaque : list N -> result host.
Variable host_display : host -> list N.

Notation ppl := (parse_path_loop dbg).

Lemma ppl_nil ctx st ps ser seg pend hh :
  ppl ctx st ps [] ser seg pend hh =
  (let s1 := push_pending ctx st ser pend in
   ' (s2, hh2) <~ finish_segment dbg st ps s1 seg false hh ;;
   POk (file_path_fixup st ps s2, hh2, [])).
Proof. reflexivity. Qed.

Lemma ppl_plain c r ser seg pend :
  ref_char_ok c = true ->
  ((7 <? nlen ser) && is_normalized_wdl (nskipn (7 + 1) ser)) = false ->
  ppl CUrlParser STFile 7 (c :: r) ser seg pend true = ppl CUrlParser STFile 7 r ser seg (c :: pend) true.
Proof.
  intros Hc Hw. apply ref_char_ok_inv in Hc. destruct Hc as [H1 [_ [H47 [H92 [H63 H35]]]]].
  cbn [parse_path_loop]. rewrite H1.
  replace (c =? 47) with false by lia. replace (c =? 92) with false by lia.
  replace (c =? 63) with false by lia. replace (c =? 35) with false by lia.
  cbn [ctx_eqb negb andb orb st_is_file]. rewrite Hw. reflexivity.
Qed.

Lemma ppl_plain_all r : forall ser seg pend,
  Forall (fun c => ref_char_ok c = true) r ->
  ((7 <? nlen ser) && is_normalized_wdl (nskipn (7 + 1) ser)) = false ->
  ppl CUrlParser STFile 7 r ser seg pend true = ppl CUrlParser STFile 7 [] ser seg (rev r ++ pend) true.
Proof.
  induction r as [|c r IH]; intros ser seg pend Hr Hw; [reflexivity|].
  inversion Hr as [|? ? Hc Hr']; subst.
  rewrite ppl_plain by assumption. rewrite IH by assumption.
  cbn [rev]. rewrite <- app_assoc. reflexivity.
Qed.

(* ---------- facts about the base ---------- *)
(* what is needed of the base path P (= dir_path_of ks): "/" T, X "/" *)
Record dir_path_ok (P X T : list N) : Prop := {
  dp_front : P = 47 :: T;
  dp_back : P = X ++ [47];
  dp_not_wdl : is_normalized_wdl T = false;
  dp_no_lead : match T with [] => True | c :: _ => c <> 47 end
}.

Lemma rfind_aux_snoc b X : forall i last, rfind_aux b (X ++ [b]) i last = Some (i + nlen X).
Proof.
  induction X as [|x X IH]; intros i last.
  - cbn [app rfind_aux]. rewrite N.eqb_refl. f_equal. rewrite nlen_nil. lia.
  - cbn [app rfind_aux]. rewrite IH. f_equal. rewrite nlen_cons. lia.
Qed.

Lemma starts_with_wdl_slash T : starts_with_wdl (47 :: T) = false.
Proof. destruct T as [|b rest]; reflexivity. Qed.

Lemma is_normalized_wdl_slash T : is_normalized_wdl (47 :: T) = false.
Proof. unfold is_normalized_wdl, is_wdl. rewrite starts_with_wdl_slash. rewrite andb_false_r. reflexivity. Qed.

Lemma nskipn_app_len a b : nskipn (nlen a) (a ++ b) = b.
Proof.
  unfold nskipn, nlen. rewrite Nat2N.id. rewrite skipn_app, Nat.sub_diag, skipn_all. reflexivity.
Qed.

Lemma nfirstn_len a : nfirstn (nlen a) a = a.
Proof. apply nfirstn_all. lia. Qed.

Lemma shorten_base P X T : dir_path_ok P X T ->
  shorten_path STFile 7 (s_file_css ++ P) = POk (s_file_css ++ P).
Proof.
  intros [Hf Hb _ _]. unfold shorten_path.
  assert (Hl : nlen (s_file_css ++ P) = 7 + nlen X + 1).
  { rewrite nlen_app, nlen_file_css, Hb, nlen_app. change (nlen [47]) with 1. lia. }
  rewrite Hl. replace (7 + nlen X + 1 =? 7) with false by lia.
  change (nskipn 7 (s_file_css ++ P)) with P. rewrite Hf at 1. rewrite is_normalized_wdl_slash.
  cbn [st_is_file andb]. unfold pop_path. rewrite Hl.
  replace (7 <? 7 + nlen X + 1) with true by lia.
  change (nskipn 7 (s_file_css ++ P)) with P. rewrite Hb at 1. unfold rfind. rewrite rfind_aux_snoc.
  replace (7 + (0 + nlen X) + 1) with (nlen (s_file_css ++ P)) by lia.
  replace (nskipn (nlen (s_file_css ++ P)) (s_file_css ++ P)) with (@nil N)
    by (symmetry; apply nskipn_all; lia).
  cbn [st_is_file andb]. change (is_normalized_wdl []) with false. cbn iota.
  unfold truncate. rewrite nfirstn_len. reflexivity.
Qed.

Lemma base_not_wdl P X T : dir_path_ok P X T ->
  ((7 <? nlen (s_file_css ++ P)) && is_normalized_wdl (nskipn (7 + 1) (s_file_css ++ P))) = false.
Proof.
  intros [Hf _ Hw _]. subst P. change (nskipn (7 + 1) (s_file_css ++ 47 :: T)) with T.
  rewrite Hw. apply andb_false_r.
Qed.

(* ---------- the end of the path state ---------- *)
Lemma push_pending_ref r S : ref_ok r ->
  push_pending CUrlParser STFile S (rev r ++ []) = S ++ r.
Proof.
  intros Hr. rewrite app_nil_r. unfold push_pending.
  destruct (rev r) as [|y t] eqn:E.
  - exfalso. apply (ro_ne r Hr). rewrite <- (rev_involutive r), E. reflexivity.
  - rewrite <- E. rewrite rev_involutive. unfold push_encoded.
    change (path_set CUrlParser STFile) with T_PATH. rewrite (ro_enc r Hr). reflexivity.
Qed.

Lemma finish_segment_ref r S : ref_ok r ->
  finish_segment dbg STFile 7 (S ++ r) (nlen S) false true = POk (S ++ r, true).
Proof.
  intros Hr. unfold finish_segment.
  assert (Hs : slice_o (S ++ r) (nlen S) (nlen (S ++ r)) = Some r).
  { unfold slice_o. rewrite nlen_app.
    replace ((nlen S <=? nlen S + nlen r) && (nlen S + nlen r <=? nlen S + nlen r)) with true by lia.
    rewrite nskipn_app_len. replace (nlen S + nlen r - nlen S) with (nlen r) by lia.
    rewrite nfirstn_len. reflexivity. }
  rewrite Hs. cbn [of_option pbind].
  rewrite (ro_dd r Hr), (ro_sd r Hr), (ro_wdl r Hr). rewrite andb_false_r. reflexivity.
Qed.

Lemma file_path_fixup_ref r P X T : dir_path_ok P X T -> Forall (fun c => ref_char_ok c = true) r -> r <> [] ->
  file_path_fixup STFile 7 ((s_file_css ++ P) ++ r) = (s_file_css ++ P) ++ r.
Proof.
  intros [Hf _ _ Hl] Hr Hne. unfold file_path_fixup. cbn [st_is_file].
  rewrite <- app_assoc.
  change (nskipn 7 (s_file_css ++ P ++ r)) with (P ++ r).
  change (nfirstn 7 (s_file_css ++ P ++ r)) with s_file_css.
  subst P. cbn [app drop_while]. change (is_slash 47) with true. cbn iota.
  rewrite drop_while_stop; [reflexivity|].
  destruct T as [|c T'].
  - destruct r as [|c r']; [congruence|]. cbn [app]. inversion Hr as [|? ? Hc ?]; subst.
    apply ref_char_ok_inv in Hc. unfold is_slash. lia.
  - cbn [app]. unfold is_slash. lia.
Qed.

Lemma with_qf_file Q :
  with_query_and_fragment None CUrlParser STFile 4 7 7 7 HI_None None 7 (s_file_css ++ Q) [] = POk (file_rec Q).
Proof. reflexivity. Qed.

(* ---------- the join ---------- *)
Theorem url_join_plain P X T r : dir_path_ok P X T -> ref_ok r ->
  url_join dbg host_parse host_parse_opaque host_display (file_rec P) r = POk (file_rec (P ++ r)).
Proof.
  intros HP Hr. pose proof (ro_chars r Hr) as Hch. pose proof (ro_ne r Hr) as Hne.
  destruct r as [|c rest] eqn:Er; [congruence|]. rewrite <- Er in *.
  assert (Hc : ref_char_ok c = true) by (rewrite Er in Hch; inversion Hch; assumption).
  pose proof (ref_char_ok_inv c Hc) as [Htnl [_ [H47 [H92 [H63 H35]]]]].
  assert (Hnext : inp_next r = Some (c, rest)) by (rewrite Er; apply inp_next_ok; exact Htnl).
  unfold url_join, parse_url. rewrite trim_id by exact Hch. rewrite (ro_scheme r Hr).
  unfold inp_starts_with_char. rewrite Hnext. replace (c =? 35) with false by lia.
  assert (Hcb : cannot_be_a_base (file_rec P) = Some false).
  { destruct HP as [Hf _ _ _]. subst P. unfold cannot_be_a_base, u_slice_from, slice_from_o.
    cbn [file_rec ser scheme_end]. rewrite nlen_app, nlen_file_css.
    replace (4 + 1 <=? 7 + nlen (47 :: T)) with true by lia. reflexivity. }
  rewrite Hcb.
  change (b_scheme (file_rec P)) with s_file. change (scheme_type_of s_file) with STFile.
  cbn [st_is_file].
  (* parse_file, relative branch with a file base *)
  unfold parse_file. unfold inp_split_first at 1. rewrite Hnext.
  unfold is_slash_or_bslash at 1. replace (c =? 47) with false by lia. replace (c =? 92) with false by lia.
  cbn [orb]. cbv iota beta.
  replace (c =? 63) with false by lia. replace (c =? 35) with false by lia.
  rewrite (ro_wdl_seg r Hr). cbn [negb].
  change (path_start (file_rec P)) with 7.
  change (b_before_query (file_rec P)) with (s_file_css ++ P).
  rewrite (shorten_base P X T HP). cbn [pbind].
  unfold parse_path.
  rewrite ppl_plain_all; [| exact Hch | exact (base_not_wdl P X T HP)].
  rewrite ppl_nil. cbv zeta.
  rewrite push_pending_ref by exact Hr.
  rewrite finish_segment_ref by exact Hr. cbn [pbind].
  rewrite (file_path_fixup_ref r P X T HP Hch Hne).
  change (scheme_end (file_rec P)) with 4. change (username_end (file_rec P)) with 7.
  change (host_start (file_rec P)) with 7. change (host_end (file_rec P)) with 7.
  change (hosti (file_rec P)) with HI_None. change (port (file_rec P)) with (@None N).
  rewrite <- app_assoc. apply with_qf_file.
Qed.

End Join.
