(* Proofs/C16_RTU.v - the parser half of the origin round trip for a NON-ASCII host text (the Unicode serialization
   of an origin whose domain has a non-ASCII ToUnicode form).  The serialization is the byte string
   scheme "://" UTF-8(host text) [":" port]; Url::parse works on its chars(), i.e. on the code points
   scheme "://" host text [":" port] when the host text consists of scalar values.  The host state of the parser
   collects code points until one of : / \ ? # (and tracks [ ]); a text without these, without '@' and without
   anything up to the space - ASCII or not - is read to its end (host_scan_free) and handed to Host::parse as it is.
   parse_tuple_text_u is parse_tuple_text_gen of Proofs/C16_RT6.v with `x < 128` dropped from the condition on the
   host text. *)
From RU Require Import Base.Prelude Base.Utf8 Base.Utf8Facts Model.AsciiSet Gen.Tables Model.PercentEncoding Model.HostT Model.UrlRecord
  Model.Parser Model.Origin Proofs.C16_Conc Proofs.C16_Origin Proofs.ListN Proofs.C16_RT Proofs.C16_RT6.

(* a code point that the host state keeps: above the space, none of : / \ ? # @ [ ]  - no upper bound *)
Definition freec (c : N) : bool := (32 <? c) && negb (memb c [58; 47; 92; 63; 35; 64; 91; 93]).

Lemma freec_facts c : freec c = true ->
  is_tnl c = false /\ 32 < c /\ c <> 58 /\ c <> 47 /\ c <> 92 /\ c <> 63 /\ c <> 35 /\ c <> 64 /\ c <> 91 /\ c <> 93.
Proof. unfold freec, is_tnl. cbn [memb]. intros H. lia. Qed.

Lemma plainc_freec c : plainc c = true -> freec c = true.
Proof. unfold plainc, freec. cbn [memb]. lia. Qed.

Lemma host_scan_free t : forall acc sfx,
  forallb freec t = true -> (sfx = [] \/ exists r, sfx = 58 :: r) ->
  host_scan true false acc (t ++ sfx) = (rev acc ++ t, sfx).
Proof.
  induction t as [|c t IH]; intros acc sfx Ht Hs.
  - cbn [app]. destruct Hs as [->|[r ->]]; cbn [host_scan]; now rewrite app_nil_r.
  - cbn [forallb] in Ht. apply andb_true_iff in Ht. destruct Ht as [Hc Ht].
    apply freec_facts in Hc. destruct Hc as (Ht0 & _ & H58 & H47 & H92 & H63 & H35 & _ & H91 & H93).
    cbn [app host_scan]. rewrite Ht0.
    replace (c =? 58) with false by lia. replace (c =? 92) with false by lia.
    replace (c =? 47) with false by lia. replace (c =? 63) with false by lia.
    replace (c =? 35) with false by lia. replace (c =? 91) with false by lia.
    replace (c =? 93) with false by lia. cbn [andb orb negb].
    rewrite (IH (c :: acc) sfx Ht Hs). cbn [rev]. now rewrite <- app_assoc.
Qed.

Definition scannable_u (T : list N) : Prop :=
  Forall (fun x => 32 < x /\ x <> 64) T
  /\ (forall sfx, (sfx = [] \/ exists r, sfx = 58 :: r) -> host_scan true false [] (T ++ sfx) = (T, sfx)).

Lemma scannable_u_free T : forallb freec T = true -> scannable_u T.
Proof.
  intros H. split.
  - apply Forall_forall. intros x Hx. rewrite forallb_forall in H. apply H in Hx. apply freec_facts in Hx. lia.
  - intros sfx Hs. exact (host_scan_free T [] sfx H Hs).
Qed.

Lemma utf8_encode_asc l : Forall (fun c => c < 128) l -> utf8_encode l = l.
Proof.
  induction 1 as [|b r Hb Hr IH]; [reflexivity|].
  unfold utf8_encode in *. cbn [flat_map]. rewrite IH. unfold utf8_encode1.
  replace (b <? 128) with true by lia. reflexivity.
Qed.
Lemma asc_usv l : Forall (fun c => c < 128) l -> usv_list l.
Proof. intros H. unfold usv_list. eapply Forall_impl; [|exact H]. intros c Hc. unfold is_usv. cbv beta in Hc. lia. Qed.

Section RTU.
Variable dbg : bool.
Variable hp ho : list N -> result host.
Variable hd : host -> list N.

Lemma parse_tuple_text_u s c t tout h p :
  In s five_schemes -> scannable_u (c :: t) -> c <> 47 -> c <> 92 ->
  hp (c :: t) = Ok h -> hd h = tout -> host_fmt hd h = tout -> tout <> [] -> ends_with_byte 47 tout = false ->
  p <= 65535 ->
  nlen s + 3 + nlen tout + nlen (port_suffix s p) + 1 <= U32_MAX_P ->
  exists w,
    parse_url dbg hp ho hd None None (s ++ 58 :: 47 :: 47 :: (c :: t) ++ port_suffix s p) = POk w
    /\ scheme w = Some s /\ host_of w = Some (Some h) /\ port_or_known_default w = Some (Some p).
Proof.
  intros H5 [Hchars Hscan] Hc47 Hc92 Hhp Hhd Hfmt Hone Hlast Hp HB.
  pose proof (five_chars s H5) as Hs.
  assert (Hsfx : port_suffix s p = [] \/ port_suffix s p = 58 :: decimal p)
    by (unfold port_suffix; destruct (opt_eqb _ _); auto).
  destruct (port_rt p Hp) as [Hport Hdig].
  assert (Hdigf : Forall (fun x => is_digit x = true) (decimal p)) by (apply Forall_forall; apply forallb_forall; exact Hdig).
  assert (Hall : Forall (fun x => 32 < x /\ x <> 64) (s ++ 58 :: 47 :: 47 :: (c :: t) ++ port_suffix s p)).
  { apply Forall_app. split; [eapply Forall_impl; [|exact Hs]; cbv beta; intros; lia|]. repeat (constructor; [lia|]).
    apply Forall_app. split; [exact Hchars|].
    destruct Hsfx as [->| ->]; [constructor|]. constructor; [lia|].
    eapply Forall_impl; [|exact Hdigf]. intros x Hx. unfold is_digit in Hx. lia. }
  unfold parse_url, input_new_trim_c0. cbv zeta.
  rewrite trim_id by (eapply Forall_impl; [|exact Hall]; intros x Hx; cbv beta in *; unfold is_c0_or_space; lia).
  rewrite (parse_scheme_five s _ H5).
  unfold parse_with_scheme. rewrite to_u32_ok by lia. cbn [pbind]. cbv zeta. rewrite (five_special s H5).
  assert (Hc : 32 < c) by (inversion Hchars as [|? ? Hx _]; lia).
  destruct (inp_count_matching is_slash_or_bslash (47 :: 47 :: (c :: t) ++ port_suffix s p)) as [sl rem] eqn:Ecm.
  pose proof (count_matching_ss c (t ++ port_suffix s p) ltac:(unfold is_tnl; lia) ltac:(unfold is_slash_or_bslash; lia)) as Hrem.
  cbn [app] in Ecm. rewrite Ecm in Hrem. cbn [snd] in Hrem. subst rem.
  set (sfx := port_suffix s p) in *.
  unfold after_double_slash. cbv zeta.
  unfold parse_userinfo.
  rewrite scan_last_at_none.
  2:{ change (c :: t ++ sfx) with ((c :: t) ++ sfx).
      apply Forall_app in Hall. destruct Hall as [_ Hall]. inversion Hall as [|x1 l1 _ Hall1]; subst.
      inversion Hall1 as [|x2 l2 _ Hall2]; subst. inversion Hall2 as [|x3 l3 _ Hall3]; subst.
      eapply Forall_impl; [|exact Hall3]. cbv beta. intros; lia. }
  rewrite !nlen_app in *. change (nlen [58]) with 1 in *. change (nlen [47; 47]) with 2 in *.
  rewrite !to_u32_ok by lia. cbn [pbind].
  set (ser0 := (s ++ [58]) ++ [47; 47]) in *.
  assert (Hser0 : nlen ser0 = nlen s + 3)
    by (unfold ser0; rewrite !nlen_app; change (nlen [58]) with 1; change (nlen [47; 47]) with 2; lia).
  rewrite Hser0. rewrite to_u32_ok by lia. cbn [pbind].
  replace (nlen s + 1 + 2 =? nlen s + 3) with true by (symmetry; apply N.eqb_eq; lia). cbn [negb].
  unfold parse_host_and_port, parse_host. cbn [st_is_file st_is_special scheme_type_eqb negb andb].
  change (c :: t ++ sfx) with ((c :: t) ++ sfx).
  rewrite (Hscan sfx) by (destruct Hsfx as [->| ->]; eauto).
  cbn [app].
  rewrite Hhp. cbn [of_result pbind]. rewrite Hhd.
  assert (Hne : h <> HDomain []) by (intros ->; cbn [host_fmt] in Hfmt; congruence).
  assert (Hlt1 : 1 <= nlen tout) by (destruct tout; [congruence|rewrite nlen_cons; lia]).
  assert (Hser1 : nlen (ser0 ++ tout) = nlen s + 3 + nlen tout) by (rewrite nlen_app; lia).
  rewrite Hser1. rewrite to_u32_ok by lia. cbn [pbind].
  rewrite (empty_host_check h _ _ Hne). cbn [pbind].
  replace (nfirstn (nlen s) (ser0 ++ tout)) with s
    by (unfold ser0; rewrite <- !app_assoc; now rewrite nfirstn_app_exact).
  unfold sfx, port_suffix in *. clear sfx.
  destruct (opt_eqb (default_port s) (Some p)) eqn:Edp.
  - change (inp_split_prefix_char 58 []) with (@None (list N)). cbn [pbind]. rewrite andb_false_r.
    rewrite (path_tail dbg hp ho).
    + eexists. split; [reflexivity|].
      unfold ser0. rewrite <- (app_assoc _ tout [47]).
      apply (accessors_of_result hp ho hd); [exact Hfmt|exact Hne|].
      right. split; [reflexivity|]. now apply opt_eqb_spec.
    + unfold ends_with_byte in *. rewrite rev_app_distr. destruct (rev tout) as [|x r] eqn:Er; [|exact Hlast].
      exfalso. apply Hone. apply (f_equal (@rev N)) in Er. now rewrite rev_involutive in Er.
    + rewrite Hser1. change (nlen []) with 0 in HB. lia.
    + rewrite Hser1. lia.
  - change (inp_split_prefix_char 58 (58 :: decimal p)) with (Some (decimal p)).
    unfold parse_port. rewrite Hport. cbn [pbind negb andb orb].
    rewrite opt_eqb_sym, Edp. cbn [pbind]. rewrite andb_false_r.
    assert (Hlen : nlen (58 :: decimal p) = 1 + nlen (decimal p)) by apply nlen_cons.
    rewrite (path_tail dbg hp ho).
    + eexists. split; [reflexivity|].
      replace (((ser0 ++ tout) ++ 58 :: decimal p) ++ [47])
        with (((s ++ [58]) ++ [47; 47]) ++ tout ++ ((58 :: decimal p) ++ [47]))
        by (unfold ser0; rewrite <- !app_assoc; reflexivity).
      apply (accessors_of_result hp ho hd); [exact Hfmt|exact Hne|]. left. reflexivity.
    + apply ends_with_not; [discriminate|]. constructor; [lia|].
      eapply Forall_impl; [|exact Hdigf]. intros x Hx. unfold is_digit in Hx. lia.
    + rewrite nlen_app, Hser1. lia.
    + rewrite nlen_app, Hser1. lia.
Qed.

(* the chars() of  scheme "://" UTF-8(text) [":" port]  *)
Lemma chars_of_serialization s T p : In s five_schemes -> p <= 65535 -> usv_list T ->
  str_chars (tuple_serialization s (utf8_encode T) p) = s ++ 58 :: 47 :: 47 :: T ++ port_suffix s p.
Proof.
  intros H5 Hp HT. rewrite tuple_serialization_eq. unfold str_chars.
  assert (Hs : Forall (fun c => c < 128) s) by (eapply Forall_impl; [|exact (five_chars s H5)]; cbv beta; intros; lia).
  assert (Hsfx : Forall (fun c => c < 128) (port_suffix s p)).
  { unfold port_suffix. destruct (opt_eqb _ _); [constructor|]. constructor; [lia|]. now apply decimal_ascii. }
  assert (E : s ++ 58 :: 47 :: 47 :: utf8_encode T ++ port_suffix s p = utf8_encode (s ++ [58; 47; 47] ++ T ++ port_suffix s p)).
  { rewrite !utf8_encode_app, (utf8_encode_asc s Hs), (utf8_encode_asc (port_suffix s p) Hsfx).
    rewrite (utf8_encode_asc [58; 47; 47]) by (repeat constructor; lia). reflexivity. }
  rewrite E. rewrite utf8_lossy_encode; [reflexivity|].
  unfold usv_list. apply Forall_app. split; [exact (asc_usv s Hs)|].
  apply Forall_app. split; [apply asc_usv; repeat constructor; lia|].
  apply Forall_app. split; [exact HT|exact (asc_usv _ Hsfx)].
Qed.

(* parsing  scheme "://" UTF-8(text) [":" port]  gives a URL with origin (scheme, h, port), whenever the text consists
   of scalar values, the host scan stops at its end, Host::parse reads it as h, and Display writes h as a non-empty
   text that does not end in '/' *)
Lemma rt_text_u s c t h p :
  In s five_schemes -> p <= 65535 ->
  scannable_u (c :: t) -> usv_list (c :: t) -> c <> 47 -> c <> 92 -> hp (c :: t) = Ok h ->
  hd h = host_fmt hd h -> host_fmt hd h <> [] -> ends_with_byte 47 (host_fmt hd h) = false ->
  nlen (tuple_serialization s (host_fmt hd h) p) < U32_MAX_P ->
  exists w, url_parse dbg hp ho hd (tuple_serialization s (utf8_encode (c :: t)) p) = POk w
            /\ forall f k, url_origin_fuel dbg hp ho hd f k w = OOk (Tuple s h p) k.
Proof.
  intros H5 Hp Hsc Hu Hc47 Hc92 Hhp Hhd Hne Hlast HB.
  rewrite tuple_serialization_eq in HB. rewrite !nlen_app, !nlen_cons, nlen_app in HB.
  destruct (parse_tuple_text_u s c t (host_fmt hd h) h p H5 Hsc Hc47 Hc92 Hhp Hhd eq_refl Hne Hlast Hp ltac:(lia))
    as (w & Hw & Hsch & Hhost & Hport).
  exists w. split.
  - unfold url_parse. rewrite (chars_of_serialization s (c :: t) p H5 Hp Hu). exact Hw.
  - intros f k. destruct (tuple_arm dbg hp ho hd f k w s h Hsch H5 Hhost) as (p' & Hp' & Ho).
    rewrite Hport in Hp'. inversion Hp'; subst. exact Ho.
Qed.

End RTU.

(* rt_text_u for a text of kept code points *)
Lemma rt_text_free dbg hp ho hd s c t h p :
  In s five_schemes -> p <= 65535 ->
  forallb freec (c :: t) = true -> usv_list (c :: t) -> hp (c :: t) = Ok h ->
  hd h = host_fmt hd h -> host_fmt hd h <> [] -> ends_with_byte 47 (host_fmt hd h) = false ->
  nlen (tuple_serialization s (host_fmt hd h) p) < U32_MAX_P ->
  exists w, url_parse dbg hp ho hd (tuple_serialization s (utf8_encode (c :: t)) p) = POk w
            /\ forall f k, url_origin_fuel dbg hp ho hd f k w = OOk (Tuple s h p) k.
Proof.
  intros H5 Hp Hf Hu. pose proof (freec_facts c ltac:(cbn [forallb] in Hf; apply andb_true_iff in Hf; tauto)) as Hc.
  apply (rt_text_u dbg hp ho hd s c t h p H5 Hp (scannable_u_free _ Hf) Hu); tauto.
Qed.
