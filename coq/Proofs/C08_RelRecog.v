(* Proofs/C08_RelRecog.v - the computable recognisers of C08_RelCanon.v accept C02's canonical forms:
   an explicit record hier_url passes hier_canon (the recogniser re-builds exactly that record from the
   accessors), rel_base_ok (front "scheme://" or "scheme:", not file) and rel_target_ok (canonical segments,
   query, fragment); hence so does every record in one of C02's three hierarchical canonical forms whose path
   is not empty and that carries no "/." marker.  (C08_RelAuth.v proves the law for these records directly; this
   file shows that the domain rel_canon of C08_relative_canon is not smaller on them.) *)
From RU Require Import Base.Prelude Base.Utf8 Base.Utf8Facts Model.AsciiSet Gen.Tables Model.PercentEncoding
  Model.HostT Model.UrlRecord Model.Parser Model.Setters Model.WF Model.MakeRelative Model.KnownC08
  Proofs.ListN Proofs.C14_Enc Proofs.C02_Enc Proofs.C02_Parts Proofs.C02_Opaque Proofs.C02_Path Proofs.C02_PathL1
  Proofs.C02_Reach Proofs.C02_AuthParts Proofs.C02_Auth Proofs.C02_AuthWf Proofs.C02_PathSp Proofs.C02_AuthSp
  Proofs.C02_AuthMain
  Proofs.C08_Input Proofs.C08_Simple Proofs.C08_Contain Proofs.C08_RelEval Proofs.C08_RelPath Proofs.C08_RelJoin
  Proofs.C08_RelMr Proofs.C08_RelLaw Proofs.C08_RelCanon Proofs.C08_RelNoAuth Proofs.C08_Absolute Proofs.C08_AbsNonfile
  Proofs.C08_RelAuth.

Lemma hi_eqb_refl h : hi_eqb h h = true.
Proof. destruct h; cbn [hi_eqb]; try reflexivity; [apply N.eqb_refl | apply list_eqb_refl]. Qed.

Lemma url_eqb_refl u : url_eqb u u = true.
Proof. unfold url_eqb. rewrite list_eqb_refl, !N.eqb_refl, hi_eqb_refl, !opt_eqb_refl. reflexivity. Qed.

(* ---------- str::split('/') on a canonical path ---------- *)
Lemma split_on_aux_seg s : forall cur X, no_slash s = true ->
  split_on_aux 47 cur (s ++ X) = split_on_aux 47 (rev s ++ cur) X.
Proof.
  induction s as [|c s IH]; intros cur X H; [reflexivity|].
  unfold no_slash in H. cbn [forallb] in H. apply andb_true_iff in H. destruct H as [H1 H2]. apply negb_true_iff in H1.
  cbn [app split_on_aux]. rewrite H1. rewrite IH by exact H2. cbn [rev]. rewrite <- app_assoc. reflexivity.
Qed.

Lemma split_on_segs_text segs : forall last, forallb no_slash segs = true -> no_slash last = true ->
  split_on 47 (segs_text segs ++ last) = segs ++ [last].
Proof.
  unfold split_on. induction segs as [|s segs IH]; intros last Hs Hl.
  - cbn [segs_text map concat app]. rewrite <- (app_nil_r last) at 1. rewrite split_on_aux_seg by exact Hl.
    cbn [split_on_aux]. rewrite app_nil_r, rev_involutive. reflexivity.
  - cbn [forallb] in Hs. apply andb_true_iff in Hs. destruct Hs as [H1 H2].
    unfold segs_text. cbn [map concat]. fold (segs_text segs). rewrite <- !app_assoc.
    rewrite split_on_aux_seg by exact H1. cbn [app split_on_aux]. replace (47 =? 47) with true by reflexivity.
    rewrite app_nil_r, rev_involutive. rewrite (IH last H2 Hl). reflexivity.
Qed.

(* ---------- an explicit record passes the recognisers ---------- *)
Section Recog.
Variables (pre : list N) (se ue hs he : N) (hi : host_internal) (po : option N).
Variables (segs : list (list N)) (last : list N) (q f : option (list N)).
Notation u := (hier_url pre se ue hs he hi po segs last q f).
Hypothesis Hs : forallb no_slash segs = true.
Hypothesis Hl : no_slash last = true.

Lemma hier_parts_hier : hier_parts u = Some (segs, last, q, f).
Proof.
  unfold hier_parts. rewrite hier_path, hier_query, hier_fragment. unfold path_text.
  rewrite split_on_segs_text by assumption. rewrite removelast_last, last_last. reflexivity.
Qed.

Lemma hier_u_pre : u_pre u = pre.
Proof. unfold u_pre. change (path_start u) with (nlen pre). apply hier_pre_of. Qed.

Lemma hier_canon_hier : hier_canon u = true.
Proof.
  unfold hier_canon. rewrite hier_parts_hier, hier_u_pre.
  change (scheme_end u) with se. change (username_end u) with ue. change (host_start u) with hs.
  change (host_end u) with he. change (hosti u) with hi. change (port u) with po.
  rewrite url_eqb_refl, Hs, Hl. reflexivity.
Qed.

Lemma rel_base_ok_hier : front_pre se pre -> st_is_file (scheme_type_of (nfirstn se pre)) = false -> rel_base_ok u = true.
Proof.
  intros Hf Hnf. unfold rel_base_ok, b_st. rewrite hier_u_pre, (hier_b_scheme _ _ _ _ _ _ _ _ _ _ _ Hf), Hnf.
  change (scheme_end u) with se.
  destruct Hf as [(A & R & -> & <-)|(A & -> & <-)].
  - rewrite nskipn_app_len. replace (nlen A <=? nlen (A ++ [58; 47; 47] ++ R)) with true by (rewrite nlen_app; lia).
    reflexivity.
  - rewrite nskipn_app_len. replace (nlen A <=? nlen (A ++ [58])) with true by (rewrite nlen_app; lia).
    rewrite orb_true_r. reflexivity.
Qed.

Lemma rel_target_ok_hier st : forallb (seg_ok st) segs = true -> seg_ok st last = true ->
  opt_clean (query_set st) q -> opt_clean T_FRAGMENT f -> nlen (ser u) <= U32_MAX_P ->
  rel_target_ok st u = true.
Proof.
  intros H1 H2 H3 H4 H5. unfold rel_target_ok. rewrite hier_parts_hier, H1, H2.
  assert (forall S o, opt_clean S o -> opt_cleanb S o = true) as G by (intros S [x|] H; [exact H | reflexivity]).
  rewrite (G _ _ H3), (G _ _ H4). replace (nlen (ser u) <=? U32_MAX_P) with true by lia. reflexivity.
Qed.

Lemma main_eqb_hier segs' last' q' f' : main_eqb u (hier_url pre se ue hs he hi po segs' last' q' f') = true.
Proof. unfold main_eqb. cbn [scheme_end username_end host_start host_end hosti port path_start hier_url]. rewrite !N.eqb_refl, hi_eqb_refl, opt_eqb_refl. reflexivity. Qed.

End Recog.

(* ---------- C02's canonical records with authority and a non-empty path ---------- *)
Section RecogAuth.
Variables (hp hpo : list N -> result host) (hd : host -> list N).

Theorem auth_recognised st sch ui h pt segs last q f : st_is_file st = false ->
  auth_ok hp hpo hd st sch ui h pt (Some (segs, last)) q f ->
  let u := auth_url hd sch ui h pt (Some (segs, last)) q f in
  hier_canon u = true /\ rel_base_ok u = true /\ b_st u = st
  /\ ((st = STSpecialNotFile -> pth_ok_sp (Some (segs, last))) -> nlen (ser u) <= U32_MAX_P -> rel_target_ok st u = true).
Proof.
  intros Hnf K u. unfold u. rewrite auth_is_hier.
  destruct K as [k1 k2 k3 k4 k5 k6 k7 k8 k9 k10 k11 k12]. cbn [pth_ok] in k7. destruct k7 as [Hs Hl].
  pose proof (good_segs_no_slash segs Hs) as Hsn. destruct (good_seg_parts last Hl) as (_ & Hln & _).
  pose proof (front_sch hd sch ui h pt []) as Es. rewrite app_nil_r in Es.
  assert (front_pre (nlen sch) (auth_front hd sch ui h pt)) as Hf.
  { left. exists sch, (ui_text ui ++ hd h ++ port_text pt). split; [unfold auth_front; rewrite <- app_assoc; reflexivity | reflexivity]. }
  split; [apply hier_canon_hier; assumption|]. split; [apply rel_base_ok_hier; rewrite ?Es, ?k2; assumption|].
  split; [unfold b_st; rewrite (hier_b_scheme _ _ _ _ _ _ _ _ _ _ _ Hf), Es; exact k2|].
  intros Kp Hlen. apply rel_target_ok_hier; try assumption.
  - destruct st; [discriminate Hnf | | apply segs_ok_nonspecial; exact Hs].
    destruct (Kp eq_refl) as [Hsp _]. apply segs_ok_special. exact Hsp.
  - destruct st; [discriminate Hnf | | apply seg_ok_nonspecial; exact Hl].
    destruct (Kp eq_refl) as [_ Hlp]. apply seg_ok_special. exact Hlp.
Qed.

(* a pair of canonical records with authority inside MR_ok is inside rel_canon, the computable domain of
   C08_relative_canon (the length premise: rel_target_ok bounds the whole target, C02's form only the offsets) *)
Hypothesis HRT : HostRT hp hpo hd.

Theorem auth_pair_rel_canon stb stt sch ui h pt bp bq bf sch' ui' h' pt' tp tq tf :
  st_is_file stb = false ->
  auth_ok hp hpo hd stb sch ui h pt bp bq bf ->
  auth_ok hp hpo hd stt sch' ui' h' pt' tp tq tf -> (stt = STSpecialNotFile -> pth_ok_sp tp) ->
  mr_ok (auth_url hd sch ui h pt bp bq bf) (auth_url hd sch' ui' h' pt' tp tq tf) = true ->
  nlen (ser (auth_url hd sch' ui' h' pt' tp tq tf)) <= U32_MAX_P ->
  rel_canon (auth_url hd sch ui h pt bp bq bf) (auth_url hd sch' ui' h' pt' tp tq tf) = true.
Proof.
  intros Hnf Kb Kt Ktp Hok Hlen.
  destruct (auth_pair_front true hp hpo hd HRT _ _ _ _ _ _ _ _ _ _ _ _ _ _ _ _ Hnf Kb Kt Ktp Hok)
    as (bsegs & blast & tsegs & tlast & -> & -> & -> & Et & K').
  rewrite Et in *. clear Et Kt.
  destruct (auth_recognised stb sch ui h pt bsegs blast bq bf Hnf Kb) as (Hcb & Hbb & Hbst & _).
  destruct (auth_recognised stb sch ui h pt tsegs tlast tq tf Hnf K') as (Hct & _ & _ & Htt).
  unfold rel_canon. rewrite Hcb, Hct, Hbb, Hbst, (Htt Ktp Hlen), Hok. rewrite !auth_is_hier, main_eqb_hier. reflexivity.
Qed.

End RecogAuth.

(* the authority-less form without the "/." marker *)
Theorem noauth_recognised sch segs last q f : noauth_ok sch segs last q f -> marker_of (path_text segs last) = [] ->
  let u := noauth_url sch (path_text segs last) q f in
  hier_canon u = true /\ rel_base_ok u = true /\ b_st u = STNotSpecial
  /\ (nlen (ser u) <= U32_MAX_P -> rel_target_ok STNotSpecial u = true).
Proof.
  intros K M u. unfold u. rewrite noauth_is_hier, M, app_nil_r.
  destruct K as [k1 k2 Hs Hl k5 k6 k7 k8 k9].
  pose proof (good_segs_no_slash segs Hs) as Hsn. destruct (good_seg_parts last Hl) as (_ & Hln & _).
  assert (nfirstn (nlen sch) (sch ++ [58]) = sch) as Es by apply nfirstn_app_len.
  assert (front_pre (nlen sch) (sch ++ [58])) as Hf by (right; exists sch; split; reflexivity).
  split; [apply hier_canon_hier; assumption|]. split; [apply rel_base_ok_hier; rewrite ?Es, ?k2; trivial|].
  split; [unfold b_st; rewrite (hier_b_scheme _ _ _ _ _ _ _ _ _ _ _ Hf), Es; exact k2|].
  intros Hlen. apply rel_target_ok_hier; try assumption; [apply segs_ok_nonspecial; exact Hs | apply seg_ok_nonspecial; exact Hl].
Qed.

(* ... and so is a pair of authority-less canonical records (inside MR_ok neither carries the "/." marker) *)
Lemma noauth_pair_front schb bsegs blast bq bf scht tsegs tlast tq tf :
  noauth_ok schb bsegs blast bq bf -> noauth_ok scht tsegs tlast tq tf ->
  mr_ok (noauth_url schb (path_text bsegs blast) bq bf) (noauth_url scht (path_text tsegs tlast) tq tf) = true ->
  marker_of (path_text bsegs blast) = [] /\ marker_of (path_text tsegs tlast) = [] /\ scht = schb.
Proof.
  intros Kb Kt Hok.
  destruct (noauth_url_wf schb bsegs blast bq bf Kb) as (_ & Cb & _).
  destruct (noauth_url_wf scht tsegs tlast tq tf Kt) as (_ & Ct & _).
  pose proof (mr_ok_pre _ _ Hok) as Epre. rewrite !noauth_u_pre in Epre.
  destruct Kb as [_ _ Hbs Hbl _ _ _ _ _]. destruct Kt as [_ _ Hts Htl _ _ _ _ _].
  destruct (good_seg_parts blast Hbl) as (_ & Hbln & _). destruct (good_seg_parts tlast Htl) as (_ & Htln & _).
  pose proof (good_segs_no_slash bsegs Hbs) as Hbsn. pose proof (good_segs_no_slash tsegs Hts) as Htsn.
  rewrite (noauth_is_hier schb) in Hok, Cb. rewrite (noauth_is_hier scht) in Hok, Ct.
  rewrite <- Epre in Hok, Ct.
  destruct (mr_ok_hier _ _ _ _ _ _ _ _ _ _ _ _ _ _ _ _ _ _ _ _ _ Cb Ct Hbsn Hbln Htsn Htln Hok) as (Nb & Nt & _).
  assert (marker_of (path_text bsegs blast) = []) as Mb by (unfold marker_of, path_text; rewrite path_no_ss by assumption; reflexivity).
  assert (marker_of (path_text tsegs tlast) = []) as Mt by (unfold marker_of, path_text; rewrite path_no_ss by assumption; reflexivity).
  split; [exact Mb|]. split; [exact Mt|].
  rewrite Mb, Mt, !app_nil_r in Epre. apply app_inj_tail in Epre. symmetry. exact (proj1 Epre).
Qed.

Theorem noauth_pair_rel_canon schb bsegs blast bq bf scht tsegs tlast tq tf :
  noauth_ok schb bsegs blast bq bf -> noauth_ok scht tsegs tlast tq tf ->
  mr_ok (noauth_url schb (path_text bsegs blast) bq bf) (noauth_url scht (path_text tsegs tlast) tq tf) = true ->
  nlen (ser (noauth_url scht (path_text tsegs tlast) tq tf)) <= U32_MAX_P ->
  rel_canon (noauth_url schb (path_text bsegs blast) bq bf) (noauth_url scht (path_text tsegs tlast) tq tf) = true.
Proof.
  intros Kb Kt Hok Hlen.
  destruct (noauth_pair_front _ _ _ _ _ _ _ _ _ _ Kb Kt Hok) as (Mb & Mt & ->).
  destruct (noauth_recognised schb bsegs blast bq bf Kb Mb) as (Hcb & Hbb & Hbst & _).
  destruct (noauth_recognised schb tsegs tlast tq tf Kt Mt) as (Hct & _ & _ & Htt).
  unfold rel_canon. rewrite Hcb, Hct, Hbb, Hbst, (Htt Hlen), Hok. rewrite !noauth_is_hier, Mb, Mt, !app_nil_r, main_eqb_hier. reflexivity.
Qed.

(* ---------- every pair of C02's canonical forms inside MR_ok is inside rel_canon ---------- *)
Section RecogForms.
Variables (hp hpo : list N -> result host) (hd : host -> list N).
Hypothesis HRT : HostRT hp hpo hd.

Theorem forms_rel_canon b t : nonfile_form hp hpo hd b -> nonfile_form hp hpo hd t ->
  mr_ok b t = true -> nlen (ser t) <= U32_MAX_P -> rel_canon b t = true.
Proof.
  intros Fb Ft Hok Hlen. destruct (mr_ok_cbb b t Hok) as [Cb Ct]. pose proof (mr_ok_pre b t Hok) as Epre.
  destruct Fb as [schb P bq bf Kb ->|schb bsegs blast bq bf Kb ->|schb uib hb ptb bp bq bf Kb ->|schb uib hb ptb bp bq bf Kb Kbp ->].
  - rewrite (opaque_url_cbb schb P bq bf Kb) in Cb. discriminate.
  - destruct Ft as [scht P tq tf Kt ->|scht tsegs tlast tq tf Kt ->|scht uit ht ptt tp tq tf Kt ->|scht uit ht ptt tp tq tf Kt Ktp ->].
    + rewrite (opaque_url_cbb scht P tq tf Kt) in Ct. discriminate.
    + exact (noauth_pair_rel_canon schb bsegs blast bq bf scht tsegs tlast tq tf Kb Kt Hok Hlen).
    + exfalso. rewrite noauth_u_pre, auth_u_pre in Epre. symmetry in Epre.
      exact (front_mismatch hd _ _ _ _ _ _ (nk_sch _ _ _ _ _ Kb) (ak_sch _ _ _ _ _ _ _ _ _ _ _ Kt) Epre).
    + exfalso. rewrite noauth_u_pre, auth_u_pre in Epre. symmetry in Epre.
      exact (front_mismatch hd _ _ _ _ _ _ (nk_sch _ _ _ _ _ Kb) (ak_sch _ _ _ _ _ _ _ _ _ _ _ Kt) Epre).
  - destruct Ft as [scht P tq tf Kt ->|scht tsegs tlast tq tf Kt ->|scht uit ht ptt tp tq tf Kt ->|scht uit ht ptt tp tq tf Kt Ktp ->].
    + rewrite (opaque_url_cbb scht P tq tf Kt) in Ct. discriminate.
    + exfalso. rewrite noauth_u_pre, auth_u_pre in Epre.
      exact (front_mismatch hd _ _ _ _ _ _ (nk_sch _ _ _ _ _ Kt) (ak_sch _ _ _ _ _ _ _ _ _ _ _ Kb) Epre).
    + apply (auth_pair_rel_canon hp hpo hd HRT STNotSpecial STNotSpecial); try assumption; [reflexivity | discriminate].
    + apply (auth_pair_rel_canon hp hpo hd HRT STNotSpecial STSpecialNotFile); try assumption; [reflexivity | intros _; exact Ktp].
  - destruct Ft as [scht P tq tf Kt ->|scht tsegs tlast tq tf Kt ->|scht uit ht ptt tp tq tf Kt ->|scht uit ht ptt tp tq tf Kt Ktp ->].
    + rewrite (opaque_url_cbb scht P tq tf Kt) in Ct. discriminate.
    + exfalso. rewrite noauth_u_pre, auth_u_pre in Epre.
      exact (front_mismatch hd _ _ _ _ _ _ (nk_sch _ _ _ _ _ Kt) (ak_sch _ _ _ _ _ _ _ _ _ _ _ Kb) Epre).
    + apply (auth_pair_rel_canon hp hpo hd HRT STSpecialNotFile STNotSpecial); try assumption; [reflexivity | discriminate].
    + apply (auth_pair_rel_canon hp hpo hd HRT STSpecialNotFile STSpecialNotFile); try assumption; [reflexivity | intros _; exact Ktp].
Qed.

Theorem parsed_rel_canon dbg bi ti b t : host_above hp hpo hd -> usv_list bi -> usv_list ti ->
  nonfile_input bi = true -> nonfile_input ti = true ->
  parse_url dbg hp hpo hd None None bi = POk b -> parse_url dbg hp hpo hd None None ti = POk t ->
  mr_ok b t = true -> nlen (ser t) <= U32_MAX_P -> rel_canon b t = true.
Proof.
  intros HAb Hub Hut Cb Ct Pb Pt Hok Hlen.
  exact (forms_rel_canon b t (nonfile_parse_form dbg hp hpo hd HRT bi b HAb Hub Cb Pb)
           (nonfile_parse_form dbg hp hpo hd HRT ti t HAb Hut Ct Pt) Hok Hlen).
Qed.

End RecogForms.
