(* Proofs/C18_Machine.v - the decoder as a pure machine plus a sink protocol.
   For EVERY sink closure, Decoder::feed / finish behave as: compute a list of chunks from the input
   alone, attempt the writes in order, stop at the first one that fails.  Chunking independence
   and the sink-failure law follow. *)
From RU Require Import Base.Prelude Gen.Tables Model.Base64.

(* ---- the sink-independent part of the decoder state and of one loop iteration ---- *)
Record pst := mk_pst { p_buf : N; p_len : N; p_pad : N }.

Inductive pres :=
| PSkip (p : pst)                      (* no write *)
| PEmit (p : pst) (chunk : list N)     (* p = state at the moment of the write (len not yet reset) *)
| PErr (e : b64_details).

Definition p_reset (p : pst) : pst := mk_pst (p_buf p) 0 (p_pad p).

Definition pstep (p : pst) (byte : N) : pres :=
  let value := b64_value byte in
  if (value <? 0)%Z then
    if memb byte T_B64_WS then PSkip p
    else if byte =? T_B64_PAD then PSkip (mk_pst (p_buf p) (p_len p) (u8_saturating_add (p_pad p) 1))
    else PErr (UnexpectedSymbol byte)
  else if 0 <? p_pad p then PErr AlphabetSymbolAfterPadding
  else
    let buf := N.lor (u32_shl (p_buf p) 6) (Z.to_N value) in
    if p_len p <? 18 then PSkip (mk_pst buf (p_len p + 6) (p_pad p))
    else PEmit (mk_pst buf (p_len p) (p_pad p))
               [as_u8 (N.shiftr buf 16); as_u8 (N.shiftr buf 8); as_u8 buf].

Definition pst_of {W} (d : decoder W) : pst := mk_pst (d_buf d) (d_len d) (d_pad d).
Definition with_pst {W} (w : W) (p : pst) : decoder W := mk_decoder w (p_buf p) (p_len p) (p_pad p).

Lemma with_pst_of {W} (d : decoder W) : with_pst (d_sink d) (pst_of d) = d.
Proof. destruct d; reflexivity. Qed.
Lemma pst_of_with {W} (w : W) p : pst_of (with_pst w p) = p.
Proof. destruct p; reflexivity. Qed.
Lemma sink_with {W} (w : W) p : d_sink (with_pst w p) = w.
Proof. reflexivity. Qed.

(* pure trace of feed: the chunks written if every write succeeds, then the final state or the error *)
Fixpoint ptrace (p : pst) (input : list N) : list (list N) * (pst + b64_details) :=
  match input with
  | [] => ([], inl p)
  | b :: r =>
      match pstep p b with
      | PSkip p' => ptrace p' r
      | PErr e => ([], inr e)
      | PEmit p' c => let (cs, fin) := ptrace (p_reset p') r in (c :: cs, fin)
      end
  end.

(* pure finish: the chunk written (if any) and the verdict *)
Definition pfinish (p : pst) : list (list N) * option b64_details :=
  let len := p_len p in
  let pad := p_pad p in
  if (len =? 0) && (pad =? 0) then ([], None)
  else if (len =? 12) && ((pad =? 2) || (pad =? 0)) then ([[as_u8 (N.shiftr (p_buf p) 4)]], None)
  else if (len =? 18) && ((pad =? 1) || (pad =? 0)) then
    ([[as_u8 (N.shiftr (p_buf p) 10); as_u8 (N.shiftr (p_buf p) 2)]], None)
  else if len =? 6 then ([], Some LoneAlphabetSymbol)
  else ([], Some PaddingErr).

Definition p_new : pst := mk_pst 0 0 0.

(* pure run: all chunks of feed-then-finish and the verdict *)
Definition prun (input : list N) : list (list N) * option b64_details :=
  let (c1, fin) := ptrace p_new input in
  match fin with
  | inl p => let (c2, v) := pfinish p in (c1 ++ c2, v)
  | inr e => (c1, Some e)
  end.

Lemma ptrace_app p x y :
  ptrace p (x ++ y) =
  let (c1, fin) := ptrace p x in
  match fin with
  | inl p' => let (c2, fin2) := ptrace p' y in (c1 ++ c2, fin2)
  | inr e => (c1, inr e)
  end.
Proof.
  revert p. induction x as [|b r IH]; intros p.
  - cbn [app ptrace]. destruct (ptrace p y) as [c2 fin2]. reflexivity.
  - cbn [app ptrace]. destruct (pstep p b) as [p'|p' c|e].
    + apply IH.
    + rewrite IH. destruct (ptrace (p_reset p') r) as [c1 [p''|e]].
      * destruct (ptrace p'' y) as [c2 fin2]. reflexivity.
      * reflexivity.
    + reflexivity.
Qed.

Section AnySink.
  Context {W E : Type}.
  Variable write : W -> list N -> W * option E.

  (* attempt the writes in order, stop at the first failure *)
  Fixpoint attempt (w : W) (calls : list (list N)) : W * option E :=
    match calls with
    | [] => (w, None)
    | c :: r => match write w c with
                | (w', None) => attempt w' r
                | (w', Some e) => (w', Some e)
                end
    end.

  Lemma attempt_app w a b :
    attempt w (a ++ b) = match attempt w a with
                         | (w', None) => attempt w' b
                         | (w', Some e) => (w', Some e)
                         end.
  Proof.
    revert w. induction a as [|c r IH]; intros w; cbn [app attempt]; [reflexivity|].
    destruct (write w c) as [w' [e|]]; [reflexivity | apply IH].
  Qed.

  Lemma feed_byte_pstep d b :
    feed_byte write d b =
    match pstep (pst_of d) b with
    | PSkip p => (with_pst (d_sink d) p, None)
    | PErr e => (d, Some (InvalidBase64 e))
    | PEmit p c =>
        match write (d_sink d) c with
        | (w', Some e) => (with_pst w' p, Some (WriteError e))
        | (w', None) => (with_pst w' (p_reset p), None)
        end
    end.
  Proof.
    destruct d as [w buf len pad]. unfold feed_byte, pstep, pst_of, with_pst, p_reset.
    cbn [d_sink d_buf d_len d_pad p_buf p_len p_pad].
    destruct (b64_value b <? 0)%Z.
    - destruct (memb b T_B64_WS); [reflexivity|]. destruct (b =? T_B64_PAD); reflexivity.
    - destruct (0 <? pad); [reflexivity|]. destruct (len <? 18); reflexivity.
  Qed.

  (* feed against any sink = attempt the pure trace *)
  Definition feed_law (w : W) (p : pst) (input : list N) (res : decoder W * option (decode_error E)) : Prop :=
    let (calls, fin) := ptrace p input in
    match attempt w calls, fin with
    | (w', None), inl p' => res = (with_pst w' p', None)
    | (w', None), inr e => d_sink (fst res) = w' /\ snd res = Some (InvalidBase64 e)
    | (w', Some e), _ => d_sink (fst res) = w' /\ snd res = Some (WriteError e)
    end.

  Lemma feed_ptrace w p input : feed_law w p input (feed write (with_pst w p) input).
  Proof.
    unfold feed_law. revert w p. induction input as [|b r IH]; intros w p.
    - cbn [ptrace attempt feed]. reflexivity.
    - cbn [ptrace feed]. rewrite feed_byte_pstep, pst_of_with, sink_with.
      destruct (pstep p b) as [p'|p' c|e].
      + apply IH.
      + specialize (IH).
        destruct (ptrace (p_reset p') r) as [cs fin] eqn:Etr. cbn [attempt].
        destruct (write w c) as [w' [e|]].
        * split; reflexivity.
        * specialize (IH w' (p_reset p')). rewrite Etr in IH. exact IH.
      + cbn [attempt]. split; reflexivity.
  Qed.

  Lemma finish_pfinish w p :
    finish write (with_pst w p) =
    let (calls, v) := pfinish p in
    match attempt w calls with
    | (w', None) => (w', option_map InvalidBase64 v)
    | (w', Some e) => (w', Some (WriteError e))
    end.
  Proof.
    destruct p as [buf len pad]. unfold finish, pfinish, with_pst.
    cbn [d_sink d_buf d_len d_pad p_buf p_len p_pad].
    destruct ((len =? 0) && (pad =? 0)); [reflexivity|].
    destruct ((len =? 12) && ((pad =? 2) || (pad =? 0))).
    { cbn [attempt]. destruct (write w _) as [w' [e|]]; reflexivity. }
    destruct ((len =? 18) && ((pad =? 1) || (pad =? 0))).
    { cbn [attempt]. destruct (write w _) as [w' [e|]]; reflexivity. }
    destruct (len =? 6); reflexivity.
  Qed.

  (* the verdict of a run against a sink, from the pure trace *)
  Definition exec (w : W) (t : list (list N) * option b64_details) : W * option (decode_error E) :=
    match attempt w (fst t) with
    | (w', None) => (w', option_map InvalidBase64 (snd t))
    | (w', Some e) => (w', Some (WriteError e))
    end.

  Lemma run_unfold w input :
    run write w input =
    match feed write (decoder_new w) input with
    | (d, None) => finish write d
    | (d, Some e) => (d_sink d, Some e)
    end.
  Proof.
    unfold run, run_chunks. cbn [feed_chunks].
    destruct (feed write (decoder_new w) input) as [d [e|]]; reflexivity.
  Qed.

  Theorem run_exec w input : run write w input = exec w (prun input).
  Proof.
    rewrite run_unfold. change (decoder_new w) with (with_pst w p_new).
    pose proof (feed_ptrace w p_new input) as HF. unfold feed_law in HF.
    unfold exec, prun.
    destruct (ptrace p_new input) as [c1 fin].
    destruct (feed write (with_pst w p_new) input) as [d r]. cbn [fst snd] in HF.
    destruct fin as [p'|e].
    - destruct (pfinish p') as [c2 v] eqn:Efin. cbn [fst snd]. rewrite attempt_app.
      destruct (attempt w c1) as [w' [e|]].
      + destruct HF as [H1 H2]. subst r. rewrite H1. reflexivity.
      + inversion HF; subst d r. rewrite finish_pfinish, Efin. reflexivity.
    - cbn [fst snd]. destruct (attempt w c1) as [w' [e'|]]; destruct HF as [H1 H2]; subst r; rewrite H1; reflexivity.
  Qed.

  (* ---- chunking ---- *)
  Lemma feed_app d x y :
    feed write d (x ++ y) = match feed write d x with
                            | (d', None) => feed write d' y
                            | (d', Some e) => (d', Some e)
                            end.
  Proof.
    revert d. induction x as [|b r IH]; intros d; cbn [app feed]; [reflexivity|].
    destruct (feed_byte write d b) as [d' [e|]]; [reflexivity | apply IH].
  Qed.

  Lemma feed_chunks_concat d cs : feed_chunks write d cs = feed write d (concat cs).
  Proof.
    revert d. induction cs as [|c r IH]; intros d; cbn [feed_chunks concat]; [reflexivity|].
    rewrite feed_app. destruct (feed write d c) as [d' [e|]]; [reflexivity | apply IH].
  Qed.

  Theorem run_chunks_concat w cs : run_chunks write w cs = run write w (concat cs).
  Proof.
    unfold run, run_chunks. rewrite !feed_chunks_concat. cbn [concat]. rewrite app_nil_r. reflexivity.
  Qed.

  (* the closure `|bytes| decoder.feed(bytes)` used as a sink: attempting writes on it is feed_chunks *)
  Lemma attempt_feed_is_feed_chunks_gen (attempt_feed : decoder W -> list (list N) -> decoder W * option (decode_error E)) :
    (forall d, attempt_feed d [] = (d, None)) ->
    (forall d c r, attempt_feed d (c :: r) = match feed write d c with
                                             | (d', None) => attempt_feed d' r
                                             | (d', Some e) => (d', Some e) end) ->
    forall d cs, attempt_feed d cs = feed_chunks write d cs.
  Proof.
    intros H0 H1 d cs. revert d. induction cs as [|c r IH]; intros d.
    - rewrite H0. reflexivity.
    - rewrite H1. cbn [feed_chunks]. destruct (feed write d c) as [d' [e|]]; [reflexivity | apply IH].
  Qed.
End AnySink.

Lemma attempt_feed_is_feed_chunks {W E} (write : W -> list N -> W * option E) d cs :
  attempt (feed write) d cs = feed_chunks write d cs.
Proof.
  apply (attempt_feed_is_feed_chunks_gen write (attempt (feed write))); intros; reflexivity.
Qed.

(* ---- the recording sink that fails at its k-th call ---- *)
Lemma attempt_kwrite_never n o calls :
  attempt kwrite (mk_ksink None n o) calls = (mk_ksink None (n + length calls) (o ++ calls), None).
Proof.
  revert n o. induction calls as [|c r IH]; intros n o.
  - cbn [attempt length]. rewrite Nat.add_0_r, app_nil_r. reflexivity.
  - cbn [attempt]. unfold kwrite at 1. cbn [ks_fail_at ks_calls ks_out option_nat_eqb].
    rewrite IH. cbn [length]. rewrite <- app_assoc. cbn [app]. f_equal. f_equal. lia.
Qed.

Lemma attempt_kwrite_fail k n o calls :
  (n < k)%nat ->
  attempt kwrite (mk_ksink (Some k) n o) calls =
  if (k <=? n + length calls)%nat
  then (mk_ksink (Some k) k (o ++ firstn (k - n - 1) calls), Some tt)
  else (mk_ksink (Some k) (n + length calls) (o ++ calls), None).
Proof.
  revert n o. induction calls as [|c r IH]; intros n o Hn.
  - cbn [attempt length]. rewrite Nat.add_0_r.
    destruct (k <=? n)%nat eqn:Hk; [apply Nat.leb_le in Hk; lia|]. rewrite app_nil_r. reflexivity.
  - cbn [attempt]. unfold kwrite at 1. cbn [ks_fail_at ks_calls ks_out option_nat_eqb length].
    destruct (Nat.eqb k (S n)) eqn:Hk.
    + apply Nat.eqb_eq in Hk. subst k.
      destruct (S n <=? n + S (length r))%nat eqn:Hle; [|apply Nat.leb_gt in Hle; lia].
      replace (S n - n - 1)%nat with 0%nat by lia. cbn [firstn]. rewrite app_nil_r. reflexivity.
    + apply Nat.eqb_neq in Hk. rewrite IH by lia.
      replace (S n + length r)%nat with (n + S (length r))%nat by lia.
      destruct (k <=? n + S (length r))%nat.
      * replace (k - n - 1)%nat with (S (k - S n - 1)) by lia. cbn [firstn].
        rewrite <- app_assoc. reflexivity.
      * rewrite <- app_assoc. reflexivity.
Qed.

(* what a function that "attempts a fixed list of calls then returns a verdict" does against the
   k-failing sink, compared with the never-failing sink: the sink law of the property text *)
Definition sink_law {V : Type} (werr : V) (free : ksink * V) (failing : ksink * V) (k : nat) : Prop :=
  ks_calls (fst free) = length (ks_out (fst free)) /\
  if (k <=? ks_calls (fst free))%nat
  then ks_out (fst failing) = firstn (k - 1) (ks_out (fst free)) /\ snd failing = werr
       /\ ks_calls (fst failing) = k
  else ks_out (fst failing) = ks_out (fst free) /\ snd failing = snd free
       /\ ks_calls (fst failing) = ks_calls (fst free).

Lemma attempt_sink_law {V} (werr : V) (verdict : V) calls k :
  (1 <= k)%nat ->
  sink_law werr
    (let (s, r) := attempt kwrite (ksink_new None) calls in (s, match r with None => verdict | Some _ => werr end))
    (let (s, r) := attempt kwrite (ksink_new (Some k)) calls in (s, match r with None => verdict | Some _ => werr end))
    k.
Proof.
  intros Hk. unfold ksink_new. rewrite attempt_kwrite_never, attempt_kwrite_fail by lia.
  unfold sink_law. cbn [fst snd ks_calls ks_out app Nat.add].
  split; [reflexivity|].
  destruct (k <=? length calls)%nat eqn:Hle; cbn [fst snd ks_calls ks_out app].
  - replace (k - 0 - 1)%nat with (k - 1)%nat by lia. repeat split; reflexivity.
  - repeat split; reflexivity.
Qed.

Theorem run_sink_law input k :
  (1 <= k)%nat ->
  sink_law (Some (WriteError tt))
    (run kwrite (ksink_new None) input) (run kwrite (ksink_new (Some k)) input) k.
Proof.
  intros Hk. rewrite !run_exec. unfold exec.
  pose proof (attempt_sink_law (Some (WriteError tt)) (option_map (@InvalidBase64 unit) (snd (prun input)))
                (fst (prun input)) k Hk) as H.
  destruct (attempt kwrite (ksink_new None) (fst (prun input))) as [s1 [[]|]];
  destruct (attempt kwrite (ksink_new (Some k)) (fst (prun input))) as [s2 [[]|]]; exact H.
Qed.

(* ---- decode_to_vec is the concatenation of the pure trace ---- *)
Lemma attempt_vec v calls : attempt vec_write v calls = (v ++ concat calls, None).
Proof.
  revert v. induction calls as [|c r IH]; intros v; cbn [attempt concat].
  - rewrite app_nil_r. reflexivity.
  - unfold vec_write at 1. rewrite IH, app_assoc. reflexivity.
Qed.

Theorem decode_to_vec_prun input :
  decode_to_vec input = match snd (prun input) with
                        | None => inl (concat (fst (prun input)))
                        | Some e => inr e
                        end.
Proof.
  pose proof (run_exec vec_write [] input) as HR. rewrite run_unfold in HR.
  unfold decode_to_vec. unfold exec in HR. rewrite attempt_vec in HR. cbn [app] in HR.
  destruct (feed vec_write (decoder_new []) input) as [d [[e|[]]|]].
  - destruct (snd (prun input)); cbn [option_map] in HR; inversion HR; reflexivity.
  - destruct (finish vec_write d) as [v [[e|[]]|]];
      destruct (snd (prun input)); cbn [option_map] in HR; inversion HR; reflexivity.
Qed.
