(* Proofs/C09_V6rt.v - parse_ipv6addr (write_ipv6 a) = a for all eight-piece addresses. *)
From RU Require Import Base.Prelude Base.Utf8 Model.AsciiSet Gen.Tables Model.PercentEncoding Model.HostT Model.Host
  Proofs.C09_V6.

(* ------------------------------------------------------------------ what the round trip needs of longest_zero_sequence *)

Definition zrun (z : list N) (i j : nat) : bool :=
  forallb (fun k => nth k z 1 =? 0) (seq i (j - i)).

Definition lzs_shape_b (z : list N) : bool :=
  let '(cs, ce) := longest_zero_sequence z in
  if (cs =? -1)%Z then (ce =? -2)%Z
  else (0 <=? cs)%Z && (cs + 2 <=? ce)%Z && (ce <=? 8)%Z && zrun z (Z.to_nat cs) (Z.to_nat ce).

Lemma lzs_shape_sweep : all_below 256 (fun k => lzs_shape_b (pat k)) = true.
Proof. vm_compute. reflexivity. Qed.

Lemma zrun_nz z i j : zrun (map nz z) i j = zrun z i j.
Proof.
  unfold zrun. induction (seq i (j - i)) as [|k l IH]; [reflexivity|]. cbn [forallb]. rewrite IH. f_equal.
  change 1 with (nz 1) at 1. rewrite map_nth. unfold nz. destruct (nth k z 1 =? 0) eqn:E; lia.
Qed.

Lemma lzs_shape a : length a = 8%nat -> lzs_shape_b a = true.
Proof.
  intros H. destruct (length8 a H) as (a0 & a1 & a2 & a3 & a4 & a5 & a6 & a7 & ->).
  destruct (nz_pat a0 a1 a2 a3 a4 a5 a6 a7) as (k & Hk & E).
  pose proof (all_below_spec _ _ lzs_shape_sweep k Hk) as S. cbv beta in S.
  rewrite <- E in S. unfold lzs_shape_b in *. rewrite lzs_nz in S.
  destruct (longest_zero_sequence [a0; a1; a2; a3; a4; a5; a6; a7]) as [cs ce].
  rewrite zrun_nz in S. exact S.
Qed.

(* ------------------------------------------------------------------ the round trip *)

Arguments hex4 : simpl never.
Arguments parse_ipv6addr : simpl never.

Lemma xr_bind_ok {A B} (a : A) (f : A -> xr B) : xr_bind (XOk a) f = f a.
Proof. reflexivity. Qed.

Ltac v6_side :=
  match goal with
  | |- _ < 65536 => assumption
  | |- _ < 8 => vm_compute; reflexivity
  | |- length _ = 8%nat => repeat rewrite upd_nth_length; reflexivity
  | |- hex4 _ ++ _ <> [] => apply hex4_app_nonnil
  | |- hex4 _ <> [] => apply hex4_nonnil
  | |- _ :: _ <> [] => discriminate
  end.

Ltac v6_steps :=
  repeat first
    [ rewrite v6m_piece_colon by v6_side
    | rewrite v6m_piece_last by v6_side
    | rewrite v6m_compress by v6_side
    | rewrite v6m_nil ].

Ltac v6_case Hl :=
  unfold write_ipv6, write_ipv6_o; rewrite Hl;
  repeat (cbn; match goal with |- context [Pos.to_nat ?p] => let n := eval compute in (Pos.to_nat p) in change (Pos.to_nat p) with n end);
  cbn; rewrite ?app_nil_r;
  first [ rewrite parse_ipv6addr_cc | rewrite parse_ipv6addr_piece by assumption ];
  v6_steps;
  rewrite xr_bind_ok; vm_compute; reflexivity.

Theorem parse_write_ipv6 a :
  length a = 8%nat -> Forall (fun x => x < 65536) a -> parse_ipv6addr (write_ipv6 a) = XOk a.
Proof.
  intros Hlen Hall.
  pose proof (lzs_shape a Hlen) as Hs.
  destruct (length8 a Hlen) as (a0 & a1 & a2 & a3 & a4 & a5 & a6 & a7 & ->).
  repeat match goal with H : Forall _ (_ :: _) |- _ => inversion H; clear H; subst end.
  unfold lzs_shape_b in Hs.
  destruct (longest_zero_sequence [a0; a1; a2; a3; a4; a5; a6; a7]) as [cs ce] eqn:Hl.
  destruct (cs =? -1)%Z eqn:Ecs.
  - assert (cs = (-1)%Z) by lia. assert (ce = (-2)%Z) by lia. subst cs ce. clear Hs Ecs.
    v6_case Hl.
  - repeat (apply andb_true_iff in Hs; destruct Hs as [Hs ?]).
    assert (Hcs : (cs = 0 \/ cs = 1 \/ cs = 2 \/ cs = 3 \/ cs = 4 \/ cs = 5 \/ cs = 6)%Z) by lia.
    assert (Hce : (ce = 2 \/ ce = 3 \/ ce = 4 \/ ce = 5 \/ ce = 6 \/ ce = 7 \/ ce = 8)%Z) by lia.
    destruct Hcs as [->|[->|[->|[->|[->|[->| ->]]]]]];
    destruct Hce as [->|[->|[->|[->|[->|[->| ->]]]]]]; try lia;
    match goal with Hz : zrun _ _ _ = true |- _ =>
      cbv [zrun Z.to_nat Pos.to_nat Pos.iter_op Nat.add Nat.sub Init.Nat.add Init.Nat.sub seq forallb nth] in Hz;
      repeat (apply andb_true_iff in Hz; let Hx := fresh "Hx" in destruct Hz as [Hx Hz]; apply N.eqb_eq in Hx; subst)
    end;
    v6_case Hl.
Qed.
