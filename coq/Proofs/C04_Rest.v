(* Proofs/C04_Rest.v - panic freedom of the entry points that had no C04 theorem yet:
     the quirks:: getters and setters (wrappers over the accessors / mutators, parse_host, parse_port),
     Url::path_segments / query_pairs (views), Url::make_relative, Url::to_file_path / from_file_path /
     from_directory_path, Url::origin (with the exact model-level panic class).
   All on records satisfying wf_b / wfh; no hypothesis on the host functions. *)
From RU Require Import Base.Prelude Base.Utf8 Model.AsciiSet Gen.Tables Model.PercentEncoding
  Model.HostT Model.UrlRecord Model.Parser Model.Setters Model.WF Model.MakeRelative Model.QueryPairs Model.FilePath
  Proofs.ListN Proofs.C03_WF Proofs.C06_Steps Proofs.C06_Port Proofs.C06_Main Proofs.C06_Quirks
  Proofs.C04_Parse Proofs.C04_SetPath Proofs.C04_SetHost.
From RU Require Properties.C03 Properties.C06 Properties.C20.

(* ---------------------------------------------------------------- quirks getters *)
Section QuirksGet.
Variable dbg : bool.
Variable u : url.
Hypothesis W : wf_b u = true.

Theorem quirks_getters_total :
  (exists s, q_protocol u = Some s) /\ (exists s, q_username dbg u = Some s) /\ (exists s, q_password dbg u = Some s)
  /\ (exists s, q_host dbg u = Some s) /\ (exists s, q_hostname u = Some s) /\ (exists s, q_port dbg u = Some s)
  /\ (exists s, q_pathname u = Some s) /\ (exists s, q_search dbg u = Some s) /\ (exists s, q_hash dbg u = Some s).
Proof.
  destruct (C03.C03_concat dbg u W) as (sch & un & pw & hs & pth & q & f & H1 & H2 & H3 & H4 & H5 & _).
  destruct (C03.C03_slices dbg u W) as (R & T & _).
  split.
  { unfold q_protocol. destruct (wf_scheme_facts u W) as (_ & _ & Hlt).
    unfold scheme, u_slice_to. rewrite slice_to_o_some by lia. cbn [bindo].
    eexists. apply slice_to_o_some. rewrite nlen_nfirstn by lia. lia. }
  split; [exists un; exact H2|].
  split; [unfold q_password; rewrite H3; cbn [bindo]; eexists; reflexivity|].
  split; [unfold q_host; apply R; cbn; lia|].
  split; [unfold q_hostname; rewrite H4; cbn [bindo]; eexists; reflexivity|].
  split; [unfold q_port; apply R; cbn; lia|].
  split; [exists pth; exact H5|].
  split.
  - unfold q_search. destruct (R AfterPath AfterQuery ltac:(cbn; lia)) as [s Hs]. rewrite Hs. cbn [bindo]. eexists. reflexivity.
  - unfold q_hash. destruct (T AfterQuery) as (s & t & _ & Ht & _). rewrite Ht. cbn [bindo]. eexists. reflexivity.
Qed.
End QuirksGet.

(* ---------------------------------------------------------------- quirks setters *)
Section QuirksSet.
Variable dbg : bool.
Variable hp hpo : list N -> result host.
Variable hd : host -> list N.

Lemma parse_host_no_panic st l : parse_host hp hpo st l <> PPanic.
Proof.
  unfold parse_host. destruct (st_is_file st).
  - unfold get_file_host. destruct (file_host l) as [h rem]. destruct (hp h); cbn; discriminate.
  - destruct (host_scan (st_is_special st) false [] l) as [h rem].
    destruct (scheme_type_eqb st STSpecialNotFile && match h with [] => true | _ => false end); [discriminate|].
    destruct (negb (st_is_special st)); [destruct (hpo h) | destruct (hp h)]; cbn; discriminate.
Qed.

Lemma parse_port_no_panic ctx dflt l : parse_port ctx dflt l <> PPanic.
Proof.
  unfold parse_port. pose proof (parse_port_loop_no_panic ctx l 0 false) as Hp.
  destruct (parse_port_loop ctx l 0 false) as [[[p any] rem2]| |]; cbn [pbind]; [|discriminate|congruence].
  destruct (negb any && ctx_eqb ctx CSetter && negb (inp_is_empty rem2)); cbn [pbind]; discriminate.
Qed.

Variable u : url.
Hypothesis WH : wfh u.

Theorem q_set_host_total v : exists r, q_set_host dbg hp hpo hd u v = Some r.
Proof.
  destruct WH as [W _]. unfold q_set_host. rewrite (cannot_be_a_base_eval u W). cbn [bindo].
  destruct (negb (byte_eqb (ser u) (scheme_end u + 1) 47)); [eexists; reflexivity|].
  rewrite (scheme_eval u W). cbn [bindo]. set (sc := piece u _ _). set (st := scheme_type_of sc).
  destruct (scheme_type_eqb st STFile && match v with [] => true | _ => false end).
  - destruct (set_host_internal_total dbg hp hpo hd u (HDomain []) None W) as [u' E]. rewrite E. cbn [bindo]. eexists. reflexivity.
  - pose proof (parse_host_no_panic st (input_new_no_trim v)) as Hh.
    destruct (parse_host hp hpo st (input_new_no_trim v)) as [[h remaining]|e|]; [| |congruence]; cbn [pres_ok bindo];
      [|eexists; reflexivity].
    set (op := match inp_split_prefix_char 58 remaining with
               | Some rem => if inp_is_empty rem then Some None
                             else match parse_port CSetter (default_port sc) rem with POk (p, _) => Some (Some p) | _ => Some None end
               | None => Some None end).
    assert (exists o, op = Some o) as [o Eo].
    { unfold op. destruct (inp_split_prefix_char 58 remaining) as [rem|]; [|eexists; reflexivity].
      destruct (inp_is_empty rem); [eexists; reflexivity|].
      destruct (parse_port CSetter (default_port sc) rem) as [[p r]| |]; eexists; reflexivity. }
    rewrite Eo. cbn [bindo]. rewrite (username_eval dbg u W). cbn [bindo].
    match goal with |- exists r, (if ?c then _ else _) = Some r => destruct c end; [eexists; reflexivity|].
    destruct (set_host_internal_total dbg hp hpo hd u h o W) as [u' E]. rewrite E. cbn [bindo]. eexists. reflexivity.
Qed.

Theorem q_set_hostname_total v : exists r, q_set_hostname dbg hp hpo hd u v = Some r.
Proof.
  destruct WH as [W _]. unfold q_set_hostname. rewrite (cannot_be_a_base_eval u W). cbn [bindo].
  destruct (negb (byte_eqb (ser u) (scheme_end u + 1) 47)); [eexists; reflexivity|].
  rewrite (scheme_eval u W). cbn [bindo]. set (sc := piece u _ _). set (st := scheme_type_of sc).
  destruct (scheme_type_eqb st STFile && match v with [] => true | _ => false end).
  - destruct (set_host_internal_total dbg hp hpo hd u (HDomain []) None W) as [u' E]. rewrite E. cbn [bindo]. eexists. reflexivity.
  - pose proof (parse_host_no_panic st (input_new_no_trim v)) as Hh.
    destruct (parse_host hp hpo st (input_new_no_trim v)) as [[h remaining]|e|]; [| |congruence]; cbn [pres_ok bindo];
      [|eexists; reflexivity].
    destruct (quirks_getters_total dbg u W) as (_ & _ & [pw Epw] & _ & _ & [pt Ept] & _).
    assert (exists b, match h with
                   | HDomain [] =>
                       p <- q_port dbg u ;; un <- username dbg u ;; pw <- q_password dbg u ;;
                       Some (scheme_type_eqb st STSpecialNotFile
                             || negb (match p with [] => true | _ => false end)
                             || negb (match un with [] => true | _ => false end)
                             || negb (match pw with [] => true | _ => false end))
                   | _ => Some false
                   end = Some b) as [b Eb].
    { destruct h as [[|d0 d]|a|a]; try (eexists; reflexivity).
      rewrite Ept, (username_eval dbg u W), Epw. cbn [bindo]. eexists. reflexivity. }
    rewrite Eb. cbn [bindo]. destruct b; [eexists; reflexivity|].
    destruct (set_host_internal_total dbg hp hpo hd u h None W) as [u' E]. rewrite E. cbn [bindo]. eexists. reflexivity.
Qed.

Theorem q_set_port_total v : exists r, q_set_port dbg u v = Some r.
Proof.
  destruct WH as [W HT]. destruct (q_set_port_ok dbg u v W HT) as (u' & st & E & _). exists (u', st). exact E.
Qed.

Theorem q_set_pathname_total v : exists u', q_set_pathname dbg u v = Some u'.
Proof.
  destruct WH as [W _]. unfold q_set_pathname. rewrite (cannot_be_a_base_eval u W). cbn [bindo].
  destruct (negb (byte_eqb (ser u) (scheme_end u + 1) 47)); [eexists; reflexivity|].
  unfold u_scheme_type. rewrite (scheme_eval u W). cbn [bindo].
  repeat match goal with |- exists u', (if ?c then _ else _) = Some u' => destruct c end; apply set_path_total; exact W.
Qed.

Theorem quirks_setters_total :
  (forall v, exists r, q_set_protocol dbg u v = Some r)
  /\ (forall v, exists r, q_set_username dbg u v = Some r)
  /\ (forall v, exists r, q_set_password dbg u v = Some r)
  /\ (forall v, exists r, q_set_host dbg hp hpo hd u v = Some r)
  /\ (forall v, exists r, q_set_hostname dbg hp hpo hd u v = Some r)
  /\ (forall v, exists r, q_set_port dbg u v = Some r)
  /\ (forall v, exists u', q_set_pathname dbg u v = Some u')
  /\ (forall v, usv_list v -> exists u', q_set_search dbg u v = Some u')
  /\ (forall v, exists u', q_set_hash dbg u v = Some u').
Proof.
  destruct (C06.C06_nopanic dbg u WH) as (Hf & Hq & _ & Hpw & Hun & Hs).
  split; [intros v; apply Hs|]. split; [intros v; apply Hun|]. split; [intros v; apply Hpw|].
  split; [exact q_set_host_total|]. split; [exact q_set_hostname_total|]. split; [exact q_set_port_total|].
  split; [exact q_set_pathname_total|]. split; [|intros v; apply Hf].
  intros v Hv. unfold q_set_search. apply Hq. destruct v as [|c r]; [exact I|].
  destruct (c =? 63) eqn:E.
  - apply N.eqb_eq in E. subst c. cbn. inversion Hv; assumption.
  - destruct c as [|p]; [exact Hv|]. 
    repeat (destruct p as [p|p|]; try exact Hv). discriminate E.
Qed.
End QuirksSet.

(* ---------------------------------------------------------------- views: path_segments, query_pairs *)
Lemma host_of_some (dbg : bool) u : wf_b u = true -> exists h, host_of u = Some h.
Proof.
  intros W. destruct (has_host u) eqn:Hh.
  - destruct (proj1 (proj1 (proj2 (C03.C03_views dbg u W))) Hh) as [h Eh]. exists (Some h). exact Eh.
  - unfold has_host in Hh. unfold host_of. destruct (hosti u); try discriminate. eexists. reflexivity.
Qed.

Theorem views_total dbg u : wf_b u = true ->
  (exists r, path_segments u = Some r) /\ (exists r, query_pairs dbg u = Some r).
Proof.
  intros W. split.
  - unfold path_segments. rewrite (path_eval u W). cbn [bindo].
    destruct (piece u _ _) as [|c r]; [eexists; reflexivity|].
    destruct c as [|p]; [eexists; reflexivity|]. repeat (destruct p as [p|p|]; try (eexists; reflexivity)).
  - unfold query_pairs. rewrite (query_eval dbg u W). eexists. reflexivity.
Qed.

(* ---------------------------------------------------------------- file paths *)
Theorem from_file_path_no_panic p : from_file_path p <> FPanic /\ from_directory_path p <> FPanic.
Proof.
  assert (from_file_path p <> FPanic) as H.
  { unfold from_file_path, path_to_file_url_segments. destruct (negb (path_is_absolute p)); [discriminate|].
    change (to_u32 (nlen s_file_css)) with (POk (A := N) 7). cbv zeta. discriminate. }
  split; [exact H|]. unfold from_directory_path. destruct (from_file_path p); [discriminate | discriminate | congruence].
Qed.

Theorem to_file_path_no_panic dbg u : wf_b u = true -> to_file_path dbg u <> FPanic.
Proof.
  intros W Hp. destruct (proj1 (views_total dbg u W)) as [[segs|] Es].
  - destruct (host_of_some dbg u W) as [h Eh].
    assert (scheme u <> None) as Hs by (rewrite (scheme_eval u W); discriminate).
    destruct h as [h|].
    + destruct h as [d|a|a].
      * destruct (list_eqb d s_localhost) eqn:El.
        -- apply list_eqb_spec in El. subst d.
           rewrite (C20.C20_to dbg u segs Es (or_intror Eh) Hs) in Hp. discriminate.
        -- assert (HDomain d <> HDomain s_localhost) as Hn.
           { intros X. inversion X; subst. rewrite (proj2 (list_eqb_spec s_localhost s_localhost) eq_refl) in El. discriminate. }
           rewrite (proj1 (proj2 (C20.C20_host dbg u)) segs (HDomain d) Es Eh Hn) in Hp. discriminate.
      * rewrite (proj1 (proj2 (C20.C20_host dbg u)) segs (HIpv4 a) Es Eh ltac:(discriminate)) in Hp. discriminate.
      * rewrite (proj1 (proj2 (C20.C20_host dbg u)) segs (HIpv6 a) Es Eh ltac:(discriminate)) in Hp. discriminate.
    + rewrite (C20.C20_to dbg u segs Es (or_introl Eh) Hs) in Hp. discriminate.
  - rewrite (proj1 (C20.C20_host dbg u) Es) in Hp. discriminate.
Qed.

(* ---------------------------------------------------------------- make_relative *)
(* the only panic site of its own is `&filename[1..]` in extract_path_filename (index 1 not a char boundary): not
   reachable when the path is ASCII (C05) *)
Lemma extract_ascii s : Forall (fun b => b < 128) s -> exists r, extract_path_filename s = Some r.
Proof.
  intros H. unfold extract_path_filename. cbv zeta.
  set (i := match rfind 47 s with Some i => i | None => 0 end).
  assert (Forall (fun b => b < 128) (nskipn i s)) as Hk.
  { unfold nskipn. apply Forall_forall. intros x Hx. rewrite Forall_forall in H. apply H.
    rewrite <- (firstn_skipn (N.to_nat i) s). apply in_or_app. right. exact Hx. }
  destruct (nskipn i s) as [|a [|c r]]; [eexists; reflexivity | eexists; reflexivity|].
  cbn [char_boundary_1]. inversion Hk as [|? ? _ Hk2]; subst. inversion Hk2 as [|? ? Hc _]; subst.
  replace (128 <=? c) with false by lia. cbn [andb negb]. eexists. reflexivity.
Qed.

Lemma In_firstn_aux (n : nat) (l : list N) x : In x (firstn n l) -> In x l.
Proof. intros H. rewrite <- (firstn_skipn n l). apply in_or_app. left. exact H. Qed.
Lemma In_skipn_aux (n : nat) (l : list N) x : In x (skipn n l) -> In x l.
Proof. intros H. rewrite <- (firstn_skipn n l). apply in_or_app. right. exact H. Qed.

Lemma piece_ascii u a b : Forall (fun x => x < 128) (ser u) -> Forall (fun x => x < 128) (piece u a b).
Proof.
  intros H. unfold piece, nfirstn, nskipn. apply Forall_forall. intros x Hx. rewrite Forall_forall in H. apply H.
  apply (In_skipn_aux _ _ _ (In_firstn_aux _ _ _ Hx)).
Qed.

Theorem make_relative_total dbg b t : wf_b b = true -> wf_b t = true ->
  Forall (fun x => x < 128) (ser b) -> Forall (fun x => x < 128) (ser t) ->
  exists r, make_relative dbg b t = Some r.
Proof.
  intros Wb Wt Ab At. unfold make_relative.
  rewrite (cannot_be_a_base_eval b Wb), (cannot_be_a_base_eval t Wt). cbn [bindo].
  set (cb := negb (byte_eqb (ser b) (scheme_end b + 1) 47)). set (ct := negb (byte_eqb (ser t) (scheme_end t + 1) 47)).
  assert ((if cb then Some true else Some ct) = Some (if cb then true else ct)) as -> by (destruct cb; reflexivity).
  cbn [bindo]. destruct (cb || (if cb then true else ct)); [eexists; reflexivity|].
  rewrite (scheme_eval b Wb), (scheme_eval t Wt). cbn [bindo].
  match goal with |- exists r, (if ?c then _ else _) = Some r => destruct c end; [eexists; reflexivity|].
  destruct (host_of_some dbg b Wb) as [hb ->]. destruct (host_of_some dbg t Wt) as [ht ->]. cbn [bindo].
  match goal with |- exists r, (if ?c then _ else _) = Some r => destruct c end; [eexists; reflexivity|].
  match goal with |- exists r, (if ?c then _ else _) = Some r => destruct c end; [eexists; reflexivity|].
  rewrite (path_eval b Wb), (path_eval t Wt). cbn [bindo].
  match goal with |- context [extract_path_filename (piece b ?x ?y)] => destruct (extract_ascii _ (piece_ascii b x y Ab)) as [eb ->] end.
  cbn [bindo].
  match goal with |- context [extract_path_filename (piece t ?x ?y)] => destruct (extract_ascii _ (piece_ascii t x y At)) as [et ->] end.
  cbn [bindo]. rewrite (query_eval dbg t Wt). cbn [bindo]. rewrite (fragment_eval dbg t Wt). cbn [bindo].
  eexists. reflexivity.
Qed.
