(* Proofs/C07_Small.v - C07_statement decided by computation on a small scope, inside Coq:
   20 start URLs x 10 setters x 71 values, and all histories of two assignments over a smaller pool,
   with the small host functions of C07_Defs on both sides: outside Known_C07 the model of
   url::quirks and the specification model show the same ten API strings.  Every class of Known_C07 is
   inhabited by a witness on which they differ (the `_refuted` lemmas). *)
From Coq Require Import String Ascii.
From RU Require Import Base.Prelude Base.Utf8 Model.AsciiSet Gen.Tables Model.PercentEncoding
  Model.HostT Model.UrlRecord Model.Parser Model.Setters Model.KnownC01 Model.KnownC07 Spec.Whatwg
  Proofs.C07_Defs.

Definition str (s : string) : list N := map N_of_ascii (list_ascii_of_string s).

Lemma lists_eqb_spec a : forall b, lists_eqb a b = true <-> a = b.
Proof.
  induction a as [|x a IH]; intros [|y b]; cbn [lists_eqb]; split; intros H; try congruence; try reflexivity.
  - apply andb_true_iff in H. destruct H as [H1 H2]. apply list_eqb_spec in H1. apply IH in H2. congruence.
  - inversion H. subst. apply andb_true_iff. split; [apply list_eqb_spec; reflexivity|apply IH; reflexivity].
Qed.

Lemma toy_api_agree_spec u su :
  toy_api_agree u su = true <-> model_api true u = Some (spec_api_list toy_shs su).
Proof.
  unfold toy_api_agree. destruct (model_api true u) as [a|]; split; intros H; try discriminate.
  - apply lists_eqb_spec in H. congruence.
  - inversion H. apply lists_eqb_spec. reflexivity.
Qed.

(* ---------- single assignments ---------- *)
Definition small_starts : list (list N) := map str
  ["http://h/"; "http://u:p@h:81/a/b?q#f"; "https://h"; "ws://u@h/"; "ftp://h:21/x"; "file:///c:/d";
   "file://h/x"; "file:///"; "a://u:p@h:9/a//b?q#f"; "a:/p"; "a:/.//p"; "a:/"; "a://"; "a://h"; "a:///x";
   "a://:p@h"; "a:o p "; "a:o#f"; "a:o?q"; "a://h:80/"]%string.

Definition small_values : list (list N) := map str
  [""; "a"; "x:y"; "h:80"; "h:"; ":80"; "::1"; "[::1]"; "[::1]:81"; "//"; "/"; "\"; "//p"; "/.//p"; "/..//p";
   ".."; "%2e"; "c:"; "C|"; "/c:/x"; "?"; "#"; "?q"; "#f"; "??"; "##"; "a b"; " "; "80"; "0"; "65535"; "65536";
   "8a"; "443"; "21"; "http"; "https"; "file"; "ftp"; "ws"; "b:"; "http:"; "file:"; "non-spec"; "%41"; "%";
   "@"; "u@h"; "u:p@h"; "h/p"; "h?q"; "h#f"; "h\p"; "x y "; "'"; "<>"; "http://h/"; "a:b"; "a://h"; "/a/../b";
   "1x"; "+"]%string
  ++ [[9]; [10]; [9; 47]; [10; 56; 48]; [97; 9; 98]; [233]; [0]; [9; 92]; [47; 9; 47]].

Definition small_ok (st : list N) (s : qsetter) (v : list N) : bool :=
  negb (toy_known st s v =? 0) || (toy_compare st s v =? 0).

Lemma small_scope_computed :
  forallb (fun st => forallb (fun s => forallb (fun v => small_ok st s v) small_values) all_qsetters)
          small_starts = true.
Proof. vm_compute. reflexivity. Qed.

Lemma in_all_qsetters s : In s all_qsetters.
Proof. destruct s; cbn; auto 12. Qed.

Lemma toy_compare_0 st s v : toy_compare st s v = 0 ->
  exists u su u' su',
    toy_parse st = Some u /\ toy_sparse st = Some su
    /\ model_api true u = Some (spec_api_list toy_shs su)
    /\ model_set true toy_hp toy_ho toy_hd s u v = Some u'
    /\ spec_step toy_shp s su v = Some su'
    /\ model_api true u' = Some (spec_api_list toy_shs su').
Proof.
  unfold toy_compare. destruct (toy_parse st) as [u|] eqn:Eu; [|discriminate].
  destruct (toy_sparse st) as [su|] eqn:Es; [|discriminate].
  destruct (toy_api_agree u su) eqn:E0; cbn [negb]; [|discriminate].
  destruct (model_set true toy_hp toy_ho toy_hd s u v) as [u'|] eqn:Em; [|discriminate].
  destruct (spec_step toy_shp s su v) as [su'|] eqn:Ess; [|discriminate].
  destruct (toy_api_agree u' su') eqn:E1; [|discriminate]. intros _.
  exists u, su, u', su'. apply toy_api_agree_spec in E0. apply toy_api_agree_spec in E1.
  repeat split; try reflexivity; assumption.
Qed.

Theorem small_scope : forall st s v, In st small_starts -> In v small_values ->
  forall u, toy_parse st = Some u -> known_c07 u s v = 0 ->
  exists su u' su',
    toy_sparse st = Some su
    /\ model_api true u = Some (spec_api_list toy_shs su)
    /\ model_set true toy_hp toy_ho toy_hd s u v = Some u'
    /\ spec_step toy_shp s su v = Some su'
    /\ model_api true u' = Some (spec_api_list toy_shs su').
Proof.
  intros st s v Hst Hv u Hu Hk.
  pose proof small_scope_computed as H.
  rewrite forallb_forall in H. specialize (H st Hst).
  rewrite forallb_forall in H. specialize (H s (in_all_qsetters s)).
  rewrite forallb_forall in H. specialize (H v Hv).
  unfold small_ok, toy_known in H. rewrite Hu, Hk in H. cbn [N.eqb negb orb] in H.
  apply N.eqb_eq in H. destruct (toy_compare_0 st s v H) as (u0 & su & u' & su' & A & B & C & D & E & F).
  rewrite Hu in A. inversion A. subst u0. exists su, u', su'. repeat split; assumption.
Qed.

(* ---------- histories of two assignments ---------- *)
Definition hist_starts : list (list N) := map str
  ["http://u:p@h:81/a/b?q#f"; "https://h"; "a://h/p?q"; "a:/p"; "a:o p "; "file://h/x"]%string.

Definition hist_ops : list (qsetter * list N) :=
  [(QProtocol, str "https"); (QProtocol, str "ws:x"); (QProtocol, str "b"); (QProtocol, str "file");
   (QUsername, str "u v"); (QUsername, str ""); (QPassword, str "p:w"); (QPassword, str "");
   (QHost, str "x:8"); (QHost, str "y"); (QHost, str ""); (QHost, str "x:443");
   (QHostname, str "z"); (QHostname, str ""); (QHostname, str "z/w");
   (QPort, str "80"); (QPort, str ""); (QPort, str "9x"); (QPort, str "x");
   (QPathname, str "/a/../b"); (QPathname, str ""); (QPathname, str "x y"); (QPathname, str "//d");
   (QSearch, str "?k=v"); (QSearch, str ""); (QSearch, str "a'b");
   (QHash, str "#h"); (QHash, str ""); (QHash, str " s ");
   (QHref, str "http://n/"); (QHref, str "a:o  "); (QHref, str "nonsense")]%string.

Lemma small_histories_computed :
  forallb (fun st => forallb (fun o1 => forallb (fun o2 => toy_history_ok st [o1; o2]) hist_ops) hist_ops)
          hist_starts = true.
Proof. vm_compute. reflexivity. Qed.

Lemma toy_run_check_sound ops : forall u su,
  toy_run_check u su ops = true -> outside_known true toy_hp toy_ho toy_hd u ops ->
  model_api true u = Some (spec_api_list toy_shs su) ->
  exists u' su', model_run true toy_hp toy_ho toy_hd u ops = Some u' /\ spec_run toy_shp su ops = Some su'
                 /\ model_api true u' = Some (spec_api_list toy_shs su').
Proof.
  induction ops as [|[s v] r IH]; intros u su Hc Hout Hapi.
  - exists u, su. cbn [model_run spec_run]. auto.
  - cbn [toy_run_check outside_known model_run spec_run] in *. destruct Hout as [Hk Hr].
    rewrite Hk in Hc. cbn [N.eqb negb] in Hc.
    destruct (model_set true toy_hp toy_ho toy_hd s u v) as [u1|]; [|discriminate].
    destruct (spec_step toy_shp s su v) as [su1|]; [|discriminate].
    apply andb_true_iff in Hc. destruct Hc as [Ha Hc]. apply toy_api_agree_spec in Ha.
    exact (IH u1 su1 Hc Hr Ha).
Qed.

Theorem small_histories : forall st o1 o2, In st hist_starts -> In o1 hist_ops -> In o2 hist_ops ->
  forall u, toy_parse st = Some u -> outside_known true toy_hp toy_ho toy_hd u [o1; o2] ->
  exists su u' su',
    toy_sparse st = Some su
    /\ model_run true toy_hp toy_ho toy_hd u [o1; o2] = Some u'
    /\ spec_run toy_shp su [o1; o2] = Some su'
    /\ model_api true u' = Some (spec_api_list toy_shs su').
Proof.
  intros st o1 o2 Hst H1 H2 u Hu Hout.
  pose proof small_histories_computed as H.
  rewrite forallb_forall in H. specialize (H st Hst).
  rewrite forallb_forall in H. specialize (H o1 H1).
  rewrite forallb_forall in H. specialize (H o2 H2).
  unfold toy_history_ok in H. rewrite Hu in H.
  destruct (toy_sparse st) as [su|]; [|discriminate].
  apply andb_true_iff in H. destruct H as [Ha Hc]. apply toy_api_agree_spec in Ha.
  destruct (toy_run_check_sound [o1; o2] u su Hc Hout Ha) as (u' & su' & A & B & C).
  exists su, u', su'. repeat split; try reflexivity; assumption.
Qed.

(* ---------- every class of Known_C07 holds a divergence ---------- *)
Definition refutes (k : N) (st : string) (s : qsetter) (v : list N) : Prop :=
  toy_known (str st) s v = k /\ toy_compare (str st) s v = 1.

Lemma known_K1_refuted : refutes 1 "http://h/a" QPathname (str "/C|/..").
Proof. vm_compute. split; reflexivity. Qed.
Lemma known_K2_refuted :
  refutes 2 "http://example.net/path" QHostname (str "example.com:8080")     (* F-C07-1 *)
  /\ refutes 2 "a:/x" QHost (str "::1").                                       (* F-C07-6 *)
Proof. vm_compute. repeat split; reflexivity. Qed.
Lemma known_K3_refuted :
  refutes 3 "non-spec:/.//p" QHostname (str "h") /\ refutes 3 "non-spec:/" QPathname (str "//p").
Proof. vm_compute. repeat split; reflexivity. Qed.
Lemma known_K4_refuted :
  refutes 4 "file://monkey/" QHostname (str "?") /\ refutes 4 "file:///unicorn" QPathname (str "//\/").
Proof. vm_compute. repeat split; reflexivity. Qed.
Lemma known_K5_refuted : refutes 5 "foo:///some/path" QPathname [].
Proof. vm_compute. split; reflexivity. Qed.
Lemma known_K6_refuted : refutes 6 "https://h" QProtocol (str "file").
Proof. vm_compute. split; reflexivity. Qed.
Lemma known_K7_refuted : refutes 7 "web+demo://:p@x.y" QHost (str "//").
Proof. vm_compute. split; reflexivity. Qed.
Lemma known_K8_refuted : refutes 8 "http://h:81/p" QPort [10].
Proof. vm_compute. split; reflexivity. Qed.
Lemma known_K9_refuted : refutes 9 "ws://u@h/" QPathname [9; 47].
Proof. vm_compute. split; reflexivity. Qed.
Lemma known_href_refuted :
  refutes 11 "http://h/" QHref (str "file:////foo") /\ refutes 12 "http://h/" QHref (str "n:/C|/..")
  /\ refutes 13 "http://h/" QHref (str "n://x.y:8\") /\ refutes 14 "http://h/" QHref (str "blob://:@/").
Proof. vm_compute. repeat split; reflexivity. Qed.

(* what `refutes` says, unfolded: the start URL parses on both sides to records with the same ten API
   strings, the assignment is in class k, neither side panics / runs out of fuel, and the ten API
   strings differ afterwards *)
Lemma refutes_meaning k st s v : refutes k st s v ->
  exists u su u' su',
    toy_parse (str st) = Some u /\ toy_sparse (str st) = Some su
    /\ model_api true u = Some (spec_api_list toy_shs su)
    /\ known_c07 u s v = k
    /\ model_set true toy_hp toy_ho toy_hd s u v = Some u'
    /\ spec_step toy_shp s su v = Some su'
    /\ model_api true u' <> Some (spec_api_list toy_shs su').
Proof.
  intros [Hk Hc]. unfold toy_known in Hk. unfold toy_compare in Hc.
  destruct (toy_parse (str st)) as [u|] eqn:Eu; [|discriminate].
  destruct (toy_sparse (str st)) as [su|] eqn:Es; [|discriminate].
  destruct (toy_api_agree u su) eqn:E0; cbn [negb] in Hc; [|discriminate].
  destruct (model_set true toy_hp toy_ho toy_hd s u v) as [u'|] eqn:Em; [|discriminate].
  destruct (spec_step toy_shp s su v) as [su'|] eqn:Ess; [|discriminate].
  destruct (toy_api_agree u' su') eqn:E1; [discriminate|].
  exists u, su, u', su'. apply toy_api_agree_spec in E0.
  repeat split; auto. intros Hn. apply toy_api_agree_spec in Hn. congruence.
Qed.

(* the scheme changes among the six special schemes and a non-special one, on URLs with and without
   credentials / port / empty host: outside class 6 the model carries out exactly the changes the
   Standard carries out (instance of small_scope_computed's method on the protocol setter) *)
Definition proto_starts : list (list N) := map str
  ["http://h/"; "https://h:8/"; "ws://u@h/"; "wss://:p@h/"; "ftp://h:80/"; "file://h/"; "file:///p";
   "a://h/"; "a://u@h:1/"; "a:/p"; "a://"; "a:o"; "http://h:443/"; "https://h:21/"; "ftp://h:21/"]%string.
Definition proto_values : list (list N) := map str
  ["http"; "https"; "ws"; "wss"; "ftp"; "file"; "b"; "HTTP"; "http:"; "ws://x"; "fi le"; "1a"; ""; "+a"]%string.

Lemma protocol_table_computed :
  forallb (fun st => forallb (fun v => small_ok st QProtocol v) proto_values) proto_starts = true.
Proof. vm_compute. reflexivity. Qed.

Theorem protocol_table : forall st v, In st proto_starts -> In v proto_values ->
  forall u, toy_parse st = Some u -> known_c07 u QProtocol v = 0 ->
  exists su u' su',
    toy_sparse st = Some su
    /\ model_set true toy_hp toy_ho toy_hd QProtocol u v = Some u'
    /\ spec_step toy_shp QProtocol su v = Some su'
    /\ model_api true u' = Some (spec_api_list toy_shs su').
Proof.
  intros st v Hst Hv u Hu Hk.
  pose proof protocol_table_computed as H.
  rewrite forallb_forall in H. specialize (H st Hst).
  rewrite forallb_forall in H. specialize (H v Hv).
  unfold small_ok, toy_known in H. rewrite Hu, Hk in H. cbn [N.eqb negb orb] in H.
  apply N.eqb_eq in H. destruct (toy_compare_0 st QProtocol v H) as (u0 & su & u' & su' & A & B & C & D & E & F).
  rewrite Hu in A. inversion A. subst u0. exists su, u', su'. repeat split; assumption.
Qed.
