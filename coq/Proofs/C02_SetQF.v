(* Proofs/C02_SetQF.v - L2 for the two "tail" setters, on the common shape of every canonical record:
      ser = pre ++ ["?" q] ++ ["#" f],  query_start / fragment_start = the sums of the lengths.
   set_fragment and set_query computed on that shape: the result has the same shape with the new component
   replaced by the parser's encoding of the argument. *)
From RU Require Import Base.Prelude Base.Utf8 Base.Utf8Facts Model.AsciiSet Gen.Tables
  Model.PercentEncoding Model.HostT Model.UrlRecord Model.Parser Model.Setters Model.WF
  Proofs.ListN Proofs.C14_Set Proofs.C14_Enc Proofs.C02_Enc Proofs.C02_Parts Proofs.C02_Opaque.
Open Scope N_scope.
Open Scope list_scope.

Definition qf_url (pre : list N) (se ue hs he : N) (hi : host_internal) (pt : option N) (ps : N)
           (q f : option (list N)) : url :=
  mkUrl (pre ++ qf_text q f) se ue hs he hi pt ps (qf_qs (nlen pre) q) (qf_fs (nlen pre) q f).

(* the text set_query stores: the query state in the setter context ('#' is encoded, not a stop) *)
Definition squery_of (st : scheme_type) (l : list N) : list N :=
  encode (query_set st) (utf8_encode (query_chars false (input_new_trim_tnl l))).

Lemma usv_drop_while g l : usv_list l -> usv_list (drop_while g l).
Proof.
  induction l as [|c r IH]; intros H; [constructor|]. cbn [drop_while].
  destruct (g c); [apply IH; apply usv_cons in H; tauto | exact H].
Qed.

Lemma usv_trim g l : usv_list l -> usv_list (trim_matches g l).
Proof. intros H. unfold trim_matches. apply usv_rev, usv_drop_while, usv_rev, usv_drop_while. exact H. Qed.

Lemma squery_of_clean st l : usv_list l -> clean (query_set st) (squery_of st l) = true.
Proof.
  intros H. apply encode_is_clean; [apply stable_query_set|].
  apply utf8_encode_bytes. apply usv_query_chars. apply usv_trim. exact H.
Qed.

Section SetQF.
Variable dbg : bool.

Lemma dbg_byte_is_app a c b u : ser u = a ++ c :: b -> dbg_byte_is dbg u (nlen a) c = Some tt.
Proof.
  intros E. unfold dbg_byte_is. destruct dbg; [|reflexivity].
  unfold byte_is, byte_at. rewrite E.
  pose proof (byte_eqb_app a c b) as H. unfold byte_eqb in H.
  destruct (nnth (a ++ c :: b) (nlen a)) as [x|]; [|discriminate]. cbn [bindo]. rewrite H. reflexivity.
Qed.

Variables (pre : list N) (se ue hs he : N) (hi : host_internal) (pt : option N) (ps : N).
Notation U := (qf_url pre se ue hs he hi pt ps).

Lemma qf_text_none q : qf_text q None = qf_qtext q.
Proof. unfold qf_text. cbn [qf_ftext]. apply app_nil_r. Qed.

(* the serialization up to the fragment *)
Lemma cut_fragment_qf q f :
  (match fragment_start (U q f) with
   | Some start => dbg_byte_is dbg (U q f) start 35 ;;; Some (truncate (ser (U q f)) start)
   | None => Some (ser (U q f))
   end) = Some (pre ++ qf_qtext q).
Proof.
  unfold qf_url. cbn [fragment_start ser]. destruct f as [y|]; cbn [qf_fs].
  - rewrite <- nlen_app.
    rewrite (dbg_byte_is_app (pre ++ qf_qtext q) 35 y) by (cbn [ser]; unfold qf_text; cbn [qf_ftext]; rewrite app_assoc; reflexivity).
    cbn [bindo]. unfold truncate, qf_text. cbn [qf_ftext]. rewrite app_assoc. rewrite nfirstn_app_len. reflexivity.
  - rewrite qf_text_none. reflexivity.
Qed.

(* ---------- set_fragment ---------- *)
Theorem set_fragment_qf_some q f input : usv_list input ->
  set_fragment dbg (U q f) (Some input) = Some (U q (Some (frag_of input))).
Proof.
  intros Hu. unfold set_fragment. rewrite cut_fragment_qf. cbn [bindo].
  rewrite parse_fragment_spec by exact Hu.
  unfold qf_url, set_fragment_start, set_ser. cbn [ser scheme_end username_end host_start host_end hosti port path_start query_start fragment_start].
  unfold qf_text. cbn [qf_ftext qf_fs]. rewrite nlen_app. rewrite <- !app_assoc. reflexivity.
Qed.

Definition rstrip32 (l : list N) : list N := rev (drop_while (fun c => c =? 32) (rev l)).

Lemma U_none_none : U None None = mkUrl pre se ue hs he hi pt ps None None.
Proof. unfold qf_url. cbn [qf_text qf_qtext qf_ftext qf_qs qf_fs app]. rewrite app_nil_r. reflexivity. Qed.

(* strip_trailing_spaces_from_opaque_path on a record without fragment *)
Lemma strip_qf q c : cannot_be_a_base (U q None) = Some c ->
  strip_trailing_spaces_from_opaque_path (U q None)
  = Some (if c && match q with None => true | Some _ => false end
          then qf_url (rstrip32 pre) se ue hs he hi pt ps None None else U q None).
Proof.
  intros Hc. unfold strip_trailing_spaces_from_opaque_path. rewrite Hc. cbn [bindo].
  destruct c; cbn [negb andb]; [|reflexivity].
  destruct q as [x|]; [reflexivity|].
  rewrite U_none_none. cbn [fragment_start query_start set_ser ser scheme_end username_end host_start host_end hosti port path_start].
  unfold qf_url. cbn [qf_text qf_qtext qf_ftext qf_qs qf_fs app]. rewrite app_nil_r. reflexivity.
Qed.

Theorem set_fragment_qf_none q f c : cannot_be_a_base (U q None) = Some c ->
  set_fragment dbg (U q f) None
  = Some (if c && match q with None => true | Some _ => false end
          then qf_url (rstrip32 pre) se ue hs he hi pt ps None None else U q None).
Proof.
  intros Hc. unfold set_fragment. rewrite cut_fragment_qf. cbn [bindo].
  assert (set_fragment_start (set_ser (U q f) (pre ++ qf_qtext q)) None = U q None) as E.
  { unfold qf_url, set_fragment_start, set_ser. cbn [ser scheme_end username_end host_start host_end hosti port path_start query_start fragment_start].
    rewrite qf_text_none. reflexivity. }
  rewrite E. exact (strip_qf q c Hc).
Qed.

(* ---------- set_query ---------- *)
Lemma take_fragment_qf q f : take_fragment dbg (U q f) = Some (U q None, f).
Proof.
  unfold take_fragment, qf_url. cbn [fragment_start ser]. destruct f as [y|]; cbn [qf_fs].
  - rewrite <- nlen_app.
    assert (pre ++ qf_text q (Some y) = (pre ++ qf_qtext q) ++ 35 :: y) as E
      by (unfold qf_text; cbn [qf_ftext]; rewrite app_assoc; reflexivity).
    rewrite (dbg_byte_is_app (pre ++ qf_qtext q) 35 y) by exact E. cbn [bindo].
    unfold u_slice_from, slice_from_o. cbn [ser]. rewrite E.
    replace (nlen (pre ++ qf_qtext q) + 1 <=? nlen ((pre ++ qf_qtext q) ++ 35 :: y)) with true
      by (symmetry; apply N.leb_le; rewrite (nlen_app _ (35 :: y)), nlen_cons; lia).
    cbn [bindo]. unfold truncate. rewrite nfirstn_app_len.
    replace (nskipn (nlen (pre ++ qf_qtext q) + 1) ((pre ++ qf_qtext q) ++ 35 :: y)) with y.
    2:{ rewrite nskipn_app_add. reflexivity. }
    unfold set_fragment_start, set_ser. cbn [ser scheme_end username_end host_start host_end hosti port path_start query_start fragment_start].
    rewrite qf_text_none. reflexivity.
  - reflexivity.
Qed.

Lemma cut_query_qf q :
  (match query_start (U q None) with
   | Some start => dbg_byte_is dbg (U q None) start 63 ;;;
                   Some (set_query_start (set_ser (U q None) (truncate (ser (U q None)) start)) None)
   | None => Some (U q None)
   end) = Some (U None None).
Proof.
  destruct q as [x|]; [|reflexivity].
  unfold qf_url at 1. cbn [query_start qf_qs].
  assert (ser (U (Some x) None) = pre ++ 63 :: x) as E
    by (unfold qf_url; cbn [ser]; rewrite qf_text_none; reflexivity).
  rewrite (dbg_byte_is_app pre 63 x) by exact E. cbn [bindo]. rewrite E.
  unfold truncate. rewrite nfirstn_app_len. rewrite U_none_none.
  unfold qf_url, set_query_start, set_ser. cbn [ser scheme_end username_end host_start host_end hosti port path_start query_start fragment_start].
  reflexivity.
Qed.

Lemma restore_fragment_qf q f :
  restore_already_parsed_fragment (U q None) f = Some (U q f).
Proof.
  unfold restore_already_parsed_fragment. destruct f as [y|]; [|reflexivity].
  unfold qf_url at 1. cbn [fragment_start qf_fs assert_o bindo ser].
  unfold qf_url, set_fragment_start, set_ser. cbn [ser scheme_end username_end host_start host_end hosti port path_start query_start fragment_start].
  rewrite qf_text_none. unfold qf_text. cbn [qf_ftext qf_fs]. rewrite nlen_app, <- !app_assoc. reflexivity.
Qed.

(* the scheme is the first scheme_end bytes of pre *)
Variable sch : list N.
Hypothesis Hsch : nfirstn se pre = sch.
Hypothesis Hse : se <= nlen pre.

Lemma u_scheme_type_qf : u_scheme_type (U None None) = Some (scheme_type_of sch).
Proof.
  unfold u_scheme_type, scheme, u_slice_to, slice_to_o. rewrite U_none_none. cbn [ser scheme_end].
  replace (se <=? nlen pre) with true by (symmetry; apply N.leb_le; exact Hse). cbn [bindo]. rewrite Hsch. reflexivity.
Qed.

Theorem set_query_qf_some q f input : usv_list input ->
  set_query dbg (U q f) (Some input) = Some (U (Some (squery_of (scheme_type_of sch) input)) f).
Proof.
  intros Hu. unfold set_query. rewrite take_fragment_qf. cbn [bindo]. rewrite cut_query_qf. cbn [bindo].
  rewrite u_scheme_type_qf. cbn [bindo].
  assert (ser (U None None) = pre) as Es by (rewrite U_none_none; reflexivity).
  assert (scheme_end (U None None) = se) as Ee by reflexivity.
  rewrite Es, Ee. unfold parse_query. cbn [query_enc ctx_eqb].
  rewrite parse_query_loop_spec; [|constructor | apply usv_trim; exact Hu]. cbn [rev app].
  assert (set_query_start (set_ser (U None None) ((pre ++ [63]) ++ encode (query_set (scheme_type_of sch))
             (utf8_encode (query_chars false (input_new_trim_tnl input))))) (Some (nlen pre))
          = U (Some (squery_of (scheme_type_of sch) input)) None) as E.
  { rewrite U_none_none. unfold qf_url, set_query_start, set_ser.
    cbn [ser scheme_end username_end host_start host_end hosti port path_start query_start fragment_start].
    rewrite qf_text_none. cbn [qf_qtext qf_qs qf_fs]. unfold squery_of. rewrite <- app_assoc. reflexivity. }
  rewrite E. apply restore_fragment_qf.
Qed.

Theorem set_query_qf_none q f c : cannot_be_a_base (U None None) = Some c ->
  set_query dbg (U q f) None
  = Some (if c && match f with None => true | Some _ => false end
          then qf_url (rstrip32 pre) se ue hs he hi pt ps None None else U None f).
Proof.
  intros Hc. unfold set_query. rewrite take_fragment_qf. cbn [bindo]. rewrite cut_query_qf. cbn [bindo].
  destruct f as [y|].
  - cbn [bindo]. rewrite andb_false_r. apply restore_fragment_qf.
  - rewrite (strip_qf None c Hc). cbn [bindo]. rewrite andb_true_r. destruct c; reflexivity.
Qed.

End SetQF.
