(* Proofs/Idna_C10_Deny.v - deny lists as bit sets: every deny list the API can build (valid_deny)
   contains the upper-case letters and none of a-z 0-9 '-' '.'; the character predicates of the
   C10 output theorem (clean / okc / lowclean) and how apply_upper / apply_lower produce them;
   list lemmas about split1 / split_on / join_dots; the sixteen spellings of the xn-- prefix. *)
From RU Require Import Base.Prelude Base.Utf8 Base.U32_c13 Gen.Tables Model.Punycode Model.Uts46
  Proofs.Idna_Sim Proofs.Idna_Api Proofs.Idna_Known Proofs.Idna_Hyp Proofs.Idna_Redisc.

(* ---- membership is a bit test ---- *)
Lemma deny_member_testbit deny c : deny_member deny c = N.testbit deny c.
Proof.
  unfold deny_member. rewrite N.shiftl_1_l.
  destruct (N.testbit deny c) eqn:E.
  - apply negb_true_iff. apply N.eqb_neq. intros H.
    assert (N.testbit (N.land deny (2 ^ c)) c = false) as H1 by (rewrite H; apply N.bits_0).
    rewrite N.land_spec, E, N.pow2_bits_true in H1. discriminate.
  - apply negb_false_iff. apply N.eqb_eq. apply N.bits_inj_0. intros j.
    rewrite N.land_spec, N.pow2_bits_eqb.
    destruct (N.eqb_spec c j) as [->|Hne]; [rewrite E; reflexivity | apply andb_false_r].
Qed.

Lemma fold_bits l : forall init c,
  N.testbit (fold_left (fun bits b => N.lor bits (N.shiftl 1 b)) l init) c = N.testbit init c || memb c l.
Proof.
  induction l as [|a r IH]; intros init c; cbn [fold_left memb].
  - rewrite orb_false_r. reflexivity.
  - rewrite IH. rewrite N.lor_spec, N.shiftl_1_l, N.pow2_bits_eqb. rewrite (N.eqb_sym a c).
    rewrite orb_assoc. reflexivity.
Qed.

(* ---- the letters, digits, hyphen and dot are in no deny list; the upper-case letters in every one ---- *)
Definition ldh (c : N) : bool := is_lower c || is_digit c || (c =? 45) || (c =? 46).
Definition LdhFree (deny : N) : Prop := forall c, ldh c = true -> deny_member deny c = false.

Lemma ldh_lt c : ldh c = true -> c < 128.
Proof. unfold ldh, is_lower, is_digit. lia. Qed.

Lemma sweep_pos (p q : N -> bool) : all_below 128 (fun b => implb (p b) (q b)) = true ->
  forall c, c < 128 -> p c = true -> q c = true.
Proof.
  intros H c Hc Hp. pose proof (all_below_spec 128 (fun b => implb (p b) (q b)) H c Hc) as Hx. cbv beta in Hx. rewrite Hp in Hx. exact Hx.
Qed.
Lemma sweep_neg (p q : N -> bool) : all_below 128 (fun b => implb (p b) (negb (q b))) = true ->
  forall c, c < 128 -> p c = true -> q c = false.
Proof.
  intros H c Hc Hp. pose proof (all_below_spec 128 (fun b => implb (p b) (negb (q b))) H c Hc) as Hx. cbv beta in Hx. rewrite Hp in Hx.
  destruct (q c); [discriminate Hx|reflexivity].
Qed.

Lemma std3_ldh : all_below 128 (fun b => implb (ldh b) (negb (deny_member DENY_STD3 b))) = true.
Proof. vm_compute. reflexivity. Qed.
Lemma init_upper (g : bool) : all_below 128 (fun b => implb (is_upper b)
  (N.testbit (if g then N.lor UPPER_CASE_MASK GLYPHLESS_MASK else UPPER_CASE_MASK) b)) = true.
Proof. destruct g; vm_compute; reflexivity. Qed.
Lemma init_ldh (g : bool) : all_below 128 (fun b => implb (ldh b)
  (negb (N.testbit (if g then N.lor UPPER_CASE_MASK GLYPHLESS_MASK else UPPER_CASE_MASK) b))) = true.
Proof. destruct g; vm_compute; reflexivity. Qed.
Lemma forbidden_ldh : all_below 128 (fun b => implb (ldh b) (memb b T_IDNA_NEW_FORBIDDEN)) = true.
Proof. vm_compute. reflexivity. Qed.

Lemma std3_facts : DenyUpper DENY_STD3 /\ LdhFree DENY_STD3.
Proof.
  split; [exact (proj1 (proj2 deny_upper_builtin))|].
  intros c Hc. exact (sweep_neg ldh (deny_member DENY_STD3) std3_ldh c (ldh_lt c Hc) Hc).
Qed.

Lemma new_facts g l deny : deny_new g l = Ok deny -> DenyUpper deny /\ LdhFree deny.
Proof.
  unfold deny_new. destruct (existsb (fun b => memb b T_IDNA_NEW_FORBIDDEN) l) eqn:E; [discriminate|].
  intros H. inversion H as [Hd]. clear H. unfold deny_new_bits.
  set (init := if g then N.lor UPPER_CASE_MASK GLYPHLESS_MASK else UPPER_CASE_MASK).
  split.
  - intros c Hc. rewrite deny_member_testbit, fold_bits.
    assert (Hlt : c < 128) by (unfold is_upper in Hc; lia).
    rewrite (sweep_pos is_upper (N.testbit init) (init_upper g) c Hlt Hc). reflexivity.
  - intros c Hc. rewrite deny_member_testbit, fold_bits.
    pose proof (ldh_lt c Hc) as Hlt.
    rewrite (sweep_neg ldh (N.testbit init) (init_ldh g) c Hlt Hc). cbn [orb].
    pose proof (sweep_pos ldh (fun b => memb b T_IDNA_NEW_FORBIDDEN) forbidden_ldh c Hlt Hc) as Hf. cbv beta in Hf.
    destruct (memb c l) eqn:Em; [|reflexivity].
    apply memb_spec in Em.
    assert (existsb (fun b => memb b T_IDNA_NEW_FORBIDDEN) l = true) by (apply existsb_exists; exists c; auto).
    congruence.
Qed.

Theorem valid_deny_facts deny : valid_deny deny -> DenyUpper deny /\ LdhFree deny.
Proof.
  intros [->|(g & l & H)]; [exact std3_facts|exact (new_facts g l deny H)].
Qed.

(* ---- the character predicates ---- *)
(* okc: what holds of every character of the domain buffer: if it is ASCII it is not denied *)
Definition okc (deny c : N) : Prop := c < 128 -> deny_member deny c = false.
(* clean: what holds of every character written: ASCII and not denied *)
Definition clean (deny c : N) : Prop := c < 128 /\ deny_member deny c = false.
(* lowclean: text that is clean once ASCII-lower-cased *)
Definition lowclean (deny : N) (m : list N) : Prop := Forall (fun c => clean deny (to_lower c)) m.

Lemma okc_ge deny c : 128 <= c -> okc deny c.
Proof. unfold okc. lia. Qed.
Lemma okc_fffd deny : okc deny FFFD.
Proof. apply okc_ge. unfold FFFD, REPLACEMENT. lia. Qed.
Lemma clean_okc deny c : clean deny c -> okc deny c.
Proof. intros [_ H] _. exact H. Qed.
Lemma okc_clean deny c : c < 128 -> okc deny c -> clean deny c.
Proof. intros Hc H. split; [exact Hc|exact (H Hc)]. Qed.
Lemma ldh_clean deny c : LdhFree deny -> ldh c = true -> clean deny c.
Proof. intros HL Hc. split; [exact (ldh_lt c Hc)|exact (HL c Hc)]. Qed.
Lemma clean_final deny c : DenyUpper deny -> clean deny c ->
  c < 128 /\ is_upper c = false /\ deny_member deny c = false.
Proof.
  intros HU [Hc Hm]. repeat split; [exact Hc| |exact Hm].
  destruct (is_upper c) eqn:E; [|reflexivity]. rewrite (HU c E) in Hm. discriminate.
Qed.
Lemma dot_clean deny : LdhFree deny -> clean deny DOT.
Proof. intros HL. apply ldh_clean; [exact HL|reflexivity]. Qed.
Lemma xn_clean deny : LdhFree deny -> Forall (clean deny) XN_PREFIX.
Proof. intros HL. unfold XN_PREFIX. repeat constructor; apply ldh_clean; try exact HL; reflexivity. Qed.

Lemma range8_spec b s e : b < 256 -> s <= e -> e < 256 -> in_inclusive_range8 b s e = true -> s <= b /\ b <= e.
Proof. unfold in_inclusive_range8. intros Hb Hs He H. assert (b < s \/ s <= b) as [Hc|Hc] by lia; lia. Qed.

Lemma apply_upper_okc deny b : LdhFree deny -> b < 256 -> okc deny (apply_upper deny b).
Proof.
  intros HL Hb. unfold apply_upper.
  destruct (N.land deny (N.shiftl 1 b) =? 0) eqn:E.
  - intros _. unfold deny_member. rewrite E. reflexivity.
  - destruct (in_inclusive_range8 b 65 90) eqn:E2; [|apply okc_fffd].
    apply range8_spec in E2; [|lia|lia|lia]. apply clean_okc, ldh_clean; [exact HL|].
    unfold ldh, is_lower. lia.
Qed.
Lemma apply_upper_lowclean deny b : DenyUpper deny -> LdhFree deny -> b < 128 ->
  apply_upper deny b <> FFFD -> clean deny (to_lower b).
Proof.
  intros HU HL Hb. unfold apply_upper.
  destruct (N.land deny (N.shiftl 1 b) =? 0) eqn:E.
  - intros _. assert (Hm : deny_member deny b = false) by (unfold deny_member; rewrite E; reflexivity).
    unfold to_lower. destruct (is_upper b) eqn:Eu; [rewrite (HU b Eu) in Hm; discriminate|].
    split; [exact Hb|exact Hm].
  - destruct (in_inclusive_range8 b 65 90) eqn:E2; [|intros H; contradiction H; reflexivity].
    intros _. apply range8_spec in E2; [|lia|lia|lia].
    unfold to_lower, is_upper. replace ((65 <=? b) && (b <=? 90)) with true by lia.
    apply ldh_clean; [exact HL|]. unfold ldh, is_lower. lia.
Qed.

Lemma lor_member deny m c : deny_member (N.lor deny m) c = false -> deny_member deny c = false.
Proof. rewrite !deny_member_testbit, N.lor_spec. intros H. apply orb_false_iff in H. exact (proj1 H). Qed.

Lemma apply_lower_okc deny m c : okc deny (apply_lower (N.lor deny m) c).
Proof.
  unfold apply_lower. destruct (c <? 128) eqn:E; [|apply okc_ge; lia].
  destruct (N.land (N.lor deny m) (N.shiftl 1 c) =? 0) eqn:E2; [|apply okc_fffd].
  intros _. apply (lor_member deny m). unfold deny_member. rewrite E2. reflexivity.
Qed.
Lemma apply_lower_okc0 deny c : okc deny (apply_lower deny c).
Proof.
  unfold apply_lower. destruct (c <? 128) eqn:E; [|apply okc_ge; lia].
  destruct (N.land deny (N.shiftl 1 c) =? 0) eqn:E2; [|apply okc_fffd].
  intros _. unfold deny_member. rewrite E2. reflexivity.
Qed.
Lemma apply_lower_id dd c : apply_lower dd c <> FFFD -> apply_lower dd c = c.
Proof.
  unfold apply_lower. destruct (c <? 128); [|reflexivity].
  destruct (N.land dd (N.shiftl 1 c) =? 0); [reflexivity|]. intros H; contradiction H; reflexivity.
Qed.
Lemma map_apply_lower_id dd l : existsb is_fffd (map (apply_lower dd) l) = false -> map (apply_lower dd) l = l.
Proof.
  induction l as [|c r IH]; cbn [map existsb]; [reflexivity|].
  intros H. apply orb_false_iff in H. destruct H as [H1 H2]. rewrite (IH H2). f_equal.
  apply apply_lower_id. intros Hq. unfold is_fffd in H1. rewrite Hq, N.eqb_refl in H1. discriminate.
Qed.

(* ---- a passthrough label is clean ---- *)
Lemma passthrough_clean deny label : LdhFree deny -> bytes label ->
  is_passthrough_ascii_label label = true -> Forall (clean deny) label.
Proof.
  intros HL Hb. unfold is_passthrough_ascii_label.
  destruct ((4 <=? len label) && (nth 2 label 0 =? HYPHEN) && (nth 3 label 0 =? HYPHEN)); [discriminate|].
  destruct label as [|f t]; [constructor|].
  inversion Hb as [|? ? Hf Ht]; subst.
  destruct (in_inclusive_range8 f 97 122) eqn:E1; cbn [negb]; [|discriminate].
  destruct (forallb (fun b => in_inclusive_range8 b 97 122 || in_inclusive_range8 b 48 57 || (b =? HYPHEN)) t) eqn:E2;
    cbn [negb]; [|discriminate].
  intros _. constructor.
  - apply range8_spec in E1; [|exact Hf|lia|lia]. apply ldh_clean; [exact HL|]. unfold ldh, is_lower. lia.
  - rewrite forallb_forall in E2. apply Forall_forall. intros x Hx. specialize (E2 x Hx).
    unfold bytes in Ht. rewrite Forall_forall in Ht. specialize (Ht x Hx). unfold is_byte in Ht.
    apply ldh_clean; [exact HL|]. unfold ldh, is_lower, is_digit, HYPHEN in *.
    destruct (in_inclusive_range8 x 97 122) eqn:Ea.
    + apply range8_spec in Ea; [|exact Ht|lia|lia]. lia.
    + destruct (in_inclusive_range8 x 48 57) eqn:Eb.
      * apply range8_spec in Eb; [|exact Ht|lia|lia]. lia.
      * cbn [orb] in E2. lia.
Qed.

(* ---- split1 / split_on / join_dots ---- *)
Definition tailtext (seen : bool) (rl : list (list N)) : list N :=
  if seen then match rl with [] => [] | _ => DOT :: join_dots rl end else join_dots rl.

Lemma join_dots_cons m rl : join_dots (m :: rl) = m ++ tailtext true rl.
Proof. destruct rl as [|x r]; cbn [join_dots tailtext]; [rewrite app_nil_r|]; reflexivity. Qed.

Lemma split1_join l : forall h t, split1 DOT l = (h, t) -> l = join_dots (h :: t).
Proof.
  induction l as [|x r IH]; intros h t H; cbn [split1] in H.
  - inversion H. reflexivity.
  - destruct (split1 DOT r) as [h0 t0]. pose proof (IH h0 t0 eq_refl) as IH0. clear IH.
    destruct (x =? DOT) eqn:E.
    + apply N.eqb_eq in E. inversion H as [[Hh Ht]]. subst h t. rewrite (join_dots_cons [] (h0 :: t0)). cbn [app tailtext].
      rewrite E. f_equal. exact IH0.
    + inversion H as [[Hh Ht]]. subst h t. rewrite (join_dots_cons (x :: h0) t0). cbn [app]. f_equal.
      rewrite IH0. apply join_dots_cons.
Qed.
Lemma join_split l : join_dots (split_on DOT l) = l.
Proof. unfold split_on. destruct (split1 DOT l) as [h t] eqn:E. symmetry. exact (split1_join l h t E). Qed.

Lemma split1_Forall (Q : N -> Prop) sep l : forall h t, Forall Q l -> split1 sep l = (h, t) -> Forall Q h /\ Forall (Forall Q) t.
Proof.
  induction l as [|x r IH]; intros h t HF H; cbn [split1] in H.
  - inversion H. split; constructor.
  - inversion HF as [|? ? Hx Hr]; subst. destruct (split1 sep r) as [h0 t0]. destruct (IH h0 t0 Hr eq_refl) as [I1 I2].
    destruct (x =? sep); inversion H; subst.
    + split; [constructor|constructor; assumption].
    + split; [constructor; assumption|assumption].
Qed.
Lemma split_on_Forall (Q : N -> Prop) sep l : Forall Q l -> Forall (Forall Q) (split_on sep l).
Proof.
  intros H. unfold split_on. destruct (split1 sep l) as [h t] eqn:E.
  destruct (split1_Forall Q sep l h t H E). constructor; assumption.
Qed.
Lemma join_dots_Forall (Q : N -> Prop) ls : Q DOT -> Forall (Forall Q) ls -> Forall Q (join_dots ls).
Proof.
  intros Hd. induction ls as [|l r IH]; intros H; [constructor|].
  inversion H as [|? ? Hl Hr]; subst. rewrite join_dots_cons. apply Forall_app. split; [exact Hl|].
  destruct r as [|x r']; cbn [tailtext]; [constructor|]. constructor; [exact Hd|exact (IH Hr)].
Qed.

Lemma len_app a b : len (a ++ b) = len a + len b.
Proof. unfold len. rewrite app_length. lia. Qed.
Lemma firstn_len_app (P R : list N) : firstn (N.to_nat (len P)) (P ++ R) = P.
Proof.
  unfold len. rewrite Nat2N.id. rewrite firstn_app, Nat.sub_diag, firstn_all. cbn [firstn]. apply app_nil_r.
Qed.

(* ---- the fastest tier leaves a clean prefix ---- *)
Lemma fast_tier_some iter : bytes iter -> forall mrls t, fast_tier iter mrls = Some t ->
  t = mrls \/ exists pre, iter = pre ++ t /\ Forall lower_or_dot pre.
Proof.
  induction iter as [|b r IH]; intros Hby mrls t H; [discriminate|].
  inversion Hby as [|? ? Hb Hr]; subst. specialize (IH Hr).
  cbn [fast_tier] in H. destruct (in_inclusive_range8 b 97 122) eqn:E.
  - destruct (IH mrls t H) as [->|(pre & -> & Hp)]; [left; reflexivity|].
    right. exists (b :: pre). split; [reflexivity|]. constructor; [|exact Hp].
    left. apply in_range8_lower; assumption.
  - destruct (b =? DOT) eqn:E2.
    + apply N.eqb_eq in E2. right. destruct (IH r t H) as [->|(pre & -> & Hp)].
      * exists [b]. split; [reflexivity|]. constructor; [right; exact E2|constructor].
      * exists (b :: pre). split; [reflexivity|]. constructor; [right; exact E2|exact Hp].
    + inversion H. left; reflexivity.
Qed.
Lemma lower_or_dot_clean deny b : LdhFree deny -> lower_or_dot b -> clean deny b.
Proof. intros HL H. apply ldh_clean; [exact HL|]. unfold lower_or_dot, DOT, ldh, is_lower in *. lia. Qed.
