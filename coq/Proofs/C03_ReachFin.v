(* Proofs/C03_ReachFin.v - two corollaries that close leftovers of C03:
     (1) the byte alphabet of reach03a records under IpOKv (address VALUES are displayed inside 0x21..0x7E) instead of
         C05_Setters.IpOK (every host that is not a domain, also ill-typed ones): the hypothesis the host model meets,
         so the theorem instantiates with Model/Host.v under IdnaOK alone;
     (2) the String / FromStr / TryFrom / serde round trips and "equal serializations = equal records" for the
         records of C02's ReachC4 (Proofs/C02_Reach5.v), which are fixpoints of re-parsing (reach_partial4). *)
From RU Require Import Proofs.C15_Ser.
From RU Require Import Base.Prelude Base.Utf8 Model.HostT Model.Host Model.UrlRecord Model.Parser Model.Setters Model.WF
  Model.FilePath
  Proofs.ListN Proofs.C02_Reach Proofs.C02_Hist Proofs.C02_HistInst Proofs.C02_SetHostCanon Proofs.C02_Reach3 Proofs.C02_Reach4 Proofs.C02_Reach5
  Proofs.C09_Host Proofs.C09_Inst Proofs.C09_InstWf
  Proofs.C05_Enc Proofs.C05_Parser Proofs.C05_CompSteps3 Proofs.C05_Alphabet
  Proofs.C03_ReachParts Proofs.C03_ReachAll Proofs.C03_Reachability Proofs.C03_ReachAscii Proofs.C03_Views
  Proofs.C03_AuthEnd Proofs.C03_ParseFront Proofs.C03_ReachFull Proofs.C03_ReachModel.
Open Scope N_scope.
Open Scope list_scope.

(* ---------- (1) the alphabet of reach03a records, address values only ---------- *)
Section AsciiV.
Variable dbg : bool.
Variable hp hpo : list N -> result host.
Variable hd : host -> list N.
Hypothesis HOK : HostOK hp hpo hd.
Hypothesis HIP : IpOKv hd.

Theorem reach03a_alphabet_v u : reach03a dbg hp hpo hd u -> Forall ok_or_space (ser u).
Proof using HOK HIP.
  induction 1 as [ovr input u Hp | ovr b input u Rb IHb Hb Hp | p u Hb H | p u Hb H | u o u' R IH Ha G H].
  - exact (parse_url_okl ok_or_space ok_byte_or_space dbg hp hpo hd ovr HOK None input u (fun _ => ok_or_space_32) Hp I).
  - exact (parse_url_okl ok_or_space ok_byte_or_space dbg hp hpo hd ovr HOK (Some b) input u (fun _ => ok_or_space_32) Hp IHb).
  - exact (from_file_path_ok p u Hb H).
  - exact (from_directory_path_ok p u Hb H).
  - exact (apply_op_oks_args dbg hp hpo hd u o u' HOK HIP Ha H IH).
Qed.

Theorem reach03a_ascii_v u : reach03a dbg hp hpo hd u -> ascii (ser u).
Proof using HOK HIP.
  intros R. eapply Forall_impl; [|exact (reach03a_alphabet_v u R)]. unfold ok_or_space, is_ascii. intros b Hb. lia.
Qed.
End AsciiV.

(* IpOK implies IpOKv: the new theorem has the weaker hypothesis *)
Lemma IpOK_IpOKv hd : C05_Setters.IpOK hd -> IpOKv hd.
Proof. intros H h Hh. apply H. destruct h as [d|a|p]; [destruct Hh | exact I | exact I]. Qed.

Theorem reach03a_ascii_model dbg idna : IdnaOK idna ->
  forall u, reach03a dbg (host_parse idna) host_parse_opaque host_display u -> Forall ok_or_space (ser u) /\ ascii (ser u).
Proof.
  intros OK u R. destruct (model_full_hyps idna OK) as (_ & _ & _ & HOK & HIP).
  split; [exact (reach03a_alphabet_v dbg _ _ _ HOK HIP u R) | exact (reach03a_ascii_v dbg _ _ _ HOK HIP u R)].
Qed.

(* the same for C02's quantifier *)
Theorem reach3_ascii dbg hp hpo hd : HostWf hp hpo hd -> host_nonempty hp hpo -> IpWf hd -> HostOK hp hpo hd -> IpOKv hd ->
  forall u, Reachable3 dbg hp hpo hd u -> Forall ok_or_space (ser u) /\ ascii (ser u).
Proof.
  intros HW HNE HIPW HOK HIP u R. pose proof (proj2 (reach3_inv_all dbg hp hpo hd HW HNE HIPW HOK HIP u R)) as A.
  split; [exact A|]. eapply Forall_impl; [|exact A]. unfold ok_or_space, is_ascii. intros b Hb. lia.
Qed.

(* ---------- (2) round trips for the records of ReachC4 ---------- *)
Theorem round_trips_reach dbg hp hpo hd : HostOK2 hp hpo hd -> host_nonempty hp hpo ->
  forall u, ReachC4 dbg hp hpo hd u ->
  url_from_str dbg hp hpo hd (utf8_lossy (url_display u)) = POk u
  /\ serde_deserialize dbg hp hpo hd (serde_serialize u) = POk u
  /\ deserialize_internal dbg hp hpo hd (serialize_internal u) = Some u.
Proof.
  intros HOK HNE u R. destruct (reach_partial4 dbg hp hpo hd HOK HNE u R) as (F & W & _).
  destruct (string_round_trips dbg hp hpo hd u F) as [A B0].
  split; [exact A|]. split; [exact B0 | exact (internal_round_trip dbg hp hpo hd u W F)].
Qed.

Theorem eq_records_reach dbg hp hpo hd : HostOK2 hp hpo hd -> host_nonempty hp hpo ->
  forall u v, ReachC4 dbg hp hpo hd u -> ReachC4 dbg hp hpo hd v -> url_eq u v = true -> u = v.
Proof.
  intros HOK HNE u v Ru Rv.
  exact (eq_records dbg hp hpo hd u v (proj1 (reach_partial4 dbg hp hpo hd HOK HNE u Ru))
           (proj1 (reach_partial4 dbg hp hpo hd HOK HNE v Rv))).
Qed.

Theorem round_trips_reach_model dbg idna : IdnaOK idna ->
  forall u, ReachC4 dbg (host_parse idna) host_parse_opaque host_display u ->
  url_from_str dbg (host_parse idna) host_parse_opaque host_display (utf8_lossy (url_display u)) = POk u
  /\ serde_deserialize dbg (host_parse idna) host_parse_opaque host_display (serde_serialize u) = POk u
  /\ deserialize_internal dbg (host_parse idna) host_parse_opaque host_display (serialize_internal u) = Some u.
Proof.
  intros OK u. exact (round_trips_reach dbg _ _ _ (HostOK2_model idna OK) (host_nonempty_model idna) u).
Qed.
