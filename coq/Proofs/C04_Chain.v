(* Proofs/C04_Chain.v - C04's theorems on REACHED records: the premises base_ok / wf_b / wfh of the no-panic
   theorems reproduce themselves along chains of parse and join (C05_BaseOk: parse_url_base_ok) and along the
   histories of C03_ReachHist, so for a base or a receiver that is itself a result of Url::parse / Url::join
   (/ the setters of reach03) they are not needed as hypotheses.  The only hypothesis left is HostWf on the host
   functions (the Display text of a host is non-empty, does not start with ':' / '@', does not end in '/'). *)
From RU Require Import Base.Prelude Base.Utf8 Model.AsciiSet Gen.Tables Model.PercentEncoding
  Model.HostT Model.UrlRecord Model.Parser Model.Setters Model.WF
  Proofs.C03_WF Proofs.C06_Main Proofs.C04_ParseTotal Proofs.C04_ParseFile Proofs.C04_ParseFile7
  Proofs.C03_ReachParts Proofs.C03_ReachHist Proofs.C05_CompSteps3 Proofs.C04_SetPath Proofs.C04_SetHost.

(* without a base the class of F-C04-7 is empty *)
Lemma known_7x_no_base input : known_c04_7x None input = false.
Proof.
  unfold known_c04_7x. cbv zeta.
  destruct (parse_scheme CUrlParser (input_new_trim_c0 input)) as [[sch rem]|]; [|reflexivity].
  apply Bool.andb_false_r.
Qed.

(* Url::parse (no base): never a panic, every input, any host functions, both configurations *)
Theorem parse_no_base_no_panic dbg hp hpo hd ovr input : parse_url dbg hp hpo hd ovr None input <> PPanic.
Proof.
  intros H. apply (proj1 (parse_url_panic_iff dbg hp hpo hd ovr None input I)) in H.
  destruct H as [_ H]. rewrite known_7x_no_base in H. discriminate.
Qed.

Section Chain.
Variable hp hpo : list N -> result host.
Variable hd : host -> list N.
Hypothesis HW : HostWf hp hpo hd.

(* Url::join on a base that is a parse / join result (the chain may have been built in either configuration) *)
Theorem join_panic_iff_pj dbg dbg' ovr b input : PJ dbg' hp hpo hd b ->
  (parse_url dbg hp hpo hd ovr (Some b) input = PPanic <-> dbg = true /\ known_c04_7x (Some b) input = true).
Proof.
  intros R. apply (parse_url_panic_iff dbg hp hpo hd ovr (Some b) input).
  exact (proj1 (pj_base_ok dbg' hp hpo hd HW b R)).
Qed.

(* in particular: no panic at all in a release build, and none when the base is not a file URL *)
Theorem join_no_panic_pj dbg dbg' ovr b input : PJ dbg' hp hpo hd b ->
  dbg = false \/ list_eqb (b_scheme b) s_file = false ->
  parse_url dbg hp hpo hd ovr (Some b) input <> PPanic.
Proof.
  intros R Hc Hp. apply (proj1 (join_panic_iff_pj dbg dbg' ovr b input R)) in Hp. destruct Hp as [Hd Hk].
  destruct Hc as [Hc|Hc]; [congruence|].
  unfold known_c04_7x in Hk. cbv zeta in Hk. rewrite Hc in Hk. cbn [andb] in Hk.
  destruct (parse_scheme CUrlParser (input_new_trim_c0 input)) as [[sch rem]|]; [|discriminate].
  rewrite Bool.andb_false_r in Hk. discriminate.
Qed.

(* every record of a history of reach03 (parse, join, set_fragment, set_query, set_port, set_password, set_username,
   set_scheme, set_host(None), set_ip_host, set_path, path_segments_mut sessions - C03_ReachHist) is a legal
   receiver of every accessor and of every mutator theorem of C04 *)
Theorem reached_wf dbg u : reach03 dbg hp hpo hd u -> wf_b u = true /\ wfh u.
Proof. intros R. pose proof (reach03_wfh dbg hp hpo hd HW u R) as H. split; [exact (proj1 H) | exact H]. Qed.

Theorem pj_wf dbg u : PJ dbg hp hpo hd u -> wf_b u = true /\ wfh u /\ base_ok u = true.
Proof.
  intros R. destruct (pj_base_ok dbg hp hpo hd HW u R) as [Hb Ht].
  assert (W : wf_b u = true) by (unfold base_ok in Hb; apply Bool.andb_true_iff in Hb; exact (proj1 Hb)).
  split; [exact W|]. split; [exact (conj W Ht) | exact Hb].
Qed.

(* the two mutators with an exact panic class, on a reached receiver (dbg' = configuration of the history) *)
Theorem reached_setters dbg dbg' u : reach03 dbg' hp hpo hd u ->
  (forall p, exists u', set_path dbg u p = Some u')
  /\ (forall ops, path_segments_session dbg u ops = None <-> dbg = true /\ psm_assert_fails u = true)
  /\ (forall h, set_host dbg hp hpo hd u h = None <-> dbg = true /\ h = None /\ known_c04_1 u = true)
  /\ (forall h, exists r, set_ip_host dbg hd u h = Some r).
Proof.
  intros R. destruct (reached_wf dbg' u R) as [W _].
  split; [exact (fun p => set_path_total dbg u p W)|].
  split; [exact (fun ops => session_panics_iff dbg u ops W)|].
  split; [exact (fun h => set_host_panics_iff dbg hp hpo hd u h W)|].
  exact (fun h => set_ip_host_total dbg hp hpo hd u h W).
Qed.
End Chain.

(* the same for the histories of C05's CReach3: parse, join and ALL 19 mutators (Url setters, path_segments_mut
   sessions, the quirks setters), each step outside the known classes (step_gate3: the frame hypotheses of C06 / C05 -
   F-C02-2/-4/-8, F-C03-5, F-C06-5 - spelled on the pair of records).  Extra hypothesis IpDisp: Display writes an
   address as a non-empty text that does not start with ':' / '@' (C09_inst_IpDisp for the host model). *)
Theorem creach3_wf hp hpo hd : HostWf hp hpo hd -> IpDisp hd ->
  forall dbg u, CReach3 dbg hp hpo hd u -> wf_b u = true /\ wfh u.
Proof.
  intros HW HI dbg u R. destruct (creach3_components dbg hp hpo hd HW HI u R) as [H _]. split; [exact (proj1 H) | exact H].
Qed.
