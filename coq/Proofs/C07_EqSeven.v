(* Proofs/C07_EqSeven.v - the C07 equivalence for seven of the ten setters - hostname, protocol, hash,
   search, username, password, port - assembled: one assignment preserves corrS (seven_step), hence
   every history does (seven_histories); with the parse classes of Proofs/C07_EqOpaqueClass.v,
   C07_EqPathClass.v, C07_EqAuthParse.v: C07_statement restricted to these start URLs and these seven
   setters.  The host parsers of the two sides are arbitrary functions that agree (host_fns_ok of
   Proofs/C07_EqHostname.v); `safe_*` below are simple functions that do. *)
From RU Require Import Base.Prelude Base.Utf8 Model.AsciiSet Gen.Tables Model.PercentEncoding
  Model.HostT Model.UrlRecord Model.Parser Model.Setters Model.WF Model.KnownC01 Model.KnownC07 Spec.Whatwg
  Proofs.ListN Proofs.C03_WF Proofs.C06_Host Proofs.C01_EqRun Proofs.C01_EqClasses Proofs.C01_EqAuthModel Proofs.C01_EqClasses2
  Proofs.C07_Defs Proofs.C07_Histories Proofs.C07_Corr Proofs.C07_Small Proofs.C07_EqFive
  Proofs.C07_SpecProto Proofs.C07_EqSix Proofs.C07_EqPathClass Proofs.C07_EqAuthParse Proofs.C07_SpecHost Proofs.C07_EqHostname.

Definition seven (s : qsetter) : bool :=
  match s with QHostname | QProtocol | QHash | QSearch | QUsername | QPassword | QPort => true | _ => false end.

Fixpoint seven_ops (ops : list (qsetter * list N)) : Prop :=
  match ops with
  | [] => True
  | (s, v) :: r => seven s = true /\ usv_list v /\ seven_ops r
  end.

Section Seven.
Variable dbg : bool.
Variable hp ho : list N -> result host.
Variable hd : host -> list N.
Variable shp : bool -> list N -> option spec_host.
Variable shs : spec_host -> list N.
Hypothesis HF : host_fns_ok hp ho hd shp shs.

Notation corrS := (corrS dbg shs).

Theorem seven_step u su s v : corrS u su -> seven s = true -> usv_list v -> known_c07 u s v = 0 ->
  exists u' su', model_set dbg hp ho hd s u v = Some u' /\ spec_step shp s su v = Some su' /\ corrS u' su'.
Proof.
  intros C Hs Hv Hk. destruct (six s) eqn:H6; [exact (six_step dbg hp ho hd shp shs u su s v C H6 Hv Hk)|].
  destruct s; try discriminate Hs; try discriminate H6. cbn [model_set]. destruct C as [C S].
  destruct (hostname_stepS dbg hp ho hd shp shs u su v HF C S Hk) as (u' & su' & A & B & C' & S').
  exists u', su'. split; [exact A|]. split; [exact B|]. split; assumption.
Qed.

Theorem seven_step_api u su s v : corrS u su -> seven s = true -> usv_list v -> known_c07 u s v = 0 ->
  exists u' su', model_set dbg hp ho hd s u v = Some u' /\ spec_step shp s su v = Some su' /\ corrS u' su'
    /\ model_api dbg u' = Some (spec_api_list shs su').
Proof.
  intros C Hs Hv Hk. destruct (seven_step u su s v C Hs Hv Hk) as (u' & su' & A & B & C').
  exists u', su'. split; [exact A|]. split; [exact B|]. split; [exact C'|]. exact (corr_api dbg shs u' su' (proj1 C')).
Qed.

Theorem hostname_equiv u su v : corrS u su -> usv_list v -> known_c07 u QHostname v = 0 ->
  exists u' su', model_set dbg hp ho hd QHostname u v = Some u' /\ spec_step shp QHostname su v = Some su'
    /\ corrS u' su' /\ model_api dbg u' = Some (spec_api_list shs su').
Proof. intros C Hv Hk. exact (seven_step_api u su QHostname v C eq_refl Hv Hk). Qed.

Lemma seven_run : forall ops u su, corrS u su -> seven_ops ops -> outside_known dbg hp ho hd u ops ->
  exists u' su', model_run dbg hp ho hd u ops = Some u' /\ spec_run shp su ops = Some su' /\ corrS u' su'.
Proof.
  induction ops as [|[s v] r IH]; intros u su C Hf Ho.
  - exists u, su. cbn [model_run spec_run]. auto.
  - cbn [seven_ops outside_known] in Hf, Ho. destruct Hf as (Hs & Hv & Hr). destruct Ho as [Hk Hrest].
    destruct (seven_step u su s v C Hs Hv Hk) as (u1 & su1 & Em & Es & C1).
    rewrite Em in Hrest. destruct (IH u1 su1 C1 Hr Hrest) as (u2 & su2 & Em2 & Es2 & C2).
    exists u2, su2. cbn [model_run spec_run]. rewrite Em, Es. auto.
Qed.

Lemma seven_ops_firstn n : forall ops, seven_ops ops -> seven_ops (firstn n ops).
Proof.
  induction n as [|n IH]; intros ops H; [exact I|]. destruct ops as [|[s v] r]; [exact I|].
  cbn [firstn seven_ops] in *. destruct H as (A & B & Cc). auto.
Qed.

Theorem seven_histories ops u su : corrS u su -> seven_ops ops -> outside_known dbg hp ho hd u ops ->
  forall n, exists u' su',
    model_run dbg hp ho hd u (firstn n ops) = Some u'
    /\ spec_run shp su (firstn n ops) = Some su'
    /\ corrS u' su'
    /\ model_api dbg u' = Some (spec_api_list shs su').
Proof.
  intros C Hf Ho n.
  destruct (seven_run (firstn n ops) u su C (seven_ops_firstn n ops Hf) (outside_known_firstn dbg hp ho hd n ops u Ho))
    as (u' & su' & A & B & C').
  exists u', su'. split; [exact A|]. split; [exact B|]. split; [exact C'|]. exact (corr_api dbg shs u' su' (proj1 C')).
Qed.

(* from a start URL whose two parses are related: the ten API strings agree at the start and after every
   prefix of every history of the seven setters *)
Lemma seven_from_corrS u su ops : corrS u su -> seven_ops ops -> outside_known dbg hp ho hd u ops ->
  model_api dbg u = Some (spec_api_list shs su)
  /\ forall n, exists u' su',
       model_run dbg hp ho hd u (firstn n ops) = Some u'
       /\ spec_run shp su (firstn n ops) = Some su'
       /\ model_api dbg u' = Some (spec_api_list shs su').
Proof.
  intros C Hf Ho. split; [exact (corr_api dbg shs u su (proj1 C))|]. intros n.
  destruct (seven_histories ops u su C Hf Ho n) as (u' & su' & A & B & _ & D). exists u', su'. auto.
Qed.

(* parsing yields corrS on the three proved no-base classes of non-special schemes: opaque path,
   "scheme:/path", "scheme://authority" *)
Definition in_corrS_class (input : list N) : Prop :=
  in_class_opaque input = true \/ in_class_pathonly input = true
  \/ (in_class_authority input = true /\ host_agree ho hd shp shs (class_host_text input)
      /\ host_extra ho hd shp (class_host_text input)).

Theorem parse_classes_corrS input u : usv_list input -> in_corrS_class input ->
  parse_url dbg hp ho hd None None input = POk u ->
  exists su, spec_basic_url_parse shp input None = BDone su /\ corrS u su.
Proof.
  intros Hu Hc Ep.
  destruct Hc as [Hc|[Hc|(Hc & HA & HX)]].
  - unfold in_class_opaque in Hc. rewrite C01_EqEnc.spec_clean_is_ntnl_trim in Hc.
    destruct (spec_scheme (C08_Input.ntnl (input_new_trim_c0 input))) as [[sch rest]|] eqn:Es; [|discriminate Hc].
    apply andb_true_iff in Hc. destruct Hc as [H1 H2].
    destruct (spec_scheme_model _ _ _ Es) as (rem & Hs & Hrem).
    assert (is_special_scheme sch = false) as Hns by (destruct (is_special_scheme sch); [discriminate | reflexivity]).
    assert (starts_with_cp 47 rest = false) as H47 by (destruct (starts_with_cp 47 rest); [discriminate | reflexivity]).
    rewrite <- Hrem in H47.
    destruct (opaque_class_corrS dbg hp ho hd shp shs input sch rem Hu Hs (not_special_type sch Hns)
                (split_of_starts_with_cp rem H47)) as (su & Esp & [E|(u0 & E & C)]).
    + rewrite Ep in E. discriminate E.
    + rewrite Ep in E. inversion E; subst u0. exists su. split; assumption.
  - destruct (pathonly_class_corrS dbg hp ho hd shp shs input Hu Hc) as (su & Esp & [E|(u0 & E & C)]).
    + rewrite Ep in E. discriminate E.
    + rewrite Ep in E. inversion E; subst u0. exists su. split; assumption.
  - pose proof (authority_class_corrS dbg hp ho hd None shp shs input Hu Hc HA HX) as K.
    destruct (spec_basic_url_parse shp input None) as [su|uf|]; [| |contradiction].
    + destruct K as [E|(u0 & E & C)]; [rewrite Ep in E; discriminate E|].
      rewrite Ep in E. inversion E; subst u0. exists su. split; [reflexivity | exact C].
    + destruct K as [e E]. rewrite Ep in E. discriminate E.
Qed.

(* C07_statement restricted to the seven setters and to start URLs of these classes *)
Theorem seven_from_classes input u ops : usv_list input -> in_corrS_class input ->
  parse_url dbg hp ho hd None None input = POk u ->
  seven_ops ops -> outside_known dbg hp ho hd u ops ->
  exists su, spec_basic_url_parse shp input None = BDone su
    /\ model_api dbg u = Some (spec_api_list shs su)
    /\ forall n, exists u' su',
         model_run dbg hp ho hd u (firstn n ops) = Some u'
         /\ spec_run shp su (firstn n ops) = Some su'
         /\ model_api dbg u' = Some (spec_api_list shs su').
Proof.
  intros Hu Hc Ep Hf Ho. destruct (parse_classes_corrS input u Hu Hc Ep) as (su & Esp & C).
  exists su. split; [exact Esp|]. exact (seven_from_corrS u su ops C Hf Ho).
Qed.

(* the shape of C07_statement: one abstraction relation with the three clauses - observation, parsing (on the
   three classes), one assignment (through the seven setters) *)
Theorem statement_seven_classes :
  exists R : url -> spec_url -> Prop,
    (forall u su, R u su -> model_api dbg u = Some (spec_api_list shs su))
    /\ (forall input u, usv_list input -> in_corrS_class input ->
          parse_url dbg hp ho hd None None input = POk u ->
          exists su, spec_basic_url_parse shp input None = BDone su /\ R u su)
    /\ (forall u su s v, R u su -> seven s = true -> usv_list v -> known_c07 u s v = 0 ->
          exists u' su', model_set dbg hp ho hd s u v = Some u' /\ spec_step shp s su v = Some su' /\ R u' su').
Proof.
  exists corrS. split; [intros u su C; exact (corr_api dbg shs u su (proj1 C))|].
  split; [exact parse_classes_corrS | exact seven_step].
Qed.

End Seven.

(* ---------- host functions that meet host_fns_ok ---------- *)
Definition bad_head (s : list N) : bool := match s with c :: _ => (c =? 58) || (c =? 64) | [] => false end.
Definition safe_hp (s : list N) : result host :=
  match s with [] => Err EmptyHost | _ => if bad_head s then Err InvalidDomainCharacter else Ok (HDomain s) end.
Definition safe_ho (s : list N) : result host :=
  if bad_head s then Err InvalidDomainCharacter else Ok (HDomain s).
Definition safe_shp (o : bool) (s : list N) : option spec_host :=
  match s with
  | [] => if o then Some SEmpty else None
  | _ => if bad_head s then None else Some (if o then SOpaque s else SDomain s)
  end.

Theorem safe_host_fns_ok : host_fns_ok safe_hp safe_ho toy_hd safe_shp toy_shs.
Proof.
  split; intros [|c r]; unfold host_parsing, safe_hp, safe_ho, safe_shp; cbn [bad_head].
  - exact I.
  - destruct ((c =? 58) || (c =? 64)) eqn:E; [exact I|]. apply orb_false_iff in E. destruct E as [E1 E2].
    split; [reflexivity|]. split.
    + unfold host_disp_ok. cbn [hi_of_host toy_hd]. exists c, r. split; [reflexivity | lia].
    + split; split; intros H; discriminate H.
  - split; [reflexivity|]. split; [reflexivity|]. split; split; reflexivity.
  - destruct ((c =? 58) || (c =? 64)) eqn:E; [exact I|]. apply orb_false_iff in E. destruct E as [E1 E2].
    split; [reflexivity|]. split.
    + unfold host_disp_ok. cbn [hi_of_host toy_hd]. exists c, r. split; [reflexivity | lia].
    + split; split; intros H; discriminate H.
Qed.

(* ---------- the start URLs of the small scope, parsed with the safe host functions ---------- *)
Definition safe_parse (s : list N) : option url :=
  match parse_url true safe_hp safe_ho toy_hd None None s with POk u => Some u | _ => None end.
Definition safe_sparse (s : list N) : option spec_url :=
  match spec_basic_url_parse safe_shp s None with BDone u => Some u | _ => None end.

Definition start_corrS_safe_b (st : list N) : bool :=
  match safe_parse st, safe_sparse st with
  | Some u, Some su => corr_b true toy_shs u su && sane_b su
  | _, _ => false
  end.

Lemma starts_corrS_safe_computed : forallb start_corrS_safe_b (small_starts ++ proto_starts) = true.
Proof. vm_compute. reflexivity. Qed.

(* for the 35 start URLs of the small scope and of the protocol table - special, file, non-special, opaque
   path, empty host, credentials, port, "/." marker -: every history of the seven setters with any values,
   every step outside Known_C07 - the ten API strings agree after every prefix *)
Theorem seven_from_small_starts st ops : In st (small_starts ++ proto_starts) -> seven_ops ops ->
  forall u, safe_parse st = Some u -> outside_known true safe_hp safe_ho toy_hd u ops ->
  exists su, safe_sparse st = Some su
    /\ forall n, exists u' su',
         model_run true safe_hp safe_ho toy_hd u (firstn n ops) = Some u'
         /\ spec_run safe_shp su (firstn n ops) = Some su'
         /\ model_api true u' = Some (spec_api_list toy_shs su').
Proof.
  intros Hin Hf u Hp Ho.
  pose proof (proj1 (forallb_forall _ _) starts_corrS_safe_computed st Hin) as H.
  unfold start_corrS_safe_b in H. rewrite Hp in H.
  destruct (safe_sparse st) as [su|]; [|discriminate H]. apply andb_true_iff in H. destruct H as [H1 H2].
  exists su. split; [reflexivity|].
  exact (proj2 (seven_from_corrS true safe_hp safe_ho toy_hd safe_shp toy_shs safe_host_fns_ok u su ops
                  (conj (corr_b_sound _ _ _ _ H1) (sane_b_sound _ H2)) Hf Ho)).
Qed.
