(* Proofs/Idna_C12d_EncDec.v - the enc-after-dec direction of the Punycode round trip (C13_enc_dec_all) transported to
   the Internal instantiations that uts46.rs uses: for an all-ASCII p (the text behind xn-- of an ASCII input label)
     decode_with U8Internal p = Ok s,  s of at most 1000 scalar values
       ==>  encode_internal s = Ok (map to_lower p).
   The u8 internal decoder lower-cases the basic code units, the digits are read case-insensitively and written in lower
   case, the delimiter is its own lower case: the encoder gives back the lower-cased input.
   Proof: a successful run of the model's decoder (any instantiation) is a run of the checked decoder b_dec_loop on
   rest with the initial output map (inst_base_char it) base (dec_loop_b is generic); the external decoder accepts
   p' = map to_lower base ++ "-" ++ rest with the same result (decode_complete); enc_dec_all on p'; the internal-caller
   encoder is the external one below 1001 scalar values (internal_main). *)
From RU Require Import Base.Prelude Base.Utf8 Base.U32_c13 Gen.Tables Model.Punycode Model.Uts46 Spec.Rfc3492
  Proofs.C13_Ascii Proofs.C13_Bounds Proofs.C13_Enc Proofs.C13_Dec Proofs.C13_Known Proofs.C13_Vli Proofs.C13_Rt
  Proofs.C13_DecB Proofs.C13_RtB Proofs.C13_DecEnc Proofs.C13_Mono Proofs.C13_Parse Proofs.C13_EncDecB Proofs.C13_EncDec
  Proofs.C13_Small Proofs.C13_Main Proofs.Idna_PunyRT.

(* ---- a successful run of any instantiation of the model's decoder is a run of the checked decoder ---- *)
Lemma decode_with_b cfg it p s : C13_Enc.len p <= U32_MAX -> decode_with cfg it p = Ok s ->
  exists base rest, s_split p = (base, rest)
    /\ b_dec_loop (inst_digit it) rest false 0 1 s_base 0 s_initial_n s_initial_bias (map (inst_base_char it) base) = Some s.
Proof.
  intros Hp. unfold decode_with, decoder_decode. rewrite split_eq.
  destruct (s_split p) as [base rest] eqn:Es. pose proof (split_len _ _ _ Es) as Hsl.
  destruct (inst_external it && negb (forallb (fun c => c <? 128) base)); [discriminate|].
  assert (Hw : u32_wrap (N.of_nat (length base)) = C13_Enc.len base).
  { unfold u32_wrap. apply N.mod_small. unfold C13_Enc.len, U32_MOD, U32_MAX in *. lia. }
  rewrite Hw.
  pose proof (Rep_base_only it base 0) as HR0.
  destruct (dec_loop cfg it rest false 0 1 BASE 0 (C13_Enc.len base) INITIAL_N INITIAL_BIAS []) as [ins| |site] eqn:Ed;
    try discriminate.
  destruct (dec_loop_b cfg it base rest false 0 1 BASE 0 (C13_Enc.len base) INITIAL_N INITIAL_BIAS []
              (map (inst_base_char it) base) ins (eq_sym (len_map _ _)) ltac:(lia) HR0 Ed) as [out' [Hb HR]].
  rewrite (collect_Rep _ _ _ _ _ HR). intros H. inversion H. subst out'.
  exists base, rest. split; [reflexivity|exact Hb].
Qed.

(* ---- what the checked decoder reads are digits ---- *)
Lemma b_dec_digits dig R : forall mid oldi w k i n bias out s,
  b_dec_loop dig R mid oldi w k i n bias out = Some s -> Forall (fun c => dig c <> None) R.
Proof.
  induction R as [|c R IH]; intros mid oldi w k i n bias out s H; [constructor|].
  rewrite b_dec_loop_cons in H. destruct (dig c) as [digit|] eqn:Ec; [|discriminate].
  constructor; [rewrite Ec; discriminate|].
  destruct ((digit * w <=? U32_MAX) && (i + digit * w <=? U32_MAX)); [|discriminate].
  destruct (digit <? s_threshold k bias).
  - unfold b_dec_break in H. cbv zeta in H.
    destruct ((C13_Enc.len out + 1 <=? U32_MAX) && (n + (i + digit * w) / (C13_Enc.len out + 1) <=? U32_MAX)); [|discriminate].
    destruct (is_usvb (n + (i + digit * w) / (C13_Enc.len out + 1))); [|discriminate].
    exact (IH _ _ _ _ _ _ _ _ _ H).
  - destruct (w * (s_base - s_threshold k bias) <=? U32_MAX); [|discriminate]. exact (IH _ _ _ _ _ _ _ _ _ H).
Qed.

Lemma digit_u8_delim : digit_u8 s_delimiter = None.
Proof. vm_compute. reflexivity. Qed.

Lemma digits_nodelim R : Forall (fun c => digit_u8 c <> None) R -> nodelim R.
Proof.
  unfold nodelim. intros H. eapply Forall_impl; [|exact H]. cbv beta. intros c Hc E. subst c. apply Hc. exact digit_u8_delim.
Qed.

(* ---- the input around its last delimiter ---- *)
Lemma rpos_split p : forall k, s_rposition p = Some k -> p = firstn k p ++ s_delimiter :: skipn (Datatypes.S k) p.
Proof.
  induction p as [|x r IH]; intros k H; [discriminate|]. cbn [s_rposition] in H.
  destruct (s_rposition r) as [j|] eqn:Er.
  - inversion H. subst k. cbn [firstn skipn app]. f_equal. exact (IH j eq_refl).
  - destruct (x =? s_delimiter) eqn:E; [|discriminate]. inversion H. subst k. apply N.eqb_eq in E. subst x.
    cbn [firstn skipn app]. reflexivity.
Qed.

Lemma to_lower_ascii_b c : (to_lower c <? 128) = (c <? 128).
Proof. unfold to_lower, is_upper. destruct ((65 <=? c) && (c <=? 90)) eqn:E; lia. Qed.
Lemma forallb_lower_ascii l : forallb (fun c => c <? 128) (map to_lower l) = forallb (fun c => c <? 128) l.
Proof. induction l as [|c r IH]; [reflexivity|]. cbn [map forallb]. rewrite IH, to_lower_ascii_b. reflexivity. Qed.
Lemma to_lower_sdelim : to_lower s_delimiter = s_delimiter.
Proof. reflexivity. Qed.

(* ---- the transport ---- *)
Theorem enc_dec_internal cfg p s : Forall (fun b => b < 128) p -> C13_Enc.len p <= U32_MAX ->
  decode_with cfg U8Internal p = Ok s -> usv_list s -> (length s <= 1000)%nat ->
  encode_internal cfg s = Ok (map to_lower p).
Proof.
  intros Hap HLp Hdec Hu Hl.
  destruct (decode_with_b cfg U8Internal p s HLp Hdec) as (base & rest & Es & Hb).
  cbn [inst_digit inst_base_char] in Hb.
  change (map (fun c => to_lower c) base) with (map to_lower base) in Hb.
  pose proof (digits_nodelim rest (b_dec_digits _ _ _ _ _ _ _ _ _ _ _ Hb)) as Hnd.
  pose proof (split_len _ _ _ Es) as Hsl.
  destruct (internal_main cfg s Hu Hl) as [E1 _]. rewrite E1.
  assert (Hapb : forallb (fun c => c <? 128) p = true).
  { apply forallb_forall. intros c Hc. rewrite Forall_forall in Hap. specialize (Hap c Hc). lia. }
  unfold s_split in Es. destruct (s_rposition p) as [[|k]|] eqn:Er.
  - (* a delimiter at position 0 only: it is read as a digit *)
    exfalso. destruct (rposition_zero p Er) as [r Hr]. change (0 <? 0)%nat with false in Es. cbv iota in Es.
    injection Es as Eb Erest. subst rest. rewrite Hr in Hb. rewrite b_dec_loop_cons in Hb.
    rewrite digit_u8_delim in Hb. discriminate.
  - change (0 <? Datatypes.S k)%nat with true in Es. cbv iota in Es. injection Es as Eb Erest.
    assert (Hp : p = base ++ s_delimiter :: rest) by (rewrite <- Eb, <- Erest; exact (rpos_split p _ Er)).
    assert (Hab : forallb (fun c => c <? 128) base = true).
    { rewrite Hp, forallb_app in Hapb. apply andb_true_iff in Hapb. exact (proj1 Hapb). }
    assert (Hne : map to_lower base <> []).
    { rewrite <- Eb. destruct p as [|x r]; [discriminate|]. cbn [firstn map]. discriminate. }
    set (p' := map to_lower base ++ [s_delimiter] ++ rest).
    pose proof (split_encoded (map to_lower base) rest Hne Hnd) as Es'. fold p' in Es'.
    assert (Hd' : decode cfg p' = Ok s).
    { apply (decode_complete cfg p' (map to_lower base) rest s Es').
      - rewrite forallb_lower_ascii. exact Hab.
      - rewrite len_map. lia.
      - exact Hb. }
    assert (Hk' : ~ Known_C13_2 p').
    { unfold Known_C13_2, p'. unfold C13_Enc.len in *. rewrite !app_length, map_length. cbn [length].
      rewrite Hp in HLp. rewrite app_length in HLp. cbn [length] in HLp. lia. }
    destruct (enc_dec_all cfg p' s Hk' Hd') as (q & Eq & Hq). rewrite Eq. f_equal.
    unfold eq_upto_digit_case, lower_digits in Hq. rewrite Es' in Hq.
    unfold p' in Hq at 1. cbn [app] in Hq. rewrite (rpos_app (map to_lower base) rest Hnd) in Hq.
    destruct (length (map to_lower base)) as [|j] eqn:Ej; [destruct (map to_lower base); [contradiction Hne; reflexivity|discriminate]|].
    rewrite Hq, Hp, map_app. cbn [map app]. rewrite to_lower_sdelim.
    reflexivity.
  - injection Es as Eb Erest. subst base rest. cbn [map] in Hb.
    assert (Hd' : decode cfg p = Ok s).
    { apply (decode_complete cfg p [] p s).
      - unfold s_split. rewrite Er. reflexivity.
      - reflexivity.
      - rewrite len_nil. unfold U32_MAX. lia.
      - exact Hb. }
    assert (Hk' : ~ Known_C13_2 p) by (unfold Known_C13_2; lia).
    destruct (enc_dec_all cfg p s Hk' Hd') as (q & Eq & Hq). rewrite Eq. f_equal.
    unfold eq_upto_digit_case, lower_digits in Hq. unfold s_split in Hq. rewrite Er in Hq. exact Hq.
Qed.
