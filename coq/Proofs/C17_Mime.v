(* Proofs/C17_Mime.v - the crate's MIME parser (Model/Mime.v, data-url/src/mime.rs) is the MIME Sniffing
   Standard's "parse a MIME type" (Spec/MimeSniff.v) on every string made of HTTP quoted-string token
   code points (TAB, 0x20-0x7E, 0x80-0xFF) - in particular on printable ASCII, which is all a data: URL
   header can hand to it.  (Outside that class the two differ: F-C19-2.)

   The crate splits at ';' first and works piece by piece; the Standard moves one position over the
   text.  `sl ps pieces` is the Standard's parameter loop started just past a ';' on the pieces joined
   with ';'; the main lemma (loop_equiv) says the crate's loop over the pieces computes it. *)
From RU Require Import Base.Prelude Base.Utf8 Base.Utf8Facts Gen.Tables Model.Mime Spec.MimeSniff
  Proofs.C19_Tables Proofs.C19_Pure Proofs.C19_Normal.

Definition qs (c : N) : Prop := http_quoted_string_token_cp c = true.
Definition ne59 (c : N) : Prop := (c =? 59) = false.
Definition ne61 (c : N) : Prop := (c =? 61) = false.

(* ---- the character classes agree ---- *)
Lemma ws_same c : http_whitespace c = http_whitespace_cp c.
Proof. rewrite http_whitespace_spec. unfold http_whitespace_cp. cbn [memb]. lia. Qed.

Lemma tchar_same c : rfc7230_tchar c = http_token_cp c.
Proof.
  unfold rfc7230_tchar, http_token_cp, TCHAR_PUNCT. cbn [memb]. destruct (is_alnum c).
  - rewrite orb_true_r. reflexivity.
  - rewrite !orb_false_r. cbn [orb].
    repeat match goal with |- context [c =? ?k] => destruct (c =? k); cbn [orb]; try reflexivity end.
Qed.

Lemma qs_same c : valid_value_char c = http_quoted_string_token_cp c.
Proof. rewrite valid_value_char_spec. reflexivity. Qed.

Lemma forallb_ext' (f g : N -> bool) l : (forall c, f c = g c) -> forallb f l = forallb g l.
Proof. intros H. induction l as [|c l IH]; [reflexivity|]. cbn [forallb]. rewrite H, IH. reflexivity. Qed.

Lemma tokens_same s : tokens s = solely http_token_cp s.
Proof. apply forallb_ext'. exact tchar_same. Qed.

Lemma valid_value_same s : valid_value s = solely http_quoted_string_token_cp s.
Proof. apply forallb_ext'. exact qs_same. Qed.

Lemma tchar_lower c : rfc7230_tchar (to_lower c) = rfc7230_tchar c.
Proof.
  unfold to_lower. destruct (is_upper c) eqn:E; [|reflexivity]. revert E.
  unfold rfc7230_tchar, is_alnum, is_alpha, is_upper, is_lower, is_digit, TCHAR_PUNCT. cbn [memb]. lia.
Qed.

Lemma tokens_lower s : tokens (map to_lower s) = tokens s.
Proof.
  unfold tokens. induction s as [|c s IH]; [reflexivity|]. cbn [map forallb]. rewrite tchar_lower, IH. reflexivity.
Qed.

Lemma qs_valid s : Forall qs s -> valid_value s = true.
Proof.
  intros H. rewrite valid_value_same. apply forallb_forall. intros c Hc. rewrite Forall_forall in H. exact (H c Hc).
Qed.

Lemma qs_usv s : Forall qs s -> usv_list s.
Proof.
  intros H. unfold usv_list. rewrite Forall_forall in *. intros c Hc. specialize (H c Hc).
  unfold qs, http_quoted_string_token_cp in H. unfold is_usv. lia.
Qed.

(* ---- trimming ---- *)
Lemma trim_start_same s : trim_start s = strip_leading http_whitespace_cp s.
Proof. induction s as [|c s IH]; [reflexivity|]. cbn [trim_start strip_leading]. rewrite ws_same, IH. reflexivity. Qed.

Lemma trim_end_snoc s c : trim_end (s ++ [c]) = if http_whitespace c then trim_end s else s ++ [c].
Proof.
  induction s as [|x s IH].
  - cbn [app trim_end]. destruct (http_whitespace c); reflexivity.
  - cbn [app trim_end]. rewrite IH. destruct (http_whitespace c); [reflexivity|].
    destruct s; reflexivity.
Qed.

Lemma trim_end_same s : trim_end s = strip_trailing http_whitespace_cp s.
Proof.
  unfold strip_trailing. induction s as [|c s IH] using rev_ind; [reflexivity|].
  rewrite trim_end_snoc, rev_app_distr. cbn [rev app strip_leading]. rewrite <- ws_same.
  destruct (http_whitespace c); [exact IH|]. cbn [rev]. rewrite rev_involutive. reflexivity.
Qed.

Lemma trim_start_head s : match trim_start s with c :: _ => http_whitespace_cp c = false | [] => True end.
Proof.
  induction s as [|c s IH]; [exact I|]. cbn [trim_start]. destruct (http_whitespace c) eqn:E; [exact IH|].
  rewrite <- ws_same. exact E.
Qed.

Lemma trim_start_suffix s : exists p, s = p ++ trim_start s.
Proof.
  induction s as [|c s [p IH]]; [exists []; reflexivity|]. cbn [trim_start].
  destruct (http_whitespace c); [exists (c :: p); cbn [app]; f_equal; exact IH|exists []; reflexivity].
Qed.

(* ---- splitting ---- *)
Lemma split_once_collect sep s :
  collect (fun c => negb (c =? sep)) s
  = (fst (split_once sep s), match snd (split_once sep s) with None => [] | Some b => sep :: b end).
Proof.
  induction s as [|c s IH]; [reflexivity|]. cbn [collect split_once].
  destruct (c =? sep) eqn:E; cbn [negb].
  - apply N.eqb_eq in E. subst c. reflexivity.
  - rewrite IH. destruct (split_once sep s) as [a b]. reflexivity.
Qed.

Lemma split_once_shape sep s :
  Forall (fun c => (c =? sep) = false) (fst (split_once sep s))
  /\ s = fst (split_once sep s) ++ match snd (split_once sep s) with None => [] | Some b => sep :: b end.
Proof.
  induction s as [|c s IH]; [split; [constructor|reflexivity]|]. cbn [split_once].
  destruct (c =? sep) eqn:E.
  - apply N.eqb_eq in E. subst c. split; [constructor|reflexivity].
  - destruct (split_once sep s) as [a b]. cbn [fst snd] in *. destruct IH as [I1 I2].
    split; [constructor; assumption|]. cbn [app]. f_equal. exact I2.
Qed.

Definition T (rest : list (list N)) : list N := flat_map (cons 59) rest.

Lemma split_all_join s :
  s = fst (split_all 59 s) ++ T (snd (split_all 59 s))
  /\ Forall ne59 (fst (split_all 59 s)) /\ Forall (Forall ne59) (snd (split_all 59 s)).
Proof.
  induction s as [|c s IH]; [split; [reflexivity|split; constructor]|]. cbn [split_all].
  destruct (split_all 59 s) as [p ps]. cbn [fst snd] in *. destruct IH as (I1 & I2 & I3).
  destruct (c =? 59) eqn:E; cbn [fst snd].
  - apply N.eqb_eq in E. subst c. split; [|split; [constructor|constructor; assumption]].
    unfold T. cbn [flat_map app]. f_equal. exact I1.
  - split; [cbn [app]; f_equal; exact I1|]. split; [constructor; assumption|exact I3].
Qed.

(* ---- the Standard's loop over pieces ---- *)
Definition sl (ps : plist) (pieces : list (list N)) : plist :=
  match pieces with
  | [] => ps
  | p :: r => parameters_loop PSkipWs ps (p ++ T r)
  end.

Definition semi_state (st : pstate) : Prop :=
  match st with PQuoted _ _ | PQuotedEsc _ _ => False | _ => True end.

(* at the end of a piece: the end of the input, or a ';' with the same effect *)
Lemma semi st ps rest : semi_state st -> parameters_loop st ps (T rest) = sl (parameters_loop st ps []) rest.
Proof.
  intros Hs. destruct rest as [|r1 rs]; [reflexivity|].
  destruct st; try contradiction; reflexivity.
Qed.

Lemma run_skip ps piece x :
  parameters_loop PSkipWs ps (piece ++ x) = parameters_loop PSkipWs ps (trim_start piece ++ x).
Proof.
  induction piece as [|c r IH]; [reflexivity|]. cbn [trim_start]. rewrite ws_same.
  destruct (http_whitespace_cp c) eqn:E; [|reflexivity]. cbn [app parameters_loop]. rewrite E. exact IH.
Qed.

Lemma run_name ps x m : Forall ne59 m -> Forall ne61 m -> forall n,
  parameters_loop (PName n) ps (m ++ x) = parameters_loop (PName (rev m ++ n)) ps x.
Proof.
  induction m as [|c m IH]; intros H59 H61 n; [reflexivity|].
  inversion H59 as [|? ? A1 A2]; subst. inversion H61 as [|? ? B1 B2]; subst.
  cbn [app parameters_loop]. rewrite A1, B1. rewrite (IH A2 B2). cbn [rev]. rewrite <- app_assoc. reflexivity.
Qed.

Lemma run_afterq ps x nm v m : Forall ne59 m ->
  parameters_loop (PAfterQuoted nm v) ps (m ++ x) = parameters_loop (PAfterQuoted nm v) ps x.
Proof.
  induction m as [|c m IH]; intros H59; [reflexivity|]. inversion H59 as [|? ? A1 A2]; subst.
  cbn [app parameters_loop]. rewrite A1. exact (IH A2).
Qed.

Lemma run_unq ps x nm m : Forall ne59 m -> forall v,
  parameters_loop (PUnquoted nm v) ps (m ++ x) = parameters_loop (PUnquoted nm (rev m ++ v)) ps x.
Proof.
  induction m as [|c m IH]; intros H59 v; [reflexivity|]. inversion H59 as [|? ? A1 A2]; subst.
  cbn [app parameters_loop]. rewrite A1. rewrite (IH A2). cbn [rev]. rewrite <- app_assoc. reflexivity.
Qed.

(* ---- one piece: up to the '=' ---- *)
Lemma piece_step ps piece rest : Forall ne59 piece ->
  parameters_loop PSkipWs ps (piece ++ T rest) =
  match snd (split_once 61 (trim_start piece)) with
  | None => sl ps rest
  | Some v => parameters_loop (PValueStart (ascii_lowercase (fst (split_once 61 (trim_start piece))))) ps (v ++ T rest)
  end.
Proof.
  intros H59. rewrite run_skip.
  assert (Hq : Forall ne59 (trim_start piece)).
  { destruct (trim_start_suffix piece) as [p Hp]. rewrite Hp in H59. apply Forall_app in H59. tauto. }
  pose proof (trim_start_head piece) as Hh. pose proof (split_once_shape 61 (trim_start piece)) as [S1 S2].
  set (q := trim_start piece) in *. clearbody q.
  destruct (split_once 61 q) as [name value]. cbn [fst snd] in *.
  destruct value as [v|].
  - subst q. apply Forall_app in Hq. destruct Hq as [Hn Hv]. rewrite <- app_assoc. cbn [app].
    destruct name as [|c n'].
    + cbn [app parameters_loop]. reflexivity.
    + inversion Hn as [|? ? A1 A2]; subst. inversion S1 as [|? ? B1 B2]; subst.
      cbn [app parameters_loop]. cbn [app] in Hh. rewrite Hh, A1, B1.
      rewrite (run_name ps (61 :: v ++ T rest) n' A2 B2). cbn [parameters_loop].
      rewrite rev_app_distr, rev_involutive. reflexivity.
  - rewrite app_nil_r in S2. subst q.
    destruct name as [|c n'].
    + cbn [app]. exact (semi PSkipWs ps rest I).
    + inversion Hq as [|? ? A1 A2]; subst. inversion S1 as [|? ? B1 B2]; subst.
      cbn [app parameters_loop]. rewrite Hh, A1, B1.
      rewrite (run_name ps (T rest) n' A2 B2). exact (semi (PName _) ps rest I).
Qed.

(* ---- a quoted value: the scanner over the pieces is the Standard's quoted-string collection ---- *)
Lemma T_cons p r : T (p :: r) = 59 :: p ++ T r.
Proof. reflexivity. Qed.

Lemma scan_equiv nm ps pieces : Forall (Forall ne59) pieces -> forall chars acc, Forall ne59 chars ->
  parameters_loop (PQuoted nm acc) ps (chars ++ T pieces)
  = sl (set_parameter ps nm (fst (scan_quoted pieces chars acc))) (snd (scan_quoted pieces chars acc)).
Proof.
  induction pieces as [|piece rest IHp]; intros Hp.
  - intros chars. induction chars as [|c|c c2 cs IH1 IH2] using list_ind_2step; intros acc Hc.
    + rewrite scan_nil. reflexivity.
    + rewrite scan_cons. inversion Hc as [|? ? A1 _]; subst. cbn [app parameters_loop].
      destruct (c =? 34); [reflexivity|]. destruct (c =? 92); [reflexivity|]. rewrite scan_nil. reflexivity.
    + rewrite scan_cons. inversion Hc as [|? ? A1 Hc']; subst. inversion Hc' as [|? ? A2 Hc'']; subst.
      cbn [app]. cbn [parameters_loop]. destruct (c =? 34) eqn:E34.
      { cbn [fst snd]. rewrite A2. change (cs ++ T []) with (cs ++ []). rewrite app_nil_r.
        rewrite <- (app_nil_r cs), run_afterq by exact Hc''. reflexivity. }
      destruct (c =? 92) eqn:E92.
      { cbn [parameters_loop]. exact (IH1 (c2 :: acc) Hc''). }
      exact (IH2 (c :: acc) Hc').
  - inversion Hp as [|? ? Hp1 Hp2]; subst. specialize (IHp Hp2).
    intros chars. induction chars as [|c|c c2 cs IH1 IH2] using list_ind_2step; intros acc Hc.
    + rewrite scan_nil. cbn [app]. rewrite T_cons. cbn [parameters_loop]. exact (IHp piece (59 :: acc) Hp1).
    + rewrite scan_cons. inversion Hc as [|? ? A1 _]; subst. cbn [app]. rewrite T_cons. cbn [parameters_loop].
      destruct (c =? 34) eqn:E34.
      { cbn [fst snd]. exact (semi (PAfterQuoted nm (rev acc)) ps (piece :: rest) I). }
      destruct (c =? 92) eqn:E92.
      { cbn [parameters_loop]. exact (IHp piece (59 :: acc) Hp1). }
      rewrite scan_nil. cbn [parameters_loop]. exact (IHp piece (59 :: c :: acc) Hp1).
    + rewrite scan_cons. inversion Hc as [|? ? A1 Hc']; subst. inversion Hc' as [|? ? A2 Hc'']; subst.
      cbn [app]. cbn [parameters_loop]. destruct (c =? 34) eqn:E34.
      { cbn [fst snd]. rewrite A2.
        rewrite run_afterq by exact Hc''. exact (semi (PAfterQuoted nm (rev acc)) ps (piece :: rest) I). }
      destruct (c =? 92) eqn:E92.
      { cbn [parameters_loop]. exact (IH1 (c2 :: acc) Hc''). }
      exact (IH2 (c :: acc) Hc').
Qed.

(* ---- the value of a piece ---- *)
Lemma value_unquoted ps nm v rest : Forall ne59 v -> strip_prefix_quote v = None ->
  parameters_loop (PValueStart nm) ps (v ++ T rest)
  = sl (if is_empty (trim_end v) then ps else set_parameter ps nm (trim_end v)) rest.
Proof.
  intros H59 Hq. destruct v as [|c v'].
  - cbn [app]. exact (semi (PValueStart nm) ps rest I).
  - inversion H59 as [|? ? A1 A2]; subst. cbn [strip_prefix_quote] in Hq.
    destruct (c =? 34) eqn:E34; [discriminate|]. cbn [app parameters_loop]. rewrite E34, A1.
    rewrite run_unq by exact A2. rewrite (semi (PUnquoted nm _) ps rest I). f_equal.
    cbn [parameters_loop]. unfold finish_unquoted. rewrite rev_app_distr, rev_involutive. cbn [rev app].
    rewrite <- trim_end_same. reflexivity.
Qed.

Lemma value_quoted ps nm v stripped rest : Forall ne59 v -> Forall (Forall ne59) rest ->
  strip_prefix_quote v = Some stripped ->
  parameters_loop (PValueStart nm) ps (v ++ T rest)
  = sl (set_parameter ps nm (fst (scan_quoted rest stripped []))) (snd (scan_quoted rest stripped [])).
Proof.
  intros H59 Hr Hq. destruct v as [|c v']; [discriminate|]. cbn [strip_prefix_quote] in Hq.
  destruct (c =? 34) eqn:E34; [|discriminate]. inversion Hq; subst. inversion H59 as [|? ? _ A2]; subst.
  cbn [app parameters_loop]. rewrite E34. exact (scan_equiv nm ps rest Hr stripped [] A2).
Qed.

(* ---- set_parameter is the crate's test ---- *)
Definition keys_lower (ps : plist) : Prop := Forall (fun p => lower_token (fst p) = true) ps.

Lemma bytes_eq_ic_map a : forall b,
  bytes_eq_ignore_ascii_case a b = list_eqb (map to_lower a) (map to_lower b).
Proof.
  induction a as [|x a IH]; intros [|y b]; cbn [bytes_eq_ignore_ascii_case map list_eqb]; try reflexivity.
  rewrite IH. reflexivity.
Qed.

Lemma contains_exists_key ps name : keys_lower ps -> tokens name = true ->
  contains ps name = exists_key ps (map to_lower name).
Proof.
  intros Hk Ht. unfold contains, exists_key. induction ps as [|p ps IH]; [reflexivity|].
  inversion Hk as [|? ? K1 K2]; subst. cbn [existsb]. rewrite (IH K2). f_equal.
  unfold eq_ignore_ascii_case.
  rewrite (utf8_encode_ascii _ (tokens_ascii _ (lower_token_tokens _ K1))), (utf8_encode_ascii _ (tokens_ascii _ Ht)).
  rewrite bytes_eq_ic_map. change (map to_lower (fst p)) with (to_ascii_lowercase (fst p)).
  rewrite (lower_token_lowercase_id _ K1). reflexivity.
Qed.

Lemma set_parameter_crate ps name value : keys_lower ps ->
  set_parameter ps (ascii_lowercase name) value
  = if negb (p_name_valid ps name) || negb (valid_value value) then ps
    else ps ++ [(to_ascii_lowercase name, value)].
Proof.
  intros Hk. unfold set_parameter, p_name_valid, ascii_lowercase, to_ascii_lowercase.
  rewrite <- valid_value_same, <- tokens_same, tokens_lower.
  replace (is_empty_string (map to_lower name)) with (is_empty name) by (destruct name; reflexivity).
  destruct (tokens name) eqn:Et.
  - rewrite (contains_exists_key ps name Hk Et).
    destruct (is_empty name), (valid_value value), (exists_key ps (map to_lower name)); reflexivity.
  - destruct (is_empty name); reflexivity.
Qed.

Lemma keys_lower_push ps name value : keys_lower ps ->
  keys_lower (if negb (p_name_valid ps name) || negb (valid_value value) then ps
              else ps ++ [(to_ascii_lowercase name, value)]).
Proof.
  intros Hk. destruct (p_name_valid ps name) eqn:En; cbn [negb orb]; [|exact Hk].
  destruct (valid_value value); cbn [negb]; [|exact Hk].
  apply Forall_app. split; [exact Hk|]. constructor; [|constructor]. cbn [fst].
  unfold p_name_valid in En. apply andb_true_iff in En. destruct En as [En _]. apply andb_true_iff in En.
  destruct En as [E1 E2]. apply lower_token_of_tokens; [exact E2|]. destruct (is_empty name); [discriminate|reflexivity].
Qed.

(* ---- the loop ---- *)
Lemma loop_equiv fuel : forall pieces ps, (length pieces < fuel)%nat ->
  Forall (Forall ne59) pieces -> Forall (Forall qs) pieces -> keys_lower ps ->
  p_params_loop fuel pieces ps = Ok (sl ps pieces).
Proof.
  induction fuel as [|fuel IH]; intros pieces ps Hlen H59 Hqs Hk; [lia|].
  cbn [p_params_loop]. destruct pieces as [|piece rest]; [reflexivity|]. cbn [length] in Hlen.
  inversion H59 as [|? ? A1 A2]; subst. inversion Hqs as [|? ? Q1 Q2]; subst.
  unfold sl. rewrite (piece_step ps piece rest A1).
  assert (Hq59 : Forall ne59 (trim_start piece) /\ Forall qs (trim_start piece)).
  { destruct (trim_start_suffix piece) as [p Hp]. rewrite Hp in A1, Q1.
    apply Forall_app in A1. apply Forall_app in Q1. tauto. }
  destruct Hq59 as [B1 B2]. pose proof (split_once_shape 61 (trim_start piece)) as [_ S2].
  destruct (split_once 61 (trim_start piece)) as [name value]. cbn [fst snd] in *.
  destruct value as [v|]; [|apply IH; [lia|assumption..]].
  rewrite S2 in B1, B2. apply Forall_app in B1. apply Forall_app in B2.
  destruct B1 as [_ B1]. destruct B2 as [_ B2]. inversion B1 as [|? ? _ V1]; subst. inversion B2 as [|? ? _ V2]; subst.
  destruct (strip_prefix_quote v) as [stripped|] eqn:Es.
  - rewrite (value_quoted ps _ v stripped rest V1 A2 Es).
    pose proof (scan_quoted_rest_Forall (Forall ne59) rest stripped [] A2) as R1.
    pose proof (scan_quoted_rest_Forall (Forall qs) rest stripped [] Q2) as R2.
    pose proof (scan_quoted_rest_length rest stripped []) as R3.
    assert (Hval : Forall qs (fst (scan_quoted rest stripped []))).
    { destruct (scan_quoted_facts rest stripped []) as [w [k [E [HP _]]]]. rewrite E. cbn [fst rev app].
      apply HP; [reflexivity|reflexivity|exact Q2|].
      destruct v as [|c v']; [discriminate|]. cbn [strip_prefix_quote] in Es. destruct (c =? 34); [|discriminate].
      inversion Es; subst. inversion V2; assumption. }
    destruct (scan_quoted rest stripped []) as [val rest']. cbn [fst snd] in *.
    rewrite (set_parameter_crate ps name val Hk). rewrite (qs_valid v V2), (qs_valid val Hval).
    destruct (negb (p_name_valid ps name) || negb true) eqn:En.
    + apply IH; [lia|assumption..].
    + apply IH; [lia|assumption|assumption|].
      pose proof (keys_lower_push ps name val Hk) as Hk'. rewrite (qs_valid val Hval), En in Hk'. exact Hk'.
  - rewrite (value_unquoted ps _ v rest V1 Es).
    destruct (is_empty (trim_end v)); [apply IH; [lia|assumption..]|].
    rewrite (set_parameter_crate ps name (trim_end v) Hk).
    pose proof (keys_lower_push ps name (trim_end v) Hk) as Hk'.
    destruct (negb (p_name_valid ps name) || negb (valid_value (trim_end v))); apply IH; (lia || assumption).
Qed.

Lemma parse_parameters_equiv s : Forall qs s ->
  p_parse_parameters s [] = Ok (parameters_loop PSkipWs [] s).
Proof.
  intros Hq. unfold p_parse_parameters. pose proof (split_all_join s) as (J1 & J2 & J3).
  pose proof (split_all_Forall qs 59 s Hq) as [Q1 Q2].
  destruct (split_all 59 s) as [p pieces]. cbn [fst snd] in *.
  rewrite loop_equiv; [unfold sl; rewrite <- J1; reflexivity|cbn [length]; lia| | |constructor];
    constructor; assumption.
Qed.

(* ---- the whole parser ---- *)
Definition mime_of_record (r : mime_type) : mime := mk_mime (mt_type r) (mt_subtype r) (mt_parameters r).

Theorem p_parse_equiv t : Forall qs t -> p_parse t = Ok (option_map mime_of_record (parse_a_mime_type t)).
Proof.
  intros Hq. unfold p_parse, parse_a_mime_type, trim_matches.
  rewrite <- trim_start_same, <- trim_end_same.
  assert (Ht : Forall qs (trim_end (trim_start t))) by (apply trim_end_Forall, trim_start_Forall; exact Hq).
  set (tt := trim_end (trim_start t)) in *. clearbody tt.
  rewrite split_once_collect. pose proof (split_once_Forall qs 47 tt Ht) as [_ Hr].
  destruct (split_once 47 tt) as [type_ rest]. cbn [fst snd] in *.
  rewrite <- tokens_same.
  replace (is_empty_string type_) with (is_empty type_) by reflexivity.
  destruct (tokens type_), (is_empty type_); cbn [negb andb orb]; try reflexivity.
  destruct rest as [rest|]; [|reflexivity].
  rewrite split_once_collect. pose proof (split_once_Forall qs 59 rest Hr) as [_ Hr2].
  destruct (split_once 59 rest) as [subtype rest2]. cbn [fst snd] in *.
  rewrite <- trim_end_same, <- tokens_same.
  replace (is_empty_string (trim_end subtype)) with (is_empty (trim_end subtype)) by reflexivity.
  destruct (tokens (trim_end subtype)), (is_empty (trim_end subtype)); cbn [negb andb orb]; try reflexivity.
  destruct rest2 as [rest2|]; cbn [bind]; [|reflexivity].
  rewrite (parse_parameters_equiv rest2 Hr2). reflexivity.
Qed.

(* C17_mime_equiv *)
Theorem mime_parse_equiv t : Forall qs t ->
  Mime.parse t = Ok (option_map mime_of_record (parse_a_mime_type t)).
Proof. intros Hq. rewrite (parse_spec t (qs_usv t Hq)). exact (p_parse_equiv t Hq). Qed.
