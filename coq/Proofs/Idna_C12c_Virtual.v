(* Proofs/Idna_C12c_Virtual.v - ToASCII and ToUnicode of a name read off its VIRTUAL run (C12).
   The virtual run of d is proc_all (split_on DOT d) of Proofs/Idna_C10d_CaseLoop.v: every label is processed, none is
   passed through.  If it succeeds with buffer texts Ys and entries Fss, the buffer has the bidi verdict bd and - when
   bd is set - the labels behind the first k (k at most the number of leading pass-through labels of d) pass the bidi
   rule, then (virtual_ascii, virtual_unicode)
     to_ascii d   = Ok (_, join_dots (outs is_ascii_l (VL Ys) (concat Fss)))      (unless the encoder panics)
     to_unicode d = UI _ (join_dots (outs (fun _ => true) (VL Ys) (concat Fss))) false.
   No adapter premise besides Redisc (a consequence of map_normalize [] = []). *)
From RU Require Import Base.Prelude Base.Utf8 Base.U32_c13 Gen.Tables Model.Punycode Model.Uts46
  Proofs.Idna_Sim Proofs.Idna_Api Proofs.Idna_Known Proofs.Idna_Hyp Proofs.Idna_Redisc
  Proofs.Idna_C10_Deny Proofs.Idna_C10_Prefix Proofs.Idna_C10_Inner Proofs.Idna_C10_Walk
  Proofs.Idna_C10b_AsciiInner Proofs.Idna_C10b_AsciiWalk Proofs.Idna_C10b_Stmt Proofs.Idna_WalkInv Proofs.Idna_WalkEnc Proofs.Idna_WalkFun
  Proofs.Idna_WalkApi Proofs.Idna_C10c_Puny Proofs.Idna_C10c_Start Proofs.Idna_C10c_Drun Proofs.Idna_C10c_Loop Proofs.Idna_C10c_Rerun
  Proofs.Idna_C10c_Idem Proofs.Idna_Mark Proofs.Idna_C10d_CaseLabel Proofs.Idna_C10d_CaseLoop Proofs.Idna_C10d_Case.

Definition uT : list N -> bool := fun _ => true.

Lemma outs_true_inl cfg labels : forall ap, exists os, outs cfg uT labels ap = inl os.
Proof.
  induction labels as [|l r IH]; intros [|e ap]; cbn [outs]; eauto.
  destruct (IH ap) as (os & ->). destruct e; cbn [out_label uT]; eauto.
Qed.
Lemma uni1_always tld bd l : uni1 false always_unicode tld bd l = uT l.
Proof. unfold uni1, uT. destruct (pp1 false l); reflexivity. Qed.

Lemma skipn_app_le {X} k (a b : list X) : (k <= length a)%nat -> skipn k (a ++ b) = skipn k a ++ b.
Proof. intros H. rewrite skipn_app. replace (k - length a)%nat with 0%nat by lia. reflexivity. Qed.

Section Virtual.
Variable A : adapter.
Variable cfg : bool.
Variable deny : N.
Variable hy : hyphens.
Hypothesis HU : DenyUpper deny.
Hypothesis HL : LdhFree deny.
Hypothesis HR : Redisc A cfg deny.

Notation proc_all := (proc_all A cfg deny hy).
Notation BOKl := (BOKl A).

(* ---- to_unicode on the walking branch, from the fail-fast result ---- *)
Lemma to_unicode_text d pl l rest bd db ap : bytes d ->
  d = ptext pl ++ join_dots (l :: rest) -> len (ptext pl) < len d ->
  process_inner A cfg true hy deny d = IRes (len (ptext pl)) bd false db ap ->
  length (split_on DOT db) = length ap /\
  exists b os, outs cfg uT (split_on DOT db) ap = inl os /\ to_unicode A cfg d deny hy = UI b (ptext pl ++ join_dots os) false.
Proof.
  intros Hb Hd Hlt Ei.
  destruct (inner_facts A cfg true hy deny d _ _ _ _ _ Hb Ei) as [(_ & Hx & _)|[(Hx & _)|[HB Hm]]]; [discriminate|lia|].
  pose proof HB as (_ & Hlen & He1 & Hfd & _ & P & rl & Hd2 & HP & Hcv & HaP & Hma). split; [exact Hlen|].
  assert (HPe : P = ptext pl) by (apply (app_eq_len P (join_dots rl) (ptext pl) (join_dots (l :: rest))); [rewrite <- Hd2; exact Hd|exact HP]).
  subst P.
  assert (Hne : len (ptext pl) <> len d) by lia.
  unfold to_unicode, to_user_interface.
  rewrite (process_B A cfg false always_unicode d deny hy None None false _ _ _ _ _ Hm Hne eq_refl Hfd). cbv zeta.
  pose proof (walk1_spec cfg d false false always_unicode (tld_of db) bd (split_on DOT db) ap false (len (ptext pl)) false false (ptext pl) rl Hlen
                ltac:(discriminate)
                ltac:(intros _; split; [apply split_on_ne|cbn [tailtext]; repeat split; assumption])) as HW.
  rewrite (outs_agree cfg _ uT _ _ (agree_all _ _ (uni1_always (tld_of db) bd) _ _)) in HW.
  rewrite (stays_agree _ uT _ _ (agree_all _ _ (uni1_always (tld_of db) bd) _ _)) in HW.
  destruct (outs_true_inl cfg (split_on DOT db) ap) as (os & Eo). rewrite Eo in HW.
  unfold Post1, Res1 in HW. cbn [negb andb tailtext] in HW. rewrite andb_false_r in HW.
  destruct (walk1 cfg false always_unicode d (tld_of db) bd false (split_on DOT db) ap false (len (ptext pl)) false false) as [ws we].
  rewrite run_sink_none. cbn [fst snd negb] in *.
  destruct (stays uT (split_on DOT db) ap).
  - destruct HW as [HW1 HW2]. rewrite HW2. exists true, os. split; [exact Eo|]. rewrite HW1. reflexivity.
  - destruct HW as [HW1 HW2]. rewrite HW1. rewrite andb_false_r. exists false, os. split; [exact Eo|].
    unfold wcat in HW2. cbn [fst] in HW2. rewrite HW2. reflexivity.
Qed.

(* ---- the real run from the virtual run ---- *)
Definition VBk (k : nat) (bd : bool) (Ys : list (list N)) : Prop :=
  is_bidi A cfg (concat Ys) = Ok bd /\ (bd = true -> Forall BOKl (VL (skipn k Ys))).

Lemma inner_of_virtual d Ys Fss k bd : bytes d -> proc_all (split_on DOT d) = SOk (Ys, Fss) -> VBk k bd Ys ->
  (k <= length (ptake (split_on DOT d)))%nat ->
  let pl := ptake (split_on DOT d) in
  (pdrop (split_on DOT d) = [] /\ pl = split_on DOT d /\ Forall PassL pl /\ Ys = pl /\ Fss = map (fun l => [MixedCaseAscii l]) pl /\
   process_inner A cfg true hy deny d = IRes (len d) false false [] []) \/
  exists l rest Xs Ess, Forall PassL pl /\ Ys = pl ++ Xs /\ Fss = map (fun l => [MixedCaseAscii l]) pl ++ Ess /\ Xs <> [] /\
    d = ptext pl ++ join_dots (l :: rest) /\ len (ptext pl) < len d /\
    process_inner A cfg true hy deny d = IRes (len (ptext pl)) bd false (join_dots Xs) (concat Ess).
Proof.
  intros Hb Hp (Hbd & Hbok) Hk pl. pose proof (inner_closed A cfg deny hy HR d Hb) as Hic.
  destruct (run_shape d Hb) as [Hpl [[Ed Epl]|(l & rest & Ed & Hd & Hlt)]]; fold pl in Hpl.
  - left. rewrite Ed in Hic. fold pl in Epl. pose proof Hpl as Hpl'. rewrite Epl in Hpl'.
    rewrite (proc_all_pass A cfg deny hy HL _ Hpl') in Hp. inversion Hp. rewrite Epl. repeat split; try assumption; reflexivity.
  - right. fold pl in Hd, Hlt. rewrite Ed in Hic.
    rewrite <- (ptake_pdrop (split_on DOT d)), Ed in Hp. fold pl in Hp.
    rewrite proc_all_app, (proc_all_pass A cfg deny hy HL _ Hpl) in Hp.
    destruct (proc_all (l :: rest)) as [[Xs Ess]| |p] eqn:Ep; try discriminate. inversion Hp. subst Ys Fss. clear Hp.
    assert (HXne : Xs <> []).
    { destruct (proc_all_len A cfg deny hy _ _ _ Ep) as [Hx _]. intros ->. discriminate Hx. }
    exists l, rest, Xs, Ess. repeat split; try assumption.
    rewrite concat_app, is_bidi_app, (is_bidi_ascii A cfg _ (pass_all_ascii _ Hpl)), <- is_bidi_join in Hbd.
    rewrite Hic. unfold finish. rewrite Hbd. destruct bd; [|reflexivity].
    specialize (Hbok eq_refl). fold pl in Hk. rewrite (skipn_app_le k pl Xs Hk), VL_app in Hbok. apply Forall_app in Hbok. destruct Hbok as [_ Hbok].
    rewrite <- (split_join_gen Xs HXne) in Hbok. rewrite (bidi_labels_ok A _ Hbok), join_split. reflexivity.
Qed.

Lemma outs_virtual uni pl Xs Ess : Forall PassL pl -> Xs <> [] ->
  outs cfg uni (VL (pl ++ Xs)) (concat (map (fun l => [MixedCaseAscii l]) pl ++ Ess)) =
  match outs cfg uni (split_on DOT (join_dots Xs)) (concat Ess) with inl os => inl (pl ++ os) | inr s => inr s end.
Proof.
  intros Hpl HX. rewrite VL_app, (VL_nodot _ (pass_all_nodot _ Hpl)), concat_app, concat_mca, (outs_mca cfg uni _ _ pl pl eq_refl).
  rewrite <- (split_join_gen Xs HX), (pass_all_lower deny HU HL _ Hpl). reflexivity.
Qed.
Lemma outs_virtual_pass uni pl : Forall PassL pl ->
  outs cfg uni (VL pl) (concat (map (fun l => [MixedCaseAscii l]) pl)) = inl pl.
Proof.
  intros Hpl. rewrite (VL_nodot _ (pass_all_nodot _ Hpl)), concat_mca.
  pose proof (outs_mca cfg uni [] [] pl pl eq_refl) as E. rewrite !app_nil_r in E. rewrite E. cbn [outs].
  rewrite app_nil_r, (pass_all_lower deny HU HL _ Hpl). reflexivity.
Qed.
Lemma outs_ne uni db ap os : outs cfg uni (split_on DOT db) ap = inl os -> length (split_on DOT db) = length ap -> os <> [].
Proof.
  intros Eo Hlen. pose proof (outs_len cfg uni _ _ _ Eo Hlen) as Hl. intros ->. cbn [length] in Hl.
  pose proof (split_on_ne db) as Hn. destruct (split_on DOT db); [congruence|discriminate].
Qed.

Theorem virtual_ascii d Ys Fss k bd ov : bytes d -> proc_all (split_on DOT d) = SOk (Ys, Fss) -> VBk k bd Ys ->
  (k <= length (ptake (split_on DOT d)))%nat -> outs cfg is_ascii_l (VL Ys) (concat Fss) = inl ov ->
  exists b, to_ascii A cfg d deny hy DIgnore = Ok (b, join_dots ov).
Proof.
  intros Hb Hp HV Hk Ho.
  destruct (inner_of_virtual d Ys Fss k bd Hb Hp HV Hk) as [(Ed & Epl & Hpl & -> & -> & Ei)|(l & rest & Xs & Ess & Hpl & -> & -> & HX & Hd & Hlt & Ei)].
  - rewrite (outs_virtual_pass _ _ Hpl) in Ho. inversion Ho. subst ov. exists true. rewrite Epl, join_split.
    unfold to_ascii, process. rewrite Ei, N.eqb_refl, andb_false_r. reflexivity.
  - rewrite (outs_virtual _ _ _ _ Hpl HX) in Ho.
    destruct (to_ascii_text A cfg deny hy HR d _ l rest bd _ _ Hb Hd Hlt Ei) as [Hlen HT].
    destruct (outs cfg is_ascii_l (split_on DOT (join_dots Xs)) (concat Ess)) as [os|s] eqn:Eo; [|discriminate].
    inversion Ho. subst ov. destruct HT as (b0 & HT). exists b0. rewrite (ptext_join _ os (outs_ne _ _ _ _ Eo Hlen)). exact HT.
Qed.

Theorem virtual_unicode d Ys Fss k bd : bytes d -> proc_all (split_on DOT d) = SOk (Ys, Fss) -> VBk k bd Ys ->
  (k <= length (ptake (split_on DOT d)))%nat ->
  exists b ov, outs cfg uT (VL Ys) (concat Fss) = inl ov /\ to_unicode A cfg d deny hy = UI b (join_dots ov) false.
Proof.
  intros Hb Hp HV Hk.
  destruct (inner_of_virtual d Ys Fss k bd Hb Hp HV Hk) as [(Ed & Epl & Hpl & -> & -> & Ei)|(l & rest & Xs & Ess & Hpl & -> & -> & HX & Hd & Hlt & Ei)].
  - exists true, (ptake (split_on DOT d)). split; [exact (outs_virtual_pass _ _ Hpl)|]. rewrite Epl, join_split.
    destruct (inner_ff_facts A cfg hy deny d _ _ _ _ _ Ei) as [HX|[_ Hm]]; [inversion HX|].
    unfold to_unicode, to_user_interface, process. rewrite Hm, N.eqb_refl, andb_false_r. reflexivity.
  - destruct (to_unicode_text d _ l rest bd _ _ Hb Hd Hlt Ei) as (Hlen & b0 & os & Eo & HT).
    exists b0, (ptake (split_on DOT d) ++ os). split; [rewrite (outs_virtual _ _ _ _ Hpl HX), Eo; reflexivity|].
    rewrite (ptext_join _ os (outs_ne _ _ _ _ Eo Hlen)). exact HT.
Qed.
End Virtual.
