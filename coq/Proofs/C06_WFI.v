(* Proofs/C06_WFI.v - the executable invariant wf_b as a conjunction of propositions (both
   directions), so that it can be re-established for the result of a setter, and the transfer of
   each part between two records whose serializations share a prefix. *)
From RU Require Import Base.Prelude Model.HostT Model.UrlRecord Model.Parser Model.Setters Model.WF
  Proofs.ListN Proofs.C03_WF Proofs.C06_List.

Ltac split_andb H :=
  repeat match type of H with
         | (_ && _) = true => let H' := fresh "K" in apply andb_true_iff in H; destruct H as [H H']
         end.

Definition no_qh (c : N) : bool := negb ((c =? 63) || (c =? 35)).
Definition no_h (c : N) : bool := negb (c =? 35).

Definition path_end (u : url) : N :=
  match query_start u, fragment_start u with
  | Some q, _ => q | None, Some f => f | None, None => nlen (ser u) end.

Definition scheme_ok (u : url) : Prop :=
  1 <= scheme_end u
  /\ (exists c, nnth (ser u) 0 = Some c /\ is_alpha c = true)
  /\ forallb scheme_char (nfirstn (scheme_end u) (ser u)) = true
  /\ byte_eqb (ser u) (scheme_end u) 58 = true.

Lemma wf_scheme_iff u : wf_scheme u = true <-> scheme_ok u.
Proof.
  unfold wf_scheme, scheme_ok. rewrite !andb_true_iff. rewrite head_nnth.
  split.
  - intros [[[H1 H2] H3] H4]. repeat split; [lia | | exact H3 | exact H4].
    destruct (ser u) as [|c r]; [discriminate|]. exists c. split; [reflexivity | exact H2].
  - intros (H1 & (c & Hc & Ha) & H3 & H4). repeat split; [lia | | exact H3 | exact H4].
    destruct (ser u) as [|c' r]; [discriminate|]. inversion Hc; subst. exact Ha.
Qed.

Definition userinfo_ok (u : url) : Prop :=
  (username_end u = host_start u /\ username_end u = scheme_end u + 3 /\ byte_eqb (ser u) (username_end u) 58 = false)
  \/ (byte_eqb (ser u) (username_end u) 58 = true
      /\ username_end u + 2 <= host_start u /\ byte_eqb (ser u) (host_start u - 1) 64 = true)
  \/ (byte_eqb (ser u) (username_end u) 64 = true /\ host_start u = username_end u + 1).

Definition port_ok (u : url) : Prop :=
  match port u with
  | None => path_start u = host_end u
  | Some p => byte_eqb (ser u) (host_end u) 58 = true /\ path_start u = host_end u + 1 + nlen (decimal p) /\ p <= 65535
              /\ nfirstn (path_start u - (host_end u + 1)) (nskipn (host_end u + 1) (ser u)) = decimal p
  end.

Definition pathstart_ok (u : url) : Prop :=
  path_start u = nlen (ser u) \/ byte_eqb (ser u) (path_start u) 47 = true
  \/ byte_eqb (ser u) (path_start u) 63 = true \/ byte_eqb (ser u) (path_start u) 35 = true.

Definition auth_ok (u : url) : Prop :=
  scheme_end u + 3 <= username_end u /\ username_end u <= host_start u /\ host_start u <= host_end u
  /\ host_end u <= path_start u /\ path_start u <= nlen (ser u)
  /\ userinfo_ok u
  /\ (hosti u = HI_None -> host_start u = host_end u)
  /\ port_ok u.

Lemma byte_eqb_excl l i a b : a <> b -> byte_eqb l i a = true -> byte_eqb l i b = false.
Proof.
  unfold byte_eqb. destruct (nnth l i) as [x|]; [|discriminate]. intros Hne H.
  apply N.eqb_eq in H. subst x. apply N.eqb_neq. exact Hne.
Qed.

Lemma wf_authority_iff u : wf_authority u = true <-> auth_ok u /\ pathstart_ok u.
Proof.
  unfold wf_authority, auth_ok, pathstart_ok, userinfo_ok, port_ok. cbv zeta.
  split.
  - intros H. split_andb H.
    assert (scheme_end u + 3 <= username_end u /\ username_end u <= host_start u /\ host_start u <= host_end u
            /\ host_end u <= path_start u /\ path_start u <= nlen (ser u)) as A by lia.
    split; [|].
    + destruct A as (A1 & A2 & A3 & A4 & A5). repeat split; try assumption.
      * destruct (username_end u =? host_start u) eqn:E.
        -- left. repeat split; [lia | lia | apply negb_true_iff; exact K2].
        -- destruct (byte_eqb (ser u) (username_end u) 58) eqn:E58.
           ++ right. left. apply andb_true_iff in K3. destruct K3. repeat split; [lia | assumption].
           ++ right. right. apply andb_true_iff in K3. destruct K3. split; [assumption | lia].
      * intros Hn. rewrite Hn in K1. lia.
      * destruct (port u) as [p|]; [|lia]. split_andb K0.
        repeat split; [assumption | lia | lia | apply list_eqb_spec; assumption].
    + apply orb_true_iff in K. destruct K as [K|K]; [|tauto].
      apply orb_true_iff in K. destruct K as [K|K]; [|tauto].
      apply orb_true_iff in K. destruct K as [K|K]; [left; lia | tauto].
  - intros [(A1 & A2 & A3 & A4 & A5 & U & Hn & P) PS].
    repeat (apply andb_true_iff; split); try lia.
    + destruct U as [(U1 & U2 & U3)|[(U1 & U2 & U3)|(U1 & U2)]].
      * replace (username_end u =? host_start u) with true by lia. lia.
      * replace (username_end u =? host_start u) with false by lia. rewrite U1. rewrite U3.
        replace (username_end u + 2 <=? host_start u) with true by lia. reflexivity.
      * replace (username_end u =? host_start u) with false by lia.
        rewrite (byte_eqb_excl _ _ 64 58) by (try lia; exact U1). rewrite U1. cbn [andb]. lia.
    + destruct U as [(U1 & U2 & U3)|[(U1 & U2 & U3)|(U1 & U2)]].
      * replace (username_end u =? host_start u) with true by lia. rewrite U3. reflexivity.
      * replace (username_end u =? host_start u) with false by lia. reflexivity.
      * replace (username_end u =? host_start u) with false by lia. reflexivity.
    + destruct (hosti u); try reflexivity. specialize (Hn eq_refl). lia.
    + destruct (port u) as [p|]; [|lia]. destruct P as (P1 & P2 & P3 & P4).
      repeat (apply andb_true_iff; split); [exact P1 | apply list_eqb_spec; exact P4 | lia | lia].
    + destruct PS as [PS|[PS|[PS|PS]]].
      * replace (path_start u =? nlen (ser u)) with true by lia. reflexivity.
      * rewrite PS. rewrite ?orb_true_r. reflexivity.
      * rewrite PS. rewrite ?orb_true_r. reflexivity.
      * rewrite PS. rewrite ?orb_true_r. reflexivity.
Qed.

Definition noauth_ok (u : url) : Prop :=
  username_end u = scheme_end u + 1 /\ host_start u = scheme_end u + 1 /\ host_end u = scheme_end u + 1
  /\ hosti u = HI_None /\ port u = None /\ path_start u <= nlen (ser u)
  /\ (path_start u = scheme_end u + 1
      \/ (path_start u = scheme_end u + 3 /\ byte_eqb (ser u) (scheme_end u + 1) 47 = true
          /\ byte_eqb (ser u) (scheme_end u + 2) 46 = true /\ starts_with s_ss (nskipn (path_start u) (ser u)) = true)).

Lemma wf_no_authority_iff u : wf_no_authority u = true <-> noauth_ok u.
Proof.
  unfold wf_no_authority, noauth_ok. cbv zeta. split.
  - intros H. split_andb H. repeat split; try lia.
    + destruct (hosti u); try discriminate; reflexivity.
    + destruct (port u); [discriminate | reflexivity].
    + apply orb_true_iff in K. destruct K as [K|K]; [left; lia|]. right. split_andb K.
      repeat split; [lia | assumption | assumption | assumption].
  - intros (H1 & H2 & H3 & H4 & H5 & H6 & H7).
    repeat (apply andb_true_iff; split); try lia.
    + rewrite H4. reflexivity.
    + rewrite H5. reflexivity.
    + destruct H7 as [H7|(A & B & C & D)].
      * replace (path_start u =? scheme_end u + 1) with true by lia. reflexivity.
      * rewrite B, C, D. replace (path_start u =? scheme_end u + 3) with true by lia. apply orb_true_r.
Qed.

Definition qf_ok (u : url) : Prop :=
  (match query_start u with Some q => path_start u <= q /\ byte_eqb (ser u) q 63 = true | None => True end)
  /\ (match fragment_start u with Some f => path_start u <= f /\ byte_eqb (ser u) f 35 = true | None => True end)
  /\ (match query_start u, fragment_start u with Some q, Some f => q < f | _, _ => True end)
  /\ forallb no_qh (nfirstn (path_end u - path_start u) (nskipn (path_start u) (ser u))) = true
  /\ (match query_start u, fragment_start u with
      | Some q, Some f => forallb no_h (nfirstn (f - (q + 1)) (nskipn (q + 1) (ser u))) = true
      | Some q, None => forallb no_h (nskipn (q + 1) (ser u)) = true
      | _, _ => True
      end).

Lemma wf_qf_iff u : wf_query_fragment u = true <-> qf_ok u.
Proof.
  unfold wf_query_fragment, qf_ok, path_end. cbv zeta. fold no_qh. fold no_h.
  rewrite !andb_true_iff.
  destruct (query_start u) as [q|], (fragment_start u) as [f|]; rewrite ?andb_true_iff; intuition lia.
Qed.

Lemma wf_b_iff u : wf_b u = true <->
  scheme_ok u /\ (if has_authority_b u then auth_ok u /\ pathstart_ok u else noauth_ok u) /\ qf_ok u.
Proof.
  unfold wf_b. rewrite !andb_true_iff, wf_scheme_iff, wf_qf_iff.
  destruct (has_authority_b u); [rewrite wf_authority_iff | rewrite wf_no_authority_iff]; tauto.
Qed.

(* ---------- transfer along a shared prefix ---------- *)
Lemma pre_byte_eqb a s s' i c : agree_pre a s s' -> i < a -> byte_eqb s' i c = byte_eqb s i c.
Proof. intros H Hi. unfold byte_eqb. rewrite (pre_nnth a s s' i H Hi). reflexivity. Qed.

Lemma suf_byte_eqb b b' s s' i i' c : agree_suf b b' s s' -> b <= i -> i' = i - b + b' ->
  byte_eqb s' i' c = byte_eqb s i c.
Proof. intros H Hi E. unfold byte_eqb. rewrite (suf_nnth b b' s s' i i' H Hi E). reflexivity. Qed.

Lemma scheme_ok_pre a u u' : agree_pre a (ser u) (ser u') -> scheme_end u < a -> scheme_end u' = scheme_end u ->
  scheme_ok u -> scheme_ok u'.
Proof.
  intros H Hse E (H1 & (c & Hc & Ha) & H3 & H4). unfold scheme_ok. rewrite E.
  repeat split.
  - exact H1.
  - exists c. split; [|exact Ha]. rewrite (pre_nnth a _ _ 0 H) by lia. exact Hc.
  - rewrite (pre_firstn a _ _ _ H) by lia. exact H3.
  - rewrite (pre_byte_eqb a _ _ _ _ H Hse). exact H4.
Qed.

Lemma has_authority_b_pre a u u' : agree_pre a (ser u) (ser u') -> scheme_end u + 3 <= a ->
  scheme_end u' = scheme_end u -> has_authority_b u' = has_authority_b u.
Proof.
  intros H Hse E. unfold has_authority_b. rewrite E. apply (pre_starts_with a); [exact H|].
  change (nlen s_css) with 3. exact Hse.
Qed.

(* the authority part lies before the cut *)
Lemma auth_ok_pre a u u' : agree_pre a (ser u) (ser u') -> path_start u <= a -> a <= nlen (ser u') ->
  scheme_end u' = scheme_end u -> username_end u' = username_end u -> host_start u' = host_start u ->
  host_end u' = host_end u -> hosti u' = hosti u -> port u' = port u -> path_start u' = path_start u ->
  username_end u < a ->
  auth_ok u -> auth_ok u'.
Proof.
  intros H Hps Hlen E1 E2 E3 E4 E5 E6 E7 Hue (A1 & A2 & A3 & A4 & A5 & U & Hn & P).
  unfold auth_ok, userinfo_ok, port_ok. rewrite E1, E2, E3, E4, E5, E6, E7.
  repeat split; try assumption; try lia.
  - destruct U as [(U1 & U2 & U3)|[(U1 & U2 & U3)|(U1 & U2)]].
    + left. repeat split; try assumption. rewrite (pre_byte_eqb a _ _ _ _ H) by lia. exact U3.
    + right. left. rewrite !(pre_byte_eqb a _ _ _ _ H) by lia. tauto.
    + right. right. rewrite !(pre_byte_eqb a _ _ _ _ H) by lia. tauto.
  - unfold port_ok in P. destruct (port u) as [p|]; [|exact P].
    destruct P as (P1 & P2 & P3 & P4).
    assert (host_end u < a) as Hhe by (pose proof (byte_eqb_lt _ _ _ P1); lia).
    rewrite (pre_byte_eqb a _ _ _ _ H) by lia.
    rewrite (pre_piece a _ _ _ _ H) by lia. tauto.
Qed.

Lemma noauth_ok_pre a u u' : agree_pre a (ser u) (ser u') -> path_start u <= a -> a <= nlen (ser u') ->
  scheme_end u' = scheme_end u -> username_end u' = username_end u -> host_start u' = host_start u ->
  host_end u' = host_end u -> hosti u' = hosti u -> port u' = port u -> path_start u' = path_start u ->
  (path_start u = scheme_end u + 3 -> starts_with s_ss (nskipn (path_start u) (ser u')) = true) ->
  noauth_ok u -> noauth_ok u'.
Proof.
  intros H Hps Hlen E1 E2 E3 E4 E5 E6 E7 Hss (H1 & H2 & H3 & H4 & H5 & H6 & H7).
  unfold noauth_ok. rewrite E1, E2, E3, E4, E5, E6, E7.
  repeat split; try assumption; try lia.
  destruct H7 as [H7|(A & B & C & D)]; [left; exact H7|]. right.
  rewrite !(pre_byte_eqb a _ _ _ _ H) by lia. repeat split; try assumption. apply Hss. exact A.
Qed.
