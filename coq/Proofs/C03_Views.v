(* Proofs/C03_Views.v - the "overlapping views agree" clauses of C03 that are not in C03_views:
     authority()  vs the Position range BeforeUsername..AfterPort (and "" without authority);
     cannot_be_a_base() vs path_segments(): the exact class F-C03-4 (authority, empty path);
     port_or_known_default(); socket_addrs() for IP hosts;
     Eq / Ord / Hash / Display / String conversion / FromStr / serde, which the code defines through the
     serialization.
   What is MODELLED here and not in Model/: socket_addrs, the comparison / hashing / conversion impls and the
   serde impls are transcriptions of url/src/lib.rs:1332-1358, 2607-2684, 2768-2864, 2894-2934 written in this
   file; they are not part of the extracted model and so are not tied to the code by the correspondence run
   (the search phase of harness/src/urlprops.rs exercises std::hash, Ord and serde_json on the real crate).
   Their theorems are definitional, except the record-level ones (eq_records, the round trips), which rest
   on C02's fixpoint property. *)
From Coq Require Import String.
From RU Require Import Base.Prelude Base.Utf8 Model.AsciiSet Gen.Tables Model.PercentEncoding
  Model.HostT Model.UrlRecord Model.Parser Model.Setters Model.WF
  Proofs.ListN Proofs.C02_Reach Proofs.C03_WF Proofs.C06_List Proofs.C06_WFI Proofs.C06_Tail Proofs.C06_Steps
  Proofs.C06_Suffix Proofs.C06_FragQuery Proofs.C06_Segments Proofs.C06_Path Proofs.C06_PathNoAuth Proofs.C06_PathMore
  Proofs.C05_CompSteps.
Open Scope N_scope.
Open Scope list_scope.

(* ================= 1. authority() ================= *)
Section Authority.
Variable dbg : bool.

Theorem authority_view u : wf_b u = true ->
  authority dbg u = Some (if has_authority_b u then piece u (scheme_end u + 3) (path_start u) else [])
  /\ (has_authority_b u = true -> index_range dbg u BeforeUsername AfterPort = authority dbg u).
Proof.
  intros W. assert (authority dbg u = Some (if has_authority_b u then piece u (scheme_end u + 3) (path_start u) else [])) as E.
  { unfold authority. rewrite (has_authority_eval dbg u W). cbn [bindo].
    destruct (has_authority_b u) eqn:Ha; cbn [andb]; [|reflexivity].
    pose proof (wf_auth_facts u W Ha) as F.
    pose proof (af_ue F); pose proof (af_hs F); pose proof (af_he F); pose proof (af_ps F); pose proof (af_len F).
    destruct (scheme_end u + 3 <? path_start u) eqn:El.
    - unfold u_slice. rewrite slice_o_some by lia. reflexivity.
    - apply N.ltb_ge in El. replace (path_start u) with (scheme_end u + 3) by lia. rewrite piece_empty. reflexivity. }
  split; [exact E|]. intros Ha. rewrite E, Ha.
  rewrite (index_range_eval dbg u W BeforeUsername AfterPort) by (cbn; lia).
  cbn [pidx]. rewrite Ha. unfold piece.
  (* AfterPort = path_start on a record with an authority *)
  pose proof (af_port (wf_auth_facts u W Ha)) as Po.
  destruct (port u) as [p|] eqn:Ep.
  - destruct Po as (_ & Po & Hp & _). rewrite Po. rewrite (count_digits_decimal p Hp). reflexivity.
  - rewrite Po. reflexivity.
Qed.
End Authority.

(* ================= 2. cannot_be_a_base() vs path_segments() ================= *)
(* documented: "Return None for cannot-be-a-base URLs".  On a well-formed record path_segments() is None
   exactly when the path does not start with '/': cannot-be-a-base records, and - the class of F-C03-4 - records
   that are NOT cannot-be-a-base whose path is empty, which need an authority ("a://h") *)
Lemma nfirstn_head n (l : list N) x r : nfirstn n l = x :: r -> exists t, l = x :: t.
Proof.
  unfold nfirstn. destruct (N.to_nat n); [discriminate|]. destruct l as [|y t]; [discriminate|].
  cbn [firstn]. intros H. inversion H. eexists. reflexivity.
Qed.

Lemma seg_none (x : N) (r : list N) : x <> 47 ->
  (match x :: r with 47 :: r0 => Some (split_on 47 r0) | _ => None end) = None.
Proof.
  intros H. destruct x as [|q]; [reflexivity|]. do 6 (try (destruct q as [q|q|]); try reflexivity).
  exfalso; apply H; reflexivity.
Qed.

Lemma seg_match (p : list N) :
  (match p with 47 :: r => Some (Some (split_on 47 r)) | _ => Some None end)
  = Some (match p with 47 :: r => Some (split_on 47 r) | _ => None end).
Proof.
  destruct p as [|x r]; [reflexivity|]. destruct (N.eq_dec x 47) as [->|H]; [reflexivity|].
  rewrite (seg_none x r H). destruct x as [|q]; [reflexivity|]. do 6 (try (destruct q as [q|q|]); try reflexivity).
  exfalso; apply H; reflexivity.
Qed.

Theorem cbb_vs_segments u : wf_b u = true ->
  exists c sg p, cannot_be_a_base u = Some c /\ path_segments u = Some sg /\ path u = Some p
    /\ (c = true -> sg = None)
    /\ (c = false -> (sg = None <-> p = []))
    /\ (c = false -> p = [] -> has_authority_b u = true).
Proof.
  intros W. pose proof (cannot_be_a_base_eval u W) as Ec. pose proof (path_eval u W) as Ep.
  set (c := negb (byte_eqb (ser u) (scheme_end u + 1) 47)) in *.
  set (p := piece u (pidx u BeforePath) (pidx u AfterPath)) in *.
  exists c, (match p with 47 :: r => Some (split_on 47 r) | _ => None end), p.
  split; [exact Ec|]. split; [unfold path_segments; rewrite Ep; cbn [bindo]; apply seg_match|].
  split; [exact Ep|].
  assert (c = false -> p = [] \/ exists r, p = 47 :: r) as Hh.
  { intros Hc. apply (hier_path_head u p W); [rewrite Ec, Hc; reflexivity | exact Ep]. }
  split; [|split].
  - intros Hc. (* opaque: the path starts at scheme_end + 1, where no '/' stands *)
    destruct p as [|x r] eqn:Epp; [reflexivity|]. destruct (N.eq_dec x 47) as [->|Hx]; [exfalso|].
    + unfold c in Hc. apply negb_true_iff in Hc.
      destruct (opaque_path_start u W Hc) as [Ha Eps].
      unfold p, piece in Epp. cbn [pidx] in Epp. rewrite Eps in Epp.
      assert (nnth (ser u) (scheme_end u + 1) = Some 47) as B.
      { destruct (nfirstn_head _ _ _ _ Epp) as (t & Es).
        rewrite <- (N.add_0_r (scheme_end u + 1)), <- nnth_nskipn, Es. reflexivity. }
      apply byte_eqb_true_iff in B. congruence.
    + exact (seg_none x r Hx).
  - intros Hc. destruct (Hh Hc) as [->|(r & ->)]; split; intros X; try reflexivity; discriminate.
  - intros Hc Hp. destruct (has_authority_b u) eqn:Ha; [reflexivity|exfalso].
    unfold c in Hc. apply negb_false_iff in Hc.
    assert (byte_eqb (ser u) (path_start u) 47 = true) as Hb.
    { destruct (path_layouts u W) as [Ha'|[(_ & Hs & E)|[Ho|M]]].
      - congruence.
      - rewrite E. exact Hs.
      - unfold is_opaque_b in Ho. rewrite Hc in Ho. discriminate.
      - apply (marker_heads u W M). }
    (* the path is not empty: the byte at path_start is '/', not '?' / '#' / the end *)
    apply byte_eqb_nnth in Hb. pose proof (nnth_lt _ _ _ Hb) as Hl.
    unfold p, piece in Hp. cbn [pidx] in Hp.
    change (match query_start u with Some q => q | None => match fragment_start u with Some f => f | None => nlen (ser u) end end)
      with (path_end u) in Hp.
    destruct (wf_ps_le_path_end u W) as [B1 B2].
    assert (path_end u <> path_start u) as X.
    { intros X. pose proof (wf_qf_facts u W) as QF. pose proof (qf_q QF) as Q1. pose proof (qf_f QF) as Q2.
      unfold path_end in X. destruct (query_start u) as [q|].
      - destruct Q1 as (_ & Qb & _). apply byte_eqb_nnth in Qb. rewrite X in Qb. congruence.
      - destruct (fragment_start u) as [f|]; [|lia].
        destruct Q2 as (_ & Qb & _). apply byte_eqb_nnth in Qb. rewrite X in Qb. congruence. }
    rewrite (nskipn_cons_of_nnth _ _ _ Hb) in Hp.
    replace (path_end u - path_start u) with (1 + (path_end u - path_start u - 1)) in Hp by lia.
    unfold nfirstn in Hp. rewrite N2Nat.inj_add in Hp. cbn [N.to_nat Pos.to_nat Pos.iter_op Nat.add firstn] in Hp. discriminate.
Qed.

(* the class is inhabited: "a://h" (F-C03-4) *)
Example cbb_vs_segments_F_C03_4 :
  let u := mkUrl [97; 58; 47; 47; 104] 1 4 4 5 HI_Domain None 5 None None in
  wf_b u = true /\ cannot_be_a_base u = Some false /\ path_segments u = Some None /\ path u = Some [].
Proof. vm_compute. repeat split. Qed.

(* ================= 3. port_or_known_default(), socket_addrs() ================= *)
Theorem port_or_known_default_view u : wf_b u = true ->
  exists sch, scheme u = Some sch
    /\ port_or_known_default u = Some (match port u with Some p => Some p | None => default_port sch end).
Proof.
  intros W. exists (piece u (pidx u BeforeScheme) (pidx u AfterScheme)). split; [apply (scheme_eval u W)|].
  unfold port_or_known_default. destruct (port u); [reflexivity|]. rewrite (scheme_eval u W). reflexivity.
Qed.

(* Url::socket_addrs(default_port_number) (lib.rs:1332-1358): Err "No host name in the URL" without a host,
   Err "No port number in the URL" when port_or_known_default() and the fallback are both None; a domain goes
   to the resolver with the port; an IP host gives exactly one address *)
Inductive sock_result :=
| SockNoHost | SockNoPort
| SockResolve (domain : list N) (port : N)
| SockAddrs (addrs : list (host * N)).

Definition socket_addrs (u : url) (fallback : option N) : option sock_result :=
  h <- host_of u ;;
  match h with
  | None => Some SockNoHost
  | Some h =>
      pk <- port_or_known_default u ;;
      match (match pk with Some p => Some p | None => fallback end) with
      | None => Some SockNoPort
      | Some p => Some (match h with HDomain d => SockResolve d p | ip => SockAddrs [(ip, p)] end)
      end
  end.

Definition effective_port (u : url) (sch : list N) (fallback : option N) : option N :=
  match port u with
  | Some p => Some p
  | None => match default_port sch with Some p => Some p | None => fallback end
  end.

Theorem socket_addrs_view u fallback : wf_b u = true ->
  exists sch, scheme u = Some sch
    /\ (has_host u = false -> socket_addrs u fallback = Some SockNoHost)
    /\ (forall a, hosti u = HI_Ipv4 a ->
          socket_addrs u fallback = Some (match effective_port u sch fallback with
                                          | Some p => SockAddrs [(HIpv4 a, p)] | None => SockNoPort end))
    /\ (forall ps, hosti u = HI_Ipv6 ps ->
          socket_addrs u fallback = Some (match effective_port u sch fallback with
                                          | Some p => SockAddrs [(HIpv6 ps, p)] | None => SockNoPort end))
    /\ (hosti u = HI_Domain -> exists d, host_str u = Some (Some d)
          /\ socket_addrs u fallback = Some (match effective_port u sch fallback with
                                             | Some p => SockResolve d p | None => SockNoPort end)).
Proof.
  intros W. destruct (port_or_known_default_view u W) as (sch & Hs & Hp). exists sch. split; [exact Hs|].
  unfold socket_addrs, effective_port. rewrite Hp. unfold host_str, host_of, has_host.
  split; [|split; [|split]].
  - intros Hh. destruct (hosti u); try discriminate. reflexivity.
  - intros a ->. cbn [bindo]. destruct (port u) as [p|]; [reflexivity|]. destruct (default_port sch); [reflexivity|].
    destruct fallback; reflexivity.
  - intros ps ->. cbn [bindo]. destruct (port u) as [p|]; [reflexivity|]. destruct (default_port sch); [reflexivity|].
    destruct fallback; reflexivity.
  - intros ->. cbn [has_host].
    pose proof (pidx_monotone u W BeforeHost AfterHost ltac:(cbn; lia)) as M.
    pose proof (pidx_in_bounds u W AfterHost) as B. cbn [pidx] in M, B.
    unfold u_slice. rewrite slice_o_some by assumption. cbn [bindo]. eexists. split; [reflexivity|].
    destruct (port u) as [p|]; [reflexivity|]. destruct (default_port sch); [reflexivity|]. destruct fallback; reflexivity.
Qed.

(* ================= 4. Eq / Ord / Hash / Display / conversions / serde ================= *)
(* lib.rs:2768-2864: every one of these impls delegates to self.serialization *)
Definition url_eq (u v : url) : bool := list_eqb (ser u) (ser v).                 (* PartialEq / Eq *)
Fixpoint bytes_cmp (a b : list N) : comparison :=                                   (* str::cmp = bytewise *)
  match a, b with
  | [], [] => Eq | [], _ :: _ => Lt | _ :: _, [] => Gt
  | x :: a', y :: b' => match x ?= y with Eq => bytes_cmp a' b' | c => c end
  end.
Definition url_cmp (u v : url) : comparison := bytes_cmp (ser u) (ser v).         (* Ord / PartialOrd *)
Definition url_hash {H : Type} (hash_str : list N -> H) (u : url) : H := hash_str (ser u).   (* Hash *)
Definition url_display (u : url) : list N := ser u.                                 (* Display, as_str, Into<String>, AsRef<str> *)

Lemma bytes_cmp_eq a : forall b, bytes_cmp a b = Eq <-> a = b.
Proof.
  induction a as [|x a IH]; intros [|y b]; cbn [bytes_cmp]; split; intros H; try reflexivity; try discriminate.
  - destruct (x ?= y) eqn:E; try discriminate. apply N.compare_eq in E. subst. f_equal. apply IH. exact H.
  - inversion H; subst. rewrite N.compare_refl. apply IH. reflexivity.
Qed.

Theorem eq_ord_hash_by_serialization u v :
  (url_eq u v = true <-> ser u = ser v)
  /\ (url_cmp u v = Eq <-> ser u = ser v)
  /\ (url_eq u v = true -> forall H (h : list N -> H), url_hash h u = url_hash h v)
  /\ url_display u = ser u.
Proof.
  split; [apply list_eqb_spec|].
  split; [apply bytes_cmp_eq|]. split; [|reflexivity].
  intros E H h. unfold url_hash. unfold url_eq in E. apply list_eqb_spec in E. rewrite E. reflexivity.
Qed.

Section Convert.
Variable dbg : bool.
Variable hp hpo : list N -> result host.
Variable hd : host -> list N.

(* FromStr / TryFrom<&str> = Url::parse; serde: Serialize writes as_str(), Deserialize parses the string;
   the String the code parses is the serialization itself: reparse of C02_Reach.v *)
Definition url_from_str (s : list N) : pres url := parse_url dbg hp hpo hd None None s.
Definition serde_serialize (u : url) : list N := ser u.
Definition serde_deserialize (bytes_ : list N) : pres url := url_from_str (utf8_lossy bytes_).

(* Eq by serialization is equality of RECORDS for fixpoints of re-parsing (C02) - for arbitrary wf_b records
   it is not: offsets are not determined by the text alone *)
Theorem eq_records u v : Fixpoint_of_reparse dbg hp hpo hd u -> Fixpoint_of_reparse dbg hp hpo hd v ->
  url_eq u v = true -> u = v.
Proof.
  unfold Fixpoint_of_reparse, reparse. intros Hu Hv E. apply list_eqb_spec in E. rewrite E in Hu. rewrite Hu in Hv.
  inversion Hv. reflexivity.
Qed.

Theorem string_round_trips u : Fixpoint_of_reparse dbg hp hpo hd u ->
  url_from_str (utf8_lossy (url_display u)) = POk u
  /\ serde_deserialize (serde_serialize u) = POk u.
Proof. intros H. split; exact H. Qed.

(* serialize_internal / deserialize_internal (lib.rs:2607-2684): the ten fields as a tuple and back; in debug
   builds deserialize_internal runs check_invariants, which re-parses the serialization and compares *)
Definition url_tuple : Type := (list N * N * N * N * N * host_internal * option N * N * option N * option N)%type.
Definition serialize_internal (u : url) : url_tuple :=
  (ser u, scheme_end u, username_end u, host_start u, host_end u, hosti u, port u, path_start u, query_start u, fragment_start u).
Definition deserialize_internal (t : url_tuple) : option url :=
  let '(s, se, ue, hs, he, hi, pt, ps, qs, fs) := t in
  let u := mkUrl s se ue hs he hi pt ps qs fs in
  if dbg then
    match reparse dbg hp hpo hd u with
    | POk v => if wf_b u && url_eqb v u then Some u else None
    | _ => None
    end
  else Some u.

Lemma url_eqb_refl03 u : url_eqb u u = true.
Proof.
  unfold url_eqb. rewrite !N.eqb_refl.
  assert (forall o, opt_eqb o o = true) as Ho by (intros [x|]; [apply N.eqb_refl | reflexivity]).
  assert (hi_eqb (hosti u) (hosti u) = true) as Hh.
  { destruct (hosti u); cbn [hi_eqb]; try reflexivity; [apply N.eqb_refl | apply list_eqb_spec; reflexivity]. }
  rewrite !Ho, Hh. assert (list_eqb (ser u) (ser u) = true) as -> by (apply list_eqb_spec; reflexivity). reflexivity.
Qed.

Theorem internal_round_trip u : wf_b u = true -> Fixpoint_of_reparse dbg hp hpo hd u ->
  deserialize_internal (serialize_internal u) = Some u.
Proof.
  intros W F. unfold deserialize_internal, serialize_internal.
  assert (mkUrl (ser u) (scheme_end u) (username_end u) (host_start u) (host_end u) (hosti u) (port u) (path_start u)
                (query_start u) (fragment_start u) = u) as E by (destruct u; reflexivity).
  rewrite E. unfold Fixpoint_of_reparse in F. rewrite F, W, url_eqb_refl03. cbn [andb]. destruct dbg; reflexivity.
Qed.

(* release builds: no check at all - the tuple is taken as it is *)
Theorem internal_round_trip_release u : dbg = false -> deserialize_internal (serialize_internal u) = Some u.
Proof. intros H. unfold deserialize_internal, serialize_internal. rewrite H. destruct u; reflexivity. Qed.

End Convert.
