(* Proofs/C04_Cost.v - the step-counting twins of Model/Cost.v compute the original functions, and the
   linear bounds for percent-encoding, form-urlencoded, base64, and the fragment / query / opaque-path
   loops of the URL parser. *)
From RU Require Import Base.Prelude Base.Utf8 Base.Utf8Facts Base.Outcome_c15 Model.AsciiSet Gen.Tables
  Model.PercentEncoding Model.FormUrlencoded Model.Base64 Model.HostT Model.UrlRecord Model.Parser
  Model.Setters Model.Cost
  Proofs.ListN Proofs.C14_Set Proofs.C14_Enc Proofs.C14_Views Proofs.C15_Bser Proofs.C15_Parse.

Ltac nl := unfold nlen in *; cbn [length] in *; rewrite ?app_length in *; cbn [length] in *.

(* ---------------------------------------------------------------- percent decode *)
Lemma decode_c_spec_n n : forall bs, (length bs <= n)%nat ->
  fst (decode_c bs) = decode bs /\ snd (decode_c bs) <= 3 * nlen bs.
Proof.
  induction n as [|n IH]; intros bs Hn.
  - destruct bs; [cbn; split; [reflexivity|lia] | cbn [length] in Hn; lia].
  - destruct bs as [|b r]; [cbn; split; [reflexivity|lia]|].
    cbn [length] in Hn. cbn [decode_c decode].
    assert (forall x, fst (let (o, k) := decode_c r in (x :: o, k + 1)) = x :: decode r
                      /\ snd (let (o, k) := decode_c r in (x :: o, k + 1)) <= 3 * nlen (b :: r)) as Hplain.
    { intros x. destruct (IH r ltac:(lia)) as [H1 H2]. destruct (decode_c r) as [o k]. cbn [fst snd] in *.
      subst. split; [reflexivity|]. rewrite nlen_cons. lia. }
    destruct (b =? 37); [|apply Hplain].
    destruct r as [|h [|l r']]; try apply Hplain.
    destruct (after_percent h l) as [v|].
    + cbn [length] in Hn. destruct (IH r' ltac:(lia)) as [H1 H2]. destruct (decode_c r') as [o k].
      cbn [fst snd] in *. subst. split; [reflexivity|]. rewrite !nlen_cons. lia.
    + destruct (IH (h :: l :: r') ltac:(cbn [length] in *; lia)) as [H1 H2].
      destruct (decode_c (h :: l :: r')) as [o k]. cbn [fst snd] in *. subst. split; [reflexivity|].
      rewrite !nlen_cons in *. lia.
Qed.

Theorem decode_c_result bs : fst (decode_c bs) = decode bs.
Proof. exact (proj1 (decode_c_spec_n (length bs) bs (le_n _))). Qed.
Theorem decode_c_linear bs : snd (decode_c bs) <= 3 * nlen bs.
Proof. exact (proj2 (decode_c_spec_n (length bs) bs (le_n _))). Qed.

(* ---------------------------------------------------------------- percent encode *)
Lemma span_keep_c_spec S bs :
  fst (span_keep_c S bs) = span_keep S bs
  /\ snd (span_keep_c S bs) <= nlen (fst (span_keep S bs)) + 1
  /\ nlen (fst (span_keep S bs)) + nlen (snd (span_keep S bs)) = nlen bs.
Proof.
  induction bs as [|b r IH]; cbn [span_keep_c span_keep].
  - cbn. repeat split; lia.
  - destruct (should_encode S b).
    + cbn [fst snd]. repeat split; nl; lia.
    + destruct IH as (H1 & H2 & H3). destruct (span_keep_c S r) as [[u rest] n].
      cbn [fst snd] in H1. rewrite <- H1 in *. cbn [fst snd] in *. repeat split; rewrite ?nlen_cons; lia.
Qed.

Lemma enc_byte_len b : nlen (enc_byte b) <= 3.
Proof.
  unfold enc_byte. replace T_ENC_WIDTH with 3 by reflexivity. unfold nlen. rewrite firstn_length. lia.
Qed.

(* one call: result, and cost + chunk length against the bytes consumed *)
Lemma pe_next_c_spec S bs :
  fst (pe_next_c S bs) = pe_next S bs
  /\ match pe_next S bs with
     | None => snd (pe_next_c S bs) = 1 /\ bs = []
     | Some (c, rest) => (length rest < length bs)%nat
                         /\ snd (pe_next_c S bs) + nlen c <= 5 * (nlen bs - nlen rest)
     end.
Proof.
  destruct bs as [|first remaining]; cbn [pe_next_c pe_next]; [cbn; auto|].
  destruct (should_encode S first).
  - cbn [fst snd]. split; [reflexivity|]. split; [cbn [length]; lia|].
    pose proof (enc_byte_len first). rewrite nlen_cons. lia.
  - destruct (span_keep_c_spec S remaining) as (H1 & H2 & H3).
    destruct (span_keep_c S remaining) as [[u rest] n]. cbn [fst snd] in H1. rewrite <- H1 in *.
    cbn [fst snd] in *. split; [reflexivity|]. split.
    + nl. lia.
    + rewrite !nlen_cons. lia.
Qed.

Lemma pe_chunks_cf_spec S : forall fuel bs, (length bs <= fuel)%nat ->
  fst (pe_chunks_cf fuel S bs) = pe_chunks_f fuel S bs
  /\ snd (pe_chunks_cf fuel S bs) <= 5 * nlen bs + 1.
Proof.
  induction fuel as [|f IH]; intros bs Hf.
  - destruct bs; [|cbn [length] in Hf; lia]. cbn. split; [reflexivity|lia].
  - cbn [pe_chunks_cf pe_chunks_f]. destruct (pe_next_c_spec S bs) as [H1 H2].
    destruct (pe_next_c S bs) as [r n]. cbn [fst snd] in *. subst r.
    destruct (pe_next S bs) as [[c rest]|].
    + destruct H2 as [Hl Hc]. destruct (IH rest ltac:(lia)) as [G1 G2].
      destruct (pe_chunks_cf f S rest) as [cs m]. cbn [fst snd] in *. subst cs. split; [reflexivity|].
      assert (nlen rest <= nlen bs) by (unfold nlen; lia). lia.
    + destruct H2 as [-> ->]. cbn [fst snd]. split; [reflexivity|]. cbn. lia.
Qed.

Theorem pe_chunks_c_result S bs : fst (pe_chunks_c S bs) = pe_chunks S bs.
Proof. exact (proj1 (pe_chunks_cf_spec S (length bs) bs (le_n _))). Qed.
Theorem pe_chunks_c_linear S bs : snd (pe_chunks_c S bs) <= 5 * nlen bs + 1.
Proof. exact (proj2 (pe_chunks_cf_spec S (length bs) bs (le_n _))). Qed.

(* ---------------------------------------------------------------- byte_serialize *)
Lemma bser_next_len bs c rest : bser_next bs = Some (c, rest) ->
  (length rest < length bs)%nat /\ nlen c <= 3 * (nlen bs - nlen rest).
Proof.
  destruct bs as [|b r]; cbn [bser_next]; [discriminate|].
  destruct (byte_serialized_unchanged b); cbn [negb].
  - destruct (FormUrlencoded.position (fun b0 => negb (byte_serialized_unchanged b0)) r) as [i|] eqn:Ep.
    + intros H. inversion H; subst. clear H. apply position_lt in Ep.
      cbn [plus firstn skipn]. unfold nlen. cbn [length]. rewrite firstn_length, skipn_length. lia.
    + intros H. inversion H; subst. unfold nlen. cbn [length]. lia.
  - intros H. inversion H; subst. clear H. split; [cbn [length]; lia|].
    rewrite nlen_cons. destruct (b =? T_FORM_SPACE).
    + replace T_FORM_SPACE_OUT with [43] by reflexivity. unfold nlen at 1. cbn [length]. lia.
    + pose proof (enc_byte_len b). lia.
Qed.

Lemma bser_chunks_cf_spec : forall fuel bs, (length bs < fuel)%nat ->
  fst (bser_chunks_cf fuel bs) = bser_chunks_f fuel bs
  /\ snd (bser_chunks_cf fuel bs) <= 5 * nlen bs + 1.
Proof.
  induction fuel as [|f IH]; intros bs Hf; [lia|].
  cbn [bser_chunks_cf bser_chunks_f]. destruct (bser_next bs) as [[c rest]|] eqn:En.
  - destruct (bser_next_len bs c rest En) as [Hl Hc]. destruct (IH rest ltac:(lia)) as [G1 G2].
    destruct (bser_chunks_cf f rest) as [o m]. cbn [fst snd] in *. subst o. split; [reflexivity|].
    assert (nlen rest < nlen bs) by (unfold nlen; lia). lia.
  - cbn [fst snd]. split; [reflexivity|lia].
Qed.

Theorem bser_chunks_c_result bs : fst (bser_chunks_c bs) = bser_chunks bs.
Proof. exact (proj1 (bser_chunks_cf_spec (S (length bs)) bs (Nat.lt_succ_diag_r _))). Qed.
Theorem bser_chunks_c_linear bs : snd (bser_chunks_c bs) <= 5 * nlen bs + 1.
Proof. exact (proj2 (bser_chunks_cf_spec (S (length bs)) bs (Nat.lt_succ_diag_r _))). Qed.

(* ---------------------------------------------------------------- form_urlencoded::Parse::next *)
Definition pnext_rest (r : pnext) : list N := match r with PSome _ _ rest => rest | _ => [] end.

Lemma parse_next_cf_spec : forall fuel input, (length input < fuel)%nat ->
  fst (parse_next_cf fuel input) = parse_next_f fuel input
  /\ nlen (pnext_rest (parse_next_f fuel input)) <= nlen input
  /\ snd (parse_next_cf fuel input) <= 5 * (nlen input - nlen (pnext_rest (parse_next_f fuel input))) + 2.
Proof.
  induction fuel as [|f IH]; intros input Hf; [lia|].
  cbn [parse_next_cf parse_next_f]. destruct (is_empty input) eqn:Ei.
  - cbn [fst snd pnext_rest]. repeat split; unfold nlen; cbn [length]; lia.
  - destruct (splitn2 T_FORM_PAIR_SEP input) as [sequence second] eqn:Es.
    pose proof (splitn2_length _ _ _ _ Es) as [Hs Ht].
    assert (nlen sequence + nlen (unwrap_or_empty second) <= nlen input /\
            (is_empty sequence = true -> (length (unwrap_or_empty second) < length input)%nat)) as [Hsum Hemp].
    { clear -Es Ei. revert sequence second Es Ei. induction input as [|b r IHr]; intros sequence second Es Ei; [discriminate|].
      cbn [splitn2] in Es. destruct (b =? T_FORM_PAIR_SEP).
      - inversion Es; subst. cbn [unwrap_or_empty]. split; [nl; lia|]. intros _. cbn [length]. lia.
      - destruct (splitn2 T_FORM_PAIR_SEP r) as [h t] eqn:E. inversion Es; subst. split; [|discriminate].
        destruct r as [|b' r'].
        + cbn [splitn2] in E. inversion E; subst. cbn. lia.
        + destruct (IHr h second eq_refl eq_refl) as [G _]. rewrite !nlen_cons in *. lia. }
    destruct (is_empty sequence) eqn:Eq.
    + destruct (IH (unwrap_or_empty second) ltac:(specialize (Hemp eq_refl); lia)) as (G1 & G2 & G3).
      destruct (parse_next_cf f (unwrap_or_empty second)) as [r n]. cbn [fst snd] in *. subst r.
      split; [reflexivity|]. specialize (Hemp eq_refl).
      assert (nlen (unwrap_or_empty second) < nlen input) by (unfold nlen; lia). split; lia.
    + destruct (splitn2 T_FORM_KV_SEP sequence) as [name value]. cbn [fst snd pnext_rest].
      split; [reflexivity|]. split; lia.
Qed.

Theorem parse_next_c_result input : fst (parse_next_c input) = parse_next input.
Proof. exact (proj1 (parse_next_cf_spec (S (length input)) input (Nat.lt_succ_diag_r _))). Qed.
(* the cost of one call is linear in the bytes it CONSUMES: the calls of a whole iteration add up to
   at most 5 * length + 2 * (number of calls) <= 7 * length + 2 *)
Theorem parse_next_c_linear input :
  snd (parse_next_c input) <= 5 * (nlen input - nlen (pnext_rest (parse_next input))) + 2.
Proof. exact (proj2 (proj2 (parse_next_cf_spec (S (length input)) input (Nat.lt_succ_diag_r _)))). Qed.

(* ---------------------------------------------------------------- base64 feed *)
Section B64.
  Context {W E : Type}.
  Variable write : W -> list N -> W * option E.
  Lemma feed_c_spec input : forall d,
    fst (feed_c write d input) = feed write d input /\ snd (feed_c write d input) <= nlen input.
  Proof.
    induction input as [|b r IH]; intros d; cbn [feed_c feed].
    - cbn. split; [reflexivity|lia].
    - destruct (feed_byte write d b) as [d' [e|]].
      + cbn [fst snd]. split; [reflexivity|]. rewrite nlen_cons. lia.
      + destruct (IH d') as [H1 H2]. destruct (feed_c write d' r) as [x n]. cbn [fst snd] in *.
        split; [exact H1|]. rewrite nlen_cons. lia.
  Qed.
End B64.

(* ---------------------------------------------------------------- lengths of what a flush appends *)
Lemma utf8_encode1_len c : nlen (utf8_encode1 c) <= 4.
Proof. unfold utf8_encode1. destruct (c <? 128); [|destruct (c <? 2048); [|destruct (c <? 65536)]]; cbn; lia. Qed.

Lemma utf8_encode_len s : nlen (utf8_encode s) <= 4 * nlen s.
Proof.
  induction s as [|c s IH]; [cbn; lia|]. unfold utf8_encode in *. cbn [flat_map].
  rewrite nlen_app, nlen_cons. pose proof (utf8_encode1_len c). lia.
Qed.

Lemma encode_len S bs : nlen (encode S bs) <= 3 * nlen bs.
Proof.
  induction bs as [|b r IH]; [cbn; lia|]. unfold encode in *. cbn [flat_map]. rewrite nlen_app, nlen_cons.
  destruct (should_encode S b); [change (nlen (enc_byte_spec b)) with 3 | change (nlen [b]) with 1]; lia.
Qed.

Lemma pe_display_len S bs : bytes bs -> nlen (pe_display S bs) <= 3 * nlen bs.
Proof. intros H. rewrite pe_display_is_encode by exact H. apply encode_len. Qed.

(* an encoder from code points to bytes that at most quadruples the length (utf8_encode does) *)
Definition enc_ok (enc : list N -> list N) : Prop :=
  forall x, usv_list x -> bytes (enc x) /\ nlen (enc x) <= 4 * nlen x.

Lemma utf8_enc_ok : enc_ok utf8_encode.
Proof. intros x H. split; [apply utf8_encode_bytes; exact H | apply utf8_encode_len]. Qed.

Lemma usv_rev l : usv_list l -> usv_list (rev l).
Proof. unfold usv_list. intros H. apply Forall_forall. intros x Hx. rewrite Forall_forall in H. apply H. apply in_rev. exact Hx. Qed.

Lemma flush_part_len set enc ser part : enc_ok enc -> usv_list part ->
  nlen ser <= nlen (flush_part set enc ser part) /\ nlen (flush_part set enc ser part) <= nlen ser + 12 * nlen part.
Proof.
  intros He Hp. unfold flush_part. rewrite nlen_app. destruct (He (rev part) (usv_rev _ Hp)) as [Hb Hl].
  pose proof (pe_display_len set _ Hb). assert (nlen (rev part) = nlen part) by (unfold nlen; rewrite rev_length; reflexivity).
  lia.
Qed.

(* ---------------------------------------------------------------- fragment *)
Lemma parse_fragment_loop_c_spec l : forall ser part, usv_list l -> usv_list part ->
  fst (parse_fragment_loop_c ser part l) = parse_fragment_loop ser part l
  /\ nlen ser <= nlen (parse_fragment_loop ser part l)
  /\ nlen (parse_fragment_loop ser part l) <= nlen ser + 12 * (nlen part + nlen l)
  /\ snd (parse_fragment_loop_c ser part l) + nlen ser = 1 + nlen l + nlen (parse_fragment_loop ser part l).
Proof.
  induction l as [|c r IH]; intros ser part Hl Hp; cbn [parse_fragment_loop_c parse_fragment_loop].
  - destruct part as [|p0 pr].
    + cbn [fst snd]. unfold flush_cost. repeat split; nl; lia.
    + destruct (flush_part_len T_FRAGMENT utf8_encode ser (p0 :: pr) utf8_enc_ok Hp) as [F1 F2].
      cbn [fst snd]. unfold flush_cost. repeat split; try lia; try (nl; lia).
  - inversion Hl as [|? ? Hc Hr]; subst. destruct (is_tnl c).
    + destruct (flush_part_len T_FRAGMENT utf8_encode ser part utf8_enc_ok Hp) as [F1 F2].
      destruct (IH (flush_part T_FRAGMENT utf8_encode ser part) [] Hr (Forall_nil _)) as (G1 & G2 & G3 & G4).
      destruct (parse_fragment_loop_c (flush_part T_FRAGMENT utf8_encode ser part) [] r) as [o n].
      cbn [fst snd] in *. unfold flush_cost. rewrite nlen_cons. repeat split; try assumption; try lia.
      change (nlen []) with 0 in G3. lia.
    + destruct (IH ser (c :: part) Hr (Forall_cons _ Hc Hp)) as (G1 & G2 & G3 & G4).
      destruct (parse_fragment_loop_c ser (c :: part) r) as [o n]. cbn [fst snd] in *.
      rewrite !nlen_cons in *. repeat split; try assumption; lia.
Qed.

Theorem parse_fragment_c_linear ser l : usv_list l ->
  fst (parse_fragment_loop_c ser [] l) = parse_fragment ser l
  /\ snd (parse_fragment_loop_c ser [] l) <= 13 * nlen l + 1.
Proof.
  intros Hl. destruct (parse_fragment_loop_c_spec l ser [] Hl (Forall_nil _)) as (G1 & G2 & G3 & G4).
  split; [exact G1|]. change (nlen []) with 0 in G3. lia.
Qed.

(* ---------------------------------------------------------------- query *)
Lemma parse_query_loop_c_spec set enc iup l : enc_ok enc -> forall ser part, usv_list l -> usv_list part ->
  fst (parse_query_loop_c set enc iup ser part l) = parse_query_loop set enc iup ser part l
  /\ nlen ser <= nlen (fst (parse_query_loop set enc iup ser part l))
  /\ nlen (fst (parse_query_loop set enc iup ser part l)) <= nlen ser + 12 * (nlen part + nlen l)
  /\ snd (parse_query_loop_c set enc iup ser part l) + nlen ser
     <= 1 + nlen l + nlen (fst (parse_query_loop set enc iup ser part l)).
Proof.
  intros He. induction l as [|c r IH]; intros ser part Hl Hp; cbn [parse_query_loop_c parse_query_loop].
  - destruct part as [|p0 pr].
    + cbn [fst snd]. unfold flush_cost. repeat split; nl; lia.
    + destruct (flush_part_len set enc ser (p0 :: pr) He Hp) as [F1 F2].
      cbn [fst snd]. unfold flush_cost. repeat split; try lia; try (nl; lia).
  - inversion Hl as [|? ? Hc Hr]; subst. destruct (is_tnl c).
    + destruct (flush_part_len set enc ser part He Hp) as [F1 F2].
      destruct (IH (flush_part set enc ser part) [] Hr (Forall_nil _)) as (G1 & G2 & G3 & G4).
      destruct (parse_query_loop_c set enc iup (flush_part set enc ser part) [] r) as [o n].
      cbn [fst snd] in *. unfold flush_cost. rewrite nlen_cons. repeat split; try assumption; try lia.
      change (nlen []) with 0 in G3. lia.
    + destruct ((c =? 35) && iup).
      * destruct (flush_part_len set enc ser part He Hp) as [F1 F2].
        cbn [fst snd]. unfold flush_cost. rewrite nlen_cons. repeat split; lia.
      * destruct (IH ser (c :: part) Hr (Forall_cons _ Hc Hp)) as (G1 & G2 & G3 & G4).
        destruct (parse_query_loop_c set enc iup ser (c :: part) r) as [o n]. cbn [fst snd] in *.
        rewrite !nlen_cons in *. repeat split; try assumption; lia.
Qed.

Theorem parse_query_c_linear set enc iup ser l : enc_ok enc -> usv_list l ->
  fst (parse_query_loop_c set enc iup ser [] l) = parse_query_loop set enc iup ser [] l
  /\ snd (parse_query_loop_c set enc iup ser [] l) <= 13 * nlen l + 1.
Proof.
  intros He Hl. destruct (parse_query_loop_c_spec set enc iup l He ser [] Hl (Forall_nil _)) as (G1 & G2 & G3 & G4).
  split; [exact G1|]. change (nlen []) with 0 in G3. lia.
Qed.

(* ---------------------------------------------------------------- opaque path *)
Lemma push_encoded_len set ser t : usv_list t ->
  nlen ser <= nlen (push_encoded set ser t) /\ nlen (push_encoded set ser t) <= nlen ser + 12 * nlen t.
Proof.
  intros Ht. unfold push_encoded. rewrite nlen_app. pose proof (pe_display_len set _ (utf8_encode_bytes t Ht)).
  pose proof (utf8_encode_len t). lia.
Qed.

Lemma parse_cbb_c_spec ctx l : forall ser, usv_list l ->
  fst (parse_cannot_be_a_base_path_c ctx ser l) = parse_cannot_be_a_base_path ctx ser l
  /\ nlen ser <= nlen (fst (parse_cannot_be_a_base_path ctx ser l))
  /\ nlen (fst (parse_cannot_be_a_base_path ctx ser l)) <= nlen ser + 12 * nlen l
  /\ snd (parse_cannot_be_a_base_path_c ctx ser l) + nlen ser
     <= 1 + nlen l + nlen (fst (parse_cannot_be_a_base_path ctx ser l)).
Proof.
  induction l as [|c r IH]; intros ser Hl; cbn [parse_cannot_be_a_base_path_c parse_cannot_be_a_base_path].
  - cbn [fst snd]. repeat split; nl; lia.
  - inversion Hl as [|? ? Hc Hr]; subst. rewrite nlen_cons. destruct (is_tnl c).
    + destruct (IH ser Hr) as (G1 & G2 & G3 & G4).
      destruct (parse_cannot_be_a_base_path_c ctx ser r) as [o n]. cbn [fst snd] in *. repeat split; try assumption; lia.
    + destruct (((c =? 63) || (c =? 35)) && ctx_eqb ctx CUrlParser).
      * cbn [fst snd]. repeat split; lia.
      * destruct (push_encoded_len T_CONTROLS ser [c] (Forall_cons _ Hc (Forall_nil _))) as [F1 F2].
        change (nlen [c]) with 1 in F2.
        destruct (IH (push_encoded T_CONTROLS ser [c]) Hr) as (G1 & G2 & G3 & G4).
        destruct (parse_cannot_be_a_base_path_c ctx (push_encoded T_CONTROLS ser [c]) r) as [o n].
        cbn [fst snd] in *. unfold flush_cost. repeat split; try assumption; lia.
Qed.

Theorem parse_cbb_c_linear ctx ser l : usv_list l ->
  fst (parse_cannot_be_a_base_path_c ctx ser l) = parse_cannot_be_a_base_path ctx ser l
  /\ snd (parse_cannot_be_a_base_path_c ctx ser l) <= 13 * nlen l + 1.
Proof. intros Hl. destruct (parse_cbb_c_spec ctx l ser Hl) as (G1 & G2 & G3 & G4). split; [exact G1|lia]. Qed.

(* ---------------------------------------------------------------- path: the twin computes parse_path_loop *)
Lemma parse_path_loop_c_result dbg ctx st ps l : forall ser seg_start pend hh,
  fst (parse_path_loop_c dbg ctx st ps l ser seg_start pend hh) = parse_path_loop dbg ctx st ps l ser seg_start pend hh.
Proof.
  induction l as [|c r IH]; intros ser seg_start pend hh; cbn [parse_path_loop_c parse_path_loop].
  - destruct (finish_segment dbg st ps (push_pending ctx st ser pend) seg_start false hh) as [[s2 h2]| |]; reflexivity.
  - destruct (is_tnl c).
    + specialize (IH (push_pending ctx st ser pend) seg_start [] hh).
      destruct (parse_path_loop_c dbg ctx st ps r (push_pending ctx st ser pend) seg_start [] hh). exact IH.
    + destruct (negb (ctx_eqb ctx CPathSegmentSetter) && ((c =? 47) || (c =? 92) && st_is_special st)).
      * destruct (finish_segment dbg st ps (push_pending ctx st ser pend ++ [47]) seg_start true hh) as [[s2 h2]| |];
          cbn [pbind]; try reflexivity.
        specialize (IH s2 (nlen s2) [] h2). destruct (parse_path_loop_c dbg ctx st ps r s2 (nlen s2) [] h2). exact IH.
      * destruct (((c =? 63) || (c =? 35)) && ctx_eqb ctx CUrlParser).
        -- destruct (finish_segment dbg st ps (push_pending ctx st ser pend) seg_start false hh) as [[s2 h2]| |]; reflexivity.
        -- destruct (st_is_file st && (ps <? nlen ser) && is_normalized_wdl (nskipn (ps + 1) ser)).
           ++ specialize (IH (push_pending ctx st ser pend ++ [47]) (seg_start + 1) [c] hh).
              destruct (parse_path_loop_c dbg ctx st ps r (push_pending ctx st ser pend ++ [47]) (seg_start + 1) [c] hh). exact IH.
           ++ specialize (IH ser seg_start (c :: pend) hh).
              destruct (parse_path_loop_c dbg ctx st ps r ser seg_start (c :: pend) hh). exact IH.
Qed.

Theorem parse_path_c_result dbg ctx st hh ps ser l :
  fst (parse_path_c dbg ctx st hh ps ser l) = parse_path dbg ctx st hh ps ser l.
Proof. apply parse_path_loop_c_result. Qed.

(* the skip test of extend() *)
Lemma dots_eq_c_spec k l :
  fst (dots_eq_c k l) = list_eqb (filter (fun c => negb (is_tnl c)) l) (repeat 46 k) /\ snd (dots_eq_c k l) <= nlen l.
Proof.
  revert k. induction l as [|c r IH]; intros k; cbn [dots_eq_c filter].
  - destruct k; cbn; split; try reflexivity; lia.
  - rewrite nlen_cons. destruct (is_tnl c); cbn [negb].
    + destruct (IH k) as [H1 H2]. destruct (dots_eq_c k r) as [b n]. cbn [fst snd] in *. split; [exact H1 | lia].
    + destruct k as [|k']; cbn [repeat list_eqb fst snd]; [split; [reflexivity | lia]|].
      destruct (c =? 46); cbn [andb fst snd]; [|split; [reflexivity | lia]].
      destruct (IH k') as [H1 H2]. destruct (dots_eq_c k' r) as [b n]. cbn [fst snd] in *. split; [exact H1 | lia].
Qed.

Lemma psm_skips_c_spec seg : fst (psm_skips_c seg) = psm_skips seg /\ snd (psm_skips_c seg) <= 2 * nlen seg.
Proof.
  unfold psm_skips_c, psm_skips. cbv zeta.
  destruct (dots_eq_c_spec 1 seg) as [A1 A2]. destruct (dots_eq_c_spec 2 seg) as [B1 B2].
  destruct (dots_eq_c 1 seg) as [b1 n1]. destruct (dots_eq_c 2 seg) as [b2 n2]. cbn [fst snd repeat] in *.
  rewrite <- A1, <- B1. destruct b1; cbn [fst snd orb]; split; try reflexivity; lia.
Qed.

Lemma psm_extend_loop_c_result dbg st ps segs : forall s,
  fst (psm_extend_loop_c dbg st ps s segs) = psm_extend_loop dbg st ps s segs.
Proof.
  induction segs as [|seg rest IH]; intros s; cbn [psm_extend_loop_c psm_extend_loop]; [reflexivity|].
  destruct (psm_skips_c_spec seg) as [Hk _]. destruct (psm_skips_c seg) as [skip k]. cbn [fst] in Hk. rewrite <- Hk.
  destruct skip.
  - specialize (IH s). destruct (psm_extend_loop_c dbg st ps s rest). exact IH.
  - set (s1 := if (ps + 1 <? nlen s) || (nlen s =? ps) then s ++ [47] else s).
    pose proof (parse_path_c_result dbg CPathSegmentSetter st true ps s1 seg) as Hp.
    destruct (parse_path_c dbg CPathSegmentSetter st true ps s1 seg) as [o c]. cbn [fst] in Hp. rewrite <- Hp.
    destruct o as [[[s2 h2] r2]| |]; cbn [unpres bindo]; try reflexivity.
    specialize (IH s2). destruct (psm_extend_loop_c dbg st ps s2 rest). exact IH.
Qed.
