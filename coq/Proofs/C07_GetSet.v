(* Proofs/C07_GetSet.v - search and hash: what reads back after the assignment (from the C06 results
   for set_query / set_fragment): on every well-formed record the setters do not panic, keep the
   invariant, and the component is null for the empty value and otherwise the parser's encoding of the
   value without its single leading marker. *)
From RU Require Import Base.Prelude Base.Utf8 Model.AsciiSet Gen.Tables Model.PercentEncoding
  Model.HostT Model.UrlRecord Model.Parser Model.Setters Model.WF
  Proofs.C06_FragQuery Proofs.C07_Setters.

Lemma setter_arg_usv mark v : usv_list v ->
  match setter_arg mark v with Some x => usv_list x | None => True end.
Proof.
  intros H. destruct v as [|c r]; [exact I|]. cbn [setter_arg].
  destruct (c =? mark); [inversion H; assumption|exact H].
Qed.

Theorem search_hash_get_after_set : forall dbg u v, wf_b u = true -> usv_list v ->
  (exists u', q_set_search dbg u v = Some u' /\ wf_b u' = true
     /\ query dbg u' = Some (match setter_arg 63 v with Some x => Some (query_text u x) | None => None end)
     /\ fragment dbg u' = fragment dbg u)
  /\ (exists u', q_set_hash dbg u v = Some u' /\ wf_b u' = true
     /\ fragment dbg u' = Some (match setter_arg 35 v with Some x => Some (tnl_text T_FRAGMENT x) | None => None end)
     /\ query dbg u' = query dbg u).
Proof.
  intros dbg u v W Hv. split.
  - rewrite q_set_search_arg.
    destruct (set_query_ok dbg u (setter_arg 63 v) W (setter_arg_usv 63 v Hv))
      as (u' & Hs & W' & _ & _ & Hf & Hq & _).
    exists u'. auto.
  - rewrite q_set_hash_arg.
    destruct (set_fragment_ok dbg u (setter_arg 35 v) W) as (u' & Hs & W' & _ & _ & Hq & Hf & _).
    exists u'. auto.
Qed.
