(* Proofs/C06_FragQuery.v - set_fragment and set_query on a well-formed record: no panic, the
   invariant is kept, every other component reads back unchanged, the component reads back as the
   parser's encoding of the argument. *)
From RU Require Import Base.Prelude Base.Utf8 Base.Utf8Facts Model.AsciiSet Gen.Tables Model.PercentEncoding
  Model.HostT Model.UrlRecord Model.Parser Model.Setters Model.WF
  Proofs.C14_Set Proofs.C14_Enc Proofs.C14_Views
  Proofs.ListN Proofs.C03_WF Proofs.C06_List Proofs.C06_WFI Proofs.C06_Tail Proofs.C06_Steps.

Ltac splits := repeat match goal with |- _ /\ _ => split end.
Ltac fin := try assumption; try reflexivity; try apply same_front_refl; try apply same_main_refl.

(* ---------- the tab/newline-splitting encoder shared by parse_fragment and parse_query ---------- *)
Fixpoint tnl_loop (set : aset) (ser part_rev l : list N) : list N :=
  match l with
  | [] => match part_rev with [] => ser | _ => flush_part set utf8_encode ser part_rev end
  | c :: r => if is_tnl c then tnl_loop set (flush_part set utf8_encode ser part_rev) [] r
              else tnl_loop set ser (c :: part_rev) r
  end.
(* the text a setter stores for an argument: what the parser state writes for it *)
Definition tnl_text (set : aset) (l : list N) : list N := tnl_loop set [] [] l.

Lemma parse_fragment_loop_tnl l : forall ser part, parse_fragment_loop ser part l = tnl_loop T_FRAGMENT ser part l.
Proof. induction l as [|c r IH]; intros ser part; cbn [parse_fragment_loop tnl_loop]; [reflexivity|]. rewrite !IH. reflexivity. Qed.

Lemma parse_query_loop_tnl set l : forall ser part,
  parse_query_loop set utf8_encode false ser part l = (tnl_loop set ser part l, None).
Proof.
  induction l as [|c r IH]; intros ser part; cbn [parse_query_loop tnl_loop]; [reflexivity|].
  rewrite andb_false_r. rewrite !IH. destruct (is_tnl c); reflexivity.
Qed.

Lemma flush_part_app set ser part : flush_part set utf8_encode ser part = ser ++ flush_part set utf8_encode [] part.
Proof. reflexivity. Qed.

Lemma tnl_loop_app set l : forall ser part, tnl_loop set ser part l = ser ++ tnl_loop set [] part l.
Proof.
  induction l as [|c r IH]; intros ser part; cbn [tnl_loop].
  - destruct part; [rewrite app_nil_r; reflexivity | apply flush_part_app].
  - destruct (is_tnl c).
    + rewrite IH. rewrite (IH (flush_part set utf8_encode [] part)). rewrite flush_part_app. apply app_assoc_reverse.
    + apply IH.
Qed.

Lemma parse_fragment_text ser l : parse_fragment ser l = ser ++ tnl_text T_FRAGMENT l.
Proof. unfold parse_fragment, tnl_text. rewrite parse_fragment_loop_tnl. apply tnl_loop_app. Qed.

Lemma parse_query_text st se ser l :
  parse_query None CSetter st se ser l = (ser ++ tnl_text (query_set st) l, None).
Proof.
  unfold parse_query, tnl_text, query_enc. cbn [ctx_eqb]. rewrite parse_query_loop_tnl. rewrite tnl_loop_app. reflexivity.
Qed.

(* closed form: the encoding of the argument with tab / LF / CR removed *)
Definition not_tnl (c : N) : bool := negb (is_tnl c).

Lemma usv_list_app a b : usv_list (a ++ b) <-> usv_list a /\ usv_list b.
Proof. unfold usv_list. apply Forall_app. Qed.

Lemma pe_display_nil set : pe_display set [] = [].
Proof. reflexivity. Qed.

Lemma tnl_loop_spec set l : forall part, usv_list (rev part ++ l) ->
  tnl_loop set [] part l = encode set (utf8_encode (rev part ++ filter not_tnl l)).
Proof.
  induction l as [|c r IH]; intros part H; cbn [tnl_loop filter].
  - rewrite app_nil_r in *. destruct part as [|x p].
    + reflexivity.
    + unfold flush_part. cbn [app]. apply pe_display_is_encode. apply utf8_encode_bytes. exact H.
  - apply usv_list_app in H. destruct H as [H1 H2]. inversion H2 as [|? ? Hc Hr]; subst.
    unfold not_tnl at 1. destruct (is_tnl c); cbn [negb].
    + rewrite tnl_loop_app. rewrite (IH []) by exact Hr. cbn [rev app].
      unfold flush_part. cbn [app]. rewrite pe_display_is_encode by (apply utf8_encode_bytes; exact H1).
      rewrite utf8_encode_app, encode_app. reflexivity.
    + rewrite (IH (c :: part)).
      * cbn [rev]. rewrite <- app_assoc. reflexivity.
      * cbn [rev]. rewrite <- app_assoc. apply usv_list_app. split; [exact H1|]. constructor; assumption.
Qed.

Theorem tnl_text_spec set l : usv_list l -> tnl_text set l = encode set (utf8_encode (filter not_tnl l)).
Proof. intros H. unfold tnl_text. rewrite (tnl_loop_spec set l []) by exact H. reflexivity. Qed.

(* a byte the set encodes (other than '%' and the hex digits) never occurs in an encoding *)
Lemma hex_upper_not35_sweep : all_below 16 (fun d => negb (hex_upper d =? 35)) = true.
Proof. vm_compute. reflexivity. Qed.

Lemma encode_no_hash set bs : bytes bs -> should_encode set 35 = true -> forallb no_h (encode set bs) = true.
Proof.
  intros Hb Hs. induction bs as [|b r IH]; [reflexivity|].
  inversion Hb as [|? ? Hb1 Hr]; subst. rewrite encode_cons. apply forallb_app_iff. split; [|apply IH; exact Hr].
  unfold enc1. destruct (should_encode set b) eqn:E.
  - unfold enc_byte_spec. cbn [forallb]. unfold is_byte in Hb1.
    assert (forall d, d < 16 -> no_h (hex_upper d) = true) as Hh.
    { intros d Hd. unfold no_h. apply (all_below_spec 16 _ hex_upper_not35_sweep d Hd). }
    rewrite !Hh by lia. reflexivity.
  - cbn [forallb]. unfold no_h. destruct (b =? 35) eqn:E35; [|reflexivity].
    apply N.eqb_eq in E35. subst b. congruence.
Qed.

Lemma query_sets_encode_hash st : should_encode (query_set st) 35 = true.
Proof. unfold query_set. destruct (st_is_special st); vm_compute; reflexivity. Qed.

Lemma query_text_no_hash st l : usv_list l -> forallb no_h (tnl_text (query_set st) l) = true.
Proof.
  intros H. rewrite tnl_text_spec by exact H. apply encode_no_hash; [|apply query_sets_encode_hash].
  apply utf8_encode_bytes. unfold usv_list in *. rewrite Forall_forall in *. intros x Hx. apply H.
  apply filter_In in Hx. tauto.
Qed.

(* trimming keeps a USV list a USV list *)
Lemma drop_while_usv f l : usv_list l -> usv_list (drop_while f l).
Proof.
  unfold usv_list. induction l as [|c r IH]; intros H; [constructor|]. cbn [drop_while].
  destruct (f c); [|exact H]. apply IH. inversion H; assumption.
Qed.
Lemma trim_matches_usv f l : usv_list l -> usv_list (trim_matches f l).
Proof.
  intros H. unfold trim_matches, usv_list. apply Forall_rev. apply drop_while_usv. apply Forall_rev.
  apply drop_while_usv. exact H.
Qed.

(* ---------- evaluation helpers ---------- *)
Lemma dbg_byte_is_ok dbg u i b : byte_eqb (ser u) i b = true -> dbg_byte_is dbg u i b = Some tt.
Proof. intros H. unfold dbg_byte_is. rewrite (byte_is_of_eqb _ _ _ H). destruct dbg; reflexivity. Qed.

Lemma u_scheme_type_eval u : wf_b u = true -> u_scheme_type u = Some (scheme_type_of (nfirstn (scheme_end u) (ser u))).
Proof.
  intros W. unfold u_scheme_type. rewrite (scheme_eval u W). cbn [bindo]. unfold piece. cbn [pidx].
  rewrite N.sub_0_r, nskipn_0. reflexivity.
Qed.

Definition is_opaque_b (u : url) : bool := negb (byte_eqb (ser u) (scheme_end u + 1) 47).

Definition has_some {A} (o : option A) : bool := match o with Some _ => true | None => false end.

(* strip_trailing_spaces_from_opaque_path on a record without fragment *)
Lemma strip_step_q dbg u u' : wf_b u = true -> fragment_start u = None ->
  strip_trailing_spaces_from_opaque_path u = Some u' ->
  wf_b u' = true /\ same_front dbg u u' /\ same_main u u' /\ query_start u' = query_start u /\ fragment_start u' = None
  /\ query dbg u' = query dbg u
  /\ (if is_opaque_b u && negb (has_some (query_start u))
      then exists p, path u = Some p /\ path u' = Some (rstrip (fun c => c =? 32) p)
      else u' = u).
Proof.
  intros W Ef H. destruct (query_start u) as [q|] eqn:Eq.
  - unfold strip_trailing_spaces_from_opaque_path in H.
    rewrite (cannot_be_a_base_eval u W) in H. cbn [bindo] in H. rewrite Ef, Eq in H.
    assert (u' = u) as -> by (destruct (negb (negb (byte_eqb (ser u) (scheme_end u + 1) 47))); congruence).
    cbn [has_some negb]. rewrite andb_false_r.
    splits; fin.
  - destruct (strip_step dbg u u' W Ef Eq H) as (W' & SF & SM & Eq' & Ef' & P).
    split; [exact W'|]. split; [exact SF|]. split; [exact SM|]. split; [exact Eq'|]. split; [exact Ef'|].
    split.
    + rewrite (query_eval dbg u' W'), (query_eval dbg u W), Eq', Eq. reflexivity.
    + unfold is_opaque_b. cbn [has_some negb]. rewrite andb_true_r.
      destruct (byte_eqb (ser u) (scheme_end u + 1) 47); cbn [negb]; exact P.
Qed.

Lemma strip_total u : wf_b u = true -> exists u', strip_trailing_spaces_from_opaque_path u = Some u'.
Proof.
  intros W. unfold strip_trailing_spaces_from_opaque_path. rewrite (cannot_be_a_base_eval u W). cbn [bindo].
  destruct (negb (negb (byte_eqb (ser u) (scheme_end u + 1) 47))); [eexists; reflexivity|].
  destruct (fragment_start u); [eexists; reflexivity|]. destruct (query_start u); eexists; reflexivity.
Qed.

(* take_fragment *)
Lemma take_fragment_eval dbg u : wf_b u = true ->
  take_fragment dbg u =
  Some (match fragment_start u with
        | Some f => (cut_fragment u f, Some (nskipn (f + 1) (ser u)))
        | None => (u, None)
        end).
Proof.
  intros W. unfold take_fragment. destruct (fragment_start u) as [f|] eqn:Ef; [|reflexivity].
  pose proof (qf_f (wf_qf_facts u W)) as F. rewrite Ef in F. destruct F as (F1 & F2 & F3).
  rewrite (dbg_byte_is_ok dbg u f 35 F2). cbn [bindo]. unfold u_slice_from. rewrite slice_from_o_some by lia.
  reflexivity.
Qed.

Lemma fragment_value dbg u f : wf_b u = true -> fragment_start u = Some f ->
  fragment dbg u = Some (Some (nskipn (f + 1) (ser u))).
Proof.
  intros W Ef. rewrite (fragment_eval dbg u W), Ef. do 2 f_equal. unfold piece. cbn [pidx]. rewrite Ef.
  apply nfirstn_all. rewrite nlen_nskipn. lia.
Qed.

Lemma byte47_trunc l a i c : i <= a -> nnth l a = Some c -> c <> 47 ->
  byte_eqb (nfirstn a l) i 47 = byte_eqb l i 47.
Proof.
  intros Hi Ha Hc. pose proof (nnth_lt _ _ _ Ha) as Hlt.
  destruct (N.lt_ge_cases i a) as [Hc1|Hc1].
  - apply (pre_byte_eqb a); [apply agree_pre_trunc | exact Hc1].
  - assert (i = a) as -> by lia.
    rewrite (byte_eqb_false_of l a 47) by congruence.
    apply byte_eqb_false_of. intros X. apply nnth_lt in X. rewrite nlen_nfirstn in X by lia. lia.
Qed.

(* ---------- set_fragment ---------- *)
Definition opaque_strip_applies (u : url) : bool := is_opaque_b u && negb (has_some (query_start u)).

Theorem set_fragment_ok dbg u frag : wf_b u = true ->
  exists u', set_fragment dbg u frag = Some u'
  /\ wf_b u' = true /\ same_front dbg u u' /\ same_main u u'
  /\ query dbg u' = query dbg u
  /\ fragment dbg u' = Some (match frag with Some x => Some (tnl_text T_FRAGMENT x) | None => None end)
  /\ (match frag with
      | Some _ => path u' = path u
      | None => if opaque_strip_applies u
                then exists p, path u = Some p /\ path u' = Some (rstrip (fun c => c =? 32) p)
                else path u' = path u
      end).
Proof.
  intros W. unfold set_fragment.
  (* first bring the record into the form "no fragment" *)
  assert (exists u1, wf_b u1 = true /\ fragment_start u1 = None /\ same_front dbg u u1 /\ same_main u u1
                     /\ path u1 = path u /\ query dbg u1 = query dbg u /\ query_start u1 = query_start u
                     /\ is_opaque_b u1 = is_opaque_b u
                     /\ (match fragment_start u with
                         | Some start => dbg_byte_is dbg u start 35 ;;; Some (truncate (ser u) start)
                         | None => Some (ser u)
                         end) = Some (ser u1)
                     /\ set_fragment_start (set_ser u (ser u1)) None = u1) as (u1 & W1 & Ef1 & SF1 & SM1 & P1 & Q1 & Qs1 & Op1 & E1 & R1).
  { destruct (fragment_start u) as [f|] eqn:Ef.
    - destruct (cut_fragment_step dbg u f W Ef) as (W1 & SF1 & SM1 & P1 & Q1 & Qs1 & Ef1 & Es1 & Hlt & Hb).
      exists (cut_fragment u f). splits; fin.
      + unfold is_opaque_b, cut_fragment, truncate. rec_simpl.
        pose proof (wf_se_lt_ps u W). pose proof (qf_f (wf_qf_facts u W)) as F. rewrite Ef in F.
        rewrite (byte47_trunc _ f _ 35) by (try lia; exact Hb). reflexivity.
      + rewrite (dbg_byte_is_ok dbg u f 35) by (apply byte_eqb_true_iff; exact Hb). reflexivity.
    - exists u. splits; fin. destruct u; cbn in *; subst; reflexivity. }
  rewrite E1. cbn [bindo]. destruct frag as [x|].
  - (* Some x : append the encoded text *)
    destruct (add_fragment_step dbg u1 (tnl_text T_FRAGMENT x) W1 Ef1) as (W2 & SF2 & SM2 & P2 & Q2 & Qs2 & F2).
    exists (add_fragment u1 (tnl_text T_FRAGMENT x)). split.
    + f_equal. rewrite parse_fragment_text. rewrite <- app_assoc. cbn [app].
      rewrite <- R1. unfold add_fragment. rec_simpl. destruct u; reflexivity.
    + split; [exact W2|]. split; [eapply same_front_trans; eassumption|]. split; [eapply same_main_trans; eassumption|].
      split; [congruence|]. split; [exact F2|]. congruence.
  - (* None : strip *)
    rewrite R1. destruct (strip_total u1 W1) as (u2 & E2). exists u2. split; [exact E2|].
    destruct (strip_step_q dbg u1 u2 W1 Ef1 E2) as (W2 & SF2 & SM2 & Qs2 & Ef2 & Q2 & P2).
    split; [exact W2|]. split; [eapply same_front_trans; eassumption|]. split; [eapply same_main_trans; eassumption|].
    split; [congruence|]. split; [rewrite (fragment_eval dbg u2 W2), Ef2; reflexivity|].
    unfold opaque_strip_applies. rewrite <- Op1, <- Qs1.
    destruct (is_opaque_b u1 && negb (has_some (query_start u1))).
    + destruct P2 as (p & Pa & Pb). exists p. split; [congruence | exact Pb].
    + subst u2. exact P1.
Qed.

(* ---------- set_query ---------- *)
Definition query_text (u : url) (x : list N) : list N :=
  tnl_text (query_set (scheme_type_of (nfirstn (scheme_end u) (ser u)))) (input_new_trim_tnl x).

Theorem set_query_ok dbg u q : wf_b u = true ->
  match q with Some x => usv_list x | None => True end ->
  exists u', set_query dbg u q = Some u'
  /\ wf_b u' = true /\ same_front dbg u u' /\ same_main u u'
  /\ fragment dbg u' = fragment dbg u
  /\ query dbg u' = Some (match q with Some x => Some (query_text u x) | None => None end)
  /\ (match q with
      | Some _ => path u' = path u
      | None => if is_opaque_b u && negb (has_some (fragment_start u))
                then exists p, path u = Some p /\ path u' = Some (rstrip (fun c => c =? 32) p)
                else path u' = path u
      end).
Proof.
  intros W Hq. unfold set_query. rewrite (take_fragment_eval dbg u W). cbn [bindo].
  (* u1 : fragment removed *)
  set (u1 := match fragment_start u with Some f => cut_fragment u f | None => u end).
  set (frag := match fragment_start u with Some f => Some (nskipn (f + 1) (ser u)) | None => None end).
  replace (match fragment_start u with
           | Some f => (cut_fragment u f, Some (nskipn (f + 1) (ser u)))
           | None => (u, None) end) with (u1, frag) by (subst u1 frag; destruct (fragment_start u); reflexivity).
  assert (wf_b u1 = true /\ fragment_start u1 = None /\ same_front dbg u u1 /\ same_main u u1
          /\ path u1 = path u /\ query_start u1 = query_start u /\ is_opaque_b u1 = is_opaque_b u
          /\ fragment dbg u = Some frag) as (W1 & Ef1 & SF1 & SM1 & P1 & Qs1 & Op1 & Fv).
  { subst u1 frag. destruct (fragment_start u) as [f|] eqn:Ef.
    - destruct (cut_fragment_step dbg u f W Ef) as (W1 & SF1 & SM1 & P1 & Q1 & Qs1 & Ef1 & Es1 & Hlt & Hb).
      splits; fin.
      + unfold is_opaque_b, cut_fragment, truncate. rec_simpl.
        pose proof (wf_se_lt_ps u W). pose proof (qf_f (wf_qf_facts u W)) as F. rewrite Ef in F.
        rewrite (byte47_trunc _ f _ 35) by (try lia; exact Hb). reflexivity.
      + apply fragment_value; assumption.
    - splits; fin. rewrite (fragment_eval dbg u W), Ef. reflexivity. }
  cbn beta iota.
  (* u2 : query removed *)
  set (u2 := match query_start u1 with Some q0 => cut_query u1 q0 | None => u1 end).
  assert ((match query_start u1 with
           | Some start => dbg_byte_is dbg u1 start 63 ;;; Some (set_query_start (set_ser u1 (truncate (ser u1) start)) None)
           | None => Some u1 end) = Some u2
          /\ wf_b u2 = true /\ fragment_start u2 = None /\ query_start u2 = None /\ same_front dbg u1 u2 /\ same_main u1 u2
          /\ path u2 = path u1 /\ is_opaque_b u2 = is_opaque_b u1) as (E2 & W2 & Ef2 & Eq2 & SF2 & SM2 & P2 & Op2).
  { subst u2. destruct (query_start u1) as [q0|] eqn:Eq1.
    - destruct (cut_query_step dbg u1 q0 W1 Ef1 Eq1) as (W2 & SF2 & SM2 & P2 & Eq2 & Ef2 & Es2 & Hlt).
      pose proof (qf_q (wf_qf_facts u1 W1)) as F. rewrite Eq1 in F. destruct F as (Fa & Fb & Fc).
      rewrite (dbg_byte_is_ok dbg u1 q0 63 Fb). splits; fin.
      unfold is_opaque_b, cut_query, truncate. rec_simpl.
      pose proof (wf_se_lt_ps u1 W1).
      rewrite (byte47_trunc _ q0 _ 63) by (try lia; apply byte_eqb_nnth; exact Fb). reflexivity.
    - splits; fin. }
  rewrite E2. cbn [bindo].
  assert (scheme_end u2 = scheme_end u /\ nfirstn (scheme_end u2) (ser u2) = nfirstn (scheme_end u) (ser u)) as [Ese Esch].
  { destruct SM1 as (A & _). destruct SM2 as (B & _). split; [congruence|].
    destruct SF1 as (S1 & _). destruct SF2 as (S2 & _).
    rewrite (scheme_eval u W), (scheme_eval u1 W1) in S1. rewrite (scheme_eval u1 W1), (scheme_eval u2 W2) in S2.
    unfold piece in S1, S2. cbn [pidx] in S1, S2. rewrite !N.sub_0_r, !nskipn_0 in S1, S2. congruence. }
  (* u3 : new query or strip *)
  assert (exists u3,
    (match q with
     | Some input =>
         st <- u_scheme_type u2 ;;
         let '(s, _) := parse_query None CSetter st (scheme_end u2) (ser u2 ++ [63]) (input_new_trim_tnl input) in
         Some (set_query_start (set_ser u2 s) (Some (nlen (ser u2))))
     | None => match frag with None => strip_trailing_spaces_from_opaque_path u2 | Some _ => Some u2 end
     end) = Some u3
    /\ wf_b u3 = true /\ fragment_start u3 = None /\ same_front dbg u2 u3 /\ same_main u2 u3
    /\ query dbg u3 = Some (match q with Some x => Some (query_text u x) | None => None end)
    /\ (match q with
        | Some _ => path u3 = path u2
        | None => if is_opaque_b u2 && negb (has_some frag)
                  then exists p, path u2 = Some p /\ path u3 = Some (rstrip (fun c => c =? 32) p)
                  else path u3 = path u2
        end)) as (u3 & E3 & W3 & Ef3 & SF3 & SM3 & Q3 & P3).
  { destruct q as [x|].
    - rewrite (u_scheme_type_eval u2 W2). cbn [bindo]. rewrite parse_query_text. rewrite <- app_assoc. cbn [app].
      set (txt := tnl_text (query_set (scheme_type_of (nfirstn (scheme_end u2) (ser u2)))) (input_new_trim_tnl x)).
      assert (forallb no_h txt = true) as Hh.
      { subst txt. apply query_text_no_hash. apply trim_matches_usv. exact Hq. }
      destruct (add_query_step dbg u2 txt W2 Ef2 Eq2 Hh) as (W3 & SF3 & SM3 & P3 & Q3 & Ef3).
      exists (add_query u2 txt). splits; fin.
      rewrite Q3. unfold query_text. subst txt. rewrite Esch. reflexivity.
    - destruct frag as [ft|] eqn:Efr.
      + exists u2. cbn [has_some negb]. rewrite andb_false_r.
        splits; fin.
        rewrite (query_eval dbg u2 W2), Eq2. reflexivity.
      + destruct (strip_total u2 W2) as (u3 & E3). exists u3. split; [exact E3|].
        destruct (strip_step_q dbg u2 u3 W2 Ef2 E3) as (W3 & SF3 & SM3 & Qs3 & Ef3 & Q3 & P3).
        splits; fin.
        * rewrite Q3, (query_eval dbg u2 W2), Eq2. reflexivity.
        * rewrite Eq2 in P3. cbn [has_some negb] in *. rewrite andb_true_r in *.
          destruct (is_opaque_b u2); [exact P3 | subst u3; reflexivity]. }
  rewrite E3. cbn [bindo].
  (* u4 : fragment restored *)
  unfold restore_already_parsed_fragment.
  destruct frag as [ft|] eqn:Efr.
  - rewrite Ef3. cbn [assert_o bindo].
    destruct (add_fragment_step dbg u3 ft W3 Ef3) as (W4 & SF4 & SM4 & P4 & Q4 & Qs4 & F4).
    exists (add_fragment u3 ft). split; [reflexivity|].
    split; [exact W4|].
    split; [eapply same_front_trans; [eassumption|]; eapply same_front_trans; [eassumption|]; eapply same_front_trans; eassumption|].
    split; [eapply same_main_trans; [eassumption|]; eapply same_main_trans; [eassumption|]; eapply same_main_trans; eassumption|].
    split; [congruence|]. split; [congruence|].
    assert (has_some (fragment_start u) = true) as Hf.
    { destruct (fragment_start u); [reflexivity|]. subst frag. discriminate. }
    rewrite Hf. cbn [negb]. rewrite andb_false_r.
    cbn [has_some negb] in P3. rewrite andb_false_r in P3.
    destruct q; congruence.
  - exists u3. split; [reflexivity|]. split; [exact W3|].
    split; [eapply same_front_trans; [eassumption|]; eapply same_front_trans; eassumption|].
    split; [eapply same_main_trans; [eassumption|]; eapply same_main_trans; eassumption|].
    split; [rewrite (fragment_eval dbg u3 W3), Ef3; symmetry; exact Fv|]. split; [exact Q3|].
    assert (has_some (fragment_start u) = false) as Hf.
    { destruct (fragment_start u); [|reflexivity]. subst frag. discriminate. }
    rewrite Hf. cbn [has_some negb] in *. rewrite andb_true_r in *.
    destruct q; [congruence|]. rewrite <- Op1, <- Op2.
    destruct (is_opaque_b u2).
    + destruct P3 as (p & Pa & Pb). exists p. split; [congruence | exact Pb].
    + congruence.
Qed.
