(* Proofs/C09_Wf.v - what the parsers return is well formed: eight pieces below 2^16, an address
   below 2^32. *)
From RU Require Import Base.Prelude Base.Utf8 Model.AsciiSet Gen.Tables Model.PercentEncoding Model.HostT Model.Host
  Proofs.C09_V6.

Definition wf8 (ps : list N) : Prop := length ps = 8%nat /\ Forall (fun x => x < 65536) ps.

Lemma wf8_zero : wf8 v6_zero.
Proof. split; [reflexivity|]. unfold v6_zero. repeat constructor. Qed.

Lemma upd_nth_forall (P : N -> Prop) ps : forall i v, Forall P ps -> P v -> Forall P (upd_nth ps i v).
Proof.
  induction ps as [|x r IH]; intros [|i] v H Hv; cbn [upd_nth]; try constructor; inversion H; subst; auto.
Qed.

Lemma set_piece_wf ps i v ps' : set_piece ps i v = Some ps' -> wf8 ps -> v < 65536 -> wf8 ps'.
Proof.
  unfold set_piece. destruct (i <? N.of_nat (length ps)); [|discriminate]. intros E [H1 H2] Hv.
  inversion E; subst. split; [rewrite upd_nth_length; exact H1 | apply upd_nth_forall; assumption].
Qed.

Lemma get_piece_wf ps i v : get_piece ps i = Some v -> wf8 ps -> v < 65536.
Proof.
  unfold get_piece. intros E [_ H]. apply nth_error_In in E. rewrite Forall_forall in H. apply H. exact E.
Qed.

Fixpoint hexB (k : nat) (v : N) : N := match k with O => v | S k' => hexB k' (v * 16 + 15) end.

Lemma hexB_mono k : forall v w, v <= w -> hexB k v <= hexB k w.
Proof. induction k as [|k IH]; intros v w H; cbn [hexB]; [exact H|]. apply IH. lia. Qed.

Lemma hexB_ge k : forall v, v <= hexB k v.
Proof. induction k as [|k IH]; intros v; cbn [hexB]; [lia|]. specialize (IH (v * 16 + 15)). lia. Qed.

Lemma read_hex_bound k : forall inp v n v' n' rest,
  read_hex k inp v n = (v', n', rest) -> v' <= hexB k v.
Proof.
  induction k as [|k IH]; intros inp v n v' n' rest H; cbn [read_hex] in H.
  - inversion H; subst. cbn. lia.
  - destruct inp as [|c r].
    + inversion H; subst. apply hexB_ge.
    + destruct (hex_val c) as [d|] eqn:E.
      * apply IH in H. pose proof (hex_val_bound c d E). cbn [hexB].
        eapply N.le_trans; [exact H|]. apply hexB_mono. lia.
      * inversion H; subst. apply hexB_ge.
Qed.

Lemma read_hex4_bound inp v' n' rest : read_hex 4 inp 0 0 = (v', n', rest) -> v' < 65536.
Proof. intros H. apply read_hex_bound in H. change (hexB 4 0) with 65535 in H. lia. Qed.

Definition exit_wf (ex : v6_exit) : Prop :=
  match ex with V6End ps _ _ => wf8 ps | V6Ipv4 _ ps _ _ => wf8 ps end.

Lemma v6_main_wf f : forall inp ps pp cp ex,
  wf8 ps -> v6_main f inp ps pp cp = XOk ex -> exit_wf ex.
Proof.
  induction f as [|f IH]; intros inp ps pp cp ex Hw H.
  - destruct inp; [rewrite v6_main_nil in H; inversion H; subst; exact Hw|].
    Transparent v6_main. cbn [v6_main] in H. Opaque v6_main. discriminate.
  - destruct inp as [|c r]; [rewrite v6_main_nil in H; inversion H; subst; exact Hw|].
    rewrite v6_main_step in H.
    destruct (pp =? 8); [discriminate|].
    destruct (c =? 58).
    { destruct cp; [discriminate|]. eapply IH; eassumption. }
    destruct (read_hex 4 (c :: r) 0 0) as [[value n] rest] eqn:E.
    pose proof (read_hex4_bound _ _ _ _ E) as Hv.
    destruct rest as [|d rest'].
    { destruct (set_piece ps pp value) as [ps'|] eqn:Es; [|discriminate].
      eapply IH; [|eassumption]. eapply set_piece_wf; eassumption. }
    destruct (d =? 46).
    { destruct (n =? 0); [discriminate|]. destruct (6 <? pp); [discriminate|].
      inversion H; subst. exact Hw. }
    destruct (d =? 58); [|discriminate].
    destruct rest' as [|e rest'']; [discriminate|].
    destruct (set_piece ps pp value) as [ps'|] eqn:Es; [|discriminate].
    eapply IH; [|eassumption]. eapply set_piece_wf; eassumption.
Qed.

Lemma v6_v4_wf f : forall inp ps pp seen ps' pp' seen',
  wf8 ps -> v6_v4 f inp ps pp seen = XOk (ps', pp', seen') -> wf8 ps'.
Proof.
  induction f as [|f IH]; intros inp ps pp seen ps' pp' seen' Hw H.
  - destruct inp; cbn [v6_v4] in H; [inversion H; subst; exact Hw | discriminate].
  - destruct inp as [|c r]; cbn [v6_v4] in H; [inversion H; subst; exact Hw|].
    destruct (if 0 <? seen then if (seen <? 4) && (c =? 46) then Some r else None else Some (c :: r)) as [inp1|];
      [|discriminate].
    destruct (read_dec inp1 None) as [[[v|] rest]|]; try discriminate.
    destruct (get_piece ps pp) as [old|]; [|discriminate].
    destruct (U16_MAX <? old * 256 + v) eqn:Eo; [discriminate|].
    destruct (set_piece ps pp (old * 256 + v)) as [ps1|] eqn:Es; [|discriminate].
    eapply IH; [|eassumption]. eapply set_piece_wf; [eassumption|exact Hw|]. unfold U16_MAX in Eo. lia.
Qed.

Lemma swap_pieces_wf ps i j ps' : swap_pieces ps i j = Some ps' -> wf8 ps -> wf8 ps'.
Proof.
  unfold swap_pieces. destruct (get_piece ps i) as [a|] eqn:Ea; [|discriminate].
  destruct (get_piece ps j) as [b|] eqn:Eb; [|discriminate].
  destruct (set_piece ps i b) as [ps1|] eqn:E1; [|discriminate]. intros E2 Hw.
  eapply set_piece_wf; [exact E2| |eapply get_piece_wf; eassumption].
  eapply set_piece_wf; [exact E1|exact Hw|eapply get_piece_wf; eassumption].
Qed.

Lemma v6_swaps_wf s : forall ps pp cp ps', v6_swaps s ps pp cp = XOk ps' -> wf8 ps -> wf8 ps'.
Proof.
  induction s as [|s IH]; intros ps pp cp ps' H Hw; cbn [v6_swaps] in H.
  - inversion H; subst. exact Hw.
  - destruct (swap_pieces ps pp (cp + N.of_nat (S s) - 1)) as [ps1|] eqn:E; [|discriminate].
    destruct (pp =? 0); [discriminate|]. eapply IH; [eassumption|]. eapply swap_pieces_wf; eassumption.
Qed.

Lemma v6_finish_wf ps pp cp ps' : v6_finish ps pp cp = XOk ps' -> wf8 ps -> wf8 ps'.
Proof.
  unfold v6_finish. destruct cp as [cp|].
  - destruct (pp <? cp); [discriminate|]. apply v6_swaps_wf.
  - destruct (pp =? 8); [|discriminate]. intros H; inversion H; subst. tauto.
Qed.

Lemma v6_tail_wf ex ps' : exit_wf ex -> v6_tail ex = XOk ps' -> wf8 ps'.
Proof.
  destruct ex as [ps pp cp|rest ps pp cp]; cbn [exit_wf v6_tail]; intros Hw H.
  - eapply v6_finish_wf; eassumption.
  - destruct (6 <? pp); [discriminate|].
    destruct (v6_v4 (length rest) rest ps pp 0) as [[[ps1 pp1] seen]| | |] eqn:E; cbn [xr_bind] in H; try discriminate.
    destruct (negb (seen =? 4)); [discriminate|].
    eapply v6_finish_wf; [eassumption|]. eapply v6_v4_wf; eassumption.
Qed.

Theorem parse_ipv6addr_wf input a : parse_ipv6addr input = XOk a -> wf8 a.
Proof.
  unfold parse_ipv6addr. destruct input as [|c0 [|c1 r2]]; try discriminate.
  destruct (c0 =? 58).
  - destruct (c1 =? 58); [|discriminate].
    destruct (v6_main (length r2) r2 v6_zero 1 (Some 1)) as [ex| | |] eqn:E; cbn [xr_bind]; try discriminate.
    apply v6_tail_wf. eapply v6_main_wf; [exact wf8_zero|exact E].
  - destruct (v6_main (length (c0 :: c1 :: r2)) (c0 :: c1 :: r2) v6_zero 0 None) as [ex| | |] eqn:E; cbn [xr_bind]; try discriminate.
    apply v6_tail_wf. eapply v6_main_wf; [exact wf8_zero|exact E].
Qed.

(* ---- IPv4: the result is a u32 ---- *)
Lemma ipv4_add_parts_bound numbers : forall counter ipv4 a,
  ipv4 <= U32_MAX -> ipv4_add_parts numbers counter ipv4 = XOk a -> a <= U32_MAX.
Proof.
  induction numbers as [|n r IH]; intros counter ipv4 a Hb H; cbn [ipv4_add_parts] in H.
  - inversion H; subst. exact Hb.
  - destruct (U32_MAX <? ipv4 + N.shiftl n (8 * (3 - counter)) mod 4294967296) eqn:E; [discriminate|].
    eapply IH; [|exact H]. lia.
Qed.

Theorem parse_ipv4addr_bound input a : parse_ipv4addr input = XOk a -> a < 4294967296.
Proof.
  unfold parse_ipv4addr.
  set (parts := match rev (split_dot_list input) with [] :: r => rev r | _ => split_dot_list input end).
  destruct (4 <? N.of_nat (length parts)); [discriminate|].
  destruct (ipv4_numbers parts) as [numbers|]; [|discriminate].
  destruct (rev numbers) as [|ipv4 rn]; [discriminate|].
  destruct (N.shiftr U32_MAX (8 * N.of_nat (length (rev rn))) <? ipv4) eqn:E; [discriminate|].
  destruct (existsb (fun x => 255 <? x) (rev rn)); [discriminate|].
  intros H. apply ipv4_add_parts_bound in H; [unfold U32_MAX in H; lia|].
  assert (N.shiftr U32_MAX (8 * N.of_nat (length (rev rn))) <= U32_MAX).
  { rewrite N.shiftr_div_pow2. apply N.div_le_upper_bound; [apply N.pow_nonzero; lia|].
    assert (2 ^ (8 * N.of_nat (length (rev rn))) <> 0) by (apply N.pow_nonzero; lia).
    unfold U32_MAX. nia. }
  lia.
Qed.
