(* Proofs/C08_Relative.v - make_relative: one witness per excluded class of MR_ok (the inverse law fails
   there on the model, and - confirmed by the harness - on the crate), the F-C08-1 witness of the
   containment law for file bases, non-vacuity of MR_ok. *)
From Coq Require Import String.
From RU Require Import Base.Prelude Base.Utf8 Model.AsciiSet Gen.Tables Model.PercentEncoding
  Model.HostT Model.UrlRecord Model.Parser Model.Setters Model.WF Model.MakeRelative Model.KnownC08
  Proofs.C02_Reach.
Open Scope string_scope.
Open Scope N_scope.
Open Scope list_scope.

Definition toy_join (b : url) (r : list N) : pres url := parse_url true toy_hp toy_hp toy_hd None (Some b) r.

(* make_relative answers Some r, the pair is in class `cls`, both records are well-formed, and
   joining r to the base does NOT give the target back *)
Definition mr_refutes (cls : N) (b t : url) : bool :=
  wf_b b && wf_b t && (mr_class b t =? cls)
  && match make_relative true b t with
     | Some (Some r) => negb (pres_eqb (toy_join b r) t)
     | _ => false
     end.
Definition mr_witness (cls : N) (bs ts : string) : bool :=
  match toy_parse bs, toy_parse ts with
  | POk b, POk t => mr_refutes cls b t
  | _, _ => false
  end.

(* the law holds on a pair of MR_ok *)
Definition mr_holds (bs ts rs : string) : bool :=
  match toy_parse bs, toy_parse ts with
  | POk b, POk t =>
      wf_b b && wf_b t && mr_ok b t
      && match make_relative true b t with
         | Some (Some r) => list_eqb r (B rs) && pres_eqb (toy_join b r) t
         | _ => false
         end
  | _, _ => false
  end.

Lemma F_C08_3_refuted : mr_witness 3 "ws://u@h/" "ws://h/b" = true /\ mr_witness 3 "https://-@h/" "https://h/" = true.
Proof. vm_compute. split; reflexivity. Qed.
Lemma F_C08_4d_refuted : mr_witness 3 "a:/x" "a:///x" = true.
Proof. vm_compute. reflexivity. Qed.
Lemma F_C08_4a_refuted : mr_witness 41 "http://h/?q" "http://h/" = true.
Proof. vm_compute. reflexivity. Qed.
Lemma F_C08_4b_refuted : mr_witness 42 "a://h/" "a://h/x:y" = true /\ mr_witness 42 "http://h/d/f" "http://h/d/x:y/z" = true.
Proof. vm_compute. split; reflexivity. Qed.
(* a drive-letter-shaped FILE NAME of the target reads as a scheme (was counted in class 45 before that class was
   narrowed to the segments '..' has to pop) *)
Lemma F_C08_4b_drive_refuted : mr_witness 42 "non-spec:/" "non-spec:/c:" = true.
Proof. vm_compute. reflexivity. Qed.
Lemma F_C08_4c_refuted :
  mr_witness 43 "http://h/a/f" "http://h/a/" = true          (* the reference is "/" *)
  /\ mr_witness 43 "http://h/a//b/f" "http://h/a/f" = true   (* '..' emission stops at an empty segment *)
  /\ mr_witness 43 "http://h/f" "http://h//x/f" = true       (* a leading empty segment is lost *)
  /\ mr_witness 43 "a://h?q" "a://h" = true.                 (* empty paths *)
Proof. vm_compute. repeat split. Qed.
Lemma F_C08_4e_refuted :
  mr_witness 45 "http://h/c:/a" "http://h/b" = true
  /\ mr_witness 45 "file:///c:/a/b" "file:///d:/x" = true
  /\ mr_witness 45 "non-spec:/c:/a" "non-spec:/b" = true
  /\ mr_witness 45 "a://h/x/c|/f" "a://h/x/y" = true.
Proof. vm_compute. repeat split. Qed.
(* outside file URLs a drive-letter-shaped segment is harmless unless '..' has to pop it: in the common prefix,
   in the target only, as the base's file name, as a target file name behind a directory *)
Lemma MR_ok_drive_inhabited :
  mr_holds "http://h/c:/a" "http://h/c:/b" "b" = true
  /\ mr_holds "http://h/a/b" "http://h/c:/d" "../c:/d" = true
  /\ mr_holds "a://h/a/c:" "a://h/a/x" "x" = true
  /\ mr_holds "non-spec:/a/b" "non-spec:/a/d/c|" "d/c|" = true
  /\ mr_holds "ws://h/c:/d:/e" "ws://h/c:/d:/e/f:" "e/f:" = true.
Proof. vm_compute. repeat split. Qed.
(* a dot segment in the target: only for hand-made records, the parser never stores one *)
Definition t_dots : url := mkUrl (B "a:/../x") 1 2 2 2 HI_None None 2 None None.
Lemma class_46_refuted : match toy_parse "a:/y" with POk b => mr_refutes 46 b t_dots | _ => false end = true.
Proof. vm_compute. reflexivity. Qed.

(* F-C08-2 is fixed: an opaque target is refused *)
Lemma F_C08_2_fixed :
  match toy_parse "web+demo:/", toy_parse "web+demo:'<C|" with
  | POk b, POk t => match make_relative true b t with Some None => true | _ => false end
  | _, _ => false
  end = true.
Proof. vm_compute. reflexivity. Qed.

(* non-vacuity of MR_ok: the shapes of the crate's own tests *)
Lemma MR_ok_inhabited :
  mr_holds "http://127.0.0.1:8080/test/" "http://127.0.0.1:8080/test" "../test" = true
  /\ mr_holds "http://127.0.0.1:8080/test/bla/" "http://127.0.0.1:8080/test2/video" "../../test2/video" = true
  /\ mr_holds "http://h/a/b.html?c=d" "http://h/a/b.html?e=f" "?e=f" = true
  /\ mr_holds "http://h/a/b?q#f" "http://h/a/b?q" "?q" = true
  /\ mr_holds "a:/x/y" "a:/x/z#f" "z#f" = true
  /\ mr_holds "file:///tmp/a" "file:///tmp/b/c/" "b/c/" = true
  /\ mr_holds "http://u:p@h:81/a/f" "http://u:p@h:81/" "../" = true.
Proof. vm_compute. repeat split. Qed.

(* ---------- containment, file bases: F-C01-1 / F-C08-1 ---------- *)
Definition contain_refutes (bs : string) (r : string) : bool :=
  match toy_parse bs with
  | POk b =>
      wf_b b && contain_pre b (B r)
      && match toy_join b (B r) with
         | POk u => negb (hi_eqb (hosti u) (hosti b))
                    || negb (list_eqb (nfirstn (path_start b) (ser u)) (nfirstn (path_start b) (ser b)))
         | _ => false
         end
  | _ => false
  end.
Lemma F_C08_1_refuted : contain_refutes "file://host/path" "/c:/foo/bar" = true /\ contain_refutes "file://host/path" "/C|/x" = true.
Proof. vm_compute. split; reflexivity. Qed.
(* F-C08-5 = F-C01-4 is fixed: a backslash-led reference against a non-special base stays in the path *)
Lemma F_C08_5_fixed : contain_refutes "non-spec://good.example/dir/file" "\\evil.example/x" = false.
Proof. vm_compute. reflexivity. Qed.
