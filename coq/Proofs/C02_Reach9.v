(* Proofs/C02_Reach9.v - the reach theorem after C02_FileOps / C02_FileJoin.
   ReachC8 = the histories of C02_Reach8.ReachC7 and, NEW,
     - EVERY join against a file record of the history (RC8_join_file: no-scheme and file-scheme references through
       C02_FileJoin.join_file_base - path-relative, path-absolute, two-slash, drive-letter, empty / query / fragment -
       and references with another scheme through join_abs_Canon_g), the result outside Known_file_drive,
     - file-scheme references that do not consult the base, against ANY Reachable4 base (RC8_join_file_abs: the base is
       not a file URL, or two slashes follow "file:"),
     - on file records (RC8_step_file, file_op8): besides the query / fragment setters, the port and credential setters
       of both APIs (refused), Url::set_scheme and quirks protocol (file + host -> special scheme; refused without a
       host), Url::set_host(None); (RC8_step_file_path, file_path_op) quirks pathname with every argument and
       Url::set_path when the record has a host or the argument starts with a slash, the result outside Known_file_drive.
   Every ReachC8 record is CanonF, hence a fixpoint of re-parsing, well-formed and ASCII; ReachC7 < ReachC8 < Reachable4. *)
From RU Require Import Proofs.C15_Ser.
From Coq Require Import String.
From RU Require Import Base.Prelude Base.Utf8 Base.Utf8Facts Base.Outcome_c15 Model.AsciiSet Gen.Tables
  Model.PercentEncoding Model.HostT Model.Host Model.UrlRecord Model.Parser Model.Setters Model.WF Model.FormUrlencoded
  Model.QueryPairs
  Proofs.ListN Proofs.C02_Enc Proofs.C02_Parts Proofs.C02_Opaque Proofs.C02_Path Proofs.C02_PathL1 Proofs.C02_Reach
  Proofs.C02_AuthParts Proofs.C02_Auth Proofs.C02_AuthWf Proofs.C02_PathSp Proofs.C02_AuthSp Proofs.C02_AuthMain
  Proofs.C02_Hist Proofs.C02_SetQF Proofs.C02_Canon Proofs.C02_SetPort Proofs.C02_JoinTail Proofs.C02_ReachPartial
  Proofs.C02_Form Proofs.C02_SetCred Proofs.C02_SetCredCanon Proofs.C02_QPort Proofs.C08_AbsNonfile Proofs.C02_Reach3
  Proofs.C02_SetHostFrame Proofs.C02_SetHostCanon Proofs.C02_SetScheme Proofs.C02_PathSetter Proofs.C02_SetPath
  Proofs.C09_Host Proofs.C16_RT6Model Proofs.C02_HistInst Proofs.C02_Reach4 Proofs.C02_Stmt4 Proofs.C02_QHost
  Proofs.C02_SetHostNone Proofs.C02_SetPathNoAuth Proofs.C02_SetPathOpaque Proofs.C02_Reach5
  Proofs.C02_JoinAbs Proofs.C02_JoinPath Proofs.C02_Segments Proofs.C02_SegmentsCanon Proofs.C02_Reach6 Proofs.C02_Ovr
  Proofs.C02_Reach7 Proofs.C02_File Proofs.C02_FileL1 Proofs.C02_FileCanon Proofs.C02_FileParse Proofs.C02_FileSet
  Proofs.C02_FileHost Proofs.C02_Reach8 Proofs.C02_FileOps Proofs.C02_FileJoin Proofs.C02_FileSetPath.
Open Scope N_scope.
Open Scope list_scope.

(* the operations covered on file records *)
Definition file_op8 (o : op) : bool :=
  file_tail_op o || file_refused_op o
  || match o with OSetScheme _ | OQProtocol _ | OSetHost None => true | _ => false end.

(* the path setters covered on file records: quirks pathname with every argument; Url::set_path when the record has a
   host or the argument starts with a slash *)
Definition file_path_op (u : url) (o : op) : bool :=
  match o with
  | OSetPath x => has_host u || lead_slash x
  | OQPathname _ => true
  | _ => false
  end.

Section ReachC8.
Variable dbg : bool.
Variable hp hpo : list N -> result host.
Variable hd : host -> list N.
Hypothesis HOK : HostOK2 hp hpo hd.
Hypothesis HNE : host_nonempty hp hpo.
Hypothesis HW : host_no_wdl hp hd.

Let HRT : HostRT hp hpo hd := proj1 HOK.
Let HAb : host_above hp hpo hd := proj1 (proj2 HOK).

Notation CanonF := (CanonF hp hpo hd).
Notation ReachC7 := (ReachC7 dbg hp hpo hd).

Inductive ReachC8 : url -> Prop :=
| RC8_parse ovr input u :
    usv_list input -> parse_url dbg hp hpo hd ovr None input = POk u ->
    Known_file_drive u = false -> ReachC8 u
| RC8_join_rel ovr b input u :
    ReachC8 b -> is_file b = false -> usv_list input -> rel_ref input = true ->
    parse_url dbg hp hpo hd ovr (Some b) input = POk u -> ReachC8 u
| RC8_join_scheme ovr b input u :
    ReachC8 b -> is_file b = false -> usv_list input -> nonfile_input input = true ->
    parse_url dbg hp hpo hd ovr (Some b) input = POk u -> ReachC8 u
| RC8_join_abs_any ovr b input u :
    Reachable4 dbg hp hpo hd b -> usv_list input -> abs_ref b input = true ->
    parse_url dbg hp hpo hd ovr (Some b) input = POk u -> ReachC8 u
| RC8_join_file_abs ovr b input u :          (* NEW: file references that do not consult the base, any base *)
    Reachable4 dbg hp hpo hd b -> usv_list input -> file_abs_ref b input = true ->
    parse_url dbg hp hpo hd ovr (Some b) input = POk u -> Known_file_drive u = false -> ReachC8 u
| RC8_join_file ovr b input u :              (* NEW: EVERY reference against a file base *)
    ReachC8 b -> is_file b = true -> usv_list input ->
    parse_url dbg hp hpo hd ovr (Some b) input = POk u -> Known_file_drive u = false -> ReachC8 u
| RC8_step u o u' :
    ReachC8 u -> is_file u = false -> op_args_ok o -> known_step3 dbg hp hpo hd u o = false ->
    apply_op dbg hp hpo hd u o = Some u' -> nlen (ser u') <= U32_MAX_P -> ReachC8 u'
| RC8_step_file u o u' :                     (* NEW: more operations on a file record *)
    ReachC8 u -> is_file u = true -> file_op8 o = true -> op_args_ok o ->
    apply_op dbg hp hpo hd u o = Some u' -> nlen (ser u') <= U32_MAX_P -> ReachC8 u'
| RC8_step_file_path u o u' :                (* NEW: the path setters on a file record *)
    ReachC8 u -> is_file u = true -> file_path_op u o = true -> op_args_ok o ->
    apply_op dbg hp hpo hd u o = Some u' -> nlen (ser u') <= U32_MAX_P -> Known_file_drive u' = false -> ReachC8 u'
| RC8_qpm u ops u' :
    ReachC8 u -> Forall op_ok ops -> query_pairs_session dbg u ops = Some u' ->
    nlen (ser u') <= U32_MAX_P -> ReachC8 u'.

Lemma file_base_abs_ref b input : FileCanon hp hd b -> nonfile_input input = true -> abs_ref b input = true.
Proof.
  intros [ho segs last q0 f0 K] Hn.
  destruct (file_pre_sch hd ho (path_text segs last)) as [S1 S2].
  assert (b_scheme (file_curl hd ho (path_text segs last) q0 f0) = s_file) as Hbs
    by (unfold file_curl; exact (b_scheme_qf _ _ _ _ _ _ _ _ q0 f0 s_file S1 S2)).
  unfold nonfile_input in Hn. unfold abs_ref.
  destruct (parse_scheme CUrlParser (input_new_trim_c0 input)) as [[sch rem]|]; [|discriminate Hn].
  destruct (scheme_type_of sch) eqn:Est; [discriminate Hn | | reflexivity].
  rewrite Hbs. destruct (list_eqb s_file sch) eqn:El; [|rewrite andb_false_r; reflexivity].
  apply list_eqb_spec in El. subst sch. vm_compute in Est. discriminate Est.
Qed.

(* every join against a canonical file base, whatever the reference *)
Theorem join_file_any ovr b input u : FileCanon hp hd b -> usv_list input ->
  parse_url dbg hp hpo hd ovr (Some b) input = POk u -> Known_file_drive u = false -> CanonF u.
Proof using HOK HNE HW HRT HAb.
  intros Cb Hu Hp Hk. destruct (nonfile_input input) eqn:En.
  - left. exact (join_abs_Canon_g dbg hp hpo hd HRT HAb ovr b input u Hu (file_base_abs_ref b input Cb En) Hp).
  - right. exact (join_file_base dbg hp hpo hd HRT HAb (proj1 HNE) HW ovr b input u Cb Hu En Hp Hk).
Qed.

Theorem step_file8_CanonF u o u' : FileCanon hp hd u -> file_op8 o = true -> op_args_ok o ->
  apply_op dbg hp hpo hd u o = Some u' -> nlen (ser u') <= U32_MAX_P -> CanonF u'.
Proof using HOK HRT.
  intros C Ht Ha Ho Hb. destruct (file_tail_op o) eqn:E1.
  { right. exact (step_file_CanonF dbg hp hpo hd HOK u o u' C E1 Ha Ho Hb). }
  destruct (file_refused_op o) eqn:E2.
  { right. rewrite (file_refused dbg hp hpo hd u o u' C E2 Ho). exact C. }
  unfold file_op8 in Ht. rewrite E1, E2 in Ht. cbn [orb] in Ht.
  destruct o; try discriminate Ht; cbn [apply_op] in Ho.
  - destruct h; [discriminate Ht|].
    destruct (set_host dbg hp hpo hd u None) as [[u1 s1]|] eqn:E; cbn [option_map fst] in Ho; [|discriminate Ho].
    inversion Ho; subst u1. right. exact (set_host_none_File dbg hp hpo hd u u' s1 C E).
  - destruct (set_scheme dbg u s) as [[u1 s1]|] eqn:E; cbn [option_map fst] in Ho; [|discriminate Ho].
    inversion Ho; subst u1.
    destruct (set_scheme_File dbg hp hpo hd u s u' s1 C E Hb) as [-> | C']; [right; exact C | left; exact C'].
  - unfold q_set_protocol in Ho.
    destruct (set_scheme dbg u _) as [[u1 s1]|] eqn:E; cbn [option_map fst] in Ho; [|discriminate Ho].
    inversion Ho; subst u1.
    destruct (set_scheme_File dbg hp hpo hd u _ u' s1 C E Hb) as [-> | C']; [right; exact C | left; exact C'].
Qed.

Theorem step_file_path_File u o u' : FileCanon hp hd u -> file_path_op u o = true -> op_args_ok o ->
  apply_op dbg hp hpo hd u o = Some u' -> nlen (ser u') <= U32_MAX_P -> Known_file_drive u' = false -> FileCanon hp hd u'.
Proof.
  intros C Ht Ha Ho Hb Hk. destruct o; try discriminate Ht; cbn [apply_op op_args_ok file_path_op] in *.
  - exact (set_path_File dbg hp hpo hd u p u' C Ha Ht Ho Hb Hk).
  - exact (q_set_pathname_File dbg hp hpo hd u s u' C Ha Ho Hb Hk).
Qed.

Theorem ReachC8_CanonF u : ReachC8 u -> CanonF u.
Proof using HOK HNE HW HRT HAb.
  induction 1 as [ovr input u Hu Hp Hk | ovr b input u Hr IH Hf Hu Ht Hp | ovr b input u Hr IH Hf Hu Ht Hp
                 | ovr b input u Hr Hu Ht Hp | ovr b input u Hr Hu Ht Hp Hk | ovr b input u Hr IH Hf Hu Hp Hk
                 | u o u' Hr IH Hf Ha Hk Ho Hb | u o u' Hr IH Hf Ht Ha Ho Hb | u o u' Hr IH Hf Ht Ha Ho Hb Hk'
                 | u ops u' Hr IH Hops Hs Hb].
  - exact (parse_CanonF dbg hp hpo hd HOK HNE HW ovr input u Hu Hp Hk).
  - left. exact (join_rel_Canon_g dbg hp hpo hd HRT HAb ovr b input u (CanonF_nonfile hp hpo hd b IH Hf) Hu Ht Hp).
  - left. exact (join_nonfile_Canon_g dbg hp hpo hd HRT HAb ovr b input u (CanonF_nonfile hp hpo hd b IH Hf) Hu Ht Hp).
  - left. exact (join_abs_Canon_g dbg hp hpo hd HRT HAb ovr b input u Hu Ht Hp).
  - rewrite (join_file_abs_eq dbg hp hpo hd ovr b input Ht) in Hp.
    exact (parse_CanonF dbg hp hpo hd HOK HNE HW ovr input u Hu Hp Hk).
  - exact (join_file_any ovr b input u (CanonF_file hp hpo hd b IH Hf) Hu Hp Hk).
  - left. exact (canon_step_all dbg hp hpo hd HOK HNE u o u' (CanonF_nonfile hp hpo hd u IH Hf) Ha Hk Ho Hb).
  - exact (step_file8_CanonF u o u' (CanonF_file hp hpo hd u IH Hf) Ht Ha Ho Hb).
  - right. exact (step_file_path_File u o u' (CanonF_file hp hpo hd u IH Hf) Ht Ha Ho Hb Hk').
  - destruct IH as [C|C].
    + left. exact (qpm_Canon dbg hp hpo hd HRT u ops u' C Hops Hs Hb).
    + right. exact (qpm_File dbg hp hpo hd HRT u ops u' C Hops Hs Hb).
Qed.

Theorem reach_partial8 u : ReachC8 u ->
  Fixpoint_of_reparse dbg hp hpo hd u /\ wf_b u = true /\ ascii (ser u).
Proof using HOK HNE HW HRT HAb. intros H. exact (CanonF_fixpoint dbg hp hpo hd HOK u (ReachC8_CanonF u H)). Qed.

(* ---------- ReachC8 is inside Reachable4 ---------- *)
Lemma file_has_authority_b ho T q f : has_authority_b (file_curl hd ho T q f) = true.
Proof.
  unfold has_authority_b, file_curl, qf_url. cbn [scheme_end ser].
  unfold file_pre, file_front, s_file_css, s_css. rewrite <- !app_assoc. change 4 with (nlen s_file).
  rewrite nskipn_app_len. reflexivity.
Qed.

Lemma file_not_leads_ss ho segs last q f : file_ok hp hd ho segs last q f ->
  path_leads_ss (file_curl hd ho (path_text segs last) q f) = false.
Proof.
  intros K. unfold path_leads_ss, file_curl, qf_url. cbn [path_start ser]. unfold file_pre.
  rewrite <- app_assoc. rewrite nskipn_app_len. unfold path_text. cbn [app].
  pose proof (fseg_first_not_slash segs last (fk_segs _ _ _ _ _ _ _ K) (fk_last _ _ _ _ _ _ _ K) (fk_first _ _ _ _ _ _ _ K)) as Hf.
  destruct (segs_text segs ++ last) as [|c r].
  - cbn [app]. pose proof (qf_text_head q f) as Hq. destruct (qf_text q f) as [|d r']; [reflexivity|].
    destruct Hq as [Hq _]. unfold s_ss. cbn [starts_with]. replace (47 =? 47) with true by reflexivity.
    replace (47 =? d) with false by (unfold is_qh in Hq; lia). reflexivity.
  - cbn [app]. unfold s_ss. cbn [starts_with]. replace (47 =? 47) with true by reflexivity.
    replace (47 =? c) with false by lia. reflexivity.
Qed.

Lemma file_op8_unknown u o : FileCanon hp hd u -> file_op8 o = true -> known_step3 dbg hp hpo hd u o = false.
Proof.
  intros C Ht. destruct (file_tail_op o) eqn:E1; [exact (file_tail_op_unknown dbg hp hpo hd u o E1)|].
  unfold file_op8 in Ht. rewrite E1 in Ht. cbn [orb] in Ht.
  unfold known_step3, known_step2, known_step, Known_F_C03_5, Known_F_C02_3, Known_F_C02_2, Known_F_C02_8, Known_F_C02_4,
    Known_F_C02_9, Known_F_C02_10.
  destruct o; try discriminate Ht; try discriminate E1; cbn [is_host_or_path_op andb orb file_refused_op] in *;
    try (rewrite andb_false_r; reflexivity).
  destruct h; [discriminate Ht|].
  destruct C as [ho segs last q f K]. unfold has_marker. rewrite file_has_authority_b. cbn [negb andb orb].
  rewrite (file_not_leads_ss ho segs last q f K). rewrite andb_false_r. reflexivity.
Qed.

Lemma file_not_cbb ho T q f : is_cbb (file_curl hd ho T q f) = false.
Proof.
  unfold is_cbb, file_curl, qf_url. cbn [scheme_end ser].
  unfold file_pre, file_front, s_file_css, s_css. rewrite <- !app_assoc.
  change (s_file ++ [58; 47; 47] ++ fhost_text hd ho ++ T ++ qf_text q f)
    with ((s_file ++ [58]) ++ 47 :: 47 :: fhost_text hd ho ++ T ++ qf_text q f).
  change (4 + 1) with (nlen (s_file ++ [58])). rewrite nskipn_app_len. reflexivity.
Qed.

Lemma file_path_op_unknown u o : FileCanon hp hd u -> file_path_op u o = true -> known_step3 dbg hp hpo hd u o = false.
Proof.
  intros [ho segs last q f K] Ht.
  unfold known_step3, known_step2, known_step, Known_F_C03_5, Known_F_C02_3, Known_F_C02_2, Known_F_C02_8, Known_F_C02_4,
    Known_F_C02_9, Known_F_C02_10, has_marker.
  rewrite file_has_authority_b. cbn [negb andb orb].
  destruct o; try discriminate Ht; rewrite ?file_not_cbb; reflexivity.
Qed.

Theorem ReachC8_Reachable4 u : ReachC8 u -> Reachable4 dbg hp hpo hd u.
Proof using HOK HNE HW HRT HAb.
  intros H. pose proof (CanonF_not_drive hp hpo hd u (ReachC8_CanonF u H)) as Hd. revert Hd.
  induction H as [ovr input u Hu Hp Hk | ovr b input u Hr IH Hf Hu Ht Hp | ovr b input u Hr IH Hf Hu Ht Hp
                 | ovr b input u Hr Hu Ht Hp | ovr b input u Hr Hu Ht Hp Hk | ovr b input u Hr IH Hf Hu Hp Hk
                 | u o u' Hr IH Hf Ha Hk Ho Hb | u o u' Hr IH Hf Ht Ha Ho Hb | u o u' Hr IH Hf Ht Ha Ho Hb Hk'
                 | u ops u' Hr IH Hops Hs Hb]; intros Hd.
  - exact (R4_parse dbg hp hpo hd ovr input u Hu Hp Hk).
  - exact (R4_join dbg hp hpo hd ovr b input u (IH (CanonF_not_drive hp hpo hd b (ReachC8_CanonF b Hr))) Hu Hp Hd).
  - exact (R4_join dbg hp hpo hd ovr b input u (IH (CanonF_not_drive hp hpo hd b (ReachC8_CanonF b Hr))) Hu Hp Hd).
  - exact (R4_join dbg hp hpo hd ovr b input u Hr Hu Hp Hd).
  - exact (R4_join dbg hp hpo hd ovr b input u Hr Hu Hp Hd).
  - exact (R4_join dbg hp hpo hd ovr b input u (IH (CanonF_not_drive hp hpo hd b (ReachC8_CanonF b Hr))) Hu Hp Hd).
  - exact (R4_step dbg hp hpo hd u o u' (IH (CanonF_not_drive hp hpo hd u (ReachC8_CanonF u Hr))) Ha Hk Ho Hd).
  - exact (R4_step dbg hp hpo hd u o u' (IH (CanonF_not_drive hp hpo hd u (ReachC8_CanonF u Hr))) Ha
             (file_op8_unknown u o (CanonF_file hp hpo hd u (ReachC8_CanonF u Hr) Hf) Ht) Ho Hd).
  - exact (R4_step dbg hp hpo hd u o u' (IH (CanonF_not_drive hp hpo hd u (ReachC8_CanonF u Hr))) Ha
             (file_path_op_unknown u o (CanonF_file hp hpo hd u (ReachC8_CanonF u Hr) Hf) Ht) Ho Hd).
  - exact (R4_qpm dbg hp hpo hd u ops u' (IH (CanonF_not_drive hp hpo hd u (ReachC8_CanonF u Hr))) Hops Hs Hd).
Qed.

(* ---------- ReachC8 is closed under the whole constructor R4_join ---------- *)
Lemma nonfile_base_file_abs b input : is_file b = false -> file_input input = true -> file_abs_ref b input = true.
Proof.
  unfold is_file, scheme_of, file_input, file_abs_ref, b_scheme. intros Hb Hf.
  destruct (parse_scheme CUrlParser (input_new_trim_c0 input)) as [[sch rem]|]; [|discriminate Hf].
  destruct (scheme_type_of sch); try discriminate Hf. rewrite Hb. reflexivity.
Qed.

Theorem ReachC8_join_closed ovr b input u : ReachC8 b -> usv_list input ->
  parse_url dbg hp hpo hd ovr (Some b) input = POk u -> Known_file_drive u = false -> ReachC8 u.
Proof using HOK HNE HW HRT HAb.
  intros Hr Hu Hp Hk. destruct (is_file b) eqn:Hf.
  - exact (RC8_join_file ovr b input u Hr Hf Hu Hp Hk).
  - destruct (ref_trichotomy input) as [Ht | [Ht | Ht]].
    + exact (RC8_join_rel ovr b input u Hr Hf Hu Ht Hp).
    + exact (RC8_join_scheme ovr b input u Hr Hf Hu Ht Hp).
    + exact (RC8_join_file_abs ovr b input u (ReachC8_Reachable4 b Hr) Hu (nonfile_base_file_abs b input Hf Ht) Hp Hk).
Qed.

(* ---------- ReachC7 is inside ReachC8 ---------- *)
Theorem ReachC7_C8 u : ReachC7 u -> ReachC8 u.
Proof using HOK HNE HW HRT HAb.
  intros H. induction H as [ovr input u Hu Hp Hk | ovr b input u Hr IH Hf Hu Ht Hp | ovr b input u Hr IH Hf Hu Ht Hp
                 | ovr b input u Hr Hu Ht Hp | ovr b input u Hr IH Hf Hu Ht Hp
                 | u o u' Hr IH Hf Ha Hk Ho Hb | u o u' Hr IH Hf Ht Ha Ho Hb | u ops u' Hr IH Hops Hs Hb].
  - exact (RC8_parse ovr input u Hu Hp Hk).
  - exact (RC8_join_rel ovr b input u IH Hf Hu Ht Hp).
  - exact (RC8_join_scheme ovr b input u IH Hf Hu Ht Hp).
  - exact (RC8_join_abs_any ovr b input u Hr Hu Ht Hp).
  - apply (RC8_join_file ovr b input u IH Hf Hu Hp).
    apply (CanonF_not_drive hp hpo hd). right.
    exact (join_tail_File dbg hp hpo hd ovr b input u
             (CanonF_file hp hpo hd b (ReachC7_CanonF dbg hp hpo hd HOK HNE HW b Hr) Hf) Hu Ht Hp).
  - exact (RC8_step u o u' IH Hf Ha Hk Ho Hb).
  - apply (RC8_step_file u o u' IH Hf); try assumption. unfold file_op8. rewrite Ht. reflexivity.
  - exact (RC8_qpm u ops u' IH Hops Hs Hb).
Qed.
End ReachC8.

Theorem reach_partial8_model dbg idna : IdnaOK idna -> forall u,
  ReachC8 dbg (host_parse idna) host_parse_opaque host_display u ->
  Fixpoint_of_reparse dbg (host_parse idna) host_parse_opaque host_display u /\ wf_b u = true /\ ascii (ser u).
Proof.
  intros OK u. exact (reach_partial8 dbg _ _ _ (HostOK2_model idna OK) (host_nonempty_model idna) (host_no_wdl_model idna OK) u).
Qed.

(* ================= non-vacuity, on the host model (idna_clean) ================= *)
Definition m_is (o : option url) (expect : string) : bool :=
  match o with Some u => list_eqb (ser u) (B expect) && m_fix u && negb (Known_file_drive u) | None => false end.

(* joins against a file base: path-relative with dot segments, path-absolute (the host is kept), two slashes (a new
   host), "file:" + relative path, a drive-letter reference (the base host goes; the result is in Known_file_drive and so
   outside the class), a non-file reference; a file reference against a non-file base; on file records: the port and
   credential setters refuse, set_scheme gives a special record (with a host) or refuses (without), set_host(None) *)
Example reach8_example :
  m_is (m_join "file://h.x/a/b?q#f" "c/../d e") "file://h.x/a/d%20e" = true
  /\ m_is (m_join "file://h.x/a/b?q#f" "/x/./y?k") "file://h.x/x/y?k" = true
  /\ m_is (m_join "file://h.x/a/b" "//g.y/z") "file://g.y/z" = true
  /\ m_is (m_join "file://h.x/a/b" "file:c#g") "file://h.x/a/c#g" = true
  /\ m_is (m_join "file://h.x/a/b" "\\localhost\z") "file:///z" = true
  /\ m_is (m_join "file://h.x/a/b" "https://g.y/z") "https://g.y/z" = true
  /\ m_is (m_join "http://h.x/a/b" "file:c") "file:///c" = true
  /\ m_is (m_join "http://h.x/a/b" "file://g.y/c") "file://g.y/c" = true
  /\ m_is (m_hist "file://h.x/a" [OSetPort (Some 8080); OSetUsername (B "u"); OSetPassword (Some (B "p")); OQPort (B "1")]) "file://h.x/a" = true
  /\ m_is (m_hist "file://h.x/a b?q#f" [OSetScheme (B "https")]) "https://h.x/a%20b?q#f" = true
  /\ m_is (m_hist "file:///a" [OSetScheme (B "http"); OQProtocol (B "ws:")]) "file:///a" = true
  /\ m_is (m_hist "file://h.x/a?q" [OSetHost None]) "file:///a?q" = true
  /\ m_is (m_hist "file://h.x/x" [OSetPath (B "a/../b?c")]) "file://h.x/b%3Fc" = true
  /\ m_is (m_hist "file:///x" [OSetPath (B "\\a/../b")]) "file:///b" = true
  /\ m_is (m_hist "file:///x" [OQPathname (B "a/../b#c")]) "file:///b%23c" = true
  /\ file_abs_ref (file_curl host_display None (B "/a") None None) (B "file://g.y/c")
     && file_path_op (file_curl host_display None (B "/x") None None) (OSetPath (B "\\a/../b"))
     && file_op8 (OSetHost None) && file_op8 (OQProtocol (B "ws:")) && file_op8 (OSetPort (Some 8080)) = true.
Proof. vm_compute. repeat split. Qed.

(* why the premise of file_path_op for Url::set_path: on a file record without a host an argument without a leading
   slash is merged differently - "a/../b" keeps "a" (the serialization "file://" ends with '/', parse_path_start adds
   none, the first segment starts AT path_start and pop_path finds no slash in front of it); a fixpoint all the same *)
Example file_set_path_no_slash :
  m_is (m_hist "file:///x" [OSetPath (B "a/../b")]) "file:///a/b" = true
  /\ m_is (m_hist "file:///x" [OSetPath (B "/a/../b")]) "file:///b" = true
  /\ file_path_op (file_curl host_display None (B "/x") None None) (OSetPath (B "a/../b")) = false.
Proof. vm_compute. repeat split. Qed.
