(* Proofs/C02_FileParse.v - L1 for parse_file without a base: every result of Url::parse on an input with the file
   scheme (any encoding override, no base) that is outside Known_file_drive is a canonical file record (FileCanon),
   hence a fixpoint of re-parsing.
   The three entries of parse_file (two slashes: file host state; one slash; no slash) all reach the path loop on
     pre "/"   with pre = "file://" [host]
   whose output is characterised by C02_FileL1.loop_inv_f: the collapse of a canonical path (fixup_norm: the
   collapse is again  pre "/" seg "/" ... "/" last  with the first of several segments not empty), or a path that
   begins with a normalised drive letter - which Known_file_drive contains (drive_known).
   Host clauses used: HostRT, host_above, "Host::parse never returns the empty host" (first clause of host_nonempty)
   and the NEW clause host_no_wdl: the display of a parsed host is no drive letter ('|' and ':' are forbidden host
   code points; proved of Model/Host.v in C02_FileHost.v). *)
From Coq Require Import String.
From RU Require Import Base.Prelude Base.Utf8 Base.Utf8Facts Model.AsciiSet Gen.Tables
  Model.PercentEncoding Model.HostT Model.UrlRecord Model.Parser Model.Setters Model.WF
  Proofs.ListN Proofs.C14_Set Proofs.C14_Enc Proofs.C14_Views Proofs.C02_Enc Proofs.C02_Parts
  Proofs.C02_Opaque Proofs.C02_Path Proofs.C02_PathL1 Proofs.C02_Reach Proofs.C02_AuthParts
  Proofs.C02_Auth Proofs.C02_AuthWf Proofs.C02_PathSp Proofs.C02_AuthSp Proofs.C02_AuthMain Proofs.C02_SetQF Proofs.C02_Canon
  Proofs.C02_JoinTail Proofs.C02_JoinAbs Proofs.C02_JoinPath Proofs.C02_Ovr
  Proofs.C02_File Proofs.C02_FileL1 Proofs.C02_FileCanon.
Open Scope N_scope.
Open Scope list_scope.

(* the new host clause: the display of a parsed host is not a Windows drive letter *)
Definition host_no_wdl (hp : list N -> result host) (hd : host -> list N) : Prop :=
  forall s h, hp s = Ok h -> is_wdl (hd h) = false.

(* ================= the collapse of leading slashes of a canonical path ================= *)
Definition first_nonempty (segs : list (list N)) : Prop := match segs with [] => True | s :: _ => s <> [] end.

Lemma drop_slash_no_slash t : no_slash t = true -> drop_while is_slash t = t.
Proof.
  destruct t as [|c r]; [reflexivity|]. unfold no_slash. cbn [forallb]. intros H.
  apply andb_true_iff in H. destruct H as [H _]. apply negb_true_iff in H. cbn [drop_while]. unfold is_slash. rewrite H. reflexivity.
Qed.

Lemma drop_slash_segs segs : forall last, forallb good_seg_sp segs = true -> good_seg_sp last = true ->
  exists segs2 last2, drop_while is_slash (segs_text segs ++ last) = segs_text segs2 ++ last2
    /\ forallb good_seg_sp segs2 = true /\ good_seg_sp last2 = true /\ first_nonempty segs2.
Proof.
  induction segs as [|s r IH]; intros last Hs Hl.
  - exists [], last. cbn [segs_text map concat app]. split; [|repeat split; assumption].
    apply drop_slash_no_slash. exact (proj1 (proj2 (good_seg_sp_parts last Hl))).
  - cbn [forallb] in Hs. apply andb_true_iff in Hs. destruct Hs as [Hs Hr].
    unfold segs_text. cbn [map concat]. fold (segs_text r). rewrite <- app_assoc.
    destruct s as [|c s'].
    + cbn [app drop_while]. replace (is_slash 47) with true by reflexivity. exact (IH last Hr Hl).
    + exists ((c :: s') :: r), last. split; [|split; [|split; [exact Hl | discriminate]]].
      * destruct (good_seg_sp_parts _ Hs) as (_ & Hn & _). unfold no_slash in Hn. cbn [forallb] in Hn.
        apply andb_true_iff in Hn. destruct Hn as [Hn _]. apply negb_true_iff in Hn.
        cbn [app drop_while]. unfold is_slash. rewrite Hn.
        unfold segs_text. cbn [map concat]. rewrite <- !app_assoc. reflexivity.
      * cbn [forallb]. rewrite Hs, Hr. reflexivity.
Qed.

Lemma fixup_norm pre segs last : forallb good_seg_sp segs = true -> good_seg_sp last = true ->
  exists segs2 last2, file_path_fixup STFile (nlen pre) (Bs pre segs ++ last) = pre ++ path_text segs2 last2
    /\ forallb good_seg_sp segs2 = true /\ good_seg_sp last2 = true /\ first_nonempty segs2.
Proof.
  intros Hs Hl. destruct (drop_slash_segs segs last Hs Hl) as (segs2 & last2 & E & G1 & G2 & G3).
  exists segs2, last2. split; [|repeat split; assumption].
  unfold file_path_fixup, Bs. cbn [st_is_file]. rewrite <- !app_assoc.
  rewrite nskipn_app_len, nfirstn_app_len. cbn [app drop_while]. replace (is_slash 47) with true by reflexivity.
  rewrite E. reflexivity.
Qed.

(* ================= the path of a file record, Known_file_drive ================= *)
Lemma split_on_aux_seg s : forall cur X, no_slash s = true -> split_on_aux 47 cur (s ++ X) = split_on_aux 47 (rev s ++ cur) X.
Proof.
  induction s as [|c s IH]; intros cur X H; [reflexivity|].
  unfold no_slash in H. cbn [forallb] in H. apply andb_true_iff in H. destruct H as [H1 H2]. apply negb_true_iff in H1.
  cbn [app split_on_aux]. rewrite H1. rewrite IH by exact H2. cbn [rev]. rewrite <- app_assoc. reflexivity.
Qed.

Lemma split_on_aux_segs segs : forall last, forallb no_slash segs = true -> no_slash last = true ->
  split_on_aux 47 [] (segs_text segs ++ last) = segs ++ [last].
Proof.
  induction segs as [|s r IH]; intros last Hs Hl.
  - cbn [segs_text map concat app]. rewrite <- (app_nil_r last) at 1. rewrite split_on_aux_seg by exact Hl.
    cbn [split_on_aux]. rewrite app_nil_r, rev_involutive. reflexivity.
  - cbn [forallb] in Hs. apply andb_true_iff in Hs. destruct Hs as [Hs Hr].
    unfold segs_text. cbn [map concat]. fold (segs_text r). rewrite <- !app_assoc.
    rewrite split_on_aux_seg by exact Hs. cbn [app split_on_aux]. replace (47 =? 47) with true by reflexivity.
    rewrite app_nil_r, rev_involutive. rewrite (IH last Hr Hl). reflexivity.
Qed.

Lemma split_on_path_text segs last : forallb no_slash segs = true -> no_slash last = true ->
  split_on 47 (path_text segs last) = [] :: segs ++ [last].
Proof.
  intros Hs Hl. unfold split_on, path_text. cbn [split_on_aux]. replace (47 =? 47) with true by reflexivity.
  cbn [rev]. f_equal. exact (split_on_aux_segs segs last Hs Hl).
Qed.

Lemma good_segs_sp_no_slash segs : forallb good_seg_sp segs = true -> forallb no_slash segs = true.
Proof. apply forallb_impl. intros s H. exact (proj1 (proj2 (good_seg_sp_parts s H))). Qed.

Section FileRec.
Variable hd : host -> list N.
Notation file_curl := (file_curl hd).
Notation file_front := (file_front hd).
Notation file_pre := (file_pre hd).

Lemma file_curl_path ho T q f : path_of (file_curl ho T q f) = T.
Proof.
  unfold path_of, file_curl, qf_url. cbn [query_start fragment_start path_start ser].
  unfold C02_File.file_pre. rewrite <- !app_assoc.
  destruct q as [x|]; cbn [qf_qs].
  - rewrite nskipn_app_len. rewrite nlen_app. replace (nlen (file_front ho) + nlen T - nlen (file_front ho)) with (nlen T) by lia.
    apply nfirstn_app_len.
  - destruct f as [y|]; cbn [qf_fs qf_qtext].
    + rewrite nskipn_app_len. rewrite nlen_app.
      replace (nlen (file_front ho) + nlen T + nlen (@nil N) - nlen (file_front ho)) with (nlen T) by (unfold nlen; cbn [length]; lia).
      apply nfirstn_app_len.
    + rewrite nskipn_app_len. unfold qf_text. cbn [qf_qtext qf_ftext app]. apply app_nil_r.
Qed.

Lemma file_curl_is_file ho T q f : is_file (file_curl ho T q f) = true.
Proof.
  unfold is_file, scheme_of, file_curl, qf_url. cbn [scheme_end ser].
  unfold C02_File.file_pre, C02_File.file_front, s_file_css, s_css. rewrite <- !app_assoc.
  change 4 with (nlen s_file). rewrite nfirstn_app_len. reflexivity.
Qed.

(* outside Known_file_drive the canonical segments of a file record do not begin like a drive letter *)
Lemma not_drive_fsegs ho segs last q f :
  Known_file_drive (file_curl ho (path_text segs last) q f) = false ->
  forallb good_seg_sp segs = true -> good_seg_sp last = true ->
  forallb fseg_ok segs = true /\ fseg_ok last = true.
Proof.
  intros Hk Hs Hl. unfold Known_file_drive in Hk. rewrite file_curl_is_file, file_curl_path in Hk. cbn [andb] in Hk.
  rewrite split_on_path_text in Hk
    by (try apply good_segs_sp_no_slash; try exact Hs; exact (proj1 (proj2 (good_seg_sp_parts last Hl)))).
  cbn [existsb] in Hk. rewrite existsb_app in Hk. cbn [existsb] in Hk. rewrite orb_false_r in Hk.
  apply orb_false_iff in Hk. destruct Hk as [_ Hk]. apply orb_false_iff in Hk. destruct Hk as [Hk1 Hk2].
  split.
  - apply forallb_forall. intros s Hin. unfold fseg_ok.
    rewrite (proj1 (forallb_forall _ _) Hs s Hin). cbn [andb].
    destruct (wdl_like s) eqn:E; [|reflexivity].
    assert (existsb wdl_like segs = true) as Hx by (apply existsb_exists; exists s; split; assumption).
    rewrite Hx in Hk1. discriminate Hk1.
  - unfold fseg_ok. rewrite Hl, Hk2. reflexivity.
Qed.

(* a path that begins with a normalised drive letter is inside Known_file_drive *)
Lemma drive_known ho a X q f : is_alpha a = true ->
  Known_file_drive (file_curl ho ([47; a; 58; 47] ++ X) q f) = true.
Proof.
  intros Ha. unfold Known_file_drive. rewrite file_curl_is_file, file_curl_path. cbn [andb].
  assert ((a =? 47) = false) as Ea by (unfold is_alpha, is_upper, is_lower in Ha; lia).
  unfold split_on. cbn [app split_on_aux]. rewrite Ea. replace (47 =? 47) with true by reflexivity.
  replace (58 =? 47) with false by reflexivity. cbn [rev app existsb wdl_like]. rewrite Ha. cbn [N.eqb orb andb].
  replace (58 =? 58) with true by reflexivity. reflexivity.
Qed.
End FileRec.

(* ================= the file host scan ================= *)
Lemma file_host_scan_out l : forall acc t rem, usv_list l -> file_host_scan acc l = (t, rem) ->
  usv_list rem /\ path_head rem.
Proof.
  induction l as [|c r IH]; intros acc t rem Hu H; cbn [file_host_scan] in H.
  - inversion H; subst. split; [constructor | exact I].
  - pose proof Hu as Hu0. apply usv_cons in Hu. destruct Hu as [Hc Hr].
    destruct (is_tnl c) eqn:Et; [exact (IH _ _ _ Hr H)|].
    destruct (is_path_end c) eqn:Ep; [|exact (IH _ _ _ Hr H)].
    inversion H; subst. split; [exact Hu0 | split; assumption].
Qed.

(* ================= the path loop from  pre "/" ================= *)
Section LoopOut.
Variable dbg : bool.
Variable pre : list N.
Notation ps := (nlen pre).

Definition path_good (hh : bool) (s' : list N) (hh' : bool) : Prop :=
  exists segs last, s' = pre ++ path_text segs last /\ forallb good_seg_sp segs = true /\ good_seg_sp last = true
    /\ first_nonempty segs /\ (hh' = hh \/ hh' = false).
Definition path_drive (hh : bool) (s' : list N) (hh' : bool) : Prop :=
  exists a X, is_alpha a = true /\ s' = pre ++ [47; a; 58; 47] ++ X.

Lemma loop_out l hh s' hh' rem : usv_list l ->
  parse_path_loop dbg CUrlParser STFile ps l (pre ++ [47]) (nlen (pre ++ [47])) [] hh = POk (s', hh', rem) ->
  usv_list rem /\ (path_good hh s' hh' \/ path_drive hh s' hh').
Proof.
  intros Hu H.
  assert (Bs pre [] ++ [] = pre ++ [47]) as E0 by (unfold Bs; cbn [segs_text map concat]; rewrite !app_nil_r; reflexivity).
  assert (nlen (Bs pre []) = nlen (pre ++ [47])) as E1 by (unfold Bs; cbn [segs_text map concat]; rewrite app_nil_r; reflexivity).
  rewrite <- E1 in H. rewrite <- E0 in H.
  destruct (loop_inv_f pre dbg l [] [] [] hh s' hh' rem Hu pend_nil_ok eq_refl eq_refl eq_refl eq_refl (fun _ => eq_refl) H) as [R1 R2].
  split; [rewrite R1; apply usv_cbb_rest; exact Hu|].
  destruct R2 as [(segs' & last' & -> & G1 & G2 & G3) | (a & Ha & X & ->)].
  - left. destruct (fixup_norm pre segs' last' G1 G2) as (segs2 & last2 & E & F1 & F2 & F3).
    exists segs2, last2. rewrite E. repeat split; assumption.
  - right. exists a, X. split; [exact Ha|]. unfold P0. rewrite <- app_assoc. reflexivity.
Qed.
End LoopOut.

(* the one-slash entry: the path state sees the slash itself, on "file://" *)
Lemma loop_one_slash dbg l : forall c af hh, inp_split_first l = (Some c, af) -> is_slash_or_bslash c = true ->
  parse_path_loop dbg CUrlParser STFile 7 l s_file_css 7 [] hh
  = parse_path_loop dbg CUrlParser STFile 7 af (s_file_css ++ [47]) 8 [] hh.
Proof.
  induction l as [|x r IH]; intros c af hh E Hc; [discriminate E|].
  destruct (is_tnl x) eqn:Et.
  - unfold inp_split_first in E. rewrite inp_next_tnl in E by exact Et. fold (inp_split_first r) in E.
    cbn [parse_path_loop]. rewrite Et. cbn [push_pending]. exact (IH c af hh E Hc).
  - rewrite inp_split_first_cons in E by exact Et. inversion E; subst x af.
    cbn [parse_path_loop]. rewrite Et. cbn [ctx_eqb negb st_is_special andb].
    unfold is_slash_or_bslash in Hc. rewrite andb_true_r. rewrite Hc. cbn [push_pending].
    reflexivity.
Qed.

(* ================= parse_file without a base ================= *)
Section ParseFile.
Variable dbg : bool.
Variable hp hpo : list N -> result host.
Variable hd : host -> list N.
Hypothesis HRT : HostRT hp hpo hd.
Hypothesis HAb : host_above hp hpo hd.
Hypothesis HNE : forall s, hp s <> Ok (HDomain []).
Hypothesis HW : host_no_wdl hp hd.
Variable ovr : option (list N -> list N).

Notation FileCanon := (FileCanon hp hd).
Notation file_curl := (file_curl hd).
Notation file_front := (file_front hd).

(* the end of every entry: query and fragment behind  front path, the record, the class *)
Lemma file_tail ho T rem u :
  usv_list rem -> fhost_ok hp hd ho -> nlen (file_front ho) <= U32_MAX_P ->
  (' (s3, qs, fs) <~ parse_query_and_fragment ovr CUrlParser STFile 4 (file_front ho ++ T) rem ;;
   POk (file_url s3 7 (nlen (file_front ho)) (fhost_hi ho) qs fs)) = POk u ->
  exists q f, u = file_curl ho T q f /\ opt_clean T_SPECIAL_QUERY q /\ opt_clean T_FRAGMENT f
    /\ opt_le (qf_qs (nlen (file_pre hd ho T)) q) U32_MAX_P /\ opt_le (qf_fs (nlen (file_pre hd ho T)) q f) U32_MAX_P.
Proof.
  intros Hu Hh Hb H.
  destruct (parse_query_and_fragment ovr CUrlParser STFile 4 (file_front ho ++ T) rem) as [[[s3 qs] fs]| |] eqn:E;
    cbn [pbind] in H; try discriminate H.
  apply pqf_out_g in E; [|exact Hu]. destruct E as (q & f & -> & -> & -> & Bq & Bf & Cq & Cf).
  inversion H; subst u. exists q, f. repeat split; assumption.
Qed.

Lemma file_good_out ho segs last q f :
  fhost_ok hp hd ho -> nlen (file_front ho) <= U32_MAX_P ->
  forallb good_seg_sp segs = true -> good_seg_sp last = true -> first_nonempty segs ->
  opt_clean T_SPECIAL_QUERY q -> opt_clean T_FRAGMENT f ->
  opt_le (qf_qs (nlen (file_pre hd ho (path_text segs last))) q) U32_MAX_P ->
  opt_le (qf_fs (nlen (file_pre hd ho (path_text segs last))) q f) U32_MAX_P ->
  Known_file_drive (file_curl ho (path_text segs last) q f) = false ->
  FileCanon (file_curl ho (path_text segs last) q f).
Proof.
  intros Hh Hb Hs Hl Hf Cq Cf Bq Bf Hk.
  destruct (not_drive_fsegs hd ho segs last q f Hk Hs Hl) as [F1 F2].
  apply FileCanon_intro. constructor; assumption.
Qed.

Lemma file_end ho hh s2 hh2 rem u :
  fhost_ok hp hd ho -> nlen (file_front ho) <= U32_MAX_P -> usv_list rem ->
  (path_good (file_front ho) hh s2 hh2 \/ path_drive (file_front ho) hh s2 hh2) ->
  (' (s3, qs, fs) <~ parse_query_and_fragment ovr CUrlParser STFile 4 s2 rem ;;
   POk (file_url s3 7 (nlen (file_front ho)) (fhost_hi ho) qs fs)) = POk u ->
  Known_file_drive u = false -> FileCanon u.
Proof.
  intros Hh Hb Hu [(segs & last & -> & G1 & G2 & G3 & _) | (a & X & Ha & ->)] H Hk.
  - destruct (file_tail ho _ rem u Hu Hh Hb H) as (q & f & -> & Cq & Cf & Bq & Bf).
    apply file_good_out; assumption.
  - destruct (file_tail ho _ rem u Hu Hh Hb H) as (q & f & -> & _).
    rewrite (drive_known hd ho a X q f Ha) in Hk. discriminate Hk.
Qed.

(* entries that leave no host: the loop runs from "file:///" *)
Lemma nohost_entry l s2 hh2 rem u : usv_list l ->
  parse_path_loop dbg CUrlParser STFile (nlen s_file_css) l (s_file_css ++ [47]) (nlen (s_file_css ++ [47])) [] false
  = POk (s2, hh2, rem) ->
  (' (s3, qs, fs) <~ parse_query_and_fragment ovr CUrlParser STFile 4 s2 rem ;;
   POk (file_url s3 7 7 HI_None qs fs)) = POk u ->
  Known_file_drive u = false -> FileCanon u.
Proof.
  intros Hl E H Hk. destruct (loop_out dbg s_file_css l false s2 hh2 rem Hl E) as [Hrem R].
  assert (nlen (file_front None) <= U32_MAX_P) as Hb by (vm_compute; discriminate).
  exact (file_end None false s2 hh2 rem u I Hb Hrem R H Hk).
Qed.

(* what parse_file does with the outcome of the file host scan (the code behind parse_file_host) *)
Definition fh_cont (x : list N * bool * host_internal * list N) : pres url :=
  let '(ser1, path_start_flag, hi, remaining) := x in
  host_end <~ to_u32 (nlen ser1) ;;
  ' (ser2, has_host, remaining2) <~
    (if path_start_flag
     then parse_path_start dbg CUrlParser STFile (negb (hi_eqb hi HI_None)) ser1 remaining
     else parse_path dbg CUrlParser STFile (negb (hi_eqb hi HI_None)) (nlen ser1) (ser1 ++ [47]) remaining) ;;
  let '(ser3, host_end3, hi3) :=
    if negb has_host then (nfirstn 7 ser2 ++ nskipn host_end ser2, 7, HI_None) else (ser2, host_end, hi) in
  ' (ser4, qs, fs) <~ parse_query_and_fragment ovr CUrlParser STFile 4 ser3 remaining2 ;;
  POk (file_url ser4 7 host_end3 hi3 qs fs).

Lemma fh_cont_eq ser1 (flag : bool) hi remaining :
  fh_cont (ser1, flag, hi, remaining)
  = (host_end <~ to_u32 (nlen ser1) ;;
     ' (ser2, has_host, remaining2) <~
       (if flag
        then parse_path_start dbg CUrlParser STFile (negb (hi_eqb hi HI_None)) ser1 remaining
        else parse_path dbg CUrlParser STFile (negb (hi_eqb hi HI_None)) (nlen ser1) (ser1 ++ [47]) remaining) ;;
     let '(ser3, host_end3, hi3) :=
       if negb has_host then (nfirstn 7 ser2 ++ nskipn host_end ser2, 7, HI_None) else (ser2, host_end, hi) in
     ' (ser4, qs, fs) <~ parse_query_and_fragment ovr CUrlParser STFile 4 ser3 remaining2 ;;
     POk (file_url ser4 7 host_end3 hi3 qs fs)).
Proof. reflexivity. Qed.

(* the file host state without a host (nothing before the path, a drive letter, or "localhost") *)
Lemma fhost_none_entry R u : usv_list R ->
  fh_cont (s_file_css, false, HI_None, R) = POk u ->
  Known_file_drive u = false -> FileCanon u.
Proof.
  intros HR H Hk. rewrite fh_cont_eq in H. change (to_u32 (nlen s_file_css)) with (POk 7) in H. cbn [pbind hi_eqb negb] in H.
  unfold parse_path in H.
  destruct (parse_path_loop dbg CUrlParser STFile (nlen s_file_css) R (s_file_css ++ [47]) (nlen (s_file_css ++ [47])) [] false)
    as [[[s2 hh2] rem]| |] eqn:E; cbn [pbind] in H; try discriminate H.
  destruct hh2; cbn [negb] in H.
  - exact (nohost_entry R s2 true rem u HR E H Hk).
  - rewrite nfirstn_nskipn in H. exact (nohost_entry R s2 false rem u HR E H Hk).
Qed.

Definition not_localhost (h : host) : bool :=
  match h with HDomain d => negb (list_eqb d s_localhost) | _ => true end.

Lemma fhost_ok_parsed s h : hp s = Ok h -> not_localhost h = true -> fhost_ok hp hd (Some h).
Proof.
  intros Hp Hn. assert (h <> HDomain []) as Hne by (intros ->; exact (HNE s Hp)).
  destruct HRT as (H1 & _). destruct (H1 s h Hp Hne) as [Ht Hrt].
  cbn [fhost_ok]. split; [exact Hne|]. split; [intros ->; discriminate Hn|]. split; [exact Ht|]. split; [exact Hrt|].
  split; [exact (proj1 HAb s h Hp) | exact (HW s h Hp)].
Qed.

(* the path loop behind a host *)
Lemma host_loop_end s h l s2 hh2 rem u : hp s = Ok h -> not_localhost h = true ->
  nlen (s_file_css ++ hd h) <= U32_MAX_P -> usv_list l ->
  parse_path_loop dbg CUrlParser STFile (nlen (s_file_css ++ hd h)) l ((s_file_css ++ hd h) ++ [47])
    (nlen ((s_file_css ++ hd h) ++ [47])) [] true = POk (s2, hh2, rem) ->
  (let '(ser3, host_end3, hi3) :=
     if negb hh2 then (nfirstn 7 s2 ++ nskipn (nlen (s_file_css ++ hd h)) s2, 7, HI_None)
     else (s2, nlen (s_file_css ++ hd h), hi_of_host h) in
   ' (ser4, qs, fs) <~ parse_query_and_fragment ovr CUrlParser STFile 4 ser3 rem ;;
   POk (file_url ser4 7 host_end3 hi3 qs fs)) = POk u ->
  Known_file_drive u = false -> FileCanon u.
Proof.
  intros Hp Hn Hb Hl E H Hk. pose proof (fhost_ok_parsed s h Hp Hn) as Hh.
  destruct (loop_out dbg (s_file_css ++ hd h) l true s2 hh2 rem Hl E) as [Hrem R].
  destruct hh2; cbn [negb] in H.
  - exact (file_end (Some h) true s2 true rem u Hh Hb Hrem R H Hk).
  - (* the host flag was cleared: the host text is removed *)
    assert (exists Y, s2 = (s_file_css ++ hd h) ++ Y) as [Y EY].
    { destruct R as [(segs & last & -> & _) | (a & X & _ & ->)]; eexists; reflexivity. }
    assert (nfirstn 7 s2 ++ nskipn (nlen (s_file_css ++ hd h)) s2 = s_file_css ++ Y) as E3.
    { rewrite EY. rewrite nskipn_app_len. rewrite <- app_assoc. change 7 with (nlen s_file_css). rewrite nfirstn_app_len. reflexivity. }
    rewrite E3 in H.
    assert (path_good (file_front None) false (s_file_css ++ Y) false \/ path_drive (file_front None) false (s_file_css ++ Y) false) as R'.
    { destruct R as [(segs & last & E2 & G1 & G2 & G3 & _) | (a & X & Ha & E2)]; rewrite EY in E2; apply app_inv_head in E2; subst Y.
      - left. exists segs, last. repeat split; try assumption. left. reflexivity.
      - right. exists a, X. split; [exact Ha | reflexivity]. }
    assert (nlen (file_front None) <= U32_MAX_P) as Hb0 by (vm_compute; discriminate).
    exact (file_end None false _ false rem u I Hb0 Hrem R' H Hk).
Qed.

(* the file host state with a host *)
Lemma fhost_some_entry s h R u : hp s = Ok h -> not_localhost h = true -> usv_list R ->
  fh_cont (s_file_css ++ hd h, true, hi_of_host h, R) = POk u ->
  Known_file_drive u = false -> FileCanon u.
Proof.
  intros Hp Hn HR H Hk. pose proof (fhost_ok_parsed s h Hp Hn) as Hh.
  destruct Hh as (Hne & _ & Ht & _). rewrite fh_cont_eq in H.
  destruct (to_u32 (nlen (s_file_css ++ hd h))) as [he| |] eqn:Eu; cbn [pbind] in H; try discriminate H.
  apply to_u32_inv in Eu. destruct Eu as [-> Hb].
  rewrite (hi_of_host_none h Hne) in H. cbn [negb] in H.
  unfold parse_path_start in H. destruct (inp_split_first R) as [mc rm] eqn:Es. cbn [st_is_special] in H.
  rewrite (host_text_last (hd h) s_file_css Ht) in H. cbn [negb] in H.
  assert (forall l, usv_list l ->
            (' (ser2, has_host, remaining2) <~ parse_path dbg CUrlParser STFile true (nlen (s_file_css ++ hd h)) ((s_file_css ++ hd h) ++ [47]) l ;;
             let '(ser3, host_end3, hi3) :=
               if negb has_host then (nfirstn 7 ser2 ++ nskipn (nlen (s_file_css ++ hd h)) ser2, 7, HI_None)
               else (ser2, nlen (s_file_css ++ hd h), hi_of_host h) in
             ' (ser4, qs, fs) <~ parse_query_and_fragment ovr CUrlParser STFile 4 ser3 remaining2 ;;
             POk (file_url ser4 7 host_end3 hi3 qs fs)) = POk u -> FileCanon u) as Hgo.
  { intros l Hl H0. unfold parse_path in H0.
    destruct (parse_path_loop dbg CUrlParser STFile (nlen (s_file_css ++ hd h)) l ((s_file_css ++ hd h) ++ [47])
                (nlen ((s_file_css ++ hd h) ++ [47])) [] true) as [[[s2 hh2] rem]| |] eqn:E; cbn [pbind] in H0; try discriminate H0.
    exact (host_loop_end s h l s2 hh2 rem u Hp Hn Hb Hl E H0 Hk). }
  destruct mc as [c|].
  - assert (usv_list rm) as Hrm.
    { unfold inp_split_first in Es. destruct (inp_next R) as [[c' r']|] eqn:En; inversion Es; subst.
      exact (inp_next_usv R c rm HR En). }
    destruct (is_slash_or_bslash c); [exact (Hgo rm Hrm H) | exact (Hgo R HR H)].
  - exact (Hgo R HR H).
Qed.

Lemma inp_split_first_usv l c r : usv_list l -> inp_split_first l = (Some c, r) -> usv_list r.
Proof.
  intros Hl E. unfold inp_split_first in E. destruct (inp_next l) as [[c' r']|] eqn:En; inversion E; subst.
  exact (inp_next_usv l c r Hl En).
Qed.

Lemma pbind_POk {A B : Type} (a : A) (f : A -> pres B) : pbind (POk a) f = f a.
Proof. reflexivity. Qed.

(* the three outcomes of the file host scan *)
Lemma pfh_cases an : usv_list an ->
  (exists R, usv_list R /\ parse_file_host hp hd s_file_css an = POk (s_file_css, false, HI_None, R))
  \/ (exists s h R, usv_list R /\ hp s = Ok h /\ not_localhost h = true
        /\ parse_file_host hp hd s_file_css an = POk (s_file_css ++ hd h, true, hi_of_host h, R))
  \/ (forall x, parse_file_host hp hd s_file_css an <> POk x).
Proof.
  intros Han. unfold parse_file_host, file_host. destruct (file_host_scan [] an) as [t rem0] eqn:Esc.
  destruct (file_host_scan_out an [] t rem0 Han Esc) as [Hrem0 _].
  destruct (is_wdl t) eqn:Ew.
  - left. exists an. split; [exact Han | reflexivity].
  - destruct t as [|c0 t'].
    + left. exists rem0. split; [exact Hrem0 | reflexivity].
    + destruct (hp (c0 :: t')) as [h|e] eqn:Ehp; cbn [of_result pbind].
      * destruct (not_localhost h) eqn:En.
        -- right. left. exists (c0 :: t'), h, rem0. split; [exact Hrem0|]. split; [exact Ehp|]. split; [exact En|].
           destruct h as [d| |]; try reflexivity. unfold not_localhost in En. apply negb_true_iff in En. rewrite En. reflexivity.
        -- left. exists rem0. split; [exact Hrem0|].
           destruct h as [d| |]; try discriminate En. unfold not_localhost in En. apply negb_false_iff in En. rewrite En. reflexivity.
      * right. right. intros x. discriminate.
Qed.

(* the file host state: everything behind "file://" *)
Lemma file_host_state an u : usv_list an ->
  pbind (parse_file_host hp hd s_file_css an) fh_cont = POk u ->
  Known_file_drive u = false -> FileCanon u.
Proof.
  intros Han H Hk.
  destruct (pfh_cases an Han) as [(R & HR & E) | [(s & h & R & HR & Hp & Hn & E) | E]].
  - rewrite E, pbind_POk in H. exact (fhost_none_entry R u HR H Hk).
  - rewrite E, pbind_POk in H. exact (fhost_some_entry s h R u Hp Hn HR H Hk).
  - exfalso. destruct (parse_file_host hp hd s_file_css an) as [x| |]; [exact (E x eq_refl) | discriminate H | discriminate H].
Qed.

(* one slash: the path state sees it *)
Lemma file_one_slash l c af u : usv_list af -> inp_split_first l = (Some c, af) -> is_slash_or_bslash c = true ->
  (' (ser2, _, remaining) <~ parse_path dbg CUrlParser STFile false 7 s_file_css l ;;
   ' (ser3, qs, fs) <~ parse_query_and_fragment ovr CUrlParser STFile 4 ser2 remaining ;;
   POk (file_url ser3 7 7 HI_None qs fs)) = POk u ->
  Known_file_drive u = false -> FileCanon u.
Proof.
  intros Haf E1 Es1 H Hk. unfold parse_path in H. change (nlen s_file_css) with 7 in H.
  rewrite (loop_one_slash dbg l c af false E1 Es1) in H.
  destruct (parse_path_loop dbg CUrlParser STFile 7 af (s_file_css ++ [47]) 8 [] false) as [[[s2 hh2] rem]| |] eqn:E;
    cbn [pbind] in H; try discriminate H.
  exact (nohost_entry af s2 hh2 rem u Haf E H Hk).
Qed.

(* no slash *)
Lemma file_no_slash l u : usv_list l ->
  (' (s2, _, rem) <~ parse_path dbg CUrlParser STFile false 7 (s_file_css ++ [47]) l ;;
   ' (s3, qs, fs) <~ parse_query_and_fragment ovr CUrlParser STFile 4 s2 rem ;;
   POk (file_url s3 7 7 HI_None qs fs)) = POk u ->
  Known_file_drive u = false -> FileCanon u.
Proof.
  intros Hl H Hk. unfold parse_path in H.
  destruct (parse_path_loop dbg CUrlParser STFile 7 l (s_file_css ++ [47]) (nlen (s_file_css ++ [47])) [] false)
    as [[[s2 hh2] rem]| |] eqn:E; cbn [pbind] in H; try discriminate H.
  exact (nohost_entry l s2 hh2 rem u Hl E H Hk).
Qed.

(* L1 for parse_file without a base *)
Theorem parse_file_nobase l u : usv_list l ->
  parse_file dbg hp hd ovr CUrlParser STFile None l = POk u ->
  Known_file_drive u = false -> FileCanon u.
Proof.
  intros Hl H Hk. unfold parse_file in H.
  destruct (inp_split_first l) as [fc af] eqn:E1.
  destruct (match fc with Some c => is_slash_or_bslash c | None => false end) eqn:Es1.
  - destruct fc as [c|]; [|discriminate Es1]. pose proof (inp_split_first_usv l c af Hl E1) as Haf.
    destruct (inp_split_first af) as [nc an] eqn:E2.
    destruct (match nc with Some c => is_slash_or_bslash c | None => false end) eqn:Es2.
    + destruct nc as [c2|]; [|discriminate Es2]. pose proof (inp_split_first_usv af c2 an Haf E2) as Han.
      exact (file_host_state an u Han H Hk).
    + assert ((if negb (starts_with_wdl_segment af) then (s_file_css, 7, HI_None) else (s_file_css, 7, HI_None))
              = (s_file_css, 7, HI_None)) as Eif by (destruct (negb (starts_with_wdl_segment af)); reflexivity).
      rewrite Eif in H. exact (file_one_slash l c af u Haf E1 Es1 H Hk).
  - exact (file_no_slash l u Hl H Hk).
Qed.

(* from the input text *)
Theorem parse_file_Canon5 input sch rem u : usv_list input ->
  parse_scheme CUrlParser (input_new_trim_c0 input) = Some (sch, rem) -> scheme_type_of sch = STFile ->
  parse_url dbg hp hpo hd ovr None input = POk u ->
  Known_file_drive u = false -> FileCanon u.
Proof.
  intros Hu Hs Hst H Hk. unfold parse_url in H. rewrite Hs in H. unfold parse_with_scheme in H. rewrite Hst in H.
  destruct (to_u32 (nlen sch)) as [se| |]; cbn [pbind] in H; try discriminate H.
  exact (parse_file_nobase rem u (scheme_rem_usv input sch rem Hu Hs) H Hk).
Qed.

End ParseFile.
