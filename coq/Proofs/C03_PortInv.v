(* Proofs/C03_PortInv.v - "a scheme-default port is never stored" (port() vs port_or_known_default()).
   PN u : the stored port is not the default port of the stored scheme.  wf_b does not say so; it is an
   invariant of histories:
     pn_step  : every call of the 19 mutators that C03_step covers preserves PN (set_port and the quirks
                set_port / set_host normalise the port they store, set_scheme re-normalises the old one, every
                other mutator leaves scheme and port as they were or clears the port);
     file records have no port;
     reach03a_pn : hence PN for every reach03a record, GIVEN that the parser never stores a default port
                (ParsePN, a named hypothesis: parse_port normalises against the scheme being parsed, parse_relative
                copies the port of a base with the same scheme; the inversion of Parser::parse_url for this clause
                is not done here). *)
From Coq Require Import String.
From RU Require Import Base.Prelude Base.Utf8 Model.AsciiSet Gen.Tables Model.PercentEncoding
  Model.HostT Model.UrlRecord Model.Parser Model.Setters Model.WF Model.FilePath
  Proofs.ListN Proofs.C02_Reach Proofs.C02_AuthParts
  Proofs.C03_WF Proofs.C06_List Proofs.C06_WFI Proofs.C06_Tail Proofs.C06_Steps Proofs.C06_Suffix Proofs.C06_Front Proofs.C06_Atomic Proofs.C06_FragQuery
  Proofs.C06_Port Proofs.C06_HostNone Proofs.C06_Host Proofs.C06_Segments Proofs.C06_Path Proofs.C06_PathNoAuth Proofs.C06_Main
  Proofs.C06_PathMore Proofs.C06_Quirks Proofs.C05_CompSteps
  Proofs.C04_ParseTotal Proofs.C03_ReachParts Proofs.C03_ReachAll Proofs.C03_Reachability Proofs.C20_Path Proofs.C20_RT.
Open Scope N_scope.
Open Scope list_scope.

Definition PN (u : url) : Prop := forall sch p, scheme u = Some sch -> port u = Some p -> default_port sch <> Some p.

Lemma pn_same u u' : scheme u' = scheme u -> port u' = port u -> PN u -> PN u'.
Proof. intros Es Ep H sch p Hs Hp. rewrite Es in Hs. rewrite Ep in Hp. exact (H sch p Hs Hp). Qed.

Lemma pn_none u' : port u' = None -> PN u'.
Proof. intros Ep sch p _ Hp. rewrite Ep in Hp. discriminate. Qed.

Lemma opt_eqb_some_false p d : opt_eqb (Some p) d = false -> d <> Some p.
Proof. intros H ->. cbn in H. rewrite N.eqb_refl in H. discriminate. Qed.

Lemma norm_port_pn sch p x : norm_port sch p = Some x -> default_port sch <> Some x.
Proof.
  unfold norm_port. destruct p as [y|]; [|discriminate]. destruct (opt_eqb (Some y) (default_port sch)) eqn:E; [discriminate|].
  intros H. inversion H; subst. exact (opt_eqb_some_false _ _ E).
Qed.

(* the parser's port state never returns the default port it is given *)
Lemma parse_port_pn ctx dflt l p r : parse_port ctx dflt l = POk (Some p, r) -> dflt <> Some p.
Proof.
  unfold parse_port. destruct (parse_port_loop ctx l 0 false) as [[[p0 any] rm]| |]; cbn [pbind]; try discriminate.
  destruct (negb any && ctx_eqb ctx CSetter && negb (inp_is_empty rm)); [discriminate|].
  destruct (negb any || opt_eqb (Some p0) dflt) eqn:Ed; intros H; inversion H; subst.
  apply orb_false_iff in Ed. exact (opt_eqb_some_false _ _ (proj2 Ed)).
Qed.

Section Steps.
Variable dbg : bool.
Variable hp hpo : list N -> result host.
Variable hd : host -> list N.
Hypothesis HW : HostWf hp hpo hd.

Let HF : host_fns_ok hp hpo hd := HostWf_fns_ok hp hpo hd HW.

Lemma host_set_post_pn u u' h : host_set_post dbg hd u u' h -> PN u -> PN u'.
Proof. intros (_ & _ & Es & _ & _ & Ep & _). exact (pn_same u u' Es Ep). Qed.

(* ---------- path setters ---------- *)
Lemma set_path_pn u p u' : wfh u -> usv_list p -> auth_end_ok u ->
  (is_opaque_b u = true -> forallb no_qh p = true) -> path_bad u u' = false ->
  set_path dbg u p = Some u' -> PN u -> PN u'.
Proof.
  intros [W HT] Hp Hx Hq G H.
  assert (same_front dbg u u') as (Es & _ & _ & _ & Ep); [|exact (pn_same u u' Es Ep)].
  destruct (path_layouts u W) as [Ha|[NA|[Ho|M]]].
  - destruct (set_path_ok dbg u p u' W HT Ha Hp Hx H) as (_ & _ & F & _). exact F.
  - destruct (set_path_noauth_ok dbg u p u' W NA Hp H (path_bad_noauth u u' G NA)) as (_ & _ & F & _). exact F.
  - destruct (set_path_opaque_ok dbg u p u' W Ho Hp (Hq Ho) H) as (_ & _ & F & _). exact F.
  - destruct (set_path_marker_ok dbg u p u' W M Hp H) as [R _].
    destruct (R (path_bad_marker u u' W G M)) as (_ & _ & F & _). exact F.
Qed.

Lemma session_pn u ops u' st : wfh u -> Forall psm_op_usv ops -> path_bad u u' = false ->
  path_segments_session dbg u ops = Some (u', st) -> PN u -> PN u'.
Proof.
  intros [W HT] Hops G H K.
  destruct st; [|rewrite (path_segments_session_atomic dbg u ops u' _ H) by discriminate; exact K ..].
  assert (same_front dbg u u') as (Es & _ & _ & _ & Ep); [|exact (pn_same u u' Es Ep K)].
  destruct (path_layouts u W) as [Ha|[NA|[Ho|M]]].
  - destruct (path_segments_session_ok dbg u ops u' W HT Ha Hops H) as (_ & _ & F & _). exact F.
  - destruct (path_segments_session_noauth_ok dbg u ops u' W NA Hops H (path_bad_noauth u u' G NA)) as (_ & _ & F & _). exact F.
  - exfalso. unfold path_segments_session, path_segments_mut in H. rewrite (cannot_be_a_base_eval u W) in H.
    unfold is_opaque_b in Ho. rewrite Ho in H. cbn [bindo] in H. discriminate.
  - destruct (path_segments_session_marker_ok dbg u ops u' W M Hops H) as [R _].
    destruct (R (path_bad_marker u u' W G M)) as (_ & _ & F & _). exact F.
Qed.

Lemma q_set_pathname_pn u v u' : wfh u -> usv_list v -> auth_end_ok u -> path_bad u u' = false ->
  q_set_pathname dbg u v = Some u' -> PN u -> PN u'.
Proof.
  intros K Hv Hx G H. pose proof K as [W _].
  destruct (q_set_pathname_eval dbg u v W) as (sch & _ & E). rewrite E in H. clear E.
  destruct (byte_eqb (ser u) (scheme_end u + 1) 47) eqn:Hsl; cbn [negb] in H; [|inversion H; subst; exact (fun X => X)].
  apply (set_path_pn u _ u' K (q_pathname_arg_usv (scheme_type_of sch) (has_host u) v Hv) Hx); [|exact G | exact H].
  intros Ho. unfold is_opaque_b in Ho. rewrite Hsl in Ho. discriminate.
Qed.

(* ---------- host setters ---------- *)
Lemma set_host_some_pn u x u' st : wfh u -> host_bad u u' = false ->
  set_host dbg hp hpo hd u (Some x) = Some (u', st) -> PN u -> PN u'.
Proof using HW.
  intros [W HT] G H K. destruct (host_bad_premises u u' W G) as [X2 X1].
  destruct st; [|rewrite (set_host_atomic dbg hp hpo hd u (Some x) u' _ H) by discriminate; exact K ..].
  unfold set_host in H. rewrite (cannot_be_a_base_eval u W) in H. cbn [bindo] in H.
  destruct (byte_eqb (ser u) (scheme_end u + 1) 47) eqn:Hsl; cbn [negb] in H; [|discriminate].
  unfold u_scheme_type in H. rewrite (scheme_eval u W) in H. cbn [bindo] in H.
  match type of H with (if ?c then _ else _) = _ => destruct c end; [discriminate|].
  match type of H with (match ?sub with Some _ => _ | None => _ end) = _ => destruct sub as [hsub|] end; [|discriminate].
  match type of H with (match ?r with Ok _ => _ | Err _ => _ end) = _ => destruct r as [host|e] eqn:Er end; [|discriminate].
  assert (host_disp_ok hd host) as Hd.
  { destruct HF as (F1 & F2 & _).
    match type of Er with (if ?c then _ else _) = _ => destruct c end; [exact (F1 _ _ Er) | exact (F2 _ _ Er)]. }
  destruct (set_host_internal dbg hd u host None) as [u0|] eqn:E; cbn [bindo] in H; [|discriminate].
  inversion H; subst u0. pose proof (set_host_internal_hosti dbg hd u host None u' E) as Hi.
  apply (host_set_post_pn u u' host); [|exact K].
  apply (set_host_internal_post dbg hd u host u' W Hd); [|exact X2 | exact Hsl | exact E].
  intros Ha Hn. apply X1; [exact Ha | rewrite Hi; exact Hn].
Qed.

Lemma set_ip_host_pn u h u' st : wfh u -> host_disp_ok hd h -> host_bad u u' = false ->
  set_ip_host dbg hd u h = Some (u', st) -> PN u -> PN u'.
Proof using.
  intros [W HT] Hd G H K. destruct (host_bad_premises u u' W G) as [X2 X1].
  destruct st; [|rewrite (set_ip_host_atomic dbg hd u h u' _ H) by discriminate; exact K ..].
  pose proof H as H0. unfold set_ip_host in H0. rewrite (cannot_be_a_base_eval u W) in H0. cbn [bindo] in H0.
  destruct (byte_eqb (ser u) (scheme_end u + 1) 47) eqn:Hsl; cbn [negb] in H0; [|discriminate].
  destruct (set_host_internal dbg hd u h None) as [u0|] eqn:E; cbn [bindo] in H0; [|discriminate].
  inversion H0; subst u0. pose proof (set_host_internal_hosti dbg hd u h None u' E) as Hi.
  apply (host_set_post_pn u u' h); [|exact K].
  apply (set_host_internal_post dbg hd u h u' W Hd); [|exact X2 | exact Hsl | exact E].
  intros Ha Hn. apply X1; [exact Ha | rewrite Hi; exact Hn].
Qed.

Lemma q_host_port_pn sch rem p : q_host_port sch rem = Some (Some p) -> default_port sch <> Some p.
Proof.
  unfold q_host_port. destruct (inp_split_prefix_char 58 rem) as [r|]; [|discriminate].
  destruct (inp_is_empty r); [discriminate|].
  destruct (parse_port CSetter (default_port sch) r) as [[q r2]| |] eqn:Ep; try discriminate.
  intros H. inversion H; subst. exact (parse_port_pn _ _ _ _ _ Ep).
Qed.

Lemma q_set_host_pn u v u' st : wfh u -> host_bad u u' = false ->
  q_set_host dbg hp hpo hd u v = Some (u', st) -> PN u -> PN u'.
Proof using HW.
  intros [W HT] G H K. destruct (host_bad_premises u u' W G) as [X2 X1].
  destruct st; [|rewrite (q_set_host_atomic dbg hp hpo hd u v u' _ H) by discriminate; exact K ..].
  destruct (q_set_host_post dbg hp hpo hd HF u v u' W X2 H) as (sch & h & Hs & [(Hf & -> & -> & P)|(rem & _ & P)]).
  - pose proof (q_set_host_shortcut dbg hp hpo hd u sch u' W Hs Hf H) as E.
    pose proof (set_host_internal_hosti dbg hd u (HDomain []) None u' E) as Hi. cbn [hi_of_host] in Hi.
    apply (host_set_post_pn u u' (HDomain [])); [|exact K]. apply P. intros Ha. exact (X1 Ha Hi).
  - destruct (q_host_port sch rem) as [np|] eqn:Eq; [|exact (host_set_post_pn u u' h P K)].
    destruct P as (_ & _ & Es & _ & _ & Ep & _). intros sch' p Hs' Hp. rewrite Es, Hs in Hs'. inversion Hs'; subst sch'.
    rewrite Ep in Hp. rewrite Hp in Eq. exact (q_host_port_pn sch rem p Eq).

Qed.

Lemma q_set_hostname_pn u v u' st : wfh u -> host_bad u u' = false ->
  q_set_hostname dbg hp hpo hd u v = Some (u', st) -> PN u -> PN u'.
Proof using HW.
  intros [W HT] G H K. destruct (host_bad_premises u u' W G) as [X2 X1].
  destruct st; [|rewrite (q_set_hostname_atomic dbg hp hpo hd u v u' _ H) by discriminate; exact K ..].
  destruct (q_set_hostname_post dbg hp hpo hd HF u v u' W X2 H) as (sch & h & Hs & [(Hf & -> & -> & P)|(_ & P)]).
  - pose proof (q_set_hostname_shortcut dbg hp hpo hd u sch u' W Hs Hf H) as E.
    pose proof (set_host_internal_hosti dbg hd u (HDomain []) None u' E) as Hi. cbn [hi_of_host] in Hi.
    apply (host_set_post_pn u u' (HDomain [])); [|exact K]. apply P. intros Ha. exact (X1 Ha Hi).
  - exact (host_set_post_pn u u' h P K).
Qed.

Lemma set_host_none_pn u u' st : wfh u -> (has_host u && path_starts_with_2slash u = false) ->
  set_host dbg hp hpo hd u None = Some (u', st) -> PN u -> PN u'.
Proof using.
  intros [W HT] G H K.
  destruct (set_host_none_ok dbg hp hpo hd u u' st W H) as (Herr & Hno & Hok).
  destruct st; [|rewrite Herr by discriminate; exact K ..].
  destruct (has_host u) eqn:Hh; [|rewrite (Hno eq_refl eq_refl); exact K].
  cbn [andb] in G. apply pn_none.
  destruct (path_empty_at_end u) eqn:He.
  - destruct (set_host_none_slash dbg hp hpo hd u u' W Hh He H) as [W' H'].
    destruct (set_host_none_ok dbg hp hpo hd (set_ser u (ser u ++ [47])) u' SOk W' H') as (_ & _ & Hok').
    assert (path_empty_at_end (set_ser u (ser u ++ [47])) = false) as X1.
    { unfold path_empty_at_end in He |- *. apply N.eqb_eq in He. cbn [ser set_ser path_start].
      apply N.eqb_neq. rewrite nlen_app. change (nlen [47]) with 1. lia. }
    assert (path_starts_with_2slash (set_ser u (ser u ++ [47])) = false) as X2.
    { unfold path_empty_at_end in He. apply N.eqb_eq in He. unfold path_starts_with_2slash. cbn [ser set_ser path_start].
      rewrite <- He. rewrite nskipn_app_exact. reflexivity. }
    exact (proj2 (proj2 (proj2 (proj2 (proj2 (proj2 (proj2 (Hok' eq_refl Hh X1 X2)))))))).
  - exact (proj2 (proj2 (proj2 (proj2 (proj2 (proj2 (proj2 (Hok eq_refl eq_refl eq_refl G)))))))).
Qed.

(* ---------- set_port, set_scheme and the rest ---------- *)
Lemma set_port_pn u p u' st : wfh u -> port_arg_ok p -> set_port dbg u p = Some (u', st) -> PN u -> PN u'.
Proof using.
  intros [W HT] Hp H K. destruct (set_port_ok dbg u p W HT Hp) as (u2 & st2 & E & Herr & Hok).
  rewrite H in E. inversion E; subst u2 st2.
  destruct st; [|rewrite Herr by discriminate; exact K ..].
  destruct (Hok eq_refl) as (_ & _ & (Es & _) & _ & sch & Hs & Ep).
  intros sch' x Hs' Hx. rewrite Es, Hs in Hs'. inversion Hs'; subst sch'. rewrite Ep in Hx. exact (norm_port_pn sch p x Hx).
Qed.

Lemma q_set_port_pn u v u' st : wfh u -> q_set_port dbg u v = Some (u', st) -> PN u -> PN u'.
Proof using.
  intros [W HT] H K. destruct (q_set_port_ok dbg u v W HT) as (u2 & st2 & E & Herr & Hok).
  rewrite H in E. inversion E; subst u2 st2.
  destruct st; [|rewrite Herr by discriminate; exact K ..].
  destruct (Hok eq_refl) as (_ & _ & (Es & _) & _ & sch & rem & Hs & Ep).
  intros sch' x Hs' Hx. rewrite Es, Hs in Hs'. inversion Hs'; subst sch'. rewrite Hx in Ep. exact (parse_port_pn _ _ _ _ _ Ep).
Qed.

Lemma set_scheme_pn u s u' st : wfh u -> set_scheme dbg u s = Some (u', st) -> PN u -> PN u'.
Proof using hp hpo hd.
  intros K H K0. destruct st; [|rewrite (set_scheme_atomic dbg u s u' _ H) by discriminate; exact K0 ..].
  destruct (frame_all dbg hp hpo hd u K) as (_ & _ & _ & _ & _ & F & _).
  destruct (get_all dbg hd u K) as (_ & _ & _ & _ & _ & Gt & _).
  destruct (couple_all dbg hp hpo hd u K) as (_ & _ & C).
  destruct (F s u' H) as (_ & _ & _ & _ & Fp). destruct (Gt s u' H) as (new & rem & Eps & Es).
  destruct (port u) as [p|] eqn:Ep.
  - pose proof (C s u' new rem p H Eps eq_refl) as Ep'.
    intros sch x Hs Hx. rewrite Es in Hs. inversion Hs; subst sch. rewrite Hx in Ep'.
    destruct (opt_eqb (Some p) (default_port new)) eqn:Eo; [discriminate|]. inversion Ep'; subst x.
    exact (opt_eqb_some_false _ _ Eo).
  - apply pn_none. destruct Fp as [Fp|Fp]; exact Fp.
Qed.

(* ---------- one step ---------- *)
Theorem pn_step u o u' : IpDisp hd -> wfh u -> op_args_ok o -> excl03 u o u' = false ->
  apply_op dbg hp hpo hd u o = Some u' -> PN u -> PN u'.
Proof using HW.
  intros HIP K Ha G H K0.
  destruct (frame_all dbg hp hpo hd u K) as (F1 & F2 & _ & F4 & F5 & _).
  destruct o; cbn [apply_op excl03 op_args_ok] in H, G, Ha; try (apply omf_some in H; destruct H as [st H]).
  - destruct (F1 _ _ H) as [[(Es & _ & _ & _ & Ep) _] _]. exact (pn_same u u' Es Ep K0).
  - destruct (F2 _ _ Ha H) as [[(Es & _ & _ & _ & Ep) _] _]. exact (pn_same u u' Es Ep K0).
  - apply orb_false_iff in G. destruct G as [G G3]. apply orb_false_iff in G. destruct G as [G1 G2].
    apply negb_false_iff in G1. apply auth_end_b_ok in G1.
    apply (set_path_pn u p u' K Ha G1); [|exact G3 | exact H | exact K0].
    intros Ho. rewrite Ho in G2. cbn [andb] in G2. apply negb_false_iff in G2. exact G2.
  - exact (set_port_pn u p u' st K Ha H K0).
  - destruct h as [x|].
    + exact (set_host_some_pn u x u' st K G H K0).
    + exact (set_host_none_pn u u' st K G H K0).
  - exact (set_ip_host_pn u h u' st K (HIP h Ha) G H K0).
  - destruct st; [|rewrite (set_password_atomic dbg u p u' _ H) by discriminate; exact K0 ..].
    destruct (F4 _ _ H) as (Es & _ & _ & Ep & _). exact (pn_same u u' Es Ep K0).
  - destruct st; [|rewrite (set_username_atomic dbg u s u' _ H) by discriminate; exact K0 ..].
    destruct (F5 _ _ H) as (Es & _ & _ & Ep & _). exact (pn_same u u' Es Ep K0).
  - exact (set_scheme_pn u s u' st K H K0).
  - exact (session_pn u ops u' st K Ha G H K0).
  - unfold q_set_protocol in H. cbv zeta in H. exact (set_scheme_pn u _ u' st K H K0).
  - destruct st; [|rewrite (set_username_atomic dbg u s u' _ H) by discriminate; exact K0 ..].
    destruct (F5 _ _ H) as (Es & _ & _ & Ep & _). exact (pn_same u u' Es Ep K0).
  - unfold q_set_password in H.
    destruct st; [|rewrite (set_password_atomic dbg u _ u' _ H) by discriminate; exact K0 ..].
    destruct (F4 _ _ H) as (Es & _ & _ & Ep & _). exact (pn_same u u' Es Ep K0).
  - exact (q_set_host_pn u s u' st K G H K0).
  - exact (q_set_hostname_pn u s u' st K G H K0).
  - exact (q_set_port_pn u s u' st K H K0).
  - apply orb_false_iff in G. destruct G as [G1 G3]. apply negb_false_iff in G1. apply auth_end_b_ok in G1.
    exact (q_set_pathname_pn u s u' K Ha G1 G3 H K0).
  - unfold q_set_search in H.
    assert (str_arg_ok (match s with [] => None | 63 :: r => Some r | _ => Some s end)) as Hq.
    { destruct s as [|c r]; [exact I|]. destruct (N.eq_dec c 63) as [->|Hc].
      - exact (usv_tail03 _ _ Ha).
      - unfold str_arg_ok. destruct c as [|q]; [exact Ha|]. do 6 (destruct q as [q|q|]; try exact Ha). contradiction. }
    destruct (F2 _ _ Hq H) as [[(Es & _ & _ & _ & Ep) _] _]. exact (pn_same u u' Es Ep K0).
  - unfold q_set_hash in H. destruct (F1 _ _ H) as [[(Es & _ & _ & _ & Ep) _] _]. exact (pn_same u u' Es Ep K0).
Qed.

End Steps.

(* ---------- the file records, and histories ---------- *)
Lemma file_rec_pn P : PN (file_rec P).
Proof. apply pn_none. reflexivity. Qed.

Section Reach.
Variable dbg : bool.
Variable hp hpo : list N -> result host.
Variable hd : host -> list N.

(* the parser never stores a default port: NOT proved here (see the header) *)
Definition ParsePN : Prop :=
  forall ovr base input u, match base with Some b => wf_b b = true /\ PN b | None => True end ->
    parse_url dbg hp hpo hd ovr base input = POk u -> PN u.

Theorem reach03a_pn : HostWf hp hpo hd -> IpDisp hd -> ParsePN -> forall u, reach03a dbg hp hpo hd u -> PN u.
Proof.
  intros HW HIP HP u R.
  assert (wfh u /\ PN u) as [_ X]; [|exact X].
  induction R as [ovr input u Hp | ovr b input u Rb IHb Hb Hp | p u Hb H | p u Hb H | u o u' R IH Ha G H].
  - split; [exact (reach03a_wfh dbg hp hpo hd HW HIP u (RA_parse dbg hp hpo hd ovr input u Hp))|].
    exact (HP ovr None input u I Hp).
  - split; [exact (reach03a_wfh dbg hp hpo hd HW HIP u (RA_join dbg hp hpo hd ovr b input u Rb Hb Hp))|].
    destruct IHb as [[Wb _] Pb]. exact (HP ovr (Some b) input u (conj Wb Pb) Hp).
  - split; [exact (from_file_path_wfh p u Hb H)|].
    destruct (path_is_absolute p) eqn:Ea.
    + rewrite (from_file_path_spec p Hb Ea) in H. inversion H. apply file_rec_pn.
    + rewrite (proj1 (from_file_path_rel p Ea)) in H. discriminate.
  - split; [exact (from_directory_path_wfh p u Hb H)|].
    destruct (path_is_absolute p) eqn:Ea.
    + rewrite (from_directory_path_spec p Hb Ea) in H. inversion H. apply file_rec_pn.
    + rewrite (proj2 (from_file_path_rel p Ea)) in H. discriminate.
  - destruct IH as [Ku Pu]. destruct (known03_false u o u' G) as [->|G']; [split; assumption|].
    split; [exact (step03 dbg hp hpo hd HW u o u' HIP Ku Ha G' H) | exact (pn_step dbg hp hpo hd HW u o u' HIP Ku Ha G' H Pu)].
Qed.
End Reach.
