(* Proofs/C16_UniHost.v - C16, the Unicode serialization of an origin, host level: the premise
     hp (tu d) = Ok (HDomain d)
   of C16_rt_parsed_unicode for the host MODEL (Model/Host.v, idna = idna_of A cfg of Proofs/C09_InstIdna.v = the IDNA
   model at the URL deny list) and the ToUnicode MODEL (Model/Uts46.v), from C12 (clause a_of_u, Proofs/Idna_C12d_*.v).
   uni_host_rt: for a domain d that Host::parse returned (a fixed point of ToASCII at the URL deny list, not empty, not
   ending in a number), outside Known_C12 / Known_C10_long, Host::parse reads the Unicode form t of d - ToUnicode at the
   URL deny list - back as the domain d, when t has no '%' in it and does not start with '['.
   WHAT REMAINS (stated as premises, see uni_host_rt_origin):
     (P1) origin.rs calls idna::domain_to_unicode = ToUnicode with the EMPTY deny list, Host::parse calls ToASCII with the
          URL deny list: the two ToUnicode texts of an ASCII form accepted at the URL deny list must be shown equal (a
          monotonicity of process_inner in the deny list on error-free runs; not proved);
     (P2) the Unicode form contains no '%' and does not start with '[' (both are on the URL deny list, so they cannot
          occur in a text whose ToASCII at that list succeeds; the input-side fact is not proved);
     and C16_rt_parsed_unicode itself covers plain ASCII host text only: the parser model on a non-ASCII authority. *)
From RU Require Import Base.Prelude Base.Utf8 Base.Utf8Facts Base.U32_c13 Gen.Tables Model.Punycode Model.Uts46
  Proofs.Idna_Sim Proofs.Idna_Api Proofs.Idna_Known Proofs.Idna_Hyp Proofs.Idna_C10_Inner Proofs.Idna_C10b_Long Proofs.Idna_C10b_Stmt
  Proofs.Idna_WalkEnc Proofs.Idna_C10c_Drun Proofs.Idna_C10c_Example Proofs.Idna_C12c_Stmt4 Proofs.Idna_C12d_Round Proofs.Idna_C12d_Stmt5.
From RU Require Import Model.HostT Model.Host Proofs.C09_Host Proofs.C09_InstIdna.

Section UniHost.
Variable A : adapter.
Variable cfg : bool.
Hypothesis HOK : AdapterOK A.
Hypothesis HUSV : AdapterUSV A.
Hypothesis HNT : NvNoTrunc A.
Hypothesis HNI : NvIdem A.
Hypothesis HNM : AsciiNoMark A.
Hypothesis HMP : MapPrefix A.
Hypothesis HMF : NvMapFix A.
Hypothesis HNG : NvNoGrow A.

Theorem uni_host_rt d b : bytes d -> to_ascii A cfg d DENY_URL HAllow DIgnore = U32_c13.Ok (b, d) ->
  Known_C12 A cfg d DENY_URL HAllow = false -> Known_C10_long d = false ->
  d <> [] -> ends_in_a_number d = false ->
  let t := ui_text (to_unicode A cfg d DENY_URL HAllow) in
  ~ In 37 (utf8_encode t) -> Host.starts_with 91 t = false ->
  host_parse (idna_of A cfg) t = HostT.Ok (HDomain d).
Proof.
  intros Hb H HK Hlong Hne Hnum t Hpct Hbr.
  destruct (c12_all A cfg HOK HUSV HNT HNI HNM HMP HMF HNG d DENY_URL HAllow b d Hb valid_deny_url HK H Hlong) as (_ & (b' & Ha) & _).
  pose proof (c12_unicode_usv A cfg HOK HUSV HNT HNI HNM HMP HMF HNG d DENY_URL HAllow b d Hb valid_deny_url HK H Hlong) as Hu.
  fold t in Ha, Hu.
  unfold host_parse, host_parse_x. rewrite Hbr. rewrite (decode_no_pct _ Hpct).
  assert (Eb : forallb is_byteb (utf8_encode t) = true).
  { apply forallb_forall. intros c Hc. pose proof (utf8_encode_bytes t Hu) as Hbt. unfold bytes in Hbt. rewrite Forall_forall in Hbt.
    specialize (Hbt c Hc). unfold is_byte in Hbt. unfold is_byteb. lia. }
  unfold idna_of. rewrite Eb. unfold domain_to_ascii_cow. rewrite Ha.
  destruct d as [|x r]; [contradiction Hne; reflexivity|]. rewrite Hnum. reflexivity.
Qed.

(* the same for the text that origin.rs displays - idna::domain_to_unicode, the EMPTY deny list - relative to (P1) *)
Theorem uni_host_rt_origin d b : Forall (fun c => c < 128) d -> to_ascii A cfg d DENY_URL HAllow DIgnore = U32_c13.Ok (b, d) ->
  Known_C12 A cfg d DENY_URL HAllow = false -> Known_C10_long d = false ->
  d <> [] -> ends_in_a_number d = false ->
  let t := ui_text (domain_to_unicode A cfg d) in
  ui_text (to_unicode A cfg d DENY_EMPTY HAllow) = ui_text (to_unicode A cfg d DENY_URL HAllow) ->
  ~ In 37 (utf8_encode t) -> Host.starts_with 91 t = false ->
  host_parse (idna_of A cfg) t = HostT.Ok (HDomain d).
Proof.
  intros Ha H HK Hlong Hne Hnum t HP1 Hpct Hbr.
  assert (Hb : bytes d) by (unfold bytes; eapply Forall_impl; [|exact Ha]; intros c Hc; unfold is_byte; cbv beta in Hc; lia).
  assert (Et : t = ui_text (to_unicode A cfg d DENY_URL HAllow)).
  { unfold t, domain_to_unicode. rewrite (C09_Host.utf8_encode_ascii d Ha). exact HP1. }
  rewrite Et in *. exact (uni_host_rt d b Hb H HK Hlong Hne Hnum Hpct Hbr).
Qed.
End UniHost.

(* the premises hold for the adapter lowsan4 and the domain a.xn--bcher-kva; Host::parse reads its Unicode form
   a.b<u-umlaut>cher back as that domain *)
Example uni_host_example :
  to_ascii lowsan4 true W_stmt5_A DENY_URL HAllow DIgnore = U32_c13.Ok (true, W_stmt5_A) /\
  Known_C12 lowsan4 true W_stmt5_A DENY_URL HAllow = false /\ Known_C10_long W_stmt5_A = false /\
  ends_in_a_number W_stmt5_A = false /\
  ui_text (domain_to_unicode lowsan4 true W_stmt5_A) = W_stmt5_U /\
  ui_text (to_unicode lowsan4 true W_stmt5_A DENY_EMPTY HAllow) = ui_text (to_unicode lowsan4 true W_stmt5_A DENY_URL HAllow) /\
  existsb (N.eqb 37) (utf8_encode W_stmt5_U) = false /\ Host.starts_with 91 W_stmt5_U = false /\
  host_parse (idna_of lowsan4 true) W_stmt5_U = HostT.Ok (HDomain W_stmt5_A).
Proof. vm_compute. repeat split; reflexivity. Qed.
